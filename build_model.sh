#!/bin/bash
# Extract the model and specifications from the compiled Coq development and build the driver.
set -e
cd "$(dirname "$0")"
mkdir -p ocaml/gen
( cd ocaml/gen && coqc -q -Q ../../coq Suiron ../../coq/Extract/Extract.v >/dev/null \
  && rm -f ../../coq/Extract/Extract.vo ../../coq/Extract/Extract.glob ../../coq/Extract/.Extract.aux ../../coq/Extract/Extract.vok ../../coq/Extract/Extract.vos )
( cd ocaml && dune build ./driver.exe 2>&1 )
