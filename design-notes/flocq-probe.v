From Coq Require Import ZArith List String.
From Flocq Require Import IEEE754.BinarySingleNaN IEEE754.Binary IEEE754.Bits Core.Zaux.
Import ListNotations.
Open Scope Z_scope.

Definition f64 := binary64.
Definition of_bits (z: Z) : f64 := b64_of_bits z.
Definition to_bits (f: f64) : Z := bits_of_b64 f.
Definition fadd (a b: f64) : f64 := b64_plus mode_NE a b.
Definition fdiv (a b: f64) : f64 := b64_div mode_NE a b.
Definition fmul (a b: f64) : f64 := b64_mult mode_NE a b.
(* i64 -> f64, round to nearest even *)
Definition of_int (z: Z) : f64 := Binary.binary_normalize 53 1024 eq_refl eq_refl mode_NE z 0 false.

Definition one := of_int 1.
Definition three := of_int 3.
Eval vm_compute in to_bits (fdiv one three).
Eval vm_compute in to_bits (of_int 9007199254740993).
Eval vm_compute in to_bits (of_int (-9223372036854775808)).
Eval vm_compute in to_bits (fadd (of_bits 0) (of_bits (2^63))).  (* 0.0 + -0.0 *)
Definition lt (a b: f64) : bool := match Binary.Bcompare _ _ a b with Some Lt => true | _ => false end.
Eval vm_compute in lt one three.
Print Assumptions fdiv.
Print Assumptions of_int.
Require Import Extraction ExtrOcamlBasic.
Extraction "f.ml" fadd fdiv fmul of_int of_bits to_bits lt.
