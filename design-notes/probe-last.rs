use std::rc::Rc;
use suiron::*;

fn run(rules: &[&str], query: &str, asks: usize) {
    let mut kb = KnowledgeBase::new();
    for r in rules {
        match parse_rule(r) {
            Ok(rule) => { add_rules!(&mut kb, rule); }
            Err(e) => { println!("RULE ERR {}: {}", r, e); return; }
        }
    }
    println!("--- KB:\n{}", format_kb(&kb));
    let q = match parse_query(query) { Ok(q) => q, Err(e) => { println!("QERR {}", e); return; } };
    let q = Rc::new(q);
    let sn = make_base_node(Rc::clone(&q), &kb);
    for i in 0..asks {
        match next_solution(Rc::clone(&sn)) {
            Some(ss) => { println!("[{}] {}", i, q.replace_variables(&ss)); }
            None => { println!("[{}] None", i); }
        }
    }
}


fn p<T: std::fmt::Debug>(name: &str, f: impl FnOnce() -> T + std::panic::UnwindSafe) {
    match std::panic::catch_unwind(f) {
        Ok(v) => println!("{} => {:?}", name, v),
        Err(_) => println!("{} => PANIC", name),
    }
}

fn main() {
    start_query();
    // C22: stale stop flag
    let mut kb = KnowledgeBase::new();
    for r in ["loop($X) :- loop($X).", "f(1).", "f(2)."] { add_rules!(&mut kb, parse_rule(r).unwrap()); }
    let q = Rc::new(parse_query("f($X)").unwrap());
    let sn = make_base_node(Rc::clone(&q), &kb);
    println!("before: {:?}", solve_all(sn));
    stop_query(); // what a timed-out query leaves behind
    let q = Rc::new(parse_query("f($X)").unwrap());
    let sn = make_base_node(Rc::clone(&q), &kb);
    println!("after stale flag (solve_all): {:?}", solve_all(sn));
    stop_query();
    let q = Rc::new(parse_query("f($X)").unwrap());
    let sn = make_base_node(Rc::clone(&q), &kb);
    println!("after stale flag (next_solution): {:?}", next_solution(sn).is_some());
    start_query();
    // C21
    let dir = std::env::temp_dir();
    for (i, txt) in ["p($X) :- $X =\n 5.\nq(1).\n", "p($X) :- $X = 1.5, r(1).\nq(1).\n", "p(1.5).\n", "p($X) :-\n  q($X),\n  r($X).\n", "p(a) :- print(100%). % c\n"].iter().enumerate() {
        let f = dir.join(format!("probe{}.txt", i));
        std::fs::write(&f, txt).unwrap();
        let mut kb = KnowledgeBase::new();
        let r = load_kb_from_file(&mut kb, f.to_str().unwrap());
        println!("file {:?} => {:?}\n{}", txt, r, format_kb(&kb));
        std::fs::remove_file(&f).unwrap();
    }
}
