// Throw-away probe: real unify() vs a textbook reference unifier on a small universe.
use std::collections::{BTreeMap, HashMap};
use std::rc::Rc;
use suiron::*;

#[derive(Clone, Debug, PartialEq)]
enum R { A(String), I(i64), F(u64), V(usize), Anon, C(Vec<R>), L(Vec<R>, Option<Box<R>>) , Bad(String)}

fn to_r(u: &Unifiable) -> R {
    match u {
        Unifiable::Atom(s) => R::A(s.clone()),
        Unifiable::SInteger(i) => R::I(*i),
        Unifiable::SFloat(f) => R::F(f.to_bits()),
        Unifiable::LogicVar{id, ..} => R::V(*id),
        Unifiable::Anonymous => R::Anon,
        Unifiable::SComplex(ts) => R::C(ts.iter().map(to_r).collect()),
        Unifiable::SLinkedList{..} => {
            let mut elems = vec![]; let mut cur = u;
            loop {
                match cur {
                    Unifiable::SLinkedList{term, next, tail_var, ..} => {
                        if **term == Unifiable::Nil { return R::L(elems, None); }
                        if *tail_var { return R::L(elems, Some(Box::new(to_r(term)))); }
                        elems.push(to_r(term)); cur = next;
                    }
                    Unifiable::Nil => { return R::Bad("no terminator".into()); }
                    _ => { return R::Bad("bad next".into()); }
                }
            }
        }
        other => R::Bad(format!("{:?}", other)),
    }
}

// normalise lists: a tail that is itself a list is spliced
fn norm(r: R) -> R {
    match r {
        R::C(ts) => R::C(ts.into_iter().map(norm).collect()),
        R::L(es, t) => {
            let mut es: Vec<R> = es.into_iter().map(norm).collect();
            match t.map(|b| norm(*b)) {
                Some(R::L(es2, t2)) => { es.extend(es2); R::L(es, t2) }
                Some(x) => R::L(es, Some(Box::new(x))),
                None => R::L(es, None),
            }
        }
        x => x,
    }
}

type Sub = HashMap<usize, R>;
fn walk(t: &R, s: &Sub) -> R { let mut t = t.clone(); loop { match &t { R::V(i) => match s.get(i) { Some(x) => t = x.clone(), None => return t }, _ => return t } } }
fn apply(t: &R, s: &Sub) -> R {
    let t = walk(t, s);
    norm(match t {
        R::C(ts) => R::C(ts.iter().map(|x| apply(x, s)).collect()),
        R::L(es, tl) => R::L(es.iter().map(|x| apply(x, s)).collect(), tl.map(|b| Box::new(apply(&b, s)))),
        x => x,
    })
}
fn occurs(i: usize, t: &R, s: &Sub) -> bool {
    match walk(t, s) { R::V(j) => i == j, R::C(ts) => ts.iter().any(|x| occurs(i, x, s)),
        R::L(es, tl) => es.iter().any(|x| occurs(i, x, s)) || tl.map_or(false, |b| occurs(i, &b, s)), _ => false }
}
#[derive(Debug, PartialEq, Clone)]
enum Out { Yes, No, Occurs }
fn runify(a: &R, b: &R, s: &mut Sub) -> Out {
    let a = walk(a, s); let b = walk(b, s);
    match (&a, &b) {
        (R::Anon, _) | (_, R::Anon) => Out::Yes,
        (R::V(i), R::V(j)) if i == j => Out::Yes,
        (R::V(i), t) | (t, R::V(i)) => { if occurs(*i, t, s) { return Out::Occurs; } s.insert(*i, t.clone()); Out::Yes }
        (R::A(x), R::A(y)) => if x == y { Out::Yes } else { Out::No },
        (R::I(x), R::I(y)) => if x == y { Out::Yes } else { Out::No },
        (R::F(x), R::F(y)) => if f64::from_bits(*x) == f64::from_bits(*y) { Out::Yes } else { Out::No },
        (R::C(x), R::C(y)) => { if x.len() != y.len() { return Out::No; }
            for (p, q) in x.iter().zip(y.iter()) { match runify(p, q, s) { Out::Yes => {}, o => return o } } Out::Yes }
        (R::L(..), R::L(..)) => {
            let (xe, xt) = match norm(a.clone()) { R::L(e, t) => (e, t), _ => unreachable!() };
            let (ye, yt) = match norm(b.clone()) { R::L(e, t) => (e, t), _ => unreachable!() };
            let n = xe.len().min(ye.len());
            for k in 0..n { match runify(&xe[k], &ye[k], s) { Out::Yes => {}, o => return o } }
            let xr = R::L(xe[n..].to_vec(), xt.clone()); let yr = R::L(ye[n..].to_vec(), yt.clone());
            match (xe.len() - n, ye.len() - n) {
                (0, 0) => match (xt, yt) { (None, None) => Out::Yes, (Some(t), None) => runify(&t, &R::L(vec![], None), s),
                                           (None, Some(t)) => runify(&t, &R::L(vec![], None), s), (Some(t), Some(u)) => runify(&t, &u, s) },
                (0, _) => match xt { Some(t) => runify(&t, &yr, s), None => Out::No },
                (_, 0) => match yt { Some(t) => runify(&t, &xr, s), None => Out::No },
                _ => unreachable!(),
            }
        }
        _ => Out::No,
    }
}
// canonical view of variables 1..=3: unbound vars numbered by first occurrence, anon as "_"
fn canon(ts: &[R]) -> String {
    fn go(t: &R, m: &mut BTreeMap<usize, usize>, out: &mut String) {
        match t { R::V(i) => { let n = m.len(); let k = *m.entry(*i).or_insert(n); out.push_str(&format!("?{}", k)); }
            R::Anon => out.push('_'), R::A(s) => out.push_str(s), R::I(i) => out.push_str(&i.to_string()), R::F(b) => out.push_str(&format!("f{:x}", b)),
            R::C(ts) => { out.push('('); for x in ts { go(x, m, out); out.push(' '); } out.push(')'); }
            R::L(es, tl) => { out.push('['); for x in es { go(x, m, out); out.push(' '); } if let Some(t) = tl { out.push('|'); go(t, m, out); } out.push(']'); }
            R::Bad(s) => out.push_str(&format!("BAD<{}>", s)) } }
    let mut m = BTreeMap::new(); let mut out = String::new();
    for t in ts { go(t, &mut m, &mut out); out.push(';'); } out
}
fn has_anon(t: &R) -> bool { match t { R::Anon => true, R::C(ts) => ts.iter().any(has_anon), R::L(es, tl) => es.iter().any(has_anon) || tl.as_ref().map_or(false, |b| has_anon(b)), _ => false } }
fn acyclic(ss: &SubstitutionSet) -> bool {
    for start in 0..ss.len() { let mut id = start; let mut steps = 0;
        loop { if id >= ss.len() { break; } match &ss[id] { None => break, Some(t) => match &**t { Unifiable::LogicVar{id: j, ..} => { id = *j; steps += 1; if steps > 50 { return false; } }, _ => break } } } }
    true
}

fn universe() -> Vec<Unifiable> {
    let v = |i: usize| logic_var!(i, ["$X", "$Y", "$Z"][i - 1]);
    let leaves: Vec<Unifiable> = vec![atom!("a"), atom!("b"), SInteger(1), SFloat(1.0), v(1), v(2), v(3), anon!()];
    let mut u = leaves.clone();
    for l in &leaves { u.push(scomplex!(atom!("f"), l.clone())); }
    for l in leaves.iter().take(6) { for m in leaves.iter().skip(3) { u.push(scomplex!(atom!("g"), l.clone(), m.clone())); } }
    u.push(slist!());
    for l in &leaves { u.push(slist!(false, l.clone())); }
    for l in leaves.iter().take(6) { for m in leaves.iter().skip(3) { u.push(slist!(false, l.clone(), m.clone())); } }
    for l in &leaves { for t in 1..=3 { u.push(slist!(true, l.clone(), v(t))); } }
    for l in leaves.iter().skip(4) { for t in 1..=2 { u.push(slist!(true, atom!("a"), l.clone(), v(t))); } }
    u.push(slist!(false, slist!(), atom!("a")));          // [[], a]
    u.push(slist!(false, slist!(false, v(1)), v(2)));     // [[$X], $Y]
    u
}

fn main() {
    start_query();
    let u = universe();
    
    let vars: Vec<Unifiable> = (1..=3).map(|i| logic_var!(i, ["$X", "$Y", "$Z"][i - 1])).collect();
    let mut stats: BTreeMap<&str, usize> = BTreeMap::new();
    let mut examples: BTreeMap<&str, Vec<String>> = BTreeMap::new();
    let mut note = |k: &'static str, ex: String, stats: &mut BTreeMap<&str, usize>, examples: &mut BTreeMap<&str, Vec<String>>| {
        *stats.entry(k).or_insert(0) += 1; let e = examples.entry(k).or_insert(vec![]); if e.len() < 6 { e.push(ex); } };
    let args: Vec<String> = std::env::args().collect();
    let pi: usize = args[1].parse().unwrap(); let ai: usize = args[2].parse().unwrap();
    let bsel: Option<usize> = args.get(3).map(|x| x.parse().unwrap());
    let v = |i: usize| logic_var!(i, ["$X", "$Y", "$Z"][i - 1]);
    let prior_steps: Vec<Vec<(Unifiable, Unifiable)>> = vec![
        vec![], vec![(v(1), atom!("a"))], vec![(v(1), v(2))], vec![(v(2), v(1))], vec![(v(2), scomplex!(atom!("f"), v(3)))],
        vec![(v(1), slist!(true, atom!("a"), v(2)))], vec![(v(3), slist!())], vec![(v(1), v(2)), (v(2), atom!("b"))],
        vec![(v(1), v(2)), (v(2), v(3))], vec![(v(3), slist!(false, atom!("a"), atom!("b")))], vec![(v(1), SInteger(1)), (v(2), SFloat(1.0))],
        vec![(v(1), scomplex!(atom!("g"), v(2), v(3))), (v(3), atom!("a"))],
    ];
    if pi >= prior_steps.len() { println!("NOPRIOR"); return; }
    let mut pss = empty_ss!(); let mut psub = Sub::new(); let mut pname = String::new();
    for (l, r) in &prior_steps[pi] { pss = l.unify(r, &pss).unwrap(); assert!(runify(&to_r(l), &to_r(r), &mut psub) == Out::Yes); pname += &format!("{} = {}, ", l, r); }
    let pss = &pss; let psub = &psub;
    if ai >= u.len() { println!("NOTERM"); return; }
    {
        for a in &u[ai..ai + 1] { for (bi, b) in u.iter().enumerate() {
            if let Some(k) = bsel { if k != bi { continue; } }
            let (ra, rb) = (to_r(a), to_r(b));
            let mut s = psub.clone();
            let r = runify(&ra, &rb, &mut s);
            if r == Out::Occurs { *stats.entry("skipped-occurs").or_insert(0) += 1; continue; }
            let ex = format!("prior[{}]  {} = {}", pname, a, b);
            let i1 = a.unify(b, pss); let i2 = b.unify(a, pss);
            *stats.entry("cases").or_insert(0) += 1;
            if i1.is_some() != i2.is_some() { note("C07 success asymmetric", format!("{}  fwd={} bwd={}", ex, i1.is_some(), i2.is_some()), &mut stats, &mut examples); }
            match (&i1, &r) {
                (Some(_), Out::No) => note("C06 succeeds but not unifiable", ex.clone(), &mut stats, &mut examples),
                (None, Out::Yes) => note("C06 fails but unifiable", ex.clone(), &mut stats, &mut examples),
                _ => {}
            }
            if let (Some(ss), Out::Yes) = (&i1, &r) {
                if !acyclic(ss) { note("C08 cycle", ex.clone(), &mut stats, &mut examples); continue; }
                for (i, e) in pss.iter().enumerate() { if let Some(t) = e { if ss.get(i).and_then(|x| x.as_ref()).map(|x| &**x) != Some(&**t) { note("C06 earlier binding changed", ex.clone(), &mut stats, &mut examples); } } }
                let iv: Vec<R> = vars.iter().map(|v| norm(to_r(&v.replace_variables(ss)))).collect();
                let rv: Vec<R> = vars.iter().map(|v| apply(&to_r(v), &s)).collect();
                if iv.iter().any(|t| matches!(t, R::Anon)) && !rv.iter().any(|t| matches!(t, R::Anon)) {
                    note("C09 variable bound to $_", ex.clone(), &mut stats, &mut examples);
                } else if !iv.iter().chain(rv.iter()).any(has_anon) && canon(&iv) != canon(&rv) {
                    note("C06 result differs from mgu", format!("{}  impl={} ref={}", ex, canon(&iv), canon(&rv)), &mut stats, &mut examples);
                }
            }
        } }
    }
    for (k, v) in &stats { println!("S\t{}\t{}", k, v); }
    for (k, v) in &examples { for e in v { println!("E\t{}\t{}", k, e); } }
    return;
    for (k, v) in &stats { println!("{:40} {}", k, v); }
    for (k, v) in &examples { println!("--- {}", k); for e in v { println!("    {}", e); } }
}
