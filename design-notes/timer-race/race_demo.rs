// A timer that has passed its generation check just before cancel_timer() stops the NEXT query.
use std::rc::Rc;
use std::thread;
use std::time::Duration;
use suiron::*;

#[test]
fn stale_timer_stops_next_query() {
    let mut kb = KnowledgeBase::new();
    let f1 = parse_rule("n(1).").unwrap();
    let f2 = parse_rule("n(2).").unwrap();
    add_rules!(&mut kb, f1, f2);
    // query 1: its timer fires after 50 ms, passes the generation check and is then delayed
    let t1 = start_query_timer(50);
    thread::sleep(Duration::from_millis(100));   // the callback is now between check and store
    cancel_timer(t1);                            // query 1 is over
    // query 2, a fast one, under a fresh (long) timer
    let q = Rc::new(parse_query("n($X)").unwrap());
    let sn = make_base_node(Rc::clone(&q), &kb);
    let t2 = start_query_timer(5000);
    thread::sleep(Duration::from_millis(400));   // the stale callback of timer 1 now sets the flag
    let stopped = query_stopped();
    let (results, _) = (solve_all_inner(&sn), 0);
    cancel_timer(t2);
    assert!(!stopped, "the flag was raised by the timer of the PREVIOUS query");
    assert_eq!(results, 2);
}

fn solve_all_inner<'a>(sn: &std::rc::Rc<std::cell::RefCell<SolutionNode<'a>>>) -> usize {
    let mut n = 0;
    while let Some(_) = next_solution(Rc::clone(sn)) { n += 1; }
    n
}
