From Coq Require Import List Bool.
From Param Require Import Param.
Import ListNotations.
Section M.
Variable name : Type.
Variable neqb : name -> name -> bool.
Inductive tm := V (id: nat) (n: name) | C (ts: list tm) | A (k: nat).
Fixpoint lookup (m: list (name*nat)) (x: name) : option nat :=
  match m with [] => None | (y,i)::m' => if neqb x y then Some i else lookup m' x end.
Fixpoint ren (fuel: nat) (t: tm) (m: list (name*nat)) (c: nat) : (tm * list (name*nat) * nat) :=
  match fuel with O => (t,m,c) | S f =>
  match t with
  | V _ n => match lookup m n with Some i => (V i n, m, c) | None => (V (S c) n, (n,S c)::m, S c) end
  | A k => (A k, m, c)
  | C ts => let '(ts', m', c') := fold_left (fun acc t => let '(l, m, c) := acc in let '(t', m', c') := ren f t m c in (l ++ [t'], m', c')) ts ([], m, c) in (C ts', m', c')
  end end.
End M.
Parametricity Recursive ren.
Check ren_R.
Print Assumptions ren_R.
