
import subprocess, collections, sys
stats=collections.Counter(); ex=collections.defaultdict(list); crashes=[]
def run(args):
    p=subprocess.run(["./target/debug/probe"]+[str(a) for a in args],capture_output=True,text=True)
    return p.returncode, p.stdout
def absorb(out):
    for l in out.splitlines():
        f=l.split("\t")
        if f[0]=="S": stats[f[1]]+=int(f[2])
        elif f[0]=="E" and len(ex[f[1]])<8: ex[f[1]].append(f[2])
for p in range(12):
    for a in range(200):
        rc,out=run([p,a])
        if "NOTERM" in out: break
        if rc==0: absorb(out); continue
        for b in range(200):
            rc2,out2=run([p,a,b])
            if "NOTERM" in out2: break
            if rc2==0: absorb(out2)
            else:
                stats["CRASH (stack overflow / abort)"]+=1
                if len(crashes)<12: crashes.append((p,a,b))
for k,v in sorted(stats.items()): print(f"{k:45} {v}")
for k,v in ex.items():
    print("---",k)
    for e in v: print("    ",e)
print("crashes (prior,a,b):",crashes)
