From Coq Require Import List Arith Lia Bool.
Import ListNotations.

Definition st := nat.

Inductive goal :=
| GCall (p: nat)
| GAnd (gs: list goal)
| GOr (gs: list goal)
| GPrim (f: st -> option st).

Record clause := { hd : st -> option st; body : option goal }.
Definition kb := nat -> list clause.

Inductive node :=
| NCall (p: nat) (s: st) (child: option node) (idx: nat)
| NAnd (head: node) (tail: option node) (rest: list goal)
| NOr (s: st) (head: node) (tail: option node) (rest: list goal)
| NPrim (f: st -> option st) (s: st) (more: bool)
| NBad.

Fixpoint mk (g: goal) (s: st) : node :=
  match g with
  | GCall p => NCall p s None 0
  | GAnd (g1 :: gs) => NAnd (mk g1 s) None gs
  | GOr (g1 :: gs) => NOr s (mk g1 s) None gs
  | GPrim f => NPrim f s true
  | _ => NBad
  end.

Section K.
Variable k : kb.

(* one call of next_solution, big-step *)
Inductive nexts : node -> node -> option st -> Prop :=
| N_prim_more f s : nexts (NPrim f s true) (NPrim f s false) (f s)
| N_prim_done f s : nexts (NPrim f s false) (NPrim f s false) None
(* Call: child has another solution *)
| N_call_child p s c c' a idx :
    nexts c c' (Some a) -> nexts (NCall p s (Some c) idx) (NCall p s (Some c') idx) (Some a)
| N_call_child_done p s c c' idx n' r :
    nexts c c' None -> cloop p s None idx n' r ->
    nexts (NCall p s (Some c) idx) n' r
| N_call_nochild p s idx n' r :
    cloop p s None idx n' r -> nexts (NCall p s None idx) n' r
(* And *)
| N_and_tail h t t' a rest :
    nexts t t' (Some a) -> nexts (NAnd h (Some t) rest) (NAnd h (Some t') rest) (Some a)
| N_and_tail_done h t t' rest n' r :
    nexts t t' None -> aloop h (Some t') rest n' r -> nexts (NAnd h (Some t) rest) n' r
| N_and_notail h rest n' r :
    aloop h None rest n' r -> nexts (NAnd h None rest) n' r
(* Or *)
| N_or_tail s h t t' r rest :
    nexts t t' r -> nexts (NOr s h (Some t) rest) (NOr s h (Some t') rest) r
| N_or_head s h h' a rest :
    nexts h h' (Some a) -> nexts (NOr s h None rest) (NOr s h' None rest) (Some a)
| N_or_head_done_nil s h h' :
    nexts h h' None -> nexts (NOr s h None []) (NOr s h' None []) None
| N_or_head_done s h h' g gs t' r :
    nexts h h' None -> nexts (mk (GOr (g :: gs)) s) t' r ->
    nexts (NOr s h None (g :: gs)) (NOr s h' (Some t') (g :: gs)) r
(* clause loop of a Call node; child field as left by the Rust code *)
with cloop : nat -> st -> option node -> nat -> node -> option st -> Prop :=
| C_end p s ch idx : length (k p) <= idx -> cloop p s ch idx (NCall p s ch idx) None
| C_nounify p s ch idx cl n' r :
    nth_error (k p) idx = Some cl -> hd cl s = None ->
    cloop p s ch (S idx) n' r -> cloop p s ch idx n' r
| C_fact p s ch idx cl s' :
    nth_error (k p) idx = Some cl -> hd cl s = Some s' -> body cl = None ->
    cloop p s ch idx (NCall p s ch (S idx)) (Some s')
| C_rule_ok p s ch idx cl s' b c' a :
    nth_error (k p) idx = Some cl -> hd cl s = Some s' -> body cl = Some b ->
    nexts (mk b s') c' (Some a) ->
    cloop p s ch idx (NCall p s (Some c') (S idx)) (Some a)
| C_rule_fail p s ch idx cl s' b c' n' r :
    nth_error (k p) idx = Some cl -> hd cl s = Some s' -> body cl = Some b ->
    nexts (mk b s') c' None ->
    cloop p s (Some c') (S idx) n' r -> cloop p s ch idx n' r
(* head loop of an And node *)
with aloop : node -> option node -> list goal -> node -> option st -> Prop :=
| A_head_done h h' t rest : nexts h h' None -> aloop h t rest (NAnd h' t rest) None
| A_head_last h h' t a : nexts h h' (Some a) -> aloop h t [] (NAnd h' t []) (Some a)
| A_tail_ok h h' t a g gs t' b :
    nexts h h' (Some a) -> nexts (mk (GAnd (g :: gs)) a) t' (Some b) ->
    aloop h t (g :: gs) (NAnd h' (Some t') (g :: gs)) (Some b)
| A_tail_fail h h' t a g gs t' n' r :
    nexts h h' (Some a) -> nexts (mk (GAnd (g :: gs)) a) t' None ->
    aloop h' (Some t') (g :: gs) n' r -> aloop h t (g :: gs) n' r.

Scheme nexts_ind' := Minimality for nexts Sort Prop
  with cloop_ind' := Minimality for cloop Sort Prop
  with aloop_ind' := Minimality for aloop Sort Prop.
Combined Scheme nexts_mut from nexts_ind', cloop_ind', aloop_ind'.

Inductive drains : node -> list st -> node -> Prop :=
| D_nil n n' : nexts n n' None -> drains n [] n'
| D_cons n n1 a l n' : nexts n n1 (Some a) -> drains n1 l n' -> drains n (a :: l) n'.

(* reference semantics: depth-first, left-to-right, clause order *)
Inductive sem : goal -> st -> list st -> Prop :=
| S_prim f s : sem (GPrim f) s (match f s with Some s' => [s'] | None => [] end)
| S_call p s l : sem_clauses (k p) s l -> sem (GCall p) s l
| S_and1 g s l : sem g s l -> sem (GAnd [g]) s l
| S_and g g2 gs s l ll :
    sem g s l -> sem_each (GAnd (g2 :: gs)) l ll -> sem (GAnd (g :: g2 :: gs)) s (concat ll)
| S_or1 g s l : sem g s l -> sem (GOr [g]) s l
| S_or g g2 gs s l1 l2 :
    sem g s l1 -> sem (GOr (g2 :: gs)) s l2 -> sem (GOr (g :: g2 :: gs)) s (l1 ++ l2)
with sem_clauses : list clause -> st -> list st -> Prop :=
| SC_nil s : sem_clauses [] s []
| SC_nounify cl cls s l : hd cl s = None -> sem_clauses cls s l -> sem_clauses (cl :: cls) s l
| SC_fact cl cls s s' l : hd cl s = Some s' -> body cl = None ->
    sem_clauses cls s l -> sem_clauses (cl :: cls) s (s' :: l)
| SC_rule cl cls s s' b l1 l2 : hd cl s = Some s' -> body cl = Some b ->
    sem b s' l1 -> sem_clauses cls s l2 -> sem_clauses (cl :: cls) s (l1 ++ l2)
with sem_each : goal -> list st -> list (list st) -> Prop :=
| SE_nil g : sem_each g [] []
| SE_cons g a l la ll : sem g a la -> sem_each g l ll -> sem_each g (a :: l) (la :: ll).

Scheme sem_ind' := Minimality for sem Sort Prop
  with sem_clauses_ind' := Minimality for sem_clauses Sort Prop
  with sem_each_ind' := Minimality for sem_each Sort Prop.
Combined Scheme sem_mut from sem_ind', sem_clauses_ind', sem_each_ind'.

End K.
