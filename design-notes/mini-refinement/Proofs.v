From Coq Require Import List Arith Lia Bool.
Import ListNotations.
Require Import Mini.

Section K.
Variable k : kb.
Notation nexts := (nexts k).
Notation cloop := (cloop k).
Notation aloop := (aloop k).
Notation drains := (drains k).

Definition dead (n: node) := exists n', nexts n n' None.
Definition okchild (c: option node) := forall c0, c = Some c0 -> dead c0.

Lemma okchild_none : okchild None. Proof. intros c H; discriminate. Qed.
Lemma okchild_some c : dead c -> okchild (Some c).
Proof. intros H c0 E; inversion E; subst; exact H. Qed.
Hint Resolve okchild_none okchild_some : core.

(* C05 in miniature: a node that answered None answers None again *)
Lemma dead_stable :
  (forall n n' r, nexts n n' r -> r = None -> dead n') /\
  (forall p s ch idx n' r, cloop p s ch idx n' r -> r = None -> okchild ch -> dead n') /\
  (forall h t rest n' r, aloop h t rest n' r -> r = None -> okchild t -> dead n').
Proof.
  apply nexts_mut; intros; subst; try discriminate.
  - (* prim more *) exists (NPrim f s false). constructor.
  - exists (NPrim f s false). constructor.
  - (* call child done *) apply H2; auto.
  - apply H0; auto.
  - (* and tail done *) apply H2; auto.
  - apply H0; auto.
  - (* or tail *) destruct (H0 eq_refl) as [t'' Ht]. eexists. eapply N_or_tail. exact Ht.
  - (* or head done nil *) destruct (H0 eq_refl) as [h'' Hh]. eexists. eapply N_or_head_done_nil. exact Hh.
  - (* or head done *) destruct (H2 eq_refl) as [t'' Ht]. eexists. eapply N_or_tail. exact Ht.
  - (* C_end *) destruct ch as [c|].
    + destruct (H1 c eq_refl) as [c' Hc]. eexists. eapply N_call_child_done; [exact Hc|]. constructor. exact H.
    + eexists. eapply N_call_nochild. constructor. exact H.
  - (* nounify *) apply H2; auto.
  - (* rule fail *) apply H5; auto.
  - (* A_head_done *) destruct (H0 eq_refl) as [h'' Hh].
    destruct t as [t0|].
    + destruct (H2 t0 eq_refl) as [t0' Ht]. eexists. eapply N_and_tail_done; [exact Ht|]. constructor. exact Hh.
    + eexists. eapply N_and_notail. constructor. exact Hh.
  - (* A_tail_fail *) apply H4; auto.
Qed.

Lemma nexts_none_dead n n' : nexts n n' None -> dead n'.
Proof. intros H. eapply (proj1 dead_stable); eauto. Qed.

Lemma drains_end_dead n l n' : drains n l n' -> dead n'.
Proof. induction 1; eauto using nexts_none_dead. Qed.

Inductive still_none : nat -> node -> Prop :=
| sn0 n : still_none 0 n
| snS m n n1 : nexts n n1 None -> still_none m n1 -> still_none (S m) n.
Theorem exhausted_stays n n' : nexts n n' None -> forall m, still_none m n'.
Proof.
  intros H m. revert n n' H. induction m; intros; [constructor|].
  destruct (nexts_none_dead _ _ H) as [n2 H2]. econstructor; eauto.
Qed.

Notation sem := (sem k).
Notation sem_clauses := (sem_clauses k).
Notation sem_each := (sem_each k).

Definition cdrains p s ch idx l n' :=
  match l with
  | [] => cloop p s ch idx n' None
  | x :: l' => exists n1, cloop p s ch idx n1 (Some x) /\ drains n1 l' n'
  end.

Definition adrains h t rest l n' :=
  match l with
  | [] => aloop h t rest n' None
  | x :: l' => exists n1, aloop h t rest n1 (Some x) /\ drains n1 l' n'
  end.

(* B: a Call node with a live child yields the child's answers, then the remaining clauses *)
Lemma call_child_drains p s idx l c lc cend :
  drains c lc cend ->
  (forall ch, okchild ch -> exists n', cdrains p s ch idx l n') ->
  exists n', drains (NCall p s (Some c) idx) (lc ++ l) n'.
Proof.
  intros D Hrest. induction D as [c c' Hn | c c1 a lc cend Hn D IH]; simpl.
  - destruct (Hrest None okchild_none) as [n' Hc]. destruct l as [|x l']; simpl in Hc.
    + exists n'. apply D_nil. eapply N_call_child_done; eauto.
    + destruct Hc as (n1 & Hc & Dn). exists n'. eapply D_cons; [|exact Dn]. eapply N_call_child_done; eauto.
  - destruct IH as [n' IH]. exists n'. eapply D_cons; [|exact IH]. apply N_call_child; exact Hn.
Qed.

Lemma cdrains_nochild p s idx l n' : cdrains p s None idx l n' -> drains (NCall p s None idx) l n'.
Proof.
  destruct l as [|x l']; simpl.
  - intros H. apply D_nil. apply N_call_nochild; exact H.
  - intros (n1 & H & D). eapply D_cons; [|exact D]. apply N_call_nochild; exact H.
Qed.

(* D: an And node with a live tail yields the tail's answers, then continues with the head *)
Lemma and_tail_drains h rest l t lt tend :
  drains t lt tend ->
  (forall t0, okchild t0 -> exists n', adrains h t0 rest l n') ->
  exists n', drains (NAnd h (Some t) rest) (lt ++ l) n'.
Proof.
  intros D Hrest. induction D as [t t' Hn | t t1 a lt tend Hn D IH]; simpl.
  - destruct (Hrest (Some t') (okchild_some _ (nexts_none_dead _ _ Hn))) as [n' Ha].
    destruct l as [|x l']; simpl in Ha.
    + exists n'. apply D_nil. eapply N_and_tail_done; eauto.
    + destruct Ha as (n1 & Ha & Dn). exists n'. eapply D_cons; [|exact Dn]. eapply N_and_tail_done; eauto.
  - destruct IH as [n' IH]. exists n'. eapply D_cons; [|exact IH]. apply N_and_tail; exact Hn.
Qed.

Lemma adrains_any_tail h t rest l n' : okchild t -> adrains h t rest l n' ->
  exists n'', drains (NAnd h t rest) l n''.
Proof.
  intros Hok Ha. destruct t as [t0|].
  - destruct (Hok t0 eq_refl) as [t0' Ht].
    (* re-asking a dead tail leaves another dead tail; adrains must be re-derived for it, so we
       only use this lemma with t = None *)
Abort.

Lemma adrains_notail h rest l n' : adrains h None rest l n' -> drains (NAnd h None rest) l n'.
Proof.
  destruct l as [|x l']; simpl.
  - intros H. apply D_nil. apply N_and_notail; exact H.
  - intros (n1 & H & D). eapply D_cons; [|exact D]. apply N_and_notail; exact H.
Qed.

(* C: the head loop of an And node *)
Lemma and_head_drains g2 gs h lh hend ll :
  drains h lh hend ->
  Forall2 (fun a la => exists n', drains (mk (GAnd (g2 :: gs)) a) la n') lh ll ->
  forall t, okchild t -> exists n', adrains h t (g2 :: gs) (concat ll) n'.
Proof.
  intros D. revert ll. induction D as [h h' Hn | h h1 a lh hend Hn D IH]; intros ll F t Hok.
  - inversion F; subst; simpl. eexists. apply A_head_done; exact Hn.
  - inversion F as [|? la ? ll' [tend Dt] F']; subst; simpl.
    inversion Dt; subst.
    + (* tail fails for this head answer *)
      match goal with Hx : nexts (mk _ a) ?tn' None |- _ =>
        destruct (IH ll' F' (Some tn') (okchild_some _ (nexts_none_dead _ _ Hx))) as [n' Ha];
        exists n'; simpl; destruct (concat ll') as [|y l']; simpl in *;
        [ eapply A_tail_fail; eauto
        | destruct Ha as (n1 & Ha & Dn); exists n1; split; auto; eapply A_tail_fail; eauto ]
      end.
    + (* tail answers *)
      match goal with Hx : nexts (mk _ a) ?t1 (Some ?x), Dx : drains ?t1 ?la' _ |- _ =>
        destruct (and_tail_drains h1 (g2 :: gs) (concat ll') t1 la' _ Dx (IH ll' F')) as [n' Dn];
        exists n'; simpl; eexists; split; [|exact Dn]; eapply A_tail_ok; eauto
      end.
Qed.

(* E: And with a single goal *)
Lemma and_single_drains h l hend : drains h l hend ->
  forall t, okchild t -> exists n', drains (NAnd h t []) l n'.
Proof.
  induction 1 as [h h' Hn | h h1 a l hend Hn D IH]; intros t Hok.
  - destruct t as [t0|].
    + destruct (Hok t0 eq_refl) as [t0' Ht]. eexists. apply D_nil. eapply N_and_tail_done; eauto. apply A_head_done; exact Hn.
    + eexists. apply D_nil. apply N_and_notail. apply A_head_done; exact Hn.
  - destruct t as [t0|].
    + destruct (Hok t0 eq_refl) as [t0' Ht].
      destruct (IH (Some t0') (okchild_some _ (nexts_none_dead _ _ Ht))) as [n' IH'].
      exists n'. eapply D_cons; [|exact IH']. eapply N_and_tail_done; eauto. apply A_head_last; exact Hn.
    + destruct (IH None okchild_none) as [n' IH'].
      exists n'. eapply D_cons; [|exact IH']. apply N_and_notail. apply A_head_last; exact Hn.
Qed.

(* G, F: Or nodes *)
Lemma or_tail_drains s h rest t l tend : drains t l tend -> exists n', drains (NOr s h (Some t) rest) l n'.
Proof.
  induction 1 as [t t' Hn | t t1 a l tend Hn D [n' IH]].
  - eexists. apply D_nil. apply N_or_tail; exact Hn.
  - exists n'. eapply D_cons; [|exact IH]. apply N_or_tail; exact Hn.
Qed.

Lemma or_head_drains s h lh hend rest l2 :
  drains h lh hend ->
  (rest = [] /\ l2 = [] \/ exists g gs n', rest = g :: gs /\ drains (mk (GOr (g :: gs)) s) l2 n') ->
  exists n', drains (NOr s h None rest) (lh ++ l2) n'.
Proof.
  intros D Hr. induction D as [h h' Hn | h h1 a lh hend Hn D [n' IH]]; simpl.
  - destruct Hr as [[-> ->] | (g & gs & tn & -> & Dt)].
    + eexists. apply D_nil. apply N_or_head_done_nil; exact Hn.
    + inversion Dt; subst.
      * eexists. apply D_nil. eapply N_or_head_done; eauto.
      * match goal with Dx : drains ?t1 ?l2' _ |- _ =>
          destruct (or_tail_drains s h' (g :: gs) _ _ _ Dx) as [n' Dn] end.
        exists n'. eapply D_cons; [|exact Dn]. eapply N_or_head_done; eauto.
  - exists n'. eapply D_cons; [|exact IH]. apply N_or_head; exact Hn.
Qed.

(* the resumable search yields exactly the reference answers, in order *)
Theorem refinement :
  (forall g s l, sem g s l -> exists n', drains (mk g s) l n') /\
  (forall cls s l, sem_clauses cls s l ->
     forall p idx ch, skipn idx (k p) = cls -> okchild ch -> exists n', cdrains p s ch idx l n') /\
  (forall g lst ll, sem_each g lst ll ->
     Forall2 (fun a la => exists n', drains (mk g a) la n') lst ll).
Proof.
  apply sem_mut.
  - (* prim *) intros f s. simpl. destruct (f s) eqn:E.
    + eexists. eapply D_cons. { rewrite <- E. constructor. } apply D_nil. constructor.
    + eexists. apply D_nil. rewrite <- E. constructor.
  - (* call *) intros p s l _ IH. destruct (IH p 0 None eq_refl okchild_none) as [n' H].
    exists n'. simpl. apply cdrains_nochild; exact H.
  - (* and1 *) intros g s l _ [n' D]. simpl. eapply and_single_drains; eauto.
  - (* and *) intros g g2 gs s l ll _ [hend D] _ F. simpl.
    destruct (and_head_drains g2 gs _ _ _ _ D F None okchild_none) as [n' Ha].
    exists n'. apply adrains_notail; exact Ha.
  - (* or1 *) intros g s l _ [n' D]. simpl.
    rewrite <- (app_nil_r l). eapply or_head_drains; eauto.
  - (* or *) intros g g2 gs s l1 l2 _ [hend D] _ [n2 D2]. simpl.
    eapply or_head_drains; eauto. right. eauto.
  - (* clauses nil *) intros s p idx ch E Hok. simpl.
    eexists. apply C_end. apply (f_equal (@length _)) in E. rewrite skipn_length in E. simpl in E. lia.
  - (* nounify *) intros cl cls s l Hh _ IH p idx ch E Hok.
    assert (Hn: nth_error (k p) idx = Some cl /\ skipn (S idx) (k p) = cls).
    { clear -E. revert idx E. induction (k p) as [|c0 r IHr]; intros [|i] E; simpl in *; try discriminate.
      - inversion E; auto. - apply IHr; exact E. }
    destruct Hn as [Hn Hs]. destruct (IH p (S idx) ch Hs Hok) as [n' Hc]. exists n'.
    destruct l as [|x l']; simpl in *.
    + eapply C_nounify; eauto.
    + destruct Hc as (n1 & Hc & Dn). exists n1; split; auto. eapply C_nounify; eauto.
  - (* fact *) intros cl cls s s' l Hh Hb _ IH p idx ch E Hok.
    assert (Hn: nth_error (k p) idx = Some cl /\ skipn (S idx) (k p) = cls).
    { clear -E. revert idx E. induction (k p) as [|c0 r IHr]; intros [|i] E; simpl in *; try discriminate.
      - inversion E; auto. - apply IHr; exact E. }
    destruct Hn as [Hn Hs]. simpl.
    (* after a fact the node is NCall p s ch (S idx): its child field is whatever it was *)
    destruct ch as [c|].
    + destruct (Hok c eq_refl) as [c' Hc'].
      destruct (call_child_drains p s (S idx) l c [] c' (D_nil _ _ _ Hc') (fun ch0 H0 => IH p (S idx) ch0 Hs H0)) as [n' Dn].
      exists n'. eexists; split; [|exact Dn]. eapply C_fact; eauto.
    + destruct (IH p (S idx) None Hs okchild_none) as [n' Hc]. exists n'.
      eexists; split; [eapply C_fact; eauto|]. apply cdrains_nochild; exact Hc.
  - (* rule *) intros cl cls s s' b l1 l2 Hh Hb _ [cend Db] _ IH p idx ch E Hok.
    assert (Hn: nth_error (k p) idx = Some cl /\ skipn (S idx) (k p) = cls).
    { clear -E. revert idx E. induction (k p) as [|c0 r IHr]; intros [|i] E; simpl in *; try discriminate.
      - inversion E; auto. - apply IHr; exact E. }
    destruct Hn as [Hn Hs].
    inversion Db; subst; simpl.
    + match goal with Hx : nexts (mk b s') ?c0' None |- _ =>
        destruct (IH p (S idx) (Some c0') eq_refl (okchild_some _ (nexts_none_dead _ _ Hx))) as [n' Hc] end.
      exists n'. destruct l2 as [|y l2']; simpl in *.
      * eapply C_rule_fail; eauto.
      * destruct Hc as (n1 & Hc & Dn). exists n1; split; auto. eapply C_rule_fail; eauto.
    + match goal with Hx : nexts (mk b s') ?c1 (Some ?x), Dx : drains ?c1 ?l1' _ |- _ =>
        destruct (call_child_drains p s (S idx) l2 c1 l1' _ Dx (fun ch0 H0 => IH p (S idx) ch0 eq_refl H0)) as [n' Dn] end.
      exists n'. eexists; split; [|exact Dn]. eapply C_rule_ok; eauto.
  - constructor.
  - intros g a l la ll _ IHa _ IHl. constructor; auto.
Qed.

Print Assumptions refinement.
End K.
