(* Design note: an executable miniature of the solver WITH cut flags (as the code will be
   after the two planned repairs: clause loop and Or re-check the flag), an executable
   "stream with cut terminal" reference semantics, and an exhaustive comparison of the two
   on small goals by vm_compute.  This validates the DEFINITION of SpecCut used in
   DESIGN.md C02; it is a test, not the theorem. *)
From Coq Require Import List Arith Bool Lia.
Import ListNotations.

Definition st := nat.
Inductive goal := GCall (p: nat) | GAnd (gs: list goal) | GOr (gs: list goal) | GPrim (k: nat) | GCut.

(* primitive goals: deterministic state transformers that may fail *)
Definition prim (k: nat) (s: st) : option st :=
  match k with
  | 0 => None                                   (* fail *)
  | 1 => Some s                                 (* true *)
  | 2 => Some (S s)                             (* bind something *)
  | 3 => if Nat.even s then Some s else None    (* test *)
  | _ => if Nat.even s then None else Some (s + 10)
  end.

Record clause := { hd : nat (* a prim used as head unification *); body : option goal }.
Definition kb := nat -> list clause.

Inductive node :=
| NCall (p: nat) (s: st) (nobt: bool) (child: option node) (idx: nat)
| NAnd (nobt: bool) (head: node) (tail: option node) (rest: list goal)
| NOr (s: st) (nobt: bool) (head: node) (tail: option node) (rest: list goal)
| NPrim (k: nat) (s: st) (nobt: bool) (more: bool)
| NCut (s: st) (nobt: bool) (more: bool)
| NBad.

Fixpoint mk (g: goal) (s: st) : node :=
  match g with
  | GCall p => NCall p s false None 0
  | GAnd (g1 :: gs) => NAnd false (mk g1 s) None gs
  | GOr (g1 :: gs) => NOr s false (mk g1 s) None gs
  | GPrim k => NPrim k s false true
  | GCut => NCut s false true
  | _ => NBad
  end.

Definition nobt (n: node) : bool :=
  match n with NCall _ _ b _ _ | NAnd b _ _ _ | NOr _ b _ _ _ | NPrim _ _ b _ | NCut _ b _ => b | NBad => true end.
Definition set_nobt (n: node) : node :=
  match n with
  | NCall p s _ c i => NCall p s true c i | NAnd _ h t r => NAnd true h t r
  | NOr s _ h t r => NOr s true h t r | NPrim k s _ m => NPrim k s true m
  | NCut s _ m => NCut s true m | NBad => NBad end.
Definition flag (c: bool) (n: node) := if c then set_nobt n else n.

Section K.
Variable k : kb.

(* result: new node, answer, "a cut ran under this node during this call" *)
Fixpoint next (fuel: nat) (n: node) : option (node * option st * bool) :=
  match fuel with 0 => None | S f =>
  if nobt n then Some (n, None, false) else
  let fix cloop (fl: nat) (p: nat) (s: st) (ch: option node) (idx: nat) : option (node * option st * bool) :=
    match fl with 0 => None | S fl' =>
    match nth_error (k p) idx with
    | None => Some (NCall p s false ch idx, None, false)
    | Some cl =>
      match prim (hd cl) s with
      | None => cloop fl' p s ch (S idx)
      | Some s' =>
        match body cl with
        | None => Some (NCall p s false ch (S idx), Some s', false)
        | Some b =>
          match next f (mk b s') with
          | None => None
          | Some (c', Some a, cutc) => Some (NCall p s cutc (Some c') (S idx), Some a, false)
          | Some (c', None, cutc) =>
              if cutc then Some (NCall p s true (Some c') (S idx), None, false)   (* repair 1 *)
              else cloop fl' p s (Some c') (S idx)
          end
        end
      end
    end end in
  let fix aloop (fl: nat) (acc: bool) (h: node) (t: option node) (rest: list goal) : option (node * option st * bool) :=
    match fl with 0 => None | S fl' =>
    match next f h with
    | None => None
    | Some (h', None, cuth) => Some (NAnd (acc || cuth) h' t rest, None, acc || cuth)
    | Some (h', Some a, cuth) =>
      match rest with
      | [] => Some (NAnd (acc || cuth) h' t [], Some a, acc || cuth)
      | _ =>
        match next f (mk (GAnd rest) a) with
        | None => None
        | Some (t', Some b, cut2) => Some (NAnd (acc || cuth || cut2) (flag cut2 h') (Some t') rest, Some b, acc || cuth || cut2)
        | Some (t', None, cut2) => aloop fl' (acc || cuth || cut2) (flag cut2 h') (Some t') rest
        end
      end
    end end in
  match n with
  | NPrim kk s _ more => if more then Some (NPrim kk s false false, prim kk s, false) else Some (n, None, false)
  | NCut s _ more => if more then Some (NCut s true false, Some s, true) else Some (n, None, false)
  | NCall p s _ child idx =>
      match child with
      | Some c =>
        match next f c with
        | None => None
        | Some (c', Some a, cutc) => Some (NCall p s cutc (Some c') idx, Some a, false)
        | Some (c', None, cutc) => if cutc then Some (NCall p s true None idx, None, false) else cloop f p s None idx
        end
      | None => cloop f p s None idx
      end
  | NAnd _ h t rest =>
      match t with
      | Some tn =>
        match next f tn with
        | None => None
        | Some (t', Some a, cutt) => Some (NAnd cutt (flag cutt h) (Some t') rest, Some a, cutt)
        | Some (t', None, cutt) => aloop f cutt (flag cutt h) (Some t') rest
        end
      | None => aloop f false h None rest
      end
  | NOr s _ h t rest =>
      match t with
      | Some tn =>
        match next f tn with
        | None => None
        | Some (t', r, cutt) => Some (NOr s cutt (flag cutt h) (Some t') rest, r, cutt)
        end
      | None =>
        match next f h with
        | None => None
        | Some (h', Some a, cuth) => Some (NOr s cuth h' None rest, Some a, cuth)
        | Some (h', None, cuth) =>
          match rest with
          | [] => Some (NOr s cuth h' None [], None, cuth)
          | _ =>
            if cuth then Some (NOr s true h' None rest, None, true)              (* repair 2 *)
            else match next f (mk (GOr rest) s) with
                 | None => None
                 | Some (t', r, cutt) => Some (NOr s cutt (flag cutt h') (Some t') rest, r, cutt)
                 end
          end
        end
      end
  | NBad => None
  end end.

(* ask until None, plus two extra asks that must both be None *)
Fixpoint drain (fuel: nat) (n: node) (acc: list st) : option (list st) :=
  match fuel with 0 => None | S f =>
  match next fuel n with
  | None => None
  | Some (n', Some a, _) => drain f n' (a :: acc)
  | Some (n', None, _) =>
      match next fuel n' with
      | Some (n'', None, _) => match next fuel n'' with Some (_, None, _) => Some (rev acc) | _ => None end
      | _ => None end
  end end.

(* ---------- reference semantics: answer stream ending in a terminal ---------- *)
Inductive term := End | EndCut | AnsCut (a: st).
Definition is_cut (t: term) := match t with End => false | _ => true end.

(* first answer of a stream (answers, terminal) *)
Definition first (r: list st * term) : option st :=
  match r with (a :: _, _) => Some a | ([], AnsCut a) => Some a | _ => None end.

Fixpoint sem (fuel: nat) (g: goal) (s: st) : option (list st * term) :=
  match fuel with 0 => None | S f =>
  match g with
  | GPrim kk => Some (match prim kk s with Some s' => [s'] | None => [] end, End)
  | GCut => Some ([], AnsCut s)
  | GCall p =>
      (* clauses in order; a cut terminal of a body ends the call and is absorbed *)
      let fix clauses (cls: list clause) : option (list st) :=
        match cls with
        | [] => Some []
        | cl :: cls' =>
          match prim (hd cl) s with
          | None => clauses cls'
          | Some s' =>
            match body cl with
            | None => option_map (cons s') (clauses cls')
            | Some b =>
              match sem f b s' with
              | None => None
              | Some (l, End) => option_map (app l) (clauses cls')
              | Some (l, EndCut) => Some l
              | Some (l, AnsCut a) => Some (l ++ [a])
              end
            end
          end
        end in
      option_map (fun l => (l, End)) (clauses (k p))
  | GAnd [] => Some ([s], End)
  | GAnd [g1] => sem f g1 s
  | GAnd (g1 :: rest) =>
      match sem f g1 s with
      | None => None
      | Some (l1, t1) =>
        (* for each plain answer of g1 run rest; stop at the first cut terminal *)
        let fix each (l: list st) : option (list st * term) :=
          match l with
          | [] =>
            match t1 with
            | End => Some ([], End)
            | EndCut => Some ([], EndCut)
            | AnsCut a1 =>
              (* the head is spent: rest is asked once *)
              match sem f (GAnd rest) a1 with
              | None => None
              | Some r => Some ([], match first r with Some b => AnsCut b | None => EndCut end)
              end
            end
          | a :: l' =>
            match sem f (GAnd rest) a with
            | None => None
            | Some (la, End) => match each l' with None => None | Some (lb, t) => Some (la ++ lb, t) end
            | Some (la, t) => Some (la, t)
            end
          end in
        each l1
      end
  | GOr [] => Some ([], End)
  | GOr [g1] => sem f g1 s
  | GOr (g1 :: rest) =>
      match sem f g1 s with
      | None => None
      | Some (l1, End) => match sem f (GOr rest) s with None => None | Some (l2, t) => Some (l1 ++ l2, t) end
      | Some (l1, t) => Some (l1, t)
      end
  end end.

(* what a top-level call reports *)
Definition answers_spec (fuel: nat) (g: goal) (s: st) : option (list st) :=
  match sem fuel g s with
  | None => None
  | Some (l, End) | Some (l, EndCut) => Some l
  | Some (l, AnsCut a) => Some (l ++ [a])
  end.
End K.

(* ---------- exhaustive comparison on small goals ---------- *)
Definition leaves : list goal := [GPrim 0; GPrim 2; GPrim 3; GPrim 4; GCut; GCall 0; GCall 1].
Definition pairs (a b: list goal) : list (list goal) := flat_map (fun x => map (fun y => [x; y]) b) a.
Definition triples (a: list goal) : list (list goal) := flat_map (fun x => map (fun yz => x :: yz) (pairs a a)) a.
Definition d1 : list goal := leaves ++ map GAnd (pairs leaves leaves) ++ map GOr (pairs leaves leaves).
Definition small : list goal := [GPrim 2; GPrim 3; GCut; GCall 0; GOr [GPrim 2; GPrim 4]; GAnd [GPrim 3; GCut]; GOr [GCut; GPrim 2]; GAnd [GCut; GPrim 0]].
Definition d2 : list goal :=
  d1 ++ map GAnd (triples small) ++ map GOr (triples small)
     ++ map GAnd (pairs d1 small) ++ map GOr (pairs small d1) ++ map GAnd (pairs small d1).

(* predicate 0: two facts with binding heads; predicate 1: body given by the test; predicate 2: a fact *)
Definition kb_of (b: goal) : kb := fun p =>
  match p with
  | 0 => [ {| hd := 2; body := None |}; {| hd := 4; body := None |}; {| hd := 1; body := Some (GAnd [GPrim 2; GPrim 2]) |} ]
  | 1 => [ {| hd := 1; body := Some (GAnd [GPrim 2; GCut; GPrim 3]) |}; {| hd := 1; body := None |} ]
  | 2 => [ {| hd := 1; body := Some b |}; {| hd := 2; body := None |} ]
  | _ => []
  end.

Definition agree (b: goal) (s: st) : bool :=
  let kk := kb_of b in
  match drain kk 60 (mk (GCall 2) s) [], answers_spec kk 60 (GCall 2) s with
  | Some l1, Some l2 => if list_eq_dec Nat.eq_dec l1 l2 then true else false
  | _, _ => false
  end.

Definition disagreements := filter (fun b => negb (agree b 0 && agree b 1)) d2.
Eval vm_compute in (length d2, length disagreements).
Eval vm_compute in firstn 5 disagreements.
(* the probes of DESIGN.md: cut then fail; cut inside a branch of a disjunction then fail *)
Eval vm_compute in (drain (kb_of (GAnd [GPrim 2; GCut; GPrim 0])) 60 (mk (GCall 2) 0) [],
                    drain (kb_of (GOr [GAnd [GCut; GPrim 0]; GPrim 2])) 60 (mk (GCall 2) 0) [],
                    drain (kb_of (GAnd [GCall 0; GCut; GCall 0])) 60 (mk (GCall 2) 0) []).
Definition nontrivial (b: goal) : bool :=
  match answers_spec (kb_of b) 60 (GCall 2) 0 with Some (_ :: _ :: _) => true | _ => false end.
Definition has_cut_terminal (b: goal) : bool :=
  match sem (kb_of b) 60 b 0 with Some (_, End) => false | Some _ => true | None => false end.
Eval vm_compute in (length (filter nontrivial d2), length (filter has_cut_terminal d2)).
