#!/bin/bash
# usage: lib/try_patch.sh (-R <commit> | <patchfile>) <PID>...   -- apply to /repo, run quick checks, undo
cd /verif
if [ "$1" = "-R" ]; then git -C /repo show $2 | git -C /repo apply -R || exit 2; shift 2
else git -C /repo apply "$1" || exit 2; shift; fi
for p in "$@"; do ./check $p --tier quick 2>&1 | grep -v "^\[.*proof gate" | tail -2; done
git -C /repo checkout -- . 
git -C /repo status --short | grep -v Cargo.lock
