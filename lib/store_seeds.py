#!/usr/bin/env python3
"""Stores the confirmed seeded changes under /verif/seeded/<ID>-<k>/ from the deliveries in /tmp/seed-out and the
verification logs written by run_seeds.sh.  usage: store_seeds.py [--src DIR] [--offset N] FINAL_LOG[,NEWER_LOG..] [EARLIER_LOG ...]   (round 3: --src /tmp/seed-out3 --offset 2)"""
import json, os, re, shutil, sys
V = os.path.dirname(os.path.dirname(os.path.abspath(__file__)))
SRC = "/tmp/seed-out"

STRENGTHENED = {
    "C02-1": "C02 generator: multi-answer predicates whose answers come from one clause body (d/1, dn/1)",
    "C02-2": "C02 generator: cut in a later alternative of a disjunction, reached on backtracking",
    "C04-1": "C04 generator: disjunctions whose first alternative prints, cuts and then fails or succeeds",
    "C10-1": "C10 generator: clause fetch through get_rule (new op get-rule), facts whose variables sit only inside lists",
    "C12-2": "C12 generator: the text-parser path (new op unify-text), integer literals beyond 2^53, exact integer-fold oracle",
    "C21-1": "C21 generator: every digit on either side of a decimal point",
    "C22-1": "C22 generator: queries built from text (new op build-text), zero-argument queries after a timed-out one",
    "C03-2": "C03 generator: not(not(G)), not(not(not(G))), nested not in random programs",
    "C07-2": "unification universe: the same functor with other arities",
    "C08-2": "C08 generator: sequences with compound aliasing steps (lists with tail variables, complex terms)",
    "C01-2": "program generator: float constants 3.0 / 0.1 and an integer-against-equal-float comparison in the goal alphabet",
    "C11-2": "C11 generator: programs as SOURCE TEXT (kb-text through parse_rule) renamed to names that differ only after an underscore or digit",
    "C14-2": "C14 generator: infix comparisons in source text with non-ASCII operands, order oracle",
    "C19-2": "C19 goal generator: infix unification leaves with parentheses/brackets on both sides",
    "C05-3": "C05 generator: time(..) shapes asked beyond exhaustion",
    "C05-4": "C05 generator: printing disjunctions as non-last goals whose every combination fails",
    "C10-3": "C10 generator: freshness during a search (facts with variables inside structures, exact reference oracle)",
    "C19-4": "C19 term generator: atoms with inner hyphens, spaces, capitals, leading digits",
    "C22-3": "C22 generator: the stop-flag protocol step by step (timers of earlier queries firing later)",
    # round 4
    "C08-4": "C08 generator: through the solver - facts with fresh variables inside compound terms, aliased through clause heads; cycle check through compound terms",
    "C15-4": "C15 generator: append with the tail variables bound (to [], to a list, through a chain ending in [])",
    "C09-4": "C09 relation: a variable that occurs once replaced by $_ changes nothing but that variable's own binding (instance pairs)",
    "C13-3": "C13 relation: two function terms unify exactly when their values are the same constant",
    "C16-3": "C16 oracle: with a given output argument append succeeds exactly when a reference unifier unifies it with the concatenation",
    "C19-5": "C19 term generator: floats below 1e-4; relation Display-then-parse for floats with a fractional part (new op show-parse)",
    "C21-5": "C21 generator: non-ASCII rule texts in every legal layout (load = one by one is then decided on the implementation)",
    "C21-6": "C21 generator: rule texts with # % // as ordinary text inside brackets, broken at every legal place",
    # round 5 (changes that need inputs beyond the small shapes)
    "C01-5": "C01 generator: integers above 2^53 that differ by one, floats that differ in the last place, in facts and comparisons",
    "C01-6": "C01 generator: integers above 2^53 that differ by one, floats that differ in the last place, in facts and unifications",
    "C02-5": "C02 generator: the cut as the 30th-45th goal of a body and under 28-45 nested conjunctions / disjunctions",
    "C02-6": "C02 generator: searches in which a cut commits and its clause then fails 144 / 1296 times",
    "C06-5": "C06 generator: floats that differ in the last place (alone, nested, through a bound variable)",
    "C06-6": "C06 generator: variable ids congruent modulo 64 / 256 / 65536, alias chains closed by one more step",
    "C10-5": "C10 generator: the public set_var_id in histories (ids cross 2^8 and 2^16 during a search), clause shapes with a failing head first, oracle: the counter is never below an id in use",
    "C10-6": "C10 generator: long variable names that agree in their first 16 / 32 characters",
    "C15-5": "C15, C16, C17 generators: lists spread over chains of up to 130 bound tail variables",
    "C15-6": "C15 generator: parsed lists (parse_term / parse_linked_list) with integers beyond 2^53, with an oracle on the elements",
    "C17-6": "C17 generator: tail variables whose ids collide modulo 64 / 256 / 65536",
    "C19-6": "C19 goal generator: non-ASCII letters in functors and arguments of goals and rules",
    # round 6 (beyond small inputs, the other 13 properties)
    "C03-5": "C03 generator: recursion through not(..) 60-75 levels deep (Peano numbers, lists)",
    "C03-6": "C03 generator: not over comparisons of integers that differ by one above 2^53",
    "C04-5": "C04 generator: format strings with non-ASCII text BEFORE a %s marker",
    "C04-6": "C04 generator: floats with 16-17 significant digits and above 2^24 printed by print, print_list and inside terms",
    "C05-5": "C05 generator: predicates of 300 clauses (the wanted clause beyond the 256th)",
    "C05-6": "C05 generator: a conjunction that rejects 289 candidates before its first answer, asked with next_solution right after another query was finished by solve",
    "C08-6": "C08 generator: clauses whose variable names agree in their last 8 (first 16 / 24) characters, through the solver",
    "C09-5": "C09 generator: through the solver - predicates of 3-20 clauses called with $_ in each argument position, oracle: one answer per clause",
    "C09-6": "C09 generator: complex terms of arity 7-12 with $_ at every position",
    "C11-6": "C11 generator: a clause of 14-20 distinct variables fetched before clauses that reuse its names",
    "C13-6": "C13 generator: arithmetic functions with 12 arguments, integers above 2^53 (function-vs-value relation then decides)",
    "C16-6": "C16 generator: append with up to 16 inputs",
    "C18-5": "C18 generator: over-long (> 1000 characters) non-ASCII terms at every byte alignment of the first 64 bytes",
    "C18-6": "C18 generator: built-in functions nested 5-45 deep with a syntax error at the innermost level (a parser that retries each level does not return)",
    "C22-5": "C22 generator: a query with a cut re-asked 25 000 times after exhaustion, then fresh queries",
    "C22-6": "C22 generator: a query that fetches a fact of 16-20 distinct variables, then fresh queries over clauses reusing those names",
    "C23-5": "C23 generator: timer histories with 255 ... 65536 query starts between the start of a timer and its time-out; a panic of a protocol operation is judged",
    "C23-6": "C23 generator, THOROUGH tier only (the model needs two minutes): a predicate of 66 000 clauses",
}

def parse_log(path):
    res = {}
    cur = None
    for ln in open(path, errors="replace"):
        m = re.match(r"=== (C\d\d) seed (\d):", ln)
        if m:
            cur = "%s-%s" % (m.group(1), m.group(2)); res[cur] = dict(checks={}, lines=[]); continue
        if cur is None: continue
        if ln.startswith("demo without patch:"): res[cur]["demo_without_patch"] = ln.split(":", 1)[1].strip()
        elif ln.startswith("demo with patch:"): res[cur]["demo_with_patch"] = ln.split(":", 1)[1].strip()
        elif ln.startswith("crate tests with patch:"): res[cur]["crate_tests_with_patch"] = ln.split(":", 1)[1].strip()
        else:
            m = re.match(r"\s+\[(C\d\d)\] (.*)", ln)
            if m:
                pid, rest = m.group(1), m.group(2)
                c = res[cur]["checks"]
                if "VIOLATION" in rest:
                    c[pid] = "tie" if "no-failing-input-found" in rest else "violation"
                elif "PASS:" in rest: c.setdefault(pid, "pass")
                elif "FAIL:" in rest: c.setdefault(pid, "fail")
    return res

def summarise(seed, checks):
    own_id = seed.split("-")[0]
    own = checks.get(own_id, "not-run")
    own = {"pass": "missed"}.get(own, own)
    others = sorted(p for p, r in checks.items() if p != own_id and r in ("violation", "tie", "fail"))
    return own, others

def main():
    global SRC
    args = sys.argv[1:]
    offset = 0
    while args and args[0].startswith("--"):
        if args[0] == "--src": SRC = args[1]; args = args[2:]
        elif args[0] == "--offset": offset = int(args[1]); args = args[2:]
        else: raise SystemExit("unknown option " + args[0])
    def merged(spec):
        out = {}
        for q in spec.split(","):          # later logs override earlier ones, seed by seed and field by field
            for seed, e in parse_log(q).items():     # (a later checks-only re-run keeps the confirmation of the first run)
                if seed not in out: out[seed] = e; continue
                for k, v in e.items():
                    if k == "checks": out[seed]["checks"].update(v)
                    elif k != "lines": out[seed][k] = v
        return out
    logs = [merged(p) for p in args]
    final, earlier = logs[0], logs[1:]
    os.makedirs(os.path.join(V, "seeded"), exist_ok=True)
    n = 0
    for seed in sorted(final):
        pid, k = seed.split("-")
        src = os.path.join(SRC, pid)
        f = final[seed]
        ok = (f.get("demo_without_patch", "").startswith("test result: ok") and "FAILED" in f.get("demo_with_patch", "")
              and f.get("crate_tests_with_patch", "").endswith("failed 0"))
        if not ok:
            print("NOT CONFIRMED, skipped:", seed, f.get("demo_without_patch"), f.get("demo_with_patch"), f.get("crate_tests_with_patch")); continue
        name = "%s-%d" % (pid, int(k) + offset)
        d = os.path.join(V, "seeded", name)
        os.makedirs(d, exist_ok=True)
        shutil.copyfile(os.path.join(src, "patch_%s.diff" % k), os.path.join(d, "patch.diff"))
        shutil.copyfile(os.path.join(src, "demo_%s.rs" % k), os.path.join(d, "demo.rs"))
        m = json.load(open(os.path.join(src, "meta_%s.json" % k)))
        own, others = summarise(seed, f["checks"])
        first = None
        for e in reversed(earlier):          # earliest log last on the command line
            if seed in e and e[seed]["checks"]:
                first = summarise(seed, e[seed]["checks"])
        meta = dict(
            property=pid, seed=name, summary=m.get("summary", ""), needs_to_manifest=m.get("needs_to_manifest", ""),
            written_by="a sub-agent that saw only the property text and a scratch worktree of /repo (nothing from /verif)",
            confirmed=dict(demo_without_patch=f.get("demo_without_patch"), demo_with_patch=f.get("demo_with_patch"),
                           crate_tests_with_patch=f.get("crate_tests_with_patch")),
            what_was_run=["in a scratch worktree of /repo: cp demo.rs tests/seed_demo.rs; cargo test --offline --test seed_demo (passes); "
                          "git apply patch.diff; the same (fails); cargo test --offline --no-fail-fast (all 200 pass)",
                          "the quick checks listed under checks_run against the patched tree (a private copy of /verif pointed at the scratch worktree; "
                          "equivalently: git -C /repo apply patch.diff; ./check Cxx --tier quick; git -C /repo checkout -- .)"],
            checks_run=f["checks"],
            caught_by=dict(own=own, others=others))
        if first is not None and first[0] == "missed" and own != "missed":
            meta["first_run"] = dict(own="missed", others=first[1])
            meta["caught_by"]["own"] = "missed→" + own
            meta["strengthening"] = STRENGTHENED.get(name, "generator strengthened (see DESIGN.md section 10)")
        elif first is not None and first[0] == "tie" and own == "violation":
            meta["first_run"] = dict(own="tie", others=first[1])
            meta["caught_by"]["own"] = "tie→violation"
            meta["strengthening"] = STRENGTHENED.get(name, "oracle strengthened (see DESIGN.md section 10)")
        json.dump(meta, open(os.path.join(d, "meta.json"), "w"), indent=1)
        n += 1
    print("stored", n, "seeds")

if __name__ == "__main__":
    main()
