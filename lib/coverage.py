#!/usr/bin/env python3
"""Which lines of /repo/src do the quick-tier cases of all checks execute?

Support tool, not a check (nothing in MANIFEST.json calls it): it measures the generators, which
bound what the correspondence can see.  Builds the harness with the nightly toolchain and
-C instrument-coverage in a scratch directory (removed afterwards), runs the quick cases of every
property through it and prints, per source file, the lines no case executed.

usage: python3 lib/coverage.py [--out FILE] [--annot FILE] [C01 C02 ...]
"""
import os, sys, subprocess, importlib, random, shutil, json, glob, tempfile, concurrent.futures

VERIF = os.path.dirname(os.path.dirname(os.path.abspath(__file__)))
sys.path.insert(0, VERIF)
TOOLS = os.path.expanduser("~/.rustup/toolchains/nightly-x86_64-unknown-linux-gnu/lib/rustlib/x86_64-unknown-linux-gnu/bin")

def main():
    args = sys.argv[1:]
    out = None
    annot = None
    if args[:1] == ["--out"]:
        out = args[1]; args = args[2:]
    if args[:1] == ["--annot"]:      # also write the annotated sources (llvm-cov show) to this file
        annot = args[1]; args = args[2:]
    m = json.load(open(os.path.join(VERIF, "MANIFEST.json")))
    pids = args or sorted({c["property_id"] for c in m["checks"]})
    scratch = tempfile.mkdtemp(prefix="svcov_", dir="/dev/shm")
    try:
        env = dict(os.environ)
        env["CARGO_NET_OFFLINE"] = "true"
        env["CARGO_TARGET_DIR"] = os.path.join(scratch, "target")
        env["LLVM_PROFILE_FILE"] = os.path.join(scratch, "build-%p.profraw")   # build scripts are instrumented too
        env["RUSTFLAGS"] = "-C instrument-coverage --cfg suiron_verif --check-cfg cfg(suiron_verif)"
        hdir = os.path.join(VERIF, "harness")
        p = subprocess.run(["cargo", "+nightly", "build", "--offline", "--quiet"], cwd=hdir, env=env)
        if p.returncode != 0:
            print("instrumented build failed"); return 2
        hbin = os.path.join(scratch, "target", "debug", "harness")
        jobs = []
        for pid in pids:
            gen = importlib.import_module("gen." + pid)
            rng = random.Random(1 * 7919)
            lines = []
            cdir = os.path.join(VERIF, "corpus", pid)
            if os.path.isdir(cdir):
                for fn in sorted(os.listdir(cdir)):
                    for ln in open(os.path.join(cdir, fn)):
                        ln = ln.strip()
                        if ln and not ln.startswith("#"): lines.append(ln)
            lines += [c for c, _ in gen.cases("quick", rng)]
            # chunks, so that a hanging case loses little
            for k in range(0, len(lines), 400):
                cf = os.path.join(scratch, "%s_%d.cases" % (pid, k))
                open(cf, "w").write("\n".join(lines[k:k + 400]) + "\n")
                jobs.append((pid, cf))
            print("[%s] %d cases" % (pid, len(lines)), flush=True)

        def run(job):
            pid, cf = job
            e = dict(os.environ); e["LLVM_PROFILE_FILE"] = cf + ".%p.profraw"
            start = 0
            for _ in range(30):   # restart after a case that kills the process
                try:
                    r = subprocess.run([hbin, cf, "--start", str(start)], stdout=subprocess.PIPE,
                                       stderr=subprocess.DEVNULL, env=e, timeout=120)
                    data = r.stdout
                except subprocess.TimeoutExpired as ex:
                    data = ex.stdout or b""
                done = data.count(b"\x02E ")
                start += done + 1
                if start >= 400: break
                if data.count(b"\x02B\n") == done: break
        with concurrent.futures.ThreadPoolExecutor(14) as ex:
            list(ex.map(run, jobs))
        raws = glob.glob(os.path.join(scratch, "*.cases.*.profraw"))
        prof = os.path.join(scratch, "all.profdata")
        lst = os.path.join(scratch, "raws.txt")
        open(lst, "w").write("\n".join(raws) + "\n")
        subprocess.run([os.path.join(TOOLS, "llvm-profdata"), "merge", "-sparse", "-f", lst, "-o", prof], check=True)
        r = subprocess.run([os.path.join(TOOLS, "llvm-cov"), "export", "-format=lcov", "-instr-profile", prof, hbin],
                           stdout=subprocess.PIPE, check=True, text=True)
        if annot:
            with open(annot, "w") as f:
                subprocess.run([os.path.join(TOOLS, "llvm-cov"), "show", "-instr-profile", prof, hbin,
                                "--ignore-filename-regex", "^(?!/repo/src/)"], stdout=f)
        cur = None; report = {}
        for ln in r.stdout.splitlines():
            if ln.startswith("SF:"):
                cur = ln[3:]
            elif ln.startswith("DA:") and cur and cur.startswith("/repo/src/"):
                a, b = ln[3:].split(",")[:2]
                d = report.setdefault(cur, [0, 0, []])
                d[0] += 1
                if int(b) > 0: d[1] += 1
                else: d[2].append(int(a))
        txt = []
        tot = hit = 0
        for f in sorted(report):
            n, h, miss = report[f]
            tot += n; hit += h
            txt.append("%-40s %4d/%4d lines  not executed: %s" % (f[len("/repo/src/"):], h, n, compress(miss)))
        txt.append("TOTAL %d/%d lines executed (%.1f%%)" % (hit, tot, 100.0 * hit / max(tot, 1)))
        s = "\n".join(txt)
        print(s)
        if out: open(out, "w").write(s + "\n")
    finally:
        shutil.rmtree(scratch, ignore_errors=True)
    return 0

def compress(xs):
    xs = sorted(xs); res = []; i = 0
    while i < len(xs):
        j = i
        while j + 1 < len(xs) and xs[j + 1] == xs[j] + 1: j += 1
        res.append(str(xs[i]) if i == j else "%d-%d" % (xs[i], xs[j]))
        i = j + 1
    return " ".join(res)

if __name__ == "__main__":
    sys.exit(main())
