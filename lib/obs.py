"""Reading observations (result lines) back, and small relations on them."""
from lib import sx

def parse_result(res):
    """-> ('some', entries list[term-sexp or None]) | ('none',) | ('panic',) | ('diverged',) | ('other', parsed)"""
    if res in ("panic",): return ("panic",)
    if res in ("diverged", "fuel"): return ("diverged",)
    try:
        p = sx.parse(res)
    except Exception:
        return ("other", res)
    if isinstance(p, list) and p and p[0] == "ok":
        body = p[1]
        if body == "none": return ("none",)
        if isinstance(body, list) and body and body[0] == "some" and isinstance(body[1], list) and body[1][:1] == ["ss"]:
            return ("some", [None if e == "-" else e for e in body[1][1:]], p[2:])
    return ("other", p)

def is_var(t): return isinstance(t, list) and t and t[0] == "v"

def deref(entries, t, limit=10000):
    """follow variable bindings; returns (final term, cyclic?)"""
    seen = 0
    while is_var(t):
        i = int(t[1])
        if i >= len(entries) or entries[i] is None: return t, False
        t = entries[i]
        seen += 1
        if seen > limit: return t, True
    return t, False

def has_var_cycle(entries):
    for i, e in enumerate(entries):
        if e is None: continue
        _, cyc = deref(entries, ["v", str(i), "s"], limit=len(entries) + 2)
        if cyc: return True
    return False

def has_cycle(entries):
    """any cycle of bindings, also through compound terms and lists (x -> f(y), y -> x)"""
    state = {}
    def vars_of(t, acc):
        if is_var(t): acc.append(int(t[1]))
        elif isinstance(t, list):
            for x in t[1:]: vars_of(x, acc)
        return acc
    def visit(i):
        if i >= len(entries) or entries[i] is None: return False
        if state.get(i) == 1: return True
        if state.get(i) == 2: return False
        state[i] = 1
        for j in vars_of(entries[i], []):
            if visit(j): return True
        state[i] = 2
        return False
    return any(visit(i) for i in range(len(entries)))

def binds_anon(entries):
    return any(e == "anon" for e in entries)

def to_text(p):
    if isinstance(p, list): return "(" + " ".join(to_text(x) for x in p) + ")"
    return p
