"""Regenerates MANIFEST.json from the table below (run by hand after editing)."""
import json, os
VERIF = os.path.dirname(os.path.dirname(os.path.abspath(__file__)))

TB = ("Coq 8.16.1 kernel; axioms as printed by Print Assumptions (allow-list in lib/gate.py); extraction via "
      "ExtrOcamlBasic + ocaml/driver.ml; harness/ + check (correspondence); hand-written model in coq/Model "
      "tied to /repo only by that correspondence (DESIGN.md section 8)")

CHECKS = {
 "C11": dict(
   text="PROVED under one decidable hypothesis on the program, REFUTED without it (known finding). If every clause of kb' is the "
        "corresponding clause of kb with its variables renamed by a per-clause injective map of names (different clauses may "
        "share names, also with the query) and `okkb kb` holds (no join(..) with a variable among its arguments, no variable as "
        "the functor of a call), then (1) every clause fetch from kb' returns the renamed clause with the same fresh ids and "
        "counter (C11_clause_fetch); (2) for every query, fuel and world the reference searches over kb and kb' end in the same "
        "outcome class and give the same number of answers in the same order, pairwise equal except for variable names, with "
        "the same id counter, flag and schedule (C11_answers: every built-in, unification, arithmetic, cut, not, time covered by "
        "a relation `sim` that ignores names but knows that an id determines its name); (3) the same for the engine model "
        "itself, request by request, with no termination hypothesis (C11_next, C11_requests; C11_engine via the refinement "
        "theorem). The OUTPUT is not related: print writes unbound variables with their names (cex_print), so the statement "
        "with equal output is false (C11_full_false). Without okkb the property is false: join(..) of an unbound variable "
        "puts its name into the answer (cex_join; known finding join-of-unbound-variable, shown on the real crate on every "
        "run). Tie to the code: every generated program is solved as written and under four renamings on the implementation "
        "and the observations compared (names masked in output), each run also compared with the model.", ref="7/C11",
   technique="Coq proof of name-independence of reference search and engine model under renaming of clause variables (Properties/C11.v) + renamed-program relation on the implementation + model-vs-implementation correspondence"),

 "C06": dict(
   text="PROVED in a semantic formulation (Spec/SpecUnifySem.v: terms denote finite trees under a valuation of the variables; a "
        "valuation solves a substitution set when every bound variable has the value of its binding), for every fuel and every "
        "call of unify that returns: (G) most general and (C) complete - every solution of the prior substitution that gives "
        "both terms the same value solves the result, in particular the result is not a failure - for ALL terms and "
        "substitution sets (`$_` denotes anything, NaN nothing): C06_general_complete; (S) sound - on plain terms (no `$_`, no "
        "NaN, atom functors, parser-built lists) the result keeps every earlier binding verbatim and each of its solutions "
        "solves the input and gives both terms the same value: C06_sound; plus the earlier syntactic theorems (teq soundness, "
        "no binding cycle: Properties/C06base.v). Pairs needing an occurs check have no solution in finite trees and are thereby "
        "outside, as the property says. FALSE of the model, with compiled witnesses (Properties/C06.v): with `$_` inside a term "
        "that gets bound, the wildcard persists in the binding (f($X,$X) = f(g($_), g(a)) gives $X = g($_); then $X = f(a) and "
        "$X = f(b) both succeed) - a consequence of the documented `$_` (C09), recorded in DESIGN.md section 9; NaN does not "
        "unify with itself (IEEE ==). Tie to the code: every run compares the implementation with a reference unifier with occurs "
        "check on the 126-term universe x 18 priors (same success, prior bindings kept, resolved values equal up to renaming), "
        "plus model-vs-implementation correspondence.", ref="7/C06",
   technique="Coq proof of soundness, completeness and generality of unify against a tree semantics (Properties/C06.v) + reference unifier oracle on the implementation + model-vs-implementation correspondence"),
 "C07": dict(
   text="PROVED (C07_symmetric_): on plain terms and plain substitution sets, if A = B succeeds with a result that has a "
        "solution in finite trees (no occurs check was needed), then B = A - with any fuel on which it returns - succeeds too, "
        "and the two results have exactly the same solutions, i.e. every variable gets the same value under both; plus the "
        "earlier syntactic commutation facts (Properties/C07base.v). With `$_` the order of operands can matter (C06.v: "
        "anon_order: f($X,$X) against f(g(a), g($_)) vs f(g($_), g(a))); the earlier statement with one fuel for both orders is "
        "false of the model (the swapped order may need one more unit: a modelling artefact, C07_one_fuel_for_both_orders_is_false). "
        "Tie to the code: every generated pair is unified in both orders on the implementation, as written and in head/goal "
        "form, comparing success and the resolved values of all variables; model-vs-implementation correspondence.", ref="7/C07",
   technique="Coq proof of symmetry of unify on plain terms via the tree semantics (Properties/C07.v) + both-orders relation on the implementation + model-vs-implementation correspondence"),

 "C18": dict(
   text="Machine-checked for EVERY input string (no bound on length) on the model of the parsers (after 5 repairs of panics "
        "and of exponential grouping time): parse_term, parse_arguments, parse_linked_list, parse_complex, parse_function, "
        "parse_query, parse_subgoal return a value or an error - never Panic, never out-of-fuel - for every fuel >= length + 2; "
        "tokenize, generate_goal and parse_rule (closed with the real leaf parsers) likewise for fuel >= 2*length + 3; the "
        "remaining panic! sites of tokenizer.rs/token.rs are modelled as Panic and proved unreachable from the entry points. "
        "Tied to the code by differential execution: all strings of length <= 3 over the syntax alphabet, grammar-based texts, "
        "mutations (1.3 million cases in the quick tier); observation class ok/err/panic/diverged and the parsed AST.",
   ref="7/C18",
   technique="Coq proof of totality with explicit linear fuel bounds (Properties/C18.v) + model-vs-implementation correspondence via extraction"),
 "C19": dict(
   text="Machine-checked with the REAL parsers throughout: (1) C19_closed_rules: for every closed rule - head a call of arity "
        ">= 0, body built with `,` and `;` in any nesting from calls, built-in predicates, `l = r`, `!`, fail, nl, not(leaf), "
        "time(leaf), all arguments canonical terms - Display yields the canonical text and parse_rule of that text yields the "
        "rule back (executable test closed_ruleb implies the class); (2) C19_roundtrip_terms: parse_term (show_term t) = t for "
        "every canonical term (atoms [A-Za-z0-9_][A-Za-z0-9_ ]* not all digits, 64-bit integers, variables, $_, complex terms up "
        "to validate_complex's 1000 characters, lists with and without tail variable or $_ tail, nested without bound); (3) the "
        "goal/rule round trip for any leaf parser that inverts Display on the leaves. NOT covered by a theorem: floats "
        "(printing/parsing of binary64), quoted atoms, functor and variable names with other characters, not/time over `=` - "
        "decided on every run by printing canonical ASTs with the real Display, parsing with the real parser and comparing, the "
        "model compared with both. The proof work found real disagreements of printer and parser: two repaired in the crate "
        "([a | $_] rejected, 5e5ae04; go() rejected, 0f55f67), the others outside the documented syntax and listed with compiled "
        "Examples in Properties/C19closed.v.",
   ref="7/C19",
   technique="Coq proof of the term, goal and rule round trips with the real parsers (Properties/C19.v) + print/parse round trip on the implementation + model-vs-implementation correspondence"),
 "C20": dict(
   text="Machine-checked for all strings satisfying decidable side conditions (no top-level separator, balanced brackets and "
        "quotes, no arithmetic infix - each a boolean function stated in Properties/C20.v): the text parses to the same term "
        "on its own (parse_term), as the single or k-th argument of parse_arguments, as a list element, as an argument of a "
        "complex term and of a query, and as either operand of = == < <= > >=. The arithmetic-infix case is a genuine, "
        "recorded finding (`$X + 1` is add($X, 1) on its own but an atom as an argument; C20_full_is_false proves the "
        "unrestricted statement false of the model). Tied to the code by differential execution over signed numbers, d-d "
        "forms, punctuation atoms, escapes and all short strings in every context; the context relations are also checked on "
        "the implementation's own results.", ref="7/C20",
   technique="Coq proof of context independence under decidable side conditions (Properties/C20.v) + model-vs-implementation correspondence + context relations on the implementation"),

 "C22": dict(
   text="Machine-checked on the model (all programs, queries, operation sequences, worlds): everything that outlives a query "
        "is the record `world` (variable-id counter, stop flag, printed text); the query constructor overwrites counter and "
        "flag, and the search treats the output as append-only (frame theorem for next / solve / solve_all); hence a query "
        "that is built and then operated on by any sequence of next_solution / solve / solve_all yields, from ANY world - "
        "whatever ran before, including re-asked, abandoned and timed-out queries - the observations of a fresh process and "
        "prints the same text. That `world` really is all the cross-query state of the crate is what the correspondence over "
        "multi-query histories checks (observations include the id counter after every operation). The reference search of "
        "each query is checked as oracle on every request, whatever preceded it. Known finding (genuine, recorded, not "
        "repairable without removing the per-query counter reset): a query that is built, then another query is BUILT, then "
        "the first is asked. A law of the reference for cut-free programs (Properties/C22laws.v, Proofs/ForgetLaw.v): two worlds that agree on id counter, stop flag and stop hook - whatever has been written to the output before - give the same answers and end in worlds that agree again (C22_answers_forget_output).", ref="7/C22",
   technique="Coq proof: frame theorem + constructor-forgets (Properties/C22.v) + model-vs-implementation correspondence on multi-query histories + reference-search oracle per query"),
 "C23": dict(
   text="PARTIAL only with respect to real time (when the OS runs a timer thread is outside every model). Machine-checked: "
        "(1) the flag protocol of time_out.rs as a state machine (Model/Timer.v; every operation of the module is one atomic "
        "step on the word QUERY_STATE, so the interleavings of the main thread with the timer threads are the sequences of "
        "steps): for EVERY interleaving - time-outs of any timer ever started, late, cancelled or superseded - the flag goes "
        "up only through stop_query() or the time-out of the current query's own timer while that query is still running, a "
        "stale or cancelled timer changes nothing, the flag stays up until the next query starts (C23_flag_raised_only_by, "
        "C23_stale_timer_is_ignored, C23_cancelled_timer_is_ignored, C23_flag_stays_until_next_query, C23_own_timer_stops); the protocol "
        "before the repair ba4370f is refuted by a concrete schedule (C23_old_protocol_refuted) that was reproduced on the real "
        "code. (2) For EVERY schedule of the stop flag (never, or raised at the n-th read for any n): solve reports the timeout "
        "message iff the read after the request is true, else `No more.` or the text of the answer the request returned; "
        "solve_all reports the texts of answers after which the flag still read false, the list is complete when the search "
        "ended with the flag false, the message follows exactly when the final read is true; when no stop is pending the search "
        "never raises the flag and solve_all's list is exactly the formatted reference answers (C23_no_stop_pending). Tied to "
        "the code by hooks: the flag raised at the n-th read (every n < 40 on fixed programs, random n on random ones) and the "
        "protocol driven step by step - all interleavings up to 4 steps, random ones up to 12 - with the time-out of any timer "
        "fired by hand; oracles: reported texts are a prefix of the reference answers, complete without message; flag up/down "
        "laws on the implementation's observations.",
   ref="7/C23",
   technique="Coq proof of the timer protocol as a state machine under all interleavings + Coq proof about solve/solve_all under all flag schedules (Properties/C23.v) + hook-driven model-vs-implementation correspondence (flag schedule, protocol steps) + reference-search prefix oracle"),

 "C21": dict(
   text="END TO END (C21_closed_load, Properties/C21.v): a knowledge base of closed rules (the class of C19) printed rule by rule with "
        "Display and written to a file under any legal layout whose line breaks stand right after `,` `;` `=` or the neck `:-` "
        "(C21_closed_load_layout: a condition checked by eye; any indentation, blank lines, # % // comments) - is loaded by load_kb_from_file with the REAL parse_rule as "
        "exactly that knowledge base (add_rules over the same rules, no error); a break that changes the spacing can change the rule "
        "(`p(-`/`5).` loads the atom `- 5`: compiled witness). Machine-checked theorems about the model of src/rule_reader.rs (after six repairs; Properties/C21base.v): for every list of rule "
        "texts that each contain exactly one rule end - a period outside ( ) [ ] and quotes that is not a decimal point "
        "- as their last character and no comment delimiter outside ( ) [ ] and quotes, and every layout that breaks "
        "lines only after - , ; = outside quotes, with any indentation, blank lines and # % // comments outside brackets, "
        "read_facts_and_rules returns exactly the texts with one space at each line break (never an error, never another "
        "list), load_kb_from_file is parse_rule + add_rules over those texts in order (over the original texts for every "
        "parser when each break stands before a single space), no reader function panics on any input, and "
        "separate_rules only ever cuts its input into consecutive pieces. parse_rule is a parameter of the model; that "
        "the loaded rules equal the rules parsed one by one is checked on the implementation itself on every generated "
        "file. Texts with backslash-escaped brackets or brackets between quotes are outside the claim (known finding).",
   ref="7/C21",
   technique="Coq end-to-end proof of file loading for closed rules with the real parsers + Coq proof of model vs SpecLoad.render/expected (Properties/C21.v) + model-vs-implementation correspondence "
             "via extraction + implementation-only oracle load_kb_from_file = parse_rule each"),

 "C01": dict(
   text="PROVED for every program: for every knowledge base (cut, not, time, built-ins, any nesting), query, world and fuel, if the "
        "reference depth-first search (Spec/SpecCut.v: success continuations, no nodes/flags/resumption; cut/not/time as "
        "documented) finishes with answers R and asking the query's node until it reports no answer finishes with R', then R' = R: "
        "same order, same multiplicity, syntactically equal substitution sets, same variable-id counter, stop flag and output "
        "(C01_refines = Proofs/RefineCut.refines_cut, by the refinement mapping `cden` from node states to the remaining "
        "reference search: cden_fresh + cden_step). CONVERSELY (C01_engine_finishes_then_reference_does): whenever asking the node until "
        "exhaustion finishes, the reference search finishes too, for some fuel, with exactly that result - for every program "
        "without a cut directly inside not/time (decidable kbokb; the reference refuses those by design). Also proved: the same against the cut-free reference Spec/SpecLazy.v, the `$Var = value` "
        "format of solve/solve_all, exhaustion (C05). Tie to the code: the reference searches are extracted and run as oracles "
        "against the implementation on every generated history (SpecCut/SpecLazy: exact substitution sets; the independently "
        "written eager trace semantics SpecSolve: answers up to renaming of unbound variables), and the executable solver "
        "model - the object of the theorems - is compared with the implementation on full substitution sets, variable-id "
        "counter and output. The reference itself is shown to BE depth-first SLD resolution in program order for cut-free programs (Properties/C01laws.v, Proofs/SldOrder.v): it equals, at every fuel, a direct-style stream-of-successes interpreter without continuations or signals (C01_sld_continuation); conjunction is bind over the resumable answer stream of its first goal, disjunction is append from the same substitution, a call is the concatenation over its clauses in program order of head unification followed by the body (C01_sld_conjunction, _disjunction, _call, _clauses) - and the naive law over plain answer lists is refuted by a compiled example, because fetched clauses take their ids from the world the search has reached (C01sld_naive_list_law_is_false).", ref="7/C01",
   technique="Coq refinement proof (solver model refines the reference depth-first search, all programs) + extracted Coq reference semantics as oracles vs implementation + model-vs-implementation correspondence"),
 "C02": dict(
   text="PROVED: (1) the engine yields exactly the answers of the reference search Spec/SpecCut.v for every program with cut "
        "(C02_refines): in that reference `!` continues and returns the signal Cut, which abandons every alternative up to the "
        "clause body (goals left of the cut are not retried), ends the clause iteration of the call that chose the clause and is "
        "absorbed there (caller and siblings unaffected); an answer leaving a conjunction in which a cut ran is its last "
        "(C02_reference_cut_signals, C02_reference_call_absorbs). (2) Directly on the machine, for all programs, goals and worlds: "
        "a node that reports a cut is committed (no_backtracking set) - the cut, every enclosing conjunction/disjunction node and "
        "the call that chose the clause; a committed node yields nothing beyond the answer being derived, whatever is asked "
        "afterwards; a call never reports a cut to its caller (Properties/C02base.v). (3) The textbook law of cut holds of the reference, for every program "
        "(Properties/C02.v, Proofs/CutOnce.v): running a cut-free goal with a continuation that stops the search is computing its FIRST answer and continuing "
        "once from it (C02_first_answer); hence a body `g1, !, rest` behaves as once(g1) followed by rest and signals the commit exactly when g1 has an "
        "answer (C02_cut_is_once); and the call that chose such a clause returns the answers of rest from g1's first answer and consults no later clause, "
        "whatever and however many they are - or, when g1 has no answer, goes on to the next clause (C02_cut_commits_the_call_reference, _kb). Tie to the code: extracted reference searches as oracles against "
        "the implementation (exact substitution sets) plus model-vs-implementation correspondence with cut at every position of "
        "small bodies.", ref="7/C02",
   technique="Coq refinement proof (model refines reference search with cut) + Coq proof of the commit invariants (Properties/C02base.v) and of the law `g1, !, rest = once(g1), rest + commit` (Properties/C02.v) + extracted reference semantics as oracle + model-vs-implementation correspondence"),
 "C03": dict(
   text="PROVED: (1) the engine yields exactly the answers of the reference search Spec/SpecCut.v for every program with not(..) "
        "(C03_refines); there not(G) asks G for its first answer only and continues - once, with the substitution it was entered "
        "with, so no binding of G is visible - iff there was none (C03_reference_not_cps). (2) Directly on the machine, for every "
        "goal G: a fresh not(G) node asks G's node once, answers with exactly the substitution it was created with iff that "
        "request finds no answer, fails otherwise, and is spent afterwards (C05). Tie to the code: extracted reference searches as "
        "oracles against the implementation (19 goals G x 9 positions, not(not(G)), random programs) and model-vs-implementation "
        "correspondence. Laws of the reference for cut-free programs (Properties/C03laws.v, Proofs/NotLaw.v), in terms of the direct-style interpreter that the reference equals (C01laws): the answers of not(g) are exactly [the substitution it was entered with] when g has no answer and [] when g has one - g being asked for its first answer only - and time(g) continues with g's first answer only (C03_not_law, C03_time_law).", ref="7/C03",
   technique="Coq refinement proof (model refines reference search with not) + Coq proof about the not node (Properties/C03.v) + extracted reference semantics as oracle + model-vs-implementation correspondence"),
 "C04": dict(
   text="Machine-checked: (1) for EVERY program the complete output of draining a query equals the output of the reference "
        "depth-first search (Spec/SpecCut.v), which writes exactly when it executes a print goal - order and multiplicity "
        "(C04_output_of_search, corollary of the refinement theorem; after every single answer the world equals the reference's "
        "at that point, C01_step_all); (2) print's formatting for all format strings and argument lists; (3) requests on an "
        "exhausted node write nothing. Tie to the code: per request, the text the implementation writes is compared with what "
        "the extracted reference searches write between the corresponding answers, and model-vs-implementation correspondence "
        "on the output of every operation. A law of the reference for cut-free programs (Properties/C04laws.v, Proofs/OutputLaw.v): a built-in that stands after a goal g1 is executed once for each answer of g1, in the order in which g1 delivers them, and its text is appended at that moment, before g1 is resumed (C04_output_once_per_answer).", ref="7/C04",
   technique="Coq refinement proof (output of the search, all programs) and proof of print formatting (Properties/C04.v) + extracted reference semantics as per-request output oracle + model-vs-implementation correspondence"),
 "C05": dict(
   text="Machine-checked for ALL node kinds (calls, conjunctions, disjunctions, not, time, built-ins, with or without cut flags), "
        "all programs, worlds and fuel: a request that finds no answer leaves the node in a `dead` state; a dead node answers "
        "every request with None, reports no cut, leaves the whole world unchanged (no output, no variable id, no read of the "
        "stop flag) and stays dead - hence any number of further requests report none and write nothing; solve keeps "
        "answering `No more.`. Tied to the code by differential execution on histories that keep asking (8-16 requests) and by "
        "checking the property directly on the implementation's observations.", ref="7/C05",
   technique="Coq proof by mutual induction over next / and_loop / call_loop (Proofs/SolveDead.v, Properties/C05.v) + model-vs-implementation correspondence on re-ask histories"),

 "C10": dict(
   text="Machine-checked theorems about the model of recreate_variables / get_rule / make_query (all terms, goals, rules, "
        "knowledge bases, counters): a fetched clause equals the stored one once ids are erased (atoms, numbers, list nodes "
        "including [], counts, tail markers and goal structure untouched; a renamed well-formed list is a well-formed list of "
        "the renamed elements), occurrences of one name carry one id and different names different ids, and every id lies "
        "strictly above the counter before the fetch and at most the counter after it (Properties/C10base.v). That no such id is in use elsewhere in "
        "the current search is proved for every program (Properties/C10.v, Proofs/FreshSearch.v): unification and all sixteen built-in predicates keep "
        "every variable id and every slot of the substitution set at or below the id counter; hence every clause the reference search fetches is apart "
        "from the goal, from every slot and from every bound term (C10_clause_fetched_is_apart), the counter never falls below its start (a failed head "
        "restores it to the value before the fetch) and every answer lies below the final counter (C10_canswers_fresh) - and, through the refinement "
        "theorem, the same holds for every answer of the engine model (C10_engine_answers_fresh, C10_engine_requests_fresh). Tied to the "
        "code by differential execution on raw structure; the three clauses are also checked on the implementation's own "
        "results (oracle).", ref="7/C10",
   technique="Coq proof of renaming (Properties/C10base.v) and of freshness during a search for all programs (Properties/C10.v, Proofs/FreshSearch.v) + model-vs-implementation correspondence via extraction + specification oracle on the implementation's results"),

 "C15": dict(
   text="Machine-checked theorems about the list builders (all element sequences, any length): make_list_of_terms (the builder "
        "behind append, include and exclude) yields a well-formed node chain whose elements are exactly the given terms - a "
        "list-valued or empty-list element stays one element - with every recorded count equal to the number of nodes; "
        "link_front (the parser's builder) prepends exactly one element; the documented constructor make_linked_list yields "
        "the given elements, the last one as tail variable when vbar is set, and a trailing list spliced in as the rest. "
        "Renamed clause lists keep their shape by C10's theorem. Tied to the code by differential execution on the raw node "
        "structure; the specification's view `elems` is also evaluated on the implementation's own results (oracle).",
   ref="7/C15",
   technique="Coq proof (Properties/C15.v, Spec/SpecLists.v) + model-vs-implementation correspondence via extraction + specification oracle on the implementation's results"),
 "C16": dict(
   text="Machine-checked theorem (all argument tuples, all substitutions): whenever every input argument has a contribution "
        "in the sense of the specification (Spec/SpecLists.v: the elements of the list it resolves to, continuing through tail "
        "variables bound to lists, or the single non-list value it resolves to), append is exactly the unification of the "
        "output argument with the list holding the concatenated contributions; the traversal lemma behind it is proved for "
        "every well-formed list. 'At most once' is the solver's built-in node (C05). Tied to the code by differential "
        "execution; the specification is evaluated on the implementation's own results as an oracle.", ref="7/C16",
   technique="Coq proof (Properties/C16.v) + model-vs-implementation correspondence via extraction + specification oracle on the implementation's results"),
 "C17": dict(
   text="Machine-checked theorems (all arguments, all substitutions): count unifies its output with the number of elements "
        "(through bound tails); include/exclude unify their output - under the ORIGINAL substitution, the pattern tests leave no "
        "binding - with the list built exactly from List.filter of the elements by 'unifies with the pattern'; functor matches "
        "`prefix*` by prefix (str_prefix p s = true <-> s = p ++ r), otherwise exactly, and unifies the arity argument with the "
        "number of arguments; join is the first word followed by each later word preceded by one space unless it is , . ? !. "
        "Tied to the code by differential execution; python twins of the specifications are evaluated on the implementation's "
        "own results as oracles.", ref="7/C17",
   technique="Coq proof (Properties/C17.v) + model-vs-implementation correspondence via extraction + specification oracles on the implementation's results"),

 "C08": dict(
   text="Machine-checked, over the model of unify (all terms, all substitutions, any number of steps): (1) every successful "
        "unification keeps 'following bindings from any term ends' (chains_end: the binding step is only taken after the alias "
        "check found that the right operand's chain does not lead back to the variable), hence no cycle of variables after any "
        "sequence of successful unifications from the empty set; unifying two already aliased variables, in either order, "
        "returns the substitution set itself (Properties/C08base.v). (2) TERMINATION (Properties/C08.v, Proofs/UnifyTerminates.v): "
        "under chains_end, following bindings / get_ground_term / get_constant / get_list / get_complex terminate from any "
        "term, with an explicit fuel bound (the chain length); resolving an answer (replace_variables) terminates with a term of "
        "the same value whenever the substitution set has a solution in finite trees; unification of unifiable plain operands "
        "terminates with success (C08_unify_terminates) - with C06: a total, correct decision on unifiable input. Outside, with "
        "compiled witnesses: input that needs an occurs check (f($X,$Y,$X) = f(g($X),g($Y),$Y) loops for ever - the property "
        "excludes it), hand-built tail nodes. Tie to the code: differential execution over all short unification sequences among "
        "three variables, three constants and compound aliasing patterns followed by resolving all three variables (a cycle "
        "makes that diverge), plus relations checked on the implementation's own results.", ref="7/C08",
   technique="Coq proof of acyclicity by a generic unify-invariant principle and of termination of resolving and unifying on solvable input (Properties/C08.v, C08base.v) + model-vs-implementation correspondence via extraction"),
 "C09": dict(
   text="Machine-checked theorems over the model of unify: x = $_ and $_ = x return the substitution set itself for EVERY "
        "term x and every set; an argument position holding $_ on either side is skipped by the argument loop; no run of "
        "unify (single or any sequence from the empty set) ever makes $_ the value of a binding. Tied to the code by "
        "differential execution on the 119-term universe under 18 priors, sequences with/without their $_ steps, and terms "
        "against copies masked by $_; the relations of the property are also checked on the implementation's own results.",
   ref="7/C09",
   technique="Coq proof (Properties/C09.v: direct lemmas + unify-invariant principle) + model-vs-implementation correspondence via extraction"),
 "C13": dict(
   text="Machine-checked theorems over the model of unify: for a built-in function term F whose evaluation yields v, "
        "unify F t = unify v t (function on the left) and unify t F = unify v t for every t that is a variable, constant, "
        "complex term or list (function on the right; for constants and variables unify v t = unify t v is proved too). "
        "Tied to the code by differential execution; the property's own relation (F = T has the same outcome as V = T, on "
        "either side, V read off the implementation) is checked on the implementation's results on every run.", ref="7/C13",
   technique="Coq proof (Properties/C13.v) + model-vs-implementation correspondence via extraction + function-vs-value relation on the implementation"),

 "C12": dict(
   text="Machine-checked theorems (all argument lists, all substitutions): every finished evaluation of add/subtract/"
        "multiply/divide returns the left-to-right fold of the resolved arguments - in Z with truncating division when "
        "all are integers, in IEEE-754 binary64 as formalised by Flocq (integers converted, round to nearest even) when "
        "any is a float - and conversely inside the claim (no i64 overflow, no integer zero divisor) the evaluation "
        "finishes with that value. Tied to the code by differential execution with results compared by bit pattern. "
        "The infix-parser half of the property is covered by the parser properties (C19/C20).", ref="7/C12",
   technique="Coq proof of model = fold specification (Properties/C12.v, Flocq binary64) + model-vs-implementation correspondence via extraction"),
 "C14": dict(
   text="Machine-checked theorem (all operand pairs, all substitutions): the comparison predicates return the unchanged "
        "substitution exactly when both operands resolve to constants ordered as demanded (lexicographic / numeric with "
        "int->float conversion by Flocq's IEEE-754), fail otherwise, never panic with two operands and terminate on "
        "acyclic bindings. The model is tied to the code by differential execution (all pairs of a 53-constant universe, "
        "chains).", ref="7/C14",
   technique="Coq proof of model = specification (Properties/C14.v) + model-vs-implementation correspondence via extraction"),
}
NOT_APPLICABLE = [
 dict(property_id="C24", reason="Undefined behaviour (aliasing of raw-pointer writes, data race on static mut) is a property of "
      "Rust's abstract machine; no executable Gallina model can exhibit it and a correspondence check cannot observe it "
      "(DESIGN.md section 7, C24)."),
]
PENDING_REASON = "not yet claimed in this round: model / theorems under construction (see DESIGN.md section 9)"

def main():
    all_ids = [json.loads(l)["id"] for l in open(os.path.join(VERIF, "properties.jsonl"))]
    checks = []
    for pid in all_ids:
        if pid not in CHECKS: continue
        c = CHECKS[pid]
        checks.append(dict(
            property_id=pid,
            quick_cmd="./check %s --tier quick" % pid,
            thorough_cmd="./check %s --tier thorough" % pid,
            evidence_file="evidence/%s.json" % pid,
            replay_cmd_template="./check %s --replay {path}" % pid,
            engine="coq-model",
            level_claimed=dict(category="proof", text=c["text"], design_ref=c["ref"]),
            level_note=c.get("note", TB),
            technique=c["technique"]))
    na = list(NOT_APPLICABLE)
    claimed = set(CHECKS) | {x["property_id"] for x in na}
    for pid in all_ids:
        if pid not in claimed:
            na.append(dict(property_id=pid, reason=PENDING_REASON))
    m = dict(
        version=1,
        setup_cmd="./setup.sh",
        hooks=dict(guard="suiron_verif",
                   enable="RUSTFLAGS='--cfg suiron_verif --check-cfg cfg(suiron_verif)' (set by lib/runner.py when it builds harness/ against /repo)",
                   baseline_off_cmd="cd /repo && cargo test --workspace --no-fail-fast --offline",
                   source_commits=HOOK_COMMITS, add_only=True),
        engines=[dict(name="coq-model", path="coq/", serves_properties=sorted(CHECKS),
                      kind_free_text="hand-written Gallina model + specifications + theorems (Coq 8.16.1), extracted to OCaml "
                                     "and run against the Rust crate by harness/ on generated cases")],
        checks=checks,
        not_applicable=na,
        notes="See DESIGN.md. Known findings: known_findings.txt.")
    with open(os.path.join(VERIF, "MANIFEST.json"), "w") as f:
        json.dump(m, f, indent=1)

HOOK_COMMITS = ["688dc2a", "b29e872", "43aafa9", "7e70c35", "b7cf2d6", "f7bfd95"]
if __name__ == "__main__":
    main()
