"""Human-readable rendering of wire-format terms / goals / rules / histories (for replays and samples)."""
import struct
from lib import sx

def term(t):
    if t == "nil": return "Nil"
    if t == "anon": return "$_"
    tag = t[0]
    if tag == "a": return sx.unS(t[1])
    if tag == "i": return t[1]
    if tag == "f": return repr(struct.unpack("<d", struct.pack("<Q", int(t[1][1:], 16)))[0])
    if tag == "v": return sx.unS(t[2]) + ("" if t[1] == "0" else "_" + t[1])
    if tag == "c":
        if len(t) == 1: return "<empty complex>"
        return term(t[1]) + ("(" + ", ".join(term(x) for x in t[2:]) + ")" if len(t) > 2 else "")
    if tag == "fn": return sx.unS(t[1]) + "(" + ", ".join(term(x) for x in t[2:]) + ")"
    if tag == "l":
        items, cur, tail = [], t, None
        while isinstance(cur, list) and cur[0] == "l" and cur[1] != "nil":
            if cur[4] == "1": tail = term(cur[1]); break
            items.append(term(cur[1])); cur = cur[2]
        return "[" + ", ".join(items) + (" | " + tail if tail else "") + "]"
    return str(t)

def goal(g, top=True):
    if g == "gnil": return ""
    tag = g[0]
    if tag == "call": return term(g[1])
    if tag == "bip0": return sx.unS(g[1])
    if tag == "bip":
        name = sx.unS(g[1])
        if name == "unify" and len(g) == 4: return "%s = %s" % (term(g[2]), term(g[3]))
        return name + "(" + ", ".join(term(x) for x in g[2:]) + ")"
    if tag == "op":
        k = g[1]
        if k in ("not", "time"): return "%s(%s)" % (k, ", ".join(goal(x) for x in g[2:]))
        s = (", " if k == "and" else "; ").join(goal(x, False) for x in g[2:])
        return s if top else "(" + s + ")"
    return str(g)

def rule(r):
    h, b = term(r[1]), goal(r[2])
    return h + (" :- " + b if b else "") + "."

def hist(case, skip_lib=0):
    c = sx.parse(case)
    rules = [rule(r) for r in c[1][1:]]
    ops = []
    for op in c[2:]:
        if op[0] == "build": ops.append("build#%s %s" % (op[1], term(["c"] + op[2:])))
        else: ops.append(" ".join(op[0:1] + ["#" + x for x in op[1:]]))
    return dict(program=rules[skip_lib:], operations=ops)
