"""A textbook reference unifier (python twin of the Rust probe in design-notes): terms over the
abstract view of lists (elements + optional tail), `$_` matching anything without binding,
floats by numeric equality, OCCURS CHECK (a pair that needs one is outside C06/C07).
Terms are parsed wire-format S-expressions."""
import struct
from lib import pyspec

class Bad(Exception): pass

def to_r(t):
    if t == "anon": return ("_",)
    if t == "nil": raise Bad("nil")
    tag = t[0]
    if tag == "a": return ("a", t[1])
    if tag == "i": return ("i", int(t[1]))
    if tag == "f": return ("f", struct.unpack("<d", struct.pack("<Q", int(t[1][1:], 16)))[0])
    if tag == "v": return ("v", int(t[1]))
    if tag == "c": return ("c", tuple(to_r(x) for x in t[1:]))
    if tag == "l":
        e = pyspec.elems(t)
        if e is None: raise Bad("malformed list")
        return norm(("l", tuple(to_r(x) for x in e[0]), None if e[1] is None else to_r(e[1])))
    raise Bad(str(tag))

def norm(r):
    if r[0] == "c": return ("c", tuple(norm(x) for x in r[1]))
    if r[0] == "l":
        es = tuple(norm(x) for x in r[1]); tl = None if r[2] is None else norm(r[2])
        if tl is not None and tl[0] == "l": return ("l", es + tl[1], tl[2])
        return ("l", es, tl)
    return r

def walk(t, s):
    n = 0
    while t[0] == "v" and t[1] in s:
        t = s[t[1]]; n += 1
        if n > 10000: raise Bad("cycle")
    return t

def apply(t, s, depth=0):
    if depth > 200: raise Bad("deep")
    t = walk(t, s)
    if t[0] == "c": return norm(("c", tuple(apply(x, s, depth + 1) for x in t[1])))
    if t[0] == "l": return norm(("l", tuple(apply(x, s, depth + 1) for x in t[1]), None if t[2] is None else apply(t[2], s, depth + 1)))
    return t

def occurs(i, t, s):
    t = walk(t, s)
    if t[0] == "v": return t[1] == i
    if t[0] == "c": return any(occurs(i, x, s) for x in t[1])
    if t[0] == "l": return any(occurs(i, x, s) for x in t[1]) or (t[2] is not None and occurs(i, t[2], s))
    return False

YES, NO, OCCURS = "yes", "no", "occurs"
def runify(a, b, s):
    a = walk(a, s); b = walk(b, s)
    if a[0] == "_" or b[0] == "_": return YES
    if a[0] == "v" and b[0] == "v" and a[1] == b[1]: return YES
    if a[0] == "v" or b[0] == "v":
        v, t = (a, b) if a[0] == "v" else (b, a)
        if occurs(v[1], t, s): return OCCURS
        s[v[1]] = t; return YES
    if a[0] != b[0]: return NO
    if a[0] in ("a", "i"): return YES if a[1] == b[1] else NO
    if a[0] == "f": return YES if a[1] == b[1] else NO
    if a[0] == "c":
        if len(a[1]) != len(b[1]): return NO
        for p, q in zip(a[1], b[1]):
            r = runify(p, q, s)
            if r != YES: return r
        return YES
    if a[0] == "l":
        a = norm(a); b = norm(b)
        xe, xt, ye, yt = a[1], a[2], b[1], b[2]
        n = min(len(xe), len(ye))
        for k in range(n):
            r = runify(xe[k], ye[k], s)
            if r != YES: return r
        xr = ("l", xe[n:], xt); yr = ("l", ye[n:], yt)
        if len(xe) == n and len(ye) == n:
            if xt is None and yt is None: return YES
            if xt is None: return runify(yt, ("l", (), None), s)
            if yt is None: return runify(xt, ("l", (), None), s)
            return runify(xt, yt, s)
        if len(xe) == n: return NO if xt is None else runify(xt, yr, s)
        return NO if yt is None else runify(yt, xr, s)
    return NO

def has_anon(t):
    if t[0] == "_": return True
    if t[0] == "c": return any(has_anon(x) for x in t[1])
    if t[0] == "l": return any(has_anon(x) for x in t[1]) or (t[2] is not None and has_anon(t[2]))
    return False

def canon(ts):
    m = {}
    def go(t):
        if t[0] == "v": return "?%d" % m.setdefault(t[1], len(m))
        if t[0] == "_": return "_"
        if t[0] == "c": return "(" + " ".join(go(x) for x in t[1]) + ")"
        if t[0] == "l": return "[" + " ".join(go(x) for x in t[1]) + ("|" + go(t[2]) if t[2] is not None else "") + "]"
        return "%s:%s" % (t[0], t[1])
    return ";".join(go(t) for t in ts)
