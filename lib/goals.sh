#!/bin/bash
# usage: lib/goals.sh <file.v relative to coq/> <line>  -- shows the proof state before <line>
cd /verif/coq
f=$1; n=$2
d=$(dirname $f)
head -n $((n-1)) $f > $d/Tmpgoal.v
echo "Show. " >> $d/Tmpgoal.v
timeout 120 coqc -q -Q . Suiron $d/Tmpgoal.v 2>&1 | grep -v "^Error: There are pending proofs\|conda" | tail -${3:-60}
rm -f $d/Tmpgoal.v $d/Tmpgoal.vo $d/Tmpgoal.glob $d/.Tmpgoal.aux $d/Tmpgoal.vos $d/Tmpgoal.vok
