#!/bin/bash
# usage: lib/verify_seed.sh <ID> <k> [check ids...]
# 1. in a scratch worktree: the demo passes without the patch, fails with it, and the crate's own tests pass with it
# 2. applies the patch to /repo, runs the given quick checks (default: the property's own), undoes it
ID=$1; K=$2; shift 2
CHECKS=${@:-$ID}
D=/tmp/seed-out/$ID
W=/tmp/vs-$ID-$K
rm -rf $W; git -C /repo worktree add --detach $W HEAD -q || exit 2
cp /repo/Cargo.lock $W/ 2>/dev/null
cp $D/demo_$K.rs $W/tests/seed_demo.rs
export CARGO_NET_OFFLINE=true
cd $W
A=$(cargo test --offline --test seed_demo -- --test-threads=1 2>&1 | grep -E "^test result" | head -1)
echo "demo without patch: $A"
git apply $D/patch_$K.diff || { echo "PATCH DOES NOT APPLY"; cd /; git -C /repo worktree remove --force $W; exit 3; }
B=$(cargo test --offline --test seed_demo -- --test-threads=1 2>&1 | grep -E "^test result|panicked" | head -2 | tr '\n' ' ')
echo "demo with patch:    $B"
rm tests/seed_demo.rs
C=$(cargo test --offline --no-fail-fast -- --test-threads=1 2>&1 | grep -E "^test result" | awk '{p+=$4; f+=$6} END {print "passed",p,"failed",f}')
echo "crate tests with patch: $C"
cd /verif
git -C /repo worktree remove --force $W
git -C /repo apply $D/patch_$K.diff || { echo "cannot apply to /repo"; exit 4; }
for p in $CHECKS; do ./check $p --tier quick 2>&1 | grep -E "VIOLATION|PASS|FAIL" | cut -c1-220; done
git -C /repo checkout -- .
git -C /repo status --short | grep -v Cargo.lock
