"""Running the implementation harness and the extracted model on the same case lines."""
import os, subprocess, tempfile, shutil, concurrent.futures, time

VERIF = os.path.dirname(os.path.dirname(os.path.abspath(__file__)))
CACHE = os.path.join(VERIF, ".cache")
HARNESS_TARGET = os.path.join(CACHE, "harness-target")
HARNESS_BIN = os.path.join(HARNESS_TARGET, "debug", "harness")
DRIVER_BIN = os.path.join(VERIF, "ocaml", "_build", "default", "driver.exe")
GUARD_FLAGS = "--cfg suiron_verif --check-cfg cfg(suiron_verif)"
MAX_CRASHES_PER_CHUNK = 12

def env_offline():
    e = dict(os.environ)
    e["CARGO_NET_OFFLINE"] = "true"
    e["CARGO_TARGET_DIR"] = HARNESS_TARGET
    e["RUSTFLAGS"] = GUARD_FLAGS
    return e

def build_harness(log):
    """Rebuild the harness (and therefore the crate) from /repo's current working tree."""
    os.makedirs(CACHE, exist_ok=True)
    hdir = os.path.join(VERIF, "harness")
    lock = "/repo/Cargo.lock"
    if os.path.exists(lock):
        shutil.copyfile(lock, os.path.join(hdir, "Cargo.lock"))
    p = subprocess.run(["cargo", "build", "--offline", "--quiet"], cwd=hdir, env=env_offline(),
                       stdout=subprocess.PIPE, stderr=subprocess.STDOUT, text=True)
    if p.returncode != 0:
        log(p.stdout[-4000:])
        return False
    return True

def parse_frames(data):
    """-> list of (output_text, result_line or None when the frame was not closed)"""
    frames = []
    parts = data.split("\x02B\n")
    for part in parts[1:]:
        k = part.rfind("\x02E ")
        if k < 0:
            frames.append((part, None))
        else:
            out = part[:k]
            rest = part[k + 3:]
            nl = rest.find("\n")
            if nl < 0:
                # the result line is not terminated: the process was stopped (watchdog) while writing it
                frames.append((part, None))
            else:
                frames.append((out, rest[:nl]))
    return frames

def _run_impl_chunk(lines, per_chunk_timeout):
    """Run the harness over `lines`; restart after a case that kills or hangs it."""
    results = []
    n = len(lines)
    with tempfile.TemporaryDirectory(prefix="sv_", dir=CACHE) as td:
        cf = os.path.join(td, "cases")
        with open(cf, "w") as f:
            f.write("\n".join(lines) + "\n")
        start = 0
        crashes = 0
        while start < n:
            if crashes >= MAX_CRASHES_PER_CHUNK:
                # a tree on which this many cases kill the process has been shown broken already;
                # the rest of the chunk is not run (and not compared)
                results.extend([("", "skipped")] * (n - start))
                break
            try:
                p = subprocess.run([HARNESS_BIN, cf, "--start", str(start)],
                                   stdout=subprocess.PIPE, stderr=subprocess.DEVNULL,
                                   timeout=per_chunk_timeout)
                data = p.stdout
            except subprocess.TimeoutExpired as e:
                data = e.stdout or b""
            frames = parse_frames(data.decode("utf-8", errors="replace"))
            done = 0
            for out, res in frames:
                if res is None:
                    results.append((out, "diverged"))
                    done += 1
                    crashes += 1
                    break
                results.append((out, res))
                done += 1
            if done == 0:
                # the process died before printing anything for case `start`
                results.append(("", "diverged"))
                done = 1
                crashes += 1
            start += done
    return results[:n]

def _run_model_chunk(lines):
    with tempfile.TemporaryDirectory(prefix="sv_", dir=CACHE) as td:
        cf = os.path.join(td, "cases")
        with open(cf, "w") as f:
            f.write("\n".join(lines) + "\n")
        p = subprocess.run(["bash", "-c", "ulimit -s unlimited 2>/dev/null; exec \"$0\" \"$1\"", DRIVER_BIN, cf],
                           stdout=subprocess.PIPE, stderr=subprocess.PIPE)
        frames = parse_frames(p.stdout.decode("utf-8", errors="replace"))
        res = []
        for out, r in frames:
            if r is None:
                res.append((out, "bad:driver-died", "-"))
            else:
                m, _, s = r.partition("\t")
                res.append((out, m, s if s else "-"))
        while len(res) < len(lines):
            res.append(("", "bad:driver-died:" + p.stderr.decode("utf-8", "replace")[-200:].replace("\n", " "), "-"))
        return res

def rerun_impl_slow(line, timeout=120):
    """one case alone, with generous limits: tells a real hang / stack overflow from a machine that is merely busy"""
    with tempfile.TemporaryDirectory(prefix="sv_", dir=CACHE) as td:
        cf = os.path.join(td, "cases")
        with open(cf, "w") as f:
            f.write(line + "\n")
        env = dict(os.environ); env["VERIF_CASE_TIMEOUT_MS"] = str(timeout * 1000)
        try:
            p = subprocess.run([HARNESS_BIN, cf], stdout=subprocess.PIPE, stderr=subprocess.DEVNULL, timeout=timeout + 10, env=env)
            data = p.stdout
        except subprocess.TimeoutExpired as e:
            data = e.stdout or b""
        frames = parse_frames(data.decode("utf-8", errors="replace"))
        if frames and frames[0][1] is not None: return frames[0]
        return (frames[0][0] if frames else "", "diverged")

def chunks(lines, k):
    size = max(1, (len(lines) + k - 1) // k)
    return [lines[i:i + size] for i in range(0, len(lines), size)]

def run_both(lines, jobs=14, per_chunk_timeout=60):
    """-> (impl_results [(out,res)], model_results [(out,model,spec)])"""
    os.makedirs(CACHE, exist_ok=True)
    if not lines:
        return [], []
    cs = chunks(lines, jobs * 2)
    with concurrent.futures.ThreadPoolExecutor(max_workers=jobs) as ex:
        fi = [ex.submit(_run_impl_chunk, c, per_chunk_timeout) for c in cs]
        fm = [ex.submit(_run_model_chunk, c) for c in cs]
        impl = [r for f in fi for r in f.result()]
        model = [r for f in fm for r in f.result()]
    # a case the implementation did not finish although the model did: run it again, alone and patiently
    # (on a busy machine the watchdog fires on healthy cases); only a repeated failure counts
    # likewise a solve()/solve_all() that reports the REAL one-second timeout although the model (which has no
    # clock) does not: on a loaded machine a fast query can be descheduled for more than a second
    TIMEOUT_TEXT = "s81.117.101.114.121.32.116.105.109.101.100.32.111.117.116"      # "Query timed out"
    redo = [k for k, ((o, r), (mo, mr, sp)) in enumerate(zip(impl, model))
            if (r in ("diverged", "skipped") and not (mr == "fuel" or mr.endswith(" fuel)")))
            or (TIMEOUT_TEXT in r and TIMEOUT_TEXT not in mr)]
    # in parallel batches; once a few cases have failed again the tree is shown broken and the remaining
    # suspects are left uncompared ("skipped") rather than re-run one by one for hours
    confirmed = 0
    pos = 0
    with concurrent.futures.ThreadPoolExecutor(max_workers=8) as ex:
        while pos < len(redo) and confirmed < 3:
            batch = redo[pos:pos + 8]; pos += len(batch)
            for k, r in zip(batch, ex.map(lambda k: rerun_impl_slow(lines[k], 60), batch)):
                impl[k] = r
                if r[1] == "diverged": confirmed += 1
    for k in redo[pos:]:
        if impl[k][1] == "diverged": impl[k] = (impl[k][0], "skipped")
    return impl, model
