"""Oracle for history cases: compares what the IMPLEMENTATION did on a (hist ...) case with what
the reference search of Spec/SpecSolve.v (evaluated by the extracted specification, shipped in
the driver's `spec` column) demands.  Independent of the executable model of the solver."""
from lib import sx

def canon(t):
    """rename unbound variables by first occurrence (ids and names dropped)"""
    m = {}
    def go(x):
        if isinstance(x, list):
            if x and x[0] == "v":
                k = m.setdefault(x[1], len(m))
                return ["v", str(k)]
            return [go(y) for y in x]
        return x
    return go(t)

import re as _re
_VARID = _re.compile(r"(\$[A-Za-z_][A-Za-z0-9]*?)_\d+")
def novarid(txt):
    """the numeric id that Display appends to an unbound variable's name is not part of any property:
    the reference search numbers its fresh variables differently (answers are compared up to renaming)"""
    return _VARID.sub(r"\1_#", txt) if txt is not None else None

def split_out(iout):
    return iout.split("\x03")

def slots_spec(spec):
    """spec column -> {slot: ('trace', [(out, ans, txt)...], end_out) | ('outside',) | ('fuel',)}; a slot that is
    rebuilt gets a list of successive specs"""
    res = {}
    if not (isinstance(spec, list) and spec and spec[0] == "spec"): return res
    for s in spec[1:]:
        q = int(s[1]); body = s[2]
        if body in ("outside", "fuel"):
            res.setdefault(q, []).append((body,))
        else:
            segs = [(sx.unS(x[1]), x[2], sx.unS(x[3]) if isinstance(x[3], str) and x[3].startswith("s") else None) for x in body[1:-1]]
            lz = None
            if len(s) > 3 and isinstance(s[3], list) and s[3][0] == "lazy":
                lz = ([sx_text(x) for x in s[3][1:-1]], sx.unS(s[3][-1]))
            res.setdefault(q, []).append(("trace", segs, sx.unS(body[-1][1]), lz))
    return res

STATS = {"answers_compared_exactly_with_continuation_reference": 0}

def check_hist(case, iout, ires, spec_text, want=("answers", "output", "exhausted", "strings")):
    """yield (kind, why, detail) for each way the implementation's behaviour contradicts the specification.
    kind in want."""
    try:
        c = sx.parse(case); r = sx.parse(ires) if ires not in ("panic", "diverged") else ires
        spec = sx.parse(spec_text) if spec_text and spec_text != "-" else None
    except Exception as e:
        yield ("machinery", "unreadable case/result: %s" % e, {}); return
    if spec is None: return
    ops = c[2:]
    if r in ("panic", "diverged"):
        sp = slots_spec(spec)
        if all(all(x[0] == "trace" for x in v) for v in sp.values()) and sp:
            yield ("answers", "the engine ended in %s although the reference search finishes" % r, {})
        return
    obs = r[1:]
    outs = split_out(iout)
    sp = slots_spec(spec)
    builds = {}          # slot -> index of current spec
    pos = {}             # slot -> number of answers consumed
    done = {}            # slot -> exhausted seen
    for k, op in enumerate(ops):
        if k >= len(obs): break
        o = obs[k]
        seg_out = outs[k] if k < len(outs) else ""
        name = op[0]
        if o == "panic":
            # Under a raised stop flag every call finds no clause, so the search goes on into alternatives that
            # the untimed search never reaches (a later clause after a body whose cut was not reached ...) and
            # may meet a built-in that panics there (arithmetic on a list): that is the documented behaviour of a
            # stopped search, not a wrong answer.  Only a panic in a history without any stop is judged.
            if any(p[0] in ("stop-after", "stop-now") for p in ops[:k]): return
            # a panic is a violation only where the reference search of that query is defined and finishes
            try:
                q = int(op[1]); cur = sp.get(q, [])
                s0 = cur[builds.get(q, 0) + (1 if name in ("build", "build-text") else 0)] if name in ("build", "build-text") else cur[builds[q]]
                if s0[0] == "trace": yield ("answers", "operation %s panicked although the reference search finishes" % sx_text(op), {})
            except Exception:
                pass
            return
        if o == "fuel": return
        if name in ("build", "build-text"):
            q = int(op[1]); builds[q] = builds.get(q, -1) + 1; pos[q] = 0; done[q] = False
            continue
        if name not in ("ask", "solve", "solve-all"): continue
        q = int(op[1])
        cur = sp.get(q, [])
        if q not in builds or builds[q] >= len(cur): continue
        s = cur[builds[q]]
        if s[0] != "trace": continue
        segs, end_out = s[1], s[2]
        if name == "ask":
            ans = o[1]
            if pos[q] < len(segs):
                eo, ea, _ = segs[pos[q]]
                if ans == "none":
                    if "answers" in want:
                        yield ("answers", "request %d of query %d reports no answer; the reference search has answer %s" % (pos[q] + 1, q, sx_text(ea)), {});
                    return
                got = o[2]
                lz = s[3] if len(s) > 3 else None
                # (after a set-id operation the ids differ from the reference's by construction: answers are then compared up to renaming only)
                exact = (lz is not None and pos[q] < len(lz[0]) and builds[q] == 0 and len(builds) == 1 and "answers" in want
                         and not any(p[0] == "set-id" for p in ops[:k]))
                if exact: STATS["answers_compared_exactly_with_continuation_reference"] += 1
                if exact and sx_text(o[1]) != lz[0][pos[q]]:
                    # single query: the continuation-style reference search (Spec/SpecLazy.v, Spec/SpecCut.v; proved equal
                    # to the model's search) fixes the substitution set itself, variable ids included
                    yield ("answers", "answer %d of query %d has substitution set %s; the continuation-style reference search (SpecLazy / SpecCut) gives %s"
                           % (pos[q] + 1, q, sx_text(o[1]), lz[0][pos[q]]), {})
                    return
                if canon(got) != canon(ea):
                    if "answers" in want:
                        yield ("answers", "answer %d of query %d is %s; the reference search gives %s" % (pos[q] + 1, q, sx_text(got), sx_text(ea)), {})
                    return
                if novarid(seg_out) != novarid(eo) and "output" in want:
                    yield ("output", "output while deriving answer %d of query %d is %r; the reference search writes %r" % (pos[q] + 1, q, seg_out, eo), {})
                    return
                pos[q] += 1
            else:
                if ans != "none":
                    kind = "exhausted" if done[q] else "answers"
                    if kind in want:
                        yield (kind, "request %d of query %d returns %s; the reference search has only %d answers%s"
                               % (pos[q] + 1, q, sx_text(o[2]), len(segs), " (the query had already reported no more answers)" if done[q] else ""), {})
                    return
                exp = "" if done[q] else end_out
                if novarid(seg_out) != novarid(exp):
                    kind = "exhausted" if done[q] else "output"
                    if kind in want:
                        yield (kind, "output of a request that finds no answer is %r; expected %r" % (seg_out, exp), {})
                    return
                done[q] = True
        elif name == "solve":
            txt = sx.unS(o[1])
            if txt.startswith("Query timed out"): continue
            if pos[q] < len(segs):
                if novarid(txt) != novarid(segs[pos[q]][2]) and "strings" in want and segs[pos[q]][2] is not None:
                    yield ("strings", "solve reports %r; the reference answer %d is %r" % (txt, pos[q] + 1, segs[pos[q]][2]), {}); return
                pos[q] += 1
            else:
                if txt != "No more." and "strings" in want:
                    yield ("strings", "solve reports %r; the reference search has no more answers" % txt, {}); return
                done[q] = True
        elif name == "solve-all":
            strs = [sx.unS(x) for x in o[1:-1]]
            if strs and strs[-1].startswith("Query timed out"): continue
            exp = [x[2] for x in segs[pos[q]:]]
            if [novarid(x) for x in strs] != [novarid(x) for x in exp] and "strings" in want and None not in exp:
                yield ("strings", "solve_all reports %r; the reference answers are %r" % (strs, exp), {}); return
            pos[q] = len(segs); done[q] = True

def sx_text(p):
    if isinstance(p, list): return "(" + " ".join(sx_text(x) for x in p) + ")"
    return p


import re
ELAPSED = re.compile(r"\d+ seconds? \d+ microseconds ")
def equivalent(case, i_obs, m_obs):
    """model-vs-implementation agreement on a history: same observations and same output per operation;
    an implementation that never returns (stack overflow / hang) corresponds to the model running out of fuel"""
    (iout, ires), (mout, mres) = i_obs, m_obs
    if ires == "diverged":
        return mres.endswith(" fuel)")
    if ires != mres: return False
    io, mo = ELAPSED.sub("<elapsed> ", iout).split("\x03"), mout.split("\x03")
    if ires.endswith(" panic)"):
        # what the panicking operation had written before it panicked is not modelled
        n = ires.count("(") - 1  # not used; compare all segments but the last non-empty one
        k = len(sx.parse(ires)) - 2          # index of the panicking operation
        return io[:k] == mo[:k]
    return io == mo
