#!/usr/bin/env python3
"""Regenerates the AUTO regions of DESIGN.md from MANIFEST.json, coq/Properties, known_findings.txt and seeded/."""
import json, os, re, glob
V = os.path.dirname(os.path.dirname(os.path.abspath(__file__)))

def region(doc, name, body):
    a, b = "<!-- AUTO:%s -->" % name, "<!-- /AUTO:%s -->" % name
    i, j = doc.index(a) + len(a), doc.index(b)
    return doc[:i] + "\n" + body.rstrip("\n") + "\n" + doc[j:]

def wrap(text, width=98, indent=""):
    out, line = [], indent
    for w in text.split():
        if len(line) + len(w) + 1 > width and line.strip():
            out.append(line.rstrip()); line = indent
        line += w + " "
    if line.strip(): out.append(line.rstrip())
    return "\n".join(out)

def properties():
    props = {}
    for ln in open(os.path.join(V, "properties.jsonl")):
        p = json.loads(ln); props[p["id"]] = p
    m = json.load(open(os.path.join(V, "MANIFEST.json")))
    out = []
    for c in sorted(m["checks"], key=lambda c: c["property_id"]):
        pid = c["property_id"]
        thms = []
        for f in sorted(glob.glob(os.path.join(V, "coq", "Properties", pid + "*.v"))):
            thms += re.findall(r"^Theorem\s+(\w+)", open(f).read(), re.M)
        ev = {}
        try: ev = json.load(open(os.path.join(V, "evidence", pid + ".json")))
        except Exception: pass
        cov = ev.get("coverage", {})
        out.append("### %s — %s\n" % (pid, props[pid]["title"]))
        out.append(wrap("*Statement (given).* " + props[pid]["statement"]) + "\n")
        out.append(wrap("*Status.* " + c["level_claimed"]["text"]) + "\n")
        out.append(wrap("*Deciding method.* " + c.get("technique", "")) + "\n")
        out.append(wrap("*Theorems* (`coq/Properties/%s*.v`, %d): " % (pid, len(thms)) + ", ".join("`%s`" % t for t in thms) + ".") + "\n")
        if cov:
            out.append(wrap("*Last quick run on this tree:* %s cases, %s non-trivial; generator: %s"
                            % (cov.get("evaluations", "?"), cov.get("distinct_nontrivial", "?"), (cov.get("rule", "") or "")[:700])) + "\n")
    return "\n".join(out)

def findings():
    fixed, known = [], []
    for ln in open(os.path.join(V, "known_findings.txt")):
        ln = ln.strip()
        if ln.startswith("fixed:"):
            m = re.match(r"fixed: property=(\S+) (\S+) (.*)", ln)
            fixed.append("| %s | `%s` | %s |" % (m.group(1), m.group(2), m.group(3).replace("|", "\\|")))
        elif ln.startswith("known:"):
            m = re.match(r"known: property=(\S+) class=(\S+) (.*)", ln)
            known.append("* **%s, class `%s`** — %s" % (m.group(1), m.group(2), m.group(3)))
    return ("| property | commit | what failed |\n|---|---|---|\n" + "\n".join(fixed) +
            "\n\nRecorded, not repaired (`known:` lines; the checks print `KNOWN-FINDING:` for inputs of the class and "
            "still report any other violation of the property):\n\n" + "\n".join(known))

def seeds():
    rows = []
    for d in sorted(glob.glob(os.path.join(V, "seeded", "*"))):
        try: m = json.load(open(os.path.join(d, "meta.json")))
        except Exception: continue
        caught = m.get("caught_by", {})
        own = caught.get("own", "?")
        others = ", ".join(caught.get("others", [])) or "-"
        rows.append("| %s | %s | %s | %s | %s |" % (os.path.basename(d), m.get("summary", "")[:230].replace("|", "\\|").replace("\n", " "),
                                                  m.get("needs_to_manifest", "")[:200].replace("|", "\\|").replace("\n", " "), own, others))
    n = len(rows)
    head = ("%d confirmed changes. Column *own*: result of the property's own quick check on the changed tree "
            "(`violation` = concrete failing input in the replay; `tie` = model/implementation differ, reported with "
            "`no-failing-input-found`; `missed→…` / `tie→…` = missed / reported only as a tie when first run, caught with a concrete input after the strengthening named in the "
            "seed's meta.json). *others*: further checks that were run and also fail.\n\n" % n)
    return head + "| seed | change | needs | own | others |\n|---|---|---|---|---|\n" + "\n".join(rows)

def main():
    p = os.path.join(V, "DESIGN.md")
    doc = open(p).read()
    doc = region(doc, "PROPERTIES", properties())
    doc = region(doc, "FINDINGS", findings())
    doc = region(doc, "SEEDS", seeds())
    open(p, "w").write(doc)

if __name__ == "__main__":
    main()
