"""Builders for the wire format (see ocaml/conv.ml, harness/src/conv.rs)."""
import struct

def S(s):
    return "s" + ".".join(str(ord(c)) for c in s)
def unS(a):
    body = a[1:]
    return "" if body == "" else "".join(chr(int(x)) for x in body.split("."))
NIL = "nil"
ANON = "anon"
def atom(s): return "(a %s)" % S(s)
def integer(i): return "(i %d)" % i
def fbits(b): return "(f x%016x)" % b
def flt(x): return fbits(struct.unpack("<Q", struct.pack("<d", x))[0])
def var(i, name): return "(v %d %s)" % (i, S(name))
def cplx(f, *args): return "(c %s)" % " ".join([atom(f)] + list(args))
def cplx_raw(*args): return "(c %s)" % " ".join(args) if args else "(c)"
def node(t, nxt, count, tv): return "(l %s %s %d %d)" % (t, nxt, count, 1 if tv else 0)
EMPTY = node(NIL, NIL, 0, False)
def fn(name, *args): return "(fn %s)" % " ".join([S(name)] + list(args))
def lst(elems, tail=None):
    """well-formed list as parse_linked_list builds it: [e1, ..., en | tail]"""
    cur = EMPTY
    n = 0
    if tail is not None:
        n += 1
        cur = node(tail, cur, n, True)
    for e in reversed(elems):
        n += 1
        cur = node(e, cur, n, False)
    return cur
def ss(entries):
    """entries: list of term-or-None, index = variable id"""
    return "(ss %s)" % " ".join("-" if e is None else e for e in entries) if entries else "(ss)"
def ss_from(d):
    if not d: return "(ss)"
    n = max(d) + 1
    return ss([d.get(i) for i in range(n)])
def call(t): return "(call %s)" % t
def op(kind, *gs): return "(op %s %s)" % (kind, " ".join(gs)) if gs else "(op %s)" % kind
def bip(name, *ts): return "(bip %s)" % " ".join([S(name)] + list(ts))
def bip0(name): return "(bip0 %s)" % S(name)
def rule(head, body="gnil"): return "(rule %s %s)" % (head, body)
def terms(ts): return "(%s)" % " ".join(ts)

# ---- reading results back (for classification) ----
def parse(s):
    pos = 0
    n = len(s)
    def item():
        nonlocal pos
        while pos < n and s[pos] in " \t": pos += 1
        if pos >= n: raise ValueError("eof")
        if s[pos] == "(":
            pos += 1
            items = []
            while True:
                while pos < n and s[pos] in " \t": pos += 1
                if pos >= n: raise ValueError("unclosed")
                if s[pos] == ")":
                    pos += 1
                    return items
                items.append(item())
        st = pos
        while pos < n and s[pos] not in " \t()": pos += 1
        return s[st:pos]
    return item()

def show_term(t):
    """human-readable rendering of a parsed term (for samples / replays)"""
    if t == "nil": return "Nil"
    if t == "anon": return "$_"
    tag = t[0]
    if tag == "a": return unS(t[1])
    if tag == "i": return t[1]
    if tag == "f":
        return repr(struct.unpack("<d", struct.pack("<Q", int(t[1][1:], 16)))[0])
    if tag == "v": return "%s_%s" % (unS(t[2]), t[1])
    if tag == "c":
        return "%s(%s)" % (show_term(t[1]), ", ".join(show_term(x) for x in t[2:])) if len(t) > 1 else "<empty complex>"
    if tag == "l":
        return "node(%s, %s, %s, %s)" % (show_term(t[1]), show_term(t[2]), t[3], t[4])
    if tag == "fn":
        return "%s(%s)" % (unS(t[1]), ", ".join(show_term(x) for x in t[2:]))
    return str(t)
