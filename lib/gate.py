"""Proof gate: the Coq development builds completely, the property file's theorems are
pinned and axiom-checked, and nothing forbidden occurs anywhere in coq/."""
import os, re, subprocess, glob

VERIF = os.path.dirname(os.path.dirname(os.path.abspath(__file__)))
COQ = os.path.join(VERIF, "coq")

# Axioms of the standard library that may appear (all reached through Flocq's IEEE-754
# formalisation, which is built on the classical real numbers).
ALLOWED_AXIOMS = {
    "ClassicalDedekindReals.sig_not_dec",
    "ClassicalDedekindReals.sig_forall_dec",
    "FunctionalExtensionality.functional_extensionality_dep",
    "Classical_Prop.classic",
}
FORBIDDEN = re.compile(
    r"\b(Admitted|admit|Axiom|Axioms|Parameter|Parameters|Conjecture|Conjectures|Abort)\b"
    r"|Unset\s+Guard|bypass_check|type-in-type|impredicative-set|Admit\s+Obligations"
    r"|Unset\s+Universe\s+Checking|Unset\s+Positivity")

def strip_comments(src):
    out, depth, i = [], 0, 0
    while i < len(src):
        if src.startswith("(*", i):
            depth += 1; i += 2
        elif src.startswith("*)", i) and depth > 0:
            depth -= 1; i += 2
        else:
            if depth == 0: out.append(src[i])
            i += 1
    return "".join(out)

def v_files():
    return sorted(glob.glob(os.path.join(COQ, "**", "*.v"), recursive=True))

def forbidden_scan():
    bad = []
    for f in v_files():
        code = strip_comments(open(f).read())
        # Section-local Variable/Hypothesis are fine; outside a section they declare axioms.
        depth = 0
        for ln in code.split("\n"):
            s = ln.strip()
            if re.match(r"(Section|Module)\s", s): depth += 1
            if re.match(r"End\s", s): depth = max(0, depth - 1)
            if FORBIDDEN.search(ln):
                bad.append((f, ln.strip()))
            if depth == 0 and re.match(r"(Variable|Variables|Hypothesis|Hypotheses|Context)\b", s):
                bad.append((f, ln.strip()))
    proj = open(os.path.join(COQ, "_CoqProject")).read()
    if re.search(r"type-in-type|impredicative-set|-vos|-vok|-noinit", proj):
        bad.append(("_CoqProject", "forbidden flag"))
    return bad

def make(jobs=16):
    p = subprocess.run(["bash", "-c",
                        "cd %s && ( [ -f Makefile ] || coq_makefile -f _CoqProject -o Makefile >/dev/null ) "
                        "&& timeout 3000 make -j%d 2>&1 | grep -v '^COQ\\|^make\\|^CoqMakefile' | tail -40; exit ${PIPESTATUS[0]}"
                        % (COQ, jobs)],
                       stdout=subprocess.PIPE, stderr=subprocess.STDOUT, text=True)
    return p.returncode == 0, p.stdout

def requires_closure(vfile):
    """Files of this project that `vfile` transitively requires."""
    seen, todo = set(), [vfile]
    while todo:
        f = todo.pop()
        if f in seen or not os.path.exists(f): continue
        seen.add(f)
        code = strip_comments(open(f).read())
        for m in re.finditer(r"From\s+Suiron\s+Require\s+(?:Import\s+|Export\s+)?((?:[A-Za-z_]\w*(?:\.[A-Za-z_]\w*)*\s*)+?)\.(?=\s|$)", code):
            for mod in m.group(1).split():
                todo.append(os.path.join(COQ, mod.replace(".", "/") + ".v"))
    return seen

def count_statements(files):
    n = 0
    for f in files:
        code = strip_comments(open(f).read())
        n += len(re.findall(r"^\s*(?:Local\s+|Global\s+)?(?:Theorem|Lemma|Corollary|Example|Fact|Proposition)\s", code, re.M))
    return n

def check_property_file(pid):
    """Recompile Properties/<pid>.v (and Properties/<pid>base.v, the earlier theorems of the property, and
    Properties/<pid>laws.v, laws of the reference semantics, when present) alone - their dependencies are compiled by make -, collect the Print Assumptions output, compare
    with the allow-list.  -> dict(ok, theorems, axioms, problems, lemmas)"""
    vf = os.path.join(COQ, "Properties", pid + ".v")
    res = dict(ok=False, theorems=[], axioms=[], problems=[], lemmas=0, file=vf, pins=[])
    if not os.path.exists(vf):
        res["problems"].append("missing " + vf); return res
    files = [vf]
    for suffix in ("laws.v", "base.v"):     # <pid>laws.v: laws of the reference semantics belonging to the property
        bf = os.path.join(COQ, "Properties", pid + suffix)
        if os.path.exists(bf): files.insert(0, bf)
    axioms = set()
    closure = set()
    for f in files:
        code = strip_comments(open(f).read())
        theorems = re.findall(r"^\s*Theorem\s+([A-Za-z0-9_']+)", code, re.M)
        res["theorems"] += theorems
        res["pins"] += re.findall(r"^\s*Check\s+([A-Za-z0-9_']+)\s*:", code, re.M)
        printed = re.findall(r"Print\s+Assumptions\s+([A-Za-z0-9_']+)", code)
        for t in theorems:
            if t not in printed: res["problems"].append("no Print Assumptions for " + t)
        p = subprocess.run(["bash", "-c", "cd %s && timeout 600 coqc -q -Q . Suiron -w -all Properties/%s" % (COQ, os.path.basename(f))],
                           stdout=subprocess.PIPE, stderr=subprocess.STDOUT, text=True)
        if p.returncode != 0:
            res["problems"].append("coqc failed: " + p.stdout[-1500:]); return res
        out = p.stdout
        # Print Assumptions output: "Closed under the global context" or "Axioms:\n name : type ..."
        for block in re.split(r"\n(?=Closed under|Axioms:)", "\n" + out):
            if block.startswith("Axioms:"):
                for m in re.finditer(r"^([A-Za-z_][A-Za-z0-9_.']*)\s*:", block, re.M):
                    if m.group(1) != "Axioms": axioms.add(m.group(1))
        n_reports = len(re.findall(r"Closed under the global context|Axioms:", out))
        if n_reports < len(theorems):
            res["problems"].append("fewer Print Assumptions reports than theorems in " + os.path.basename(f))
        closure |= requires_closure(f)
    if not res["theorems"]: res["problems"].append("no Theorem in property file")
    res["axioms"] = sorted(axioms)
    for a in axioms:
        if a not in ALLOWED_AXIOMS: res["problems"].append("axiom not in allow-list: " + a)
    res["lemmas"] = count_statements(closure)
    res["ok"] = not res["problems"]
    return res
