"""Executable python counterparts of the Coq specifications in coq/Spec (used as ORACLES on the
implementation's own results, to turn a model/implementation divergence into a concrete
property violation).  Terms are parsed wire-format S-expressions (lib/sx.parse)."""
from lib import sx

EMPTY = ["l", "nil", "nil", "0", "0"]

def is_list(t): return isinstance(t, list) and t and t[0] == "l"
def is_var(t): return isinstance(t, list) and t and t[0] == "v"

def elems(l):
    """Spec.SpecLists.elems: (elements, tail or None) of a well-formed list, else None"""
    if not is_list(l): return None
    x, nx, c, tv = l[1], l[2], int(l[3]), l[4] == "1"
    if x == "nil":
        return ([], None) if (nx == "nil" and c == 0 and not tv) else None
    if tv:
        return ([], x) if (nx == EMPTY and c == 1) else None
    r = elems(nx)
    if r is None: return None
    if c != int(nx[3]) + 1: return None
    return ([x] + r[0], r[1])

def chain(entries, t, limit=1000):
    """Spec.SpecCompare.chain: ('some', v) | ('none', last var) | ('cycle',)"""
    n = 0
    while is_var(t):
        i = int(t[1])
        if i >= len(entries) or entries[i] is None: return ("none", t)
        t = entries[i]
        n += 1
        if n > limit: return ("cycle",)
    return ("some", t)

def elements(entries, keep, l, depth=0):
    """Spec.SpecLists.Elements as a function; None when the relation has no derivation"""
    if depth > 200: return None
    e = elems(l)
    if e is None: return None
    xs, tl = e
    if tl is None: return list(xs)
    if not xs: return None
    if tl == "anon": return xs + ["anon"]
    c = chain(entries, tl)
    if c[0] == "cycle": return None
    if c[0] == "some" and is_list(c[1]):
        r = elements(entries, keep, c[1], depth + 1)
        return None if r is None else xs + r
    return xs + [tl] if keep else list(xs)

def contrib(entries, t):
    """Spec.SpecLists.Contrib; None = outside the specification (e.g. an unbound variable)"""
    c = chain(entries, t)
    if c[0] != "some": return None
    v = c[1]
    if is_list(v): return elements(entries, True, v)
    return [v]

def make_list(xs):
    cur = EMPTY
    n = 0
    for x in reversed(xs):
        n += 1
        cur = ["l", x, cur, str(n), "0"]
    return cur

def text(t):
    if isinstance(t, list): return "(" + " ".join(text(x) for x in t) + ")"
    return t
