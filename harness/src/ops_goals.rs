// Goal- and rule-level parsers and printers (tokenizer.rs, rule.rs, Display of goals).
//
//   (parse-subgoal s…)          -> (ok <goal>) | err      leaf parser, used to fill tables
//   (parse-complex s…)          -> (ok <term>) | err      leaf parser, used to fill tables
//   (tokenize s…)               -> (ok (<token>…)) | err  token kinds and texts
//   (token-tree s…)             -> (ok <token tree>) | err   after the three grouping passes
//   (generate-goal s… <table>)  -> (ok <goal>) | err      the table is for the model only
//   (parse-rule s… <table>)     -> (ok <rule>) | err      the table is for the model only
//   (show-goal <goal>)          -> (ok s…)
//   (show-rule <rule>)          -> (ok s…)
//   (show-infix <name>)         -> (ok s…)   Display of Infix
//
// A panic of the crate becomes `panic` in main.rs (catch_unwind).
// `tokenize` and the grouping passes are private in the crate: they are reached through the
// hooks `verif_tokenize` / `verif_token_tree` that exist under `--cfg suiron_verif`.
use suiron::*;
use crate::sexp::{Sexp, Sexp::*, a};
use crate::conv::*;

fn sexp_of_token(t: &Token) -> Sexp {
    match t {
        Token::Leaf{ token_type, token_str } => match token_type {
            TokenType::Subgoal => L(vec![a("sub"), A(atom_of_str(token_str))]),
            TokenType::Comma => a("comma"),
            TokenType::Semicolon => a("semi"),
            TokenType::LParen => a("lp"),
            TokenType::RParen => a("rp"),
            other => L(vec![a("leaf"), A(format!("{:?}", other))]),
        },
        Token::Branch{ token_type, children } => {
            let k = match token_type {
                TokenType::Group => "group",
                TokenType::And => "and",
                TokenType::Or => "or",
                _ => "branch?",
            };
            let mut v = vec![a(k)];
            v.extend(children.iter().map(sexp_of_token));
            L(v)
        },
    }
}

fn res<T>(r: Result<T, String>, f: impl Fn(&T) -> Sexp) -> Sexp {
    match r { Ok(v) => ok(f(&v)), Err(_) => a("err") }
}

pub fn run_case(c: &Sexp) -> Option<R<Sexp>> {
    let l = c.list().ok()?;
    let op = l.first()?.atom().ok()?;
    let mine = matches!((op, l.len()),
        ("parse-subgoal", 2) | ("parse-complex", 2) | ("tokenize", 2) | ("token-tree", 2) |
        ("generate-goal", 3) | ("parse-rule", 3) | ("show-goal", 2) | ("show-rule", 2) | ("show-term", 2) |
        ("show-infix", 2) | ("show-parse", 2));
    if !mine { return None; }
    let arg_str = |i: usize| -> R<String> { str_of_atom(l[i].atom()?) };
    let run = || -> R<Sexp> {
        match op {
            "parse-subgoal" => Ok(res(parse_subgoal(&arg_str(1)?), sexp_of_goal)),
            "parse-complex" => Ok(res(parse_complex(&arg_str(1)?), sexp_of_term)),
            "tokenize" => Ok(res(verif_tokenize(&arg_str(1)?),
                                 |ts| L(ts.iter().map(sexp_of_token).collect()))),
            "token-tree" => Ok(res(verif_token_tree(&arg_str(1)?), sexp_of_token)),
            "generate-goal" => Ok(res(generate_goal(&arg_str(1)?), sexp_of_goal)),
            "parse-rule" => Ok(res(parse_rule(&arg_str(1)?), sexp_of_rule)),
            "show-goal" => Ok(ok(A(atom_of_str(&goal_of(&l[1])?.to_string())))),
            "show-term" => Ok(ok(A(atom_of_str(&term_of(&l[1])?.to_string())))),
            "show-rule" => Ok(ok(A(atom_of_str(&rule_of(&l[1])?.to_string())))),
            // Display, then parse_term of the text just written
            "show-parse" => {
                let text = term_of(&l[1])?.to_string();
                Ok(L(vec![a("ok"), A(atom_of_str(&text)), res(parse_term(&text), sexp_of_term)]))
            },
            "show-infix" => {
                let i = match l[1].atom()? {
                    "none" => Infix::None, "unify" => Infix::Unify, "equal" => Infix::Equal,
                    "gt" => Infix::GreaterThan, "lt" => Infix::LessThan,
                    "ge" => Infix::GreaterThanOrEqual, "le" => Infix::LessThanOrEqual,
                    "plus" => Infix::Plus, "minus" => Infix::Minus,
                    "multiply" => Infix::Multiply, "divide" => Infix::Divide,
                    x => return Err(format!("infix: {}", x)),
                };
                Ok(ok(A(atom_of_str(&i.to_string()))))
            },
            _ => Err(format!("unknown case: {}", c.to_text())),
        }
    };
    Some(run())
}
