// Conversions between the wire format and the crate's public types.
use std::rc::Rc;
use suiron::*;
use crate::sexp::{Sexp, Sexp::*, a};

pub type R<T> = Result<T, String>;

pub fn str_of_atom(x: &str) -> R<String> {
    if !x.starts_with('s') { return Err(format!("str: {}", x)); }
    let body = &x[1..];
    if body.is_empty() { return Ok(String::new()); }
    let mut s = String::new();
    for p in body.split('.') {
        let cp: u32 = p.parse().map_err(|_| format!("str: {}", x))?;
        s.push(char::from_u32(cp).ok_or_else(|| format!("str cp: {}", x))?);
    }
    Ok(s)
}
pub fn atom_of_str(s: &str) -> String {
    let v: Vec<String> = s.chars().map(|c| (c as u32).to_string()).collect();
    format!("s{}", v.join("."))
}
fn bool_of(x: &str) -> R<bool> {
    match x { "0" => Ok(false), "1" => Ok(true), _ => Err(format!("bool: {}", x)) }
}

pub fn term_of(x: &Sexp) -> R<Unifiable> {
    match x {
        A(s) if s == "nil" => Ok(Unifiable::Nil),
        A(s) if s == "anon" => Ok(Unifiable::Anonymous),
        L(l) if !l.is_empty() => {
            let tag = l[0].atom()?;
            match (tag, l.len()) {
                ("a", 2) => Ok(Unifiable::Atom(str_of_atom(l[1].atom()?)?)),
                ("i", 2) => Ok(Unifiable::SInteger(l[1].atom()?.parse::<i64>().map_err(|e| e.to_string())?)),
                ("f", 2) => {
                    let h = l[1].atom()?;
                    if h.len() != 17 || !h.starts_with('x') { return Err(format!("float: {}", h)); }
                    let bits = u64::from_str_radix(&h[1..], 16).map_err(|e| e.to_string())?;
                    Ok(Unifiable::SFloat(f64::from_bits(bits)))
                },
                ("v", 3) => Ok(Unifiable::LogicVar{
                    id: l[1].atom()?.parse::<usize>().map_err(|e| e.to_string())?,
                    name: str_of_atom(l[2].atom()?)? }),
                ("c", _) => Ok(Unifiable::SComplex(terms_of_slice(&l[1..])?)),
                ("l", 5) => Ok(Unifiable::SLinkedList{
                    term: Box::new(term_of(&l[1])?),
                    next: Box::new(term_of(&l[2])?),
                    count: l[3].atom()?.parse::<usize>().map_err(|e| e.to_string())?,
                    tail_var: bool_of(l[4].atom()?)? }),
                ("fn", n) if n >= 2 => Ok(Unifiable::SFunction{
                    name: str_of_atom(l[1].atom()?)?,
                    terms: terms_of_slice(&l[2..])? }),
                _ => Err(format!("term: {}", x.to_text())),
            }
        },
        _ => Err(format!("term: {}", x.to_text())),
    }
}
pub fn terms_of_slice(l: &[Sexp]) -> R<Vec<Unifiable>> { l.iter().map(term_of).collect() }
pub fn terms_of(x: &Sexp) -> R<Vec<Unifiable>> { terms_of_slice(x.list()?) }

pub fn canon_bits(f: f64) -> u64 { if f.is_nan() { 0x7ff8000000000000 } else { f.to_bits() } }

pub fn sexp_of_term(t: &Unifiable) -> Sexp {
    match t {
        Unifiable::Nil => a("nil"),
        Unifiable::Anonymous => a("anon"),
        Unifiable::Atom(s) => L(vec![a("a"), A(atom_of_str(s))]),
        Unifiable::SInteger(i) => L(vec![a("i"), A(i.to_string())]),
        Unifiable::SFloat(f) => L(vec![a("f"), A(format!("x{:016x}", canon_bits(*f)))]),
        Unifiable::LogicVar{id, name} => L(vec![a("v"), A(id.to_string()), A(atom_of_str(name))]),
        Unifiable::SComplex(ts) => {
            let mut v = vec![a("c")];
            v.extend(ts.iter().map(sexp_of_term));
            L(v)
        },
        Unifiable::SLinkedList{term, next, count, tail_var} =>
            L(vec![a("l"), sexp_of_term(term), sexp_of_term(next), A(count.to_string()),
                   a(if *tail_var { "1" } else { "0" })]),
        Unifiable::SFunction{name, terms} => {
            let mut v = vec![a("fn"), A(atom_of_str(name))];
            v.extend(terms.iter().map(sexp_of_term));
            L(v)
        },
    }
}

pub fn ss_of<'a>(x: &Sexp) -> R<Rc<SubstitutionSet<'a>>> {
    let l = x.list()?;
    if l.is_empty() || l[0] != a("ss") { return Err(format!("ss: {}", x.to_text())); }
    let mut ss: SubstitutionSet = vec![];
    for e in &l[1..] {
        match e {
            A(s) if s == "-" => ss.push(None),
            t => ss.push(Some(Rc::new(term_of(t)?))),
        }
    }
    Ok(Rc::new(ss))
}
pub fn sexp_of_ss(ss: &SubstitutionSet) -> Sexp {
    let mut v = vec![a("ss")];
    for e in ss.iter() {
        match e { None => v.push(a("-")), Some(t) => v.push(sexp_of_term(t)) }
    }
    L(v)
}
pub fn sexp_of_opt_ss(o: &Option<Rc<SubstitutionSet>>) -> Sexp {
    match o { None => a("none"), Some(ss) => L(vec![a("some"), sexp_of_ss(ss)]) }
}
pub fn ok(x: Sexp) -> Sexp { L(vec![a("ok"), x]) }

pub fn goal_of(x: &Sexp) -> R<Goal> {
    match x {
        A(s) if s == "gnil" => Ok(Goal::Nil),
        L(l) if !l.is_empty() => {
            let tag = l[0].atom()?;
            match tag {
                "call" if l.len() == 2 => Ok(Goal::ComplexGoal(term_of(&l[1])?)),
                "op" if l.len() >= 2 => {
                    let gs: R<Vec<Goal>> = l[2..].iter().map(goal_of).collect();
                    let gs = gs?;
                    match l[1].atom()? {
                        "and" => Ok(Goal::OperatorGoal(Operator::And(gs))),
                        "or" => Ok(Goal::OperatorGoal(Operator::Or(gs))),
                        "time" => Ok(Goal::OperatorGoal(Operator::Time(gs))),
                        "not" => Ok(Goal::OperatorGoal(Operator::Not(gs))),
                        k => Err(format!("opkind: {}", k)),
                    }
                },
                "bip" if l.len() >= 2 => Ok(Goal::BuiltInGoal(BuiltInPredicate::new(
                    str_of_atom(l[1].atom()?)?, Some(terms_of_slice(&l[2..])?)))),
                "bip0" if l.len() == 2 => Ok(Goal::BuiltInGoal(BuiltInPredicate::new(
                    str_of_atom(l[1].atom()?)?, None))),
                _ => Err(format!("goal: {}", x.to_text())),
            }
        },
        _ => Err(format!("goal: {}", x.to_text())),
    }
}
pub fn sexp_of_goal(g: &Goal) -> Sexp {
    match g {
        Goal::Nil => a("gnil"),
        Goal::ComplexGoal(t) => L(vec![a("call"), sexp_of_term(t)]),
        Goal::OperatorGoal(op) => {
            let (k, gs) = match op {
                Operator::And(gs) => ("and", gs),
                Operator::Or(gs) => ("or", gs),
                Operator::Time(gs) => ("time", gs),
                Operator::Not(gs) => ("not", gs),
            };
            let mut v = vec![a("op"), a(k)];
            v.extend(gs.iter().map(sexp_of_goal));
            L(v)
        },
        Goal::BuiltInGoal(b) => match &b.terms {
            Some(ts) => {
                let mut v = vec![a("bip"), A(atom_of_str(&b.functor))];
                v.extend(ts.iter().map(sexp_of_term));
                L(v)
            },
            None => L(vec![a("bip0"), A(atom_of_str(&b.functor))]),
        },
    }
}
pub fn rule_of(x: &Sexp) -> R<Rule> {
    let l = x.list()?;
    if l.len() == 3 && l[0] == a("rule") {
        // through the crate's own constructors (knowledge_base.rs), not a struct literal
        let head = term_of(&l[1])?;
        match goal_of(&l[2])? {
            Goal::Nil => Ok(make_fact(head)),
            body => Ok(make_rule(head, body)),
        }
    } else { Err(format!("rule: {}", x.to_text())) }
}
pub fn sexp_of_rule(r: &Rule) -> Sexp {
    L(vec![a("rule"), sexp_of_term(&r.head), sexp_of_goal(&r.body)])
}
