// Histories of API operations on queries (C01-C05, C10, C11, C22, C23):
//   (hist (kb RULE...) OP...)
//   OP: (build Q TERM...) (ask Q) (solve Q) (solve-all Q) (stop-after N) (stop-now) (varid)
// Observations, one per operation; a panic ends the history with the observation `panic`.
use std::rc::Rc;
use std::cell::RefCell;
use std::panic;
use suiron::*;
use crate::sexp::{Sexp, Sexp::*, a};
use crate::conv::*;

type Node<'a> = Rc<RefCell<SolutionNode<'a>>>;

pub fn run_case(c: &Sexp) -> Option<R<Sexp>> {
    let l = match c.list() { Ok(l) => l, Err(_) => return None };
    if l.is_empty() { return None; }
    match l[0].atom() {
        Ok("hist") if l.len() >= 2 => Some(hist(&l[1], &l[2..])),
        Ok("timer") => Some(timer_history(&l[1..])),
        _ => None,
    }
}

pub fn kb_of(x: &Sexp) -> R<KnowledgeBase> {
    let l = x.list()?;
    if l.is_empty() { return Err(format!("kb: {}", x.to_text())); }
    let mut kb = KnowledgeBase::new();
    let mut rules = vec![];
    if l[0] == a("kb") {
        for r in &l[1..] { rules.push(rule_of(r)?); }
    } else if l[0] == a("kb-text") {
        // the program as source text, one rule per string, through parse_rule
        for t in &l[1..] {
            match parse_rule(&str_of_atom(t.atom()?)?) {
                Ok(r) => rules.push(r),
                Err(_) => return Err("kb-text: rule rejected".into()),
            }
        }
    } else { return Err(format!("kb: {}", x.to_text())); }
    add_rules(&mut kb, rules);
    Ok(kb)
}

fn sexp_of_str(s: &str) -> Sexp { A(atom_of_str(s)) }

fn hist(kbx: &Sexp, ops: &[Sexp]) -> R<Sexp> {
    start_query();
    verif_stop_after_reads(None);
    let kb = kb_of(kbx)?;
    let mut slots: Vec<Option<(Rc<Goal>, Node)>> = vec![];
    let mut obs: Vec<Sexp> = vec![a("obs")];
    for op in ops {
        let ol = op.list()?;
        let name = ol[0].atom()?;
        let q = if ol.len() > 1 { ol[1].atom().ok().and_then(|s| s.parse::<usize>().ok()) } else { None };
        let r = panic::catch_unwind(panic::AssertUnwindSafe(|| -> R<Sexp> {
            match name {
                "build" => {
                    let q = q.ok_or("build: slot")?;
                    let terms = terms_of_slice(&ol[2..])?;
                    let g = Rc::new(make_query(terms));
                    let node = make_base_node(Rc::clone(&g), &kb);
                    while slots.len() <= q { slots.push(None); }
                    let gs = sexp_of_goal(&g);
                    slots[q] = Some((g, node));
                    Ok(L(vec![a("built"), gs, A(get_var_id().to_string())]))
                },
                "build-text" => {
                    let q = q.ok_or("build-text: slot")?;
                    let text = str_of_atom(ol[2].atom()?)?;
                    let g = match parse_query(&text) {
                        Ok(g) => Rc::new(g),
                        Err(_) => return Ok(a("err")),
                    };
                    let node = make_base_node(Rc::clone(&g), &kb);
                    while slots.len() <= q { slots.push(None); }
                    let gs = sexp_of_goal(&g);
                    slots[q] = Some((g, node));
                    Ok(L(vec![a("built"), gs, A(get_var_id().to_string())]))
                },
                "ask" => {
                    let q = q.ok_or("ask: slot")?;
                    let (g, node) = slots.get(q).and_then(|x| x.as_ref()).ok_or("ask: empty slot")?;
                    match next_solution(Rc::clone(node)) {
                        Some(ss) => {
                            let r = g.replace_variables(&ss);
                            Ok(L(vec![a("ans"), sexp_of_ss(&ss), sexp_of_term(&r), A(get_var_id().to_string())]))
                        },
                        None => Ok(L(vec![a("ans"), a("none"), A(get_var_id().to_string())])),
                    }
                },
                "solve" => {
                    let q = q.ok_or("solve: slot")?;
                    let (_g, node) = slots.get(q).and_then(|x| x.as_ref()).ok_or("solve: empty slot")?;
                    let s = solve(Rc::clone(node));
                    Ok(L(vec![a("str"), sexp_of_str(&s), A(get_var_id().to_string())]))
                },
                "solve-all" => {
                    let q = q.ok_or("solve-all: slot")?;
                    let (_g, node) = slots.get(q).and_then(|x| x.as_ref()).ok_or("solve-all: empty slot")?;
                    let v = solve_all(Rc::clone(node));
                    let mut o = vec![a("strs")];
                    for s in v.iter() { o.push(sexp_of_str(s)); }
                    o.push(A(get_var_id().to_string()));
                    Ok(L(o))
                },
                "stop-after" => {
                    let n = ol[1].atom()?.parse::<u64>().map_err(|e| e.to_string())?;
                    verif_stop_after_reads(Some(n));
                    Ok(a("ok"))
                },
                "stop-now" => { stop_query(); Ok(a("ok")) },
                "varid" => Ok(L(vec![a("varid"), A(get_var_id().to_string())])),
                // the public set_var_id(): lets a history reach large variable ids without a long search
                "set-id" => { set_var_id(ol[1].atom()?.parse::<usize>().map_err(|e| e.to_string())?); Ok(a("ok")) },
                _ => Err(format!("hist op: {}", op.to_text())),
            }
        }));
        // a schedule set by (stop-after n) applies to the next request only (the timer of a
        // finished solve()/solve_all() is cancelled)
        if name == "ask" || name == "solve" || name == "solve-all" { verif_stop_after_reads(None); }
        // separator between the outputs of consecutive operations
        print!("\x03");
        match r {
            Ok(Ok(o)) => { let stop = o == a("err"); obs.push(o); if stop { break; } },
            Ok(Err(e)) => return Err(e),
            Err(_) => { obs.push(a("panic")); break; },
        }
    }
    verif_stop_after_reads(None);
    Ok(L(obs))
}


// (timer OP...) - the stop-query flag protocol of time_out.rs, driven step by step:
//   (start) start_query_timer with a one-hour limit (the real thread never fires during the case)
//   (fire K) the K-th timer started in this case times out NOW (hook verif_timer_timed_out) - also when it
//            has been cancelled or superseded: ThreadTimer::cancel() may fail and a late time-out must be harmless
//   (cancel) cancel_timer on the most recent timer still held   (start-query) (stop) (read)
// Observation after every step: (st <query number relative to the start of the case> <status 0|1|2> <flag 0|1>).
fn timer_history(ops: &[Sexp]) -> R<Sexp> {
    start_query();
    let g0 = verif_query_state() >> 2;
    let mut timers = vec![];
    let mut states: Vec<u64> = vec![];
    let mut obs: Vec<Sexp> = vec![a("tobs")];
    for op in ops {
        let ol = op.list()?;
        match ol[0].atom()? {
            "start" => { let t = start_query_timer(3_600_000); states.push(verif_query_state()); timers.push(t); },
            "start-query" => start_query(),
            "fire" => {
                let k = ol[1].atom()?.parse::<usize>().map_err(|e| e.to_string())?;
                if k < states.len() { verif_timer_timed_out(states[k]); }
            },
            "cancel" => { if let Some(t) = timers.pop() { cancel_timer(t); } else { return Err("cancel: no timer".into()); } },
            "stop" => stop_query(),
            "read" => {},
            x => return Err(format!("timer op: {}", x)),
        }
        let s = verif_query_state();
        obs.push(L(vec![a("st"), A(((s >> 2) - g0).to_string()), A((s & 3).to_string()),
                        a(if query_stopped() { "1" } else { "0" })]));
    }
    while let Some(t) = timers.pop() { cancel_timer(t); }
    start_query();
    Ok(L(obs))
}
