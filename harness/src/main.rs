// Correspondence harness: runs the real crate on a file of cases (one S-expression per
// line) and prints, per case,  \x02B\n <whatever the engine printed> \x02E <result>\n .
// A panic is a result (`panic`); a stack overflow or hang kills the process, and the
// checker restarts it after the offending case (`--start k`).
mod sexp;
mod conv;
mod ops;
mod ops_solve;
mod ops_reader;
mod ops_goals;
mod ops_parse;

use std::io::{BufRead, Write};
use std::panic;

fn main() {
    let args: Vec<String> = std::env::args().collect();
    let path = args.get(1).expect("usage: harness <cases> [--start k]").clone();
    let mut start = 0usize;
    if args.len() >= 4 && args[2] == "--start" { start = args[3].parse().unwrap(); }
    panic::set_hook(Box::new(|_| {}));
    // Watchdog: the worker reports after every case; a case that runs longer than the limit
    // (an endless loop in the engine) ends the process, like a stack overflow does.
    let limit_ms: u64 = std::env::var("VERIF_CASE_TIMEOUT_MS").ok().and_then(|v| v.parse().ok()).unwrap_or(4000);
    let (tx, rx) = std::sync::mpsc::channel::<bool>();
    let _child = std::thread::Builder::new()
        .stack_size(64 << 20)
        .spawn(move || { run(&path, start, &tx); let _ = tx.send(true); })
        .unwrap();
    loop {
        match rx.recv_timeout(std::time::Duration::from_millis(limit_ms)) {
            Ok(true) => break,
            Ok(false) => continue,
            Err(std::sync::mpsc::RecvTimeoutError::Timeout) => { std::process::exit(3); },
            Err(std::sync::mpsc::RecvTimeoutError::Disconnected) => { std::process::exit(4); },
        }
    }
}

fn run(path: &str, start: usize, tx: &std::sync::mpsc::Sender<bool>) {
    let f = std::fs::File::open(path).expect("cannot open case file");
    let rd = std::io::BufReader::new(f);
    let mut idx = 0usize;
    for line in rd.lines() {
        let line = line.unwrap();
        if line.trim().is_empty() { continue; }
        if idx < start { idx += 1; continue; }
        idx += 1;
        print!("\x02B\n");
        std::io::stdout().flush().unwrap();
        let r = match sexp::parse(&line) {
            Err(e) => sexp::a(&format!("bad:parse:{}", e)),
            Ok(c) => {
                let res = panic::catch_unwind(panic::AssertUnwindSafe(|| ops::run_case(&c)));
                match res {
                    Ok(Ok(r)) => r,
                    Ok(Err(e)) => sexp::a(&format!("bad:{}", e.replace(' ', "_"))),
                    Err(_) => sexp::a("panic"),
                }
            }
        };
        print!("\x02E {}\n", r.to_text());
        std::io::stdout().flush().unwrap();
        let _ = tx.send(false);
    }
}
