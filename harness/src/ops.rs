use suiron::*;
use crate::sexp::{Sexp, Sexp::*, a};
use crate::conv::*;

pub fn run_case(c: &Sexp) -> R<Sexp> {
    let l = c.list()?;
    if l.is_empty() { return Err("empty case".into()); }
    let op = l[0].atom()?;
    match (op, l.len()) {
        ("cmp", 4) => {
            let name = l[1].atom()?.to_string();
            let ts = terms_of(&l[2])?;
            let ss = ss_of(&l[3])?;
            let bip = BuiltInPredicate::new(name.clone(), Some(ts));
            let r = match name.as_str() {
                "equal" => bip_equal(bip, &ss),
                "less_than" => bip_less_than(bip, &ss),
                "less_than_or_equal" => bip_less_than_or_equal(bip, &ss),
                "greater_than" => bip_greater_than(bip, &ss),
                "greater_than_or_equal" => bip_greater_than_or_equal(bip, &ss),
                _ => return Err(format!("cmp: {}", name)),
            };
            Ok(ok(sexp_of_opt_ss(&r)))
        },
        ("eval", 4) => {
            let name = l[1].atom()?;
            let ts = terms_of(&l[2])?;
            let ss = ss_of(&l[3])?;
            let r = match name {
                "add" => evaluate_add(&ts, &ss),
                "subtract" => evaluate_subtract(&ts, &ss),
                "multiply" => evaluate_multiply(&ts, &ss),
                "divide" => evaluate_divide(&ts, &ss),
                _ => return Err(format!("eval: {}", name)),
            };
            Ok(ok(sexp_of_term(&r)))
        },
        _ => Err(format!("unknown case: {}", c.to_text())),
    }
}
