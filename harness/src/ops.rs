use std::rc::Rc;
use suiron::*;
use crate::sexp::{Sexp, Sexp::*, a};
use crate::conv::*;

pub fn run_case(c: &Sexp) -> R<Sexp> {
    let l = c.list()?;
    if l.is_empty() { return Err("empty case".into()); }
    let op = l[0].atom()?;
    match (op, l.len()) {
        ("cmp", 4) => {
            let name = l[1].atom()?.to_string();
            let ts = terms_of(&l[2])?;
            let ss = ss_of(&l[3])?;
            let bip = BuiltInPredicate::new(name.clone(), Some(ts));
            let r = match name.as_str() {
                "equal" => bip_equal(bip, &ss),
                "less_than" => bip_less_than(bip, &ss),
                "less_than_or_equal" => bip_less_than_or_equal(bip, &ss),
                "greater_than" => bip_greater_than(bip, &ss),
                "greater_than_or_equal" => bip_greater_than_or_equal(bip, &ss),
                _ => return Err(format!("cmp: {}", name)),
            };
            Ok(ok(sexp_of_opt_ss(&r)))
        },
        ("eval", 4) => {
            let name = l[1].atom()?;
            let ts = terms_of(&l[2])?;
            let ss = ss_of(&l[3])?;
            let r = match name {
                "add" => evaluate_add(&ts, &ss),
                "subtract" => evaluate_subtract(&ts, &ss),
                "multiply" => evaluate_multiply(&ts, &ss),
                "divide" => evaluate_divide(&ts, &ss),
                _ => return Err(format!("eval: {}", name)),
            };
            Ok(ok(sexp_of_term(&r)))
        },
        ("unify", 4) => {
            let t1 = term_of(&l[1])?;
            let t2 = term_of(&l[2])?;
            let ss = ss_of(&l[3])?;
            let r = t1.unify(&t2, &ss);
            Ok(ok(sexp_of_opt_ss(&r)))
        },
        ("useq", n) if n >= 2 => {
            let mut pairs: Vec<(Unifiable, Unifiable)> = vec![];
            for p in &l[2..] {
                let pl = p.list()?;
                if pl.len() != 2 { return Err("useq pair".into()); }
                pairs.push((term_of(&pl[0])?, term_of(&pl[1])?));
            }
            let mut ss = ss_of(&l[1])?;
            for (x, y) in pairs.iter() {
                // `unify` ties the result's lifetime to its arguments; the pairs outlive the loop.
                match x.unify(y, &ss) {
                    Some(s2) => { ss = Rc::new((*s2).clone()); },
                    None => { return Ok(ok(a("none"))); },
                }
            }
            Ok(ok(L(vec![a("some"), sexp_of_ss(&ss)])))
        },
        ("useqr", n) if n >= 3 => {
            let t = term_of(&l[2])?;
            let mut pairs: Vec<(Unifiable, Unifiable)> = vec![];
            for p in &l[3..] {
                let pl = p.list()?;
                if pl.len() != 2 { return Err("useqr pair".into()); }
                pairs.push((term_of(&pl[0])?, term_of(&pl[1])?));
            }
            let mut ss = ss_of(&l[1])?;
            for (x, y) in pairs.iter() {
                match x.unify(y, &ss) {
                    Some(s2) => { ss = Rc::new((*s2).clone()); },
                    None => { return Ok(ok(a("none"))); },
                }
            }
            let r = t.replace_variables(&ss);
            Ok(L(vec![a("ok"), L(vec![a("some"), sexp_of_ss(&ss)]), sexp_of_term(&r)]))
        },
        // the resolution helpers of substitution_set.rs, each applied to (term, ss)
        ("resolve", 4) => {
            let t = term_of(&l[2])?;
            let ss = ss_of(&l[3])?;
            let opt = |o: Option<&Unifiable>| match o { None => a("none"), Some(x) => L(vec![a("some"), sexp_of_term(x)]) };
            let b = |x: bool| a(if x { "1" } else { "0" });
            let r = match &l[1].atom()?[..] {
                "is-bound" => b(is_bound(&t, &ss)),
                "get-binding" => opt(get_binding(&t, &ss)),
                "is-ground-variable" => b(is_ground_variable(&t, &ss)),
                "get-ground-term" => opt(get_ground_term(&t, &ss)),
                "get-complex" => opt(get_complex(&t, &ss)),
                "get-list" => opt(get_list(&t, &ss)),
                "get-constant" => opt(get_constant(&t, &ss)),
                f => return Err(format!("resolve: {}", f)),
            };
            Ok(ok(r))
        },
        // Goal::get_ground_term, Operator::len, Operator::get_subgoal
        ("goal-ground-term", 4) => {
            let idx = l[1].atom()?.parse::<usize>().map_err(|e| e.to_string())?;
            let g = goal_of(&l[2])?;
            let ss = ss_of(&l[3])?;
            Ok(ok(match g.get_ground_term(idx, ss) { None => a("none"), Some(t) => L(vec![a("some"), sexp_of_term(&t)]) }))
        },
        ("op-len", 2) => match goal_of(&l[1])? {
            Goal::OperatorGoal(o) => Ok(ok(A(o.len().to_string()))),
            _ => Ok(a("not-an-operator")),
        },
        ("op-subgoal", 3) => {
            let idx = l[1].atom()?.parse::<usize>().map_err(|e| e.to_string())?;
            match goal_of(&l[2])? {
                Goal::OperatorGoal(o) => Ok(ok(sexp_of_goal(&o.get_subgoal(idx)))),
                _ => Ok(a("not-an-operator")),
            }
        },
        // the debugging listings format_kb / format_ss
        ("format-kb", 2) => Ok(ok(A(atom_of_str(&format_kb(&crate::ops_solve::kb_of(&l[1])?))))),
        ("format-ss", 2) => Ok(ok(A(atom_of_str(&format_ss(&*ss_of(&l[1])?))))),
        ("replace", 3) => {
            let t = term_of(&l[1])?;
            let ss = ss_of(&l[2])?;
            Ok(ok(sexp_of_term(&t.replace_variables(&ss))))
        },
        ("bip", 4) => {
            let name = str_of_atom(l[1].atom()?)?;
            let terms = match &l[2] { A(x) if x == "none" => None, ts => Some(terms_of(ts)?) };
            let ss = ss_of(&l[3])?;
            let kb = KnowledgeBase::new();
            let dummy = Goal::ComplexGoal(Unifiable::SComplex(vec![Unifiable::Atom("verif_dummy".to_string())]));
            let parent = make_base_node(Rc::new(dummy), &kb);
            let goal = Goal::BuiltInGoal(BuiltInPredicate::new(name, terms));
            let node = make_solution_node(Rc::new(goal), &kb, ss, Rc::clone(&parent));
            let r = next_solution(Rc::clone(&node));
            let cut = parent.borrow().no_backtracking;
            Ok(L(vec![a("ok"), sexp_of_opt_ss(&r), a(if cut { "cut" } else { "nocut" })]))
        },
        ("mll", 3) => {
            let vbar = l[1].atom()? == "1";
            Ok(sexp_of_term(&make_linked_list(vbar, terms_of(&l[2])?)))
        },
        ("mlot", 2) => Ok(sexp_of_term(&make_list_of_terms(terms_of(&l[1])?))),
        ("show", 2) => Ok(A(atom_of_str(&term_of(&l[1])?.to_string()))),
        ("key", 2) => Ok(ok(A(atom_of_str(&term_of(&l[1])?.key())))),
        ("rename-term", 3) => {
            set_var_id(l[1].atom()?.parse::<usize>().map_err(|e| e.to_string())?);
            let t = term_of(&l[2])?.recreate_variables(&mut VarMap::new());
            Ok(L(vec![sexp_of_term(&t), A(get_var_id().to_string())]))
        },
        ("rename-goal", 3) => {
            set_var_id(l[1].atom()?.parse::<usize>().map_err(|e| e.to_string())?);
            let g = goal_of(&l[2])?.recreate_variables(&mut VarMap::new());
            Ok(ok(L(vec![sexp_of_goal(&g), A(get_var_id().to_string())])))
        },
        ("rename-rule", 3) => {
            set_var_id(l[1].atom()?.parse::<usize>().map_err(|e| e.to_string())?);
            let r = rule_of(&l[2])?.recreate_variables(&mut VarMap::new());
            Ok(ok(L(vec![sexp_of_rule(&r), A(get_var_id().to_string())])))
        },
        // clause fetch as the solver does it: clause IDX of the predicate of the first rule
        ("get-rule", 4) => {
            let kb = crate::ops_solve::kb_of(&l[3])?;
            let first = rule_of(&l[3].list()?[1])?;
            let idx = l[2].atom()?.parse::<usize>().map_err(|e| e.to_string())?;
            set_var_id(l[1].atom()?.parse::<usize>().map_err(|e| e.to_string())?);
            let r = get_rule(&kb, &first.key(), idx);
            Ok(ok(L(vec![sexp_of_rule(&r), A(get_var_id().to_string())])))
        },
        ("make-query", 2) => {
            let g = make_query(terms_of(&l[1])?);
            Ok(ok(L(vec![sexp_of_goal(&g), A(get_var_id().to_string())])))
        },
        _ => match crate::ops_solve::run_case(c) {
            Some(r) => r,
            None => match crate::ops_reader::run_case(c) {
                Some(r) => r,
                None => match crate::ops_goals::run_case(c) {
                    Some(r) => r,
                    None => match crate::ops_parse::run_case(c) {
                        Some(r) => r,
                        None => Err(format!("unknown case: {}", c.to_text())),
                    },
                },
            },
        },
    }
}
