// S-expressions of the case format (same grammar as ocaml/sexp.ml).
#[derive(Debug, Clone, PartialEq)]
pub enum Sexp { A(String), L(Vec<Sexp>) }
use Sexp::*;

pub fn parse(s: &str) -> Result<Sexp, String> {
    let b = s.as_bytes();
    let mut pos = 0usize;
    let r = item(b, &mut pos)?;
    skip(b, &mut pos);
    if pos != b.len() { return Err("trailing".into()); }
    Ok(r)
}
fn skip(b: &[u8], pos: &mut usize) {
    while *pos < b.len() && (b[*pos] == b' ' || b[*pos] == b'\t') { *pos += 1; }
}
fn item(b: &[u8], pos: &mut usize) -> Result<Sexp, String> {
    skip(b, pos);
    if *pos >= b.len() { return Err("eof".into()); }
    if b[*pos] == b'(' {
        *pos += 1;
        let mut items = vec![];
        loop {
            skip(b, pos);
            if *pos >= b.len() { return Err("unclosed".into()); }
            if b[*pos] == b')' { *pos += 1; break; }
            items.push(item(b, pos)?);
        }
        Ok(L(items))
    } else if b[*pos] == b')' {
        Err("unexpected )".into())
    } else {
        let st = *pos;
        while *pos < b.len() && !matches!(b[*pos], b' ' | b'(' | b')' | b'\t') { *pos += 1; }
        Ok(A(String::from_utf8_lossy(&b[st..*pos]).into_owned()))
    }
}
impl Sexp {
    pub fn write(&self, out: &mut String) {
        match self {
            A(s) => out.push_str(s),
            L(l) => {
                out.push('(');
                for (i, x) in l.iter().enumerate() {
                    if i > 0 { out.push(' '); }
                    x.write(out);
                }
                out.push(')');
            }
        }
    }
    pub fn to_text(&self) -> String { let mut s = String::new(); self.write(&mut s); s }
    pub fn atom(&self) -> Result<&str, String> {
        match self { A(s) => Ok(s), _ => Err(format!("atom expected: {}", self.to_text())) }
    }
    pub fn list(&self) -> Result<&[Sexp], String> {
        match self { L(l) => Ok(l), _ => Err(format!("list expected: {}", self.to_text())) }
    }
}
pub fn a(s: &str) -> Sexp { A(s.to_string()) }
