// C21: the source-file reader (src/rule_reader.rs).
//   (strip <line> <rd> <sd>)            strip_comments_at         -> (ok <line'> <rd'> <sd'>)
//   (checklast <line> <num>)            check_last_char           -> (ok none) | (ok (some <msg>))
//   (trimerr <chars>)                   trim_error_line           -> (ok <text>)
//   (unmatched <line> <rd> <sd>)        unmatched_bracket         -> (ok none) | (ok (some <msg>))
//   (separate <text>)                   separate_rules            -> (ok (<rule text> ...)) | (err <msg>)
//   (readfile <eol> (<line> ...) (<text> ...) <layout>)
//        writes the lines to a temporary file (eol = lf | crlf | lf-nofinal | crlf-nofinal),
//        -> (read R LOAD EACH)  with
//        R    = read_facts_and_rules(file)            : (ok (<rule text> ...)) | (err <msg>)
//        LOAD = load_kb_from_file(new kb, file)       : (ok KB) | (err KB) | panic
//        EACH = parse_rule + add_rules of every given text, one by one: (ok KB) | (err k) | panic
//        KB   = ((<key> (<display text> <rule sexp>) ...) ...)  sorted by key.
//   (readraw <hex bytes>)   the bytes as the file, undecoded (a line that is not valid UTF-8)
//        -> (raw R LOAD)
//        The texts and the layout are not read by the implementation side (the layout is the
//        model side's business); LOAD against EACH is the oracle of C21.
use std::io::Write;
use std::panic;
use suiron::*;
use crate::sexp::{Sexp, Sexp::*, a};
use crate::conv::*;

fn s(x: &Sexp) -> R<String> { str_of_atom(x.atom()?) }
fn sx(t: &str) -> Sexp { A(atom_of_str(t)) }
fn int(x: &Sexp) -> R<i32> { x.atom()?.parse::<i32>().map_err(|e| e.to_string()) }
fn opt_msg(o: Option<String>) -> Sexp {
    match o { None => ok(a("none")), Some(m) => ok(L(vec![a("some"), sx(&m)])) }
}
fn texts(r: Result<Vec<String>, String>) -> Sexp {
    match r {
        Ok(v) => ok(L(v.iter().map(|t| sx(t)).collect())),
        Err(m) => L(vec![a("err"), sx(&m)]),
    }
}
fn sexp_of_kb(kb: &KnowledgeBase) -> Sexp {
    let mut keys: Vec<&String> = kb.keys().collect();
    keys.sort();
    let mut out = vec![];
    for k in keys {
        let mut entry = vec![sx(k)];
        for r in kb.get(k).unwrap() {
            entry.push(L(vec![sx(&r.to_string()), sexp_of_rule(r)]));
        }
        out.push(L(entry));
    }
    L(out)
}

static COUNTER: std::sync::atomic::AtomicUsize = std::sync::atomic::AtomicUsize::new(0);

pub fn run_case(c: &Sexp) -> Option<R<Sexp>> {
    let l = match c.list() { Ok(l) => l, Err(_) => return None };
    if l.is_empty() { return None; }
    let op = match l[0].atom() { Ok(o) => o, Err(_) => return None };
    match (op, l.len()) {
        ("strip", 4) | ("checklast", 3) | ("trimerr", 2) | ("unmatched", 4) | ("separate", 2)
        | ("readfile", 5) | ("readraw", 2) => Some(run(op, l)),
        _ => None,
    }
}

fn run(op: &str, l: &[Sexp]) -> R<Sexp> {
    match op {
        "strip" => {
            let (t, rd, sd) = verif_strip_comments_at(&s(&l[1])?, int(&l[2])?, int(&l[3])?);
            Ok(L(vec![a("ok"), sx(&t), A(rd.to_string()), A(sd.to_string())]))
        },
        "checklast" => {
            let num = l[2].atom()?.parse::<usize>().map_err(|e| e.to_string())?;
            Ok(opt_msg(verif_check_last_char(&s(&l[1])?, num)))
        },
        "trimerr" => {
            let chrs: Vec<char> = s(&l[1])?.chars().collect();
            Ok(ok(sx(&verif_trim_error_line(&chrs))))
        },
        "unmatched" => Ok(opt_msg(verif_unmatched_bracket(&s(&l[1])?, int(&l[2])?, int(&l[3])?))),
        "separate" => Ok(texts(verif_separate_rules(&s(&l[1])?))),
        "readfile" => {
            let eol = l[1].atom()?;
            let (nl, fin) = match eol {
                "lf" => ("\n", true), "crlf" => ("\r\n", true),
                "lf-nofinal" => ("\n", false), "crlf-nofinal" => ("\r\n", false),
                _ => return Err(format!("eol: {}", eol)),
            };
            let lines: R<Vec<String>> = l[2].list()?.iter().map(s).collect();
            let lines = lines?;
            let given: R<Vec<String>> = l[3].list()?.iter().map(s).collect();
            let given = given?;
            let mut content = lines.join(nl);
            if fin && !lines.is_empty() { content.push_str(nl); }
            let dir = std::env::temp_dir();
            let n = COUNTER.fetch_add(1, std::sync::atomic::Ordering::SeqCst);
            let path = dir.join(format!("sv_reader_{}_{}.txt", std::process::id(), n));
            {
                let mut f = std::fs::File::create(&path).map_err(|e| e.to_string())?;
                f.write_all(content.as_bytes()).map_err(|e| e.to_string())?;
            }
            let p = path.to_str().ok_or("path")?.to_string();
            let read = panic::catch_unwind(panic::AssertUnwindSafe(|| read_facts_and_rules(&p)));
            let load = panic::catch_unwind(panic::AssertUnwindSafe(|| {
                let mut kb = KnowledgeBase::new();
                let r = load_kb_from_file(&mut kb, &p);
                (r, sexp_of_kb(&kb))
            }));
            let _ = std::fs::remove_file(&path);
            let each = panic::catch_unwind(panic::AssertUnwindSafe(|| {
                let mut kb = KnowledgeBase::new();
                for (k, t) in given.iter().enumerate() {
                    match parse_rule(t) {
                        Ok(rule) => { add_rules(&mut kb, vec![rule]); },
                        Err(_) => { return L(vec![a("err"), A(k.to_string())]); },
                    }
                }
                ok(sexp_of_kb(&kb))
            }));
            let read = match read { Ok(r) => texts(r), Err(_) => a("panic") };
            let load = match load {
                Ok((None, kb)) => ok(kb),
                Ok((Some(_), kb)) => L(vec![a("err"), kb]),
                Err(_) => a("panic"),
            };
            let each = match each { Ok(x) => x, Err(_) => a("panic") };
            Ok(L(vec![a("read"), read, load, each]))
        },
        "readraw" => {
            let hex = l[1].atom()?;
            if !hex.starts_with('x') || hex.len() % 2 != 1 { return Err(format!("hex: {}", hex)); }
            let mut bytes = vec![];
            let h = &hex.as_bytes()[1..];
            for k in (0..h.len()).step_by(2) {
                let t = std::str::from_utf8(&h[k..k + 2]).map_err(|e| e.to_string())?;
                bytes.push(u8::from_str_radix(t, 16).map_err(|e| e.to_string())?);
            }
            let dir = std::env::temp_dir();
            let n = COUNTER.fetch_add(1, std::sync::atomic::Ordering::SeqCst);
            let path = dir.join(format!("sv_reader_raw_{}_{}.txt", std::process::id(), n));
            {
                let mut f = std::fs::File::create(&path).map_err(|e| e.to_string())?;
                f.write_all(&bytes).map_err(|e| e.to_string())?;
            }
            let p = path.to_str().ok_or("path")?.to_string();
            let read = panic::catch_unwind(panic::AssertUnwindSafe(|| read_facts_and_rules(&p)));
            let load = panic::catch_unwind(panic::AssertUnwindSafe(|| {
                let mut kb = KnowledgeBase::new();
                let r = load_kb_from_file(&mut kb, &p);
                (r, sexp_of_kb(&kb))
            }));
            let _ = std::fs::remove_file(&path);
            let read = match read { Ok(r) => texts(r), Err(_) => a("panic") };
            let load = match load {
                Ok((None, kb)) => ok(kb),
                Ok((Some(_), kb)) => L(vec![a("err"), kb]),
                Err(_) => a("panic"),
            };
            Ok(L(vec![a("raw"), read, load]))
        },
        _ => Err(format!("ops_reader: {}", op)),
    }
}
