// Parser operations (term level and parse_subgoal): the string travels as an `s<cp>.<cp>…` atom.
// Observation: (ok <value>) | err ; a panic is caught by main.rs.
use std::rc::Rc;
use suiron::*;
use crate::sexp::{Sexp, Sexp::*, a};
use crate::conv::*;

fn res_term(r: Result<Unifiable, String>) -> Sexp {
    match r { Ok(t) => ok(sexp_of_term(&t)), Err(_) => a("err") }
}
fn res_goal(r: Result<Goal, String>) -> Sexp {
    match r { Ok(g) => ok(sexp_of_goal(&g)), Err(_) => a("err") }
}
fn infix_name(i: &Infix) -> &'static str {
    match i {
        Infix::None => "none", Infix::Unify => "unify", Infix::Equal => "equal",
        Infix::GreaterThan => "gt", Infix::LessThan => "lt",
        Infix::GreaterThanOrEqual => "ge", Infix::LessThanOrEqual => "le",
        Infix::Plus => "plus", Infix::Minus => "minus", Infix::Multiply => "multiply",
        Infix::Divide => "divide",
    }
}

pub fn run_case(c: &Sexp) -> Option<R<Sexp>> {
    let l = match c.list() { Ok(l) => l, Err(_) => return None };
    if l.len() < 2 { return None; }
    let op = match l[0].atom() { Ok(o) => o, Err(_) => return None };
    let known = ["parse-term", "parse-args", "parse-list", "parse-complex", "parse-function",
                 "parse-query", "parse-subgoal", "check-infix", "check-arith-infix",
                 "make-logic-var", "check-quotes", "indices-of-parens", "unify-text"];
    if !known.contains(&op) { return None; }
    Some(run(op, l))
}

fn run(op: &str, l: &[Sexp]) -> R<Sexp> {
    let s = str_of_atom(l[1].atom()?)?;
    match (op, l.len()) {
        ("parse-term", 2) => Ok(res_term(parse_term(&s))),
        // text -> parse_term -> unified with the fresh variable $R_1 under the empty substitution set
        ("unify-text", 2) => Ok(match parse_term(&s) {
            Ok(t) => {
                let v = Unifiable::LogicVar{ id: 1, name: "$R".to_string() };
                let ss = empty_ss!();
                let r = t.unify(&v, &ss);
                ok(sexp_of_opt_ss(&r))
            },
            Err(_) => a("err"),
        }),
        ("parse-args", 2) => Ok(match parse_arguments(&s) {
            Ok(ts) => ok(L(ts.iter().map(sexp_of_term).collect())),
            Err(_) => a("err"),
        }),
        ("parse-list", 2) => Ok(res_term(parse_linked_list(&s))),
        ("parse-complex", 2) => Ok(res_term(parse_complex(&s))),
        ("parse-function", 2) => Ok(res_term(parse_function(&s))),
        ("parse-query", 2) => Ok(res_goal(parse_query(&s))),
        ("parse-subgoal", 2) => Ok(res_goal(parse_subgoal(&s))),
        ("check-infix", 2) => {
            let chrs: Vec<char> = s.chars().collect();
            let (i, ix) = check_infix(&chrs);
            Ok(ok(L(vec![a(infix_name(&i)), A(ix.to_string())])))
        },
        ("check-arith-infix", 2) => {
            let chrs: Vec<char> = s.chars().collect();
            let (i, ix) = check_arithmetic_infix(&chrs);
            Ok(ok(L(vec![a(infix_name(&i)), A(ix.to_string())])))
        },
        ("make-logic-var", 2) => Ok(res_term(make_logic_var(s))),
        ("check-quotes", 3) => {
            let n = l[2].atom()?.parse::<usize>().map_err(|e| e.to_string())?;
            Ok(ok(a(if check_quotes(&s, n).is_some() { "1" } else { "0" })))
        },
        ("indices-of-parens", 2) => {
            let chrs: Vec<char> = s.chars().collect();
            Ok(match indices_of_parentheses(&chrs) {
                Ok(None) => ok(a("none")),
                Ok(Some((x, y))) => ok(L(vec![A(x.to_string()), A(y.to_string())])),
                Err(_) => a("err"),
            })
        },
        _ => Err(format!("parse op: {}", op)),
    }
}
