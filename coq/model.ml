
(** val xorb : bool -> bool -> bool **)

let xorb b1 b2 =
  if b1 then if b2 then false else true else b2

(** val negb : bool -> bool **)

let negb = function
| true -> false
| false -> true

type nat =
| O
| S of nat

(** val fst : ('a1 * 'a2) -> 'a1 **)

let fst = function
| (x, _) -> x

(** val length : 'a1 list -> nat **)

let rec length = function
| [] -> O
| _ :: l' -> S (length l')

(** val app : 'a1 list -> 'a1 list -> 'a1 list **)

let rec app l m =
  match l with
  | [] -> m
  | a :: l1 -> a :: (app l1 m)

type comparison =
| Eq
| Lt
| Gt

(** val compOpp : comparison -> comparison **)

let compOpp = function
| Eq -> Eq
| Lt -> Gt
| Gt -> Lt

type 'a sig0 = 'a
  (* singleton inductive, whose constructor was exist *)

type uint =
| Nil
| D0 of uint
| D1 of uint
| D2 of uint
| D3 of uint
| D4 of uint
| D5 of uint
| D6 of uint
| D7 of uint
| D8 of uint
| D9 of uint

(** val revapp : uint -> uint -> uint **)

let rec revapp d d' =
  match d with
  | Nil -> d'
  | D0 d0 -> revapp d0 (D0 d')
  | D1 d0 -> revapp d0 (D1 d')
  | D2 d0 -> revapp d0 (D2 d')
  | D3 d0 -> revapp d0 (D3 d')
  | D4 d0 -> revapp d0 (D4 d')
  | D5 d0 -> revapp d0 (D5 d')
  | D6 d0 -> revapp d0 (D6 d')
  | D7 d0 -> revapp d0 (D7 d')
  | D8 d0 -> revapp d0 (D8 d')
  | D9 d0 -> revapp d0 (D9 d')

(** val rev : uint -> uint **)

let rev d =
  revapp d Nil

module Little =
 struct
  (** val double : uint -> uint **)

  let rec double = function
  | Nil -> Nil
  | D0 d0 -> D0 (double d0)
  | D1 d0 -> D2 (double d0)
  | D2 d0 -> D4 (double d0)
  | D3 d0 -> D6 (double d0)
  | D4 d0 -> D8 (double d0)
  | D5 d0 -> D0 (succ_double d0)
  | D6 d0 -> D2 (succ_double d0)
  | D7 d0 -> D4 (succ_double d0)
  | D8 d0 -> D6 (succ_double d0)
  | D9 d0 -> D8 (succ_double d0)

  (** val succ_double : uint -> uint **)

  and succ_double = function
  | Nil -> D1 Nil
  | D0 d0 -> D1 (double d0)
  | D1 d0 -> D3 (double d0)
  | D2 d0 -> D5 (double d0)
  | D3 d0 -> D7 (double d0)
  | D4 d0 -> D9 (double d0)
  | D5 d0 -> D1 (succ_double d0)
  | D6 d0 -> D3 (succ_double d0)
  | D7 d0 -> D5 (succ_double d0)
  | D8 d0 -> D7 (succ_double d0)
  | D9 d0 -> D9 (succ_double d0)
 end

module Coq__1 = struct
 (** val add : nat -> nat -> nat **)
 let rec add n0 m =
   match n0 with
   | O -> m
   | S p -> S (add p m)
end
include Coq__1

(** val sub : nat -> nat -> nat **)

let rec sub n0 m =
  match n0 with
  | O -> n0
  | S k -> (match m with
            | O -> n0
            | S l -> sub k l)

(** val eqb : bool -> bool -> bool **)

let eqb b1 b2 =
  if b1 then b2 else if b2 then false else true

module Nat =
 struct
  (** val add : nat -> nat -> nat **)

  let rec add n0 m =
    match n0 with
    | O -> m
    | S p -> S (add p m)
 end

(** val nth_error : 'a1 list -> nat -> 'a1 option **)

let rec nth_error l = function
| O -> (match l with
        | [] -> None
        | x :: _ -> Some x)
| S n1 -> (match l with
           | [] -> None
           | _ :: l0 -> nth_error l0 n1)

(** val rev0 : 'a1 list -> 'a1 list **)

let rec rev0 = function
| [] -> []
| x :: l' -> app (rev0 l') (x :: [])

(** val map : ('a1 -> 'a2) -> 'a1 list -> 'a2 list **)

let rec map f = function
| [] -> []
| a :: t -> (f a) :: (map f t)

(** val fold_left : ('a1 -> 'a2 -> 'a1) -> 'a2 list -> 'a1 -> 'a1 **)

let rec fold_left f l a0 =
  match l with
  | [] -> a0
  | b :: t -> fold_left f t (f a0 b)

type positive =
| XI of positive
| XO of positive
| XH

type n =
| N0
| Npos of positive

type z =
| Z0
| Zpos of positive
| Zneg of positive

module Pos =
 struct
  type mask =
  | IsNul
  | IsPos of positive
  | IsNeg
 end

module Coq_Pos =
 struct
  (** val succ : positive -> positive **)

  let rec succ = function
  | XI p -> XO (succ p)
  | XO p -> XI p
  | XH -> XO XH

  (** val add : positive -> positive -> positive **)

  let rec add x y =
    match x with
    | XI p ->
      (match y with
       | XI q -> XO (add_carry p q)
       | XO q -> XI (add p q)
       | XH -> XO (succ p))
    | XO p ->
      (match y with
       | XI q -> XI (add p q)
       | XO q -> XO (add p q)
       | XH -> XI p)
    | XH -> (match y with
             | XI q -> XO (succ q)
             | XO q -> XI q
             | XH -> XO XH)

  (** val add_carry : positive -> positive -> positive **)

  and add_carry x y =
    match x with
    | XI p ->
      (match y with
       | XI q -> XI (add_carry p q)
       | XO q -> XO (add_carry p q)
       | XH -> XI (succ p))
    | XO p ->
      (match y with
       | XI q -> XO (add_carry p q)
       | XO q -> XI (add p q)
       | XH -> XO (succ p))
    | XH ->
      (match y with
       | XI q -> XI (succ q)
       | XO q -> XO (succ q)
       | XH -> XI XH)

  (** val pred_double : positive -> positive **)

  let rec pred_double = function
  | XI p -> XI (XO p)
  | XO p -> XI (pred_double p)
  | XH -> XH

  type mask = Pos.mask =
  | IsNul
  | IsPos of positive
  | IsNeg

  (** val succ_double_mask : mask -> mask **)

  let succ_double_mask = function
  | IsNul -> IsPos XH
  | IsPos p -> IsPos (XI p)
  | IsNeg -> IsNeg

  (** val double_mask : mask -> mask **)

  let double_mask = function
  | IsPos p -> IsPos (XO p)
  | x0 -> x0

  (** val double_pred_mask : positive -> mask **)

  let double_pred_mask = function
  | XI p -> IsPos (XO (XO p))
  | XO p -> IsPos (XO (pred_double p))
  | XH -> IsNul

  (** val sub_mask : positive -> positive -> mask **)

  let rec sub_mask x y =
    match x with
    | XI p ->
      (match y with
       | XI q -> double_mask (sub_mask p q)
       | XO q -> succ_double_mask (sub_mask p q)
       | XH -> IsPos (XO p))
    | XO p ->
      (match y with
       | XI q -> succ_double_mask (sub_mask_carry p q)
       | XO q -> double_mask (sub_mask p q)
       | XH -> IsPos (pred_double p))
    | XH -> (match y with
             | XH -> IsNul
             | _ -> IsNeg)

  (** val sub_mask_carry : positive -> positive -> mask **)

  and sub_mask_carry x y =
    match x with
    | XI p ->
      (match y with
       | XI q -> succ_double_mask (sub_mask_carry p q)
       | XO q -> double_mask (sub_mask p q)
       | XH -> IsPos (pred_double p))
    | XO p ->
      (match y with
       | XI q -> double_mask (sub_mask_carry p q)
       | XO q -> succ_double_mask (sub_mask_carry p q)
       | XH -> double_pred_mask p)
    | XH -> IsNeg

  (** val mul : positive -> positive -> positive **)

  let rec mul x y =
    match x with
    | XI p -> add y (XO (mul p y))
    | XO p -> XO (mul p y)
    | XH -> y

  (** val iter : ('a1 -> 'a1) -> 'a1 -> positive -> 'a1 **)

  let rec iter f x = function
  | XI n' -> f (iter f (iter f x n') n')
  | XO n' -> iter f (iter f x n') n'
  | XH -> f x

  (** val div2 : positive -> positive **)

  let div2 = function
  | XI p0 -> p0
  | XO p0 -> p0
  | XH -> XH

  (** val div2_up : positive -> positive **)

  let div2_up = function
  | XI p0 -> succ p0
  | XO p0 -> p0
  | XH -> XH

  (** val compare_cont : comparison -> positive -> positive -> comparison **)

  let rec compare_cont r x y =
    match x with
    | XI p ->
      (match y with
       | XI q -> compare_cont r p q
       | XO q -> compare_cont Gt p q
       | XH -> Gt)
    | XO p ->
      (match y with
       | XI q -> compare_cont Lt p q
       | XO q -> compare_cont r p q
       | XH -> Gt)
    | XH -> (match y with
             | XH -> r
             | _ -> Lt)

  (** val compare : positive -> positive -> comparison **)

  let compare =
    compare_cont Eq

  (** val eqb : positive -> positive -> bool **)

  let rec eqb p q =
    match p with
    | XI p0 -> (match q with
                | XI q0 -> eqb p0 q0
                | _ -> false)
    | XO p0 -> (match q with
                | XO q0 -> eqb p0 q0
                | _ -> false)
    | XH -> (match q with
             | XH -> true
             | _ -> false)

  (** val iter_op : ('a1 -> 'a1 -> 'a1) -> positive -> 'a1 -> 'a1 **)

  let rec iter_op op p a =
    match p with
    | XI p0 -> op a (iter_op op p0 (op a a))
    | XO p0 -> iter_op op p0 (op a a)
    | XH -> a

  (** val to_nat : positive -> nat **)

  let to_nat x =
    iter_op Coq__1.add x (S O)

  (** val of_succ_nat : nat -> positive **)

  let rec of_succ_nat = function
  | O -> XH
  | S x -> succ (of_succ_nat x)

  (** val to_little_uint : positive -> uint **)

  let rec to_little_uint = function
  | XI p0 -> Little.succ_double (to_little_uint p0)
  | XO p0 -> Little.double (to_little_uint p0)
  | XH -> D1 Nil

  (** val to_uint : positive -> uint **)

  let to_uint p =
    rev (to_little_uint p)
 end

module N =
 struct
  (** val succ_double : n -> n **)

  let succ_double = function
  | N0 -> Npos XH
  | Npos p -> Npos (XI p)

  (** val double : n -> n **)

  let double = function
  | N0 -> N0
  | Npos p -> Npos (XO p)

  (** val add : n -> n -> n **)

  let add n0 m =
    match n0 with
    | N0 -> m
    | Npos p -> (match m with
                 | N0 -> n0
                 | Npos q -> Npos (Coq_Pos.add p q))

  (** val sub : n -> n -> n **)

  let sub n0 m =
    match n0 with
    | N0 -> N0
    | Npos n' ->
      (match m with
       | N0 -> n0
       | Npos m' ->
         (match Coq_Pos.sub_mask n' m' with
          | Coq_Pos.IsPos p -> Npos p
          | _ -> N0))

  (** val mul : n -> n -> n **)

  let mul n0 m =
    match n0 with
    | N0 -> N0
    | Npos p -> (match m with
                 | N0 -> N0
                 | Npos q -> Npos (Coq_Pos.mul p q))

  (** val compare : n -> n -> comparison **)

  let compare n0 m =
    match n0 with
    | N0 -> (match m with
             | N0 -> Eq
             | Npos _ -> Lt)
    | Npos n' -> (match m with
                  | N0 -> Gt
                  | Npos m' -> Coq_Pos.compare n' m')

  (** val eqb : n -> n -> bool **)

  let eqb n0 m =
    match n0 with
    | N0 -> (match m with
             | N0 -> true
             | Npos _ -> false)
    | Npos p -> (match m with
                 | N0 -> false
                 | Npos q -> Coq_Pos.eqb p q)

  (** val leb : n -> n -> bool **)

  let leb x y =
    match compare x y with
    | Gt -> false
    | _ -> true

  (** val pos_div_eucl : positive -> n -> n * n **)

  let rec pos_div_eucl a b =
    match a with
    | XI a' ->
      let (q, r) = pos_div_eucl a' b in
      let r' = succ_double r in
      if leb b r' then ((succ_double q), (sub r' b)) else ((double q), r')
    | XO a' ->
      let (q, r) = pos_div_eucl a' b in
      let r' = double r in
      if leb b r' then ((succ_double q), (sub r' b)) else ((double q), r')
    | XH ->
      (match b with
       | N0 -> (N0, (Npos XH))
       | Npos p -> (match p with
                    | XH -> ((Npos XH), N0)
                    | _ -> (N0, (Npos XH))))

  (** val to_nat : n -> nat **)

  let to_nat = function
  | N0 -> O
  | Npos p -> Coq_Pos.to_nat p

  (** val of_nat : nat -> n **)

  let of_nat = function
  | O -> N0
  | S n' -> Npos (Coq_Pos.of_succ_nat n')
 end

type ascii =
| Ascii of bool * bool * bool * bool * bool * bool * bool * bool

(** val n_of_digits : bool list -> n **)

let rec n_of_digits = function
| [] -> N0
| b :: l' ->
  N.add (if b then Npos XH else N0) (N.mul (Npos (XO XH)) (n_of_digits l'))

(** val n_of_ascii : ascii -> n **)

let n_of_ascii = function
| Ascii (a0, a1, a2, a3, a4, a5, a6, a7) ->
  n_of_digits
    (a0 :: (a1 :: (a2 :: (a3 :: (a4 :: (a5 :: (a6 :: (a7 :: []))))))))

module Z =
 struct
  (** val double : z -> z **)

  let double = function
  | Z0 -> Z0
  | Zpos p -> Zpos (XO p)
  | Zneg p -> Zneg (XO p)

  (** val succ_double : z -> z **)

  let succ_double = function
  | Z0 -> Zpos XH
  | Zpos p -> Zpos (XI p)
  | Zneg p -> Zneg (Coq_Pos.pred_double p)

  (** val pred_double : z -> z **)

  let pred_double = function
  | Z0 -> Zneg XH
  | Zpos p -> Zpos (Coq_Pos.pred_double p)
  | Zneg p -> Zneg (XI p)

  (** val pos_sub : positive -> positive -> z **)

  let rec pos_sub x y =
    match x with
    | XI p ->
      (match y with
       | XI q -> double (pos_sub p q)
       | XO q -> succ_double (pos_sub p q)
       | XH -> Zpos (XO p))
    | XO p ->
      (match y with
       | XI q -> pred_double (pos_sub p q)
       | XO q -> double (pos_sub p q)
       | XH -> Zpos (Coq_Pos.pred_double p))
    | XH ->
      (match y with
       | XI q -> Zneg (XO q)
       | XO q -> Zneg (Coq_Pos.pred_double q)
       | XH -> Z0)

  (** val add : z -> z -> z **)

  let add x y =
    match x with
    | Z0 -> y
    | Zpos x' ->
      (match y with
       | Z0 -> x
       | Zpos y' -> Zpos (Coq_Pos.add x' y')
       | Zneg y' -> pos_sub x' y')
    | Zneg x' ->
      (match y with
       | Z0 -> x
       | Zpos y' -> pos_sub y' x'
       | Zneg y' -> Zneg (Coq_Pos.add x' y'))

  (** val opp : z -> z **)

  let opp = function
  | Z0 -> Z0
  | Zpos x0 -> Zneg x0
  | Zneg x0 -> Zpos x0

  (** val sub : z -> z -> z **)

  let sub m n0 =
    add m (opp n0)

  (** val mul : z -> z -> z **)

  let mul x y =
    match x with
    | Z0 -> Z0
    | Zpos x' ->
      (match y with
       | Z0 -> Z0
       | Zpos y' -> Zpos (Coq_Pos.mul x' y')
       | Zneg y' -> Zneg (Coq_Pos.mul x' y'))
    | Zneg x' ->
      (match y with
       | Z0 -> Z0
       | Zpos y' -> Zneg (Coq_Pos.mul x' y')
       | Zneg y' -> Zpos (Coq_Pos.mul x' y'))

  (** val pow_pos : z -> positive -> z **)

  let pow_pos z0 =
    Coq_Pos.iter (mul z0) (Zpos XH)

  (** val pow : z -> z -> z **)

  let pow x = function
  | Z0 -> Zpos XH
  | Zpos p -> pow_pos x p
  | Zneg _ -> Z0

  (** val compare : z -> z -> comparison **)

  let compare x y =
    match x with
    | Z0 -> (match y with
             | Z0 -> Eq
             | Zpos _ -> Lt
             | Zneg _ -> Gt)
    | Zpos x' -> (match y with
                  | Zpos y' -> Coq_Pos.compare x' y'
                  | _ -> Gt)
    | Zneg x' ->
      (match y with
       | Zneg y' -> compOpp (Coq_Pos.compare x' y')
       | _ -> Lt)

  (** val leb : z -> z -> bool **)

  let leb x y =
    match compare x y with
    | Gt -> false
    | _ -> true

  (** val ltb : z -> z -> bool **)

  let ltb x y =
    match compare x y with
    | Lt -> true
    | _ -> false

  (** val eqb : z -> z -> bool **)

  let eqb x y =
    match x with
    | Z0 -> (match y with
             | Z0 -> true
             | _ -> false)
    | Zpos p -> (match y with
                 | Zpos q -> Coq_Pos.eqb p q
                 | _ -> false)
    | Zneg p -> (match y with
                 | Zneg q -> Coq_Pos.eqb p q
                 | _ -> false)

  (** val max : z -> z -> z **)

  let max n0 m =
    match compare n0 m with
    | Lt -> m
    | _ -> n0

  (** val min : z -> z -> z **)

  let min n0 m =
    match compare n0 m with
    | Gt -> m
    | _ -> n0

  (** val to_nat : z -> nat **)

  let to_nat = function
  | Zpos p -> Coq_Pos.to_nat p
  | _ -> O

  (** val of_N : n -> z **)

  let of_N = function
  | N0 -> Z0
  | Npos p -> Zpos p

  (** val to_pos : z -> positive **)

  let to_pos = function
  | Zpos p -> p
  | _ -> XH

  (** val pos_div_eucl : positive -> z -> z * z **)

  let rec pos_div_eucl a b =
    match a with
    | XI a' ->
      let (q, r) = pos_div_eucl a' b in
      let r' = add (mul (Zpos (XO XH)) r) (Zpos XH) in
      if ltb r' b
      then ((mul (Zpos (XO XH)) q), r')
      else ((add (mul (Zpos (XO XH)) q) (Zpos XH)), (sub r' b))
    | XO a' ->
      let (q, r) = pos_div_eucl a' b in
      let r' = mul (Zpos (XO XH)) r in
      if ltb r' b
      then ((mul (Zpos (XO XH)) q), r')
      else ((add (mul (Zpos (XO XH)) q) (Zpos XH)), (sub r' b))
    | XH -> if leb (Zpos (XO XH)) b then (Z0, (Zpos XH)) else ((Zpos XH), Z0)

  (** val div_eucl : z -> z -> z * z **)

  let div_eucl a b =
    match a with
    | Z0 -> (Z0, Z0)
    | Zpos a' ->
      (match b with
       | Z0 -> (Z0, a)
       | Zpos _ -> pos_div_eucl a' b
       | Zneg b' ->
         let (q, r) = pos_div_eucl a' (Zpos b') in
         (match r with
          | Z0 -> ((opp q), Z0)
          | _ -> ((opp (add q (Zpos XH))), (add b r))))
    | Zneg a' ->
      (match b with
       | Z0 -> (Z0, a)
       | Zpos _ ->
         let (q, r) = pos_div_eucl a' b in
         (match r with
          | Z0 -> ((opp q), Z0)
          | _ -> ((opp (add q (Zpos XH))), (sub b r)))
       | Zneg b' -> let (q, r) = pos_div_eucl a' (Zpos b') in (q, (opp r)))

  (** val div : z -> z -> z **)

  let div a b =
    let (q, _) = div_eucl a b in q

  (** val modulo : z -> z -> z **)

  let modulo a b =
    let (_, r) = div_eucl a b in r

  (** val quotrem : z -> z -> z * z **)

  let quotrem a b =
    match a with
    | Z0 -> (Z0, Z0)
    | Zpos a0 ->
      (match b with
       | Z0 -> (Z0, a)
       | Zpos b0 ->
         let (q, r) = N.pos_div_eucl a0 (Npos b0) in ((of_N q), (of_N r))
       | Zneg b0 ->
         let (q, r) = N.pos_div_eucl a0 (Npos b0) in
         ((opp (of_N q)), (of_N r)))
    | Zneg a0 ->
      (match b with
       | Z0 -> (Z0, a)
       | Zpos b0 ->
         let (q, r) = N.pos_div_eucl a0 (Npos b0) in
         ((opp (of_N q)), (opp (of_N r)))
       | Zneg b0 ->
         let (q, r) = N.pos_div_eucl a0 (Npos b0) in
         ((of_N q), (opp (of_N r))))

  (** val quot : z -> z -> z **)

  let quot a b =
    fst (quotrem a b)

  (** val even : z -> bool **)

  let even = function
  | Z0 -> true
  | Zpos p -> (match p with
               | XO _ -> true
               | _ -> false)
  | Zneg p -> (match p with
               | XO _ -> true
               | _ -> false)

  (** val div2 : z -> z **)

  let div2 = function
  | Z0 -> Z0
  | Zpos p -> (match p with
               | XH -> Z0
               | _ -> Zpos (Coq_Pos.div2 p))
  | Zneg p -> Zneg (Coq_Pos.div2_up p)

  (** val shiftl : z -> z -> z **)

  let shiftl a = function
  | Z0 -> a
  | Zpos p -> Coq_Pos.iter (mul (Zpos (XO XH))) a p
  | Zneg p -> Coq_Pos.iter div2 a p
 end

(** val zeq_bool : z -> z -> bool **)

let zeq_bool x y =
  match Z.compare x y with
  | Eq -> true
  | _ -> false

type string =
| EmptyString
| String of ascii * string

(** val shift_pos : positive -> positive -> positive **)

let shift_pos n0 z0 =
  Coq_Pos.iter (fun x -> XO x) z0 n0

type str = n list

(** val s2l : string -> str **)

let rec s2l = function
| EmptyString -> []
| String (a, r) -> (n_of_ascii a) :: (s2l r)

(** val str_eqb : str -> str -> bool **)

let rec str_eqb a b =
  match a with
  | [] -> (match b with
           | [] -> true
           | _ :: _ -> false)
  | x :: a' ->
    (match b with
     | [] -> false
     | y :: b' -> (&&) (N.eqb x y) (str_eqb a' b'))

(** val str_cmp : str -> str -> comparison **)

let rec str_cmp a b =
  match a with
  | [] -> (match b with
           | [] -> Eq
           | _ :: _ -> Lt)
  | x :: a' ->
    (match b with
     | [] -> Gt
     | y :: b' -> (match N.compare x y with
                   | Eq -> str_cmp a' b'
                   | x0 -> x0))

(** val uint_digits : uint -> str **)

let rec uint_digits = function
| Nil -> []
| D0 r -> (Npos (XO (XO (XO (XO (XI XH)))))) :: (uint_digits r)
| D1 r -> (Npos (XI (XO (XO (XO (XI XH)))))) :: (uint_digits r)
| D2 r -> (Npos (XO (XI (XO (XO (XI XH)))))) :: (uint_digits r)
| D3 r -> (Npos (XI (XI (XO (XO (XI XH)))))) :: (uint_digits r)
| D4 r -> (Npos (XO (XO (XI (XO (XI XH)))))) :: (uint_digits r)
| D5 r -> (Npos (XI (XO (XI (XO (XI XH)))))) :: (uint_digits r)
| D6 r -> (Npos (XO (XI (XI (XO (XI XH)))))) :: (uint_digits r)
| D7 r -> (Npos (XI (XI (XI (XO (XI XH)))))) :: (uint_digits r)
| D8 r -> (Npos (XO (XO (XO (XI (XI XH)))))) :: (uint_digits r)
| D9 r -> (Npos (XI (XO (XO (XI (XI XH)))))) :: (uint_digits r)

(** val show_N : n -> str **)

let show_N = function
| N0 -> (Npos (XO (XO (XO (XO (XI XH)))))) :: []
| Npos p -> uint_digits (Coq_Pos.to_uint p)

(** val show_Z : z -> str **)

let show_Z = function
| Z0 -> (Npos (XO (XO (XO (XO (XI XH)))))) :: []
| Zpos p -> uint_digits (Coq_Pos.to_uint p)
| Zneg p ->
  (Npos (XI (XO (XI (XI (XO XH)))))) :: (uint_digits (Coq_Pos.to_uint p))

type spec_float =
| S754_zero of bool
| S754_infinity of bool
| S754_nan
| S754_finite of bool * positive * z

(** val emin : z -> z -> z **)

let emin prec emax =
  Z.sub (Z.sub (Zpos (XI XH)) emax) prec

(** val fexp : z -> z -> z -> z **)

let fexp prec emax e =
  Z.max (Z.sub e prec) (emin prec emax)

(** val digits2_pos : positive -> positive **)

let rec digits2_pos = function
| XI p -> Coq_Pos.succ (digits2_pos p)
| XO p -> Coq_Pos.succ (digits2_pos p)
| XH -> XH

(** val zdigits2 : z -> z **)

let zdigits2 n0 = match n0 with
| Z0 -> n0
| Zpos p -> Zpos (digits2_pos p)
| Zneg p -> Zpos (digits2_pos p)

(** val iter_pos : ('a1 -> 'a1) -> positive -> 'a1 -> 'a1 **)

let rec iter_pos f n0 x =
  match n0 with
  | XI n' -> iter_pos f n' (iter_pos f n' (f x))
  | XO n' -> iter_pos f n' (iter_pos f n' x)
  | XH -> f x

type location =
| Loc_Exact
| Loc_Inexact of comparison

type shr_record = { shr_m : z; shr_r : bool; shr_s : bool }

(** val shr_1 : shr_record -> shr_record **)

let shr_1 mrs =
  let { shr_m = m; shr_r = r; shr_s = s } = mrs in
  let s0 = (||) r s in
  (match m with
   | Z0 -> { shr_m = Z0; shr_r = false; shr_s = s0 }
   | Zpos p0 ->
     (match p0 with
      | XI p -> { shr_m = (Zpos p); shr_r = true; shr_s = s0 }
      | XO p -> { shr_m = (Zpos p); shr_r = false; shr_s = s0 }
      | XH -> { shr_m = Z0; shr_r = true; shr_s = s0 })
   | Zneg p0 ->
     (match p0 with
      | XI p -> { shr_m = (Zneg p); shr_r = true; shr_s = s0 }
      | XO p -> { shr_m = (Zneg p); shr_r = false; shr_s = s0 }
      | XH -> { shr_m = Z0; shr_r = true; shr_s = s0 }))

(** val loc_of_shr_record : shr_record -> location **)

let loc_of_shr_record mrs =
  let { shr_m = _; shr_r = shr_r0; shr_s = shr_s0 } = mrs in
  if shr_r0
  then if shr_s0 then Loc_Inexact Gt else Loc_Inexact Eq
  else if shr_s0 then Loc_Inexact Lt else Loc_Exact

(** val shr_record_of_loc : z -> location -> shr_record **)

let shr_record_of_loc m = function
| Loc_Exact -> { shr_m = m; shr_r = false; shr_s = false }
| Loc_Inexact c ->
  (match c with
   | Eq -> { shr_m = m; shr_r = true; shr_s = false }
   | Lt -> { shr_m = m; shr_r = false; shr_s = true }
   | Gt -> { shr_m = m; shr_r = true; shr_s = true })

(** val shr : shr_record -> z -> z -> shr_record * z **)

let shr mrs e n0 = match n0 with
| Zpos p -> ((iter_pos shr_1 p mrs), (Z.add e n0))
| _ -> (mrs, e)

(** val shr_fexp : z -> z -> z -> z -> location -> shr_record * z **)

let shr_fexp prec emax m e l =
  shr (shr_record_of_loc m l) e
    (Z.sub (fexp prec emax (Z.add (zdigits2 m) e)) e)

(** val shl_align : positive -> z -> z -> positive * z **)

let shl_align mx ex ex' =
  match Z.sub ex' ex with
  | Zneg d -> ((shift_pos d mx), ex')
  | _ -> (mx, ex)

(** val sFcompare : spec_float -> spec_float -> comparison option **)

let sFcompare f1 f2 =
  match f1 with
  | S754_zero _ ->
    (match f2 with
     | S754_zero _ -> Some Eq
     | S754_infinity s -> Some (if s then Gt else Lt)
     | S754_nan -> None
     | S754_finite (s, _, _) -> Some (if s then Gt else Lt))
  | S754_infinity s ->
    (match f2 with
     | S754_infinity s0 ->
       Some (if s then if s0 then Eq else Lt else if s0 then Gt else Eq)
     | S754_nan -> None
     | _ -> Some (if s then Lt else Gt))
  | S754_nan -> None
  | S754_finite (s1, m1, e1) ->
    (match f2 with
     | S754_zero _ -> Some (if s1 then Lt else Gt)
     | S754_infinity s -> Some (if s then Gt else Lt)
     | S754_nan -> None
     | S754_finite (s2, m2, e2) ->
       Some
         (if s1
          then if s2
               then (match Z.compare e1 e2 with
                     | Eq -> compOpp (Coq_Pos.compare_cont Eq m1 m2)
                     | Lt -> Gt
                     | Gt -> Lt)
               else Lt
          else if s2
               then Gt
               else (match Z.compare e1 e2 with
                     | Eq -> Coq_Pos.compare_cont Eq m1 m2
                     | x -> x)))

(** val cond_Zopp : bool -> z -> z **)

let cond_Zopp b m =
  if b then Z.opp m else m

(** val new_location_even : z -> z -> location **)

let new_location_even nb_steps k =
  if zeq_bool k Z0
  then Loc_Exact
  else Loc_Inexact (Z.compare (Z.mul (Zpos (XO XH)) k) nb_steps)

(** val new_location_odd : z -> z -> location **)

let new_location_odd nb_steps k =
  if zeq_bool k Z0
  then Loc_Exact
  else Loc_Inexact
         (match Z.compare (Z.add (Z.mul (Zpos (XO XH)) k) (Zpos XH)) nb_steps with
          | Eq -> Lt
          | x -> x)

(** val new_location : z -> z -> location **)

let new_location nb_steps =
  if Z.even nb_steps
  then new_location_even nb_steps
  else new_location_odd nb_steps

(** val sFdiv_core_binary :
    z -> z -> z -> z -> z -> z -> (z * z) * location **)

let sFdiv_core_binary prec emax m1 e1 m2 e2 =
  let d1 = zdigits2 m1 in
  let d2 = zdigits2 m2 in
  let e' =
    Z.min (fexp prec emax (Z.sub (Z.add d1 e1) (Z.add d2 e2))) (Z.sub e1 e2)
  in
  let s = Z.sub (Z.sub e1 e2) e' in
  let m' = match s with
           | Z0 -> m1
           | Zpos _ -> Z.shiftl m1 s
           | Zneg _ -> Z0 in
  let (q, r) = Z.div_eucl m' m2 in ((q, e'), (new_location m2 r))

(** val iter_nat : ('a1 -> 'a1) -> nat -> 'a1 -> 'a1 **)

let rec iter_nat f n0 x =
  match n0 with
  | O -> x
  | S n' -> iter_nat f n' (f x)

(** val cond_incr : bool -> z -> z **)

let cond_incr b m =
  if b then Z.add m (Zpos XH) else m

(** val round_sign_DN : bool -> location -> bool **)

let round_sign_DN s = function
| Loc_Exact -> false
| Loc_Inexact _ -> s

(** val round_sign_UP : bool -> location -> bool **)

let round_sign_UP s = function
| Loc_Exact -> false
| Loc_Inexact _ -> negb s

(** val round_N : bool -> location -> bool **)

let round_N p = function
| Loc_Exact -> false
| Loc_Inexact c -> (match c with
                    | Eq -> p
                    | Lt -> false
                    | Gt -> true)

type binary_float =
| B754_zero of bool
| B754_infinity of bool
| B754_nan
| B754_finite of bool * positive * z

(** val sF2B : z -> z -> spec_float -> binary_float **)

let sF2B _ _ = function
| S754_zero s -> B754_zero s
| S754_infinity s -> B754_infinity s
| S754_nan -> B754_nan
| S754_finite (s, m, e) -> B754_finite (s, m, e)

(** val b2SF : z -> z -> binary_float -> spec_float **)

let b2SF _ _ = function
| B754_zero s -> S754_zero s
| B754_infinity s -> S754_infinity s
| B754_nan -> S754_nan
| B754_finite (s, m, e) -> S754_finite (s, m, e)

(** val bcompare :
    z -> z -> binary_float -> binary_float -> comparison option **)

let bcompare prec emax f1 f2 =
  sFcompare (b2SF prec emax f1) (b2SF prec emax f2)

type mode =
| Mode_NE
| Mode_ZR
| Mode_DN
| Mode_UP
| Mode_NA

(** val choice_mode : mode -> bool -> z -> location -> z **)

let choice_mode m sx mx lx =
  match m with
  | Mode_NE -> cond_incr (round_N (negb (Z.even mx)) lx) mx
  | Mode_ZR -> mx
  | Mode_DN -> cond_incr (round_sign_DN sx lx) mx
  | Mode_UP -> cond_incr (round_sign_UP sx lx) mx
  | Mode_NA -> cond_incr (round_N true lx) mx

(** val overflow_to_inf : mode -> bool -> bool **)

let overflow_to_inf m s =
  match m with
  | Mode_ZR -> false
  | Mode_DN -> s
  | Mode_UP -> negb s
  | _ -> true

(** val binary_overflow : z -> z -> mode -> bool -> spec_float **)

let binary_overflow prec emax m s =
  if overflow_to_inf m s
  then S754_infinity s
  else S754_finite (s,
         (Z.to_pos (Z.sub (Z.pow (Zpos (XO XH)) prec) (Zpos XH))),
         (Z.sub emax prec))

(** val binary_fit_aux :
    z -> z -> mode -> bool -> positive -> z -> spec_float **)

let binary_fit_aux prec emax mode0 sx mx ex =
  if Z.leb ex (Z.sub emax prec)
  then S754_finite (sx, mx, ex)
  else binary_overflow prec emax mode0 sx

(** val binary_round_aux :
    z -> z -> mode -> bool -> z -> z -> location -> spec_float **)

let binary_round_aux prec emax mode0 sx mx ex lx =
  let (mrs', e') = shr_fexp prec emax mx ex lx in
  let (mrs'', e'') =
    shr_fexp prec emax
      (choice_mode mode0 sx mrs'.shr_m (loc_of_shr_record mrs')) e' Loc_Exact
  in
  (match mrs''.shr_m with
   | Z0 -> S754_zero sx
   | Zpos m -> binary_fit_aux prec emax mode0 sx m e''
   | Zneg _ -> S754_nan)

(** val bmult :
    z -> z -> mode -> binary_float -> binary_float -> binary_float **)

let bmult prec emax m x y =
  match x with
  | B754_zero sx ->
    (match y with
     | B754_zero sy -> B754_zero (xorb sx sy)
     | B754_finite (sy, _, _) -> B754_zero (xorb sx sy)
     | _ -> B754_nan)
  | B754_infinity sx ->
    (match y with
     | B754_infinity sy -> B754_infinity (xorb sx sy)
     | B754_finite (sy, _, _) -> B754_infinity (xorb sx sy)
     | _ -> B754_nan)
  | B754_nan -> B754_nan
  | B754_finite (sx, mx, ex) ->
    (match y with
     | B754_zero sy -> B754_zero (xorb sx sy)
     | B754_infinity sy -> B754_infinity (xorb sx sy)
     | B754_nan -> B754_nan
     | B754_finite (sy, my, ey) ->
       sF2B prec emax
         (binary_round_aux prec emax m (xorb sx sy) (Zpos
           (Coq_Pos.mul mx my)) (Z.add ex ey) Loc_Exact))

(** val shl_align_fexp : z -> z -> positive -> z -> positive * z **)

let shl_align_fexp prec emax mx ex =
  shl_align mx ex (fexp prec emax (Z.add (Zpos (digits2_pos mx)) ex))

(** val binary_round :
    z -> z -> mode -> bool -> positive -> z -> spec_float **)

let binary_round prec emax m sx mx ex =
  let (mz, ez) = shl_align_fexp prec emax mx ex in
  binary_round_aux prec emax m sx (Zpos mz) ez Loc_Exact

(** val binary_normalize :
    z -> z -> mode -> z -> z -> bool -> binary_float **)

let binary_normalize prec emax mode0 m e szero =
  match m with
  | Z0 -> B754_zero szero
  | Zpos m0 -> sF2B prec emax (binary_round prec emax mode0 false m0 e)
  | Zneg m0 -> sF2B prec emax (binary_round prec emax mode0 true m0 e)

(** val fplus_naive :
    bool -> positive -> z -> bool -> positive -> z -> z -> z **)

let fplus_naive sx mx ex sy my ey ez =
  Z.add (cond_Zopp sx (Zpos (fst (shl_align mx ex ez))))
    (cond_Zopp sy (Zpos (fst (shl_align my ey ez))))

(** val bplus :
    z -> z -> mode -> binary_float -> binary_float -> binary_float **)

let bplus prec emax m x y =
  match x with
  | B754_zero sx ->
    (match y with
     | B754_zero sy ->
       if eqb sx sy
       then x
       else (match m with
             | Mode_DN -> B754_zero true
             | _ -> B754_zero false)
     | B754_nan -> B754_nan
     | _ -> y)
  | B754_infinity sx ->
    (match y with
     | B754_infinity sy -> if eqb sx sy then x else B754_nan
     | B754_nan -> B754_nan
     | _ -> x)
  | B754_nan -> B754_nan
  | B754_finite (sx, mx, ex) ->
    (match y with
     | B754_zero _ -> x
     | B754_infinity _ -> y
     | B754_nan -> B754_nan
     | B754_finite (sy, my, ey) ->
       let ez = Z.min ex ey in
       binary_normalize prec emax m (fplus_naive sx mx ex sy my ey ez) ez
         (match m with
          | Mode_DN -> true
          | _ -> false))

(** val bminus :
    z -> z -> mode -> binary_float -> binary_float -> binary_float **)

let bminus prec emax m x y =
  match x with
  | B754_zero sx ->
    (match y with
     | B754_zero sy ->
       if eqb sx (negb sy)
       then x
       else (match m with
             | Mode_DN -> B754_zero true
             | _ -> B754_zero false)
     | B754_infinity sy -> B754_infinity (negb sy)
     | B754_nan -> B754_nan
     | B754_finite (sy, my, ey) -> B754_finite ((negb sy), my, ey))
  | B754_infinity sx ->
    (match y with
     | B754_infinity sy -> if eqb sx (negb sy) then x else B754_nan
     | B754_nan -> B754_nan
     | _ -> x)
  | B754_nan -> B754_nan
  | B754_finite (sx, mx, ex) ->
    (match y with
     | B754_zero _ -> x
     | B754_infinity sy -> B754_infinity (negb sy)
     | B754_nan -> B754_nan
     | B754_finite (sy, my, ey) ->
       let ez = Z.min ex ey in
       binary_normalize prec emax m (fplus_naive sx mx ex (negb sy) my ey ez)
         ez (match m with
             | Mode_DN -> true
             | _ -> false))

(** val bdiv :
    z -> z -> mode -> binary_float -> binary_float -> binary_float **)

let bdiv prec emax m x y =
  match x with
  | B754_zero sx ->
    (match y with
     | B754_infinity sy -> B754_zero (xorb sx sy)
     | B754_finite (sy, _, _) -> B754_zero (xorb sx sy)
     | _ -> B754_nan)
  | B754_infinity sx ->
    (match y with
     | B754_zero sy -> B754_infinity (xorb sx sy)
     | B754_finite (sy, _, _) -> B754_infinity (xorb sx sy)
     | _ -> B754_nan)
  | B754_nan -> B754_nan
  | B754_finite (sx, mx, ex) ->
    (match y with
     | B754_zero sy -> B754_infinity (xorb sx sy)
     | B754_infinity sy -> B754_zero (xorb sx sy)
     | B754_nan -> B754_nan
     | B754_finite (sy, my, ey) ->
       sF2B prec emax
         (let (p, lz) = sFdiv_core_binary prec emax (Zpos mx) ex (Zpos my) ey
          in
          let (mz, ez) = p in
          binary_round_aux prec emax m (xorb sx sy) mz ez lz))

type full_float =
| F754_zero of bool
| F754_infinity of bool
| F754_nan of bool * positive
| F754_finite of bool * positive * z

type binary_float0 =
| B754_zero0 of bool
| B754_infinity0 of bool
| B754_nan0 of bool * positive
| B754_finite0 of bool * positive * z

(** val b2BSN : z -> z -> binary_float0 -> binary_float **)

let b2BSN _ _ = function
| B754_zero0 s -> B754_zero s
| B754_infinity0 s -> B754_infinity s
| B754_nan0 (_, _) -> B754_nan
| B754_finite0 (s, m, e) -> B754_finite (s, m, e)

(** val fF2B : z -> z -> full_float -> binary_float0 **)

let fF2B _ _ = function
| F754_zero s -> B754_zero0 s
| F754_infinity s -> B754_infinity0 s
| F754_nan (b, pl) -> B754_nan0 (b, pl)
| F754_finite (s, m, e) -> B754_finite0 (s, m, e)

(** val bsign : z -> z -> binary_float0 -> bool **)

let bsign _ _ = function
| B754_zero0 s -> s
| B754_infinity0 s -> s
| B754_nan0 (s, _) -> s
| B754_finite0 (s, _, _) -> s

(** val is_nan : z -> z -> binary_float0 -> bool **)

let is_nan _ _ = function
| B754_nan0 (_, _) -> true
| _ -> false

(** val get_nan_pl : z -> z -> binary_float0 -> positive **)

let get_nan_pl _ _ = function
| B754_nan0 (_, pl) -> pl
| _ -> XH

(** val build_nan : z -> z -> binary_float0 -> binary_float0 **)

let build_nan prec emax x =
  B754_nan0 ((bsign prec emax x), (get_nan_pl prec emax x))

(** val bSN2B : z -> z -> binary_float0 -> binary_float -> binary_float0 **)

let bSN2B prec emax nan = function
| B754_zero s -> B754_zero0 s
| B754_infinity s -> B754_infinity0 s
| B754_nan -> build_nan prec emax nan
| B754_finite (s, m, e) -> B754_finite0 (s, m, e)

(** val bSN2B' : z -> z -> binary_float -> binary_float0 **)

let bSN2B' _ _ = function
| B754_zero s -> B754_zero0 s
| B754_infinity s -> B754_infinity0 s
| B754_nan -> assert false (* absurd case *)
| B754_finite (s, m, e) -> B754_finite0 (s, m, e)

(** val bcompare0 :
    z -> z -> binary_float0 -> binary_float0 -> comparison option **)

let bcompare0 prec emax f1 f2 =
  bcompare prec emax (b2BSN prec emax f1) (b2BSN prec emax f2)

(** val bmult0 :
    z -> z -> (binary_float0 -> binary_float0 -> binary_float0) -> mode ->
    binary_float0 -> binary_float0 -> binary_float0 **)

let bmult0 prec emax mult_nan m x y =
  bSN2B prec emax (mult_nan x y)
    (bmult prec emax m (b2BSN prec emax x) (b2BSN prec emax y))

(** val binary_normalize0 :
    z -> z -> mode -> z -> z -> bool -> binary_float0 **)

let binary_normalize0 prec emax mode0 m e szero =
  bSN2B' prec emax (binary_normalize prec emax mode0 m e szero)

(** val bplus0 :
    z -> z -> (binary_float0 -> binary_float0 -> binary_float0) -> mode ->
    binary_float0 -> binary_float0 -> binary_float0 **)

let bplus0 prec emax plus_nan m x y =
  bSN2B prec emax (plus_nan x y)
    (bplus prec emax m (b2BSN prec emax x) (b2BSN prec emax y))

(** val bminus0 :
    z -> z -> (binary_float0 -> binary_float0 -> binary_float0) -> mode ->
    binary_float0 -> binary_float0 -> binary_float0 **)

let bminus0 prec emax minus_nan m x y =
  bSN2B prec emax (minus_nan x y)
    (bminus prec emax m (b2BSN prec emax x) (b2BSN prec emax y))

(** val bdiv0 :
    z -> z -> (binary_float0 -> binary_float0 -> binary_float0) -> mode ->
    binary_float0 -> binary_float0 -> binary_float0 **)

let bdiv0 prec emax div_nan m x y =
  bSN2B prec emax (div_nan x y)
    (bdiv prec emax m (b2BSN prec emax x) (b2BSN prec emax y))

(** val join_bits : z -> z -> bool -> z -> z -> z **)

let join_bits mw ew s m e =
  Z.add (Z.shiftl (Z.add (if s then Z.pow (Zpos (XO XH)) ew else Z0) e) mw) m

(** val split_bits : z -> z -> z -> (bool * z) * z **)

let split_bits mw ew x =
  let mm = Z.pow (Zpos (XO XH)) mw in
  let em = Z.pow (Zpos (XO XH)) ew in
  (((Z.leb (Z.mul mm em) x), (Z.modulo x mm)), (Z.modulo (Z.div x mm) em))

(** val bits_of_binary_float : z -> z -> binary_float0 -> z **)

let bits_of_binary_float mw ew =
  let prec = Z.add mw (Zpos XH) in
  let emax = Z.pow (Zpos (XO XH)) (Z.sub ew (Zpos XH)) in
  (fun x ->
  match x with
  | B754_zero0 sx -> join_bits mw ew sx Z0 Z0
  | B754_infinity0 sx ->
    join_bits mw ew sx Z0 (Z.sub (Z.pow (Zpos (XO XH)) ew) (Zpos XH))
  | B754_nan0 (sx, plx) ->
    join_bits mw ew sx (Zpos plx) (Z.sub (Z.pow (Zpos (XO XH)) ew) (Zpos XH))
  | B754_finite0 (sx, mx, ex) ->
    let m = Z.sub (Zpos mx) (Z.pow (Zpos (XO XH)) mw) in
    if Z.leb Z0 m
    then join_bits mw ew sx m (Z.add (Z.sub ex (emin prec emax)) (Zpos XH))
    else join_bits mw ew sx (Zpos mx) Z0)

(** val binary_float_of_bits_aux : z -> z -> z -> full_float **)

let binary_float_of_bits_aux mw ew =
  let prec = Z.add mw (Zpos XH) in
  let emax = Z.pow (Zpos (XO XH)) (Z.sub ew (Zpos XH)) in
  (fun x ->
  let (p, ex) = split_bits mw ew x in
  let (sx, mx) = p in
  if zeq_bool ex Z0
  then (match mx with
        | Z0 -> F754_zero sx
        | Zpos px -> F754_finite (sx, px, (emin prec emax))
        | Zneg _ -> F754_nan (false, XH))
  else if zeq_bool ex (Z.sub (Z.pow (Zpos (XO XH)) ew) (Zpos XH))
       then (match mx with
             | Z0 -> F754_infinity sx
             | Zpos plx -> F754_nan (sx, plx)
             | Zneg _ -> F754_nan (false, XH))
       else (match Z.add mx (Z.pow (Zpos (XO XH)) mw) with
             | Zpos px ->
               F754_finite (sx, px,
                 (Z.sub (Z.add ex (emin prec emax)) (Zpos XH)))
             | _ -> F754_nan (false, XH)))

(** val binary_float_of_bits : z -> z -> z -> binary_float0 **)

let binary_float_of_bits mw ew x =
  let prec = Z.add mw (Zpos XH) in
  let emax = Z.pow (Zpos (XO XH)) (Z.sub ew (Zpos XH)) in
  fF2B prec emax (binary_float_of_bits_aux mw ew x)

type binary64 = binary_float0

(** val default_nan_pl64 : binary64 **)

let default_nan_pl64 =
  B754_nan0 (false,
    (iter_nat (fun x -> XO x) (S (S (S (S (S (S (S (S (S (S (S (S (S (S (S (S
      (S (S (S (S (S (S (S (S (S (S (S (S (S (S (S (S (S (S (S (S (S (S (S (S
      (S (S (S (S (S (S (S (S (S (S (S
      O))))))))))))))))))))))))))))))))))))))))))))))))))) XH))

(** val binop_nan_pl64 : binary64 -> binary64 -> binary64 **)

let binop_nan_pl64 f1 f2 =
  match f1 with
  | B754_nan0 (s1, pl1) -> B754_nan0 (s1, pl1)
  | _ ->
    (match f2 with
     | B754_nan0 (s2, pl2) -> B754_nan0 (s2, pl2)
     | _ -> default_nan_pl64)

(** val b64_plus : mode -> binary64 -> binary64 -> binary64 **)

let b64_plus =
  bplus0 (Zpos (XI (XO (XI (XO (XI XH)))))) (Zpos (XO (XO (XO (XO (XO (XO (XO
    (XO (XO (XO XH))))))))))) binop_nan_pl64

(** val b64_minus : mode -> binary64 -> binary64 -> binary64 **)

let b64_minus =
  bminus0 (Zpos (XI (XO (XI (XO (XI XH)))))) (Zpos (XO (XO (XO (XO (XO (XO
    (XO (XO (XO (XO XH))))))))))) binop_nan_pl64

(** val b64_mult : mode -> binary64 -> binary64 -> binary64 **)

let b64_mult =
  bmult0 (Zpos (XI (XO (XI (XO (XI XH)))))) (Zpos (XO (XO (XO (XO (XO (XO (XO
    (XO (XO (XO XH))))))))))) binop_nan_pl64

(** val b64_div : mode -> binary64 -> binary64 -> binary64 **)

let b64_div =
  bdiv0 (Zpos (XI (XO (XI (XO (XI XH)))))) (Zpos (XO (XO (XO (XO (XO (XO (XO
    (XO (XO (XO XH))))))))))) binop_nan_pl64

(** val b64_of_bits : z -> binary64 **)

let b64_of_bits =
  binary_float_of_bits (Zpos (XO (XO (XI (XO (XI XH)))))) (Zpos (XI (XI (XO
    XH))))

(** val bits_of_b64 : binary64 -> z **)

let bits_of_b64 =
  bits_of_binary_float (Zpos (XO (XO (XI (XO (XI XH)))))) (Zpos (XI (XI (XO
    XH))))

type f64 = binary64

(** val f64_of_bits : z -> f64 **)

let f64_of_bits =
  b64_of_bits

(** val f64_to_bits : f64 -> z **)

let f64_to_bits =
  bits_of_b64

(** val fadd : f64 -> f64 -> f64 **)

let fadd a b =
  b64_plus Mode_NE a b

(** val fsub : f64 -> f64 -> f64 **)

let fsub a b =
  b64_minus Mode_NE a b

(** val fmul : f64 -> f64 -> f64 **)

let fmul a b =
  b64_mult Mode_NE a b

(** val fdiv : f64 -> f64 -> f64 **)

let fdiv a b =
  b64_div Mode_NE a b

(** val f64_of_Z : z -> f64 **)

let f64_of_Z z0 =
  binary_normalize0 (Zpos (XI (XO (XI (XO (XI XH)))))) (Zpos (XO (XO (XO (XO
    (XO (XO (XO (XO (XO (XO XH))))))))))) Mode_NE z0 Z0 false

(** val f64_zero : f64 **)

let f64_zero =
  B754_zero0 false

(** val f64_one : f64 **)

let f64_one =
  f64_of_Z (Zpos XH)

(** val fcmp : f64 -> f64 -> comparison option **)

let fcmp a b =
  bcompare0 (Zpos (XI (XO (XI (XO (XI XH)))))) (Zpos (XO (XO (XO (XO (XO (XO
    (XO (XO (XO (XO XH))))))))))) a b

(** val feqb : f64 -> f64 -> bool **)

let feqb a b =
  match fcmp a b with
  | Some c -> (match c with
               | Eq -> true
               | _ -> false)
  | None -> false

(** val fltb : f64 -> f64 -> bool **)

let fltb a b =
  match fcmp a b with
  | Some c -> (match c with
               | Lt -> true
               | _ -> false)
  | None -> false

(** val fleb : f64 -> f64 -> bool **)

let fleb a b =
  match fcmp a b with
  | Some c -> (match c with
               | Gt -> false
               | _ -> true)
  | None -> false

(** val fgtb : f64 -> f64 -> bool **)

let fgtb a b =
  match fcmp a b with
  | Some c -> (match c with
               | Gt -> true
               | _ -> false)
  | None -> false

(** val fgeb : f64 -> f64 -> bool **)

let fgeb a b =
  match fcmp a b with
  | Some c -> (match c with
               | Lt -> false
               | _ -> true)
  | None -> false

(** val f64_is_nan : f64 -> bool **)

let f64_is_nan a =
  is_nan (Zpos (XI (XO (XI (XO (XI XH)))))) (Zpos (XO (XO (XO (XO (XO (XO (XO
    (XO (XO (XO XH))))))))))) a

(** val f64_canon_bits : f64 -> z **)

let f64_canon_bits a =
  if f64_is_nan a
  then Zpos (XO (XO (XO (XO (XO (XO (XO (XO (XO (XO (XO (XO (XO (XO (XO (XO
         (XO (XO (XO (XO (XO (XO (XO (XO (XO (XO (XO (XO (XO (XO (XO (XO (XO
         (XO (XO (XO (XO (XO (XO (XO (XO (XO (XO (XO (XO (XO (XO (XO (XO (XO
         (XO (XI (XI (XI (XI (XI (XI (XI (XI (XI (XI (XI
         XH))))))))))))))))))))))))))))))))))))))))))))))))))))))))))))))
  else f64_to_bits a

(** val pad_zeros : nat -> str -> str **)

let rec pad_zeros n0 s =
  match n0 with
  | O -> s
  | S n' -> (Npos (XO (XO (XO (XO (XI XH)))))) :: (pad_zeros n' s)

(** val strip_trailing_zeros_rev : str -> str **)

let rec strip_trailing_zeros_rev r = match r with
| [] -> r
| n0 :: r' ->
  (match n0 with
   | N0 -> r
   | Npos p ->
     (match p with
      | XO p0 ->
        (match p0 with
         | XO p1 ->
           (match p1 with
            | XO p2 ->
              (match p2 with
               | XO p3 ->
                 (match p3 with
                  | XI p4 ->
                    (match p4 with
                     | XH -> strip_trailing_zeros_rev r'
                     | _ -> r)
                  | _ -> r)
               | _ -> r)
            | _ -> r)
         | _ -> r)
      | _ -> r))

(** val strip_trailing_zeros : str -> str **)

let strip_trailing_zeros s =
  rev0 (strip_trailing_zeros_rev (rev0 s))

(** val show_f64_abs : positive -> z -> str **)

let show_f64_abs m e =
  if Z.leb Z0 e
  then show_Z (Z.mul (Zpos m) (Z.pow (Zpos (XO XH)) e))
  else let k = Z.to_nat (Z.opp e) in
       let d = Z.pow (Zpos (XO XH)) (Z.opp e) in
       let ip = Z.div (Zpos m) d in
       let fp = Z.modulo (Zpos m) d in
       let digs = show_Z (Z.mul fp (Z.pow (Zpos (XI (XO XH))) (Z.opp e))) in
       let frac = strip_trailing_zeros (pad_zeros (sub k (length digs)) digs)
       in
       (match frac with
        | [] -> show_Z ip
        | _ :: _ ->
          app (show_Z ip) ((Npos (XO (XI (XI (XI (XO XH)))))) :: frac))

(** val show_f64 : f64 -> str **)

let show_f64 = function
| B754_zero0 s ->
  if s
  then s2l (String ((Ascii (true, false, true, true, false, true, false,
         false)), (String ((Ascii (false, false, false, false, true, true,
         false, false)), EmptyString))))
  else s2l (String ((Ascii (false, false, false, false, true, true, false,
         false)), EmptyString))
| B754_infinity0 s ->
  if s
  then s2l (String ((Ascii (true, false, true, true, false, true, false,
         false)), (String ((Ascii (true, false, false, true, false, true,
         true, false)), (String ((Ascii (false, true, true, true, false,
         true, true, false)), (String ((Ascii (false, true, true, false,
         false, true, true, false)), EmptyString))))))))
  else s2l (String ((Ascii (true, false, false, true, false, true, true,
         false)), (String ((Ascii (false, true, true, true, false, true,
         true, false)), (String ((Ascii (false, true, true, false, false,
         true, true, false)), EmptyString))))))
| B754_nan0 (_, _) ->
  s2l (String ((Ascii (false, true, true, true, false, false, true, false)),
    (String ((Ascii (true, false, false, false, false, true, true, false)),
    (String ((Ascii (false, true, true, true, false, false, true, false)),
    EmptyString))))))
| B754_finite0 (s, m, e) ->
  app (if s then (Npos (XI (XO (XI (XI (XO XH)))))) :: [] else [])
    (show_f64_abs m e)

type term =
| TNil
| TAnon
| TAtom of str
| TFloat of f64
| TInt of z
| TVar of n * str
| TComplex of term list
| TList of term * term * n * bool
| TFun of str * term list

type opkind =
| OAnd
| OOr
| OTime
| ONot

type goal =
| GOp of opkind * goal list
| GBip of str * term list option
| GCall of term
| GNil

type 'a res =
| Ok of 'a
| Panic
| OutOfFuel

(** val bind : 'a1 res -> ('a1 -> 'a2 res) -> 'a2 res **)

let bind r f =
  match r with
  | Ok a -> f a
  | Panic -> Panic
  | OutOfFuel -> OutOfFuel

(** val term_eqb : term -> term -> bool **)

let rec term_eqb a b =
  match a with
  | TNil -> (match b with
             | TNil -> true
             | _ -> false)
  | TAnon -> (match b with
              | TAnon -> true
              | _ -> false)
  | TAtom s1 -> (match b with
                 | TAtom s2 -> str_eqb s1 s2
                 | _ -> false)
  | TFloat f1 -> (match b with
                  | TFloat f2 -> feqb f1 f2
                  | _ -> false)
  | TInt z1 -> (match b with
                | TInt z2 -> Z.eqb z1 z2
                | _ -> false)
  | TVar (i1, n1) ->
    (match b with
     | TVar (i2, n2) -> (&&) (N.eqb i1 i2) (str_eqb n1 n2)
     | _ -> false)
  | TComplex l1 ->
    (match b with
     | TComplex l2 ->
       let rec go l3 l4 =
         match l3 with
         | [] -> (match l4 with
                  | [] -> true
                  | _ :: _ -> false)
         | x :: l1' ->
           (match l4 with
            | [] -> false
            | y :: l2' -> (&&) (term_eqb x y) (go l1' l2'))
       in go l1 l2
     | _ -> false)
  | TList (t1, n1, c1, v1) ->
    (match b with
     | TList (t2, n2, c2, v2) ->
       (&&) ((&&) ((&&) (term_eqb t1 t2) (term_eqb n1 n2)) (N.eqb c1 c2))
         (eqb v1 v2)
     | _ -> false)
  | TFun (f1, l1) ->
    (match b with
     | TFun (f2, l2) ->
       (&&) (str_eqb f1 f2)
         (let rec go l3 l4 =
            match l3 with
            | [] -> (match l4 with
                     | [] -> true
                     | _ :: _ -> false)
            | x :: l1' ->
              (match l4 with
               | [] -> false
               | y :: l2' -> (&&) (term_eqb x y) (go l1' l2'))
          in go l1 l2)
     | _ -> false)

(** val is_list : term -> bool **)

let is_list = function
| TList (_, _, _, _) -> true
| _ -> false

(** val opkind_eqb : opkind -> opkind -> bool **)

let opkind_eqb a b =
  match a with
  | OAnd -> (match b with
             | OAnd -> true
             | _ -> false)
  | OOr -> (match b with
            | OOr -> true
            | _ -> false)
  | OTime -> (match b with
              | OTime -> true
              | _ -> false)
  | ONot -> (match b with
             | ONot -> true
             | _ -> false)

(** val terms_eqb : term list -> term list -> bool **)

let rec terms_eqb l1 l2 =
  match l1 with
  | [] -> (match l2 with
           | [] -> true
           | _ :: _ -> false)
  | x :: l1' ->
    (match l2 with
     | [] -> false
     | y :: l2' -> (&&) (term_eqb x y) (terms_eqb l1' l2'))

(** val goal_eqb : goal -> goal -> bool **)

let rec goal_eqb a b =
  match a with
  | GOp (k1, l1) ->
    (match b with
     | GOp (k2, l2) ->
       (&&) (opkind_eqb k1 k2)
         (let rec go l3 l4 =
            match l3 with
            | [] -> (match l4 with
                     | [] -> true
                     | _ :: _ -> false)
            | x :: l1' ->
              (match l4 with
               | [] -> false
               | y :: l2' -> (&&) (goal_eqb x y) (go l1' l2'))
          in go l1 l2)
     | _ -> false)
  | GBip (f1, terms) ->
    (match terms with
     | Some t1 ->
       (match b with
        | GBip (f2, terms0) ->
          (match terms0 with
           | Some t2 -> (&&) (str_eqb f1 f2) (terms_eqb t1 t2)
           | None -> false)
        | _ -> false)
     | None ->
       (match b with
        | GBip (f2, terms0) ->
          (match terms0 with
           | Some _ -> false
           | None -> str_eqb f1 f2)
        | _ -> false))
  | GCall t1 -> (match b with
                 | GCall t2 -> term_eqb t1 t2
                 | _ -> false)
  | GNil -> (match b with
             | GNil -> true
             | _ -> false)

type subst = term option list

(** val ss_get : subst -> n -> term option **)

let ss_get ss id =
  match nth_error ss (N.to_nat id) with
  | Some o -> o
  | None -> None

(** val ss_set_nat : subst -> nat -> term -> subst **)

let rec ss_set_nat ss i t =
  match i with
  | O -> (match ss with
          | [] -> (Some t) :: []
          | _ :: r -> (Some t) :: r)
  | S i' ->
    (match ss with
     | [] -> None :: (ss_set_nat [] i' t)
     | x :: r -> x :: (ss_set_nat r i' t))

(** val ss_set : subst -> n -> term -> subst **)

let ss_set ss id t =
  ss_set_nat ss (N.to_nat id) t

(** val get_ground_term : nat -> term -> subst -> term option res **)

let rec get_ground_term fuel t ss =
  match t with
  | TVar (id, _) ->
    (match ss_get ss id with
     | Some t' ->
       (match fuel with
        | O -> OutOfFuel
        | S fuel' -> get_ground_term fuel' t' ss)
     | None -> Ok None)
  | _ -> Ok (Some t)

(** val is_constant : term -> bool **)

let is_constant = function
| TAtom _ -> true
| TFloat _ -> true
| TInt _ -> true
| _ -> false

(** val get_constant : nat -> term -> subst -> term option res **)

let get_constant fuel t ss =
  match t with
  | TAtom _ -> Ok (Some t)
  | TFloat _ -> Ok (Some t)
  | TInt _ -> Ok (Some t)
  | TVar (_, _) ->
    bind (get_ground_term fuel t ss) (fun g -> Ok
      (match g with
       | Some gt -> if is_constant gt then Some gt else None
       | None -> None))
  | _ -> Ok None

(** val get_list : nat -> term -> subst -> term option res **)

let get_list fuel t ss =
  match t with
  | TVar (_, _) ->
    bind (get_ground_term fuel t ss) (fun g -> Ok
      (match g with
       | Some gt -> if is_list gt then Some gt else None
       | None -> None))
  | TList (_, _, _, _) -> Ok (Some t)
  | _ -> Ok None

(** val get_complex : nat -> term -> subst -> term option res **)

let get_complex fuel t ss =
  match t with
  | TVar (_, _) ->
    bind (get_ground_term fuel t ss) (fun g -> Ok
      (match g with
       | Some t0 ->
         (match t0 with
          | TComplex l -> Some (TComplex l)
          | _ -> None)
       | None -> None))
  | TComplex _ -> Ok (Some t)
  | _ -> Ok None

(** val is_ground_variable_id : nat -> n -> subst -> bool res **)

let rec is_ground_variable_id fuel id ss =
  match ss_get ss id with
  | Some t ->
    (match t with
     | TVar (id2, _) ->
       (match fuel with
        | O -> OutOfFuel
        | S fuel' -> is_ground_variable_id fuel' id2 ss)
     | _ -> Ok true)
  | None -> Ok false

(** val is_ground_variable : nat -> term -> subst -> bool res **)

let is_ground_variable fuel t ss =
  match t with
  | TVar (id, _) -> is_ground_variable_id fuel id ss
  | _ -> Panic

type cmpop =
| CEq
| CLt
| CLe
| CGt
| CGe

(** val cmp_holds : cmpop -> comparison -> bool **)

let cmp_holds op c =
  match op with
  | CEq -> (match c with
            | Eq -> true
            | _ -> false)
  | CLt -> (match c with
            | Lt -> true
            | _ -> false)
  | CLe -> (match c with
            | Gt -> false
            | _ -> true)
  | CGt -> (match c with
            | Gt -> true
            | _ -> false)
  | CGe -> (match c with
            | Lt -> false
            | _ -> true)

(** val fcmp_holds : cmpop -> f64 -> f64 -> bool **)

let fcmp_holds op a b =
  match op with
  | CEq -> feqb a b
  | CLt -> fltb a b
  | CLe -> fleb a b
  | CGt -> fgtb a b
  | CGe -> fgeb a b

(** val compare_constants : cmpop -> term -> term -> bool **)

let compare_constants op l r =
  match l with
  | TAtom s1 ->
    (match r with
     | TAtom s2 -> cmp_holds op (str_cmp s1 s2)
     | _ -> false)
  | TFloat f1 ->
    (match r with
     | TFloat f2 -> fcmp_holds op f1 f2
     | TInt i -> fcmp_holds op f1 (f64_of_Z i)
     | _ -> false)
  | TInt i ->
    (match r with
     | TFloat f2 -> fcmp_holds op (f64_of_Z i) f2
     | TInt i2 -> cmp_holds op (Z.compare i i2)
     | _ -> false)
  | _ -> false

(** val get_two_constants :
    nat -> term list -> subst -> (term * term) option res **)

let get_two_constants fuel terms ss =
  match terms with
  | [] -> Panic
  | t0 :: rest ->
    bind (get_constant fuel t0 ss) (fun l ->
      match l with
      | Some l' ->
        (match rest with
         | [] -> Panic
         | t1 :: _ ->
           bind (get_constant fuel t1 ss) (fun r -> Ok
             (match r with
              | Some r' -> Some (l', r')
              | None -> None)))
      | None -> Ok None)

(** val bip_compare :
    nat -> cmpop -> term list option -> subst -> subst option res **)

let bip_compare fuel op terms ss =
  match terms with
  | Some ts ->
    bind (get_two_constants fuel ts ss) (fun two -> Ok
      (match two with
       | Some p ->
         let (l, r) = p in if compare_constants op l r then Some ss else None
       | None -> None))
  | None -> Ok None

type snumber =
| NFloat of f64
| NInt of z

(** val i64_min : z **)

let i64_min =
  Z.opp (Z.pow (Zpos (XO XH)) (Zpos (XI (XI (XI (XI (XI XH)))))))

(** val i64_max : z **)

let i64_max =
  Z.sub (Z.pow (Zpos (XO XH)) (Zpos (XI (XI (XI (XI (XI XH))))))) (Zpos XH)

(** val in_i64 : z -> bool **)

let in_i64 z0 =
  (&&) (Z.leb i64_min z0) (Z.leb z0 i64_max)

(** val chk : z -> z res **)

let chk z0 =
  if in_i64 z0 then Ok z0 else Panic

(** val get_numbers :
    nat -> term list -> subst -> (snumber list * bool) res **)

let rec get_numbers fuel terms ss =
  match terms with
  | [] -> Ok ([], false)
  | t :: rest ->
    bind (get_ground_term fuel t ss) (fun g ->
      match g with
      | Some t0 ->
        (match t0 with
         | TFloat f ->
           bind (get_numbers fuel rest ss) (fun r ->
             let (ns, _) = r in Ok (((NFloat f) :: ns), true))
         | TInt i ->
           bind (get_numbers fuel rest ss) (fun r ->
             let (ns, hf) = r in Ok (((NInt i) :: ns), hf))
         | _ -> Panic)
      | None -> Panic)

(** val get_integers : snumber list -> z list **)

let rec get_integers = function
| [] -> []
| s :: r ->
  (match s with
   | NFloat _ -> get_integers r
   | NInt i -> i :: (get_integers r))

(** val to_float : snumber -> f64 **)

let to_float = function
| NFloat f -> f
| NInt i -> f64_of_Z i

(** val get_floats : snumber list -> f64 list **)

let get_floats ns =
  map to_float ns

type arithop =
| AAdd
| ASub
| AMul
| ADiv

(** val int_step : arithop -> z -> z -> z res **)

let int_step op acc x =
  match op with
  | AAdd -> chk (Z.add acc x)
  | ASub -> chk (Z.sub acc x)
  | AMul -> chk (Z.mul acc x)
  | ADiv -> if Z.eqb x Z0 then Panic else chk (Z.quot acc x)

(** val float_step : arithop -> f64 -> f64 -> f64 **)

let float_step op acc x =
  match op with
  | AAdd -> fadd acc x
  | ASub -> fsub acc x
  | AMul -> fmul acc x
  | ADiv -> fdiv acc x

(** val int_fold : arithop -> z -> z list -> z res **)

let rec int_fold op acc = function
| [] -> Ok acc
| x :: r -> bind (int_step op acc x) (fun a -> int_fold op a r)

(** val float_fold : arithop -> f64 -> f64 list -> f64 **)

let float_fold op acc xs =
  fold_left (float_step op) xs acc

(** val evaluate : nat -> arithop -> term list -> subst -> term res **)

let evaluate fuel op args ss =
  bind (get_numbers fuel args ss) (fun r ->
    let (ns, has_float) = r in
    if has_float
    then let fs = get_floats ns in
         (match op with
          | AAdd -> Ok (TFloat (float_fold op f64_zero fs))
          | AMul -> Ok (TFloat (float_fold op f64_one fs))
          | _ ->
            (match fs with
             | [] -> Panic
             | first :: rest -> Ok (TFloat (float_fold op first rest))))
    else let is = get_integers ns in
         (match op with
          | AAdd -> bind (int_fold op Z0 is) (fun v -> Ok (TInt v))
          | AMul -> bind (int_fold op (Zpos XH) is) (fun v -> Ok (TInt v))
          | _ ->
            (match is with
             | [] -> Panic
             | first :: rest ->
               bind (int_fold op first rest) (fun v -> Ok (TInt v)))))
