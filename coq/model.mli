
val xorb : bool -> bool -> bool

val negb : bool -> bool

type nat =
| O
| S of nat

val fst : ('a1 * 'a2) -> 'a1

val length : 'a1 list -> nat

val app : 'a1 list -> 'a1 list -> 'a1 list

type comparison =
| Eq
| Lt
| Gt

val compOpp : comparison -> comparison

type 'a sig0 = 'a
  (* singleton inductive, whose constructor was exist *)

type uint =
| Nil
| D0 of uint
| D1 of uint
| D2 of uint
| D3 of uint
| D4 of uint
| D5 of uint
| D6 of uint
| D7 of uint
| D8 of uint
| D9 of uint

val revapp : uint -> uint -> uint

val rev : uint -> uint

module Little :
 sig
  val double : uint -> uint

  val succ_double : uint -> uint
 end

val add : nat -> nat -> nat

val sub : nat -> nat -> nat

val eqb : bool -> bool -> bool

module Nat :
 sig
  val add : nat -> nat -> nat
 end

val nth_error : 'a1 list -> nat -> 'a1 option

val rev0 : 'a1 list -> 'a1 list

val map : ('a1 -> 'a2) -> 'a1 list -> 'a2 list

val fold_left : ('a1 -> 'a2 -> 'a1) -> 'a2 list -> 'a1 -> 'a1

type positive =
| XI of positive
| XO of positive
| XH

type n =
| N0
| Npos of positive

type z =
| Z0
| Zpos of positive
| Zneg of positive

module Pos :
 sig
  type mask =
  | IsNul
  | IsPos of positive
  | IsNeg
 end

module Coq_Pos :
 sig
  val succ : positive -> positive

  val add : positive -> positive -> positive

  val add_carry : positive -> positive -> positive

  val pred_double : positive -> positive

  type mask = Pos.mask =
  | IsNul
  | IsPos of positive
  | IsNeg

  val succ_double_mask : mask -> mask

  val double_mask : mask -> mask

  val double_pred_mask : positive -> mask

  val sub_mask : positive -> positive -> mask

  val sub_mask_carry : positive -> positive -> mask

  val mul : positive -> positive -> positive

  val iter : ('a1 -> 'a1) -> 'a1 -> positive -> 'a1

  val div2 : positive -> positive

  val div2_up : positive -> positive

  val compare_cont : comparison -> positive -> positive -> comparison

  val compare : positive -> positive -> comparison

  val eqb : positive -> positive -> bool

  val iter_op : ('a1 -> 'a1 -> 'a1) -> positive -> 'a1 -> 'a1

  val to_nat : positive -> nat

  val of_succ_nat : nat -> positive

  val to_little_uint : positive -> uint

  val to_uint : positive -> uint
 end

module N :
 sig
  val succ_double : n -> n

  val double : n -> n

  val add : n -> n -> n

  val sub : n -> n -> n

  val mul : n -> n -> n

  val compare : n -> n -> comparison

  val eqb : n -> n -> bool

  val leb : n -> n -> bool

  val pos_div_eucl : positive -> n -> n * n

  val to_nat : n -> nat

  val of_nat : nat -> n
 end

type ascii =
| Ascii of bool * bool * bool * bool * bool * bool * bool * bool

val n_of_digits : bool list -> n

val n_of_ascii : ascii -> n

module Z :
 sig
  val double : z -> z

  val succ_double : z -> z

  val pred_double : z -> z

  val pos_sub : positive -> positive -> z

  val add : z -> z -> z

  val opp : z -> z

  val sub : z -> z -> z

  val mul : z -> z -> z

  val pow_pos : z -> positive -> z

  val pow : z -> z -> z

  val compare : z -> z -> comparison

  val leb : z -> z -> bool

  val ltb : z -> z -> bool

  val eqb : z -> z -> bool

  val max : z -> z -> z

  val min : z -> z -> z

  val to_nat : z -> nat

  val of_N : n -> z

  val to_pos : z -> positive

  val pos_div_eucl : positive -> z -> z * z

  val div_eucl : z -> z -> z * z

  val div : z -> z -> z

  val modulo : z -> z -> z

  val quotrem : z -> z -> z * z

  val quot : z -> z -> z

  val even : z -> bool

  val div2 : z -> z

  val shiftl : z -> z -> z
 end

val zeq_bool : z -> z -> bool

type string =
| EmptyString
| String of ascii * string

val shift_pos : positive -> positive -> positive

type str = n list

val s2l : string -> str

val str_eqb : str -> str -> bool

val str_cmp : str -> str -> comparison

val uint_digits : uint -> str

val show_N : n -> str

val show_Z : z -> str

type spec_float =
| S754_zero of bool
| S754_infinity of bool
| S754_nan
| S754_finite of bool * positive * z

val emin : z -> z -> z

val fexp : z -> z -> z -> z

val digits2_pos : positive -> positive

val zdigits2 : z -> z

val iter_pos : ('a1 -> 'a1) -> positive -> 'a1 -> 'a1

type location =
| Loc_Exact
| Loc_Inexact of comparison

type shr_record = { shr_m : z; shr_r : bool; shr_s : bool }

val shr_1 : shr_record -> shr_record

val loc_of_shr_record : shr_record -> location

val shr_record_of_loc : z -> location -> shr_record

val shr : shr_record -> z -> z -> shr_record * z

val shr_fexp : z -> z -> z -> z -> location -> shr_record * z

val shl_align : positive -> z -> z -> positive * z

val sFcompare : spec_float -> spec_float -> comparison option

val cond_Zopp : bool -> z -> z

val new_location_even : z -> z -> location

val new_location_odd : z -> z -> location

val new_location : z -> z -> location

val sFdiv_core_binary : z -> z -> z -> z -> z -> z -> (z * z) * location

val iter_nat : ('a1 -> 'a1) -> nat -> 'a1 -> 'a1

val cond_incr : bool -> z -> z

val round_sign_DN : bool -> location -> bool

val round_sign_UP : bool -> location -> bool

val round_N : bool -> location -> bool

type binary_float =
| B754_zero of bool
| B754_infinity of bool
| B754_nan
| B754_finite of bool * positive * z

val sF2B : z -> z -> spec_float -> binary_float

val b2SF : z -> z -> binary_float -> spec_float

val bcompare : z -> z -> binary_float -> binary_float -> comparison option

type mode =
| Mode_NE
| Mode_ZR
| Mode_DN
| Mode_UP
| Mode_NA

val choice_mode : mode -> bool -> z -> location -> z

val overflow_to_inf : mode -> bool -> bool

val binary_overflow : z -> z -> mode -> bool -> spec_float

val binary_fit_aux : z -> z -> mode -> bool -> positive -> z -> spec_float

val binary_round_aux :
  z -> z -> mode -> bool -> z -> z -> location -> spec_float

val bmult : z -> z -> mode -> binary_float -> binary_float -> binary_float

val shl_align_fexp : z -> z -> positive -> z -> positive * z

val binary_round : z -> z -> mode -> bool -> positive -> z -> spec_float

val binary_normalize : z -> z -> mode -> z -> z -> bool -> binary_float

val fplus_naive : bool -> positive -> z -> bool -> positive -> z -> z -> z

val bplus : z -> z -> mode -> binary_float -> binary_float -> binary_float

val bminus : z -> z -> mode -> binary_float -> binary_float -> binary_float

val bdiv : z -> z -> mode -> binary_float -> binary_float -> binary_float

type full_float =
| F754_zero of bool
| F754_infinity of bool
| F754_nan of bool * positive
| F754_finite of bool * positive * z

type binary_float0 =
| B754_zero0 of bool
| B754_infinity0 of bool
| B754_nan0 of bool * positive
| B754_finite0 of bool * positive * z

val b2BSN : z -> z -> binary_float0 -> binary_float

val fF2B : z -> z -> full_float -> binary_float0

val bsign : z -> z -> binary_float0 -> bool

val is_nan : z -> z -> binary_float0 -> bool

val get_nan_pl : z -> z -> binary_float0 -> positive

val build_nan : z -> z -> binary_float0 -> binary_float0

val bSN2B : z -> z -> binary_float0 -> binary_float -> binary_float0

val bSN2B' : z -> z -> binary_float -> binary_float0

val bcompare0 : z -> z -> binary_float0 -> binary_float0 -> comparison option

val bmult0 :
  z -> z -> (binary_float0 -> binary_float0 -> binary_float0) -> mode ->
  binary_float0 -> binary_float0 -> binary_float0

val binary_normalize0 : z -> z -> mode -> z -> z -> bool -> binary_float0

val bplus0 :
  z -> z -> (binary_float0 -> binary_float0 -> binary_float0) -> mode ->
  binary_float0 -> binary_float0 -> binary_float0

val bminus0 :
  z -> z -> (binary_float0 -> binary_float0 -> binary_float0) -> mode ->
  binary_float0 -> binary_float0 -> binary_float0

val bdiv0 :
  z -> z -> (binary_float0 -> binary_float0 -> binary_float0) -> mode ->
  binary_float0 -> binary_float0 -> binary_float0

val join_bits : z -> z -> bool -> z -> z -> z

val split_bits : z -> z -> z -> (bool * z) * z

val bits_of_binary_float : z -> z -> binary_float0 -> z

val binary_float_of_bits_aux : z -> z -> z -> full_float

val binary_float_of_bits : z -> z -> z -> binary_float0

type binary64 = binary_float0

val default_nan_pl64 : binary64

val binop_nan_pl64 : binary64 -> binary64 -> binary64

val b64_plus : mode -> binary64 -> binary64 -> binary64

val b64_minus : mode -> binary64 -> binary64 -> binary64

val b64_mult : mode -> binary64 -> binary64 -> binary64

val b64_div : mode -> binary64 -> binary64 -> binary64

val b64_of_bits : z -> binary64

val bits_of_b64 : binary64 -> z

type f64 = binary64

val f64_of_bits : z -> f64

val f64_to_bits : f64 -> z

val fadd : f64 -> f64 -> f64

val fsub : f64 -> f64 -> f64

val fmul : f64 -> f64 -> f64

val fdiv : f64 -> f64 -> f64

val f64_of_Z : z -> f64

val f64_zero : f64

val f64_one : f64

val fcmp : f64 -> f64 -> comparison option

val feqb : f64 -> f64 -> bool

val fltb : f64 -> f64 -> bool

val fleb : f64 -> f64 -> bool

val fgtb : f64 -> f64 -> bool

val fgeb : f64 -> f64 -> bool

val f64_is_nan : f64 -> bool

val f64_canon_bits : f64 -> z

val pad_zeros : nat -> str -> str

val strip_trailing_zeros_rev : str -> str

val strip_trailing_zeros : str -> str

val show_f64_abs : positive -> z -> str

val show_f64 : f64 -> str

type term =
| TNil
| TAnon
| TAtom of str
| TFloat of f64
| TInt of z
| TVar of n * str
| TComplex of term list
| TList of term * term * n * bool
| TFun of str * term list

type opkind =
| OAnd
| OOr
| OTime
| ONot

type goal =
| GOp of opkind * goal list
| GBip of str * term list option
| GCall of term
| GNil

type 'a res =
| Ok of 'a
| Panic
| OutOfFuel

val bind : 'a1 res -> ('a1 -> 'a2 res) -> 'a2 res

val term_eqb : term -> term -> bool

val is_list : term -> bool

val opkind_eqb : opkind -> opkind -> bool

val terms_eqb : term list -> term list -> bool

val goal_eqb : goal -> goal -> bool

type subst = term option list

val ss_get : subst -> n -> term option

val ss_set_nat : subst -> nat -> term -> subst

val ss_set : subst -> n -> term -> subst

val get_ground_term : nat -> term -> subst -> term option res

val is_constant : term -> bool

val get_constant : nat -> term -> subst -> term option res

val get_list : nat -> term -> subst -> term option res

val get_complex : nat -> term -> subst -> term option res

val is_ground_variable_id : nat -> n -> subst -> bool res

val is_ground_variable : nat -> term -> subst -> bool res

type cmpop =
| CEq
| CLt
| CLe
| CGt
| CGe

val cmp_holds : cmpop -> comparison -> bool

val fcmp_holds : cmpop -> f64 -> f64 -> bool

val compare_constants : cmpop -> term -> term -> bool

val get_two_constants : nat -> term list -> subst -> (term * term) option res

val bip_compare :
  nat -> cmpop -> term list option -> subst -> subst option res

type snumber =
| NFloat of f64
| NInt of z

val i64_min : z

val i64_max : z

val in_i64 : z -> bool

val chk : z -> z res

val get_numbers : nat -> term list -> subst -> (snumber list * bool) res

val get_integers : snumber list -> z list

val to_float : snumber -> f64

val get_floats : snumber list -> f64 list

type arithop =
| AAdd
| ASub
| AMul
| ADiv

val int_step : arithop -> z -> z -> z res

val float_step : arithop -> f64 -> f64 -> f64

val int_fold : arithop -> z -> z list -> z res

val float_fold : arithop -> f64 -> f64 list -> f64

val evaluate : nat -> arithop -> term list -> subst -> term res
