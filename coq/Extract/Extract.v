(* Extraction of the executable model and specifications.  Only ExtrOcamlBasic is used:
   bool/option/unit/list/prod/sumbool map to OCaml's own types; Z, N, positive and nat stay
   Coq's inductive types.  No Extract Constant / Extract Inductive directive of our own. *)
From Coq Require Import Extraction ExtrOcamlBasic.
From Suiron Require Import Model.Str Model.Float Model.Term Model.Subst Model.Compare Model.Arith Model.Show Model.Lists Model.Unify Model.Builtins Model.Rename Model.Solve Model.Api Model.Timer Spec.SpecSolve Spec.SpecLazy Spec.SpecCut Model.Reader Spec.SpecLoad Model.Tokenizer Model.ParseRule Model.ShowGoal Model.ShowKb Model.ParseTerm Model.ParseGoal.
Extraction Language OCaml.
Extraction "model.ml"
  Z.add Z.mul Z.opp Z.of_N N.add N.mul N.of_nat Nat.add Z.compare N.compare
  show_Z show_N f64_of_bits f64_canon_bits show_f64
  term_eqb goal_eqb
  ss_get ss_set is_bound get_binding get_ground_term get_constant get_list get_complex is_ground_variable
  bip_compare evaluate
  show_term term_key make_linked_list make_list_of_terms link_front count_terms get_terms
  unify evaluate_join eval_function replace_variables filter run_bip format_for_print_pred format_slist
  rename_term rename_terms rename_goal rename_rule add_rules get_rule make_query kb_get
  world0 api_make_query api_parse_query api_parse_rule goal_get_ground_term op_len op_get_subgoal tinit tstep tobs make_base_node make_node next solve solve_all query_stopped count_rules format_solution
  sem query_events answers_of output_of answers canswers
  strip_comments_at strip_comments check_last_char trim_error_line unmatched_bracket separate_rules read_facts_and_rules load_kb_from_file render legal wf_text expected
  tokenize token_tree generate_goal index_of_neck parse_rule show_goal show_rule show_infix format_kb format_ss
  parse_term parse_arguments parse_linked_list parse_complex parse_function parse_query parse_subgoal check_infix check_arithmetic_infix make_logic_var check_quotes indices_of_parentheses parse_i64 parse_f64.
