(* More search fuel never changes a finished result: if `next` (and_loop, call_loop) returns Ok
   with some fuel, it returns the same with any larger fuel. *)
From Coq Require Import Lia.
From Suiron Require Import Model.Term Model.Subst Model.Show Model.Lists Model.Arith Model.Unify
  Model.Compare Model.Builtins Model.Rename Model.Solve.
Open Scope N_scope.

Section Mono.
  Variable kb : kbase.
  Variable bf : nat.

  Definition le1 (n1 n2 : node -> world -> res step_result) : Prop :=
    forall nd w r, n1 nd w = Ok r -> n2 nd w = Ok r.
  Definition le_and (a1 a2 : subst -> bool -> bool -> option node -> option node ->
                             option (list goal) -> bool -> world -> res step_result) : Prop :=
    forall ss nobt more head tail optail acc w r,
      a1 ss nobt more head tail optail acc w = Ok r -> a2 ss nobt more head tail optail acc w = Ok r.
  Definition le_call (c1 c2 : term -> subst -> bool -> option node -> N -> N -> world -> res step_result) : Prop :=
    forall t ss nobt child idx n w r,
      c1 t ss nobt child idx n w = Ok r -> c2 t ss nobt child idx n w = Ok r.

  Ltac step H E n1 n2 Hn :=
    match type of H with
    | bind (n1 ?a ?b) _ = Ok _ =>
        destruct (n1 a b) as [[[[?x ?o] ?c] ?w]| |] eqn:E; cbn [bind] in H; try discriminate;
        rewrite (Hn _ _ _ E); cbn [bind]
    end.

  Lemma next_body_mono n1 n2 a1 a2 c1 c2 :
    le1 n1 n2 -> le_and a1 a2 -> le_call c1 c2 ->
    le1 (next_body kb bf n1 a1 c1) (next_body kb bf n2 a2 c2).
  Proof.
    intros Hn Ha Hc nd w r H. unfold next_body in *.
    destruct (node_nobt nd); [exact H|].
    destruct nd as [t ss nobt child idx n|k ss nobt more head tail optail|fn ts ss nobt more].
    - destruct child as [c0|]; [|now apply Hc].
      step H E n1 n2 Hn. destruct o; [exact H|now apply Hc].
    - destruct k.
      + destruct tail as [t0|]; [|now apply Ha].
        step H E n1 n2 Hn. destruct o; [exact H|now apply Ha].
      + destruct tail as [t0|].
        * step H E n1 n2 Hn. exact H.
        * destruct head as [h|]; [|exact H].
          step H E n1 n2 Hn. destruct o; [exact H|].
          destruct optail as [tl|]; [|exact H].
          destruct (length tl =? 0)%nat; [exact H|]. destruct (nobt || c); [exact H|].
          destruct (make_node kb (GOp OOr tl) ss w0) as [[t1 w2]| |]; cbn [bind] in *; try discriminate.
          step H E2 n1 n2 Hn. exact H.
      + destruct (negb more); [exact H|]. destruct head as [h|]; [|discriminate].
        step H E n1 n2 Hn. exact H.
      + destruct (negb more); [exact H|]. destruct head as [h|]; [|discriminate].
        step H E n1 n2 Hn. exact H.
    - exact H.
  Qed.

  Lemma and_body_mono n1 n2 a1 a2 :
    le1 n1 n2 -> le_and a1 a2 -> le_and (and_body kb n1 a1) (and_body kb n2 a2).
  Proof.
    intros Hn Ha ss nobt more head tail optail acc w r H. unfold and_body in *.
    destruct head as [h|]; [|exact H].
    step H E n1 n2 Hn. destruct o; [|exact H].
    destruct optail as [tl|]; [|exact H].
    destruct (length tl =? 0)%nat; [exact H|].
    destruct (make_node kb (GOp OAnd tl) s w0) as [[t1 w2]| |]; cbn [bind] in *; try discriminate.
    step H E2 n1 n2 Hn. destruct o; [exact H|now apply Ha].
  Qed.

  Lemma call_body_mono n1 n2 c1 c2 :
    le1 n1 n2 -> le_call c1 c2 -> le_call (call_body kb bf n1 c1) (call_body kb bf n2 c2).
  Proof.
    intros Hn Hc t ss nobt child idx n w r H. unfold call_body in *.
    destruct nobt; [exact H|]. destruct (n <=? idx); [exact H|].
    destruct (term_key t) as [key| |]; cbn [bind] in *; try discriminate.
    destruct (get_rule kb key idx (next_id w)) as [[r0 ctr]| |]; cbn [bind] in *; try discriminate.
    destruct (unify bf (r_head r0) t ss) as [[s|]| |]; cbn [bind] in *; try discriminate.
    - destruct (is_gnil (r_body r0)); [exact H|].
      destruct (make_node kb (r_body r0) s (w_set_id w ctr)) as [[c0 w2]| |]; cbn [bind] in *; try discriminate.
      step H E2 n1 n2 Hn. destruct o; [exact H|now apply Hc].
    - now apply Hc.
  Qed.

  Lemma mono_step : forall f,
    le1 (next kb bf f) (next kb bf (S f)) /\
    le_and (and_loop kb bf f) (and_loop kb bf (S f)) /\
    le_call (call_loop kb bf f) (call_loop kb bf (S f)).
  Proof.
    induction f as [|f (IHn & IHa & IHc)].
    - split; [|split]; red; intros; discriminate.
    - split; [|split].
      + intros nd w r H. rewrite next_S in *. eapply next_body_mono; eauto.
      + intros ss nobt more head tail optail acc w r H. rewrite and_loop_S in *. eapply and_body_mono; eauto.
      + intros t ss nobt child idx n w r H. rewrite call_loop_S in *. eapply call_body_mono; eauto.
  Qed.

  Theorem next_mono : forall f f' nd w r, (f <= f')%nat -> next kb bf f nd w = Ok r -> next kb bf f' nd w = Ok r.
  Proof.
    intros f f' nd w r Hle H. induction Hle as [|f' _ IH]; [exact H|]. now apply (proj1 (mono_step f')).
  Qed.
  Theorem and_loop_mono : forall f f' ss nobt more head tail optail acc w r, (f <= f')%nat ->
    and_loop kb bf f ss nobt more head tail optail acc w = Ok r ->
    and_loop kb bf f' ss nobt more head tail optail acc w = Ok r.
  Proof.
    intros f f' ss nobt more head tail optail acc w r Hle H. induction Hle as [|f' _ IH]; [exact H|].
    now apply (proj1 (proj2 (mono_step f'))).
  Qed.
  Theorem call_loop_mono : forall f f' t ss nobt child idx n w r, (f <= f')%nat ->
    call_loop kb bf f t ss nobt child idx n w = Ok r -> call_loop kb bf f' t ss nobt child idx n w = Ok r.
  Proof.
    intros f f' t ss nobt child idx n w r Hle H. induction Hle as [|f' _ IH]; [exact H|].
    now apply (proj2 (proj2 (mono_step f'))).
  Qed.
End Mono.
