(* C15-C17: the list builders build exactly the given elements; the traversal shared by
   count / append / include / exclude / join visits exactly the elements of the list. *)
From Coq Require Import Lia.
From Suiron Require Import Model.Term Model.Subst Model.Show Model.Lists Model.Arith Model.Unify
  Model.Compare Model.Builtins Spec.SpecCompare Spec.SpecLists Proofs.CompareProofs.
Open Scope N_scope.

(* ---------- the view ---------- *)
Lemma elems_empty : elems empty_list = Some ([], None).
Proof. reflexivity. Qed.

Lemma is_empty_list_eq t : is_empty_list t = true -> t = empty_list.
Proof.
  destruct t as [| | | | | | |a n c tv|]; try discriminate. simpl.
  destruct a; try discriminate. destruct n; try discriminate.
  destruct c; try discriminate. destruct tv; try discriminate. reflexivity.
Qed.

Lemma elems_cons x nx c xs tl :
  is_nil x = false -> elems nx = Some (xs, tl) -> c = node_count nx + 1 ->
  elems (TList x nx c false) = Some (x :: xs, tl).
Proof. intros Hx He ->. simpl. rewrite Hx, He, N.eqb_refl. reflexivity. Qed.

(* the recorded length is the number of nodes: elements, plus one for a tail variable *)
Lemma elems_count : forall l xs tl, elems l = Some (xs, tl) ->
  node_count l = N.of_nat (length xs) + match tl with Some _ => 1 | None => 0 end.
Proof.
  induction l as [| |a0|f0|z0|id0 nm0|ts0 _|x nx c tv _ IH|nm1 args1 _] using term_ind';
    intros xs tl H; simpl in H; try discriminate.
  destruct (is_nil x) eqn:Ex.
  - destruct (is_nil nx && (c =? 0) && negb tv) eqn:E; [|discriminate].
    inversion H; subst. apply andb_true_iff in E as [E _]. apply andb_true_iff in E as [_ E].
    apply N.eqb_eq in E. subst. reflexivity.
  - destruct tv.
    + destruct (is_empty_list nx && (c =? 1)) eqn:E; [|discriminate]. inversion H; subst.
      apply andb_true_iff in E as [_ E]. apply N.eqb_eq in E. subst. reflexivity.
    + destruct (elems nx) as [[ys tl']|] eqn:En; [|discriminate].
      destruct (N.eqb_spec c (node_count nx + 1)) as [->|]; [|discriminate].
      inversion H; subst. cbn [node_count length]. rewrite (IH _ _ eq_refl). rewrite Nat2N.inj_succ. lia.
Qed.

Lemma elems_tail_not_nil : forall l xs tl, elems l = Some (xs, Some tl) -> is_nil tl = false.
Proof.
  induction l as [| |a0|f0|z0|id0 nm0|ts0 _|x nx c tv _ IH|nm1 args1 _] using term_ind';
    intros xs tl H; simpl in H; try discriminate.
  destruct (is_nil x) eqn:Ex.
  - destruct (is_nil nx && (c =? 0) && negb tv); [|discriminate]. inversion H.
  - destruct tv.
    + destruct (is_empty_list nx && (c =? 1)); [|discriminate]. inversion H; subst. exact Ex.
    + destruct (elems nx) as [[ys tl']|] eqn:En; [|discriminate].
      destruct (c =? node_count nx + 1); [|discriminate]. inversion H; subst. eapply IH; eauto.
Qed.

(* ---------- make_list_of_terms: exactly the given terms ---------- *)
Lemma make_list_of_terms_spec xs : non_nil xs ->
  elems (make_list_of_terms xs) = Some (xs, None) /\
  node_count (make_list_of_terms xs) = N.of_nat (length xs).
Proof.
  induction 1 as [|x xs Hx Hxs [IH1 IH2]]; [split; reflexivity|].
  split.
  - cbn [make_list_of_terms fold_right]. apply elems_cons; auto.
  - cbn [make_list_of_terms fold_right node_count]. fold (make_list_of_terms xs). rewrite IH2.
    cbn [length]. rewrite Nat2N.inj_succ. lia.
Qed.

(* ---------- link_front ---------- *)
Lemma link_front_spec x l xs tl :
  is_nil x = false -> elems l = Some (xs, tl) ->
  exists l', link_front x false l = Ok l' /\ elems l' = Some (x :: xs, tl).
Proof.
  intros Hx He. destruct l as [| | | | | | |a n c tv|]; try discriminate.
  eexists; split; [reflexivity|]. apply elems_cons; auto.
Qed.

(* ---------- make_linked_list: the documented constructor ---------- *)
Lemma mll_fold : forall br tail num ys tl,
  non_nil br -> elems tail = Some (ys, tl) -> num = node_count tail + 1 ->
  elems (fst (fst (fold_left mll_step br (tail, num, false)))) = Some (rev br ++ ys, tl).
Proof.
  induction br as [|x br IH]; intros tail num ys tl Hn He Hnum; [exact He|].
  inversion Hn as [|? ? Hx Hbr]; subst. cbn [fold_left mll_step].
  rewrite (IH (TList x tail (node_count tail + 1) false) (node_count tail + 1 + 1) (x :: ys) tl); auto.
  - cbn [rev]. now rewrite <- app_assoc.
  - apply elems_cons; auto.
Qed.

Lemma non_nil_rev xs : non_nil xs -> non_nil (rev xs).
Proof. intro H. apply Forall_rev. exact H. Qed.

Lemma mll_unfold vbar xs last : xs <> [] ->
  make_linked_list vbar (xs ++ [last]) =
  fst (fst (fold_left mll_step (rev xs)
    match last with
    | TList t n c tf => if is_nil t then (empty_list, 1, false) else (TList t n c tf, c + 1, false)
    | TNil => (empty_list, 1, vbar)
    | _ => (TList last empty_list 1 vbar, 2, false)
    end)).
Proof.
  intro Hne. unfold make_linked_list. rewrite rev_app_distr. cbn [rev app].
  destruct (rev xs) as [|b br] eqn:E.
  - exfalso. apply Hne. rewrite <- (rev_involutive xs), E. reflexivity.
  - reflexivity.
Qed.

(* a trailing list is spliced in as the rest of the list: [x1, .., xn | [y1, .., ym | T]] *)
Lemma mll_splice vbar xs last ys tl :
  xs <> [] -> non_nil xs -> is_list last = true -> elems last = Some (ys, tl) ->
  elems (make_linked_list vbar (xs ++ [last])) = Some (xs ++ ys, tl).
Proof.
  intros Hne Hn Hl He. rewrite mll_unfold by assumption.
  destruct last as [| | | | | | |t n c tf|]; try discriminate.
  destruct (is_nil t) eqn:Et.
  - assert (ys = [] /\ tl = None) as [-> ->].
    { simpl in He. rewrite Et in He. destruct (is_nil n && (c =? 0) && negb tf); inversion He; auto. }
    rewrite (mll_fold (rev xs) empty_list 1 [] None); auto using non_nil_rev.
    now rewrite rev_involutive.
  - rewrite (mll_fold (rev xs) (TList t n c tf) (c + 1) ys tl); auto using non_nil_rev.
    now rewrite rev_involutive.
Qed.

(* otherwise the last term is the last element, or the tail variable when `vbar` is set *)
Lemma mll_plain vbar xs last :
  xs <> [] -> non_nil xs -> is_list last = false -> is_nil last = false ->
  elems (make_linked_list vbar (xs ++ [last])) =
  if vbar then Some (xs, Some last) else Some (xs ++ [last], None).
Proof.
  intros Hne Hn Hl Hnil. rewrite mll_unfold by assumption.
  assert (match last with
          | TList t n c tf => if is_nil t then (empty_list, 1, false) else (TList t n c tf, c + 1, false)
          | TNil => (empty_list, 1, vbar)
          | _ => (TList last empty_list 1 vbar, 2, false)
          end = (TList last empty_list 1 vbar, 2, false)) as -> by (destruct last; try discriminate; reflexivity).
  destruct vbar.
  - rewrite (mll_fold (rev xs) (TList last empty_list 1 true) 2 [] (Some last)); auto using non_nil_rev.
    + now rewrite rev_involutive, app_nil_r.
    + simpl. now rewrite Hnil.
  - rewrite (mll_fold (rev xs) (TList last empty_list 1 false) 2 [last] None); auto using non_nil_rev.
    + now rewrite rev_involutive.
    + simpl. now rewrite Hnil.
Qed.

Lemma mll_single vbar x : is_nil x = false ->
  elems (make_linked_list vbar [x]) = if vbar then Some ([], Some x) else Some ([x], None).
Proof. intro Hx. unfold make_linked_list. simpl. rewrite Hx. destruct vbar; reflexivity. Qed.

Lemma mll_nil vbar : make_linked_list vbar [] = empty_list.
Proof. reflexivity. Qed.

Ltac dif H := match type of H with (if ?b then _ else _) = _ => destruct b eqn:? end.

(* ---------- the traversal ---------- *)
Definition stop_of (keep : bool) : bool := negb keep.

Lemma walk_nil f stop nx ss : walk f stop TNil nx ss = Ok [].
Proof. destruct f; reflexivity. Qed.

(* Walking the proper part of a list, given what happens at its end.  `R` is what the
   traversal yields from the tail on; `ftail` the fuel that takes. *)
Lemma walk_list ss stop (R : list term) (ftail : nat) : forall xs x nx c tl,
  elems (TList x nx c false) = Some (xs, tl) -> xs <> [] ->
  (tl = None -> R = []) ->
  (forall v, tl = Some v -> forall h f, is_nil h = false -> (ftail <= f)%nat ->
     walk (S f) stop h (TList v empty_list 1 true) ss = Ok (h :: R)) ->
  forall f, (ftail + length xs + 1 <= f)%nat -> walk f stop x nx ss = Ok (xs ++ R).
Proof.
  induction xs as [|x0 xs IH]; intros x nx c tl He Hne HR Htail f Hf; [congruence|].
  simpl in He. destruct (is_nil x) eqn:Ex.
  { dif He; discriminate. }
  destruct (elems nx) as [[ys tl']|] eqn:En; [|discriminate].
  destruct (c =? node_count nx + 1); [|discriminate]. inversion He; subst x0 ys tl'. clear He.
  destruct f as [|f]; [simpl in Hf; lia|].
  destruct nx as [| | | | | | |y ny cy tvy|]; try discriminate.
  cbn [walk]. rewrite Ex.
  simpl in En. destruct (is_nil y) eqn:Ey.
  - (* terminator: the list ends here *)
    destruct (is_nil ny && (cy =? 0) && negb tvy) eqn:E; [|discriminate]. inversion En; subst xs tl.
    assert (tvy = false) as -> by (destruct tvy; [rewrite andb_false_r in E; discriminate|reflexivity]).
    cbn [andb]. destruct y; try discriminate. rewrite walk_nil. simpl. now rewrite (HR eq_refl).
  - destruct tvy.
    + (* tail node *)
      destruct (is_empty_list ny && (cy =? 1)) eqn:E; [|discriminate]. inversion En; subst xs tl.
      apply andb_true_iff in E as [E1 E2]. apply is_empty_list_eq in E1. apply N.eqb_eq in E2. subst ny cy.
      specialize (Htail y eq_refl x f Ex). simpl in Hf.
      cbn [app]. rewrite <- Htail by lia. cbn [walk]. rewrite Ex. reflexivity.
    + (* an ordinary node: go on *)
      cbn [andb]. rewrite (IH y ny cy tl); auto.
      * simpl. now rewrite Ey, En.
      * destruct (elems ny) as [[zs tz]|]; [|discriminate]. destruct (cy =? node_count ny + 1); [|discriminate].
        inversion En; subst. discriminate.
      * destruct (elems ny) as [[zs tz]|]; [|discriminate]. destruct (cy =? node_count ny + 1); [|discriminate].
        inversion En; subst. cbn [length] in *. lia.
Qed.

Lemma get_list_chain_list ss v l' : chain ss v (Some l') -> is_list l' = true ->
  exists f0, forall f, (f0 <= f)%nat -> get_list f v ss = Ok (Some l').
Proof.
  intros Hc Hl. destruct v; try (inversion Hc; subst; try discriminate; exists O; intros; reflexivity).
  - destruct (chain_ggt _ _ _ Hc) as [f0 Hf0]. exists f0. intros f Hf. unfold get_list.
    rewrite (Hf0 f Hf). simpl. now rewrite Hl.
Qed.

Lemma get_list_chain_open ss v r : chain ss v r ->
  match r with Some w => is_list w = false | None => True end ->
  exists f0, forall f, (f0 <= f)%nat -> get_list f v ss = Ok None.
Proof.
  intros Hc Hr. destruct v;
    try (inversion Hc; subst; try discriminate; exists O; intros; reflexivity).
  - destruct (chain_ggt _ _ _ Hc) as [f0 Hf0]. exists f0. intros f Hf. unfold get_list.
    rewrite (Hf0 f Hf). simpl. destruct r as [w|]; [now rewrite Hr|reflexivity].
Qed.

(* The traversal yields exactly the elements the specification names. *)
Theorem walk_elements ss keep l xs :
  Elements ss keep l xs ->
  forall x nx c tv, l = TList x nx c tv -> (tv = false \/ is_nil x = true) ->
  exists f0, forall f, (f0 <= f)%nat -> walk f (negb keep) x nx ss = Ok xs.
Proof.
  induction 1 as [l xs He|l xs He Hne|l xs tl l' ys He Hne Han Hc Hl Hel IH|l xs tl r He Hne Han Hc Hr];
    intros x nx c tv -> Hfirst.
  - (* closed *)
    destruct xs as [|x0 xs].
    + exists O. intros f _. simpl in He. destruct (is_nil x) eqn:Ex.
      * destruct x; try discriminate. apply walk_nil.
      * destruct tv; [destruct (is_empty_list nx && (c =? 1)); discriminate|].
        destruct (elems nx) as [[ys t']|]; [|discriminate]. destruct (c =? node_count nx + 1); discriminate.
    + assert (tv = false) as ->.
      { destruct Hfirst as [->|Hx]; [reflexivity|]. simpl in He. rewrite Hx in He.
        destruct (is_nil nx && (c =? 0) && negb tv); discriminate. }
      exists (0 + length (x0 :: xs) + 1)%nat. intros f Hf.
      rewrite <- (app_nil_r (x0 :: xs)).
      eapply (walk_list ss (negb keep) [] 0); eauto; [discriminate|discriminate].
  - (* tail `$_` *)
    assert (tv = false) as ->.
    { destruct Hfirst as [->|Hx]; [reflexivity|]. simpl in He. rewrite Hx in He.
      destruct (is_nil nx && (c =? 0) && negb tv); discriminate. }
    exists (1 + length xs + 1)%nat. intros f Hf.
    eapply (walk_list ss (negb keep) [TAnon] 1); eauto; [discriminate|].
    intros v Hv h f' Hh Hf'. inversion Hv; subst v. cbn [walk]. rewrite Hh. cbn [is_anon negb andb].
    destruct f' as [|f'']; [lia|]. cbn [walk is_nil empty_list]. cbn [andb]. now rewrite walk_nil.
  - (* tail bound to a list *)
    assert (tv = false) as ->.
    { destruct Hfirst as [->|Hx]; [reflexivity|]. simpl in He. rewrite Hx in He.
      destruct (is_nil nx && (c =? 0) && negb tv); discriminate. }
    destruct l' as [| | | | | | |x' nx' c' tv'|]; try discriminate.
    assert (tv' = false \/ is_nil x' = true) as Hfirst'.
    { inversion Hel; subst;
        match goal with
        | H : elems (TList x' nx' c' tv') = Some (?a, ?b) |- _ =>
            simpl in H; destruct (is_nil x') eqn:Ex'; [now right|];
            destruct tv'; [|now left];
            destruct (is_empty_list nx' && (c' =? 1)); [|discriminate]; inversion H; subst; try congruence
        end. }
    destruct (IH x' nx' c' tv' eq_refl Hfirst') as [f1 Hf1].
    destruct (get_list_chain_list _ _ _ Hc eq_refl) as [f2 Hf2].
    exists (S (Nat.max f1 f2) + length xs + 1)%nat. intros f Hf.
    eapply (walk_list ss (negb keep) ys (S (Nat.max f1 f2))); eauto; [discriminate|].
    intros v Hv h f' Hh Hf'. inversion Hv; subst v. cbn [walk]. rewrite Hh, Han. cbn [negb andb].
    rewrite Hf2 by lia. cbn [bind]. rewrite Hf1 by lia. reflexivity.
  - (* open tail *)
    assert (tv = false) as ->.
    { destruct Hfirst as [->|Hx]; [reflexivity|]. simpl in He. rewrite Hx in He.
      destruct (is_nil nx && (c =? 0) && negb tv); discriminate. }
    destruct (get_list_chain_open _ _ _ Hc Hr) as [f2 Hf2].
    assert (is_nil tl = false) as Htn by (eapply elems_tail_not_nil; eauto).
    exists (S f2 + length xs + 1)%nat. intros f Hf.
    destruct keep; cbn [negb].
    + eapply (walk_list ss false [tl] (S f2)); eauto; [discriminate|].
      intros v Hv h f' Hh Hf'. inversion Hv; subst v. cbn [walk]. rewrite Hh, Han. cbn [negb andb].
      rewrite Hf2 by lia. cbn [bind]. destruct f' as [|f'']; [lia|].
      cbn [walk]. rewrite Htn. cbn [empty_list andb]. now rewrite walk_nil.
    + rewrite <- (app_nil_r xs).
      eapply (walk_list ss true [] (S f2)); eauto.
      intros v Hv h f' Hh Hf'. inversion Hv; subst v. cbn [walk]. rewrite Hh, Han. cbn [negb andb].
      rewrite Hf2 by lia. reflexivity.
Qed.

Lemma elements_first ss keep x nx c tv xs :
  Elements ss keep (TList x nx c tv) xs -> tv = false \/ is_nil x = true.
Proof.
  intro H. inversion H; subst;
    match goal with
    | He : elems (TList x nx c tv) = Some (?a, ?b) |- _ =>
        simpl in He; destruct (is_nil x) eqn:Ex; [now right|];
        destruct tv; [|now left];
        destruct (is_empty_list nx && (c =? 1)); [|discriminate]; inversion He; subst; try congruence
    end.
Qed.

Lemma fuel_max2 (P Q : nat -> Prop) :
  (exists a, forall f, (a <= f)%nat -> P f) -> (exists b, forall f, (b <= f)%nat -> Q f) ->
  exists c, forall f, (c <= f)%nat -> P f /\ Q f.
Proof.
  intros [a Ha] [b Hb]. exists (Nat.max a b). intros f Hf. split; [apply Ha|apply Hb]; lia.
Qed.

(* ---------- get_terms ---------- *)
Lemma get_terms_list ss t l xs :
  chain ss t (Some l) -> is_list l = true -> Elements ss true l xs ->
  exists f0, forall f, (f0 <= f)%nat -> get_terms f t ss = Ok xs.
Proof.
  intros Hc Hl He. destruct l as [| | | | | | |x nx c tv|]; try discriminate.
  destruct (walk_elements _ _ _ _ He x nx c tv eq_refl (elements_first _ _ _ _ _ _ _ He)) as [f1 Hf1].
  destruct (chain_ggt _ _ _ Hc) as [f2 Hf2].
  exists (Nat.max f1 f2). intros f Hf. unfold get_terms. rewrite Hf2 by lia. cbn [bind].
  apply Hf1. lia.
Qed.

Lemma get_terms_other ss t v :
  chain ss t (Some v) -> is_list v = false ->
  exists f0, forall f, (f0 <= f)%nat -> get_terms f t ss = Ok [v].
Proof.
  intros Hc Hl. destruct (chain_ggt _ _ _ Hc) as [f2 Hf2]. exists f2. intros f Hf.
  unfold get_terms. rewrite Hf2 by lia. cbn [bind]. destruct v; try discriminate; reflexivity.
Qed.

(* ---------- count ---------- *)
Theorem count_terms_spec ss t l xs :
  chain ss t (Some l) -> is_list l = true -> Elements ss false l xs ->
  exists f0, forall f, (f0 <= f)%nat -> count_terms f t ss = Ok (Z.of_nat (length xs)).
Proof.
  intros Hc Hl He. destruct l as [| | | | | | |x nx c tv|]; try discriminate.
  destruct (walk_elements _ _ _ _ He x nx c tv eq_refl (elements_first _ _ _ _ _ _ _ He)) as [f1 Hf1].
  destruct (chain_ggt _ _ _ Hc) as [f2 Hf2].
  exists (Nat.max f1 f2). intros f Hf. unfold count_terms.
  assert (match t with TVar _ _ => get_ground_term f t ss | _ => Ok (Some t) end
          = Ok (Some (TList x nx c tv))) as ->.
  { destruct t; try (inversion Hc; subst; try discriminate; reflexivity). apply Hf2. lia. }
  cbn [bind]. change (negb false) with true in Hf1. rewrite Hf1 by lia. reflexivity.
Qed.

Theorem bip_count_spec ss t l xs out :
  chain ss t (Some l) -> is_list l = true -> Elements ss false l xs ->
  exists f0, forall f, (f0 <= f)%nat ->
    bip_count f (Some [t; out]) ss = unify f out (TInt (Z.of_nat (length xs))) ss.
Proof.
  intros Hc Hl He. destruct (count_terms_spec _ _ _ _ Hc Hl He) as [f0 Hf0]. exists f0.
  intros f Hf. unfold bip_count. rewrite Hf0 by lia. reflexivity.
Qed.

(* ---------- append ---------- *)
Lemma chain_some_nonvar ss t v : chain ss t (Some v) -> is_var v = false.
Proof.
  intro H. remember (Some v) as r eqn:E. induction H; inversion E; subst; auto.
Qed.

Theorem append_collect_spec ss : forall inputs cs,
  Forall2 (Contrib ss) inputs cs ->
  exists f0, forall f, (f0 <= f)%nat -> append_collect f inputs ss = Ok (concat cs).
Proof.
  induction 1 as [|t0 c inputs cs Hc _ [f1 IH]].
  - exists O. reflexivity.
  - assert (exists f2, forall f, (f2 <= f)%nat ->
              exists t, (match t0 with
                         | TVar _ _ => do g <- get_ground_term f t0 ss;
                                       Ok (match g with Some n => n | None => t0 end)
                         | _ => Ok t0 end) = Ok t /\
                        match t with
                        | TList _ _ _ _ => get_terms f t ss
                        | TVar _ _ => Ok []
                        | _ => Ok [t]
                        end = Ok c) as [f2 Hf2].
    { inversion Hc as [t l xs Hch Hl He|t v Hch Hl]; subst.
      - assert (chain ss l (Some l)) as Hll by (constructor; destruct l; try discriminate; reflexivity).
        destruct (get_terms_list _ _ _ _ Hll Hl He) as [fa Hfa].
        destruct (chain_ggt _ _ _ Hch) as [fb Hfb].
        exists (Nat.max fa fb). intros f Hf. exists l. split.
        + destruct t0; try (inversion Hch; subst; try discriminate; reflexivity).
          rewrite Hfb by lia. reflexivity.
        + destruct l; try discriminate. apply Hfa. lia.
      - destruct (chain_ggt _ _ _ Hch) as [fb Hfb]. pose proof (chain_some_nonvar _ _ _ Hch) as Hnv.
        exists fb. intros f Hf. exists v. split.
        + destruct t0; try (inversion Hch; subst; try discriminate; reflexivity).
          rewrite Hfb by lia. reflexivity.
        + destruct v; try discriminate; reflexivity. }
    exists (Nat.max f1 f2). intros f Hf. cbn [append_collect concat].
    destruct (Hf2 f ltac:(lia)) as (t & E1 & E2). rewrite E1. cbn [bind]. rewrite E2. cbn [bind].
    rewrite IH by lia. reflexivity.
Qed.

Lemma removelast_app_one {A} (l : list A) x : removelast (l ++ [x]) = l.
Proof. rewrite removelast_app by discriminate. simpl. apply app_nil_r. Qed.

Theorem bip_append_spec ss inputs cs out :
  inputs <> [] -> Forall2 (Contrib ss) inputs cs ->
  exists f0, forall f, (f0 <= f)%nat ->
    bip_append f (Some (inputs ++ [out])) ss = unify f out (make_list_of_terms (concat cs)) ss.
Proof.
  intros Hne H. destruct (append_collect_spec _ _ _ H) as [f0 Hf0]. exists f0. intros f Hf.
  unfold bip_append.
  assert ((length (inputs ++ [out]) <? 2)%nat = false) as ->.
  { apply Nat.ltb_ge. rewrite app_length. simpl. destruct inputs; [congruence|]. simpl. lia. }
  rewrite removelast_app_one, last_last, Hf0 by lia. reflexivity.
Qed.

(* ---------- include / exclude ---------- *)
Definition passes (f : nat) (pat x : term) (ss : subst) : bool :=
  match unify f pat x ss with Ok (Some _) => true | _ => false end.

Lemma filter_terms_spec f pat incl ss : forall xs kept,
  filter_terms f pat incl xs ss = Ok kept ->
  kept = List.filter (fun x => Bool.eqb (passes f pat x ss) incl) xs.
Proof.
  induction xs as [|x xs IH]; intros kept H; simpl in H.
  - now inversion H.
  - cbn [List.filter]. unfold passes at 1.
    destruct (unify f pat x ss) as [u| |] eqn:Eu; simpl in H; try discriminate.
    destruct (filter_terms f pat incl xs ss) as [rest| |] eqn:Er; simpl in H; try discriminate.
    inversion H; subst. rewrite (IH rest eq_refl). destruct u; reflexivity.
Qed.

Theorem filter_spec ss pat t l xs incl :
  chain ss t (Some l) -> is_list l = true -> Elements ss true l xs ->
  exists f0, forall f, (f0 <= f)%nat ->
    filter f pat t ss incl =
    do kept <- filter_terms f pat incl xs ss; Ok (Some (make_list_of_terms kept)).
Proof.
  intros Hc Hl He. destruct l as [| | | | | | |x nx c tv|]; try discriminate.
  destruct (walk_elements _ _ _ _ He x nx c tv eq_refl (elements_first _ _ _ _ _ _ _ He)) as [f1 Hf1].
  destruct (chain_ggt _ _ _ Hc) as [f2 Hf2].
  exists (Nat.max f1 f2). intros f Hf. unfold filter. rewrite Hf2 by lia. cbn [bind].
  change (negb true) with false in Hf1. rewrite Hf1 by lia. reflexivity.
Qed.

(* the filter's own unifications leave no trace: the result is the unification of the
   output argument with the filtered list under the ORIGINAL substitution *)
Theorem bip_filter_spec ss pat t l xs incl out :
  chain ss t (Some l) -> is_list l = true -> Elements ss true l xs ->
  exists f0, forall f, (f0 <= f)%nat -> forall kept,
    filter_terms f pat incl xs ss = Ok kept ->
    kept = List.filter (fun x => Bool.eqb (passes f pat x ss) incl) xs /\
    bip_filter f incl (Some [pat; t; out]) ss = unify f out (make_list_of_terms kept) ss.
Proof.
  intros Hc Hl He. destruct (filter_spec ss pat t l xs incl Hc Hl He) as [f0 Hf0]. exists f0.
  intros f Hf kept Hk. split; [eapply filter_terms_spec; eauto|].
  unfold bip_filter. rewrite Hf0 by lia. rewrite Hk. reflexivity.
Qed.

(* ---------- functor ---------- *)
Lemma str_prefix_spec : forall p s, str_prefix p s = true <-> exists r, s = p ++ r.
Proof.
  induction p as [|x p IH]; intros s; simpl.
  - split; [eauto|reflexivity].
  - destruct s as [|y s]; [split; [discriminate|intros [r Hr]; discriminate]|].
    rewrite andb_true_iff, N.eqb_eq, IH. split.
    + intros [-> [r ->]]. eauto.
    + intros [r Hr]. inversion Hr; subst. eauto.
Qed.

Lemma atoms_match_prefix f p : atoms_match (TAtom f) (p ++ [42]) = Ok (str_prefix p f).
Proof. unfold atoms_match. rewrite rev_app_distr. simpl. now rewrite rev_involutive. Qed.

Lemma atoms_match_exact f m c : c <> 42 -> atoms_match (TAtom f) (m ++ [c]) = Ok (str_eqb f (m ++ [c])).
Proof.
  intro Hc. unfold atoms_match. rewrite rev_app_distr. simpl.
  destruct (N.eqb_spec c 42); [contradiction|reflexivity].
Qed.

(* functor(C, F, A) with C resolved to f(args): the arity argument is unified with the
   number of arguments, after the functor argument matched *)
Lemma bip_functor_arity f ss c o1 o2 fn args r1 r2 :
  resolve_each f [c; o1; o2] ss = Ok [TComplex (fn :: args); r1; r2] ->
  bip_functor f (Some [c; o1; o2]) ss =
  do s1 <- match r1 with
           | TAtom ms => do m <- atoms_match fn ms; Ok (if m then Some ss else None)
           | TVar _ _ => unify f r1 fn ss
           | _ => Ok None
           end;
  match s1 with
  | Some s => unify f r2 (TInt (Z.of_nat (length args))) s
  | None => Ok None
  end.
Proof. intro H. unfold bip_functor. cbn [length Nat.ltb Nat.leb orb]. rewrite H. reflexivity. Qed.

(* ---------- join ---------- *)
Lemma is_punctuation_punct s : is_punctuation s = is_punct s.
Proof. reflexivity. Qed.

Lemma join_words_false ws : join_words false ws = concat (spaced ws).
Proof.
  induction ws as [|w r IH]; [reflexivity|]. cbn [join_words spaced concat].
  rewrite is_punctuation_punct, IH. destruct (is_punct w); reflexivity.
Qed.

Theorem join_words_spec ws : join_words true ws = join_spec ws.
Proof.
  destruct ws as [|w r]; [reflexivity|]. cbn [join_words join_spec].
  rewrite join_words_false. destruct (is_punctuation w); reflexivity.
Qed.

Inductive JoinArg (ss : subst) : term -> list term -> Prop :=
| JA_list t l xs : chain ss t (Some l) -> is_list l = true -> Elements ss true l xs -> JoinArg ss t xs
| JA_other t v : chain ss t (Some v) -> is_list v = false -> JoinArg ss t [v]
| JA_unbound t : chain ss t None -> JoinArg ss t [t].

Lemma get_all_terms_spec ss : forall args cs, Forall2 (JoinArg ss) args cs ->
  exists f0, forall f, (f0 <= f)%nat -> get_all_terms f args ss = Ok (concat cs).
Proof.
  induction 1 as [|t c args cs Hc _ [f1 IH]].
  - exists O. reflexivity.
  - assert (exists f2, forall f, (f2 <= f)%nat -> get_terms f t ss = Ok c) as [f2 Hf2].
    { inversion Hc; subst.
      - eapply get_terms_list; eauto.
      - eapply get_terms_other; eauto.
      - match goal with H : chain ss t None |- _ => destruct (chain_ggt _ _ _ H) as [fb Hfb] end.
        exists fb. intros f Hf. unfold get_terms. rewrite Hfb by lia. reflexivity. }
    exists (Nat.max f1 f2). intros f Hf. cbn [get_all_terms concat].
    rewrite Hf2, IH by lia. reflexivity.
Qed.

Theorem evaluate_join_spec ss args cs : Forall2 (JoinArg ss) args cs ->
  exists f0, forall f, (f0 <= f)%nat ->
    evaluate_join f args ss = Ok (TAtom (join_spec (map show_term (concat cs)))).
Proof.
  intro H. destruct (get_all_terms_spec _ _ _ H) as [f0 Hf0]. exists f0. intros f Hf.
  unfold evaluate_join. rewrite Hf0 by lia. cbn [bind]. now rewrite join_words_spec.
Qed.
