(* C10 during a search: every clause fetched while a query is being solved is renamed to variable
   ids ABOVE every id in use - above every id of the goal, of the substitution set, and of every
   slot index of the substitution set.

   `below n x`: every variable id occurring in x is <= n.  The invariant of the reference search
   (Spec/SpecCut.v) is: the goal and the substitution set are `below` the id counter of the world.
   A clause fetch returns ids in (counter, counter'], so they are disjoint from everything in use
   (clause_fetched_is_apart); unification and every built-in predicate only bind variables that
   occur in their operands to terms that occur there (unify_below, run_bip_below), so the invariant
   is kept along the whole search (csolve_fresh) and every answer is below the final counter
   (canswers_fresh).  Through the refinement theorems the same holds for the answers of the engine
   model (engine_answers_fresh, engine_requests_fresh). *)
From Coq Require Import Lia ZifyN.
From Suiron Require Import Model.Term Model.Subst Model.Show Model.Lists Model.Arith Model.Unify
  Model.Compare Model.Builtins Model.Rename Model.Solve Spec.SpecCut
  Proofs.SubstLemmas Proofs.UnifyInv Proofs.RenameProofs
  Proofs.SolveDead Proofs.RefineCut Proofs.SolveQuiet.
Open Scope N_scope.

(* ---- 1. the invariant ---- *)
Definition below (n : N) (t : term) : Prop := forall id name, In (id, name) (tvars t) -> id <= n.

Definition below_ss (n : N) (ss : subst) : Prop :=
  (forall i t, ss_get ss i = Some t -> below n t) /\ N.of_nat (length ss) <= n + 1.

Definition below_goal (n : N) (g : goal) : Prop := forall id name, In (id, name) (gvars g) -> id <= n.

Definition below_args (n : N) (ts : option (list term)) : Prop :=
  match ts with Some l => Forall (below n) l | None => True end.

Lemma below_mono n m t : n <= m -> below n t -> below m t.
Proof. intros Hle H id name Hin. specialize (H id name Hin). lia. Qed.

Lemma below_ss_mono n m ss : n <= m -> below_ss n ss -> below_ss m ss.
Proof.
  intros Hle [H1 H2]. split; [|lia]. intros i t Hg. eapply below_mono; [exact Hle|]. eapply H1; eauto.
Qed.

Lemma below_goal_mono n m g : n <= m -> below_goal n g -> below_goal m g.
Proof. intros Hle H id name Hin. specialize (H id name Hin). lia. Qed.

Lemma Forall_below_mono n m l : n <= m -> Forall (below n) l -> Forall (below m) l.
Proof. intros Hle H. eapply Forall_impl; [|exact H]. intros t. now apply below_mono. Qed.

Lemma below_novars n t : tvars t = [] -> below n t.
Proof. intros E id name Hin. rewrite E in Hin. destruct Hin. Qed.

Lemma below_var n id name : below n (TVar id name) <-> id <= n.
Proof.
  split.
  - intro H. apply (H id name). now left.
  - intros Hle i nm [E|[]]. inversion E; subst. exact Hle.
Qed.

Lemma below_flat n ts : (forall id name, In (id, name) (flat_map tvars ts) -> id <= n) <-> Forall (below n) ts.
Proof.
  split.
  - intro H. apply Forall_forall. intros t Ht id name Hin. apply (H id name).
    apply in_flat_map. exists t. split; assumption.
  - intros H id name Hin. apply in_flat_map in Hin as (t & Ht & Hin).
    rewrite Forall_forall in H. exact (H t Ht id name Hin).
Qed.

Lemma below_complex n ts : below n (TComplex ts) <-> Forall (below n) ts.
Proof. apply below_flat. Qed.

Lemma below_fun n name args : below n (TFun name args) <-> Forall (below n) args.
Proof. apply below_flat. Qed.

Lemma below_list n a b c tv : below n (TList a b c tv) <-> below n a /\ below n b.
Proof.
  split.
  - intro H. split; intros id name Hin; apply (H id name); cbn [tvars]; apply in_or_app; auto.
  - intros [Ha Hb] id name Hin. cbn [tvars] in Hin. apply in_app_or in Hin as [Hin|Hin]; eauto.
Qed.

Lemma below_constant n v : is_constant v = true -> below n v.
Proof. destruct v; try discriminate; intros _; now apply below_novars. Qed.

Lemma below_goal_call n t : below_goal n (GCall t) <-> below n t.
Proof. split; intro H; exact H. Qed.

Lemma below_goal_bip n fn ts : below_goal n (GBip fn ts) <-> below_args n ts.
Proof.
  destruct ts as [l|]; cbn [below_args].
  - apply below_flat.
  - split; [auto|]. intros _ id name [].
Qed.

Lemma below_goal_op n k gs : below_goal n (GOp k gs) <-> Forall (below_goal n) gs.
Proof.
  unfold below_goal. cbn [gvars]. split.
  - intro H. apply Forall_forall. intros g Hg id name Hin. apply (H id name).
    apply in_flat_map. exists g. split; assumption.
  - intros H id name Hin. apply in_flat_map in Hin as (g & Hg & Hin).
    rewrite Forall_forall in H. exact (H g Hg id name Hin).
Qed.

Lemma below_ss_nil n : below_ss n [].
Proof. split; [|cbn [length]; lia]. intros i t H. now rewrite ss_get_nil in H. Qed.

Lemma ss_set_nat_length : forall i ss t, length (ss_set_nat ss i t) = Nat.max (length ss) (S i).
Proof.
  induction i as [|i IH]; intros [|x r] t; cbn [ss_set_nat length]; try reflexivity.
  - destruct (length r); reflexivity.
  - rewrite IH. cbn [length]. reflexivity.
  - rewrite IH. reflexivity.
Qed.

Lemma below_ss_set n ss id t : below_ss n ss -> id <= n -> below n t -> below_ss n (ss_set ss id t).
Proof.
  intros [H1 H2] Hid Ht. split.
  - intros j u Hj. destruct (N.eq_dec j id) as [->|Hne].
    + rewrite ss_get_set_same in Hj. now inversion Hj; subst.
    + rewrite ss_get_set_other in Hj by assumption. eauto.
  - unfold ss_set. rewrite ss_set_nat_length. lia.
Qed.

Lemma below_ss_get n ss i t : below_ss n ss -> ss_get ss i = Some t -> below n t.
Proof. intros [H _]. apply H. Qed.

(* ---- 2. unification keeps the invariant ---- *)
Lemma eval_function_below n fuel name args ss v :
  eval_function fuel name args ss = Ok (Some v) -> below n v.
Proof. intro H. apply below_constant. eapply eval_function_constant; eauto. Qed.

Section UnifyBelow.
  Variable n : N.

  Definition ugood (rec : term -> term -> subst -> res (option subst)) : Prop :=
    forall a b ss ss', below n a -> below n b -> below_ss n ss ->
      rec a b ss = Ok (Some ss') -> below_ss n ss'.

  Section Body.
    Variable rec : term -> term -> subst -> res (option subst).
    Hypothesis Hrec : ugood rec.

    Ltac by_rec :=
      match goal with
      | H : rec ?a ?b ?s = Ok (Some ?o) |- _ =>
          apply (Hrec a b s o); [ | | |exact H]; (assumption || eauto)
      end.

    Lemma unify_args_below : forall ls rs s s2 out,
      Forall (below n) ls -> Forall (below n) rs -> below_ss n s -> below_ss n s2 ->
      unify_args rec ls rs s s2 = Ok (Some out) -> below_ss n out.
    Proof.
      induction ls as [|l ls IH]; intros rs s s2 out Hl Hr Hs Hs2 H; cbn [unify_args] in H.
      - inversion H; subst. exact Hs2.
      - destruct rs as [|r rs]; [inversion H; subst; exact Hs2|].
        inversion Hl as [|? ? Hl1 Hl2]; subst. inversion Hr as [|? ? Hr1 Hr2]; subst.
        destruct (is_anon l || is_anon r).
        + exact (IH _ _ _ _ Hl2 Hr2 Hs Hs2 H).
        + destruct (rec l r s) as [[s1|]| |] eqn:E; cbn [bind] in H; try discriminate.
          pose proof (Hrec _ _ _ _ Hl1 Hr1 Hs E) as Hs1.
          exact (IH _ _ _ _ Hl2 Hr2 Hs1 Hs1 H).
    Qed.

    Lemma unify_lists_below : forall tl ol s out,
      below n tl -> below n ol -> below_ss n s ->
      unify_lists rec tl ol s = Ok (Some out) -> below_ss n out.
    Proof.
      induction tl as [| |a0|f0|z0|id0 nm0|ts0 Hts|th tnx c tv _ IH|nm1 args1 Hargs] using term_ind';
        intros ol sb out Ht Ho Hs H; simpl in H; try discriminate;
        try (destruct (is_nil ol); discriminate).
      destruct ol as [| | | | | | |oh onx oc otv|]; simpl in H; try discriminate.
      pose proof Ht as HwT. pose proof Ho as HwO.
      apply below_list in Ht as [Ht1 Ht2]. apply below_list in Ho as [Ho1 Ho2].
      destruct (tv && otv).
      { destruct (is_anon oh); [inversion H; subst; auto|].
        destruct (is_anon th); [inversion H; subst; auto|]. by_rec. }
      destruct tv; [by_rec|].
      destruct otv; [by_rec|].
      destruct (is_nil th && is_nil oh); [inversion H; subst; auto|].
      destruct (rec th oh sb) as [[s1|]| |] eqn:E; simpl in H; try discriminate.
      pose proof (Hrec _ _ _ _ Ht1 Ho1 Hs E) as Hs1.
      exact (IH _ _ _ Ht2 Ho2 Hs1 H).
    Qed.

    Lemma unify_body_below f : ugood (unify_body rec f).
    Proof.
      intros a b ss ss' Ha Hb Hs H. unfold unify_body in H.
      destruct (term_eqb a b) eqn:Eab; [inversion H; subst; auto|].
      destruct (is_anon b) eqn:Eanon; [inversion H; subst; auto|].
      destruct a as [| |s1|f1|i1|id name|sts|th tnx c tv|fname fargs].
      - discriminate.
      - inversion H; subst; auto.
      - destruct b; try discriminate; try (by_rec; fail).
        destruct (str_eqb s1 s); inversion H; subst; auto.
      - destruct b; try discriminate; try (by_rec; fail).
        destruct (feqb f1 f0); inversion H; subst; auto.
      - destruct b; try discriminate; try (by_rec; fail).
        destruct (Z.eqb i1 z); inversion H; subst; auto.
      - destruct (N.eqb_spec id 0) as [|Hid]; [discriminate|].
        destruct (match b with TFun _ _ => true | _ => false end) eqn:Ef.
        { destruct b; try discriminate. by_rec. }
        assert (match ss_get ss id with
                | Some u => rec u b ss
                | None => do al <- chain_reaches f id b ss;
                          Ok (Some (if al then ss else ss_set ss id b))
                end = Ok (Some ss')) as H'
            by (destruct b; try discriminate; exact H).
        clear H. destruct (ss_get ss id) as [u|] eqn:Eg.
        + apply (Hrec u b ss ss'); auto. exact (below_ss_get _ _ _ _ Hs Eg).
        + destruct (chain_reaches f id b ss) as [[|]| |] eqn:Ec; cbn [bind] in H'; try discriminate;
            inversion H'; subst; auto.
          apply below_ss_set; auto. now apply below_var in Ha.
      - destruct b as [| | | | | |ots| |]; try discriminate; try (by_rec; fail).
        destruct (negb (Nat.eqb (length sts) (length ots))); [discriminate|].
        apply below_complex in Ha. apply below_complex in Hb.
        exact (unify_args_below _ _ _ _ _ Ha Hb Hs (below_ss_nil n) H).
      - destruct b; try discriminate; try (by_rec; fail).
        exact (unify_lists_below _ _ _ _ Ha Hb Hs H).
      - destruct (eval_function f fname fargs ss) as [[v|]| |] eqn:Ev; cbn [bind] in H; try discriminate.
        apply (eval_function_below n) in Ev. by_rec.
    Qed.
  End Body.

  Theorem unify_below_n : forall fuel, ugood (unify fuel).
  Proof.
    induction fuel as [|f IH]; intros a b ss ss' Ha Hb Hs H; simpl in H; [discriminate|].
    exact (unify_body_below (unify f) IH f a b ss ss' Ha Hb Hs H).
  Qed.
End UnifyBelow.

Theorem unify_below n fuel a b ss ss' :
  below n a -> below n b -> below_ss n ss -> unify fuel a b ss = Ok (Some ss') -> below_ss n ss'.
Proof. apply unify_below_n. Qed.

(* ---- 3. every built-in predicate keeps the invariant ---- *)
Section BipsBelow.
  Variable n : N.

  Lemma get_ground_term_below : forall fuel t ss g,
    below n t -> below_ss n ss -> get_ground_term fuel t ss = Ok (Some g) -> below n g.
  Proof.
    induction fuel as [|f IH]; intros t ss g Ht Hs H;
      destruct t; cbn [get_ground_term] in H; try (inversion H; subst; exact Ht).
    - destruct (ss_get ss id); discriminate.
    - destruct (ss_get ss id) as [u|] eqn:Eg; [|discriminate].
      exact (IH _ _ _ (below_ss_get _ _ _ _ Hs Eg) Hs H).
  Qed.

  Lemma get_list_below fuel t ss l :
    below n t -> below_ss n ss -> get_list fuel t ss = Ok (Some l) -> below n l.
  Proof.
    intros Ht Hs H. destruct t; cbn [get_list] in H; try discriminate.
    - destruct (get_ground_term fuel (TVar id name) ss) as [[g|]| |] eqn:E; cbn [bind] in H; try discriminate.
      destruct (is_list g); inversion H; subst. eapply get_ground_term_below; eauto.
    - inversion H; subst. exact Ht.
  Qed.

  Lemma walk_below : forall fuel b head slist ss l,
    below n head -> below n slist -> below_ss n ss ->
    walk fuel b head slist ss = Ok l -> Forall (below n) l.
  Proof.
    induction fuel as [|f IH]; intros b head slist ss l Hh Hl Hs H; cbn [walk] in H;
      (destruct (is_nil head); [inversion H; subst; constructor|]); [discriminate|].
    destruct slist as [| | | | | | |t nx c tv|]; try (inversion H; subst; constructor; [exact Hh|constructor]).
    apply below_list in Hl as [Ht Hn].
    assert (forall l0, walk f b t nx ss = Ok l0 -> Forall (below n) l0) as Hgo
      by (intros l0 H0; exact (IH _ _ _ _ _ Ht Hn Hs H0)).
    assert (forall r, (do r0 <- walk f b t nx ss; Ok (head :: r0)) = Ok r -> Forall (below n) r) as Hgo'.
    { intros r Hr. destruct (walk f b t nx ss) as [r0| |] eqn:E; cbn [bind] in Hr; try discriminate.
      inversion Hr; subst. constructor; [exact Hh|now apply Hgo]. }
    destruct (tv && negb (is_anon t)); [|now apply Hgo'].
    destruct (get_list f t ss) as [[g|]| |] eqn:Eg; cbn [bind] in H; try discriminate.
    - pose proof (get_list_below _ _ _ _ Ht Hs Eg) as Hg.
      destruct g as [| | | | | | |t2 n2 c2 tv2|]; try (now apply Hgo').
      apply below_list in Hg as [Hg1 Hg2].
      destruct (walk f b t2 n2 ss) as [r0| |] eqn:E; cbn [bind] in H; try discriminate.
      inversion H; subst. constructor; [exact Hh|]. exact (IH _ _ _ _ _ Hg1 Hg2 Hs E).
    - destruct b; [inversion H; subst; constructor; [exact Hh|constructor]|now apply Hgo'].
  Qed.

  Lemma get_terms_below fuel t ss l :
    below n t -> below_ss n ss -> get_terms fuel t ss = Ok l -> Forall (below n) l.
  Proof.
    intros Ht Hs H. unfold get_terms in H.
    destruct (get_ground_term fuel t ss) as [[g|]| |] eqn:E; cbn [bind] in H; try discriminate.
    - pose proof (get_ground_term_below _ _ _ _ Ht Hs E) as Hg.
      destruct g; try (inversion H; subst; constructor; [exact Hg|constructor]; fail).
      apply below_list in Hg as [Hg1 Hg2]. exact (walk_below _ _ _ _ _ _ Hg1 Hg2 Hs H).
    - inversion H; subst. constructor; [exact Ht|constructor].
  Qed.

  Lemma make_list_of_terms_below l : Forall (below n) l -> below n (make_list_of_terms l).
  Proof.
    unfold make_list_of_terms. induction 1 as [|x l Hx _ IH]; cbn [fold_right].
    - now apply below_novars.
    - apply below_list. split; assumption.
  Qed.

  Lemma resolve_var_below fuel t ss t' :
    below n t -> below_ss n ss ->
    match t with
    | TVar _ _ => do g <- get_ground_term fuel t ss; Ok (match g with Some g0 => g0 | None => t end)
    | _ => Ok t
    end = Ok t' -> below n t'.
  Proof.
    intros Ht Hs H. destruct t; try (inversion H; subst; exact Ht).
    destruct (get_ground_term fuel (TVar id name) ss) as [[g|]| |] eqn:E; cbn [bind] in H; try discriminate;
      inversion H; subst; [eapply get_ground_term_below; eauto|exact Ht].
  Qed.

  (* ---- append ---- *)
  Lemma append_collect_below fuel : forall l ss out,
    Forall (below n) l -> below_ss n ss -> append_collect fuel l ss = Ok out -> Forall (below n) out.
  Proof.
    induction l as [|t0 rest IH]; intros ss out Hl Hs H; cbn [append_collect] in H.
    - inversion H; subst. constructor.
    - inversion Hl as [|? ? Ht0 Hrest]; subst.
      match type of H with bind ?e _ = _ => destruct e as [t| |] eqn:Et end; cbn [bind] in H; try discriminate.
      pose proof (resolve_var_below _ _ _ _ Ht0 Hs Et) as Ht.
      match type of H with bind ?e _ = _ => destruct e as [here| |] eqn:Eh end; cbn [bind] in H; try discriminate.
      destruct (append_collect fuel rest ss) as [more| |] eqn:Em; cbn [bind] in H; try discriminate.
      inversion H; subst. apply Forall_app. split; [|exact (IH _ _ Hrest Hs Em)].
      destruct t; try (inversion Eh; subst; constructor; [exact Ht|constructor]).
      + inversion Eh; subst. constructor.
      + exact (get_terms_below _ _ _ _ Ht Hs Eh).
  Qed.

  Lemma Forall_removelast {A} (P : A -> Prop) l : Forall P l -> Forall P (removelast l).
  Proof.
    induction 1 as [|x l Hx Hl IH]; cbn [removelast]; [constructor|].
    destruct l; [constructor|]. constructor; assumption.
  Qed.

  Lemma Forall_last {A} (P : A -> Prop) l d : Forall P l -> P d -> P (last l d).
  Proof.
    induction 1 as [|x l Hx Hl IH]; intro Hd; cbn [last]; [exact Hd|].
    destruct l; [exact Hx|]. apply IH, Hd.
  Qed.

  Lemma bip_append_below fuel ts ss ss' :
    below_args n ts -> below_ss n ss -> bip_append fuel ts ss = Ok (Some ss') -> below_ss n ss'.
  Proof.
    intros Ht Hs H. destruct ts as [ts|]; cbn [bip_append below_args] in *; [|discriminate].
    destruct (length ts <? 2)%nat; [discriminate|].
    destruct (append_collect fuel (removelast ts) ss) as [out| |] eqn:E; cbn [bind] in H; try discriminate.
    eapply unify_below; [| | |exact H]; [|apply make_list_of_terms_below|exact Hs].
    - apply Forall_last; [exact Ht|now apply below_novars].
    - eapply append_collect_below; [|exact Hs|exact E]. apply Forall_removelast, Ht.
  Qed.

  (* ---- count ---- *)
  Lemma bip_count_below fuel ts ss ss' :
    below_args n ts -> below_ss n ss -> bip_count fuel ts ss = Ok (Some ss') -> below_ss n ss'.
  Proof.
    intros Ht Hs H. destruct ts as [[|l [|out [|x r]]]|]; cbn [bip_count below_args] in *; try discriminate.
    inversion Ht as [|? ? _ Ht']; subst. inversion Ht' as [|? ? Hout _]; subst.
    destruct (count_terms fuel l ss) as [c| |]; cbn [bind] in H; try discriminate.
    eapply unify_below; [exact Hout| |exact Hs|exact H]. now apply below_novars.
  Qed.

  (* ---- include / exclude ---- *)
  Lemma filter_terms_below fuel pat incl : forall l ss out,
    Forall (below n) l -> filter_terms fuel pat incl l ss = Ok out -> Forall (below n) out.
  Proof.
    induction l as [|x r IH]; intros ss out Hl H; cbn [filter_terms] in H.
    - inversion H; subst. constructor.
    - inversion Hl as [|? ? Hx Hr]; subst.
      destruct (unify fuel pat x ss) as [u| |]; cbn [bind] in H; try discriminate.
      destruct (filter_terms fuel pat incl r ss) as [rest| |] eqn:E; cbn [bind] in H; try discriminate.
      pose proof (IH _ _ Hr E) as Hrest.
      destruct (Bool.eqb _ incl); inversion H; subst; [constructor; assumption|assumption].
  Qed.

  Lemma filter_below fuel pat uni ss incl l :
    below n uni -> below_ss n ss -> filter fuel pat uni ss incl = Ok (Some l) -> below n l.
  Proof.
    intros Hu Hs H. unfold filter in H.
    destruct (get_ground_term fuel uni ss) as [[g|]| |] eqn:E; cbn [bind] in H; try discriminate.
    pose proof (get_ground_term_below _ _ _ _ Hu Hs E) as Hg.
    destruct g as [| | | | | | |t nx c tv|]; try discriminate.
    apply below_list in Hg as [Hg1 Hg2].
    destruct (walk fuel false t nx ss) as [elems| |] eqn:Ew; cbn [bind] in H; try discriminate.
    destruct (filter_terms fuel pat incl elems ss) as [kept| |] eqn:Ef; cbn [bind] in H; try discriminate.
    inversion H; subst. apply make_list_of_terms_below.
    eapply filter_terms_below; [|exact Ef]. exact (walk_below _ _ _ _ _ _ Hg1 Hg2 Hs Ew).
  Qed.

  Lemma bip_filter_below fuel incl ts ss ss' :
    below_args n ts -> below_ss n ss -> bip_filter fuel incl ts ss = Ok (Some ss') -> below_ss n ss'.
  Proof.
    intros Ht Hs H. destruct ts as [[|pat [|lst [|out [|x r]]]]|]; cbn [bip_filter below_args] in *; try discriminate.
    inversion Ht as [|? ? _ Ht1]; subst. inversion Ht1 as [|? ? Hlst Ht2]; subst.
    inversion Ht2 as [|? ? Hout _]; subst.
    destruct (filter fuel pat lst ss incl) as [[l|]| |] eqn:E; cbn [bind] in H; try discriminate.
    eapply unify_below; [exact Hout| |exact Hs|exact H]. exact (filter_below _ _ _ _ _ _ Hlst Hs E).
  Qed.

  (* ---- functor ---- *)
  Lemma resolve_each_below fuel : forall l ss out,
    Forall (below n) l -> below_ss n ss -> resolve_each fuel l ss = Ok out -> Forall (below n) out.
  Proof.
    induction l as [|t rest IH]; intros ss out Hl Hs H; cbn [resolve_each] in H.
    - inversion H; subst. constructor.
    - inversion Hl as [|? ? Ht Hrest]; subst.
      match type of H with bind ?e _ = _ => destruct e as [t'| |] eqn:Et end; cbn [bind] in H; try discriminate.
      destruct (resolve_each fuel rest ss) as [r'| |] eqn:Er; cbn [bind] in H; try discriminate.
      inversion H; subst. constructor; [exact (resolve_var_below _ _ _ _ Ht Hs Et)|exact (IH _ _ Hrest Hs Er)].
  Qed.

  Lemma functor_first_below fuel o1 fn ss ss' :
    below n o1 -> below n fn -> below_ss n ss ->
    match o1 with
    | TAtom ms => do m <- atoms_match fn ms; Ok (if m then Some ss else None)
    | TVar _ _ => unify fuel o1 fn ss
    | _ => Ok None
    end = Ok (Some ss') -> below_ss n ss'.
  Proof.
    intros Ho Hf Hs H. destruct o1; try discriminate.
    - destruct (atoms_match fn s) as [[|]| |]; cbn [bind] in H; try discriminate. inversion H; subst. exact Hs.
    - exact (unify_below _ _ _ _ _ _ Ho Hf Hs H).
  Qed.

  Lemma bip_functor_below fuel ts ss ss' :
    below_args n ts -> below_ss n ss -> bip_functor fuel ts ss = Ok (Some ss') -> below_ss n ss'.
  Proof.
    intros Ht Hs H. destruct ts as [ts|]; cbn [bip_functor below_args] in *; [|discriminate].
    destruct ((length ts <? 2)%nat || (3 <? length ts)%nat); [discriminate|].
    destruct (resolve_each fuel ts ss) as [out| |] eqn:E; cbn [bind] in H; try discriminate.
    pose proof (resolve_each_below _ _ _ _ Ht Hs E) as Hout.
    destruct out as [|c out]; [discriminate|]. destruct c as [| | | | | |cs| |]; try discriminate.
    destruct out as [|o1 rest]; [discriminate|]. destruct cs as [|fn cargs]; [discriminate|].
    inversion Hout as [|? ? Hc Hout1]; subst. inversion Hout1 as [|? ? Ho1 Hrest]; subst.
    apply below_complex in Hc. inversion Hc as [|? ? Hfn _]; subst.
    destruct rest as [|o2 rest'].
    - exact (functor_first_below _ _ _ _ _ Ho1 Hfn Hs H).
    - match type of H with bind ?e _ = _ => destruct e as [[s1|]| |] eqn:E1 end; cbn [bind] in H; try discriminate.
      pose proof (functor_first_below _ _ _ _ _ Ho1 Hfn Hs E1) as Hs1.
      inversion Hrest as [|? ? Ho2 _]; subst.
      eapply unify_below; [exact Ho2| |exact Hs1|exact H]. now apply below_novars.
  Qed.

  (* ---- the comparison predicates ---- *)
  Lemma bip_compare_below fuel op ts ss ss' :
    below_ss n ss -> bip_compare fuel op ts ss = Ok (Some ss') -> below_ss n ss'.
  Proof.
    intros Hs H. destruct ts as [ts|]; cbn [bip_compare] in H; [|discriminate].
    destruct (get_two_constants fuel ts ss) as [two| |]; cbn [bind] in H; try discriminate.
    destruct two as [[l r]|]; [|discriminate].
    destruct (compare_constants op l r); inversion H; subst. exact Hs.
  Qed.

  Lemma pure_bip_sol x r s' : pure_bip x = Ok r -> br_sol r = Some s' -> x = Ok (Some s').
  Proof.
    unfold pure_bip. destruct x as [s| |]; cbn [bind]; intros H Hr; try discriminate.
    inversion H; subst. cbn [br_sol] in Hr. now subst.
  Qed.

  (* ---- the dispatch: all sixteen built-in predicates ---- *)
  Theorem run_bip_below_n fuel fn ts s r s' :
    below_args n ts -> below_ss n s -> run_bip fuel fn ts s = Ok r -> br_sol r = Some s' -> below_ss n s'.
  Proof.
    intros Ht Hs H Hr. unfold run_bip in H.
    destruct (str_eqb fn n_print).
    { destruct (bip_print fuel ts s); cbn [bind] in H; try discriminate.
      inversion H; subst. cbn [br_sol] in Hr. inversion Hr; subst. exact Hs. }
    destruct (str_eqb fn n_append); [exact (bip_append_below _ _ _ _ Ht Hs (pure_bip_sol _ _ _ H Hr))|].
    destruct (str_eqb fn n_functor); [exact (bip_functor_below _ _ _ _ Ht Hs (pure_bip_sol _ _ _ H Hr))|].
    destruct (str_eqb fn n_include); [exact (bip_filter_below _ _ _ _ _ Ht Hs (pure_bip_sol _ _ _ H Hr))|].
    destruct (str_eqb fn n_exclude); [exact (bip_filter_below _ _ _ _ _ Ht Hs (pure_bip_sol _ _ _ H Hr))|].
    destruct (str_eqb fn n_print_list).
    { destruct (bip_print_list fuel ts s); cbn [bind] in H; try discriminate.
      inversion H; subst. cbn [br_sol] in Hr. inversion Hr; subst. exact Hs. }
    destruct (str_eqb fn n_unify).
    { destruct ts as [[|l [|r0 rest]]|]; try discriminate.
      - cbn [below_args] in Ht. inversion Ht as [|? ? Hl Ht1]; subst. inversion Ht1 as [|? ? Hr0 _]; subst.
        exact (unify_below _ _ _ _ _ _ Hl Hr0 Hs (pure_bip_sol _ _ _ H Hr)).
      - inversion H; subst. discriminate. }
    destruct (str_eqb fn n_equal); [exact (bip_compare_below _ _ _ _ _ Hs (pure_bip_sol _ _ _ H Hr))|].
    destruct (str_eqb fn n_less_than); [exact (bip_compare_below _ _ _ _ _ Hs (pure_bip_sol _ _ _ H Hr))|].
    destruct (str_eqb fn n_less_than_or_equal); [exact (bip_compare_below _ _ _ _ _ Hs (pure_bip_sol _ _ _ H Hr))|].
    destruct (str_eqb fn n_greater_than); [exact (bip_compare_below _ _ _ _ _ Hs (pure_bip_sol _ _ _ H Hr))|].
    destruct (str_eqb fn n_greater_than_or_equal); [exact (bip_compare_below _ _ _ _ _ Hs (pure_bip_sol _ _ _ H Hr))|].
    destruct (str_eqb fn n_nl); [inversion H; subst; cbn [br_sol] in Hr; inversion Hr; subst; exact Hs|].
    destruct (str_eqb fn n_cut); [inversion H; subst; cbn [br_sol] in Hr; inversion Hr; subst; exact Hs|].
    destruct (str_eqb fn n_count); [exact (bip_count_below _ _ _ _ Ht Hs (pure_bip_sol _ _ _ H Hr))|].
    destruct (str_eqb fn n_fail); [inversion H; subst; discriminate|].
    discriminate.
  Qed.
End BipsBelow.

Theorem run_bip_below n fuel fn ts s r s' :
  below_args n ts -> below_ss n s -> run_bip fuel fn ts s = Ok r -> br_sol r = Some s' -> below_ss n s'.
Proof. apply run_bip_below_n. Qed.

(* ---- 4. the search ---- *)

(* the key local fact: the clause `cclauses_body` fetches at counter `next_id w` has all its
   variable ids strictly above the counter - hence, under the invariant, above every id of the goal
   term, above every slot of the substitution set, and in no term bound there *)
Lemma ss_get_beyond (s : subst) id : N.of_nat (length s) <= id -> ss_get s id = None.
Proof.
  intro H. unfold ss_get. assert (nth_error s (N.to_nat id) = None) as ->; [|reflexivity].
  apply nth_error_None. lia.
Qed.

Lemma below_not_in n t id : below n t -> n < id -> ~ In id (map fst (tvars t)).
Proof.
  intros Ht Hlt Hin. apply in_map_iff in Hin as ([i nm] & E & Hin). cbn [fst] in E. subst i.
  specialize (Ht id nm Hin). lia.
Qed.

Theorem clause_fetched_is_apart kb key idx w r ctr t s :
  get_rule kb key idx (next_id w) = Ok (r, ctr) ->
  below (next_id w) t -> below_ss (next_id w) s ->
  next_id w <= ctr /\
  (forall id name, In (id, name) (rvars r) ->
     next_id w < id <= ctr /\
     ~ In id (map fst (tvars t)) /\
     N.of_nat (length s) <= id /\ ss_get s id = None /\
     (forall i u, ss_get s i = Some u -> ~ In id (map fst (tvars u)))) /\
  below ctr (r_head r) /\ below_goal ctr (r_body r).
Proof.
  intros Hg Ht Hs. destruct (get_rule_spec _ _ _ _ _ _ Hg) as (r0 & rules & _ & _ & _ & Hle & _ & Hf).
  split; [exact Hle|]. split; [|split].
  - intros id name Hin. pose proof (Hf id name Hin) as Hid. destruct Hs as [Hs1 Hs2].
    split; [exact Hid|]. split; [apply (below_not_in _ _ _ Ht); lia|].
    split; [lia|]. split; [apply ss_get_beyond; lia|].
    intros i u Hu. apply (below_not_in _ _ _ (Hs1 i u Hu)). lia.
  - intros id name Hin. assert (In (id, name) (rvars r)) as Hin' by (apply in_or_app; now left).
    specialize (Hf id name Hin'). lia.
  - intros id name Hin. assert (In (id, name) (rvars r)) as Hin' by (apply in_or_app; now right).
    specialize (Hf id name Hin'). lia.
Qed.

Lemma count_rules_id kb key w n w' : count_rules kb key w = (n, w') -> next_id w' = next_id w.
Proof.
  unfold count_rules, query_stopped. destruct w as [i fl af o]. cbn [stop_after stop_flag next_id out].
  destruct af as [[|p]|]; cbn; try (destruct fl); intro H; inversion H; reflexivity.
Qed.

(* what a search, or a continuation, started at counter n delivers: the counter has not gone down and
   every answer is below the final counter *)
Definition res_ok (n : N) (x : cres) : Prop :=
  let '(a, wE, _) := x in n <= next_id wE /\ Forall (below_ss (next_id wE)) a.

Definition kont_ok (n : N) (k : ckont) : Prop :=
  forall s1 w1 c x, below_ss (next_id w1) s1 -> n <= next_id w1 ->
    k s1 w1 c = Ok x -> res_ok (next_id w1) x.

Lemma res_ok_mono n m x : n <= m -> res_ok m x -> res_ok n x.
Proof. destruct x as [[a wE] sg]. cbn [res_ok]. intros Hle [H1 H2]. split; [lia|exact H2]. Qed.

Lemma res_ok_mark n c x : res_ok n x -> res_ok n (mark c x).
Proof. destruct x as [[a wE] sg], c; cbn [mark res_ok]; auto. Qed.

Lemma res_ok_nil n w sg : n <= next_id w -> res_ok n ([], w, sg).
Proof. intro H. cbn [res_ok]. split; [exact H|constructor]. Qed.

Lemma Forall_below_ss_mono n m l : n <= m -> Forall (below_ss n) l -> Forall (below_ss m) l.
Proof. intros Hle H. eapply Forall_impl; [|exact H]. intro s. now apply below_ss_mono. Qed.

(* the answers found so far (up to wa) followed by those of the rest (started at wa) *)
Lemma res_ok_app n a1 wa a2 wE sg sg' :
  res_ok n (a1, wa, sg) -> res_ok (next_id wa) (a2, wE, sg') -> res_ok n (a1 ++ a2, wE, sg').
Proof.
  cbn [res_ok]. intros [H1 H2] [H3 H4]. split; [lia|]. apply Forall_app. split; [|exact H4].
  eapply Forall_below_ss_mono; [exact H3|exact H2].
Qed.

Lemma kont_ok_mono n m k : n <= m -> kont_ok n k -> kont_ok m k.
Proof. intros Hle Hk s1 w1 c x Hs Hm. apply Hk; [exact Hs|lia]. Qed.

Lemma kont_ok_kbump n k : kont_ok n k -> kont_ok n (kbump k).
Proof.
  intros Hk s1 w1 c x Hs Hn H. unfold kbump in H.
  destruct (k s1 w1 false) as [[[a w'] sg]| |] eqn:E; cbn [bind] in H; try discriminate.
  inversion H; subst. exact (Hk _ _ _ _ Hs Hn E).
Qed.

Lemma kont_ok_kwrap n c1 k : kont_ok n k -> kont_ok n (kwrap c1 k).
Proof.
  intros Hk s1 w1 c x Hs Hn H. unfold kwrap in H.
  destruct (k s1 w1 (c1 || c)) as [y| |] eqn:E; cbn [bind] in H; try discriminate.
  inversion H; subst. apply res_ok_mark. exact (Hk _ _ _ _ Hs Hn E).
Qed.

Lemma kont_ok_one n sg : kont_ok n (fun s w _ => Ok ([s], w, sg)).
Proof.
  intros s1 w1 c x Hs Hn H. inversion H; subst. cbn [res_ok]. split; [lia|]. constructor; [exact Hs|constructor].
Qed.

Lemma kont_ok_halt1 n : kont_ok n halt1.
Proof. apply kont_ok_one. Qed.

Section Search.
  Variable kb : kbase.
  Variable bf : nat.

  Definition fresh_solve (f : nat) : Prop :=
    forall g s w k R, below_goal (next_id w) g -> below_ss (next_id w) s -> kont_ok (next_id w) k ->
      csolve kb bf f g s w k = Ok R -> res_ok (next_id w) R.

  Definition fresh_clauses (f : nat) : Prop :=
    forall t s key idx n w k R, below (next_id w) t -> below_ss (next_id w) s -> kont_ok (next_id w) k ->
      cclauses kb bf f t s key idx n w k = Ok R -> res_ok (next_id w) R.

  Lemma below_goal_head n k g rest : below_goal n (GOp k (g :: rest)) -> below_goal n g.
  Proof. intro H. apply below_goal_op in H. now inversion H. Qed.
  Lemma below_goal_tail n k k' g rest : below_goal n (GOp k (g :: rest)) -> below_goal n (GOp k' rest).
  Proof. intro H. apply below_goal_op in H. apply below_goal_op. now inversion H. Qed.

  Lemma fresh_all : forall f, fresh_solve f /\ fresh_clauses f.
  Proof.
    induction f as [|f [IHs IHc]].
    { split; red; intros; discriminate. }
    split.
    - (* csolve *)
      intros g s w k R Hg Hs Hk H. rewrite csolve_S in H. unfold csolve_body in H.
      destruct g as [op gs|fn ts|t|]; try discriminate.
      + destruct op.
        * (* and *)
          destruct gs as [|g1 [|g2 rest]]; try discriminate.
          -- exact (IHs _ _ _ _ _ (below_goal_head _ _ _ _ Hg) Hs Hk H).
          -- refine (IHs _ _ _ _ _ (below_goal_head _ _ _ _ Hg) Hs _ H).
             intros s1 w1 c1 x Hs1 Hn1 H1.
             destruct (csolve kb bf f (GOp OAnd (g2 :: rest)) s1 w1 (kwrap c1 k)) as [y| |] eqn:E;
               cbn [bind] in H1; try discriminate.
             inversion H1; subst. apply res_ok_mark.
             refine (IHs _ _ _ _ _ _ Hs1 _ E).
             ++ eapply below_goal_mono; [exact Hn1|]. exact (below_goal_tail _ _ OAnd _ _ Hg).
             ++ apply kont_ok_kwrap. eapply kont_ok_mono; [exact Hn1|exact Hk].
        * (* or *)
          destruct gs as [|g1 [|g2 rest]]; try discriminate.
          -- exact (IHs _ _ _ _ _ (below_goal_head _ _ _ _ Hg) Hs Hk H).
          -- unfold seq in H.
             destruct (csolve kb bf f g1 s w k) as [[[a1 w1] s1]| |] eqn:E1; cbn [bind] in H; try discriminate.
             pose proof (IHs _ _ _ _ _ (below_goal_head _ _ _ _ Hg) Hs Hk E1) as H1.
             destruct s1; try (inversion H; subst; exact H1).
             destruct (csolve kb bf f (GOp OOr (g2 :: rest)) s w1 k) as [[[a2 w2] s2]| |] eqn:E2;
               cbn [bind] in H; try discriminate.
             inversion H; subst. pose proof H1 as [Hn1 _].
             eapply res_ok_app; [exact H1|].
             refine (IHs _ _ _ _ _ _ _ _ E2).
             ++ eapply below_goal_mono; [exact Hn1|]. exact (below_goal_tail _ _ OOr _ _ Hg).
             ++ eapply below_ss_mono; [exact Hn1|exact Hs].
             ++ eapply kont_ok_mono; [exact Hn1|exact Hk].
        * (* time *)
          destruct gs as [|g1 rest]; try discriminate. destruct (has_cut g1); [discriminate|].
          destruct (csolve kb bf f g1 s w halt1) as [[[a w1] s1]| |] eqn:E1; cbn [bind] in H; try discriminate.
          pose proof (IHs _ _ _ _ _ (below_goal_head _ _ _ _ Hg) Hs (kont_ok_halt1 _) E1) as [Hn1 Ha].
          destruct a as [|s2 a'].
          -- inversion H; subst. apply res_ok_nil. exact Hn1.
          -- inversion Ha as [|? ? Hs2 _]; subst. eapply res_ok_mono; [exact Hn1|].
             exact (Hk s2 (w_print w1 elapsed_token) false R Hs2 Hn1 H).
        * (* not *)
          destruct gs as [|g1 rest]; try discriminate. destruct (has_cut g1); [discriminate|].
          destruct (csolve kb bf f g1 s w halt1) as [[[a w1] s1]| |] eqn:E1; cbn [bind] in H; try discriminate.
          pose proof (IHs _ _ _ _ _ (below_goal_head _ _ _ _ Hg) Hs (kont_ok_halt1 _) E1) as [Hn1 Ha].
          destruct a as [|s2 a'].
          -- eapply res_ok_mono; [exact Hn1|].
             exact (Hk s w1 false R (below_ss_mono _ _ _ Hn1 Hs) Hn1 H).
          -- inversion H; subst. apply res_ok_nil. exact Hn1.
      + (* built-in predicate *)
        apply below_goal_bip in Hg.
        destruct (run_bip bf fn ts s) as [r| |] eqn:Er; cbn [bind] in H; try discriminate.
        destruct (br_sol r) as [s'|] eqn:Esol.
        * destruct (k s' (w_print w (br_out r)) (br_cut r)) as [x| |] eqn:Ek; cbn [bind] in H; try discriminate.
          inversion H; subst. apply res_ok_mark.
          pose proof (run_bip_below _ _ _ _ _ _ _ Hg Hs Er Esol) as Hs'.
          exact (Hk s' (w_print w (br_out r)) (br_cut r) x Hs' (N.le_refl _) Ek).
        * inversion H; subst. apply res_ok_nil. cbn [next_id w_print]. lia.
      + (* call *)
        destruct (term_key t) as [key| |]; cbn [bind] in H; try discriminate.
        destruct (count_rules kb key w) as [n w0] eqn:Ec.
        pose proof (count_rules_id _ _ _ _ _ Ec) as Hid.
        rewrite <- Hid in *. exact (IHc _ _ _ _ _ _ _ _ Hg Hs Hk H).
    - (* cclauses *)
      intros t s key idx n w k R Ht Hs Hk H. rewrite cclauses_S in H. unfold cclauses_body in H.
      destruct (n <=? idx); [inversion H; subst; apply res_ok_nil; lia|].
      destruct (get_rule kb key idx (next_id w)) as [[r ctr]| |] eqn:Eg; cbn [bind] in H; try discriminate.
      destruct (clause_fetched_is_apart _ _ _ _ _ _ _ _ Eg Ht Hs) as (Hle & _ & Hhead & Hbody).
      destruct (unify bf (r_head r) t s) as [[s'|]| |] eqn:Eu; cbn [bind] in H; try discriminate.
      2:{ (* the head does not unify: the counter is restored *)
          exact (IHc t s key (idx + 1) n (w_set_id (w_set_id w ctr) (next_id w)) k R Ht Hs Hk H). }
      pose proof (unify_below ctr _ _ _ _ _ Hhead (below_mono _ _ _ Hle Ht) (below_ss_mono _ _ _ Hle Hs) Eu) as Hs'.
      assert (forall w2 R2, ctr <= next_id w2 ->
                cclauses kb bf f t s key (idx + 1) n w2 k = Ok R2 -> res_ok (next_id w2) R2) as Hrest.
      { intros w2 R2 Hn2 H2. assert (next_id w <= next_id w2) as Hn by lia.
        exact (IHc _ _ _ _ _ _ _ _ (below_mono _ _ _ Hn Ht) (below_ss_mono _ _ _ Hn Hs) (kont_ok_mono _ _ _ Hn Hk) H2). }
      destruct (is_gnil (r_body r)).
      + (* a fact *)
        unfold seq in H.
        destruct (k s' (w_set_id w ctr) false) as [[[a1 w2] s1]| |] eqn:E1; cbn [bind] in H; try discriminate.
        pose proof (Hk s' (w_set_id w ctr) false _ Hs' Hle E1) as H1c. cbn [next_id w_set_id] in H1c.
        pose proof H1c as [Hn2 _].
        pose proof (res_ok_mono _ _ _ Hle H1c) as H1.
        destruct s1; try (inversion H; subst; exact H1).
        destruct (cclauses kb bf f t s key (idx + 1) n w2 k) as [[[a2 w3] s2]| |] eqn:E2; cbn [bind] in H; try discriminate.
        inversion H; subst. eapply res_ok_app; [exact H1|].
        exact (Hrest _ _ Hn2 E2).
      + (* a rule: solve the body *)
        destruct (csolve kb bf f (r_body r) s' (w_set_id w ctr) (kbump k)) as [[[a1 w2] s1]| |] eqn:E1;
          cbn [bind] in H; try discriminate.
        assert (res_ok ctr (a1, w2, s1)) as H1.
        { refine (IHs _ _ (w_set_id w ctr) _ _ Hbody Hs' _ E1).
          apply kont_ok_kbump. cbn [next_id w_set_id]. eapply kont_ok_mono; [exact Hle|exact Hk]. }
        pose proof H1 as [Hn2 _].
        assert (forall sg, res_ok (next_id w) (a1, w2, sg)) as H1'.
        { intro sg. destruct H1 as [Ha Hb]. cbn [res_ok]. split; [lia|exact Hb]. }
        unfold after_body in H. destruct s1 as [|[|m]|]; try (inversion H; subst; apply H1').
        destruct (cclauses kb bf f t s key (idx + 1) n w2 k) as [[[a2 w3] s2]| |] eqn:E2; cbn [bind] in H; try discriminate.
        inversion H; subst. eapply res_ok_app; [apply (H1' Go)|]. exact (Hrest _ _ Hn2 E2).
  Qed.

  (* the reference search: goal and substitution set below the counter, a continuation that keeps
     the invariant - then the counter only grows and every answer is below the final counter *)
  Theorem csolve_fresh fuel g s w k answers w' sg :
    below_goal (next_id w) g -> below_ss (next_id w) s ->
    (forall s1 w1 c a wE sg1, below_ss (next_id w1) s1 -> next_id w <= next_id w1 ->
       k s1 w1 c = Ok (a, wE, sg1) -> next_id w1 <= next_id wE /\ Forall (below_ss (next_id wE)) a) ->
    csolve kb bf fuel g s w k = Ok (answers, w', sg) ->
    next_id w <= next_id w' /\ Forall (below_ss (next_id w')) answers.
  Proof.
    intros Hg Hs Hk H.
    refine (proj1 (fresh_all fuel) g s w k (answers, w', sg) Hg Hs _ H).
    intros s1 w1 c [[a wE] sg1] Hs1 Hn1 H1. exact (Hk _ _ _ _ _ _ Hs1 Hn1 H1).
  Qed.

  Theorem cclauses_fresh fuel t s key idx n w k answers w' sg :
    below (next_id w) t -> below_ss (next_id w) s ->
    (forall s1 w1 c a wE sg1, below_ss (next_id w1) s1 -> next_id w <= next_id w1 ->
       k s1 w1 c = Ok (a, wE, sg1) -> next_id w1 <= next_id wE /\ Forall (below_ss (next_id wE)) a) ->
    cclauses kb bf fuel t s key idx n w k = Ok (answers, w', sg) ->
    next_id w <= next_id w' /\ Forall (below_ss (next_id w')) answers.
  Proof.
    intros Ht Hs Hk H.
    refine (proj2 (fresh_all fuel) t s key idx n w k (answers, w', sg) Ht Hs _ H).
    intros s1 w1 c [[a wE] sg1] Hs1 Hn1 H1. exact (Hk _ _ _ _ _ _ Hs1 Hn1 H1).
  Qed.

  Corollary canswers_fresh fuel q w answers w' :
    below (next_id w) q -> canswers kb bf fuel q w = Ok (answers, w') ->
    Forall (below_ss (next_id w')) answers /\ next_id w <= next_id w'.
  Proof.
    intros Hq H. unfold canswers in H.
    destruct (csolve kb bf fuel (GCall q) [] w (fun s w' _ => Ok ([s], w', Go))) as [[[a w1] sg]| |] eqn:E;
      cbn [bind] in H; try discriminate.
    inversion H; subst.
    destruct (proj1 (fresh_all fuel) _ _ _ _ _ (proj2 (below_goal_call _ _) Hq) (below_ss_nil _) (kont_ok_one _ Go) E)
      as [H1 H2].
    split; assumption.
  Qed.
End Search.

(* ---- 5. the engine model ---- *)

(* a query built by make_query / api_make_query satisfies the hypothesis of canswers_fresh *)
Lemma make_query_below ts g ctr : make_query ts = Ok (g, ctr) -> exists q, g = GCall q /\ below ctr q.
Proof.
  intro H. destruct (make_query_spec _ _ _ H) as (ts' & -> & _ & _ & Hf).
  eexists. split; [reflexivity|]. intros id name Hin. specialize (Hf id name Hin). lia.
Qed.

Lemma api_make_query_below ts w g w' :
  api_make_query ts w = Ok (g, w') -> exists q, g = GCall q /\ below (next_id w') q.
Proof.
  unfold api_make_query. destruct (make_query ts) as [[g0 ctr]| |] eqn:E; cbn [bind]; intro H; try discriminate.
  inversion H; subst. cbn [next_id]. eapply make_query_below; eauto.
Qed.

Lemma In_firstn {A} (x : A) : forall n l, In x (firstn n l) -> In x l.
Proof.
  induction n as [|n IH]; intros [|y l] H; cbn [firstn] in H; try contradiction.
  destruct H as [->|H]; [now left|right; now apply IH].
Qed.

(* asking the query's node until it reports no answer (Proofs/RefineCut.v `ask_all`; theorem
   refines_cut = C01_refines): every substitution set the ENGINE returns is below the engine's
   final counter, which is not below the initial one *)
Theorem engine_answers_fresh kb bf q w fs R nd w1 m F answers wE :
  below (next_id w) q ->
  canswers kb bf fs q w = Ok R ->
  make_base_node kb (GCall q) w = Ok (nd, w1) ->
  ask_all kb bf m F nd w1 = Ok (answers, wE) ->
  Forall (below_ss (next_id wE)) answers /\ next_id w <= next_id wE.
Proof.
  intros Hq Ha Hm Hd. pose proof (refines_cut _ _ _ _ _ _ _ _ _ _ _ Ha Hm Hd) as <-.
  exact (canswers_fresh _ _ _ _ _ _ _ Hq Ha).
Qed.

Lemma base_node_cden kb bf q w fs a wR nd w1 :
  canswers kb bf fs q w = Ok (a, wR) -> make_base_node kb (GCall q) w = Ok (nd, w1) ->
  ncutb nd = true /\ exists fs' g, (1 <= fs')%nat /\ cden kb bf fs' nd w1 collect = Ok (a, wR, g).
Proof.
  intros Ha Hm.
  assert (make_node kb (GCall q) [] w = Ok (nd, w1)) as Hm' by exact Hm.
  split; [eapply make_node_ncut; [|exact Hm']; reflexivity|].
  unfold canswers in Ha.
  destruct (csolve kb bf fs (GCall q) [] w (fun s w0 _ => Ok ([s], w0, Go))) as [[[a0 wE] g]| |] eqn:Ec;
    cbn [bind] in Ha; try discriminate.
  inversion Ha; subst. destruct fs as [|f0]; [discriminate|].
  exists (S f0), g. split; [lia|].
  eapply (cden_fresh kb bf (GCall q) (S f0) (S f0)); [exact Hm'|lia|apply ckle_refl|exact Ec].
Qed.

(* requests one after the other, each with whatever search fuel (Proofs/SolveQuiet.v `Asks`, also
   beyond exhaustion; theorem asks_are_reference_answers = C01_requests_are_the_reference_answers):
   every answer the engine returns is one of the reference's and is below the reference's final
   counter *)
Theorem engine_requests_fresh kb bf q w fs a wR nd w1 rs nd' w' :
  below (next_id w) q ->
  canswers kb bf fs q w = Ok (a, wR) ->
  make_base_node kb (GCall q) w = Ok (nd, w1) ->
  Asks kb bf nd w1 rs nd' w' ->
  (forall s, In (Some s) rs -> In s a /\ below_ss (next_id wR) s) /\
  next_id w <= next_id wR /\
  ((length a < length rs)%nat -> w' = wR).
Proof.
  intros Hq Ha Hm HA.
  destruct (canswers_fresh _ _ _ _ _ _ _ Hq Ha) as [Hall Hle].
  destruct (base_node_cden _ _ _ _ _ _ _ _ _ Ha Hm) as (Hn & fs' & g & Hfs & HD).
  destruct (asks_are_reference_answers _ _ _ _ _ _ _ HA fs' a wR g Hn Hfs HD) as [Hr Hw].
  split; [|split; [exact Hle|exact Hw]].
  intros s Hin. rewrite Hr in Hin. apply in_app_or in Hin as [Hin|Hin].
  - apply in_map_iff in Hin as (s0 & E & Hin). inversion E; subst s0.
    apply In_firstn in Hin. split; [exact Hin|]. rewrite Forall_forall in Hall. now apply Hall.
  - apply repeat_spec in Hin. discriminate.
Qed.

(* the request loop of solve_all, each request with whatever fuel (Proofs/SolveQuiet.v `Drain`) *)
Theorem engine_drain_fresh kb bf q w fs R nd w1 answers wE :
  below (next_id w) q ->
  canswers kb bf fs q w = Ok R ->
  make_base_node kb (GCall q) w = Ok (nd, w1) ->
  Drain kb bf nd w1 answers wE ->
  Forall (below_ss (next_id wE)) answers /\ next_id w <= next_id wE.
Proof.
  intros Hq Ha Hm Hd. destruct R as [a wR].
  destruct (base_node_cden _ _ _ _ _ _ _ _ _ Ha Hm) as (Hn & fs' & g & Hfs & HD).
  pose proof (drain_is_cden _ _ _ _ _ _ Hd fs' a wR g Hn Hfs HD) as Heq. inversion Heq; subst.
  exact (canswers_fresh _ _ _ _ _ _ _ Hq Ha).
Qed.
