(* C19 closed: goals and rules built from the leaves of Proofs/GoalLeafParse.v satisfy the
   hypotheses of Proofs/GoalRoundtrip.v for the REAL leaf parsers parse_subgoal and
   parse_complex.  Hence, with no assumption about a leaf parser: Display gives the canonical
   text, and generate_goal / parse_rule give the goal / the rule back. *)
From Coq Require Import Lia String.
From Suiron Require Import Model.Tokenizer Model.ParseRule Proofs.TokenizerStream Proofs.TokenizerProofs
  Proofs.GoalRoundtrip.
From Suiron Require Import Model.ParseTerm Model.ParseGoal Model.Show Model.ShowGoal.
From Suiron Require Import Proofs.ParseTermProofs Proofs.ParseRoundtrip.
From Suiron Require Import Proofs.TermRoundtrip Proofs.TermRoundtripText Proofs.TermRoundtripComplex
  Proofs.TermRoundtripList Proofs.TermRoundtripMain Proofs.GoalLeafText Proofs.GoalLeafParse.
Open Scope N_scope.

(* ---- the classes ---- *)
Inductive closed_goal : goal -> Prop :=
| cg_leaf l : closed_leaf l -> closed_goal l
| cg_and gs : (2 <= length gs)%nat -> (forall g, In g gs -> closed_goal g) -> closed_goal (GOp OAnd gs)
| cg_or gs : (2 <= length gs)%nat -> (forall g, In g gs -> closed_goal g) -> closed_goal (GOp OOr gs).

Inductive closed_head : term -> Prop :=
| ch_intro f ts : goal_functor f = true -> ts <> [] -> (forall t, In t ts -> canonical t) ->
    (length (show_term (TComplex (TAtom f :: ts))) <= 1000)%nat ->
    closed_head (TComplex (TAtom f :: ts))
| ch_intro0 f : goal_functor0 f = true -> (length (show_term (TComplex [TAtom f])) <= 1000)%nat ->
    closed_head (TComplex [TAtom f]).

Definition closed_rule (r : rule) : Prop :=
  closed_head (r_head r) /\ (r_body r = GNil \/ closed_goal (r_body r)).

(* ---- format_list ---- *)
Definition fl_go (sep : str) : bool -> list str -> str :=
  fix go (first : bool) (l : list str) : str :=
    match l with
    | [] => []
    | op :: l' => (if first then op else sep ++ op) ++ go false l'
    end.

Lemma fl_go_cons sep first op l :
  fl_go sep first (op :: l) = (if first then op else sep ++ op) ++ fl_go sep false l.
Proof. reflexivity. Qed.

Lemma format_list_go ops sep : format_list ops sep = fl_go sep true ops.
Proof. reflexivity. Qed.

Lemma fl_go_length sep : forall l first op, In op l -> (length op <= length (fl_go sep first l))%nat.
Proof.
  induction l as [|x l IH]; intros first op Hin; [contradiction|].
  rewrite fl_go_cons, app_length. destruct Hin as [->|Hin].
  - destruct first; [lia|rewrite app_length; lia].
  - specialize (IH false op Hin). lia.
Qed.

Lemma fl_go_forall (P : N -> Prop) sep : Forall P sep -> forall l first,
  (forall op, In op l -> Forall P op) -> Forall P (fl_go sep first l).
Proof.
  intros Hsep. induction l as [|x l IH]; intros first H; [constructor|].
  rewrite fl_go_cons. apply Forall_app. split.
  - destruct first; [apply H; now left|]. apply Forall_app. split; [exact Hsep|apply H; now left].
  - apply IH. intros op Hop. apply H. now right.
Qed.

Lemma operand_text_length ga x s : (length s <= length (operand_text ga x s))%nat.
Proof.
  unfold operand_text. destruct (needs_group ga x); [|lia].
  rewrite !app_length. cbn [length]. lia.
Qed.

Lemma operand_text_nocolon ga x s : nocolon s -> nocolon (operand_text ga x s).
Proof.
  intros H. unfold operand_text. destruct (needs_group ga x); [|exact H].
  unfold nocolon. apply Forall_app. split; [repeat constructor|].
  apply Forall_app. split; [exact H|repeat constructor].
Qed.

Lemma text_leaf l : is_leaf_goal l = true -> text l = leaf_text l.
Proof. destruct l as [[] gs| | |]; try reflexivity; discriminate. Qed.

Lemma text_and gs :
  text (GOp OAnd gs) = fl_go sep_comma true (map (fun x => operand_text true x (text x)) gs).
Proof. reflexivity. Qed.

Lemma text_or gs :
  text (GOp OOr gs) = fl_go sep_semicolon true (map (fun x => operand_text false x (text x)) gs).
Proof. reflexivity. Qed.

Lemma operands_facts sep ga gs :
  nocolon sep ->
  (forall g, In g gs -> nocolon (text g)) ->
  nocolon (fl_go sep true (map (fun x => operand_text ga x (text x)) gs)) /\
  forall g, In g gs ->
    (length (text g) <= length (fl_go sep true (map (fun x => operand_text ga x (text x)) gs)))%nat.
Proof.
  intros Hsep Hn. split.
  - apply fl_go_forall; [exact Hsep|]. intros op Hop.
    apply in_map_iff in Hop as (x & <- & Hx). apply operand_text_nocolon. now apply Hn.
  - intros g Hg. eapply Nat.le_trans; [apply (operand_text_length ga g)|].
    apply fl_go_length. apply in_map_iff. exists g. split; [reflexivity|exact Hg].
Qed.

(* ---- closed goals are canonical for the real parse_subgoal ---- *)
Lemma closed_goal_facts g : closed_goal g ->
  nocolon (text g) /\
  forall F, (length (text g) + 2 <= F)%nat -> canonical_goal (parse_subgoal F) g.
Proof.
  induction 1 as [l Hl|gs Hlen Hgs IH|gs Hlen Hgs IH].
  - rewrite (text_leaf l (closed_leaf_is_leaf l Hl)). split.
    + destruct (closed_leaf_facts l Hl) as (t & [Hs Lt _ _]). unfold leaf_text. rewrite Hs.
      apply (lt_nocolon t Lt).
    + intros F HF. apply can_leaf. now apply closed_leaf_ok.
  - rewrite text_and.
    destruct (operands_facts sep_comma true gs ltac:(repeat constructor)
                (fun g Hg => proj1 (IH g Hg))) as [Hn Hl].
    split; [exact Hn|]. intros F HF. apply can_and; [exact Hlen|].
    apply Forall_forall. intros g Hg. apply (IH g Hg). specialize (Hl g Hg). lia.
  - rewrite text_or.
    destruct (operands_facts sep_semicolon false gs ltac:(repeat constructor)
                (fun g Hg => proj1 (IH g Hg))) as [Hn Hl].
    split; [exact Hn|]. intros F HF. apply can_or; [exact Hlen|].
    apply Forall_forall. intros g Hg. apply (IH g Hg). specialize (Hl g Hg). lia.
Qed.

Lemma nocolon_neckfree s : nocolon s -> neckfree s = true.
Proof.
  induction s as [|c s IH]; intros H; [reflexivity|].
  inversion H as [|x l Hc Hs]; subst. destruct s as [|d s']; [reflexivity|].
  cbn [neckfree]. rewrite Hc. cbn [andb]. now apply IH.
Qed.

(* goals *)
Theorem roundtrip_goal_closed : forall g F fuel,
  closed_goal g -> (length (text g) + 2 <= F)%nat -> (2 * length (text g) + 3 <= fuel)%nat ->
  show_goal g = Ok (text g) /\ generate_goal (parse_subgoal F) fuel (text g) = Ok (POk g).
Proof.
  intros g F fuel Hg HF Hfuel. apply roundtrip_goal; [|exact Hfuel].
  now apply (closed_goal_facts g Hg).
Qed.

(* ---- the head ---- *)
Lemma parse_complex_call_canonical F f ts :
  simple_atom f = true -> ts <> [] -> (forall t, In t ts -> canonical t) ->
  (length (call_text f (map show_term ts)) <= 1000)%nat ->
  (length (call_text f (map show_term ts)) + 2 <= F)%nat ->
  parse_complex F (call_text f (map show_term ts)) = Ok (POk (TComplex (TAtom f :: ts))).
Proof.
  intros Hf Hne Hc Hlen HF. rewrite call_text_length in HF.
  assert (Hg : Forall good (map show_term ts)).
  { apply Forall_forall. intros p Hp. apply gtext_good. now apply (args_gtext ts Hc). }
  assert (Hmne : map show_term ts <> []) by (destruct ts; [now elim Hne|discriminate]).
  unfold parse_complex, call_text in *.
  rewrite parse_complex_body_call; [|now apply simple_atom_functor_ok| |exact Hlen].
  2:{ unfold parens_balanced. apply N.eqb_eq. apply (i_bal _ (inner_join _ Hg)). }
  unfold parse_functor_terms.
  destruct (join_ends _ Hmne Hg) as (Hbne & _ & _).
  rewrite (match_nonempty (join_strs sep_comma (map show_term ts))) by exact Hbne.
  destruct F as [|fuel]; [lia|].
  rewrite (parse_arguments_pieces fuel (map show_term ts) ts Hmne Hg).
  - cbn [pbind]. now rewrite (word_trimmed f (simple_atom_word f Hf)).
  - apply (canonical_args_parse (S fuel) ts (length (join_strs sep_comma (map show_term ts)))); [exact Hc| |lia].
    intros t Hin. apply join_length_ge. now apply in_map.
Qed.

Lemma parse_complex_call_empty F f :
  simple_atom f = true -> (length (call_text f []) <= 1000)%nat ->
  parse_complex F (call_text f []) = Ok (POk (TComplex [TAtom f])).
Proof.
  intros Hf Hlen. unfold parse_complex, call_text in *. cbn [join_strs] in *.
  rewrite parse_complex_body_call; [|now apply simple_atom_functor_ok|reflexivity|exact Hlen].
  unfold parse_functor_terms. now rewrite (word_trimmed f (simple_atom_word f Hf)).
Qed.

Lemma closed_head_canonical h F : closed_head h -> (length (show_term h) + 2 <= F)%nat ->
  canonical_head (parse_subgoal F) (parse_complex F) h.
Proof.
  intros [f ts Hf Hne Hc Hlen|f Hf Hlen] HF.
  2:{ change (show_term (TComplex [TAtom f])) with (call_text f []) in *.
      destruct (goal_functor0_facts f Hf) as (Hs & Ht & Hn & Hmk).
      destruct (call_text_ltext f [] Hs ltac:(intros t [])) as [Lt _]. cbn [map] in Lt.
      constructor; change (show_term (TComplex [TAtom f])) with (call_text f []).
      - pose proof (lt_ne _ Lt) as Hne'. pose proof (lt_hd _ Lt) as Hh.
        destruct (call_text f []) as [|c r]; [now elim Hne'|].
        exists c, r. split; [reflexivity|]. now apply printable_not_tk_white.
      - apply nocolon_neckfree. apply (lt_nocolon _ Lt).
      - now apply parse_complex_call_empty.
      - rewrite (parse_subgoal_trim_eq F _ (call_text f []))
          by (apply trim_app_white; reflexivity).
        destruct F as [|fuel]; [lia|].
        rewrite parse_subgoal_call_empty by assumption. now rewrite Hmk. }
  rewrite show_complex_text in *.
  destruct (goal_functor_facts f Hf) as (Hs & Ht & Hn).
  destruct (call_text_ltext f ts Hs Hc) as [Lt _].
  constructor; rewrite show_complex_text.
  - pose proof (lt_ne _ Lt) as Hne'. pose proof (lt_hd _ Lt) as Hh.
    destruct (call_text f (map show_term ts)) as [|c r]; [now elim Hne'|].
    exists c, r. split; [reflexivity|]. now apply printable_not_tk_white.
  - apply nocolon_neckfree. apply (lt_nocolon _ Lt).
  - now apply parse_complex_call_canonical.
  - rewrite (parse_subgoal_trim_eq F _ (call_text f (map show_term ts)))
      by (apply trim_app_white; reflexivity).
    rewrite parse_subgoal_call_canonical by assumption. now rewrite make_goal_call.
Qed.

Lemma rule_text_lengths r :
  (length (show_term (r_head r)) <= length (rule_text r))%nat /\
  (goal_eqb (r_body r) GNil = false -> (length (text (r_body r)) <= length (rule_text r))%nat).
Proof.
  unfold rule_text. destruct (goal_eqb (r_body r) GNil).
  - split; [rewrite app_length; lia|discriminate].
  - split; [rewrite app_length; lia|]. intros _. rewrite !app_length. lia.
Qed.

Lemma closed_rule_canonical r F : closed_rule r -> (length (rule_text r) + 2 <= F)%nat ->
  canonical_rule (parse_subgoal F) (parse_complex F) r.
Proof.
  intros [Hh Hb] HF. destruct (rule_text_lengths r) as [L1 L2]. split.
  - apply closed_head_canonical; [exact Hh|lia].
  - destruct Hb as [Hb|Hb]; [now left|]. right.
    destruct (closed_goal_facts _ Hb) as [Hn Hcan].
    assert (Hcg : canonical_goal (parse_subgoal (length (text (r_body r)) + 2)) (r_body r))
      by (apply Hcan; lia).
    pose proof (canonical_not_nil _ _ Hcg) as Hnil. specialize (L2 Hnil).
    split; [apply Hcan; lia|now apply nocolon_neckfree].
Qed.

(* rules *)
Theorem roundtrip_rule_closed : forall r F fuel,
  closed_rule r -> (length (rule_text r) + 2 <= F)%nat -> (2 * length (rule_text r) + 3 <= fuel)%nat ->
  show_rule r = Ok (rule_text r) /\
  parse_rule (parse_subgoal F) (parse_complex F) fuel (rule_text r) = Ok (POk r).
Proof.
  intros r F fuel Hr HF Hfuel. apply roundtrip_rule; [|exact Hfuel]. now apply closed_rule_canonical.
Qed.
