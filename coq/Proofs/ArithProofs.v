From Coq Require Import Lia.
From Suiron Require Import Model.Term Model.Subst Model.Arith Spec.SpecCompare Spec.SpecArith Proofs.CompareProofs.
Open Scope Z_scope.

Definition aop_of (op : arithop) : aop :=
  match op with AAdd => SAdd | ASub => SSub | AMul => SMul | ADiv => SDiv end.

Lemma in_i64_iff z : Arith.in_i64 z = true <-> SpecArith.in_i64 z.
Proof.
  unfold Arith.in_i64, SpecArith.in_i64, i64_min, i64_max.
  rewrite andb_true_iff, !Z.leb_le. reflexivity.
Qed.

Lemma int_fold_spec op : forall xs acc,
  int_safe (aop_of op) acc xs -> int_fold op acc xs = Ok (fold_left (zop (aop_of op)) xs acc).
Proof.
  induction xs as [|x xs IH]; intros acc Hs; simpl; [reflexivity|].
  destruct Hs as (Hz & Hr & Hs).
  assert (int_step op acc x = Ok (zop (aop_of op) acc x)) as ->.
  { apply in_i64_iff in Hr. destruct op; simpl in *; unfold chk; try now rewrite Hr.
    destruct (Z.eqb_spec x 0) as [->|_]; [now specialize (Hz eq_refl)|]. now rewrite Hr. }
  simpl. now apply IH.
Qed.

(* conversely: a run that does not panic computed the fold, and met no exclusion *)
Lemma int_fold_ok op : forall xs acc v,
  int_fold op acc xs = Ok v -> v = fold_left (zop (aop_of op)) xs acc /\ int_safe (aop_of op) acc xs.
Proof.
  induction xs as [|x xs IH]; intros acc v H; simpl in *.
  - inversion H; auto.
  - destruct (int_step op acc x) as [a| |] eqn:E; simpl in H; try discriminate.
    assert (a = zop (aop_of op) acc x /\ (aop_of op = SDiv -> x <> 0) /\ SpecArith.in_i64 a) as (-> & Hz & Hr).
    { destruct op; simpl in *; unfold chk in E;
        try (destruct (Arith.in_i64 _) eqn:Ei; inversion E; subst;
             repeat split; try discriminate; now apply in_i64_iff).
      destruct (Z.eqb_spec x 0); [discriminate|].
      destruct (Arith.in_i64 _) eqn:Ei; inversion E; subst.
      split; [reflexivity|]. split; [auto|]. now apply in_i64_iff. }
    apply IH in H as [-> Hs]. split; [reflexivity|]. simpl. split; [assumption|]. split; assumption.
Qed.

Lemma float_fold_spec op xs acc : float_fold op acc xs = fold_left (fop (aop_of op)) xs acc.
Proof.
  unfold float_fold. revert acc; induction xs as [|x xs IH]; intro acc; simpl; [reflexivity|].
  rewrite IH. f_equal. destruct op; reflexivity.
Qed.

(* get_numbers returns exactly the resolved numbers *)
Definition num_of (n : snumber) : num := match n with NInt z => NumI z | NFloat f => NumF f end.

Lemma get_numbers_spec fuel ss : forall args ns hf,
  get_numbers fuel args ss = Ok (ns, hf) ->
  resolve_nums ss args (map num_of ns) /\ hf = existsb is_float (map num_of ns).
Proof.
  induction args as [|a args IH]; intros ns hf H; simpl in H.
  - inversion H; subst. split; [constructor|reflexivity].
  - destruct (get_ground_term fuel a ss) as [[g|]| |] eqn:E; simpl in H; try discriminate.
    apply ggt_chain in E.
    destruct g; try discriminate.
    + destruct (get_numbers fuel args ss) as [[ns' hf']| |] eqn:E2; simpl in H; try discriminate.
      inversion H; subst. destruct (IH _ _ eq_refl) as [Hr Hf]. split.
      * constructor; assumption.
      * reflexivity.
    + destruct (get_numbers fuel args ss) as [[ns' hf']| |] eqn:E2; simpl in H; try discriminate.
      inversion H; subst. destruct (IH _ _ eq_refl) as [Hr Hf]. split.
      * constructor; assumption.
      * simpl. assumption.
Qed.

Lemma resolve_nums_fun ss args ns1 ns2 :
  resolve_nums ss args ns1 -> resolve_nums ss args ns2 -> ns1 = ns2.
Proof.
  intros H1; revert ns2; induction H1 as [|a n args ns Ha H IH]; intros ns2 H2; inversion H2; subst.
  - reflexivity.
  - f_equal; [|now apply IH].
    match goal with Hc : chain ss a (Some (num_term ?y)) |- _ =>
      pose proof (chain_fun _ _ _ _ Ha Hc) as Heq end.
    inversion Heq as [Hn]. destruct n, y; simpl in Hn; congruence.
Qed.

Lemma get_floats_map ns : get_floats ns = map as_float (map num_of ns).
Proof. unfold get_floats. rewrite map_map. apply map_ext. intros []; reflexivity. Qed.

Lemma get_integers_map ns : existsb is_float (map num_of ns) = false ->
  get_integers ns = map as_int (map num_of ns).
Proof.
  induction ns as [|[f|z] ns IH]; simpl; intro H; try discriminate; [reflexivity|].
  f_equal. now apply IH.
Qed.

(* ---- C12: a finished evaluation is the specified fold ---- *)
Lemma evaluate_spec fuel op args ss v :
  evaluate fuel op args ss = Ok v ->
  exists ns, resolve_nums ss args ns /\ spec_value (aop_of op) ns = Some v /\ ints_safe (aop_of op) ns.
Proof.
  unfold evaluate. intro H.
  destruct (get_numbers fuel args ss) as [[ns hf]| |] eqn:E; simpl in H; try discriminate.
  apply get_numbers_spec in E as [Hr ->]. exists (map num_of ns). split; [assumption|].
  unfold spec_value, ints_safe.
  destruct (existsb is_float (map num_of ns)) eqn:Ef.
  - split; [|now left]. rewrite <- get_floats_map.
    destruct op; simpl in *.
    + inversion H; subst. now rewrite float_fold_spec.
    + destruct (get_floats ns); [discriminate|]. inversion H; subst. now rewrite float_fold_spec.
    + inversion H; subst. now rewrite float_fold_spec.
    + destruct (get_floats ns); [discriminate|]. inversion H; subst. now rewrite float_fold_spec.
  - rewrite <- (get_integers_map _ Ef).
    destruct op; simpl in *.
    + destruct (int_fold AAdd 0 (get_integers ns)) eqn:Ei; simpl in H; try discriminate.
      inversion H; subst. apply int_fold_ok in Ei as [-> Hs]. split; [reflexivity|now right].
    + destruct (get_integers ns) as [|f r]; [discriminate|].
      destruct (int_fold ASub f r) eqn:Ei; simpl in H; try discriminate.
      inversion H; subst. apply int_fold_ok in Ei as [-> Hs]. split; [reflexivity|now right].
    + destruct (int_fold AMul 1 (get_integers ns)) eqn:Ei; simpl in H; try discriminate.
      inversion H; subst. apply int_fold_ok in Ei as [-> Hs]. split; [reflexivity|now right].
    + destruct (get_integers ns) as [|f r]; [discriminate|].
      destruct (int_fold ADiv f r) eqn:Ei; simpl in H; try discriminate.
      inversion H; subst. apply int_fold_ok in Ei as [-> Hs]. split; [reflexivity|now right].
Qed.

(* ---- and conversely: inside the claim the evaluation finishes with that value ---- *)
Lemma get_numbers_complete ss : forall args ns,
  resolve_nums ss args ns ->
  exists fuel0, forall fuel, (fuel0 <= fuel)%nat ->
    exists sn, get_numbers fuel args ss = Ok (sn, existsb is_float ns) /\ map num_of sn = ns.
Proof.
  induction 1 as [|a n args ns Ha H [f1 IH]].
  - exists O. intros fuel _. exists []. split; reflexivity.
  - destruct (chain_ggt _ _ _ Ha) as [f0 Hf0]. exists (Nat.max f0 f1). intros fuel Hle.
    destruct (IH fuel) as (sn & E & Em); [lia|]. simpl. rewrite (Hf0 fuel) by lia. simpl.
    destruct n as [z|f]; simpl; rewrite E; simpl.
    + exists (NInt z :: sn). split; [reflexivity|]. simpl. now rewrite Em.
    + exists (NFloat f :: sn). split; [reflexivity|]. simpl. now rewrite Em.
Qed.

Lemma evaluate_complete op args ss ns v :
  resolve_nums ss args ns -> ints_safe (aop_of op) ns -> spec_value (aop_of op) ns = Some v ->
  exists fuel0, forall fuel, (fuel0 <= fuel)%nat -> evaluate fuel op args ss = Ok v.
Proof.
  intros Hr Hs Hv. destruct (get_numbers_complete _ _ _ Hr) as [f0 Hf]. exists f0. intros fuel Hle.
  destruct (Hf fuel Hle) as (sn & E & <-). unfold evaluate. rewrite E. simpl.
  unfold spec_value in Hv. unfold ints_safe in Hs.
  destruct (existsb is_float (map num_of sn)) eqn:Ef.
  - rewrite <- get_floats_map in Hv.
    destruct op; simpl in *.
    + inversion Hv. now rewrite float_fold_spec.
    + destruct (get_floats sn); [discriminate|]. inversion Hv. now rewrite float_fold_spec.
    + inversion Hv. now rewrite float_fold_spec.
    + destruct (get_floats sn); [discriminate|]. inversion Hv. now rewrite float_fold_spec.
  - destruct Hs as [Hs|Hs]; [discriminate|].
    rewrite <- (get_integers_map _ Ef) in Hv, Hs.
    destruct op; simpl in *.
    + rewrite (int_fold_spec AAdd _ _ Hs). simpl. now inversion Hv.
    + destruct (get_integers sn) as [|f r]; [discriminate|].
      rewrite (int_fold_spec ASub _ _ Hs). simpl. now inversion Hv.
    + rewrite (int_fold_spec AMul _ _ Hs). simpl. now inversion Hv.
    + destruct (get_integers sn) as [|f r]; [discriminate|].
      rewrite (int_fold_spec ADiv _ _ Hs). simpl. now inversion Hv.
Qed.
