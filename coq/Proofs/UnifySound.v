(* C06 (soundness): a successful unification returns a substitution that keeps every earlier
   binding and under which both terms denote the same term. *)
From Coq Require Import Lia.
From Suiron Require Import Model.Term Model.Subst Model.Show Model.Lists Model.Arith Model.Unify
  Spec.SpecUnify Proofs.SubstLemmas Proofs.UnifyInv Proofs.UnifyProps.
Open Scope N_scope.

(* ---- teq: monotone in the substitution, symmetric, reflexive ---- *)
Lemma teq_mono ss ss' : keeps ss ss' -> forall a b, teq ss a b -> teq ss' a b.
Proof.
  intro Hk.
  apply (teq_mut ss (fun a b _ => teq ss' a b) (fun ls rs _ => teq_args ss' ls rs));
    intros; try (constructor; auto; fail).
  - eapply teq_var_l; eauto.
  - eapply teq_var_r; eauto.
Qed.

Lemma teq_sym ss : forall a b, teq ss a b -> teq ss b a.
Proof.
  apply (teq_mut ss (fun a b _ => teq ss b a) (fun ls rs _ => teq_args ss rs ls));
    intros; try (constructor; auto; fail).
  - constructor. destruct o as [->|H]; [now left|right].
    unfold feqb, fcmp in *. rewrite (Flocq.IEEE754.Binary.Bcompare_swap 53 1024 f1 f2).
    destruct (Flocq.IEEE754.Binary.Bcompare 53 1024 f1 f2) as [[| |]|]; try discriminate; reflexivity.
  - eapply teq_var_r; eauto.
  - eapply teq_var_l; eauto.
Qed.

Lemma teq_refl ss : forall t, fn_free t = true -> teq ss t t.
Proof.
  induction t as [| |a0|f0|z0|id0 nm0|ts Hts|a n c tv IHa IHn|nm args Hargs] using term_ind';
    intro Hf; try (constructor; auto; fail).
  - constructor. simpl in Hf. induction Hts as [|x l Hx Hl IH]; [constructor|].
    simpl in Hf. apply andb_true_iff in Hf as [H1 H2]. constructor; auto.
  - simpl in Hf. apply andb_true_iff in Hf as [H1 H2]. destruct tv.
    + apply teq_tail_both; auto.
    + apply teq_list_nodes; auto.
  - discriminate.
Qed.

(* Rust's derived `==` on terms implies teq *)
Lemma term_eqb_teq ss : forall a b, fn_free a = true -> term_eqb a b = true -> teq ss a b.
Proof.
  induction a as [| |a0|f0|z0|id0 nm0|ts Hts|a n c tv IHa IHn|nm args Hargs] using term_ind';
    intros b Hf H; destruct b; simpl in H; try discriminate; try (constructor; fail).
  - apply str_eqb_eq in H. subst. constructor.
  - constructor. now right.
  - apply Z.eqb_eq in H. subst. constructor.
  - apply andb_true_iff in H as [H1 _]. apply N.eqb_eq in H1. subst. constructor.
  - constructor. simpl in Hf. revert ts0 H. induction Hts as [|x l Hx Hl IH]; intros [|y r] H; try discriminate.
    + constructor.
    + simpl in Hf. apply andb_true_iff in Hf as [F1 F2]. apply andb_true_iff in H as [H1 H2].
      constructor; auto.
  - simpl in Hf. apply andb_true_iff in Hf as [F1 F2].
    apply andb_true_iff in H as [H H4]. apply andb_true_iff in H as [H H3]. apply andb_true_iff in H as [H1 H2].
    apply Bool.eqb_prop in H4. subst. destruct tv0.
    + apply teq_tail_both; auto.
    + apply teq_list_nodes; auto.
Qed.

(* the alias test: when the chain of bindings from `o` reaches the variable id, o and the
   variable denote the same thing *)
Lemma chain_reaches_teq f : forall id n o ss, chain_reaches f id o ss = Ok true -> teq ss (TVar id n) o.
Proof.
  induction f as [|f IH]; intros id n o ss H; destruct o; simpl in H; try discriminate.
  - destruct (N.eqb_spec id0 id) as [->|_]; [constructor|].
    destruct (ss_get ss id0); discriminate.
  - destruct (N.eqb_spec id0 id) as [->|_]; [constructor|].
    destruct (ss_get ss id0) as [t|] eqn:Eg; [|discriminate].
    eapply teq_var_r; eauto.
Qed.

Lemma keeps_extends ss ss' : extends ss ss' <-> keeps ss ss'.
Proof. split; intro H; exact H. Qed.

(* ---- soundness ---- *)
Definition wf2 (t : term) : bool := wf_term t && fn_free t.
Definition wf2_ss (ss : subst) : Prop := forall i t, ss_get ss i = Some t -> wf2 t = true.

Lemma wf2_split t : wf2 t = true -> wf_term t = true /\ fn_free t = true.
Proof. unfold wf2. intro H. now apply andb_true_iff in H. Qed.
Lemma wf2_join t : wf_term t = true -> fn_free t = true -> wf2 t = true.
Proof. unfold wf2. intros -> ->. reflexivity. Qed.
Lemma wf2_ss_wf ss : wf2_ss ss -> wf_ss ss.
Proof. intros H i t Hg. exact (proj1 (wf2_split _ (H i t Hg))). Qed.
Lemma wf2_ss_set ss id t : wf2_ss ss -> wf2 t = true -> wf2_ss (ss_set ss id t).
Proof.
  intros Hs Ht j u Hj. destruct (N.eq_dec j id) as [->|Hne].
  - rewrite ss_get_set_same in Hj. now inversion Hj; subst.
  - rewrite ss_get_set_other in Hj by assumption. eauto.
Qed.

Definition sound (rec : term -> term -> subst -> res (option subst)) : Prop :=
  forall a b ss ss', wf2 a = true -> wf2 b = true -> wf2_ss ss ->
    rec a b ss = Ok (Some ss') -> teq ss' a b /\ keeps ss ss' /\ wf2_ss ss'.

Lemma keeps_refl s : keeps s s. Proof. intros i t H; exact H. Qed.
Lemma keeps_trans a b c : keeps a b -> keeps b c -> keeps a c.
Proof. intros H1 H2 i t H. apply H2, H1, H. Qed.

Section Body.
  Variable rec : term -> term -> subst -> res (option subst).
  Hypothesis Hrec : sound rec.

  Lemma wf2_complex_inv f rest : wf2 (TComplex (f :: rest)) = true ->
    (exists s, f = TAtom s) /\ forallb wf2 rest = true.
  Proof.
    intro H. apply wf2_split in H as [H1 H2]. apply wf_complex_inv in H1 as [Ha Hr].
    split; [exact Ha|]. simpl in H2. apply andb_true_iff in H2 as [_ H2].
    clear Ha. induction rest as [|x r IH]; [reflexivity|]. simpl in *.
    apply andb_true_iff in Hr as [R1 R2]. apply andb_true_iff in H2 as [F1 F2].
    rewrite (wf2_join _ R1 F1). now apply IH.
  Qed.

  Lemma unify_args_sound : forall ls rs s out,
    forallb wf2 ls = true -> forallb wf2 rs = true -> wf2_ss s -> length ls = length rs ->
    unify_args rec ls rs s s = Ok (Some out) -> teq_args out ls rs /\ keeps s out /\ wf2_ss out.
  Proof.
    induction ls as [|l ls IH]; intros rs s out Hl Hr Hs Hlen H; destruct rs as [|r rs]; try discriminate.
    - simpl in H. inversion H; subst. repeat split; auto using keeps_refl. constructor.
    - simpl in Hl, Hr. apply andb_true_iff in Hl as [Hl1 Hl2]. apply andb_true_iff in Hr as [Hr1 Hr2].
      simpl in Hlen. simpl in H. destruct (is_anon l || is_anon r) eqn:Ea.
      + destruct (IH _ _ _ Hl2 Hr2 Hs ltac:(lia) H) as (T & K & W). repeat split; auto.
        constructor; auto. apply orb_true_iff in Ea as [E|E]; [destruct l|destruct r]; try discriminate; constructor.
      + destruct (rec l r s) as [[s1|]| |] eqn:E; simpl in H; try discriminate.
        destruct (Hrec _ _ _ _ Hl1 Hr1 Hs E) as (T1 & K1 & W1).
        destruct (IH _ _ _ Hl2 Hr2 W1 ltac:(lia) H) as (T2 & K2 & W2).
        repeat split; auto; [|eapply keeps_trans; eauto].
        constructor; auto. eapply teq_mono; eauto.
  Qed.

  Lemma unify_lists_sound : forall tl ol s out,
    wf2 tl = true -> wf2 ol = true -> wf2_ss s ->
    unify_lists rec tl ol s = Ok (Some out) -> teq out tl ol /\ keeps s out /\ wf2_ss out.
  Proof.
    induction tl as [| |a0|f0|z0|id0 nm0|ts0 Hts|th tnx c tv _ IH|nm1 args1 Hargs] using term_ind'; intros ol sb out Ht Ho Hs H;
      simpl in H; try discriminate; try (destruct (is_nil ol); discriminate).
    destruct ol as [| | | | | | |oh onx oc otv|]; simpl in H; try discriminate.
    apply wf2_split in Ht as [Ht Ft]. apply wf2_split in Ho as [Ho Fo].
    simpl in Ht, Ho, Ft, Fo.
    apply andb_true_iff in Ht as [Ht1 Ht2]. apply andb_true_iff in Ho as [Ho1 Ho2].
    apply andb_true_iff in Ft as [Ft1 Ft2]. apply andb_true_iff in Fo as [Fo1 Fo2].
    assert (wf2 (TList oh onx oc otv) = true) as HwO by (unfold wf2; simpl; now rewrite Ho1, Ho2, Fo1, Fo2).
    assert (wf2 (TList th tnx c tv) = true) as HwT by (unfold wf2; simpl; now rewrite Ht1, Ht2, Ft1, Ft2).
    pose proof (wf2_join _ Ht1 Ft1) as Wth. pose proof (wf2_join _ Ho1 Fo1) as Woh.
    destruct tv, otv; cbn [andb] in H.
    - destruct (is_anon oh) eqn:E1.
      { inversion H; subst. repeat split; auto using keeps_refl. apply teq_tail_both. destruct oh; try discriminate. constructor. }
      destruct (is_anon th) eqn:E2.
      { inversion H; subst. repeat split; auto using keeps_refl. apply teq_tail_both. destruct th; try discriminate. constructor. }
      destruct (Hrec _ _ _ _ Wth Woh Hs H) as (T & K & W). repeat split; auto. now apply teq_tail_both.
    - destruct (Hrec _ _ _ _ Wth HwO Hs H) as (T & K & W). repeat split; auto. now apply teq_tail_l.
    - destruct (Hrec _ _ _ _ Woh HwT Hs H) as (T & K & W). repeat split; auto. apply teq_tail_r. now apply teq_sym.
    - destruct (is_nil th && is_nil oh) eqn:En.
      { inversion H; subst. repeat split; auto using keeps_refl.
        apply andb_true_iff in En as [E1 E2]. destruct th, oh; try discriminate. apply teq_list_empty. }
      destruct (rec th oh sb) as [[s1|]| |] eqn:E; simpl in H; try discriminate.
      destruct (Hrec _ _ _ _ Wth Woh Hs E) as (T1 & K1 & W1).
      destruct (IH _ _ _ (wf2_join _ Ht2 Ft2) (wf2_join _ Ho2 Fo2) W1 H) as (T2 & K2 & W2).
      repeat split; auto; [|eapply keeps_trans; eauto].
      apply teq_list_nodes; auto. eapply teq_mono; eauto.
  Qed.

  Lemma unify_body_sound f : sound (unify_body rec f).
  Proof.
    intros a b ss ss' Ha Hb Hs H. unfold unify_body in H.
    pose proof (wf2_split _ Ha) as [Wa Fa]. pose proof (wf2_split _ Hb) as [Wb Fb].
    destruct (term_eqb a b) eqn:Eab.
    { inversion H; subst. repeat split; auto using keeps_refl. now apply term_eqb_teq. }
    destruct (is_anon b) eqn:Eanon.
    { inversion H; subst. repeat split; auto using keeps_refl. destruct b; try discriminate. constructor. }
    assert (forall o, (rec b a ss = Ok (Some o)) -> teq o a b /\ keeps ss o /\ wf2_ss o) as Hswap.
    { intros o E. destruct (Hrec _ _ _ _ Hb Ha Hs E) as (T & K & W). repeat split; auto. now apply teq_sym. }
    destruct a as [| |s1|f1|i1|id name|sts|th tnx c tv|fname fargs].
    - discriminate.
    - inversion H; subst. repeat split; auto using keeps_refl. constructor.
    - destruct b; try discriminate; try (apply Hswap; exact H).
      destruct (str_eqb s1 s) eqn:E; inversion H; subst. apply str_eqb_eq in E. subst.
      repeat split; auto using keeps_refl. constructor.
    - destruct b; try discriminate; try (apply Hswap; exact H).
      destruct (feqb f1 f0) eqn:E; inversion H; subst.
      repeat split; auto using keeps_refl. constructor. now right.
    - destruct b; try discriminate; try (apply Hswap; exact H).
      destruct (Z.eqb i1 z) eqn:E; inversion H; subst. apply Z.eqb_eq in E. subst.
      repeat split; auto using keeps_refl. constructor.
    - destruct (N.eqb_spec id 0) as [|Hid]; [discriminate|].
      destruct b as [| | | | | | | |bn bargs]; try discriminate;
        match goal with
        | |- teq _ _ (TFun _ _) /\ _ => discriminate Fb
        | _ => idtac
        end;
      (destruct (ss_get ss id) as [u|] eqn:Eg;
       [ destruct (Hrec u _ ss ss' (Hs _ _ Eg) Hb Hs H) as (T & K & W); repeat split; auto;
         eapply teq_var_l; [apply K; exact Eg|exact T]
       | match type of H with bind ?e _ = _ => destruct e as [[|]| |] eqn:Ec end; simpl in H; try discriminate;
         inversion H; subst;
         [ repeat split; auto using keeps_refl; eapply chain_reaches_teq; eauto
         | repeat split;
           [ eapply teq_var_l; [apply ss_get_set_same|apply teq_refl; exact Fb]
           | intros i t Hi; destruct (N.eq_dec i id) as [->|Hne]; [congruence|now rewrite ss_get_set_other]
           | apply wf2_ss_set; auto ] ] ]).
    - destruct b as [| | | | | |ots| |]; try discriminate; try (apply Hswap; exact H).
      destruct (Nat.eqb (length sts) (length ots)) eqn:El; [|discriminate]. apply Nat.eqb_eq in El. simpl in H.
      destruct sts as [|sf srest]; [apply wf2_split in Ha as [X _]; discriminate|].
      destruct ots as [|of orest]; [discriminate|].
      pose proof (wf2_complex_inv _ _ Ha) as [[sa ->] Hsr]. pose proof (wf2_complex_inv _ _ Hb) as [[oa ->] Hor].
      simpl in H.
      destruct (rec (TAtom sa) (TAtom oa) ss) as [[s1|]| |] eqn:E; simpl in H; try discriminate.
      destruct (Hrec (TAtom sa) (TAtom oa) ss s1 eq_refl eq_refl Hs E) as (T1 & K1 & W1).
      simpl in El. destruct (unify_args_sound _ _ _ _ Hsr Hor W1 ltac:(lia) H) as (T2 & K2 & W2).
      repeat split; auto; [|eapply keeps_trans; eauto].
      constructor. constructor; auto. eapply teq_mono; eauto.
    - destruct b; try discriminate; try (apply Hswap; exact H).
      exact (unify_lists_sound _ _ _ _ Ha Hb Hs H).
    - discriminate.
  Qed.
End Body.

Theorem unify_sound : forall fuel, sound (unify fuel).
Proof.
  induction fuel as [|f IH]; intros a b ss ss' Ha Hb Hs H; simpl in H; [discriminate|].
  exact (unify_body_sound (unify f) IH f a b ss ss' Ha Hb Hs H).
Qed.
