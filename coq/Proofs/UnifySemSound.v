(* C06: unification is SOUND, semantically (Spec/SpecUnifySem.v, `sound_sem`): on plain terms and
   substitution sets a successful `unify` returns a plain substitution set that keeps every
   earlier binding verbatim, and every valuation that solves the result solves the input and gives
   both terms the same value.  (With `$_` this is FALSE: Properties/C06sem.v.) *)
From Coq Require Import Lia.
From Suiron Require Import Model.Term Model.Subst Model.Show Model.Lists Model.Arith Model.Unify
  Spec.SpecUnify Spec.SpecUnifySem Proofs.SubstLemmas Proofs.UnifyComplete.
Open Scope N_scope.

(* ---- plain terms ---- *)
Lemma plain_complex_inv ts : plain (TComplex ts) = true ->
  exists s rest, ts = TAtom s :: rest /\ forallb plain rest = true.
Proof.
  unfold plain. cbn [pl]. destruct ts as [|f rest]; [discriminate|]. destruct f; try discriminate.
  cbn [negb andb]. intro H. eauto.
Qed.

Lemma pl_chain_list t : pl true t = true -> exists h nx c tv, t = TList h nx c tv.
Proof.
  destruct t; cbn; try discriminate; eauto.
  destruct ts as [|f r]; [discriminate|]. destruct f; discriminate.
Qed.

Lemma plain_not_anon t : plain t = true -> is_anon t = false.
Proof. destruct t; try reflexivity. discriminate. Qed.

Lemma plain_ss_set ss id t : plain_ss ss -> plain t = true -> plain_ss (ss_set ss id t).
Proof.
  intros Hs Ht j u Hj. destruct (N.eq_dec j id) as [->|Hne].
  - rewrite ss_get_set_same in Hj. now inversion Hj; subst.
  - rewrite ss_get_set_other in Hj by assumption. eauto.
Qed.

Lemma solves_keeps sigma ss ss' : keeps ss ss' -> solves sigma ss' -> solves sigma ss.
Proof. intros K H id t Hg. apply H, K, Hg. Qed.

Lemma keeps_refl' s : keeps s s. Proof. intros i t H; exact H. Qed.
Lemma keeps_trans' a b c : keeps a b -> keeps b c -> keeps a c.
Proof. intros H1 H2 i t H. apply H2, H1, H. Qed.

Lemma keeps_set ss id t : ss_get ss id = None -> keeps ss (ss_set ss id t).
Proof.
  intros Hn i u Hi. destruct (N.eq_dec i id) as [->|Hne]; [congruence|now rewrite ss_get_set_other].
Qed.

(* ---- the derived == implies equal values ---- *)
Lemma term_eqb_is_nil a b : term_eqb a b = true -> is_nil a = is_nil b.
Proof. destruct a, b; try reflexivity; discriminate. Qed.

Lemma term_eqb_den sigma : forall a b, term_eqb a b = true -> den sigma a = den sigma b.
Proof.
  induction a as [| |a0|f0|z0|id0 nm0|ts Hts|a n c tv IHa IHn|nm args Hargs] using term_ind';
    intros b H; destruct b; cbn [term_eqb] in H; try discriminate; try reflexivity.
  - apply str_eqb_eq in H. now subst.
  - cbn [den]. f_equal. now apply feqb_fkey.
  - apply Z.eqb_eq in H. now subst.
  - apply andb_true_iff in H as [H1 _]. apply N.eqb_eq in H1. now subst.
  - cbn [den]. f_equal. revert ts0 H. induction Hts as [|x l Hx Hl IH]; intros [|y r] H; try discriminate.
    + reflexivity.
    + apply andb_true_iff in H as [H1 H2]. cbn [map]. f_equal; auto.
  - apply andb_true_iff in H as [H H4]. apply andb_true_iff in H as [H H3]. apply andb_true_iff in H as [H1 H2].
    apply Bool.eqb_prop in H4. subst. cbn [den]. rewrite (term_eqb_is_nil _ _ H1).
    now rewrite (IHa _ H1), (IHn _ H2).
Qed.

(* the alias test *)
Lemma chain_reaches_den sigma f : forall id o ss, chain_reaches f id o ss = Ok true ->
  solves sigma ss -> den sigma o = sigma id.
Proof.
  induction f as [|f IH]; intros id o ss H Hs; destruct o; cbn [chain_reaches] in H; try discriminate.
  - destruct (N.eqb_spec id0 id) as [->|_]; [reflexivity|]. destruct (ss_get ss id0); discriminate.
  - destruct (N.eqb_spec id0 id) as [->|_]; [reflexivity|].
    destruct (ss_get ss id0) as [t|] eqn:Eg; [|discriminate].
    cbn [den]. rewrite (Hs _ _ Eg). eapply IH; eauto.
Qed.

(* ---- soundness ---- *)
Definition ssound (rec : term -> term -> subst -> res (option subst)) : Prop :=
  forall a b ss ss', plain a = true -> plain b = true -> plain_ss ss ->
    rec a b ss = Ok (Some ss') ->
    plain_ss ss' /\ keeps ss ss' /\ forall sigma, solves sigma ss' -> den sigma a = den sigma b.

Section Body.
  Variable rec : term -> term -> subst -> res (option subst).
  Hypothesis Hrec : ssound rec.

  Lemma unify_args_ss : forall ls rs s out,
    forallb plain ls = true -> forallb plain rs = true -> plain_ss s -> length ls = length rs ->
    unify_args rec ls rs s s = Ok (Some out) ->
    plain_ss out /\ keeps s out /\
    forall sigma, solves sigma out -> map (den sigma) ls = map (den sigma) rs.
  Proof.
    induction ls as [|l ls IH]; intros rs s out Hl Hr Hs Hlen H; destruct rs as [|r rs]; try discriminate.
    - cbn in H. inversion H; subst. repeat split; auto using keeps_refl'.
    - cbn [forallb] in Hl, Hr. apply andb_true_iff in Hl as [Hl1 Hl2]. apply andb_true_iff in Hr as [Hr1 Hr2].
      cbn [unify_args] in H. rewrite (plain_not_anon _ Hl1), (plain_not_anon _ Hr1) in H. cbn [orb] in H.
      destruct (rec l r s) as [[s1|]| |] eqn:E; cbn [bind] in H; try discriminate.
      destruct (Hrec _ _ _ _ Hl1 Hr1 Hs E) as (P1 & K1 & D1).
      cbn [length] in Hlen.
      destruct (IH _ _ _ Hl2 Hr2 P1 ltac:(lia) H) as (P2 & K2 & D2).
      split; [exact P2|]. split; [eapply keeps_trans'; eauto|].
      intros sigma Hsg. cbn [map]. f_equal; [|auto]. apply D1. eapply solves_keeps; eauto.
  Qed.

  Lemma unify_lists_ss : forall this other s out,
    pl true this = true -> pl true other = true -> plain_ss s ->
    unify_lists rec this other s = Ok (Some out) ->
    plain_ss out /\ keeps s out /\ forall sigma, solves sigma out -> den sigma this = den sigma other.
  Proof.
    induction this as [| |a0|f0|z0|id0 nm0|ts0 Hts|th tnx c ttv _ IH|nm1 args1 Hargs] using term_ind';
      intros other s out Pt Po Hs H;
      try (apply pl_chain_list in Pt as (? & ? & ? & ? & E); discriminate E).
    destruct (pl_chain_list _ Po) as (oh & onx & oc & otv & ->).
    cbn [unify_lists is_nil orb] in H. cbn [pl] in Pt, Po.
    destruct ttv, otv; cbn [andb] in H, Pt, Po.
    - (* both tail nodes *)
      destruct th; try discriminate Pt. destruct oh; try discriminate Po. cbn [is_anon] in H.
      pose proof (fun Pa Pb => Hrec _ _ _ _ Pa Pb Hs H) as X. destruct (X eq_refl eq_refl) as (P & K & D). repeat split; auto.
    - destruct th; try discriminate Pt.
      assert (plain (TList oh onx oc false) = true) as Pot by exact Po.
      pose proof (fun Pa => Hrec _ _ _ _ Pa Pot Hs H) as X. destruct (X eq_refl) as (P & K & D). repeat split; auto.
    - destruct oh; try discriminate Po.
      assert (plain (TList th tnx c false) = true) as Ptt by exact Pt.
      pose proof (fun Pa => Hrec _ _ _ _ Pa Ptt Hs H) as X. destruct (X eq_refl) as (P & K & D). repeat split; auto.
      intros sigma Hsg. symmetry. apply (D sigma Hsg).
    - destruct (is_nil th) eqn:Eth, (is_nil oh) eqn:Eoh; cbn [andb] in H.
      + inversion H; subst. repeat split; auto using keeps_refl'.
        intros sigma _. cbn [den]. now rewrite Eth, Eoh.
      + (* [] against a longer list: the loop ends on the Nil marker *)
        destruct tnx; try discriminate Pt.
        destruct (rec th oh s) as [[s1|]| |]; cbn in H; discriminate.
      + destruct onx; try discriminate Po.
        apply andb_true_iff in Pt as [_ Pt2]. destruct (pl_chain_list _ Pt2) as (? & ? & ? & ? & ->).
        destruct (rec th oh s) as [[s1|]| |]; cbn in H; discriminate.
      + apply andb_true_iff in Pt as [Pt1 Pt2]. apply andb_true_iff in Po as [Po1 Po2].
        destruct (rec th oh s) as [[s1|]| |] eqn:E; cbn [bind] in H; try discriminate.
        destruct (Hrec _ _ _ _ Pt1 Po1 Hs E) as (P1 & K1 & D1).
        destruct (IH _ _ _ Pt2 Po2 P1 H) as (P2 & K2 & D2).
        split; [exact P2|]. split; [eapply keeps_trans'; eauto|].
        intros sigma Hsg. cbn [den]. rewrite Eth, Eoh. f_equal; [|auto].
        apply D1. eapply solves_keeps; eauto.
  Qed.

  Lemma unify_body_ss f : ssound (unify_body rec f).
  Proof.
    intros a b ss ss' Pa Pb Hs H. unfold unify_body in H.
    destruct (term_eqb a b) eqn:Eab.
    { inversion H; subst. repeat split; auto using keeps_refl'. intros sigma _. now apply term_eqb_den. }
    rewrite (plain_not_anon _ Pb) in H.
    assert (forall o, rec b a ss = Ok (Some o) ->
              plain_ss o /\ keeps ss o /\ forall sigma, solves sigma o -> den sigma a = den sigma b) as Hswap.
    { intros o E. destruct (Hrec _ _ _ _ Pb Pa Hs E) as (P & K & D). repeat split; auto.
      intros sigma Hsg. symmetry. auto. }
    destruct a as [| |s1|f1|i1|id name|sts|th tnx c tv|fname fargs]; try discriminate Pa.
    - destruct b; try discriminate; try (apply Hswap; exact H).
      destruct (str_eqb s1 s) eqn:E; inversion H; subst. apply str_eqb_eq in E. subst.
      repeat split; auto using keeps_refl'.
    - destruct b; try discriminate; try (apply Hswap; exact H).
      destruct (feqb f1 f0) eqn:E; inversion H; subst.
      repeat split; auto using keeps_refl'. intros sigma _. cbn [den]. f_equal. now apply feqb_fkey.
    - destruct b; try discriminate; try (apply Hswap; exact H).
      destruct (Z.eqb i1 z) eqn:E; inversion H; subst. apply Z.eqb_eq in E. subst.
      repeat split; auto using keeps_refl'.
    - destruct (id =? 0); [discriminate|].
      assert (match ss_get ss id with
              | Some u => rec u b ss
              | None => do al <- chain_reaches f id b ss;
                        Ok (Some (if al then ss else ss_set ss id b))
              end = Ok (Some ss')) as H'
        by (destruct b; try exact H; discriminate Pb).
      clear H. destruct (ss_get ss id) as [u|] eqn:Eg.
      + destruct (Hrec _ _ _ _ (Hs _ _ Eg) Pb Hs H') as (P & K & D). repeat split; auto.
        intros sigma Hsg. cbn [den]. rewrite (Hsg _ _ (K _ _ Eg)). auto.
      + destruct (chain_reaches f id b ss) as [al| |] eqn:Ec; cbn [bind] in H'; try discriminate.
        inversion H'; subst. destruct al.
        * repeat split; auto using keeps_refl'. intros sigma Hsg. cbn [den]. symmetry.
          eapply chain_reaches_den; eauto.
        * split; [apply plain_ss_set; assumption|]. split; [apply keeps_set; assumption|].
          intros sigma Hsg. cbn [den]. apply Hsg. apply ss_get_set_same.
    - destruct b as [| | | | | |ots| |]; try discriminate; try (apply Hswap; exact H).
      destruct (Nat.eqb (length sts) (length ots)) eqn:El; [|discriminate]. apply Nat.eqb_eq in El.
      cbn [negb] in H.
      destruct (plain_complex_inv _ Pa) as (sa & srest & -> & Psr).
      destruct (plain_complex_inv _ Pb) as (oa & orest & -> & Por).
      cbn [unify_args is_anon orb] in H.
      destruct (rec (TAtom sa) (TAtom oa) ss) as [[s1|]| |] eqn:E; cbn [bind] in H; try discriminate.
      destruct (Hrec (TAtom sa) (TAtom oa) ss s1 eq_refl eq_refl Hs E) as (P1 & K1 & D1).
      cbn [length] in El.
      destruct (unify_args_ss _ _ _ _ Psr Por P1 ltac:(lia) H) as (P2 & K2 & D2).
      split; [exact P2|]. split; [eapply keeps_trans'; eauto|].
      intros sigma Hsg. cbn [den map]. f_equal. f_equal; [|auto].
      apply (D1 sigma). eapply solves_keeps; eauto.
    - destruct b as [| | | | | | |oh onx oc otv|]; try discriminate; try (apply Hswap; exact H).
      unfold plain in Pa, Pb. destruct tv; [discriminate Pa|]. destruct otv; [discriminate Pb|].
      exact (unify_lists_ss (TList th tnx c false) (TList oh onx oc false) _ _ Pa Pb Hs H).
  Qed.
End Body.

Theorem unify_ssound : forall fuel, ssound (unify fuel).
Proof.
  induction fuel as [|f IH]; intros a b ss ss' Pa Pb Hs H; [discriminate|].
  cbn [unify] in H. exact (unify_body_ss (unify f) IH f a b ss ss' Pa Pb Hs H).
Qed.

Theorem unify_sound_sem : sound_sem unify.
Proof.
  intros fuel a b ss ss' Pa Pb Hs H. destruct (unify_ssound fuel a b ss ss' Pa Pb Hs H) as (P & K & D).
  split; [exact P|]. split; [exact K|]. intros sigma Hsg. split; [eapply solves_keeps; eauto|auto].
Qed.
