(* C19 at term level, part 1: the leaves.  Printing an atom `[a-z][A-Za-z0-9_]*`, a variable
   `$[A-Za-z][A-Za-z0-9_]*` (id 0), the anonymous variable `$_` or a 64-bit integer and parsing
   the text gives the term back.  Also: the character classes and the character-level
   lemmas about the scan for an arithmetic infix that the composite cases use
   (Proofs/TermRoundtripText.v, Proofs/TermRoundtripComplex.v, Proofs/TermRoundtripList.v). *)
From Coq Require Import Lia String.
From Suiron Require Import Model.ParseTerm Model.Show Proofs.ParseTermProofs Proofs.ParseRoundtrip.
Open Scope N_scope.

(* ---- character classes ---- *)
Definition is_lower (c : N) : bool := in_range 97 122 c.
Definition is_upper (c : N) : bool := in_range 65 90 c.
Definition ident_char (c : N) : bool := is_lower c || is_upper c || is_digit c || (c =? 95).

(* an atom `[a-z][A-Za-z0-9_]*` *)
Definition simple_atom (s : str) : bool :=
  match s with
  | c :: r => is_lower c && forallb ident_char r
  | [] => false
  end.

(* a variable name `$[A-Za-z][A-Za-z0-9_]*` *)
Definition simple_var (s : str) : bool :=
  match s with
  | d :: c :: r => (d =? c_dollar) && (is_lower c || is_upper c) && forallb ident_char r
  | _ => false
  end.

(* the characters of the leaf texts: identifier characters, `$`, `-` *)
Definition wchar (c : N) : bool := ident_char c || (c =? c_dollar) || (c =? c_minus).

Lemma in_range_spec lo hi c : in_range lo hi c = true <-> lo <= c <= hi.
Proof.
  unfold in_range. rewrite andb_true_iff, !N.leb_le. tauto.
Qed.

Lemma ident_char_range c : ident_char c = true ->
  48 <= c <= 57 \/ 65 <= c <= 90 \/ c = 95 \/ 97 <= c <= 122.
Proof.
  unfold ident_char, is_lower, is_upper, is_digit. intros H.
  apply orb_true_iff in H as [H|H]; [|apply N.eqb_eq in H; lia].
  apply orb_true_iff in H as [H|H]; [|apply in_range_spec in H; lia].
  apply orb_true_iff in H as [H|H]; apply in_range_spec in H; lia.
Qed.

Lemma wchar_range c : wchar c = true ->
  c = 36 \/ c = 45 \/ 48 <= c <= 57 \/ 65 <= c <= 90 \/ c = 95 \/ 97 <= c <= 122.
Proof.
  unfold wchar. intros H.
  apply orb_true_iff in H as [H|H]; [|apply N.eqb_eq in H; unfold c_minus in H; lia].
  apply orb_true_iff in H as [H|H]; [|apply N.eqb_eq in H; unfold c_dollar in H; lia].
  apply ident_char_range in H. lia.
Qed.

Lemma ident_wchar c : ident_char c = true -> wchar c = true.
Proof. intros H. unfold wchar. now rewrite H. Qed.

Lemma lower_ident c : is_lower c = true -> ident_char c = true.
Proof. intros H. unfold ident_char. now rewrite H. Qed.

Lemma digit_ident c : is_digit c = true -> ident_char c = true.
Proof. intros H. unfold ident_char. rewrite H. now rewrite orb_true_r. Qed.

Lemma forallb_Forall {A} (f : A -> bool) l : forallb f l = true -> Forall (fun x => f x = true) l.
Proof.
  induction l as [|x l IH]; cbn [forallb]; intros H; constructor;
    apply andb_true_iff in H as [H1 H2]; auto.
Qed.

(* disequalities of characters, after the ranges have been put in the context *)
Ltac char_neq :=
  apply N.eqb_neq;
  unfold c_tab, c_bang, c_dquote, c_hash, c_dollar, c_lpar, c_rpar, c_star, c_plus, c_comma,
    c_minus, c_period, c_slash, c_lt, c_eq, c_gt, c_lbr, c_bslash, c_rbr, c_x, c_bar; lia.

(* ---- the scan for an arithmetic infix ----
   `cs prev s`: no `+`, `*`, `/` in s and no `-` directly before a blank (prev is the character
   before s).  Then check_arithmetic_infix finds nothing, whatever its state. *)
Fixpoint cs (prev : N) (s : str) : bool :=
  match s with
  | [] => true
  | c :: tl =>
      negb (c =? c_plus) && negb (c =? c_star) && negb (c =? c_slash) &&
      negb ((prev =? c_minus) && (c =? 32)) && cs c tl
  end.

Lemma cs_app a : forall p b, cs p (a ++ b) = cs p a && cs (last a p) b.
Proof.
  induction a as [|c a IH]; intros p b; [reflexivity|].
  cbn [app cs]. rewrite IH.
  assert (E : last (c :: a) p = last a c).
  { clear. revert c p. induction a as [|x a IH]; intros c p; [reflexivity|].
    change (last (c :: x :: a) p) with (last (x :: a) p). rewrite (IH x p).
    change (last (x :: a) c) with (match a with [] => x | _ => last a c end).
    destruct a as [|y a']; [reflexivity|]. rewrite <- (IH x c). reflexivity. }
  rewrite E. now rewrite !andb_assoc.
Qed.

Lemma cai_loop_cs s : forall p i prev skip,
  cs p s = true -> cai_loop s i prev skip = (INone, O).
Proof.
  induction s as [|c1 tl IH]; intros p i prev skip H; [reflexivity|].
  cbn [cs] in H.
  apply andb_true_iff in H as [H Htl]. apply andb_true_iff in H as [H _].
  apply andb_true_iff in H as [H H3]. apply andb_true_iff in H as [H1 H2].
  apply negb_true_iff in H1, H2, H3.
  cbn [cai_loop].
  destruct skip as [[close open]|].
  { destruct (c1 =? close); eapply IH; exact Htl. }
  destruct (c1 =? c_dquote).
  { destruct (has_char c_dquote tl); eapply IH; exact Htl. }
  destruct (c1 =? c_lpar).
  { destruct (has_char c_rpar tl); eapply IH; exact Htl. }
  destruct (negb (prev =? 32)); [eapply IH; exact Htl|].
  rewrite H1, H2, H3.
  destruct (c1 =? c_minus) eqn:Em; [|eapply IH; exact Htl].
  destruct tl as [|c2 tl2]; [reflexivity|].
  assert (E : (c2 =? 32) = false).
  { cbn [cs] in Htl. apply andb_true_iff in Htl as [Htl _]. apply andb_true_iff in Htl as [_ Htl].
    rewrite Em in Htl. cbn [andb] in Htl. now apply negb_true_iff in Htl. }
  rewrite E. eapply IH; exact Htl.
Qed.

Lemma no_arith_infix_cs s : trim s = s -> cs 0 s = true -> no_arith_infix s = true.
Proof.
  intros Ht H. unfold no_arith_infix, check_arithmetic_infix. rewrite Ht.
  now rewrite (cai_loop_cs s 0 0%nat c_hash None H).
Qed.

(* a text without blanks and operator characters *)
Lemma cs_wchars s : forall p, Forall (fun c => wchar c = true) s -> cs p s = true.
Proof.
  induction s as [|c tl IH]; intros p H; [reflexivity|].
  inversion H as [|x l Hc Htl]; subst. cbn [cs]. rewrite (IH c Htl).
  apply wchar_range in Hc.
  assert (E1 : (c =? c_plus) = false) by char_neq.
  assert (E2 : (c =? c_star) = false) by char_neq.
  assert (E3 : (c =? c_slash) = false) by char_neq.
  assert (E4 : (c =? 32) = false) by char_neq.
  rewrite E1, E2, E3, E4. now rewrite andb_false_r.
Qed.

Lemma wchar_not_white c : wchar c = true -> is_white c = false.
Proof. intros H. apply wchar_range in H. apply printable_not_white. lia. Qed.

(* ---- words: the texts of the leaves ---- *)
(* not empty, made of wchars, not ending in `-` *)
Definition word (w : str) : Prop :=
  w <> [] /\ Forall (fun c => wchar c = true) w /\ last w 0 <> c_minus.

Lemma Forall_last {A} (P : A -> Prop) l d : l <> [] -> Forall P l -> P (last l d).
Proof.
  induction l as [|x l IH]; intros Hne H; [now elim Hne|].
  inversion H as [|y l' Hx Hl]; subst. destruct l as [|z l]; [exact Hx|].
  change (P (last (z :: l) d)). apply IH; [discriminate|exact Hl].
Qed.

Lemma word_hd w : word w -> wchar (hd 0 w) = true.
Proof. intros (Hne & Hall & _). destruct w; [now elim Hne|]. now inversion Hall. Qed.

Lemma word_last w : word w -> wchar (last w 0) = true.
Proof. intros (Hne & Hall & _). now apply (Forall_last (fun c => wchar c = true)). Qed.

Lemma word_trimmed w : word w -> trim w = w.
Proof.
  intros Hw. apply trimmed_trim. right. split; apply wchar_not_white.
  - now apply word_hd.
  - now apply word_last.
Qed.

Lemma word_no_arith w : word w -> no_arith_infix w = true.
Proof.
  intros Hw. apply no_arith_infix_cs; [now apply word_trimmed|].
  apply cs_wchars. apply Hw.
Qed.

(* parse_term on a word is make_term on it *)
Lemma parse_term_word fuel w : word w ->
  parse_term (S fuel) w = make_term (parse_term fuel) (parse_arguments fuel) w.
Proof.
  intros Hw. cbn [parse_term]. rewrite parse_term_body_plain.
  - apply make_term_trim.
  - now apply word_no_arith.
  - intros tl E. rewrite word_trimmed in E by exact Hw.
    pose proof (word_hd w Hw) as Hh. rewrite E in Hh. discriminate Hh.
Qed.

Lemma simple_atom_word s : simple_atom s = true -> word s.
Proof.
  destruct s as [|c r]; [discriminate|]. cbn [simple_atom]. intros H.
  apply andb_true_iff in H as [Hc Hr]. apply forallb_Forall in Hr.
  assert (Hall : Forall (fun c => ident_char c = true) (c :: r)).
  { constructor; [now apply lower_ident|exact Hr]. }
  split; [discriminate|]. split.
  - eapply Forall_impl; [|exact Hall]. intros a Ha. now apply ident_wchar.
  - pose proof (Forall_last _ (c :: r) 0 ltac:(discriminate) Hall) as Hl. cbv beta in Hl.
    apply ident_char_range in Hl. unfold c_minus. lia.
Qed.

Lemma simple_var_word s : simple_var s = true -> word s.
Proof.
  destruct s as [|d [|c r]]; try discriminate. cbn [simple_var]. intros H.
  apply andb_true_iff in H as [H Hr]. apply andb_true_iff in H as [Hd Hc].
  apply forallb_Forall in Hr. apply N.eqb_eq in Hd. subst d.
  assert (Hci : ident_char c = true).
  { unfold ident_char. apply orb_true_iff in Hc as [Hc|Hc]; rewrite Hc; [reflexivity|].
    now rewrite orb_true_r. }
  assert (Hall : Forall (fun c => ident_char c = true) (c :: r)) by (constructor; assumption).
  split; [discriminate|]. split.
  - constructor; [reflexivity|]. eapply Forall_impl; [|exact Hall]. intros a Ha. now apply ident_wchar.
  - change (last (c_dollar :: c :: r) 0) with (last (c :: r) 0).
    pose proof (Forall_last _ (c :: r) 0 ltac:(discriminate) Hall) as Hl. cbv beta in Hl.
    apply ident_char_range in Hl. unfold c_minus. lia.
Qed.

Lemma show_Z_word z : word (show_Z z).
Proof.
  destruct (show_Z_numch z) as (Hall & Hne & Hlast & _).
  split; [exact Hne|]. split.
  - eapply Forall_impl; [|exact Hall]. intros c [Hc| ->]; [|reflexivity].
    now apply ident_wchar, digit_ident.
  - apply is_digit_range in Hlast. unfold c_minus. lia.
Qed.

(* ---- stage 1: atoms ---- *)
Lemma classify_loop_hnd s : forall i hd hp, exists hd' hp', classify_loop s i hd true hp = (hd', true, hp').
Proof.
  induction s as [|c r IH]; intros i hd hp; cbn [classify_loop]; [eauto|].
  destruct (is_digit c); [apply IH|]. destruct (c =? c_period); [apply IH|].
  destruct ((i =? 0)%nat && ((c =? c_plus) || (c =? c_minus))); apply IH.
Qed.

Lemma classify_lower c r : is_lower c = true ->
  exists hd hp, classify_term (c :: r) = (hd, true, hp).
Proof.
  intros Hc. unfold classify_term. cbn [classify_loop].
  apply in_range_spec in Hc.
  assert (E1 : is_digit c = false).
  { unfold is_digit. destruct (in_range 48 57 c) eqn:E; [|reflexivity]. apply in_range_spec in E. lia. }
  assert (E2 : (c =? c_period) = false) by char_neq.
  assert (E3 : (c =? c_plus) = false) by char_neq.
  assert (E4 : (c =? c_minus) = false) by char_neq.
  rewrite E1, E2, E3, E4. cbn [orb andb]. rewrite andb_false_r. apply classify_loop_hnd.
Qed.

Theorem parse_term_show_atom : forall fuel s,
  simple_atom s = true -> parse_term (S fuel) (show_term (TAtom s)) = Ok (POk (TAtom s)).
Proof.
  intros fuel s Hs. cbn [show_term].
  pose proof (simple_atom_word s Hs) as Hw.
  rewrite parse_term_word by exact Hw.
  unfold make_term. rewrite word_trimmed by exact Hw.
  pose proof (word_last s Hw) as Hl. apply wchar_range in Hl.
  destruct s as [|c r] eqn:Es; [discriminate|]. rewrite <- Es in Hl |- *.
  cbn [simple_atom] in Hs. apply andb_true_iff in Hs as [Hc _].
  destruct (classify_lower c r Hc) as (hd & hp & Hcl). rewrite Es at 1. rewrite Hcl.
  rewrite Es at 1.
  apply in_range_spec in Hc.
  assert (E1 : (c =? c_dollar) = false) by char_neq.
  assert (E2 : (c =? c_dquote) = false) by char_neq.
  assert (E3 : (c =? c_lbr) = false) by char_neq.
  assert (E4 : (last s 0 =? c_rpar) = false) by char_neq.
  rewrite E1, E2, E3, E4. cbn [negb andb]. rewrite !andb_false_r.
  destruct (2 <=? length s)%nat; reflexivity.
Qed.

(* ---- stage 2: variables ---- *)
Lemma lower_upper_alphabetic c : is_lower c || is_upper c = true -> is_alphabetic c = true.
Proof.
  intros H. unfold is_alphabetic. change 0x41 with 65. change 0x5A with 90.
  change 0x61 with 97. change 0x7A with 122. fold (is_upper c). fold (is_lower c).
  rewrite (orb_comm (is_upper c)). rewrite H. reflexivity.
Qed.

Theorem parse_term_show_var : forall fuel name,
  simple_var name = true -> parse_term (S fuel) (show_term (TVar 0 name)) = Ok (POk (TVar 0 name)).
Proof.
  intros fuel s Hs. cbn [show_term]. change (0 =? 0) with true. cbv iota.
  pose proof (simple_var_word s Hs) as Hw.
  rewrite parse_term_word by exact Hw.
  unfold make_term, make_logic_var. rewrite !word_trimmed by exact Hw.
  destruct (classify_term s) as [[hd hnd] hp].
  destruct s as [|d [|c r]]; try discriminate.
  cbn [simple_var] in Hs.
  apply andb_true_iff in Hs as [Hs _]. apply andb_true_iff in Hs as [Hd Hc].
  rewrite Hd. cbn [negb].
  assert (E : str_eqb (d :: c :: r) (s2l "$_") = false).
  { change (s2l "$_") with [c_dollar; 95]. cbn [str_eqb]. rewrite Hd. cbn [andb].
    assert (E : (c =? 95) = false).
    { apply orb_true_iff in Hc as [Hc|Hc]; apply in_range_spec in Hc; apply N.eqb_neq; lia. }
    now rewrite E. }
  rewrite E. rewrite (lower_upper_alphabetic c Hc). reflexivity.
Qed.

Theorem parse_term_show_anon : forall fuel,
  parse_term (S fuel) (show_term TAnon) = Ok (POk TAnon).
Proof. intros fuel. vm_compute. reflexivity. Qed.

(* ---- stage 3: integers (Proofs/ParseRoundtrip.v) ---- *)
Theorem parse_term_show_int' : forall fuel z,
  i64_range z -> parse_term (S fuel) (show_term (TInt z)) = Ok (POk (TInt z)).
Proof. exact parse_term_show_int. Qed.

(* a variable whose name is not of this form does not come back: `$_` as a named variable is
   read as the anonymous variable, `$1` as an atom *)
Example var_underscore_not_canonical :
  parse_term 5 (show_term (TVar 0 (s2l "$_"))) = Ok (POk TAnon).
Proof. vm_compute. reflexivity. Qed.
Example var_digit_not_canonical :
  parse_term 5 (show_term (TVar 0 (s2l "$1"))) = Ok (POk (TAtom (s2l "$1"))).
Proof. vm_compute. reflexivity. Qed.

(* ---- wider atoms: identifier characters and inner blanks ----
   `[A-Za-z0-9_]` at both ends, identifier characters and blanks between, not all digits (a text
   of digits only is a number).  Capitalised atoms (`Abc`, `Nil`), atoms that start with a digit
   or `_` (`1a`, `_x`) and atoms of several words (`New York`) are of this kind. *)
Definition achar (c : N) : bool := ident_char c || (c =? 32).

Definition wide_atom (s : str) : bool :=
  match s with
  | c :: r => ident_char c && forallb achar r && ident_char (last s 0) && negb (forallb is_digit s)
  | [] => false
  end.

Lemma wide_atom_facts s : wide_atom s = true ->
  s <> [] /\ ident_char (hd 0 s) = true /\ Forall (fun c => achar c = true) s /\
  ident_char (last s 0) = true /\ forallb is_digit s = false.
Proof.
  destruct s as [|c r]; [discriminate|]. cbn [wide_atom]. intros H.
  apply andb_true_iff in H as [H Hd]. apply andb_true_iff in H as [H Hl].
  apply andb_true_iff in H as [Hc Hr]. apply negb_true_iff in Hd. apply forallb_Forall in Hr.
  split; [discriminate|]. split; [exact Hc|]. split; [|split; assumption].
  constructor; [|exact Hr]. unfold achar. now rewrite Hc.
Qed.

Lemma simple_atom_wide s : simple_atom s = true -> wide_atom s = true.
Proof.
  intros Hs. pose proof (simple_atom_word s Hs) as Hw.
  destruct s as [|c r]; [discriminate|]. cbn [simple_atom] in Hs.
  apply andb_true_iff in Hs as [Hc Hr]. cbn [wide_atom].
  assert (Hall : Forall (fun c => ident_char c = true) (c :: r)).
  { constructor; [now apply lower_ident|now apply forallb_Forall]. }
  rewrite (lower_ident c Hc).
  assert (Hr' : forallb achar r = true).
  { apply forallb_forall. intros x Hx. rewrite forallb_forall in Hr. unfold achar. now rewrite (Hr x Hx). }
  rewrite Hr'.
  pose proof (Forall_last _ (c :: r) 0 ltac:(discriminate) Hall) as Hl. cbv beta in Hl. rewrite Hl.
  cbn [forallb andb negb].
  assert (Ed : is_digit c = false).
  { apply in_range_spec in Hc. unfold is_digit. destruct (in_range 48 57 c) eqn:E; [|reflexivity].
    apply in_range_spec in E. lia. }
  now rewrite Ed.
Qed.

Lemma achar_range c : achar c = true ->
  c = 32 \/ 48 <= c <= 57 \/ 65 <= c <= 90 \/ c = 95 \/ 97 <= c <= 122.
Proof.
  unfold achar. intros H. apply orb_true_iff in H as [H|H].
  - apply ident_char_range in H. lia.
  - apply N.eqb_eq in H. lia.
Qed.

Lemma cs_achars s : Forall (fun c => achar c = true) s -> forall p, (p =? c_minus) = false -> cs p s = true.
Proof.
  induction s as [|c tl IH]; intros H p Hp; [reflexivity|].
  inversion H as [|x l Hc Htl]; subst. cbn [cs]. apply achar_range in Hc.
  assert (E1 : (c =? c_plus) = false) by char_neq.
  assert (E2 : (c =? c_star) = false) by char_neq.
  assert (E3 : (c =? c_slash) = false) by char_neq.
  assert (E4 : (c =? c_minus) = false) by char_neq.
  rewrite E1, E2, E3, Hp. cbn [negb andb]. now apply IH.
Qed.

Lemma cs_wide s : wide_atom s = true -> forall p, cs p s = true.
Proof.
  intros H p. destruct (wide_atom_facts s H) as (Hne & Hh & Hall & _).
  destruct s as [|c r]; [now elim Hne|]. cbn [hd] in Hh. inversion Hall as [|x l _ Hr]; subst.
  cbn [cs]. apply ident_char_range in Hh.
  assert (E1 : (c =? c_plus) = false) by char_neq.
  assert (E2 : (c =? c_star) = false) by char_neq.
  assert (E3 : (c =? c_slash) = false) by char_neq.
  assert (E4 : (c =? 32) = false) by char_neq.
  assert (E5 : (c =? c_minus) = false) by char_neq.
  rewrite E1, E2, E3, E4. rewrite andb_false_r. cbn [negb andb]. now apply cs_achars.
Qed.

Lemma wide_atom_trimmed s : wide_atom s = true -> trim s = s.
Proof.
  intros H. destruct (wide_atom_facts s H) as (_ & Hh & _ & Hl & _).
  apply trimmed_trim. right. split; apply wchar_not_white; now apply ident_wchar.
Qed.

Lemma classify_loop_nondigit s : Forall (fun c => achar c = true) s -> forall i hd hnd hp,
  hnd = true \/ forallb is_digit s = false ->
  exists hd' hp', classify_loop s i hd hnd hp = (hd', true, hp').
Proof.
  induction s as [|c r IH]; intros H i hd hnd hp Hor.
  - destruct Hor as [->|Hor]; [cbn; eauto|discriminate].
  - inversion H as [|x l Hc Hr]; subst. cbn [classify_loop]. cbn [forallb] in Hor.
    destruct (is_digit c) eqn:Ed.
    + apply IH; [exact Hr|]. destruct Hor as [Hor|Hor]; [now left|now right].
    + apply achar_range in Hc.
      assert (Hnd : ~ 48 <= c <= 57).
      { intros Hd. unfold is_digit in Ed. destruct (in_range 48 57 c) eqn:E; [discriminate|].
        assert (E' : in_range 48 57 c = true) by (now apply in_range_spec). congruence. }
      assert (E1 : (c =? c_period) = false) by char_neq.
      assert (E2 : (c =? c_plus) = false) by char_neq.
      assert (E3 : (c =? c_minus) = false) by char_neq.
      rewrite E1, E2, E3. cbn [orb]. rewrite andb_false_r. apply classify_loop_hnd.
Qed.

Theorem parse_term_show_wide_atom : forall fuel s,
  wide_atom s = true -> parse_term (S fuel) (show_term (TAtom s)) = Ok (POk (TAtom s)).
Proof.
  intros fuel s Hs. cbn [show_term].
  destruct (wide_atom_facts s Hs) as (Hne & Hh & Hall & Hl & Hd).
  pose proof (wide_atom_trimmed s Hs) as Ht.
  cbn [parse_term]. rewrite parse_term_body_plain.
  2:{ apply no_arith_infix_cs; [exact Ht|now apply cs_wide]. }
  2:{ intros tl E. rewrite Ht in E. rewrite E in Hh. discriminate Hh. }
  unfold make_term. rewrite !trim_idem, Ht.
  destruct (classify_loop_nondigit s Hall 0%nat false false false (or_intror Hd)) as (hd' & hp' & Hcl).
  unfold classify_term. rewrite Hcl.
  destruct s as [|c r] eqn:Es; [now elim Hne|]. rewrite <- Es in Hl |- *. cbn [hd] in Hh.
  apply ident_char_range in Hh. apply ident_char_range in Hl.
  assert (E1 : (c =? c_dollar) = false) by char_neq.
  assert (E2 : (c =? c_dquote) = false) by char_neq.
  assert (E3 : (c =? c_lbr) = false) by char_neq.
  assert (E4 : (last s 0 =? c_rpar) = false) by char_neq.
  rewrite E1, E2, E3, E4. cbn [negb andb]. rewrite !andb_false_r.
  destruct (2 <=? length s)%nat; reflexivity.
Qed.

(* a text of digits only is a number, not an atom *)
Example digits_atom_not_read_back :
  parse_term 5 (show_term (TAtom (s2l "123"))) = Ok (POk (TInt 123)).
Proof. vm_compute. reflexivity. Qed.
