(* A generic invariant principle for `unify`: any reflexive, transitive relation between
   substitution sets that every single binding step satisfies relates the input and the
   output of every successful unification.  C06 (extension), C08 (no cycle) and C09
   (`$_` never bound) are instances. *)
From Coq Require Import Lia.
From Suiron Require Import Model.Term Model.Subst Model.Show Model.Lists Model.Arith Model.Unify
  Proofs.SubstLemmas.
Open Scope N_scope.

(* Complex terms have an atom as functor (make_complex and the parser guarantee it). *)
Fixpoint wf_term (t : term) : bool :=
  match t with
  | TComplex (TAtom _ :: rest) =>
      (fix go (l : list term) : bool :=
         match l with [] => true | x :: l' => wf_term x && go l' end) rest
  | TComplex _ => false
  | TList a n _ _ => wf_term a && wf_term n
  | _ => true
  end.

Definition wf_ss (ss : subst) : Prop := forall i t, ss_get ss i = Some t -> wf_term t = true.

Lemma wf_complex_inv f rest : wf_term (TComplex (f :: rest)) = true ->
  (exists s, f = TAtom s) /\ forallb wf_term rest = true.
Proof.
  simpl. destruct f; try discriminate. intro H. split; [eauto|].
  induction rest as [|x r IH]; simpl in *; [reflexivity|].
  apply andb_true_iff in H as [H1 H2]. now rewrite H1, IH.
Qed.

Lemma wf_ss_nil : wf_ss [].
Proof. intros i t H. now rewrite ss_get_nil in H. Qed.

Lemma wf_ss_set ss id t : wf_ss ss -> wf_term t = true -> wf_ss (ss_set ss id t).
Proof.
  intros Hs Ht j u Hj. destruct (N.eq_dec j id) as [->|Hne].
  - rewrite ss_get_set_same in Hj. now inversion Hj; subst.
  - rewrite ss_get_set_other in Hj by assumption. eauto.
Qed.

(* values of built-in functions are constants *)
Lemma evaluate_constant fuel op args ss v : evaluate fuel op args ss = Ok v -> is_constant v = true.
Proof.
  unfold evaluate. intro H.
  destruct (get_numbers fuel args ss) as [[ns hf]| |]; simpl in H; try discriminate.
  destruct hf.
  - destruct op; try (inversion H; subst; reflexivity);
      destruct (get_floats ns); try discriminate; inversion H; subst; reflexivity.
  - destruct op;
      try (destruct (get_integers ns); try discriminate);
      match type of H with bind ?x _ = _ => destruct x; simpl in H; try discriminate end;
      inversion H; subst; reflexivity.
Qed.

Lemma eval_function_constant fuel name args ss v :
  eval_function fuel name args ss = Ok (Some v) -> is_constant v = true.
Proof.
  unfold eval_function. intro H.
  destruct (str_eqb name fname_join).
  { unfold evaluate_join in H. destruct (get_all_terms fuel args ss); simpl in H; try discriminate.
    inversion H; subst. reflexivity. }
  repeat match type of H with
         | (if ?c then _ else _) = _ => destruct c
         end;
    try discriminate;
    match type of H with bind ?x _ = _ => destruct x eqn:E; simpl in H; try discriminate end;
    inversion H; subst; eapply evaluate_constant; eauto.
Qed.

Lemma constant_wf v : is_constant v = true -> wf_term v = true /\ is_anon v = false.
Proof. destruct v; try discriminate; split; reflexivity. Qed.

Lemma eval_function_wf fuel name args ss v :
  eval_function fuel name args ss = Ok (Some v) -> wf_term v = true /\ is_anon v = false.
Proof. intro H. apply constant_wf. eapply eval_function_constant; eauto. Qed.

Section Invariant.
  Variable R : subst -> subst -> Prop.
  Hypothesis R_refl : forall s, R s s.
  Hypothesis R_trans : forall a b c, R a b -> R b c -> R a c.
  (* one binding step, with everything the code has established at that point *)
  Hypothesis R_bind : forall f ss id name other,
    id <> 0 -> ss_get ss id = None -> is_anon other = false ->
    term_eqb (TVar id name) other = false ->
    chain_reaches f id other ss = Ok false ->
    R ss (ss_set ss id other).

  Definition good (rec : term -> term -> subst -> res (option subst)) : Prop :=
    forall a b ss ss', wf_term a = true -> wf_term b = true -> wf_ss ss ->
      rec a b ss = Ok (Some ss') -> R ss ss' /\ wf_ss ss'.

  Section Body.
    Variable rec : term -> term -> subst -> res (option subst).
    Hypothesis Hrec : good rec.

    Ltac by_rec :=
      match goal with
      | H : rec ?a ?b ?s = Ok (Some ?o) |- _ =>
          apply (Hrec a b s o); [ | | |exact H]; (assumption || reflexivity || eauto)
      end.

    Lemma unify_args_inv : forall ls rs s out,
      forallb wf_term ls = true -> forallb wf_term rs = true -> wf_ss s ->
      unify_args rec ls rs s s = Ok (Some out) -> R s out /\ wf_ss out.
    Proof.
      induction ls as [|l ls IH]; intros rs s out Hl Hr Hs H; simpl in H.
      - inversion H; subst. auto.
      - destruct rs as [|r rs]; [inversion H; subst; auto|].
        simpl in Hl, Hr. apply andb_true_iff in Hl as [Hl1 Hl2]. apply andb_true_iff in Hr as [Hr1 Hr2].
        destruct (is_anon l || is_anon r).
        + now apply IH in H.
        + destruct (rec l r s) as [[s1|]| |] eqn:E; simpl in H; try discriminate.
          destruct (Hrec _ _ _ _ Hl1 Hr1 Hs E) as [HR1 Hw1].
          destruct (IH _ _ _ Hl2 Hr2 Hw1 H) as [HR2 Hw2]. split; eauto.
    Qed.

    Lemma unify_lists_inv : forall tl ol s out,
      wf_term tl = true -> wf_term ol = true -> wf_ss s ->
      unify_lists rec tl ol s = Ok (Some out) -> R s out /\ wf_ss out.
    Proof.
      induction tl as [| |a0|f0|z0|id0 nm0|ts0 Hts|th tnx c tv _ IH|nm1 args1 Hargs] using term_ind'; intros ol sb out Ht Ho Hs H;
        simpl in H; try discriminate;
        try (destruct (is_nil ol); discriminate).
      destruct ol as [| | | | | | |oh onx oc otv|]; simpl in H; try discriminate.
      simpl in Ht, Ho. apply andb_true_iff in Ht as [Ht1 Ht2]. apply andb_true_iff in Ho as [Ho1 Ho2].
      assert (wf_term (TList oh onx oc otv) = true) as HwO by (simpl; now rewrite Ho1, Ho2).
      assert (wf_term (TList th tnx c tv) = true) as HwT by (simpl; now rewrite Ht1, Ht2).
      destruct (tv && otv).
      { destruct (is_anon oh); [inversion H; subst; auto|].
        destruct (is_anon th); [inversion H; subst; auto|]. by_rec. }
      destruct tv; [by_rec|].
      destruct otv; [by_rec|].
      destruct (is_nil th && is_nil oh); [inversion H; subst; auto|].
      destruct (rec th oh sb) as [[s1|]| |] eqn:E; simpl in H; try discriminate.
      destruct (Hrec _ _ _ _ Ht1 Ho1 Hs E) as [HR1 Hw1].
      destruct (IH _ _ _ Ht2 Ho2 Hw1 H) as [HR2 Hw2]. split; eauto.
    Qed.

    Lemma unify_body_inv f : good (unify_body rec f).
    Proof.
      intros a b ss ss' Ha Hb Hs H. unfold unify_body in H.
      destruct (term_eqb a b) eqn:Eab; [inversion H; subst; auto|].
      destruct (is_anon b) eqn:Eanon; [inversion H; subst; auto|].
      destruct a as [| |s1|f1|i1|id name|sts|th tnx c tv|fname fargs].
      - discriminate.
      - inversion H; subst; auto.
      - destruct b; try discriminate; try (by_rec; fail).
        destruct (str_eqb s1 s); inversion H; subst; auto.
      - destruct b; try discriminate; try (by_rec; fail).
        destruct (feqb f1 f0); inversion H; subst; auto.
      - destruct b; try discriminate; try (by_rec; fail).
        destruct (Z.eqb i1 z); inversion H; subst; auto.
      - destruct (N.eqb_spec id 0) as [|Hid]; [discriminate|].
        destruct (match b with TFun _ _ => true | _ => false end) eqn:Ef.
        { destruct b; try discriminate. by_rec. }
        assert (match ss_get ss id with
                | Some u => rec u b ss
                | None => do al <- chain_reaches f id b ss;
                          Ok (Some (if al then ss else ss_set ss id b))
                end = Ok (Some ss')) as H'
            by (destruct b; try discriminate; exact H).
        clear H. destruct (ss_get ss id) as [u|] eqn:Eg.
        + apply (Hrec u b ss ss'); auto. exact (Hs _ _ Eg).
        + destruct (chain_reaches f id b ss) as [[|]| |] eqn:Ec; simpl in H'; try discriminate;
            inversion H'; subst; auto.
          split; [eapply R_bind; eauto | apply wf_ss_set; auto].
      - destruct b as [| | | | | |ots| |]; try discriminate; try (by_rec; fail).
        destruct (negb (Nat.eqb (length sts) (length ots))); [discriminate|].
        destruct sts as [|sf srest]; [discriminate|]. destruct ots as [|of orest]; [discriminate|].
        apply wf_complex_inv in Ha as [[sa ->] Hsr]. apply wf_complex_inv in Hb as [[oa ->] Hor].
        simpl in H.
        destruct (rec (TAtom sa) (TAtom oa) ss) as [[s1|]| |] eqn:E; simpl in H; try discriminate.
        destruct (Hrec (TAtom sa) (TAtom oa) ss s1 eq_refl eq_refl Hs E) as [HR1 Hw1].
        destruct (unify_args_inv _ _ _ _ Hsr Hor Hw1 H) as [HR2 Hw2]. split; eauto.
      - destruct b; try discriminate; try (by_rec; fail).
        exact (unify_lists_inv _ _ _ _ Ha Hb Hs H).
      - destruct (eval_function f fname fargs ss) as [[v|]| |] eqn:Ev; simpl in H; try discriminate.
        apply eval_function_wf in Ev as [Hv _]. by_rec.
    Qed.
  End Body.

  Theorem unify_inv : forall fuel, good (unify fuel).
  Proof.
    induction fuel as [|f IH]; intros a b ss ss' Ha Hb Hs H; simpl in H; [discriminate|].
    exact (unify_body_inv (unify f) IH f a b ss ss' Ha Hb Hs H).
  Qed.
End Invariant.
