(* C19 at term level, part 4: lists.  If every piece pi is a good text that parse_term reads
   as ti, then parse_term reads `[p1, ..., pn]` (n >= 0) as the list of t1 ... tn and
   `[p1, ..., pn | $V]` (n >= 1) as that list with the tail variable $V - in the node shape that
   link_front builds, which is the one of make_list_of_terms / make_linked_list. *)
From Coq Require Import Lia String.
From Suiron Require Import Model.ParseTerm Model.Show Proofs.ParseTermProofs Proofs.ParseRoundtrip.
From Suiron Require Import Proofs.TermRoundtrip Proofs.TermRoundtripText Proofs.TermRoundtripComplex.
Open Scope N_scope.

Ltac app_norm := repeat (rewrite <- ?app_assoc; cbn [app]).

Definition nobs (s : str) : Prop := Forall (fun c => tchar c = true) s.

(* ---- the loop of parse_linked_list, counted by the characters still to be scanned ---- *)
Definition pll_from (rt : str -> res (presult term)) (args : str) (n : nat) (st : pll_state)
  : res (presult term) :=
  match n with
  | O => pll_final rt args st
  | S i => pll_loop rt args i st
  end.

Lemma pll_from_S rt args i st :
  pll_from rt args (S i) st = (dop st' <- pll_step rt args i st; pll_from rt args i st').
Proof. destruct i; reflexivity. Qed.

Lemma ee_tchars args ind c ch : nobs args -> nth_error args ind = Some c -> ee args ind ch = (c =? ch).
Proof.
  intros Hn H. unfold ee. rewrite H. destruct ind as [|p]; [apply andb_true_r|].
  destruct (nth_error args p) as [b|] eqn:Eb; [|apply andb_true_r].
  assert (Hb : tchar b = true).
  { apply nth_error_In in Eb. unfold nobs in Hn. rewrite Forall_forall in Hn. now apply Hn. }
  rewrite (tchar_not_bslash b Hb). apply andb_true_r.
Qed.

(* one step, outside quotes, on a text without backslash: by the character read *)
Lemma pll_step_char rt args ind c list e vbar nq rd sd :
  nobs args -> nth_error args ind = Some c ->
  pll_step rt args ind (mkPll list e vbar false nq rd sd) =
  (if c =? c_rbr then pok (mkPll list e vbar false nq rd (sd + 1)%Z)
   else if c =? c_lbr then pok (mkPll list e vbar false nq rd (sd - 1)%Z)
   else if c =? c_rpar then pok (mkPll list e vbar false nq (rd + 1)%Z sd)
   else if c =? c_lpar then pok (mkPll list e vbar false nq (rd - 1)%Z sd)
   else if ((rd =? 0) && (sd =? 0))%Z then
     if c =? c_dquote then pok (mkPll list e vbar true (nq + 1) rd sd)
     else if c =? c_comma then
       do sl <- slice args (ind + 1) e;
       match trim sl with
       | [] => perr
       | _ =>
           do cq <- check_quotes (trim sl) nq;
           if cq then perr
           else
             dop term <- rt (trim sl);
             do l <- link_front term false list;
             pok (mkPll l ind vbar false 0 rd sd)
       end
     else if c =? c_bar then
       if vbar then perr
       else
         do sl <- slice args (ind + 1) e;
         match trim sl with
         | [] => perr
         | _ =>
             match (if str_eqb (trim sl) [c_dollar; c_underscore] then POk TAnon else make_logic_var (trim sl)) with
             | PErr => perr
             | POk var => do l <- link_front var true list; pok (mkPll l ind true false nq rd sd)
             end
         end
     else pok (mkPll list e vbar false nq rd sd)
   else pok (mkPll list e vbar false nq rd sd)).
Proof.
  intros Hn Hc.
  assert (Hlt : (ind < length args)%nat) by (apply nth_error_Some; rewrite Hc; discriminate).
  unfold pll_step. cbv iota.
  rewrite !equal_escape_ee by exact Hlt. cbn [bind].
  rewrite !(ee_tchars args ind c _ Hn Hc). reflexivity.
Qed.

(* crossing a stretch without top-level separators *)
Lemma pll_from_cross rt args seg : forall pre suf n list e vbar nq rd sd rd' sd',
  args = pre ++ seg ++ suf -> nobs args -> n = (length pre + length seg)%nat ->
  bscan (rev seg) rd sd = Some (rd', sd') ->
  pll_from rt args n (mkPll list e vbar false nq rd sd) =
  pll_from rt args (length pre) (mkPll list e vbar false nq rd' sd').
Proof.
  induction seg as [|c seg IH] using rev_ind; intros pre suf n list e vbar nq rd sd rd' sd' Ha Hn Hlen Hb.
  - cbn [rev bscan] in Hb. inversion Hb; subst. cbn [length]. now rewrite Nat.add_0_r.
  - rewrite rev_app_distr in Hb. cbn [rev app] in Hb.
    rewrite <- app_assoc in Ha. cbn [app] in Ha.
    assert (Hn' : n = S (length pre + length seg)).
    { rewrite Hlen, app_length. cbn [length]. lia. }
    assert (Hc : nth_error args (length pre + length seg) = Some c).
    { rewrite Ha, app_assoc. rewrite nth_error_app2 by (rewrite app_length; lia).
      rewrite app_length, Nat.sub_diag. reflexivity. }
    rewrite Hn', pll_from_S. rewrite (pll_step_char rt args _ c list e vbar nq rd sd Hn Hc).
    cbn [bscan] in Hb.
    destruct (c =? c_rbr); [cbn [pbind pok]; now apply (IH pre (c :: suf))|].
    destruct (c =? c_lbr); [cbn [pbind pok]; now apply (IH pre (c :: suf))|].
    destruct (c =? c_rpar); [cbn [pbind pok]; now apply (IH pre (c :: suf))|].
    destruct (c =? c_lpar); [cbn [pbind pok]; now apply (IH pre (c :: suf))|].
    destruct ((rd =? 0)%Z && (sd =? 0)%Z); [|cbn [pbind pok]; now apply (IH pre (c :: suf))].
    destruct (c =? c_dquote); [discriminate|].
    destruct (c =? c_comma); [discriminate|].
    destruct (c =? c_bar); [discriminate|].
    cbn [pbind pok]. now apply (IH pre (c :: suf)).
Qed.

Lemma good_bscan p : good p -> forall r, bscan (rev p ++ r) 0%Z 0%Z = bscan r 0%Z 0%Z.
Proof. intros H r. apply (g_b p H); lia. Qed.

Lemma bscan_blank_good p : good p -> bscan (rev (32 :: p)) 0%Z 0%Z = Some (0%Z, 0%Z).
Proof. intros H. cbn [rev]. rewrite good_bscan by exact H. reflexivity. Qed.

(* ---- slices ---- *)
Lemma slice_app (a m b : str) : slice (a ++ m ++ b) (length a) (length a + length m) = Ok m.
Proof.
  rewrite slice_ok; [|lia|rewrite !app_length; lia].
  rewrite skipn_app, skipn_all, Nat.sub_diag. cbn [skipn app].
  replace (length a + length m - length a)%nat with (length m) by lia.
  rewrite firstn_app, Nat.sub_diag, firstn_all. cbn [firstn]. now rewrite app_nil_r.
Qed.

Lemma slice_app_eq (v a m b : str) i j :
  v = a ++ m ++ b -> i = length a -> j = (length a + length m)%nat -> slice v i j = Ok m.
Proof. intros -> -> ->. apply slice_app. Qed.

(* trimming a piece with a blank before and possibly one after *)
Lemma trim_padded p ws : good p -> ws = [] \/ ws = [32] ->
  trim (p ++ ws) = p /\ trim (32 :: p ++ ws) = p.
Proof.
  intros H [->| ->].
  - rewrite app_nil_r. rewrite trim_cons_white by reflexivity. split; now apply good_trimmed.
  - rewrite trim_cons_white by reflexivity. rewrite trim_app_white by reflexivity.
    split; now apply good_trimmed.
Qed.

Lemma check_quotes_zero s : check_quotes s 0 = Ok false.
Proof. reflexivity. Qed.

Lemma join_strs_snoc sep ps p : ps <> [] ->
  join_strs sep (ps ++ [p]) = join_strs sep ps ++ sep ++ p.
Proof.
  induction ps as [|q ps IH]; intros Hne; [now elim Hne|].
  destruct ps as [|q2 ps'].
  - reflexivity.
  - change ((q :: q2 :: ps') ++ [p]) with (q :: (q2 :: ps') ++ [p]).
    change ((q2 :: ps') ++ [p]) with (q2 :: ps' ++ [p]) at 1.
    rewrite join_strs_cons2. change (q2 :: ps' ++ [p]) with ((q2 :: ps') ++ [p]).
    rewrite IH by discriminate. rewrite join_strs_cons2. now rewrite <- !app_assoc.
Qed.

Lemma list_nodes_app ts1 ts2 last : list_nodes (ts1 ++ ts2) last = list_nodes ts1 (list_nodes ts2 last).
Proof. unfold list_nodes. apply fold_right_app. Qed.

Lemma link_front_nodes t list : is_list list = true ->
  link_front t false list = Ok (list_nodes [t] list).
Proof. destruct list; try discriminate. reflexivity. Qed.

Lemma list_nodes_is_list ts last : is_list last = true -> is_list (list_nodes ts last) = true.
Proof. intros H. destruct ts; [exact H|reflexivity]. Qed.

(* ---- the elements, from the last to the first ---- *)
Lemma pll_from_pieces rt : forall ps ts args ws suf list vbar,
  ps <> [] -> Forall good ps -> Forall2 (fun p t => rt p = Ok (POk t)) ps ts ->
  ws = [] \/ ws = [32] ->
  args = join_strs sep_comma ps ++ ws ++ suf -> nobs args ->
  is_list list = true ->
  pll_from rt args (length (join_strs sep_comma ps))
    (mkPll list (length (join_strs sep_comma ps) + length ws) vbar false 0 0%Z 0%Z) =
  Ok (POk (list_nodes ts list)).
Proof.
  induction ps as [|p ps IH] using rev_ind;
    intros ts args ws suf list vbar Hne Hg Hp Hws Ha Hn Hl; [now elim Hne|].
  apply Forall_app in Hg as [Hgs Hgp]. inversion Hgp as [|x l Hgood _]; subst x l.
  apply Forall2_app_inv_l in Hp as (ts' & tl & Hp' & Hpl & ->).
  inversion Hpl as [|x t l l' Hpt Hnil]; subst. inversion Hnil; subst.
  destruct (trim_padded p ws Hgood Hws) as [Et1 Et2].
  pose proof (g_ne p Hgood) as Hpne.
  destruct ps as [|q ps'] eqn:Eps.
  - (* the first element: the final step *)
    inversion Hp'; subst. cbn [app join_strs] in *.
    rewrite (pll_from_cross rt (p ++ ws ++ suf) p [] (ws ++ suf) (length p) list _ vbar 0 0%Z 0%Z 0%Z 0%Z);
      [|reflexivity|exact Hn|reflexivity|].
    2:{ rewrite <- (app_nil_r (rev p)). rewrite good_bscan by exact Hgood. reflexivity. }
    cbn [length pll_from]. unfold pll_final. cbn [pll_end pll_nq pll_list].
    rewrite (slice_app_eq (p ++ ws ++ suf) [] (p ++ ws) suf);
      [|now rewrite <- app_assoc|reflexivity|cbn [length]; rewrite app_length; lia].
    cbn [bind]. rewrite Et1.
    destruct p as [|c0 p0] eqn:Ep; [now elim Hpne|]. rewrite <- Ep in *.
    rewrite check_quotes_zero. cbn [bind]. rewrite Hpt. cbn [pbind].
    rewrite (link_front_nodes t list Hl). reflexivity.
  - rewrite <- Eps in *.
    assert (Hps : ps <> []) by (rewrite Eps; discriminate).
    rewrite join_strs_snoc in * by exact Hps.
    set (J := join_strs sep_comma ps) in *.
    remember ((J ++ sep_comma ++ p) ++ ws ++ suf) as args eqn:Ha.
    assert (Ha1 : args = (J ++ [44]) ++ (32 :: p) ++ (ws ++ suf)).
    { rewrite Ha. unfold sep_comma. app_norm. reflexivity. }
    assert (Ha2 : args = (J ++ [44]) ++ (32 :: p ++ ws) ++ suf).
    { rewrite Ha. unfold sep_comma. app_norm. reflexivity. }
    assert (Ha3 : args = J ++ [] ++ (sep_comma ++ p ++ ws ++ suf)).
    { rewrite Ha. app_norm. reflexivity. }
    assert (HlenJ : length (J ++ sep_comma ++ p) = (length (J ++ [44%N]) + length (32%N :: p))%nat).
    { rewrite !app_length. cbn [length sep_comma]. lia. }
    rewrite (pll_from_cross rt args (32 :: p) (J ++ [44]) (ws ++ suf) _ list _ vbar 0 0%Z 0%Z 0%Z 0%Z
               Ha1 Hn HlenJ (bscan_blank_good p Hgood)).
    assert (Hl1 : length (J ++ [44]) = S (length J)) by (rewrite app_length; cbn [length]; lia).
    rewrite Hl1, pll_from_S.
    assert (Hc : nth_error args (length J) = Some c_comma).
    { rewrite Ha3. cbn [app]. rewrite nth_error_app2 by lia. rewrite Nat.sub_diag. reflexivity. }
    rewrite (pll_step_char rt args (length J) c_comma list _ vbar 0 0%Z 0%Z Hn Hc).
    change (c_comma =? c_rbr) with false. change (c_comma =? c_lbr) with false.
    change (c_comma =? c_rpar) with false. change (c_comma =? c_lpar) with false.
    change ((0 =? 0)%Z && (0 =? 0)%Z) with true. change (c_comma =? c_dquote) with false.
    change (c_comma =? c_comma) with true. cbv iota.
    rewrite (slice_app_eq args (J ++ [44]) (32 :: p ++ ws) suf _ _ Ha2);
      [|rewrite Hl1; lia|rewrite !app_length; cbn [length sep_comma]; rewrite app_length; lia].
    cbn [bind]. rewrite Et2.
    destruct p as [|c0 p0] eqn:Ep; [now elim Hpne|]. rewrite <- Ep in *.
    rewrite check_quotes_zero. cbn [bind]. rewrite Hpt. cbn [pbind].
    rewrite (link_front_nodes t list Hl). cbn [bind pbind pok].
    rewrite list_nodes_app.
    pose proof (IH ts' args [] (sep_comma ++ p ++ ws ++ suf) (list_nodes [t] list) vbar Hps Hgs Hp'
                  (or_introl eq_refl) Ha3 Hn (list_nodes_is_list [t] list Hl)) as HIH.
    fold J in HIH. cbn [length] in HIH. rewrite Nat.add_0_r in HIH. exact HIH.
Qed.

(* ---- parse_linked_list on [body] ---- *)
Lemma pll_body_unfold rt body : body <> [] ->
  parse_linked_list_body rt (c_lbr :: body ++ [c_rbr]) =
  pll_from rt body (length body) (mkPll empty_list (length body) false false 0 0%Z 0%Z).
Proof.
  intros Hne. unfold parse_linked_list_body. rewrite list_text_trimmed.
  assert (Hlen : length (c_lbr :: body ++ [c_rbr]) = (length body + 2)%nat).
  { cbn [length]. rewrite app_length. cbn [length]. lia. }
  assert (Hs : (1 <= length body)%nat) by (destruct body; [now elim Hne|cbn [length]; lia]).
  rewrite Hlen.
  assert (E1 : (length body + 2 <? 2)%nat = false) by (apply Nat.ltb_ge; lia). rewrite E1.
  change (negb (c_lbr =? c_lbr)) with false. cbv iota.
  change (c_lbr :: body ++ [c_rbr]) with ((c_lbr :: body) ++ [c_rbr]) at 1. rewrite last_last.
  change (negb (c_rbr =? c_rbr)) with false. cbv iota.
  assert (E2 : (length body + 2 =? 2)%nat = false) by (apply Nat.eqb_neq; lia). rewrite E2.
  assert (Hsl : slice (c_lbr :: body ++ [c_rbr]) 1 (length body + 2 - 1) = Ok body).
  { pose proof (slice_middle [] body [c_rbr] c_lbr) as H. cbn [app length] in H.
    replace (length body + 2 - 1)%nat with (0 + 1 + length body)%nat by lia. exact H. }
  rewrite Hsl. cbn [bind].
  assert (E3 : (length body <? 1)%nat = false) by (apply Nat.ltb_ge; lia). rewrite E3.
  destruct (length body) as [|k] eqn:Ek; [lia|].
  cbn [pll_from]. replace (S k - 1)%nat with k by lia. reflexivity.
Qed.

Lemma make_term_list rt ra body :
  make_term rt ra (c_lbr :: body ++ [c_rbr]) = parse_linked_list_body rt (c_lbr :: body ++ [c_rbr]).
Proof.
  unfold make_term. rewrite list_text_trimmed.
  destruct (classify_term (c_lbr :: body ++ [c_rbr])) as [[hd hnd] hp]. cbv iota.
  change (c_lbr =? c_dollar) with false. cbv iota.
  assert (Hlen : (2 <=? length (c_lbr :: body ++ [c_rbr]))%nat = true).
  { apply Nat.leb_le. cbn [length]. rewrite app_length. cbn [length]. lia. }
  rewrite Hlen. change (c_lbr =? c_dquote) with false. cbv iota.
  change (c_lbr :: body ++ [c_rbr]) with ((c_lbr :: body) ++ [c_rbr]) at 1. rewrite last_last.
  change ((c_lbr =? c_lbr) && (c_rbr =? c_rbr)) with true. reflexivity.
Qed.

Lemma parse_term_good_list fuel body :
  good (c_lbr :: body ++ [c_rbr]) ->
  parse_term (S fuel) (c_lbr :: body ++ [c_rbr]) =
  parse_linked_list_body (parse_term fuel) (c_lbr :: body ++ [c_rbr]).
Proof.
  intros Hgood. cbn [parse_term]. rewrite parse_term_body_plain.
  - rewrite list_text_trimmed. apply make_term_list.
  - now apply good_no_arith.
  - intros tl E. rewrite list_text_trimmed in E. discriminate E.
Qed.

(* ---- stage 5: lists ---- *)
Theorem parse_term_list : forall fuel ps ts,
  Forall good ps -> Forall2 (fun p t => parse_term fuel p = Ok (POk t)) ps ts ->
  parse_term (S fuel) (list_text ps) = Ok (POk (make_list_of_terms ts)).
Proof.
  intros fuel ps ts Hg Hp. pose proof (good_list ps Hg) as Hgood. unfold list_text in *.
  rewrite parse_term_good_list by exact Hgood.
  destruct ps as [|p ps'] eqn:Eps.
  - inversion Hp; subst. reflexivity.
  - rewrite <- Eps in *. assert (Hne : ps <> []) by (rewrite Eps; discriminate).
    destruct (join_ends ps Hne Hg) as (Hbne & _ & _).
    rewrite pll_body_unfold by exact Hbne.
    pose proof (pll_from_pieces (parse_term fuel) ps ts (join_strs sep_comma ps) [] [] empty_list false
                  Hne Hg Hp (or_introl eq_refl) ltac:(now rewrite !app_nil_r)
                  (i_chars _ (inner_join ps Hg)) eq_refl) as H.
    cbn [length] in H. rewrite Nat.add_0_r in H. exact H.
Qed.

Lemma simple_var_not_anon v : simple_var v = true -> str_eqb v [c_dollar; c_underscore] = false.
Proof.
  intro Hs. destruct (str_eqb v [c_dollar; c_underscore]) eqn:E; [|reflexivity].
  apply str_eqb_eq in E. subst v. discriminate Hs.
Qed.

Lemma make_logic_var_simple v : simple_var v = true -> make_logic_var v = POk (TVar 0 v).
Proof.
  intros Hs. unfold make_logic_var. rewrite (word_trimmed v (simple_var_word v Hs)).
  destruct v as [|d [|c r]]; try discriminate. cbn [simple_var] in Hs.
  apply andb_true_iff in Hs as [Hs _]. apply andb_true_iff in Hs as [Hd Hc].
  rewrite Hd. rewrite (lower_upper_alphabetic c Hc). reflexivity.
Qed.

(* what the `|` branch makes of the tail text *)
Definition tail_parse (v : str) : presult term :=
  if str_eqb v [c_dollar; c_underscore] then POk TAnon else make_logic_var v.

Theorem parse_term_list_bar_gen : forall fuel ps ts v tvar,
  ps <> [] -> Forall good ps -> Forall2 (fun p t => parse_term fuel p = Ok (POk t)) ps ts ->
  word v -> tail_parse v = POk tvar ->
  parse_term (S fuel) (list_text_bar ps v) = Ok (POk (list_nodes ts (tail_node tvar))).
Proof.
  intros fuel ps ts v tvar Hne Hg Hp Hvw Hv.
  pose proof (good_word v Hvw) as Hvg.
  pose proof (good_list_bar ps v Hg Hvg) as Hgood. unfold list_text_bar in *.
  rewrite parse_term_good_list by exact Hgood.
  set (J := join_strs sep_comma ps) in *.
  set (args := J ++ sep_bar ++ v) in *.
  assert (Hargs : nobs args).
  { pose proof (g_chars _ Hgood) as Hc. inversion Hc as [|x l _ Hc']; subst.
    apply Forall_app in Hc' as [Hc' _]. exact Hc'. }
  rewrite pll_body_unfold by (unfold args, sep_bar; destruct J; discriminate).
  assert (Ha1 : args = (J ++ [32; 124]) ++ (32 :: v) ++ []).
  { unfold args, sep_bar. rewrite app_nil_r, <- app_assoc. reflexivity. }
  assert (Ha4 : args = join_strs sep_comma ps ++ [32] ++ 124 :: 32 :: v) by reflexivity.
  assert (Hlen : length args = (length (J ++ [32%N; 124%N]) + length (32%N :: v))%nat).
  { unfold args, sep_bar. rewrite !app_length. cbn [length]. lia. }
  rewrite (pll_from_cross (parse_term fuel) args (32 :: v) (J ++ [32; 124]) [] _ empty_list _ false 0
             0%Z 0%Z 0%Z 0%Z Ha1 Hargs Hlen (bscan_blank_good v Hvg)).
  assert (Hl1 : length (J ++ [32; 124]) = S (length J + 1)).
  { rewrite app_length. cbn [length]. lia. }
  rewrite Hl1, pll_from_S.
  assert (Hc : nth_error args (length J + 1) = Some c_bar).
  { unfold args, sep_bar. rewrite nth_error_app2 by lia.
    replace (length J + 1 - length J)%nat with 1%nat by lia. reflexivity. }
  rewrite (pll_step_char (parse_term fuel) args (length J + 1) c_bar empty_list _ false 0 0%Z 0%Z Hargs Hc).
  change (c_bar =? c_rbr) with false. change (c_bar =? c_lbr) with false.
  change (c_bar =? c_rpar) with false. change (c_bar =? c_lpar) with false.
  change ((0 =? 0)%Z && (0 =? 0)%Z) with true. change (c_bar =? c_dquote) with false.
  change (c_bar =? c_comma) with false. change (c_bar =? c_bar) with true. cbv iota.
  rewrite (slice_app_eq args (J ++ [32; 124]) (32 :: v) [] _ _ Ha1); [|rewrite Hl1; lia|lia].
  cbn [bind].
  assert (Etv : trim (32 :: v) = v).
  { rewrite trim_cons_white by reflexivity. now apply word_trimmed. }
  rewrite Etv. pose proof (g_ne v Hvg) as Hvne.
  destruct v as [|v0 v1] eqn:Ev; [now elim Hvne|]. rewrite <- Ev in *.
  unfold tail_parse in Hv. rewrite Hv.
  change (link_front tvar true empty_list) with (Ok (tail_node tvar)).
  cbn [bind pbind pok].
  (* the blank before the bar *)
  replace (pll_from (parse_term fuel) args (length J + 1)) with (pll_from (parse_term fuel) args (S (length J)))
    by (f_equal; lia).
  rewrite pll_from_S.
  assert (Hc2 : nth_error args (length J) = Some 32).
  { unfold args, sep_bar. rewrite nth_error_app2 by lia. rewrite Nat.sub_diag. reflexivity. }
  rewrite (pll_step_char (parse_term fuel) args (length J) 32 _ _ true 0 0%Z 0%Z Hargs Hc2).
  change (32 =? c_rbr) with false. change (32 =? c_lbr) with false.
  change (32 =? c_rpar) with false. change (32 =? c_lpar) with false.
  change ((0 =? 0)%Z && (0 =? 0)%Z) with true. change (32 =? c_dquote) with false.
  change (32 =? c_comma) with false. change (32 =? c_bar) with false. cbv iota.
  cbn [pbind pok].
  pose proof (pll_from_pieces (parse_term fuel) ps ts args [32] (124 :: 32 :: v)
                (tail_node tvar) true Hne Hg Hp (or_intror eq_refl) Ha4 Hargs eq_refl) as H.
  fold J in H. cbn [length] in H. exact H.
Qed.

Theorem parse_term_list_bar : forall fuel ps ts v,
  ps <> [] -> Forall good ps -> Forall2 (fun p t => parse_term fuel p = Ok (POk t)) ps ts ->
  simple_var v = true ->
  parse_term (S fuel) (list_text_bar ps v) = Ok (POk (list_nodes ts (tail_node (TVar 0 v)))).
Proof.
  intros fuel ps ts v Hne Hg Hp Hv.
  apply parse_term_list_bar_gen; [exact Hne|exact Hg|exact Hp|now apply simple_var_word|].
  unfold tail_parse. now rewrite (simple_var_not_anon v Hv), (make_logic_var_simple v Hv).
Qed.

Definition anon_text : str := [c_dollar; c_underscore].

Lemma anon_word : word anon_text.
Proof. split; [discriminate|]. split; [repeat constructor|discriminate]. Qed.

Theorem parse_term_list_bar_anon : forall fuel ps ts,
  ps <> [] -> Forall good ps -> Forall2 (fun p t => parse_term fuel p = Ok (POk t)) ps ts ->
  parse_term (S fuel) (list_text_bar ps anon_text) = Ok (POk (list_nodes ts (tail_node TAnon))).
Proof.
  intros fuel ps ts Hne Hg Hp.
  apply parse_term_list_bar_gen; [exact Hne|exact Hg|exact Hp|apply anon_word|reflexivity].
Qed.

(* the same for the printed texts *)
Lemma Forall_map_good ts : Forall (fun t => good (show_term t)) ts -> Forall good (map show_term ts).
Proof. induction 1; cbn [map]; constructor; assumption. Qed.

Lemma Forall2_map_parse fuel ts :
  Forall (fun t => parse_term fuel (show_term t) = Ok (POk t)) ts ->
  Forall2 (fun p t => parse_term fuel p = Ok (POk t)) (map show_term ts) ts.
Proof. induction 1; cbn [map]; constructor; assumption. Qed.

Corollary parse_term_show_list : forall fuel ts,
  non_nil_terms ts ->
  Forall (fun t => good (show_term t)) ts ->
  Forall (fun t => parse_term fuel (show_term t) = Ok (POk t)) ts ->
  parse_term (S fuel) (show_term (make_list_of_terms ts)) = Ok (POk (make_list_of_terms ts)).
Proof.
  intros fuel ts Hn Hg Hp. rewrite show_list_plain by exact Hn.
  apply parse_term_list; [now apply Forall_map_good|now apply Forall2_map_parse].
Qed.

Corollary parse_term_show_list_tail : forall fuel ts v,
  ts <> [] -> non_nil_terms ts ->
  Forall (fun t => good (show_term t)) ts ->
  Forall (fun t => parse_term fuel (show_term t) = Ok (POk t)) ts ->
  simple_var v = true ->
  parse_term (S fuel) (show_term (list_nodes ts (tail_node (TVar 0 v)))) =
  Ok (POk (list_nodes ts (tail_node (TVar 0 v)))).
Proof.
  intros fuel ts v Hne Hn Hg Hp Hv.
  rewrite show_list_tail by (assumption || reflexivity).
  cbn [show_term]. change (0 =? 0) with true. cbv iota.
  apply parse_term_list_bar; [|now apply Forall_map_good|now apply Forall2_map_parse|exact Hv].
  destruct ts; [now elim Hne|discriminate].
Qed.

Corollary parse_term_show_list_anon : forall fuel ts,
  ts <> [] -> non_nil_terms ts ->
  Forall (fun t => good (show_term t)) ts ->
  Forall (fun t => parse_term fuel (show_term t) = Ok (POk t)) ts ->
  parse_term (S fuel) (show_term (list_nodes ts (tail_node TAnon))) =
  Ok (POk (list_nodes ts (tail_node TAnon))).
Proof.
  intros fuel ts Hne Hn Hg Hp.
  rewrite show_list_tail by (assumption || reflexivity).
  apply parse_term_list_bar_anon; [|now apply Forall_map_good|now apply Forall2_map_parse].
  destruct ts; [now elim Hne|discriminate].
Qed.
