(* C18, goal and rule level, with the hypothesis on the leaf parsers restricted to texts
   that are not longer than the input: every text handed to parse_subgoal / parse_complex
   is (the trimmed form of) a slice of the input.  This is the form in which the theorems
   compose with a fuel-bounded model of the leaf parsers. *)
From Coq Require Import Lia.
From Suiron Require Import Model.Tokenizer Model.ParseRule.
From Suiron Require Import Proofs.TokenizerStream Proofs.TokenizerProofs.
Open Scope N_scope.

(* every leaf string of the token (tree) has at most n characters *)
Fixpoint tok_le (n : nat) (t : token) : bool :=
  match t with
  | Leaf _ s => (length s <=? n)%nat
  | Branch _ cs => forallb (tok_le n) cs
  end.

Lemma make_leaf_token_le n w : (length w <= n)%nat -> tok_le n (make_leaf_token w) = true.
Proof.
  intros H. pose proof (trim_length w) as Ht. unfold make_leaf_token.
  repeat match goal with |- context [if ?b then _ else _] => destruct b end;
    cbn [tok_le]; apply Nat.leb_le; lia.
Qed.

Lemma len_split {A} m (l : list A) : (length (firstn m l) + length (skipn m l) = length l)%nat.
Proof. rewrite <- (firstn_skipn m l) at 3. now rewrite app_length. Qed.

Lemma sstep_le n c rest' w p stk toks cf' :
  sstep c rest' w p stk toks = POk cf' ->
  (length w + S (length rest') <= n)%nat -> forallb (tok_le n) toks = true ->
  (length (s_w cf') + length (s_rest cf') <= n)%nat /\ forallb (tok_le n) (s_toks cf') = true.
Proof.
  unfold sstep. intros H Hn Ht.
  assert (Hw : tok_le n (make_leaf_token w) = true) by (apply make_leaf_token_le; lia).
  assert (Hs : forall x, tok_le n (make_leaf_token [x]) = true)
    by (intros; apply make_leaf_token_le; simpl; lia).
  repeat match type of H with
         | context [if ?b then _ else _] => destruct b
         | context [let '(_, _) := pop ?s in _] => destruct (pop s)
         | context [match quote_loop ?a ?b ?c ?d with _ => _ end] =>
             destruct (quote_loop a b c d) as [[?k|] ?ch]
         end;
    try discriminate; inversion H; subst; clear H; cbn [s_rest s_w s_toks];
    rewrite ?forallb_app; cbn [forallb]; rewrite ?Ht, ?Hw, ?Hs; cbn [andb];
    (split; [|reflexivity]);
    rewrite ?app_length; cbn [length]; try lia.
  (* the quote jump *)
  pose proof (len_split (S k) rest') as Hl. cbn [firstn skipn] in *.
  destruct rest' as [|a rest']; cbn [length firstn skipn] in *; lia.
Qed.

Lemma sloop_le n : forall fuel cf cf',
  sloop fuel cf = Ok (POk cf') ->
  (length (s_w cf) + length (s_rest cf) <= n)%nat -> forallb (tok_le n) (s_toks cf) = true ->
  (length (s_w cf') <= n)%nat /\ forallb (tok_le n) (s_toks cf') = true.
Proof.
  induction fuel as [|fuel IH]; intros cf cf' H Hn Ht; [discriminate|]. simpl in H.
  unfold sstep_cfg in H. destruct cf as [rest w p stk toks]. cbn [s_rest s_w s_prev s_stk s_toks] in *.
  destruct rest as [|c rest'].
  - inversion H; subst. cbn [s_w s_toks]. split; [lia|exact Ht].
  - destruct (sstep c rest' w p stk toks) as [cf1|] eqn:Es; [|discriminate].
    destruct (sstep_le n _ _ _ _ _ _ _ Es Hn Ht) as [H1 H2]. eapply IH; eauto.
Qed.

Lemma stokenize_le fuel s T :
  stokenize fuel s = Ok (POk T) -> forallb (tok_le (length s)) T = true.
Proof.
  unfold stokenize. pose proof (trim_length s) as Hl.
  destruct (tk_trim s) as [|c0 chrs] eqn:Et; [discriminate|].
  destruct (sloop fuel (mkS (c0 :: chrs) [] ch_hash [] [])) as [[cf|]| |] eqn:El;
    cbn [bind]; try discriminate.
  destruct (sloop_le (length s) _ _ _ El) as [H1 H2]; [cbn [s_w s_rest length] in *; lia|reflexivity|].
  destruct (s_stk cf); [|discriminate].
  destruct (s_w cf) as [|x w] eqn:Ew; intros H; inversion H; subst; clear H; [exact H2|].
  rewrite forallb_app, H2. cbn [forallb]. rewrite make_leaf_token_le by exact H1. reflexivity.
Qed.

Lemma gts_le n : forall fuel rest acc g rem,
  gts fuel rest acc = Ok (g, rem) ->
  forallb (tok_le n) rest = true -> forallb (tok_le n) acc = true ->
  tok_le n g = true /\ forallb (tok_le n) rem = true.
Proof.
  induction fuel as [|fuel IH]; intros rest acc g rem H Hr Ha; [discriminate|].
  destruct rest as [|tok rest']; cbn [gts] in H.
  - inversion H; subst. split; [exact Ha|reflexivity].
  - cbn [forallb] in Hr. apply andb_true_iff in Hr as [Hr1 Hr2].
    destruct (tt_eqb (get_type tok) TTLParen).
    + destruct (gts fuel rest' []) as [[t rem1]| |] eqn:E1; cbn [bind] in H; try discriminate.
      destruct (IH _ _ _ _ E1 Hr2 eq_refl) as [Ht Hrem1].
      apply (IH _ _ _ _ H).
      * now apply forallb_skipn.
      * rewrite forallb_app, Ha. cbn [forallb]. now rewrite Ht.
    + destruct (tt_eqb (get_type tok) TTRParen).
      * inversion H; subst. split; [exact Ha|]. cbn [forallb]. now rewrite Hr1, Hr2.
      * apply (IH _ _ _ _ H Hr2). rewrite forallb_app, Ha. cbn [forallb]. now rewrite Hr1.
Qed.

Lemma filter_le n f cs : forallb (tok_le n) cs = true -> forallb (tok_le n) (filter f cs) = true.
Proof.
  induction cs as [|c cs IH]; intros H; [reflexivity|]. cbn in *.
  apply andb_true_iff in H as [H1 H2]. destruct (f c); cbn; rewrite ?H1; auto.
Qed.

Lemma group_or_le n ty cs r :
  group_or_tokens (Branch ty cs) = Ok r -> forallb (tok_le n) cs = true -> tok_le n r = true.
Proof.
  intros H Hc. destruct (valid_branch ty) eqn:Ev.
  - rewrite group_or_tokens_branch in H by exact Ev. inversion H; subst; clear H.
    pose proof (filter_le n orsel cs Hc) as Hf.
    destruct (filter orsel cs) as [|x [|y l]]; cbn [tok_le forallb] in *; auto.
    now rewrite Hf.
  - exfalso. unfold group_or_tokens in H.
    assert (Hm : forall l, make_branch_token ty l = Panic).
    { intros l. unfold make_branch_token, valid_branch in *. destruct ty; try discriminate; reflexivity. }
    destruct (_ =? 1)%nat in H.
    + destruct (nth_error _ 0) in H; cbn [bind] in H; [rewrite Hm in H|]; discriminate.
    + destruct (1 <? _)%nat in H; cbn [bind] in H.
      * destruct (make_branch_token TTOr _) in H; cbn [bind] in H; try discriminate.
        rewrite Hm in H. discriminate.
      * rewrite Hm in H. discriminate.
Qed.

Lemma make_branch_token_inv ty cs r : make_branch_token ty cs = Ok r -> r = Branch ty cs.
Proof. unfold make_branch_token. destruct (_ && _); [discriminate|]. now inversion 1. Qed.

Lemma and_loop_le n gat ty : forall cs nc al r,
  Forall (fun c => forall r', gat c = Ok r' -> tok_le n c = true -> tok_le n r' = true) cs ->
  and_loop gat ty cs nc al = Ok r ->
  forallb (tok_le n) cs = true -> forallb (tok_le n) nc = true -> forallb (tok_le n) al = true ->
  tok_le n r = true.
Proof.
  induction cs as [|c cs IH]; intros nc al r HF H Hc Hn Ha.
  - cbn [and_loop] in H.
    destruct (length al =? 1)%nat.
    + destruct al as [|a al']; cbn [nth_error bind] in H; [discriminate|].
      apply make_branch_token_inv in H. subst r. cbn [tok_le].
      cbn [forallb] in Ha. apply andb_true_iff in Ha as [Ha1 _].
      rewrite forallb_app, Hn. cbn [forallb]. now rewrite Ha1.
    + destruct (1 <? length al)%nat; cbn [bind] in H.
      * destruct (make_branch_token TTAnd al) as [t| |] eqn:Et; cbn [bind] in H; try discriminate.
        apply make_branch_token_inv in Et. apply make_branch_token_inv in H. subst.
        cbn [tok_le]. rewrite forallb_app, Hn. cbn [forallb tok_le]. now rewrite Ha.
      * apply make_branch_token_inv in H. subst r. exact Hn.
  - inversion HF as [|? ? Hgc HF']; subst.
    cbn [forallb] in Hc. apply andb_true_iff in Hc as [Hc1 Hc2].
    cbn [and_loop] in H.
    destruct (tt_eqb (get_type c) TTSubgoal).
    { apply (IH _ _ _ HF' H Hc2 Hn). rewrite forallb_app, Ha. cbn [forallb]. now rewrite Hc1. }
    destruct (tt_eqb (get_type c) TTComma).
    { now apply (IH _ _ _ HF' H Hc2 Hn Ha). }
    destruct (tt_eqb (get_type c) TTSemicolon).
    { destruct (if (length al =? 1)%nat
                then match nth_error al 0 with Some t => Ok t | None => Panic end
                else make_branch_token TTAnd al) as [t| |] eqn:Ef; cbn [bind] in H; try discriminate.
      assert (Ht : tok_le n t = true).
      { destruct (length al =? 1)%nat.
        - destruct al as [|a al']; cbn [nth_error] in Ef; [discriminate|]. inversion Ef; subst.
          cbn [forallb] in Ha. now apply andb_true_iff in Ha as [Ha1 _].
        - apply make_branch_token_inv in Ef. subst t. exact Ha. }
      apply (IH _ _ _ HF' H Hc2); [|reflexivity].
      rewrite !forallb_app, Hn. cbn [forallb]. now rewrite Ht, Hc1. }
    destruct (tt_eqb (get_type c) TTGroup).
    { destruct (gat c) as [t1| |] eqn:E1; cbn [bind] in H; try discriminate.
      destruct (group_or_tokens t1) as [t2| |] eqn:E2; cbn [bind] in H; try discriminate.
      pose proof (Hgc _ eq_refl Hc1) as Ht1.
      assert (Ht2 : tok_le n t2 = true).
      { destruct t1 as [ty1 s1|ty1 cs1]; [discriminate|]. eapply group_or_le; eauto. }
      apply (IH _ _ _ HF' H Hc2 Hn). rewrite forallb_app, Ha. cbn [forallb]. now rewrite Ht2. }
    now apply (IH _ _ _ HF' H Hc2 Hn Ha).
Qed.

Lemma group_and_le n : forall t r,
  group_and_tokens t = Ok r -> tok_le n t = true -> tok_le n r = true.
Proof.
  induction t as [ty s|ty cs IH] using token_ind'; intros r H Ht; [discriminate|].
  rewrite group_and_tokens_branch in H. cbn [tok_le] in Ht.
  eapply and_loop_le; eauto.
Qed.

Section BoundedTotal.
  Variable ps : str -> res (presult goal).
  Variable n : nat.
  Hypothesis ps_total : forall s, (length s <= n)%nat -> good (ps s).

  Lemma ops_loop_good_le (and_too : bool) cs : forall acc,
    Forall (fun c => readyb c = true -> tok_le n c = true -> good (token_tree_to_goal ps c)) cs ->
    forallb (fun c => match get_type c with
                      | TTSubgoal => is_leaf c
                      | TTGroup => readyb c
                      | TTAnd => if and_too then readyb c else true
                      | _ => true
                      end) cs = true ->
    forallb (tok_le n) cs = true ->
    good (ops_loop ps (token_tree_to_goal ps) and_too cs acc).
  Proof.
    induction cs as [|c cs IH]; intros acc HF Hb Hle; [exact I|].
    inversion HF as [|? ? Hc HF']; subst. cbn [forallb] in Hb, Hle.
    apply andb_true_iff in Hb as [Hb1 Hb2]. apply andb_true_iff in Hle as [Hl1 Hl2].
    cbn [ops_loop].
    destruct (tt_eqb (get_type c) TTSubgoal) eqn:E1.
    { destruct c as [ty s|ty cs0]; simpl in E1.
      - cbn [get_token_str bind]. cbn [tok_le] in Hl1. apply Nat.leb_le in Hl1.
        pose proof (ps_total s Hl1) as Hp.
        destruct (ps s) as [[g|]| |]; try contradiction; cbn [bind]; [now apply IH | exact I].
      - destruct ty; discriminate. }
    destruct (tt_eqb (get_type c) TTGroup || (and_too && tt_eqb (get_type c) TTAnd)) eqn:E2.
    { assert (Hr : readyb c = true).
      { destruct (get_type c) eqn:Ety; simpl in E2; rewrite ?andb_false_r in E2;
          try discriminate; try exact Hb1.
        destruct and_too; [exact Hb1|discriminate]. }
      specialize (Hc Hr Hl1).
      destruct (token_tree_to_goal ps c) as [[g|]| |]; try contradiction; cbn [bind];
        [now apply IH | exact I]. }
    now apply IH.
  Qed.

  Theorem tttg_total_le : forall t,
    readyb t = true -> tok_le n t = true -> good (token_tree_to_goal ps t).
  Proof.
    induction t as [ty s|ty cs IH] using token_ind'; intros Hr Hle.
    - simpl in *. rewrite Hr. apply ps_total. now apply Nat.leb_le.
    - rewrite tttg_branch. cbn [tok_le] in Hle.
      destruct ty; cbn [tt_eqb]; try exact I.
      + cbn [readyb] in Hr. destruct cs as [|c [|c2 cs]]; try discriminate.
        inversion IH; subst. cbn [forallb] in Hle. rewrite andb_true_r in Hle. auto.
      + pose proof (ops_loop_good_le false cs [] IH) as H.
        cbn [readyb] in Hr.
        assert (Hb : forallb (fun c => match get_type c with
                                       | TTSubgoal => is_leaf c | TTGroup => readyb c
                                       | TTAnd => if false then readyb c else true | _ => true end) cs = true).
        { etransitivity; [|exact Hr]. apply forallb_ext'. intros c. destruct (get_type c); reflexivity. }
        specialize (H Hb Hle).
        destruct (ops_loop ps (token_tree_to_goal ps) false cs []) as [[l|]| |]; try contradiction; exact I.
      + pose proof (ops_loop_good_le true cs [] IH) as H.
        cbn [readyb] in Hr.
        assert (Hb : forallb (fun c => match get_type c with
                                       | TTSubgoal => is_leaf c | TTGroup => readyb c
                                       | TTAnd => if true then readyb c else true | _ => true end) cs = true).
        { etransitivity; [|exact Hr]. apply forallb_ext'. intros c. destruct (get_type c); reflexivity. }
        specialize (H Hb Hle).
        destruct (ops_loop ps (token_tree_to_goal ps) true cs []) as [[l|]| |]; try contradiction; exact I.
  Qed.
End BoundedTotal.

Section GoalTotalBounded.
  Variable ps : str -> res (presult goal).

  Theorem generate_goal_total_le s fuel :
    (forall t, (length t <= length s)%nat -> good (ps t)) ->
    (goal_fuel s <= fuel)%nat -> good (generate_goal ps fuel s).
  Proof.
    unfold goal_fuel. intros Hps Hf. unfold generate_goal. rewrite tokenize_stream.
    pose proof (stokenize_total fuel s ltac:(lia)) as Hg.
    destruct (stokenize fuel s) as [[T|]| |] eqn:Et; try contradiction; cbn [bind]; [|exact I].
    pose proof (stokenize_TOKS _ _ _ Et) as HT.
    pose proof (stokenize_length _ _ _ Et) as HL.
    pose proof (stokenize_le _ _ _ Et) as HTle.
    rewrite group_tokens_stream.
    destruct (sgroup_tokens_raw fuel T HT ltac:(lia)) as (g & Hsg & Hraw). rewrite Hsg. cbn [bind].
    assert (Hgle : tok_le (length s) g = true).
    { unfold sgroup_tokens in Hsg.
      destruct (gts fuel T []) as [[g' rem]| |] eqn:Eg; cbn [bind] in Hsg; try discriminate.
      inversion Hsg; subst. cbn [fst]. now destruct (gts_le _ _ _ _ _ _ Eg HTle eq_refl). }
    destruct (and_pass g Hraw) as (cs' & Ha & M & O). rewrite Ha. cbn [bind].
    pose proof (group_and_le _ _ _ Ha Hgle) as Hcle. cbn [tok_le] in Hcle.
    destruct (or_pass cs' M O) as (x & Ho & Rx). rewrite Ho. cbn [bind].
    pose proof (group_or_le _ _ _ _ Ho Hcle) as Hxle.
    apply (tttg_total_le ps (length s) Hps); [exact Rx|exact Hxle].
  Qed.

  Variable pc : str -> res (presult term).

  Theorem parse_rule_total_le s fuel :
    (forall t, (length t <= length s)%nat -> good (ps t)) ->
    (forall t, (length t <= length s)%nat -> good (pc t)) ->
    (goal_fuel s <= fuel)%nat -> good (parse_rule ps pc fuel s).
  Proof.
    intros Hps Hpc Hf. unfold parse_rule. pose proof (trim_length s) as Hl.
    set (chrs := tk_trim s) in *.
    destruct (length chrs =? 0)%nat eqn:E0; [exact I|]. apply Nat.eqb_neq in E0.
    destruct (nth_error chrs (length chrs - 1)) as [ch|] eqn:En.
    2:{ apply nth_error_None in En. lia. }
    assert (Hcl : exists chrs2,
      (if ch =? ch_period
       then do c <- slice chrs 0 (length chrs - 1); Ok (c, (length chrs - 1)%nat)
       else Ok (chrs, length chrs)) = Ok (chrs2, length chrs2) /\ (length chrs2 <= length s)%nat).
    { destruct (ch =? ch_period).
      - rewrite slice_ok by lia. cbn [bind]. eexists. split.
        + f_equal. f_equal. rewrite firstn_length, skipn_length. simpl. lia.
        + rewrite firstn_length. simpl. lia.
      - exists chrs. split; [reflexivity|lia]. }
    destruct Hcl as (chrs2 & -> & Hl2). cbn [bind]. clear En.
    pose proof (index_of_neck_ok chrs2) as Hn.
    destruct (index_of_neck chrs2) as [[index|]| |]; try contradiction; cbn [bind].
    - rewrite !slice_ok by lia. cbn [bind].
      set (body := firstn (length chrs2 - (index + 2)) (skipn (index + 2) chrs2)).
      assert (Hbl : (length body <= length s)%nat).
      { subst body. rewrite firstn_length, skipn_length. lia. }
      pose proof (index_of_neck_ok body) as Hn2.
      destruct (index_of_neck body) as [[k|]| |]; try contradiction; cbn [bind]; [exact I|].
      assert (Hhl : (length (firstn (index - 0) (skipn 0 chrs2)) <= length s)%nat).
      { rewrite firstn_length. simpl. lia. }
      pose proof (Hps _ Hhl) as Hp.
      destruct (ps (firstn (index - 0) (skipn 0 chrs2))) as [[g|]| |]; try contradiction;
        cbn [bind]; [|exact I].
      destruct g; try exact I.
      assert (Hb : (goal_fuel body <= fuel)%nat) by (unfold goal_fuel in *; lia).
      assert (Hpsb : forall t', (length t' <= length body)%nat -> good (ps t'))
        by (intros t' Ht'; apply Hps; lia).
      pose proof (generate_goal_total_le body fuel Hpsb Hb) as Hg.
      destruct (generate_goal ps fuel body) as [[b|]| |]; try contradiction; exact I.
    - pose proof (Hpc chrs2 Hl2) as Hp.
      destruct (pc chrs2) as [[f|]| |]; try contradiction; exact I.
  Qed.
End GoalTotalBounded.

Theorem generate_goal_returns_le (ps : str -> res (presult goal)) s fuel :
  (forall t, (length t <= length s)%nat -> returns (ps t)) ->
  (2 * length s + 3 <= fuel)%nat -> returns (generate_goal ps fuel s).
Proof.
  intros Hps Hf. apply returns_good. apply generate_goal_total_le; [|exact Hf].
  intros t Ht. apply returns_good. now apply Hps.
Qed.

Theorem parse_rule_returns_le (ps : str -> res (presult goal)) (pc : str -> res (presult term)) s fuel :
  (forall t, (length t <= length s)%nat -> returns (ps t)) ->
  (forall t, (length t <= length s)%nat -> returns (pc t)) ->
  (2 * length s + 3 <= fuel)%nat -> returns (parse_rule ps pc fuel s).
Proof.
  intros Hps Hpc Hf. apply returns_good. apply parse_rule_total_le; [| |exact Hf].
  - intros t Ht. apply returns_good. now apply Hps.
  - intros t Ht. apply returns_good. now apply Hpc.
Qed.
