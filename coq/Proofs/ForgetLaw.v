(* C22 for the reference search (cut-free programs): what a search delivers depends on the world only through the
   variable-id counter and the stop hook - NOT on what has been written to the output so far (the only part of the
   world that earlier queries leave behind once make_query has reset counter and flag).  Two worlds that agree on
   counter, flag and hook (`weq`) give the same answers, and end in worlds that again agree. *)
From Suiron Require Import Model.Term Model.Subst Model.Solve Model.Builtins Spec.SpecCut
  Proofs.CutOnce Proofs.SldOrder.
Open Scope N_scope.

Lemma slist_ssim a : forall a' l w1, ssim a a' -> slist a = Ok (l, w1) ->
  exists w1', slist a' = Ok (l, w1') /\ weq w1 w1'.
Proof.
  unfold slist.
  induction a as [w|s w r IH| |]; intros [v|s' v r'| |] l w1 Ha H; cbn [ssim] in Ha; try contradiction;
    cbn [seach] in H; try discriminate.
  - inversion H; subst. exists v. cbn [seach]. split; [reflexivity|exact Ha].
  - destruct Ha as (<- & Hw & Hr). cbn [bind] in H.
    destruct (seach (r w) (fun s0 w0 => Ok ([s0], w0))) as [[a2 w2]| |] eqn:E2; cbn [bind] in H; try discriminate.
    inversion H; subst.
    destruct (IH w (r' v) _ _ (Hr _ _ Hw) E2) as (w1' & E' & Hw').
    exists w1'. cbn [seach bind]. rewrite E'. cbn [bind]. split; [reflexivity|exact Hw'].
Qed.

Theorem answers_forget_output kb bf : cutfree_kb kb = true ->
  forall fuel g s w w' l w1, cutfree g = true -> weq w w' ->
  answers kb bf fuel g s w = Ok (l, w1) ->
  exists w1', answers kb bf fuel g s w' = Ok (l, w1') /\ weq w1 w1'.
Proof.
  intros Hkb fuel g s w w' l w1 Hg Hw H.
  rewrite (answers_sld kb bf Hkb _ _ _ _ Hg) in H. rewrite (answers_sld kb bf Hkb _ _ _ _ Hg).
  eapply slist_ssim; [|exact H]. apply (proj1 (sld_weq kb bf fuel)). exact Hw.
Qed.
