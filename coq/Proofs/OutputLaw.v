(* C04 for the reference search, in the vocabulary of Proofs/SldOrder.v: a built-in (print, print_list,
   nl, ...) that stands after a goal g1 is executed ONCE FOR EACH answer of g1, in the order in which
   g1 delivers its answers, and the text of each execution is appended to the output exactly then -
   before g1 is resumed (so what g1 itself writes while searching for its next answer comes after it). *)
From Suiron Require Import Model.Term Model.Subst Model.Solve Model.Builtins Spec.SpecCut
  Proofs.RefinePlain Proofs.CutOnce Proofs.SldOrder.
Open Scope N_scope.

(* one execution of a built-in from (s1, w1): its answers (none or one) and the world with its text appended *)
Definition bip_once (bf : nat) (fn : str) (ts : option (list term)) (s1 : subst) (w1 : world) : res ares :=
  do r <- run_bip bf fn ts s1;
  Ok (match br_sol r with Some s' => [s'] | None => [] end, w_print w1 (br_out r)).

Lemma answers_bip kb bf f fn ts s w : str_eqb fn n_cut = false ->
  answers kb bf (S f) (GBip fn ts) s w = bip_once bf fn ts s w.
Proof.
  intro Hn. unfold answers, drop_sig, bip_once. rewrite csolve_S. cbn [csolve_body].
  destruct (run_bip bf fn ts s) as [r| |] eqn:E; cbn [bind]; try reflexivity.
  pose proof (run_bip_no_cut bf fn ts s r Hn E) as Hc.
  destruct (br_sol r) as [s'|]; cbn [bind]; [|reflexivity].
  unfold collect. cbn [bind]. rewrite Hc. reflexivity.
Qed.

Theorem output_once_per_answer kb bf : cutfree_kb kb = true ->
  forall f g1 fn ts s w, cutfree g1 = true -> str_eqb fn n_cut = false ->
  answers kb bf (S (S (S f))) (GOp OAnd [g1; GBip fn ts]) s w =
  seach (sld kb bf (S (S f)) g1 s w) (bip_once bf fn ts).
Proof.
  intros Hkb f g1 fn ts s w Hg Hn.
  rewrite (sld_conjunction kb bf Hkb (S (S f)) g1 (GBip fn ts) [] s w).
  - apply seach_ext. intros s1 w1. rewrite sld_conjunction_1. apply answers_bip. exact Hn.
  - cbn [cutfree]. rewrite Hg, Hn. reflexivity.
Qed.
