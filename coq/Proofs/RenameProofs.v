(* C10: renaming apart changes only variable ids, consistently, with fresh ids. *)
From Coq Require Import Lia.
From Suiron Require Import Model.Term Model.Subst Model.Show Model.Lists Model.Arith Model.Unify
  Model.Compare Model.Builtins Model.Rename.
Open Scope N_scope.

(* ---- what renaming must not touch: everything but the ids ---- *)
Fixpoint erase (t : term) : term :=
  match t with
  | TVar _ n => TVar 0 n
  | TComplex ts => TComplex (map erase ts)
  | TList a n c tv => TList (erase a) (erase n) c tv
  | TFun f args => TFun f (map erase args)
  | _ => t
  end.

Fixpoint erase_goal (g : goal) : goal :=
  match g with
  | GOp k gs => GOp k (map erase_goal gs)
  | GBip f (Some ts) => GBip f (Some (map erase ts))
  | GBip f None => GBip f None
  | GCall t => GCall (erase t)
  | GNil => GNil
  end.

Definition erase_rule (r : rule) : rule := mkRule (erase (r_head r)) (erase_goal (r_body r)).

(* ---- the variable occurrences of a term / goal / rule ---- *)
Fixpoint tvars (t : term) : list (N * str) :=
  match t with
  | TVar id n => [(id, n)]
  | TComplex ts => flat_map tvars ts
  | TList a n _ _ => tvars a ++ tvars n
  | TFun _ args => flat_map tvars args
  | _ => []
  end.

Fixpoint gvars (g : goal) : list (N * str) :=
  match g with
  | GOp _ gs => flat_map gvars gs
  | GBip _ (Some ts) => flat_map tvars ts
  | GBip _ None => []
  | GCall t => tvars t
  | GNil => []
  end.

Definition rvars (r : rule) : list (N * str) := tvars (r_head r) ++ gvars (r_body r).

(* ---- invariants of the renaming state ---- *)
Definition mono (st st' : rstate) : Prop :=
  snd st <= snd st' /\ forall name id, vm_get (fst st) name = Some id -> vm_get (fst st') name = Some id.

Definition vm_ok (lo : N) (st : rstate) : Prop :=
  lo <= snd st /\
  (forall name id, vm_get (fst st) name = Some id -> lo < id <= snd st) /\
  (forall n1 n2 id, vm_get (fst st) n1 = Some id -> vm_get (fst st) n2 = Some id -> n1 = n2).

Definition mapped (st : rstate) (occ : list (N * str)) : Prop :=
  forall id name, In (id, name) occ -> vm_get (fst st) name = Some id.

Lemma mono_refl st : mono st st.
Proof. split; [lia|auto]. Qed.

Lemma mono_trans a b c : mono a b -> mono b c -> mono a c.
Proof. intros [H1 H2] [H3 H4]. split; [lia|auto]. Qed.

Lemma mapped_mono st st' occ : mono st st' -> mapped st occ -> mapped st' occ.
Proof. intros [_ H] Hm id name Hin. apply H, Hm, Hin. Qed.

Lemma mapped_app st a b : mapped st a -> mapped st b -> mapped st (a ++ b).
Proof. intros Ha Hb id name Hin. apply in_app_or in Hin as [H|H]; auto. Qed.

Lemma mapped_nil st : mapped st [].
Proof. intros id name []. Qed.

Lemma vm_ok_nil lo : vm_ok lo ([], lo).
Proof. split; [simpl; lia|]. split; simpl; intros; discriminate. Qed.

Lemma good_seq (st st1 st2 : rstate) (occ1 occ2 : list (N * str)) :
  mono st st1 -> (forall lo, vm_ok lo st -> vm_ok lo st1) -> mapped st1 occ1 ->
  mono st1 st2 -> (forall lo, vm_ok lo st1 -> vm_ok lo st2) -> mapped st2 occ2 ->
  mono st st2 /\ (forall lo, vm_ok lo st -> vm_ok lo st2) /\ mapped st2 (occ1 ++ occ2).
Proof.
  intros Hm1 Hk1 Hp1 Hm2 Hk2 Hp2. split; [eapply mono_trans; eauto|]. split; [auto|].
  apply mapped_app; [eapply mapped_mono; eauto|exact Hp2].
Qed.

Lemma good_id st : mono st st /\ (forall lo, vm_ok lo st -> vm_ok lo st) /\ mapped st [].
Proof. split; [apply mono_refl|]. split; [auto|apply mapped_nil]. Qed.

(* the result of one renaming, as a property of (input, state, output, state') *)
Definition good_term (t : term) (st : rstate) (t' : term) (st' : rstate) : Prop :=
  erase t' = erase t /\ mono st st' /\ (forall lo, vm_ok lo st -> vm_ok lo st') /\ mapped st' (tvars t').

Lemma rename_var id name st t' st' :
  rename_term (TVar id name) st = (t', st') -> good_term (TVar id name) st t' st'.
Proof.
  destruct st as [vm ctr]. simpl. destruct (vm_get vm name) as [id0|] eqn:Eg; intro H; inversion H; subst; clear H.
  - refine (conj eq_refl (conj (mono_refl _) (conj (fun lo Hk => Hk) _))).
    intros i n [E|[]]. inversion E; subst. exact Eg.
  - refine (conj eq_refl (conj _ (conj _ _))).
    + split; simpl; [lia|]. intros n i Hn. destruct (str_eqb name n) eqn:En; [|exact Hn].
      apply str_eqb_eq in En. subst. congruence.
    + intros lo [H0 [H1 H2]]. simpl in *. split; [simpl; lia|]. split; simpl.
      * intros n i Hn. destruct (str_eqb name n); [inversion Hn; subst|specialize (H1 _ _ Hn)]; lia.
      * intros n1 n2 i Ha Hb.
        destruct (str_eqb name n1) eqn:E1; destruct (str_eqb name n2) eqn:E2.
        -- apply str_eqb_eq in E1, E2. congruence.
        -- inversion Ha; subst. specialize (H1 _ _ Hb). lia.
        -- inversion Hb; subst. specialize (H1 _ _ Ha). lia.
        -- eauto.
    + intros i n [E|[]]. inversion E; subst. simpl. now rewrite str_eqb_refl.
Qed.

Definition good_terms (l : list term) (st : rstate) (l' : list term) (st' : rstate) : Prop :=
  map erase l' = map erase l /\ mono st st' /\ (forall lo, vm_ok lo st -> vm_ok lo st') /\
  mapped st' (flat_map tvars l').

Ltac seq_tac He1 He2 := split; [simpl; now rewrite He1, He2 | simpl; eapply good_seq; eauto].
Ltac wrap_tac He Hm Hk Hp := split; [simpl; now rewrite He | exact (conj Hm (conj Hk Hp))].
Ltac base_tac := split; [reflexivity | apply good_id].

Lemma rename_terms_good : forall l,
  Forall (fun t => forall st t' st', rename_term t st = (t', st') -> good_term t st t' st') l ->
  forall st l' st', rename_terms l st = (l', st') -> good_terms l st l' st'.
Proof.
  induction 1 as [|x l Hx _ IH]; intros st l' st' H; simpl in H.
  - inversion H; subst. base_tac.
  - destruct (rename_term x st) as [x' st1] eqn:E1. destruct (rename_terms l st1) as [r st2] eqn:E2.
    inversion H; subst. destruct (Hx _ _ _ E1) as (He1 & Hm1 & Hk1 & Hp1).
    destruct (IH _ _ _ E2) as (He2 & Hm2 & Hk2 & Hp2). seq_tac He1 He2.
Qed.

(* the anonymous list-recursion inside rename_term is rename_terms *)
Lemma rename_inner_eq : forall l st,
  (fix go (l : list term) (st : rstate) : list term * rstate :=
     match l with
     | [] => ([], st)
     | x :: l' =>
         let '(x', st1) := rename_term x st in
         let '(r, st2) := go l' st1 in (x' :: r, st2)
     end) l st = rename_terms l st.
Proof. induction l as [|x l IH]; intro st; simpl; [reflexivity|]. destruct (rename_term x st). now rewrite IH. Qed.

Theorem rename_term_good : forall t st t' st', rename_term t st = (t', st') -> good_term t st t' st'.
Proof.
  induction t as [| |a0|f0|z0|id0 nm0|ts Hts|a n c tv IHa IHn|nm args Hargs] using term_ind';
    intros st t' st' H;
    try (simpl in H; inversion H; subst; base_tac).
  - now apply rename_var.
  - simpl in H. rewrite rename_inner_eq in H. destruct (rename_terms ts st) as [ts' st1] eqn:E.
    inversion H; subst. destruct (rename_terms_good _ Hts _ _ _ E) as (He & Hm & Hk & Hp).
    wrap_tac He Hm Hk Hp.
  - simpl in H. destruct (rename_term a st) as [a' st1] eqn:E1. destruct (rename_term n st1) as [n' st2] eqn:E2.
    inversion H; subst. destruct (IHa _ _ _ E1) as (He1 & Hm1 & Hk1 & Hp1).
    destruct (IHn _ _ _ E2) as (He2 & Hm2 & Hk2 & Hp2). seq_tac He1 He2.
  - simpl in H. rewrite rename_inner_eq in H. destruct (rename_terms args st) as [ts' st1] eqn:E.
    inversion H; subst. destruct (rename_terms_good _ Hargs _ _ _ E) as (He & Hm & Hk & Hp).
    wrap_tac He Hm Hk Hp.
Qed.

Theorem rename_terms_good' l st l' st' : rename_terms l st = (l', st') -> good_terms l st l' st'.
Proof.
  apply rename_terms_good. apply Forall_forall. intros t _ s t' s' H. now apply rename_term_good.
Qed.

(* ---- goals ---- *)
Section goal_ind'.
  Variable P : goal -> Prop.
  Hypothesis HOp : forall k gs, Forall P gs -> P (GOp k gs).
  Hypothesis HBip : forall f ts, P (GBip f ts).
  Hypothesis HCall : forall t, P (GCall t).
  Hypothesis HNil : P GNil.
  Fixpoint goal_ind' (g : goal) : P g :=
    match g with
    | GOp k gs => HOp k gs ((fix go (l : list goal) : Forall P l :=
                               match l with
                               | [] => Forall_nil P
                               | x :: l' => Forall_cons x (goal_ind' x) (go l')
                               end) gs)
    | GBip f ts => HBip f ts
    | GCall t => HCall t
    | GNil => HNil
    end.
End goal_ind'.

Definition good_goal (g : goal) (st : rstate) (g' : goal) (st' : rstate) : Prop :=
  erase_goal g' = erase_goal g /\ mono st st' /\ (forall lo, vm_ok lo st -> vm_ok lo st') /\
  mapped st' (gvars g').

Theorem rename_goal_good : forall g st g' st', rename_goal g st = Ok (g', st') -> good_goal g st g' st'.
Proof.
  induction g as [k gs Hgs|f ts|t|] using goal_ind'; intros st g' st' H.
  - simpl in H.
    assert (forall l st l' st',
      Forall (fun g => forall st g' st', rename_goal g st = Ok (g', st') -> good_goal g st g' st') l ->
      (fix go (l : list goal) (st : rstate) : res (list goal * rstate) :=
         match l with
         | [] => Ok ([], st)
         | x :: l' =>
             do a <- rename_goal x st;
             let '(x', st1) := a in
             do b <- go l' st1;
             let '(r, st2) := b in Ok (x' :: r, st2)
         end) l st = Ok (l', st') ->
      map erase_goal l' = map erase_goal l /\ mono st st' /\ (forall lo, vm_ok lo st -> vm_ok lo st') /\
      mapped st' (flat_map gvars l')) as Hlist.
    { clear. induction l as [|x l IH]; intros st l' st' HF H.
      - inversion H; subst. base_tac.
      - inversion HF as [|? ? Hx Hl]; subst.
        destruct (rename_goal x st) as [[x' st1]| |] eqn:E1; simpl in H; try discriminate.
        match type of H with bind ?e _ = _ => destruct e as [[r st2]| |] eqn:E2 end; simpl in H; try discriminate.
        inversion H; subst. destruct (Hx _ _ _ E1) as (He1 & Hm1 & Hk1 & Hp1).
        destruct (IH _ _ _ Hl E2) as (He2 & Hm2 & Hk2 & Hp2). seq_tac He1 He2. }
    match type of H with bind ?e _ = _ => destruct e as [[gs' st1]| |] eqn:E end; simpl in H; try discriminate.
    inversion H; subst. destruct (Hlist _ _ _ _ Hgs E) as (He & Hm & Hk & Hp). wrap_tac He Hm Hk Hp.
  - simpl in H. destruct ts as [ts|].
    + destruct (rename_terms ts st) as [ts' st1] eqn:E. inversion H; subst.
      destruct (rename_terms_good' _ _ _ _ E) as (He & Hm & Hk & Hp). wrap_tac He Hm Hk Hp.
    + inversion H; subst. base_tac.
  - simpl in H. destruct t; try discriminate.
    destruct (rename_term (TComplex ts) st) as [u' st1] eqn:E. inversion H; subst.
    destruct (rename_term_good _ _ _ _ E) as (He & Hm & Hk & Hp). wrap_tac He Hm Hk Hp.
  - discriminate.
Qed.

(* ---- rules ---- *)
Definition good_rule (r : rule) (st : rstate) (r' : rule) (st' : rstate) : Prop :=
  erase_rule r' = erase_rule r /\ mono st st' /\ (forall lo, vm_ok lo st -> vm_ok lo st') /\
  mapped st' (rvars r').

Theorem rename_rule_good r st r' st' : rename_rule r st = Ok (r', st') -> good_rule r st r' st'.
Proof.
  unfold rename_rule. destruct (rename_term (r_head r) st) as [h st1] eqn:Eh.
  destruct (rename_term_good _ _ _ _ Eh) as (He1 & Hm1 & Hk1 & Hp1).
  assert (forall g g' st2, rename_goal g st1 = Ok (g', st2) -> r_body r = g ->
            good_rule r st (mkRule h g') st2) as Hbody.
  { intros g g' st2 Hg Hb. destruct (rename_goal_good _ _ _ _ Hg) as (He2 & Hm2 & Hk2 & Hp2).
    split; [unfold erase_rule; simpl; now rewrite He1, He2, Hb|].
    unfold rvars; simpl. eapply good_seq; eauto. }
  destruct (r_body r) as [k gs|f ts|c|] eqn:Eb; intro H.
  - match type of H with bind ?e _ = _ => destruct e as [[g st2]| |] eqn:E end; simpl in H; try discriminate.
    inversion H; subst. eapply Hbody; eauto.
  - match type of H with bind ?e _ = _ => destruct e as [[g st2]| |] eqn:E end; simpl in H; try discriminate.
    inversion H; subst. eapply Hbody; eauto.
  - destruct (rename_term c st1) as [c' st2] eqn:Ec. inversion H; subst.
    destruct (rename_term_good _ _ _ _ Ec) as (He2 & Hm2 & Hk2 & Hp2).
    split; [unfold erase_rule; simpl; now rewrite He1, He2, Eb|].
    unfold rvars; simpl. eapply good_seq; eauto.
  - inversion H; subst.
    split; [unfold erase_rule; simpl; now rewrite He1, Eb|].
    unfold rvars; simpl. rewrite app_nil_r. exact (conj Hm1 (conj Hk1 Hp1)).
Qed.

(* ---- what a clause fetch guarantees ---- *)
Definition consistent (occ : list (N * str)) : Prop :=
  forall id1 n1 id2 n2, In (id1, n1) occ -> In (id2, n2) occ -> (n1 = n2 <-> id1 = id2).

Definition fresh_between (lo hi : N) (occ : list (N * str)) : Prop :=
  forall id n, In (id, n) occ -> lo < id <= hi.

Lemma mapped_ok_consistent lo st occ : vm_ok lo st -> mapped st occ ->
  consistent occ /\ fresh_between lo (snd st) occ.
Proof.
  intros [_ [H1 H2]] Hm. split.
  - intros id1 n1 id2 n2 Ha Hb. apply Hm in Ha, Hb. split.
    + intros ->. congruence.
    + intros ->. eapply H2; eauto.
  - intros id n Hin. apply Hm in Hin. eauto.
Qed.

Theorem get_rule_spec kb pred i ctr r' ctr' :
  get_rule kb pred i ctr = Ok (r', ctr') ->
  exists r rules, kb_get kb pred = Some rules /\ nth_error rules (N.to_nat i) = Some r /\
    erase_rule r' = erase_rule r /\ ctr <= ctr' /\
    consistent (rvars r') /\ fresh_between ctr ctr' (rvars r').
Proof.
  unfold get_rule. destruct (kb_get kb pred) as [rules|]; [|discriminate].
  destruct (nth_error rules (N.to_nat i)) as [r|] eqn:En; [|discriminate].
  destruct (rename_rule r ([], ctr)) as [[r0 [vm c0]]| |] eqn:E; simpl; try discriminate.
  intro H. inversion H; subst. exists r, rules.
  destruct (rename_rule_good _ _ _ _ E) as (He & Hm & Hk & Hp).
  destruct (mapped_ok_consistent ctr _ _ (Hk ctr (vm_ok_nil ctr)) Hp) as [Hc Hf].
  split; [reflexivity|]. split; [exact En|]. split; [exact He|]. split; [apply Hm|]. split; assumption.
Qed.

(* a query built by make_query: ids 1..n, consistent *)
Theorem make_query_spec ts g ctr :
  make_query ts = Ok (g, ctr) ->
  exists ts', g = GCall (TComplex ts') /\ map erase ts' = map erase ts /\
    consistent (flat_map tvars ts') /\ fresh_between 0 ctr (flat_map tvars ts').
Proof.
  unfold make_query. destruct (rename_terms ts ([], 0)) as [ts' [vm c0]] eqn:E.
  destruct ts' as [|t0 ts']; [discriminate|]. destruct t0; try discriminate.
  intro H. inversion H; subst. eexists; split; [reflexivity|].
  destruct (rename_terms_good' _ _ _ _ E) as (He & Hm & Hk & Hp).
  destruct (mapped_ok_consistent 0 _ _ (Hk 0 (vm_ok_nil 0)) Hp) as [Hc Hf].
  split; [exact He|]. split; assumption.
Qed.

(* ---- erasing ids commutes with the list view: list shapes (incl. [], counts, tail
   markers) survive renaming ---- *)
From Suiron Require Import Spec.SpecLists.

Lemma erase_is_nil t : is_nil (erase t) = is_nil t.
Proof. destruct t; reflexivity. Qed.
Lemma erase_node_count t : node_count (erase t) = node_count t.
Proof. destruct t; reflexivity. Qed.
Lemma erase_is_empty_list t : is_empty_list (erase t) = is_empty_list t.
Proof.
  destruct t as [| | | | | | |a n c tv|]; try reflexivity. simpl.
  destruct a; try reflexivity. destruct n; reflexivity.
Qed.

Definition erase_view (v : list term * option term) : list term * option term :=
  (map erase (fst v), option_map erase (snd v)).

Lemma elems_erase : forall l, elems (erase l) = option_map erase_view (elems l).
Proof.
  induction l as [| |a0|f0|z0|id0 nm0|ts _|a n c tv _ IHn|nm args _] using term_ind'; try reflexivity.
  cbn [erase elems]. rewrite erase_is_nil, erase_is_nil, erase_is_empty_list, erase_node_count, IHn.
  destruct (is_nil a).
  - destruct (is_nil n && (c =? 0) && negb tv); reflexivity.
  - destruct tv.
    + destruct (is_empty_list n && (c =? 1)); reflexivity.
    + destruct (elems n) as [[xs tl]|]; [|reflexivity]. simpl.
      destruct (c =? node_count n + 1); reflexivity.
Qed.

(* a renamed well-formed list is a well-formed list of the same length with the same tail-ness,
   whose elements are the renamed elements *)
Theorem rename_list_shape l st l' st' xs tl :
  rename_term l st = (l', st') -> elems l = Some (xs, tl) ->
  exists xs' tl', elems l' = Some (xs', tl') /\ map erase xs' = map erase xs /\
                  option_map erase tl' = option_map erase tl.
Proof.
  intros H He. destruct (rename_term_good _ _ _ _ H) as (Her & _).
  pose proof (elems_erase l') as E1. rewrite Her, elems_erase, He in E1. simpl in E1.
  destruct (elems l') as [[xs' tl']|]; [|discriminate]. simpl in E1. inversion E1. eauto.
Qed.
