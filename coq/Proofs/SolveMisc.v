(* Smaller facts used by C01, C03, C04: the not node, the formatting of print and of answers. *)
From Coq Require Import Lia.
From Suiron Require Import Model.Term Model.Subst Model.Show Model.Lists Model.Arith Model.Unify
  Model.Compare Model.Builtins Model.Rename Model.Solve Spec.SpecSolve Proofs.SolveDead.
Open Scope N_scope.

(* ---- not(G) ---- *)
(* A fresh not node asks its goal once; it answers with exactly the substitution it was
   created with iff the goal has no answer, and is spent afterwards (C05 applies). *)
Theorem not_node_spec kb bf f ss h tl ot w nd' r c w' :
  next kb bf (S f) (NOp ONot ss false true (Some h) tl ot) w = Ok (nd', r, c, w') ->
  exists h' sol,
    next kb bf f h w = Ok (h', sol, c, w') /\
    r = match sol with Some _ => None | None => Some ss end /\
    dead nd'.
Proof.
  rewrite next_S. unfold next_body. simpl. intro H.
  destruct (next kb bf f h w) as [[[[h' sol] c1] w1]| |] eqn:E; simpl in H; try discriminate.
  inversion H; subst. exists h', sol. repeat split; auto. simpl. right. reflexivity.
Qed.

(* the reference: not(G) has the single answer s (the unchanged substitution) iff G has none *)
Lemma not_events_answers s evs :
  answers_of (not_events s evs) = match answers_of evs with [] => [s] | _ :: _ => [] end.
Proof.
  induction evs as [|e evs IH]; [reflexivity|]. destruct e as [a|o]; simpl; [reflexivity|exact IH].
Qed.

(* ---- print ---- *)
Definition no_pct (s : str) : Prop := ~ In 37 s.

Lemma split_no_pct : forall p acc, no_pct p -> split_pct_s acc p = [rev acc ++ p].
Proof.
  induction p as [|c p IH]; intros acc Hn; simpl.
  - now rewrite app_nil_r.
  - assert (c <> 37) as Hc by (intro X; apply Hn; left; auto).
    assert (no_pct p) as Hp by (intro X; apply Hn; right; auto).
    destruct (N.eq_dec c 37) as [->|_]; [congruence|].
    assert (match c with 37 => match p with 115 :: r => rev acc :: split_pct_s [] r | _ => split_pct_s (c :: acc) p end
                       | _ => split_pct_s (c :: acc) p end = split_pct_s (c :: acc) p) as E.
    { destruct c as [|q]; [reflexivity|]. do 6 (destruct q as [q|q|]; try reflexivity). congruence. }
    rewrite E, IH by assumption. simpl. now rewrite <- app_assoc.
Qed.

Lemma split_at_marker : forall p acc rest, no_pct p ->
  split_pct_s acc (p ++ 37 :: 115 :: rest) = (rev acc ++ p) :: split_pct_s [] rest.
Proof.
  induction p as [|c p IH]; intros acc rest Hn; simpl.
  - now rewrite app_nil_r.
  - assert (c <> 37) as Hc by (intro X; apply Hn; left; auto).
    assert (no_pct p) as Hp by (intro X; apply Hn; right; auto).
    assert (match c with 37 => match p ++ 37 :: 115 :: rest with 115 :: r => rev acc :: split_pct_s [] r
                                     | _ => split_pct_s (c :: acc) (p ++ 37 :: 115 :: rest) end
                       | _ => split_pct_s (c :: acc) (p ++ 37 :: 115 :: rest) end
            = split_pct_s (c :: acc) (p ++ 37 :: 115 :: rest)) as E.
    { destruct c as [|q]; [reflexivity|]. do 6 (destruct q as [q|q|]; try reflexivity). congruence. }
    rewrite E, IH by assumption. simpl. now rewrite <- app_assoc.
Qed.

(* the format string as pieces joined by the marker "%s" *)
Fixpoint with_markers (p0 : str) (pieces : list str) : str :=
  match pieces with
  | [] => p0
  | p :: r => p0 ++ 37 :: 115 :: with_markers p r
  end.

Lemma split_with_markers : forall pieces p0, no_pct p0 -> Forall no_pct pieces ->
  split_pct_s [] (with_markers p0 pieces) = p0 :: pieces.
Proof.
  induction pieces as [|p r IH]; intros p0 H0 Hf; simpl.
  - now rewrite split_no_pct.
  - inversion Hf; subst. rewrite split_at_marker by assumption. simpl. now rewrite IH.
Qed.

(* each argument replaces one marker; surplus arguments are appended, surplus markers vanish *)
Fixpoint fill (args pieces : list str) {struct args} : str :=
  match args with
  | a :: ar =>
      match pieces with
      | p :: pr => a ++ p ++ fill ar pr
      | [] => a ++ fill ar []
      end
  | [] => concat pieces
  end.

Lemma interleave_fill : forall args pieces, interleave args pieces = fill args pieces.
Proof.
  induction args as [|a ar IH]; intros [|p pr]; simpl; try reflexivity; try (now rewrite IH).
Qed.

Theorem print_format_spec p0 pieces args :
  no_pct p0 -> Forall no_pct pieces ->
  format_for_print_pred (with_markers p0 pieces :: args) = Ok (p0 ++ fill args pieces).
Proof.
  intros H0 Hf. unfold format_for_print_pred. rewrite split_with_markers by assumption.
  now rewrite interleave_fill.
Qed.

(* ---- format_solution: `name = value` for the query's variable arguments, in order ---- *)
Fixpoint var_pairs (qs rs : list term) : list (str * term) :=
  match qs, rs with
  | TVar _ name :: qs', r :: rs' => (name, r) :: var_pairs qs' rs'
  | _ :: qs', _ :: rs' => var_pairs qs' rs'
  | _, _ => []
  end.

Fixpoint show_pairs (first : bool) (l : list (str * term)) : str :=
  match l with
  | [] => []
  | (name, r) :: l' => (if first then [] else sep_comma) ++ name ++ [32; 61; 32] ++ show_term r ++ show_pairs false l'
  end.

Lemma format_pairs_spec : forall qs rs first, length qs = length rs ->
  format_pairs first qs rs = Ok (show_pairs first (var_pairs qs rs)).
Proof.
  induction qs as [|q qs IH]; intros [|r rs] first Hl; simpl in Hl; try discriminate; [reflexivity|].
  simpl. destruct q; try (apply IH; lia).
  rewrite IH by lia. reflexivity.
Qed.

Theorem format_solution_spec f0 qargs f1 rargs : length qargs = length rargs ->
  format_solution (GCall (TComplex (f0 :: qargs))) (TComplex (f1 :: rargs)) =
  Ok (show_pairs true (var_pairs qargs rargs)).
Proof. intro H. unfold format_solution. destruct qargs; now apply format_pairs_spec. Qed.
