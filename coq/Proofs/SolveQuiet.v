(* C01 (last sentence) and C23 (no-timeout clause): when no stop is pending - the flag is clear
   and no hook schedule is set - the search never raises the flag, solve_all never reports a
   timeout, and its list is exactly the reference answers, formatted, in order. *)
From Coq Require Import Lia.
From Suiron Require Import Model.Term Model.Subst Model.Show Model.Lists Model.Arith Model.Unify
  Model.Compare Model.Builtins Model.Rename Model.Solve Spec.SpecCut
  Proofs.SolveDead Proofs.SolveTimeout Proofs.RefineCut.
Open Scope N_scope.

Definition quiet (w : world) : Prop := stop_after w = None /\ stop_flag w = false.

Lemma quiet_print w s : quiet w -> quiet (w_print w s).
Proof. intros [H1 H2]. split; assumption. Qed.
Lemma quiet_set_id w i : quiet w -> quiet (w_set_id w i).
Proof. intros [H1 H2]. split; assumption. Qed.
Lemma quiet_query_stopped w : quiet w -> query_stopped w = (false, w).
Proof. destruct w as [i fl af o]. intros [H1 H2]. simpl in *. subst. reflexivity. Qed.
Lemma quiet_count_rules kb key w n w' : quiet w -> count_rules kb key w = (n, w') -> quiet w'.
Proof.
  intros Hq H. unfold count_rules in H. rewrite (quiet_query_stopped _ Hq) in H. inversion H; subst. exact Hq.
Qed.
Lemma quiet_set_flag w : quiet w -> w_set_flag w false = w.
Proof. destruct w as [i fl af o]. intros [H1 H2]. simpl in *. subst. reflexivity. Qed.

Lemma quiet_make_node kb : forall g ss w nd w', quiet w -> make_node kb g ss w = Ok (nd, w') -> quiet w'.
Proof.
  induction g as [k gs Hgs|f ts|t|] using RenameProofs.goal_ind'; intros ss w nd w' Hq H; try discriminate.
  - destruct k; destruct gs as [|h tl]; try discriminate; cbn [make_node] in H;
      (destruct (make_node kb h ss w) as [[hn w1]| |] eqn:E; cbn [bind] in H; try discriminate);
      inversion H; subst; inversion Hgs as [|? ? Hh Htl]; subst; eapply Hh; eauto.
  - simpl in H. inversion H; subst. exact Hq.
  - simpl in H. destruct (term_key t) as [key| |]; cbn [bind] in H; try discriminate.
    destruct (count_rules kb key w) as [n w1] eqn:Ec. inversion H; subst. eapply quiet_count_rules; eauto.
Qed.

Section Quiet.
  Variable kb : kbase.
  Variable bf : nat.

  Definition q_next (F : nat) : Prop :=
    forall nd w nd' r c w1, quiet w -> next kb bf F nd w = Ok (nd', r, c, w1) -> quiet w1.
  Definition q_and (F : nat) : Prop :=
    forall ss nobt more head tail optail acc w nd' r c w1, quiet w ->
      and_loop kb bf F ss nobt more head tail optail acc w = Ok (nd', r, c, w1) -> quiet w1.
  Definition q_call (F : nat) : Prop :=
    forall t ss nobt child idx n w nd' r c w1, quiet w ->
      call_loop kb bf F t ss nobt child idx n w = Ok (nd', r, c, w1) -> quiet w1.

  Lemma q_all : forall F, q_next F /\ q_and F /\ q_call F.
  Proof.
    induction F as [|F (IHn & IHa & IHc)].
    { split; [|split]; red; intros; match goal with H : _ = Ok _ |- _ => discriminate H end. }
    split; [|split].
    - intros nd w nd' r c w1 Hq H. rewrite next_S in H. unfold next_body in H.
      destruct (node_nobt nd); [inversion H; subst; exact Hq|].
      destruct nd as [t ss nobt child idx n|k ss nobt more head tail optail|fn ts ss nobt more].
      + destruct child as [c0|]; [|exact (IHc _ _ _ _ _ _ _ _ _ _ _ Hq H)].
        dbind H as n1 o1 b1 wa E1. pose proof (IHn _ _ _ _ _ _ Hq E1) as Hq1.
        destruct o1 as [s|]; [inversion H; subst; exact Hq1|].
        exact (IHc _ _ _ _ _ _ _ _ _ _ _ Hq1 H).
      + destruct k.
        * destruct tail as [t0|]; [|exact (IHa _ _ _ _ _ _ _ _ _ _ _ _ Hq H)].
          dbind H as n1 o1 b1 wa E1. pose proof (IHn _ _ _ _ _ _ Hq E1) as Hq1.
          destruct o1 as [s|]; [inversion H; subst; exact Hq1|].
          exact (IHa _ _ _ _ _ _ _ _ _ _ _ _ Hq1 H).
        * destruct tail as [t0|].
          -- dbind H as n1 o1 b1 wa E1. pose proof (IHn _ _ _ _ _ _ Hq E1) as Hq1. inversion H; subst; exact Hq1.
          -- destruct head as [h|]; [|inversion H; subst; exact Hq].
             dbind H as n1 o1 b1 wa E1. pose proof (IHn _ _ _ _ _ _ Hq E1) as Hq1.
             destruct o1 as [s|]; [inversion H; subst; exact Hq1|].
             destruct optail as [tl|]; [|inversion H; subst; exact Hq1].
             destruct (length tl =? 0)%nat; [inversion H; subst; exact Hq1|].
             destruct (nobt || b1); [inversion H; subst; exact Hq1|].
             dbind2 H as t1 w2 E2. dbind H as n3 o3 b3 w3 E3.
             pose proof (quiet_make_node _ _ _ _ _ _ Hq1 E2) as Hq2.
             pose proof (IHn _ _ _ _ _ _ Hq2 E3) as Hq3. inversion H; subst; exact Hq3.
        * destruct (negb more); [inversion H; subst; exact Hq|].
          destruct head as [h|]; [|discriminate].
          dbind H as n1 o1 b1 wa E1. pose proof (IHn _ _ _ _ _ _ Hq E1) as Hq1.
          inversion H; subst. now apply quiet_print.
        * destruct (negb more); [inversion H; subst; exact Hq|].
          destruct head as [h|]; [|discriminate].
          dbind H as n1 o1 b1 wa E1. pose proof (IHn _ _ _ _ _ _ Hq E1) as Hq1.
          inversion H; subst. exact Hq1.
      + destruct (negb more); [inversion H; subst; exact Hq|].
        dbind1 H as r1 E1. inversion H; subst. now apply quiet_print.
    - intros ss nobt more head tail optail acc w nd' r c w1 Hq H. rewrite and_loop_S in H. unfold and_body in H.
      destruct head as [h|]; [|inversion H; subst; exact Hq].
      dbind H as n1 o1 b1 wa E1. pose proof (IHn _ _ _ _ _ _ Hq E1) as Hq1.
      destruct o1 as [s|]; [|inversion H; subst; exact Hq1].
      destruct optail as [tl|]; [|inversion H; subst; exact Hq1].
      destruct (length tl =? 0)%nat; [inversion H; subst; exact Hq1|].
      dbind2 H as t1 w2 E2. dbind H as n3 o3 b3 w3 E3.
      pose proof (quiet_make_node _ _ _ _ _ _ Hq1 E2) as Hq2.
      pose proof (IHn _ _ _ _ _ _ Hq2 E3) as Hq3.
      destruct o3 as [s2|]; [inversion H; subst; exact Hq3|].
      exact (IHa _ _ _ _ _ _ _ _ _ _ _ _ Hq3 H).
    - intros t ss nobt child idx n w nd' r c w1 Hq H. rewrite call_loop_S in H. unfold call_body in H.
      destruct nobt; [inversion H; subst; exact Hq|].
      destruct (n <=? idx); [inversion H; subst; exact Hq|].
      dbind1 H as key Ek. dbind2 H as r0 ctr Eg. dbind1 H as u Eu.
      destruct u as [s|]; [|refine (IHc _ _ _ _ _ _ _ _ _ _ _ _ H); now repeat apply quiet_set_id].
      destruct (is_gnil (r_body r0)); [inversion H; subst; now apply quiet_set_id|].
      dbind2 H as c0 w2 E2. dbind H as n3 o3 b3 w3 E3.
      pose proof (quiet_make_node _ _ _ _ _ _ (quiet_set_id _ ctr Hq) E2) as Hq2.
      pose proof (IHn _ _ _ _ _ _ Hq2 E3) as Hq3.
      destruct o3 as [s2|]; [inversion H; subst; exact Hq3|].
      exact (IHc _ _ _ _ _ _ _ _ _ _ _ Hq3 H).
  Qed.

  Theorem quiet_next F nd w nd' r c w1 : quiet w -> next kb bf F nd w = Ok (nd', r, c, w1) -> quiet w1.
  Proof. apply (proj1 (q_all F)). Qed.

  (* ---- asking until no answer, with whatever search fuel each request is given ---- *)
  Inductive Drain : node -> world -> list subst -> world -> Prop :=
  | Drain_end F nd w nd' c w1 : next kb bf F nd w = Ok (nd', None, c, w1) -> Drain nd w [] w1
  | Drain_ans F nd w nd' s c w1 l w2 :
      next kb bf F nd w = Ok (nd', Some s, c, w1) -> Drain nd' w1 l w2 -> Drain nd w (s :: l) w2.

  Theorem drain_is_cden nd w l w' : Drain nd w l w' ->
    forall fs a wE g, ncutb nd = true -> (1 <= fs)%nat ->
      cden kb bf fs nd w (collect) = Ok (a, wE, g) -> (l, w') = (a, wE).
  Proof.
    induction 1 as [F nd w nd' c w1 E1|F nd w nd' s c w1 l w2 E1 _ IH]; intros fs a wE g Hn Hfs HD;
      destruct (ncut_next _ _ _ _ _ _ _ _ _ Hn E1) as [-> Hn1];
      pose proof (cden_step _ _ _ _ _ _ _ _ _ _ _ _ Hfs E1 HD) as Hs.
    - injection Hs as -> -> ->. reflexivity.
    - destruct Hs as (a1 & wx & g1 & Hk1 & Hs). unfold collect in Hk1. injection Hk1 as <- <- <-.
      destruct Hs as (a2 & w3 & g2 & Hd2 & Heq). injection Heq as -> -> ->.
      pose proof (IH _ _ _ _ Hn1 Hfs Hd2) as Heq. injection Heq as -> ->. reflexivity.
  Qed.
End Quiet.

(* a Run of solve_all in a quiet world is a Drain, never stopped, and its texts are the
   formatted answers *)
Lemma run_quiet kb q fuel nd w l nd' w' b :
  Run kb q fuel nd w l nd' w' b -> quiet w ->
  b = false /\ exists ss, Drain kb fuel nd w ss w' /\
                          Forall2 (fun s txt => exists f, answer_text f q s = Ok txt) ss l.
Proof.
  induction 1 as [nd w nd' c w1 E Hf|nd w nd' sol c w1 E Hf|nd w nd1 s c w1 txt l nd' w' b E Hf Ht _ IH];
    intro Hq; pose proof (quiet_next _ _ _ _ _ _ _ _ _ Hq E) as Hq1; rewrite (quiet_query_stopped _ Hq1) in *; cbn [fst snd] in *.
  - split; [reflexivity|]. exists []. split; [eapply Drain_end; eauto|constructor].
  - discriminate.
  - destruct (IH Hq1) as (-> & ss & Hd & Hall). split; [reflexivity|].
    exists (s :: ss). split; [eapply Drain_ans; eauto|]. constructor; [now exists fuel|exact Hall].
Qed.

(* solve_all on a freshly made query, no stop pending: no timeout message, and the list is the
   reference answers (Spec/SpecCut.v), formatted as `$Var = value`, in order *)
Theorem solve_all_refines kb fuel q w fs R nd w1 nd' l w' :
  quiet w ->
  canswers kb fuel fs q w = Ok R ->
  make_base_node kb (GCall q) w = Ok (nd, w1) ->
  solve_all fuel kb nd w1 = Ok (nd', l, w') ->
  Forall2 (fun s txt => exists f, answer_text f q s = Ok txt) (fst R) l /\ w' = snd R.
Proof.
  intros Hq Ha Hm H.
  assert (make_node kb (GCall q) [] w = Ok (nd, w1)) as Hm' by exact Hm.
  pose proof (quiet_make_node _ _ _ _ _ _ Hq Hm') as Hq1.
  destruct (solve_all_reports _ _ _ _ _ _ _ H) as (q0 & l0 & b & wr & Hg & Hr & Hl & Hb).
  assert (q0 = q) as ->.
  { simpl in Hm. destruct (term_key q) as [key| |]; cbn [bind] in Hm; try discriminate.
    destruct (count_rules kb key w) as [n wc]. inversion Hm; subst. simpl in Hg. now inversion Hg. }
  rewrite (quiet_set_flag _ Hq1) in Hr.
  destruct (run_quiet _ _ _ _ _ _ _ _ _ Hr Hq1) as (-> & ss & Hd & Hall).
  unfold canswers in Ha.
  destruct (csolve kb fuel fs (GCall q) [] w (fun s w0 _ => Ok ([s], w0, Go))) as [[[a wE] g]| |] eqn:Ec; cbn [bind] in Ha; try discriminate.
  injection Ha as <-. destruct fs as [|f0]; [discriminate|].
  assert (cden kb fuel (S f0) nd w1 collect = Ok (a, wE, g)) as HD.
  { eapply (cden_fresh kb fuel (GCall q) (S f0) (S f0)); [exact Hm'|lia|apply ckle_refl|exact Ec]. }
  assert (ncutb nd = true) as Hn by (eapply make_node_ncut; [|exact Hm']; reflexivity).
  assert (forall ss wr, Drain kb fuel nd w1 ss wr -> quiet wr) as Hdq.
  { clear - Hq1. intros ss wr Hd. revert Hq1. induction Hd as [F nd w nd' c w1 E1|F nd w nd' s c w1 l w2 E1 _ IH]; intro Hq1.
    - eapply quiet_next; eauto.
    - apply IH. eapply quiet_next; eauto. }
  pose proof (Hdq _ _ Hd) as Hqr.
  pose proof (drain_is_cden _ _ _ _ _ _ Hd (S f0) a wE g Hn ltac:(lia) HD) as Heq. injection Heq as -> ->.
  cbn [fst snd].
  rewrite (quiet_query_stopped _ Hqr) in Hl. cbn [fst] in Hl. rewrite app_nil_r in Hl. subst l0.
  split; [exact Hall|].
  unfold solve_all in H. rewrite Hg in H.
  destruct (solve_all_loop fuel fuel kb nd q [] (w_set_flag w1 false)) as [[[n1 acc] w2]| |] eqn:E; cbn [bind] in H; try discriminate.
  destruct (solve_all_loop_runs _ _ _ _ _ _ _ _ _ _ E) as (l1 & b1 & Hr1 & _).
  rewrite (quiet_set_flag _ Hq1) in Hr1.
  destruct (run_quiet _ _ _ _ _ _ _ _ _ Hr1 Hq1) as (_ & ss1 & Hd1 & _).
  pose proof (Hdq _ _ Hd1) as HqE.
  pose proof (drain_is_cden _ _ _ _ _ _ Hd1 (S f0) a wE g Hn ltac:(lia) HD) as Heq. injection Heq as _ ->.
  rewrite (quiet_query_stopped _ HqE) in H. now inversion H.
Qed.

(* a call node stays a call node of the same goal *)
Lemma call_loop_shape kb bf : forall F t ss nobt child idx n w nd' r c w1,
  call_loop kb bf F t ss nobt child idx n w = Ok (nd', r, c, w1) -> exists b ch i, nd' = NCall t ss b ch i n.
Proof.
  induction F as [|F IH]; intros t ss nobt child idx n w nd' r c w1 H; [discriminate|].
  rewrite call_loop_S in H. unfold call_body in H.
  destruct nobt; [inversion H; subst; eauto|].
  destruct (n <=? idx); [inversion H; subst; eauto|].
  dbind1 H as key Ek. dbind2 H as r0 ctr Eg. dbind1 H as u Eu.
  destruct u as [s|]; [|exact (IH _ _ _ _ _ _ _ _ _ _ _ H)].
  destruct (is_gnil (r_body r0)); [inversion H; subst; eauto|].
  dbind2 H as c0 w2 E2. dbind H as n3 o3 b3 w3 E3.
  destruct o3 as [s2|]; [inversion H; subst; eauto|].
  exact (IH _ _ _ _ _ _ _ _ _ _ _ H).
Qed.
Lemma nc_call_shape kb bf F t ss nobt child idx n w nd' r c w1 :
  next kb bf F (NCall t ss nobt child idx n) w = Ok (nd', r, c, w1) -> exists b ch i, nd' = NCall t ss b ch i n.
Proof.
  destruct F as [|F]; [discriminate|]. rewrite next_S. unfold next_body. cbn [node_nobt].
  destruct nobt; [intro H; inversion H; subst; eauto|].
  destruct child as [c0|]; [|apply call_loop_shape].
  intro H. dbind H as n1 o1 b1 wa E1. destruct o1 as [s|]; [inversion H; subst; eauto|].
  exact (call_loop_shape _ _ _ _ _ _ _ _ _ _ _ _ _ _ H).
Qed.

(* ---- n requests, one after the other (also beyond exhaustion) ---- *)
Section Requests.
  Variable kb : kbase.
  Variable bf : nat.

  Inductive Asks : node -> world -> list (option subst) -> node -> world -> Prop :=
  | Asks_nil nd w : Asks nd w [] nd w
  | Asks_cons F nd w nd1 r c w1 rs nd' w' :
      next kb bf F nd w = Ok (nd1, r, c, w1) -> Asks nd1 w1 rs nd' w' -> Asks nd w (r :: rs) nd' w'.

  Lemma asks_dead nd w rs nd' w' : Asks nd w rs nd' w' -> dead nd -> rs = repeat None (length rs) /\ w' = w /\ dead nd'.
  Proof.
    induction 1 as [nd w|F nd w nd1 r c w1 rs nd' w' E _ IH]; intro Hd; [auto|].
    destruct (dead_stays _ _ _ _ _ _ _ _ _ Hd E) as (-> & _ & -> & Hd1).
    destruct (IH Hd1) as (Hr & -> & Hd'). cbn [length repeat]. now rewrite <- Hr.
  Qed.

  (* the answers of n requests are the first n reference answers, then None for ever; once the
     answers are exhausted the world is the reference's final world and no longer changes *)
  Theorem asks_are_reference_answers nd w rs nd' w' : Asks nd w rs nd' w' ->
    forall fs a wE g, ncutb nd = true -> (1 <= fs)%nat -> cden kb bf fs nd w collect = Ok (a, wE, g) ->
      rs = map Some (firstn (length rs) a) ++ repeat None (length rs - length a) /\
      (length a < length rs -> w' = wE)%nat.
  Proof.
    induction 1 as [nd w|F nd w nd1 r c w1 rs nd' w' E1 HA IH]; intros fs a wE g Hn Hfs HD.
    { cbn. split; [reflexivity|lia]. }
    destruct (ncut_next _ _ _ _ _ _ _ _ _ Hn E1) as [-> Hn1].
    pose proof (cden_step _ _ _ _ _ _ _ _ _ _ _ _ Hfs E1 HD) as Hs.
    destruct r as [s|].
    - destruct Hs as (a1 & wx & g1 & Hk1 & Hs). unfold collect in Hk1. injection Hk1 as <- <- <-.
      destruct Hs as (a2 & w3 & g2 & Hd2 & Heq). injection Heq as -> -> ->.
      destruct (IH _ _ _ _ Hn1 Hfs Hd2) as [Hr Hw]. cbn [length firstn map app Nat.sub].
      split; [now rewrite <- Hr|]. intro Hlt. apply Hw. cbn [length app] in Hlt. lia.
    - injection Hs as -> -> ->. cbn [length firstn map app Nat.sub].
      assert (dead nd1) as Dd by (eapply none_then_dead; eauto).
      destruct (asks_dead _ _ _ _ _ HA Dd) as (Hr & -> & _). cbn [repeat]. split; [now rewrite <- Hr|]. reflexivity.
  Qed.
End Requests.

(* solve, called n times on a freshly made query with no stop pending: the texts are the first n
   reference answers formatted, then `No more.` for ever *)
Fixpoint solve_times (n : nat) (fuel : nat) (kb : kbase) (nd : node) (w : world) : res (list str * node * world) :=
  match n with
  | O => Ok ([], nd, w)
  | S n' =>
      do x <- solve fuel kb nd w;
      let '(nd1, txt, w1) := x in
      do y <- solve_times n' fuel kb nd1 w1;
      let '(txts, nd', w') := y in Ok (txt :: txts, nd', w')
  end.

Definition solve_text (fuel : nat) (q : term) (r : option subst) (txt : str) : Prop :=
  match r with Some s => answer_text fuel q s = Ok txt | None => txt = no_more end.

Lemma solve_times_asks kb fuel q : forall n nd w txts nd' w',
  quiet w -> node_goal_term nd = Some q ->
  solve_times n fuel kb nd w = Ok (txts, nd', w') ->
  exists rs, Asks kb fuel nd w rs nd' w' /\ Forall2 (solve_text fuel q) rs txts.
Proof.
  induction n as [|n IH]; intros nd w txts nd' w' Hq Hg H; cbn [solve_times] in H.
  { inversion H; subst. exists []. split; constructor. }
  destruct (solve fuel kb nd w) as [[[nd1 txt] w1]| |] eqn:Es; cbn [bind] in H; try discriminate.
  destruct (solve_times n fuel kb nd1 w1) as [[[txts0 nd0] w0]| |] eqn:Et; cbn [bind] in H; try discriminate.
  inversion H; subst. clear H.
  destruct (solve_reports _ _ _ _ _ _ _ Es) as (sol & c & wa & En & -> & Ht).
  rewrite (quiet_set_flag _ Hq) in En.
  pose proof (quiet_next _ _ _ _ _ _ _ _ _ Hq En) as Hqa. rewrite (quiet_query_stopped _ Hqa) in *. cbn [fst snd] in *.
  assert (node_goal_term nd1 = Some q) as Hg1.
  { destruct nd as [t ss nobt child idx n0| |]; try discriminate. cbn in Hg. inversion Hg; subst t.
    destruct (nc_call_shape kb fuel fuel _ _ _ _ _ _ _ _ _ _ _ En) as (b' & ch' & i' & ->). reflexivity. }
  destruct (IH _ _ _ _ _ Hqa Hg1 Et) as (rs & HA & HF).
  exists (sol :: rs). split; [eapply Asks_cons; eauto|]. constructor; [|exact HF].
  destruct sol as [s|]; cbn [solve_text]; [|exact Ht].
  destruct Ht as (q' & Hq' & Htxt). rewrite Hg1 in Hq'. inversion Hq'; subst. exact Htxt.
Qed.

Lemma solve_times_length : forall n fuel kb nd w txts nd' w',
  solve_times n fuel kb nd w = Ok (txts, nd', w') -> length txts = n.
Proof.
  induction n as [|n IH]; intros fuel kb nd w txts nd' w' H; cbn [solve_times] in H.
  - now inversion H.
  - destruct (solve fuel kb nd w) as [[[nd1 txt] w1]| |]; cbn [bind] in H; try discriminate.
    destruct (solve_times n fuel kb nd1 w1) as [[[txts0 nd0] w0]| |] eqn:Et; cbn [bind] in H; try discriminate.
    inversion H; subst. cbn [length]. f_equal. eapply IH; eauto.
Qed.

Lemma forall2_length {A B} (P : A -> B -> Prop) l l' : Forall2 P l l' -> length l = length l'.
Proof. induction 1; cbn [length]; congruence. Qed.

Theorem solve_refines kb fuel q w fs R nd w1 n txts nd' w' :
  quiet w ->
  canswers kb fuel fs q w = Ok R ->
  make_base_node kb (GCall q) w = Ok (nd, w1) ->
  solve_times n fuel kb nd w1 = Ok (txts, nd', w') ->
  Forall2 (solve_text fuel q) (map Some (firstn n (fst R)) ++ repeat None (n - length (fst R))) txts.
Proof.
  intros Hq Ha Hm H.
  assert (make_node kb (GCall q) [] w = Ok (nd, w1)) as Hm' by exact Hm.
  pose proof (quiet_make_node _ _ _ _ _ _ Hq Hm') as Hq1.
  assert (node_goal_term nd = Some q) as Hg.
  { simpl in Hm. destruct (term_key q) as [key| |]; cbn [bind] in Hm; try discriminate.
    destruct (count_rules kb key w) as [n0 wc]. inversion Hm; subst. reflexivity. }
  destruct (solve_times_asks kb fuel q n nd w1 txts nd' w' Hq1 Hg H) as (rs & HA & HF).
  unfold canswers in Ha.
  destruct (csolve kb fuel fs (GCall q) [] w (fun s w0 _ => Ok ([s], w0, Go))) as [[[a wE] g]| |] eqn:Ec; cbn [bind] in Ha; try discriminate.
  injection Ha as <-. destruct fs as [|f0]; [discriminate|]. cbn [fst].
  assert (cden kb fuel (S f0) nd w1 collect = Ok (a, wE, g)) as HD.
  { eapply (cden_fresh kb fuel (GCall q) (S f0) (S f0)); [exact Hm'|lia|apply ckle_refl|exact Ec]. }
  assert (ncutb nd = true) as Hn by (eapply make_node_ncut; [|exact Hm']; reflexivity).
  destruct (asks_are_reference_answers _ _ _ _ _ _ _ HA (S f0) a wE g Hn ltac:(lia) HD) as [Hr _].
  assert (length rs = n) as Hl.
  { rewrite (forall2_length _ _ _ HF). eapply solve_times_length; eauto. }
  rewrite Hl in Hr. rewrite <- Hr. exact HF.
Qed.
