(* C01 - C04 for programs with cut, not and time: the resumable search of Model/Solve.v refines
   the reference search of Spec/SpecCut.v.

   `cden fs nd w k` is the ABSTRACTION FUNCTION: what remains of the reference search in the
   state of node nd.  A node whose no_backtracking flag is set denotes the empty rest; a live
   node denotes the reference search of what it still has to try, the continuations being those
   the reference search itself builds (kwrap, kbump, halt1).  One machine step (`next`) finds no
   answer - then the denotation is empty, with signal Cut 0 iff the step reports a cut - or finds
   answer s, and then the denotation is: hand s to k; after a cut that is all (the signal
   becomes Cut); otherwise, if k says Go, the rest is the denotation of the node as it is left
   (cden_step).  Draining a node therefore yields exactly its denotation, and the denotation of
   a fresh node is the reference search of its goal (cden_fresh). *)
From Coq Require Import Lia.
From Suiron Require Import Model.Term Model.Subst Model.Show Model.Lists Model.Arith Model.Unify
  Model.Compare Model.Builtins Model.Rename Model.Solve Spec.SpecCut
  Proofs.RenameProofs Proofs.SolveDead Proofs.SolveCut Proofs.RefinePlain.
Open Scope N_scope.

Definition ckle (k1 k2 : ckont) : Prop := forall s w c r, k1 s w c = Ok r -> k2 s w c = Ok r.
Lemma ckle_refl k : ckle k k. Proof. intros s w c r H; exact H. Qed.
Lemma ckle_kbump k1 k2 : ckle k1 k2 -> ckle (kbump k1) (kbump k2).
Proof.
  intros H s w c r Hr. unfold kbump in *.
  destruct (k1 s w false) as [z| |] eqn:E; cbn [bind] in Hr; try discriminate.
  rewrite (H _ _ _ _ E). exact Hr.
Qed.
Lemma ckle_kwrap c1 k1 k2 : ckle k1 k2 -> ckle (kwrap c1 k1) (kwrap c1 k2).
Proof.
  intros H s w c r Hr. unfold kwrap in *.
  destruct (k1 s w (c1 || c)) as [z| |] eqn:E; cbn [bind] in Hr; try discriminate.
  rewrite (H _ _ _ _ E). exact Hr.
Qed.

Lemma has_cut_op k gs : has_cut (GOp k gs) = existsb has_cut gs.
Proof. simpl. induction gs as [|x r IH]; [reflexivity|]. simpl. now rewrite IH. Qed.

Lemma join0_idem s : join0 (join0 s) = join0 s.
Proof. destruct s; reflexivity. Qed.
Lemma join0_not_go s : join0 s <> Go.
Proof. destruct s; discriminate. Qed.

Section CDen.
  Variable kb : kbase.
  Variable bf : nat.

  (* ---- the reference search is monotone in its fuel and in its continuation ---- *)
  Definition csmono (f : nat) : Prop :=
    (forall f' g s w k1 k2 R, (f <= f')%nat -> ckle k1 k2 ->
       csolve kb bf f g s w k1 = Ok R -> csolve kb bf f' g s w k2 = Ok R) /\
    (forall f' t s key idx n w k1 k2 R, (f <= f')%nat -> ckle k1 k2 ->
       cclauses kb bf f t s key idx n w k1 = Ok R -> cclauses kb bf f' t s key idx n w k2 = Ok R).

  Lemma csolve_mono_all : forall f, csmono f.
  Proof.
    induction f as [|f [IHs IHc]].
    { split; intros; discriminate. }
    split.
    - intros f' g s w k1 k2 R Hle Hk H. destruct f' as [|f']; [lia|]. assert (f <= f')%nat as Hle' by lia.
      rewrite csolve_S in *. unfold csolve_body in *. destruct g as [k gs|fn ts|t|]; try discriminate.
      + destruct k; try discriminate.
        * (* and *)
          destruct gs as [|g1 [|g2 rest]]; try discriminate.
          -- eapply IHs; eauto.
          -- eapply IHs; [exact Hle'| |exact H]. intros s1 w1 c1 r1 H1.
             destruct (csolve kb bf f (GOp OAnd (g2 :: rest)) s1 w1 (kwrap c1 k1)) as [y| |] eqn:E; cbn [bind] in H1; try discriminate.
             rewrite (IHs _ _ _ _ _ _ _ Hle' (ckle_kwrap c1 _ _ Hk) E). exact H1.
        * (* or *)
          destruct gs as [|g1 [|g2 rest]]; try discriminate.
          -- eapply IHs; eauto.
          -- unfold seq in *.
             destruct (csolve kb bf f g1 s w k1) as [[[a1 w1] s1]| |] eqn:E1; cbn [bind] in H; try discriminate.
             rewrite (IHs _ _ _ _ _ _ _ Hle' Hk E1). cbn [bind]. destruct s1; try exact H.
             destruct (csolve kb bf f (GOp OOr (g2 :: rest)) s w1 k1) as [y| |] eqn:E2; cbn [bind] in H; try discriminate.
             rewrite (IHs _ _ _ _ _ _ _ Hle' Hk E2). exact H.
        * (* time *)
          destruct gs as [|g1 rest]; try discriminate. destruct (has_cut g1); [discriminate|].
          destruct (csolve kb bf f g1 s w halt1) as [[[a w1] s1]| |] eqn:E1; cbn [bind] in H; try discriminate.
          rewrite (IHs _ _ _ _ _ _ _ Hle' (ckle_refl _) E1). cbn [bind].
          destruct a; [exact H|]. now apply Hk.
        * (* not *)
          destruct gs as [|g1 rest]; try discriminate. destruct (has_cut g1); [discriminate|].
          destruct (csolve kb bf f g1 s w halt1) as [[[a w1] s1]| |] eqn:E1; cbn [bind] in H; try discriminate.
          rewrite (IHs _ _ _ _ _ _ _ Hle' (ckle_refl _) E1). cbn [bind].
          destruct a; [now apply Hk|exact H].
      + destruct (run_bip bf fn ts s) as [r| |]; cbn [bind] in *; try discriminate.
        destruct (br_sol r); [|exact H].
        destruct (k1 s0 (w_print w (br_out r)) (br_cut r)) as [x| |] eqn:E; cbn [bind] in H; try discriminate.
        rewrite (Hk _ _ _ _ E). exact H.
      + destruct (term_key t) as [key| |]; cbn [bind] in *; try discriminate.
        destruct (count_rules kb key w) as [n w0]. eapply IHc; eauto.
    - intros f' t s key idx n w k1 k2 R Hle Hk H. destruct f' as [|f']; [lia|]. assert (f <= f')%nat as Hle' by lia.
      rewrite cclauses_S in *. unfold cclauses_body in *. destruct (n <=? idx); [exact H|].
      destruct (get_rule kb key idx (next_id w)) as [[r ctr]| |]; cbn [bind] in *; try discriminate.
      destruct (unify bf (r_head r) t s) as [[s'|]| |]; cbn [bind] in *; try discriminate.
      + destruct (is_gnil (r_body r)).
        * unfold seq in *.
          destruct (k1 s' (w_set_id w ctr) false) as [[[a1 w2] s1]| |] eqn:E1; cbn [bind] in H; try discriminate.
          rewrite (Hk _ _ _ _ E1). cbn [bind]. destruct s1; try exact H.
          destruct (cclauses kb bf f t s key (idx + 1) n w2 k1) as [y| |] eqn:E2; cbn [bind] in H; try discriminate.
          rewrite (IHc _ _ _ _ _ _ _ _ _ _ Hle' Hk E2). exact H.
        * destruct (csolve kb bf f (r_body r) s' (w_set_id w ctr) (kbump k1)) as [[[a1 w2] s1]| |] eqn:E1; cbn [bind] in H; try discriminate.
          rewrite (IHs _ _ _ _ _ _ _ Hle' (ckle_kbump _ _ Hk) E1). cbn [bind].
          unfold after_body in *. destruct s1 as [|[|m]|]; try exact H.
          destruct (cclauses kb bf f t s key (idx + 1) n w2 k1) as [y| |] eqn:E2; cbn [bind] in H; try discriminate.
          rewrite (IHc _ _ _ _ _ _ _ _ _ _ Hle' Hk E2). exact H.
      + eapply IHc; eauto.
  Qed.

  Lemma csolve_mono f f' g s w k1 k2 R : (f <= f')%nat -> ckle k1 k2 ->
    csolve kb bf f g s w k1 = Ok R -> csolve kb bf f' g s w k2 = Ok R.
  Proof. apply (proj1 (csolve_mono_all f)). Qed.
  Lemma cclauses_mono f f' t s key idx n w k1 k2 R : (f <= f')%nat -> ckle k1 k2 ->
    cclauses kb bf f t s key idx n w k1 = Ok R -> cclauses kb bf f' t s key idx n w k2 = Ok R.
  Proof. apply (proj2 (csolve_mono_all f)). Qed.

  (* ---- the abstraction function ---- *)
  Definition ckand (fs : nat) (optail : option (list goal)) (k : ckont) : ckont :=
    match optail with
    | Some (g :: r) => fun s1 w1 c1 =>
        do y <- csolve kb bf fs (GOp OAnd (g :: r)) s1 w1 (kwrap c1 k); Ok (mark c1 y)
    | _ => k
    end.
  Definition correst (fs : nat) (optail : option (list goal)) (ss : subst) (w : world) (k : ckont) : res cres :=
    match optail with
    | Some (g :: r) => csolve kb bf fs (GOp OOr (g :: r)) ss w k
    | _ => Ok ([], w, Go)
    end.

  Definition keyof (t : term) : str := match term_key t with Ok key => key | _ => [] end.

  (* no `!` in the node at this clause level (calls hide theirs) *)
  Fixpoint ncutb (nd : node) : bool :=
    match nd with
    | NBip fn _ _ _ _ => negb (str_eqb fn n_cut)
    | NCall _ _ _ _ _ _ => true
    | NOp _ _ _ _ head tail optail =>
        (match head with Some h => ncutb h | None => true end) &&
        (match tail with Some t => ncutb t | None => true end) &&
        (match optail with Some tl => negb (existsb has_cut tl) | None => true end)
    end.

  Definition empty (w : world) : res cres := Ok ([], w, Go).

  Fixpoint cden (fs : nat) (nd : node) (w : world) (k : ckont) {struct nd} : res cres :=
    if node_nobt nd then empty w else
    match nd with
    | NBip fn ts ss _ more => if more then csolve kb bf fs (GBip fn ts) ss w k else empty w
    | NCall t ss _ child idx n =>
        do x <- match child with Some c => cden fs c w (kbump k) | None => empty w end;
        after_body x (fun w2 => cclauses kb bf fs t ss (keyof t) idx n w2 k)
    | NOp OAnd ss _ _ head tail optail =>
        seq (match tail with Some t => cden fs t w (kwrap false k) | None => empty w end)
            (fun w1 => match head with Some h => cden fs h w1 (ckand fs optail k) | None => empty w1 end)
    | NOp OOr ss _ _ head tail optail =>
        match tail with
        | Some t => cden fs t w k
        | None =>
            match head with
            | None => empty w
            | Some h => seq (cden fs h w k) (fun w1 => correst fs optail ss w1 k)
            end
        end
    | NOp ONot ss _ more head _ _ =>
        if more then
          match head with
          | Some h =>
              if ncutb h then
                do x <- cden fs h w halt1;
                let '(a, w1, _) := x in
                match a with [] => k ss w1 false | _ => Ok ([], w1, Go) end
              else Panic
          | None => Panic
          end
        else empty w
    | NOp OTime ss _ more head _ _ =>
        if more then
          match head with
          | Some h =>
              if ncutb h then
                do x <- cden fs h w halt1;
                let '(a, w1, _) := x in
                match a with
                | [] => Ok ([], w_print w1 elapsed_token, Go)
                | s1 :: _ => k s1 (w_print w1 elapsed_token) false
                end
              else Panic
          | None => Panic
          end
        else empty w
    end.

  Lemma cden_nobt fs nd w k : node_nobt nd = true -> cden fs nd w k = empty w.
  Proof. intro H. destruct nd; simpl in H; subst; reflexivity. Qed.

  (* a node made from a goal without cut has no cut *)
  Lemma make_node_ncut : forall g ss w nd w', has_cut g = false -> make_node kb g ss w = Ok (nd, w') -> ncutb nd = true.
  Proof.
    induction g as [k gs Hgs|fn ts|t|] using goal_ind'; intros ss w nd w' Hc H; try discriminate.
    - rewrite has_cut_op in Hc.
      destruct k; destruct gs as [|h tl]; try discriminate; cbn [make_node] in H;
        (destruct (make_node kb h ss w) as [[hn w1]| |] eqn:E; cbn [bind] in H; try discriminate);
        inversion H; subst; inversion Hgs as [|? ? Hh Htl]; subst;
        simpl in Hc; apply orb_false_iff in Hc as [C1 C2]; cbn [ncutb];
        rewrite (Hh _ _ _ _ C1 E); try rewrite C2; reflexivity.
    - simpl in H. inversion H; subst. simpl in *. now rewrite Hc.
    - simpl in H. destruct (term_key t) as [key| |]; cbn [bind] in H; try discriminate.
      destruct (count_rules kb key w) as [n w1]. inversion H; subst. reflexivity.
  Qed.

  Lemma seq_empty_l w (b : world -> res cres) R : b w = Ok R -> seq (empty w) b = Ok R.
  Proof. intro H. unfold seq, empty. cbn [bind]. rewrite H. cbn [bind]. destruct R as [[a w2] s]. reflexivity. Qed.

  (* a fresh node denotes the reference search of its goal (from the world in which it is made) *)
  Lemma cden_fresh : forall g f fs ss w nd w' k1 k2 R,
    make_node kb g ss w = Ok (nd, w') -> (f <= fs)%nat -> ckle k1 k2 ->
    csolve kb bf f g ss w k1 = Ok R -> cden fs nd w' k2 = Ok R.
  Proof.
    induction g as [k gs Hgs|fn ts|t|] using goal_ind'; intros f fs ss w nd w' k1 k2 R Hm Hle Hk H; try discriminate.
    - destruct f as [|f]; [discriminate|]. rewrite csolve_S in H. unfold csolve_body in H.
      destruct k; destruct gs as [|g1 rest]; try discriminate; cbn [make_node] in Hm;
        (destruct (make_node kb g1 ss w) as [[hn w1]| |] eqn:E; cbn [bind] in Hm; try discriminate);
        inversion Hm; subst; inversion Hgs as [|? ? Hg1 Hrest]; subst; cbn [cden node_nobt].
      + (* and *)
        apply seq_empty_l. destruct rest as [|g2 rest'].
        * cbn [ckand]. eapply (Hg1 f fs); [exact E|lia|exact Hk|exact H].
        * cbn [ckand]. eapply (Hg1 f fs); [exact E|lia| |exact H].
          intros s1 w1 c1 r1 H1.
          destruct (csolve kb bf f (GOp OAnd (g2 :: rest')) s1 w1 (kwrap c1 k1)) as [y| |] eqn:E1; cbn [bind] in H1; try discriminate.
          rewrite (csolve_mono f fs _ _ _ _ _ _ ltac:(lia) (ckle_kwrap c1 _ _ Hk) E1). exact H1.
      + (* or *)
        destruct rest as [|g2 rest'].
        * cbn [correst]. unfold seq. rewrite (Hg1 f fs ss w hn w' k1 k2 R E ltac:(lia) Hk H). cbn [bind].
          destruct R as [[a1 wa] [| |]]; cbn [bind]; try reflexivity. now rewrite app_nil_r.
        * unfold seq in *.
          destruct (csolve kb bf f g1 ss w k1) as [[[a1 wa] s1]| |] eqn:E1; cbn [bind] in H; try discriminate.
          rewrite (Hg1 f fs ss w hn w' k1 k2 _ E ltac:(lia) Hk E1). cbn [bind correst].
          destruct s1; try exact H.
          destruct (csolve kb bf f (GOp OOr (g2 :: rest')) ss wa k1) as [y| |] eqn:E2; cbn [bind] in H; try discriminate.
          rewrite (csolve_mono f fs _ _ _ _ k2 _ ltac:(lia) Hk E2). exact H.
      + (* time *)
        destruct (has_cut g1) eqn:Ec; [discriminate|]. rewrite (make_node_ncut _ _ _ _ _ Ec E).
        destruct (csolve kb bf f g1 ss w halt1) as [[[a wa] s1]| |] eqn:E1; cbn [bind] in H; try discriminate.
        rewrite (Hg1 f fs ss w hn w' halt1 halt1 _ E ltac:(lia) (ckle_refl _) E1). cbn [bind].
        destruct a; [exact H|]. now apply Hk.
      + (* not *)
        destruct (has_cut g1) eqn:Ec; [discriminate|]. rewrite (make_node_ncut _ _ _ _ _ Ec E).
        destruct (csolve kb bf f g1 ss w halt1) as [[[a wa] s1]| |] eqn:E1; cbn [bind] in H; try discriminate.
        rewrite (Hg1 f fs ss w hn w' halt1 halt1 _ E ltac:(lia) (ckle_refl _) E1). cbn [bind].
        destruct a; [now apply Hk|exact H].
    - simpl in Hm. inversion Hm; subst. cbn [cden node_nobt]. eapply csolve_mono; eauto.
    - destruct f as [|f]; [discriminate|]. rewrite csolve_S in H. unfold csolve_body in H. simpl in Hm.
      destruct (term_key t) as [key| |] eqn:Ek; cbn [bind] in *; try discriminate.
      destruct (count_rules kb key w) as [n w0]. inversion Hm; subst. cbn [cden node_nobt]. unfold empty. cbn [bind after_body].
      unfold keyof. rewrite Ek.
      rewrite (cclauses_mono f fs _ _ _ _ _ _ _ k2 _ ltac:(lia) Hk H). cbn [bind]. destruct R as [[a w2] s]. reflexivity.
  Qed.

  (* ---- a node without cut at its clause level never reports one ---- *)
  Lemma ncutb_set_nobt nd : ncutb (set_nobt nd) = ncutb nd.
  Proof. destruct nd; reflexivity. Qed.
  Lemma ncutb_op k ss b m head tail optail :
    match head with Some h => ncutb h = true | None => True end ->
    match tail with Some t => ncutb t = true | None => True end ->
    match optail with Some tl => existsb has_cut tl = false | None => True end ->
    ncutb (NOp k ss b m head tail optail) = true.
  Proof. intros H1 H2 H3. cbn [ncutb]. destruct head, tail, optail; rewrite ?H1, ?H2, ?H3; reflexivity. Qed.
  Lemma ncutb_op_inv k ss b m head tail optail : ncutb (NOp k ss b m head tail optail) = true ->
    match head with Some h => ncutb h = true | None => True end /\
    match tail with Some t => ncutb t = true | None => True end /\
    match optail with Some tl => existsb has_cut tl = false | None => True end.
  Proof.
    cbn [ncutb]. intro H. apply andb_true_iff in H as [H H3]. apply andb_true_iff in H as [H1 H2].
    repeat split; [destruct head|destruct tail|destruct optail]; auto. now apply negb_true_iff in H3.
  Qed.

  Lemma nc_call : forall F t ss nobt child idx n w nd' r c w1,
    call_loop kb bf F t ss nobt child idx n w = Ok (nd', r, c, w1) -> c = false /\ ncutb nd' = true.
  Proof.
    induction F as [|F IH]; intros t ss nobt child idx n w nd' r c w1 H; [discriminate|].
    rewrite call_loop_S in H. unfold call_body in H.
    destruct nobt; [inversion H; subst; auto|].
    destruct (n <=? idx); [inversion H; subst; auto|].
    dbind1 H as key Ek. dbind2 H as r0 ctr Eg. dbind1 H as u Eu.
    destruct u as [s|]; [|exact (IH _ _ _ _ _ _ _ _ _ _ _ H)].
    destruct (is_gnil (r_body r0)); [inversion H; subst; auto|].
    dbind2 H as c0 w2 E2. dbind H as n3 o3 b3 w3 E3.
    destruct o3 as [s2|]; [inversion H; subst; auto|].
    exact (IH _ _ _ _ _ _ _ _ _ _ _ H).
  Qed.

  Definition nc_next (F : nat) : Prop :=
    forall nd w nd' r c w1, ncutb nd = true -> next kb bf F nd w = Ok (nd', r, c, w1) -> c = false /\ ncutb nd' = true.
  Definition nc_and (F : nat) : Prop :=
    forall ss nobt more head tail optail acc w nd' r c w1,
      match head with Some h => ncutb h = true | None => True end ->
      match tail with Some t => ncutb t = true | None => True end ->
      match optail with Some tl => existsb has_cut tl = false | None => True end ->
      and_loop kb bf F ss nobt more head tail optail acc w = Ok (nd', r, c, w1) -> c = acc /\ ncutb nd' = true.

  Lemma nc_all : forall F, nc_next F /\ nc_and F.
  Proof.
    induction F as [|F (IHn & IHa)].
    { split; red; intros; match goal with H : _ = Ok _ |- _ => discriminate H end. }
    split.
    - intros nd w nd' r c w1 Hp H. rewrite next_S in H. unfold next_body in H.
      destruct (node_nobt nd); [inversion H; subst; auto|].
      destruct nd as [t ss nobt child idx n|k ss nobt more head tail optail|fn ts ss nobt more].
      + destruct child as [c0|]; [|exact (nc_call _ _ _ _ _ _ _ _ _ _ _ _ H)].
        dbind H as n1 o1 b1 wa E1. destruct o1 as [s|]; [inversion H; subst; auto|].
        exact (nc_call _ _ _ _ _ _ _ _ _ _ _ _ H).
      + destruct (ncutb_op_inv _ _ _ _ _ _ _ Hp) as (Hh & Ht & Ho). destruct k.
        * (* and *)
          destruct tail as [t0|]; [|exact (IHa _ _ _ head None optail _ _ _ _ _ _ Hh I Ho H)].
          dbind H as n1 o1 b1 wa E1. destruct (IHn _ _ _ _ _ _ Ht E1) as [-> P1]. cbn [orb] in H.
          rewrite orb_false_r in H.
          destruct o1 as [s|]; [inversion H; subst; split; [reflexivity|now apply ncutb_op]|].
          exact (IHa _ _ _ head (Some n1) optail _ _ _ _ _ _ Hh P1 Ho H).
        * (* or *)
          destruct tail as [t0|].
          -- dbind H as n1 o1 b1 wa E1. destruct (IHn _ _ _ _ _ _ Ht E1) as [-> P1].
             inversion H; subst. split; [reflexivity|now apply ncutb_op].
          -- destruct head as [h|]; [|inversion H; subst; auto].
             dbind H as n1 o1 b1 wa E1. destruct (IHn _ _ _ _ _ _ Hh E1) as [-> P1]. cbn [orb] in H.
             rewrite orb_false_r in H.
             destruct o1 as [s|]; [inversion H; subst; split; [reflexivity|now apply ncutb_op]|].
             destruct optail as [tl|]; [|inversion H; subst; split; [reflexivity|now apply ncutb_op]].
             destruct (length tl =? 0)%nat; [inversion H; subst; split; [reflexivity|now apply ncutb_op]|].
             destruct nobt; [inversion H; subst; split; [reflexivity|now apply ncutb_op]|].
             dbind2 H as t1 w2 E2. dbind H as n3 o3 b3 w3 E3.
             assert (ncutb t1 = true) as Pt.
             { eapply make_node_ncut; [|exact E2]. rewrite has_cut_op. exact Ho. }
             destruct (IHn _ _ _ _ _ _ Pt E3) as [-> P3]. inversion H; subst. split; [reflexivity|now apply ncutb_op].
        * (* time *)
          destruct (negb more); [inversion H; subst; auto|].
          destruct head as [h|]; [|discriminate].
          dbind H as n1 o1 b1 wa E1. destruct (IHn _ _ _ _ _ _ Hh E1) as [-> P1].
          inversion H; subst. split; [reflexivity|now apply ncutb_op].
        * (* not *)
          destruct (negb more); [inversion H; subst; auto|].
          destruct head as [h|]; [|discriminate].
          dbind H as n1 o1 b1 wa E1. destruct (IHn _ _ _ _ _ _ Hh E1) as [-> P1].
          inversion H; subst. split; [reflexivity|now apply ncutb_op].
      + cbn [ncutb] in Hp. apply negb_true_iff in Hp.
        destruct (negb more); [inversion H; subst; split; [reflexivity|cbn [ncutb]; now rewrite Hp]|].
        dbind1 H as r1 E1. rewrite (run_bip_no_cut _ _ _ _ _ Hp E1) in H. inversion H; subst.
        split; [reflexivity|cbn [ncutb]; now rewrite Hp].
    - intros ss nobt more head tail optail acc w nd' r c w1 Hh Ht Ho H. rewrite and_loop_S in H. unfold and_body in H.
      destruct head as [h|]; [|inversion H; subst; split; [reflexivity|now apply ncutb_op]].
      dbind H as n1 o1 b1 wa E1. destruct (IHn _ _ _ _ _ _ Hh E1) as [-> P1]. cbn [orb] in H.
      rewrite !orb_false_r in H.
      destruct o1 as [s|]; [|inversion H; subst; split; [reflexivity|now apply ncutb_op]].
      destruct optail as [tl|]; [|inversion H; subst; split; [reflexivity|now apply ncutb_op]].
      destruct (length tl =? 0)%nat; [inversion H; subst; split; [reflexivity|now apply ncutb_op]|].
      dbind2 H as t1 w2 E2. dbind H as n3 o3 b3 w3 E3.
      assert (ncutb t1 = true) as Pt.
      { eapply make_node_ncut; [|exact E2]. rewrite has_cut_op. exact Ho. }
      destruct (IHn _ _ _ _ _ _ Pt E3) as [-> P3]. rewrite !orb_false_r in H.
      destruct o3 as [s2|]; [inversion H; subst; split; [reflexivity|now apply ncutb_op]|].
      exact (IHa _ _ _ (Some n1) (Some n3) (Some tl) _ _ _ _ _ _ P1 P3 Ho H).
  Qed.

  Theorem ncut_next F nd w nd' r c w1 :
    ncutb nd = true -> next kb bf F nd w = Ok (nd', r, c, w1) -> c = false /\ ncutb nd' = true.
  Proof. apply (proj1 (nc_all F)). Qed.
  (* ---- unfolding of the abstraction function on live nodes ---- *)
  Lemma cden_call fs t ss child idx n w k :
    cden fs (NCall t ss false child idx n) w k =
    do x <- match child with Some c => cden fs c w (kbump k) | None => empty w end;
    after_body x (fun w2 => cclauses kb bf fs t ss (keyof t) idx n w2 k).
  Proof. reflexivity. Qed.
  Lemma cden_and fs ss more head tail optail w k :
    cden fs (NOp OAnd ss false more head tail optail) w k =
    seq (match tail with Some t => cden fs t w (kwrap false k) | None => empty w end)
        (fun w1 => match head with Some h => cden fs h w1 (ckand fs optail k) | None => empty w1 end).
  Proof. reflexivity. Qed.
  Lemma cden_or fs ss more head tail optail w k :
    cden fs (NOp OOr ss false more head tail optail) w k =
    match tail with
    | Some t => cden fs t w k
    | None => match head with
              | None => empty w
              | Some h => seq (cden fs h w k) (fun w1 => correst fs optail ss w1 k)
              end
    end.
  Proof. reflexivity. Qed.

  Lemma seq_empty_inv w (b : world -> res cres) R : seq (empty w) b = Ok R -> b w = Ok R.
  Proof.
    unfold seq, empty. cbn [bind]. destruct (b w) as [[[a w2] g]| |]; cbn [bind]; intro H; try discriminate.
    exact H.
  Qed.
  Lemma seq_app_inv a1 a2 w g (b : world -> res cres) R :
    seq (Ok (a1 ++ a2, w, g)) b = Ok R ->
    exists a' w' g', seq (Ok (a2, w, g)) b = Ok (a', w', g') /\ R = (a1 ++ a', w', g').
  Proof.
    unfold seq. cbn [bind]. destruct g.
    - destruct (b w) as [[[a3 w3] g3]| |]; cbn [bind]; intro H; try discriminate.
      inversion H; subst. exists (a2 ++ a3), w3, g3. split; [reflexivity|now rewrite app_assoc].
    - intro H; inversion H; subst. exists a2, w, (Cut n). auto.
    - intro H; inversion H; subst. exists a2, w, Halt. auto.
  Qed.
  Lemma after_body_app_inv a1 a2 w g (rest : world -> res cres) R :
    after_body (a1 ++ a2, w, g) rest = Ok R ->
    exists a' w' g', after_body (a2, w, g) rest = Ok (a', w', g') /\ R = (a1 ++ a', w', g').
  Proof.
    unfold after_body. destruct g as [|[|m]|].
    - destruct (rest w) as [[[a3 w3] g3]| |]; cbn [bind]; intro H; try discriminate.
      inversion H; subst. exists (a2 ++ a3), w3, g3. split; [reflexivity|now rewrite app_assoc].
    - intro H; inversion H; subst. exists a2, w, Go. auto.
    - intro H; inversion H; subst. exists a2, w, (Cut m). auto.
    - intro H; inversion H; subst. exists a2, w, Halt. auto.
  Qed.
  Lemma after_body_empty_inv w (rest : world -> res cres) R : after_body ([], w, Go) rest = Ok R -> rest w = Ok R.
  Proof.
    unfold after_body. destruct (rest w) as [[[a w2] g]| |]; cbn [bind]; intro H; try discriminate. exact H.
  Qed.

  Lemma run_bip_cut_sol f fn ts ss r : run_bip f fn ts ss = Ok r -> br_cut r = true -> br_sol r = Some ss.
  Proof.
    intros H Hc. destruct (str_eqb fn n_cut) eqn:E.
    - apply str_eqb_eq in E. subst fn. vm_compute in H. inversion H; subst. reflexivity.
    - rewrite (run_bip_no_cut _ _ _ _ _ E H) in Hc. discriminate.
  Qed.

  (* ---- induction over nodes ---- *)
  Section node_ind2.
    Variable P : node -> Prop.
    Hypothesis HCall : forall t ss nobt child idx n,
      match child with Some c => P c | None => True end -> P (NCall t ss nobt child idx n).
    Hypothesis HOp : forall k ss nobt more head tail optail,
      match head with Some h => P h | None => True end ->
      match tail with Some t => P t | None => True end -> P (NOp k ss nobt more head tail optail).
    Hypothesis HBip : forall fn ts ss nobt more, P (NBip fn ts ss nobt more).
    Fixpoint node_ind2 (nd : node) : P nd :=
      match nd with
      | NCall t ss nobt child idx n =>
          HCall t ss nobt child idx n (match child with Some c => node_ind2 c | None => I end)
      | NOp k ss nobt more head tail optail =>
          HOp k ss nobt more head tail optail
              (match head with Some h => node_ind2 h | None => I end)
              (match tail with Some t => node_ind2 t | None => I end)
      | NBip fn ts ss nobt more => HBip fn ts ss nobt more
      end.
  End node_ind2.

  (* an exhausted node denotes the empty rest *)
  Lemma cdead_den : forall nd fs w k, dead nd -> (1 <= fs)%nat -> cden fs nd w k = empty w.
  Proof.
    induction nd as [t ss nobt child idx n IHc|kd ss nobt more head tail optail IHh IHt|fn ts ss nobt more] using node_ind2;
      intros fs w k Hd Hfs; (destruct nobt; [reflexivity|]); simpl in Hd; (destruct Hd as [Hd|Hd]; [discriminate|]).
    - destruct Hd as [Hle Hdc]. rewrite cden_call.
      assert (match child with Some c => cden fs c w (kbump k) | None => empty w end = empty w) as ->.
      { destruct child as [c|]; [apply IHc; auto|reflexivity]. }
      unfold empty. cbn [bind after_body]. destruct fs as [|f0]; [lia|].
      rewrite cclauses_S. unfold cclauses_body.
      destruct (N.leb_spec n idx) as [_|Hlt]; [reflexivity|lia].
    - destruct kd.
      + destruct Hd as [Hdh Hdt]. rewrite cden_and.
        assert (match tail with Some t => cden fs t w (kwrap false k) | None => empty w end = empty w) as ->.
        { destruct tail as [t|]; [apply IHt; auto|reflexivity]. }
        apply seq_empty_l. destruct head as [h|]; [apply IHh; auto|reflexivity].
      + rewrite cden_or. destruct tail as [t|]; [apply IHt; auto|].
        destruct head as [h|]; [|reflexivity]. destruct Hd as [Hdh Hoe].
        rewrite (IHh fs w k Hdh Hfs). apply seq_empty_l.
        destruct optail as [[|g r]|]; try reflexivity. discriminate.
      + subst more. reflexivity.
      + subst more. reflexivity.
    - subst more. reflexivity.
  Qed.

  Lemma cden_opt_dead fs o w k : match o with Some t => dead t | None => True end -> (1 <= fs)%nat ->
    match o with Some t => cden fs t w k | None => empty w end = empty w.
  Proof. destruct o as [t|]; [intros D H; now apply cdead_den|reflexivity]. Qed.
  (* ---- one step of the machine against the denotation ---- *)
  Definition cstepres (fs : nat) (k : ckont) (R : cres) (nd' : node) (r : option subst) (c : bool) (w1 : world) : Prop :=
    match r with
    | None => R = ([], w1, if c then Cut 0 else Go)
    | Some s1 => exists a1 w2 g1,
        k s1 w1 c = Ok (a1, w2, g1) /\
        if c then R = (a1, w2, join0 g1)
        else match g1 with
             | Go => exists a2 w3 g2, cden fs nd' w2 k = Ok (a2, w3, g2) /\ R = (a1 ++ a2, w3, g2)
             | _ => R = (a1, w2, g1)
             end
    end.

  Definition cst_next (F : nat) : Prop :=
    forall nd w nd' r c w1 fs k R, (1 <= fs)%nat ->
      next kb bf F nd w = Ok (nd', r, c, w1) -> cden fs nd w k = Ok R -> cstepres fs k R nd' r c w1.
  Definition cst_and (F : nat) : Prop :=
    forall ss more head tail optail w nd' r c w1 fs k R,
      match tail with Some t => dead t | None => True end -> (1 <= fs)%nat ->
      and_loop kb bf F ss false more head tail optail false w = Ok (nd', r, c, w1) ->
      match head with Some h => cden fs h w (ckand fs optail k) | None => empty w end = Ok R ->
      cstepres fs k R nd' r c w1.
  Definition cst_call (F : nat) : Prop :=
    forall t ss child idx n w nd' r c w1 fs k R,
      match child with Some c0 => dead c0 | None => True end -> (1 <= fs)%nat ->
      call_loop kb bf F t ss false child idx n w = Ok (nd', r, c, w1) ->
      cclauses kb bf fs t ss (keyof t) idx n w k = Ok R -> cstepres fs k R nd' r c w1.

  (* the last answer of a node: what k makes of it, marked if a cut ran *)
  Lemma cstep_last fs k s w1 (c : bool) nd' R0 :
    k s w1 c = Ok R0 ->
    (c = false -> forall w2, cden fs nd' w2 k = empty w2) ->
    cstepres fs k (mark c R0) nd' (Some s) c w1.
  Proof.
    intros Hk He. destruct R0 as [[a w2] g]. exists a, w2, g. split; [exact Hk|].
    destruct c; [reflexivity|]. cbn [mark].
    destruct g; try reflexivity. exists [], w2, Go. split; [now apply He|now rewrite app_nil_r].
  Qed.

  Lemma and_loop_cut F ss more head tail optail w nd' r c w1 :
    and_loop kb bf F ss true more (set_nobt_opt head) tail optail true w = Ok (nd', r, c, w1) ->
    r = None /\ c = true /\ w1 = w.
  Proof.
    destruct F as [|F]; [discriminate|]. rewrite and_loop_S. unfold and_body.
    destruct head as [h|]; cbn [set_nobt_opt option_map].
    - destruct F as [|F]; [discriminate|]. rewrite next_S. unfold next_body.
      assert (node_nobt (set_nobt h) = true) as -> by (destruct h; reflexivity).
      cbn [bind]. intro H; inversion H; auto.
    - intro H; inversion H; auto.
  Qed.
  Lemma call_loop_cut F t ss child idx n w nd' r c w1 :
    call_loop kb bf F t ss true child idx n w = Ok (nd', r, c, w1) -> r = None /\ c = false /\ w1 = w.
  Proof.
    destruct F as [|F]; [discriminate|]. rewrite call_loop_S. unfold call_body.
    intro H; inversion H; auto.
  Qed.

  Lemma cst_all : forall F, cst_next F /\ cst_and F /\ cst_call F.
  Proof.
    induction F as [|F (IHn & IHa & IHc)].
    { split; [|split]; red; intros; match goal with H : _ = Ok (_, _, _, _) |- _ => discriminate H end. }
    split; [|split].
    - (* next *)
      intros nd w nd' r c w1 fs k R Hfs H HD. rewrite next_S in H. unfold next_body in H.
      destruct (node_nobt nd) eqn:Enb.
      { inversion H; subst. rewrite cden_nobt in HD by exact Enb. inversion HD; subst. reflexivity. }
      destruct nd as [t ss nobt child idx n|kd ss nobt more head tail optail|fn ts ss nobt more];
        simpl in Enb; subst nobt.
      + (* call *)
        rewrite cden_call in HD. destruct child as [c0|].
        * destruct (cden fs c0 w (kbump k)) as [[[ac wc] gc]| |] eqn:Ec; cbn [bind] in HD; try discriminate.
          dbind H as c1 o1 b1 wa E1.
          pose proof (IHn _ _ _ _ _ _ fs (kbump k) _ Hfs E1 Ec) as Hs.
          destruct o1 as [s|].
          -- inversion H; subst. clear H. destruct Hs as (a1 & w2 & g1 & Hk1 & Hs).
             unfold kbump in Hk1.
             destruct (k s w1 false) as [[[ak wk] gk]| |] eqn:Ek; cbn [bind] in Hk1; try discriminate.
             injection Hk1 as <- <- <-.
             exists ak, wk, gk. split; [exact Ek|]. cbn [orb].
             destruct b1.
             ++ inversion Hs; subst. clear Hs.
                destruct gk as [|m|]; cbn [bump join0 after_body] in HD; inversion HD; subst; try reflexivity.
                exists [], wk, Go. split; [reflexivity|now rewrite app_nil_r].
             ++ destruct gk as [|m|]; cbn [bump] in Hs.
                ** destruct Hs as (a2 & w3 & g2 & Hd2 & Heq). inversion Heq; subst.
                   destruct (after_body_app_inv _ _ _ _ _ _ HD) as (a' & w' & g' & Hab & ->).
                   exists a', w', g'. split; [|reflexivity]. rewrite cden_call, Hd2. exact Hab.
                ** inversion Hs; subst. cbn [after_body] in HD. now inversion HD.
                ** inversion Hs; subst. cbn [after_body] in HD. now inversion HD.
          -- inversion Hs; subst. clear Hs. destruct b1; cbn [orb] in H.
             ++ cbn [after_body] in HD. inversion HD; subst.
                destruct (call_loop_cut _ _ _ _ _ _ _ _ _ _ _ H) as (-> & -> & ->). reflexivity.
             ++ apply after_body_empty_inv in HD.
                exact (IHc t ss None idx n _ _ _ _ _ fs k _ I Hfs H HD).
        * unfold empty in HD. cbn [bind] in HD. apply after_body_empty_inv in HD.
          exact (IHc t ss None idx n _ _ _ _ _ fs k _ I Hfs H HD).
      + destruct kd.
        * (* and *)
          rewrite cden_and in HD. destruct tail as [t0|].
          -- unfold seq in HD.
             destruct (cden fs t0 w (kwrap false k)) as [[[at1 wt] gt]| |] eqn:Et; cbn [bind] in HD; try discriminate.
             dbind H as t1 o1 b1 wa E1.
             pose proof (IHn _ _ _ _ _ _ fs (kwrap false k) _ Hfs E1 Et) as Hs.
             destruct o1 as [s|].
             ++ inversion H; subst. clear H. destruct Hs as (a1 & w2 & g1 & Hk1 & Hs).
                unfold kwrap in Hk1. cbn [orb] in Hk1.
                destruct (k s w1 c) as [[[ak wk] gk]| |] eqn:Ek; cbn [bind] in Hk1; try discriminate.
                exists ak, wk, gk. split; [exact Ek|]. cbn [orb].
                destruct c; cbn [mark] in Hk1; inversion Hk1; subst; clear Hk1.
                ** inversion Hs; subst. rewrite join0_idem in HD.
                   destruct gk; cbn [join0] in *; now inversion HD.
                ** destruct g1.
                   --- destruct Hs as (a2 & w3 & g2 & Hd2 & Heq). inversion Heq; subst.
                       change (seq (Ok (a1 ++ a2, w3, g2))
                                 (fun w1 => match head with Some h => cden fs h w1 (ckand fs optail k) | None => empty w1 end) = Ok R) in HD.
                       destruct (seq_app_inv _ _ _ _ _ _ HD) as (a' & w' & g' & Hab & ->).
                       exists a', w', g'. split; [|reflexivity]. rewrite cden_and, Hd2. exact Hab.
                   --- inversion Hs; subst. now inversion HD.
                   --- inversion Hs; subst. now inversion HD.
             ++ inversion Hs; subst. clear Hs. destruct b1; cbn [orb] in H.
                ** inversion HD; subst.
                   destruct (and_loop_cut _ _ _ _ _ _ _ _ _ _ _ H) as (-> & -> & ->). reflexivity.
                ** assert (dead t1) as Dt by (eapply none_then_dead; eauto).
                   change (seq (empty wa) (fun w1 => match head with Some h => cden fs h w1 (ckand fs optail k) | None => empty w1 end) = Ok R) in HD.
                   apply seq_empty_inv in HD.
                   exact (IHa ss more head (Some t1) optail _ _ _ _ _ fs k _ Dt Hfs H HD).
          -- apply seq_empty_inv in HD.
             exact (IHa ss more head None optail _ _ _ _ _ fs k _ I Hfs H HD).
        * (* or *)
          rewrite cden_or in HD. destruct tail as [t0|].
          -- dbind H as t1 o1 b1 wa E1.
             pose proof (IHn _ _ _ _ _ _ fs k _ Hfs E1 HD) as Hs. inversion H; subst. clear H. cbn [orb].
             destruct r as [s|]; [|exact Hs].
             destruct Hs as (a1 & w2 & g1 & Hk1 & Hs). exists a1, w2, g1. split; [exact Hk1|].
             destruct c; [exact Hs|]. destruct g1; exact Hs.
          -- destruct head as [h|].
             2:{ inversion H; subst. inversion HD; subst. reflexivity. }
             unfold seq in HD.
             destruct (cden fs h w k) as [[[ah wh] gh]| |] eqn:Eh; cbn [bind] in HD; try discriminate.
             dbind H as h1 o1 b1 wa E1.
             pose proof (IHn _ _ _ _ _ _ fs k _ Hfs E1 Eh) as Hs.
             destruct o1 as [s|].
             ++ inversion H; subst. clear H. cbn [orb].
                destruct Hs as (a1 & w2 & g1 & Hk1 & Hs). exists a1, w2, g1. split; [exact Hk1|].
                destruct c.
                ** inversion Hs; subst. destruct g1; cbn [join0] in *; now inversion HD.
                ** destruct g1.
                   --- destruct Hs as (a2 & w3 & g2 & Hd2 & Heq). inversion Heq; subst.
                       change (seq (Ok (a1 ++ a2, w3, g2)) (fun w1 => correst fs optail ss w1 k) = Ok R) in HD.
                       destruct (seq_app_inv _ _ _ _ _ _ HD) as (a' & w' & g' & Hab & ->).
                       exists a', w', g'. split; [|reflexivity]. rewrite cden_or, Hd2. exact Hab.
                   --- inversion Hs; subst. now inversion HD.
                   --- inversion Hs; subst. now inversion HD.
             ++ inversion Hs; subst. clear Hs. destruct b1; cbn [orb] in H.
                ** inversion HD; subst.
                   destruct optail as [tl|]; [destruct (length tl =? 0)%nat|]; inversion H; subst; reflexivity.
                ** change (seq (empty wa) (fun w1 => correst fs optail ss w1 k) = Ok R) in HD.
                   apply seq_empty_inv in HD.
                   destruct optail as [[|g rr]|].
                   --- inversion H; subst. inversion HD; subst. reflexivity.
                   --- cbn [length Nat.eqb] in H. dbind2 H as t1 w2 E2. dbind H as t3 o3 b3 w3 E3.
                       assert (cden fs t1 w2 k = Ok R) as Dt1.
                       { eapply (cden_fresh (GOp OOr (g :: rr)) fs fs); [exact E2|lia|apply ckle_refl|exact HD]. }
                       pose proof (IHn _ _ _ _ _ _ fs k _ Hfs E3 Dt1) as Hs3. inversion H; subst. clear H. cbn [orb].
                       destruct r as [s3|]; [|exact Hs3].
                       destruct Hs3 as (a1 & wx & g1 & Hk1 & Hs3). exists a1, wx, g1. split; [exact Hk1|].
                       destruct c; [exact Hs3|]. destruct g1; exact Hs3.
                   --- inversion H; subst. inversion HD; subst. reflexivity.
        * (* time *)
          cbn [cden node_nobt] in HD. destruct more; cbn [negb] in H.
          2:{ inversion H; subst. inversion HD; subst. reflexivity. }
          destruct head as [h|]; [|discriminate]. destruct (ncutb h) eqn:En; [|discriminate].
          destruct (cden fs h w halt1) as [[[ah wh] gh]| |] eqn:Eh; cbn [bind] in HD; try discriminate.
          dbind H as h1 o1 b1 wa E1. destruct (ncut_next _ _ _ _ _ _ _ En E1) as [-> _].
          pose proof (IHn _ _ _ _ _ _ fs halt1 _ Hfs E1 Eh) as Hs. inversion H; subst. clear H. cbn [orb].
          destruct r as [s|].
          -- destruct Hs as (a1 & w2 & g1 & Hk1 & Hs). unfold halt1 in Hk1. inversion Hk1; subst. inversion Hs; subst.
             apply (cstep_last fs k s _ false _ R HD). intros _ wq. reflexivity.
          -- inversion Hs; subst. inversion HD; subst. reflexivity.
        * (* not *)
          cbn [cden node_nobt] in HD. destruct more; cbn [negb] in H.
          2:{ inversion H; subst. inversion HD; subst. reflexivity. }
          destruct head as [h|]; [|discriminate]. destruct (ncutb h) eqn:En; [|discriminate].
          destruct (cden fs h w halt1) as [[[ah wh] gh]| |] eqn:Eh; cbn [bind] in HD; try discriminate.
          dbind H as h1 o1 b1 wa E1. destruct (ncut_next _ _ _ _ _ _ _ En E1) as [-> _].
          pose proof (IHn _ _ _ _ _ _ fs halt1 _ Hfs E1 Eh) as Hs. inversion H; subst. clear H. cbn [orb].
          destruct o1 as [s|].
          -- destruct Hs as (a1 & w2 & g1 & Hk1 & Hs). unfold halt1 in Hk1. inversion Hk1; subst. inversion Hs; subst.
             inversion HD; subst. reflexivity.
          -- inversion Hs; subst.
             apply (cstep_last fs k ss _ false _ R HD). intros _ wq. reflexivity.
      + (* built-in *)
        cbn [cden node_nobt] in HD. destruct more; cbn [negb] in H.
        2:{ inversion H; subst. inversion HD; subst. reflexivity. }
        destruct fs as [|f0]; [lia|]. rewrite csolve_S in HD. unfold csolve_body in HD.
        dbind1 H as rb Eb. cbn [bind] in HD. inversion H; subst. clear H. cbn [orb].
        destruct (br_sol rb) as [s|] eqn:Es.
        * destruct (k s (w_print w (br_out rb)) (br_cut rb)) as [x| |] eqn:Ek; cbn [bind] in HD; try discriminate.
          inversion HD; subst. apply (cstep_last (S f0) k s _ _ _ x Ek). intros Hc wq. rewrite Hc. reflexivity.
        * inversion HD; subst. destruct (br_cut rb) eqn:Ec; [|reflexivity].
          rewrite (run_bip_cut_sol _ _ _ _ _ Eb Ec) in Es. discriminate.
    - (* and_loop *)
      intros ss more head tail optail w nd' r c w1 fs k R Ht Hfs H HD.
      rewrite and_loop_S in H. unfold and_body in H.
      destruct head as [h|].
      2:{ inversion H; subst. inversion HD; subst. reflexivity. }
      dbind H as h1 o1 b1 wa E1. cbn [orb] in H.
      pose proof (IHn _ _ _ _ _ _ fs _ _ Hfs E1 HD) as Hs.
      assert (forall wq, match tail with Some t => cden fs t wq (kwrap false k) | None => empty wq end = empty wq) as Hdt.
      { intro wq. apply cden_opt_dead; auto. }
      destruct o1 as [s|].
      2:{ inversion H; subst. inversion Hs; subst. reflexivity. }
      destruct Hs as (y1 & wy & gy & Hk1 & Hs).
      destruct optail as [[|g rr]|].
      + (* no further goals: the head's answer is the conjunction's *)
        inversion H; subst. clear H. cbn [ckand] in *. exists y1, wy, gy. split; [exact Hk1|].
        destruct c; [exact Hs|]. destruct gy; try exact Hs.
        destruct Hs as (a2 & w3 & g2 & Hd2 & Heq). exists a2, w3, g2. split; [|exact Heq].
        rewrite cden_and, Hdt. apply seq_empty_l. cbn [ckand]. exact Hd2.
      + cbn [length Nat.eqb] in H. cbn [ckand] in Hk1.
        dbind2 H as t1 w2 E2. dbind H as t3 o3 b3 w3 E3.
        destruct (csolve kb bf fs (GOp OAnd (g :: rr)) s wa (kwrap b1 k)) as [[[ay wyy] gyy]| |] eqn:EY; cbn [bind] in Hk1; try discriminate.
        assert (cden fs t1 w2 (kwrap b1 k) = Ok (ay, wyy, gyy)) as Dt1.
        { eapply (cden_fresh (GOp OAnd (g :: rr)) fs fs); [exact E2|lia|apply ckle_refl|exact EY]. }
        pose proof (IHn _ _ _ _ _ _ fs (kwrap b1 k) _ Hfs E3 Dt1) as Hs3.
        destruct o3 as [s3|].
        * (* the tail finds an answer *)
          inversion H; subst. clear H.
          destruct Hs3 as (a1 & wx & g1 & Hk3 & Hs3). unfold kwrap in Hk3.
          destruct (k s3 w1 (b1 || b3)) as [[[ak wk] gk]| |] eqn:Ek; cbn [bind] in Hk3; try discriminate.
          exists ak, wk, gk. replace (false || b1 || b3) with (b1 || b3) by reflexivity. split; [exact Ek|].
          destruct b1.
          -- (* a cut in the head *)
             cbn [orb mark] in *. injection Hk3 as <- <- <-. injection Hk1 as <- <- <-. subst R.
             destruct b3.
             ++ injection Hs3 as -> -> ->. now rewrite !join0_idem.
             ++ destruct gk; cbn [join0] in Hs3; injection Hs3 as -> -> ->; reflexivity.
          -- cbn [orb mark] in *. injection Hk1 as <- <- <-.
             destruct b3; cbn [mark] in Hk3; injection Hk3 as <- <- <-.
             ++ (* a cut in the tail *)
                injection Hs3 as -> -> ->. rewrite join0_idem in Hs.
                destruct gk; cbn [join0] in *; exact Hs.
             ++ destruct gk.
                ** destruct Hs3 as (a2 & w3' & g2 & Hd2 & Heq). injection Heq as -> -> ->.
                   destruct g2 as [|m2|].
                   --- destruct Hs as (a3 & w4 & g3 & Hd3 & ->).
                       exists (a2 ++ a3), w4, g3. split; [|now rewrite app_assoc].
                       rewrite cden_and. unfold seq. rewrite Hd2. cbn [bind]. rewrite Hd3. reflexivity.
                   --- subst R. exists a2, w3', (Cut m2). split; [|reflexivity].
                       rewrite cden_and. unfold seq. rewrite Hd2. reflexivity.
                   --- subst R. exists a2, w3', Halt. split; [|reflexivity].
                       rewrite cden_and. unfold seq. rewrite Hd2. reflexivity.
                ** injection Hs3 as -> -> ->. exact Hs.
                ** injection Hs3 as -> -> ->. exact Hs.
        * (* the tail finds none: ask the head again *)
          injection Hs3 as -> -> ->.
          destruct b1.
          -- (* cut in the head: everything is committed *)
             cbn [orb mark] in *. injection Hk1 as <- <- <-. subst R.
             replace (Some (if b3 then set_nobt (set_nobt h1) else set_nobt h1)) with (set_nobt_opt (Some h1)) in H
               by (destruct b3, h1; reflexivity).
             destruct (and_loop_cut _ _ _ _ _ _ _ _ _ _ _ H) as (-> & -> & ->).
             destruct b3; reflexivity.
          -- cbn [orb mark] in *. injection Hk1 as <- <- <-.
             destruct b3; cbn [orb] in H.
             ++ subst R.
                replace (Some (set_nobt h1)) with (set_nobt_opt (Some h1)) in H by reflexivity.
                destruct (and_loop_cut _ _ _ _ _ _ _ _ _ _ _ H) as (-> & -> & ->). reflexivity.
             ++ destruct Hs as (a3 & w4 & g3 & Hd3 & ->). cbn [app].
                assert (dead t3) as Dt by (eapply none_then_dead; eauto).
                exact (IHa ss more (Some h1) (Some t3) (Some (g :: rr)) _ _ _ _ _ fs k _ Dt Hfs H Hd3).
      + inversion H; subst. clear H. cbn [ckand] in *. exists y1, wy, gy. split; [exact Hk1|].
        destruct c; [exact Hs|]. destruct gy; try exact Hs.
        destruct Hs as (a2 & w3 & g2 & Hd2 & Heq). exists a2, w3, g2. split; [|exact Heq].
        rewrite cden_and, Hdt. apply seq_empty_l. cbn [ckand]. exact Hd2.
    - (* call_loop *)
      intros t ss child idx n w nd' r c w1 fs k R Hc Hfs H HD.
      rewrite call_loop_S in H. unfold call_body in H. cbn [orb] in H.
      destruct fs as [|f0]; [lia|]. rewrite cclauses_S in HD. unfold cclauses_body in HD.
      destruct (n <=? idx).
      { inversion H; subst. inversion HD; subst. reflexivity. }
      dbind1 H as key Ek. assert (key = keyof t) as -> by (unfold keyof; now rewrite Ek).
      dbind2 H as r0 ctr Eg. cbn [bind] in HD.
      dbind1 H as u Eu. cbn [bind] in HD.
      assert (forall wq kq, match child with Some c0 => cden (S f0) c0 wq kq | None => empty wq end = empty wq) as Hdc.
      { intros wq kq. apply cden_opt_dead; auto. }
      destruct u as [s'|].
      2:{ eapply (IHc t ss child (idx + 1) n _ _ _ _ _ (S f0) k R Hc Hfs H).
          eapply cclauses_mono; [| |exact HD]; [lia|apply ckle_refl]. }
      destruct (is_gnil (r_body r0)) eqn:Egn.
      + inversion H; subst. clear H. unfold seq in HD.
        destruct (k s' (w_set_id w ctr) false) as [[[a1 w2] g1]| |] eqn:Ek1; cbn [bind] in HD; try discriminate.
        exists a1, w2, g1. split; [exact Ek1|].
        destruct g1; try (now inversion HD).
        destruct (cclauses kb bf f0 t ss (keyof t) (idx + 1) n w2 k) as [[[a2 w3] g2]| |] eqn:Ecl; cbn [bind] in HD; try discriminate.
        inversion HD; subst. exists a2, w3, g2. split; [|reflexivity].
        rewrite cden_call, Hdc. unfold empty. cbn [bind after_body].
        rewrite (cclauses_mono f0 (S f0) _ _ _ _ _ _ k k _ ltac:(lia) (ckle_refl k) Ecl). reflexivity.
      + destruct (csolve kb bf f0 (r_body r0) s' (w_set_id w ctr) (kbump k)) as [[[ab wb] gb]| |] eqn:Eb; cbn [bind] in HD; try discriminate.
        dbind2 H as c0 w2 E2. dbind H as c1 o3 b3 w3' E3.
        assert (cden (S f0) c0 w2 (kbump k) = Ok (ab, wb, gb)) as Dc0.
        { eapply (cden_fresh (r_body r0) f0 (S f0)); [exact E2|lia|apply ckle_refl|exact Eb]. }
        pose proof (IHn _ _ _ _ _ _ (S f0) (kbump k) _ Hfs E3 Dc0) as Hs3.
        assert (forall wq R', cclauses kb bf f0 t ss (keyof t) (idx + 1) n wq k = Ok R' ->
                              cclauses kb bf (S f0) t ss (keyof t) (idx + 1) n wq k = Ok R') as Hup.
        { intros wq R' Hq. eapply cclauses_mono; [| |exact Hq]; [lia|apply ckle_refl]. }
        destruct o3 as [s3|].
        * inversion H; subst. clear H. destruct Hs3 as (a1 & wx & g1 & Hk3 & Hs3).
          unfold kbump in Hk3.
          destruct (k s3 w1 false) as [[[ak wk] gk]| |] eqn:Ekk; cbn [bind] in Hk3; try discriminate.
          injection Hk3 as <- <- <-. exists ak, wk, gk. split; [exact Ekk|].
          destruct b3.
          -- inversion Hs3; subst. clear Hs3.
             destruct gk as [|m|]; cbn [bump join0 after_body] in HD; inversion HD; subst; try reflexivity.
             exists [], wk, Go. split; [reflexivity|now rewrite app_nil_r].
          -- destruct gk as [|m|]; cbn [bump] in Hs3.
             ++ destruct Hs3 as (a2 & w3 & g2 & Hd2 & Heq). inversion Heq; subst.
                destruct (after_body_app_inv _ _ _ _ _ _ HD) as (a' & w' & g' & Hab & ->).
                exists a', w', g'. split; [|reflexivity]. rewrite cden_call, Hd2. cbn [bind].
                unfold after_body in *. destruct g2 as [|[|m]|]; try exact Hab.
                destruct (cclauses kb bf f0 t ss (keyof t) (idx + 1) n w3 k) as [y| |] eqn:Ecl; cbn [bind] in Hab; try discriminate.
                rewrite (Hup _ _ Ecl). exact Hab.
             ++ inversion Hs3; subst. cbn [after_body] in HD. now inversion HD.
             ++ inversion Hs3; subst. cbn [after_body] in HD. now inversion HD.
        * inversion Hs3; subst. clear Hs3. destruct b3; cbn [orb] in H.
          -- cbn [after_body] in HD. inversion HD; subst.
             destruct (call_loop_cut _ _ _ _ _ _ _ _ _ _ _ H) as (-> & -> & ->). reflexivity.
          -- apply after_body_empty_inv in HD.
             assert (dead c1) as Dc by (eapply none_then_dead; eauto).
             exact (IHc t ss (Some c1) (idx + 1) n _ _ _ _ _ (S f0) k _ Dc Hfs H (Hup _ _ HD)).
  Qed.
  Theorem cden_step F nd w nd' r c w1 fs k R :
    (1 <= fs)%nat -> next kb bf F nd w = Ok (nd', r, c, w1) -> cden fs nd w k = Ok R ->
    cstepres fs k R nd' r c w1.
  Proof. apply (proj1 (cst_all F)). Qed.

  (* ---- asking a query's node until it reports no answer ---- *)
  Fixpoint ask_all (m F : nat) (nd : node) (w : world) : res (list subst * world) :=
    match m with
    | O => OutOfFuel
    | S m' =>
        do x <- next kb bf F nd w;
        let '(nd', r, _, w1) := x in
        match r with
        | None => Ok ([], w1)
        | Some s => do z <- ask_all m' F nd' w1; let '(a, w2) := z in Ok (s :: a, w2)
        end
    end.

  Definition collect : ckont := fun s w _ => Ok ([s], w, Go).

  Lemma ask_all_is_cden : forall m F nd w fs a wE g R',
    ncutb nd = true -> (1 <= fs)%nat -> cden fs nd w collect = Ok (a, wE, g) ->
    ask_all m F nd w = Ok R' -> R' = (a, wE).
  Proof.
    induction m as [|m IH]; intros F nd w fs a wE g R' Hn Hfs HD H; [discriminate|].
    cbn [ask_all] in H. dbind H as nd1 o1 b1 w1 E1.
    destruct (ncut_next _ _ _ _ _ _ _ Hn E1) as [-> Hn1].
    pose proof (cden_step _ _ _ _ _ _ _ _ _ _ Hfs E1 HD) as Hs.
    destruct o1 as [s|].
    - destruct Hs as (a1 & w2 & g1 & Hk1 & Hs). unfold collect in Hk1. injection Hk1 as <- <- <-.
      destruct Hs as (a2 & w3 & g2 & Hd2 & Heq). injection Heq as -> -> ->.
      destruct (ask_all m F nd1 w1) as [[a2' w3']| |] eqn:Ed; cbn [bind] in H; try discriminate.
      pose proof (IH _ _ _ _ _ _ _ _ Hn1 Hfs Hd2 Ed) as Heq. injection Heq as -> ->. now inversion H.
    - injection Hs as -> -> ->. now inversion H.
  Qed.

  (* The query level, for EVERY program (cut, not, time, built-ins, any nesting): if the reference
     search of query q finishes with answers R, and asking the query's node until it reports no
     answer finishes, then the answers, their order and multiplicity, and the final world
     (variable-id counter, stop flag, output) are R's. *)
  Theorem refines_cut q w fs R nd w1 m F R' :
    canswers kb bf fs q w = Ok R ->
    make_base_node kb (GCall q) w = Ok (nd, w1) ->
    ask_all m F nd w1 = Ok R' -> R' = R.
  Proof.
    intros Ha Hm Hd. unfold canswers in Ha.
    destruct (csolve kb bf fs (GCall q) [] w (fun s w' _ => Ok ([s], w', Go))) as [[[a wE] g]| |] eqn:Ec; cbn [bind] in Ha; try discriminate.
    injection Ha as <-.
    assert (make_node kb (GCall q) [] w = Ok (nd, w1)) as Hm' by exact Hm.
    destruct fs as [|f0]; [discriminate|].
    eapply (ask_all_is_cden m F nd w1 (S f0) a wE g); [|lia| |exact Hd].
    - eapply make_node_ncut; [|exact Hm']. reflexivity.
    - eapply (cden_fresh (GCall q) (S f0) (S f0)); [exact Hm'|lia|apply ckle_refl|exact Ec].
  Qed.
End CDen.
