(* C03 for the reference search, in the vocabulary of Proofs/SldOrder.v (direct-style stream of
   successes): for cut-free programs, not(g) asks g for its FIRST answer only and then
     - g has none:   succeeds exactly once, with the substitution it was entered with, in the
                     world g's failed search reached;
     - g has one:    fails (no answer), in the world reached at that first answer;
   time(g) likewise continues with g's first answer only. *)
From Suiron Require Import Model.Term Model.Subst Model.Solve Model.Builtins Spec.SpecCut
  Proofs.CutOnce Proofs.SldOrder.
Open Scope N_scope.

Lemma cutfree_op1 k g1 : cutfree (GOp k [g1]) = cutfree g1.
Proof. cbn [cutfree]. apply Bool.andb_true_r. Qed.

Theorem not_law kb bf : cutfree_kb kb = true ->
  forall f g1 s w, cutfree g1 = true ->
  answers kb bf (S f) (GOp ONot [g1]) s w =
  match sld kb bf f g1 s w with
  | SNil w1 => Ok ([s], w1)
  | SCons _ w1 _ => Ok ([], w1)
  | SPanic => Panic
  | SOut => OutOfFuel
  end.
Proof.
  intros Hkb f g1 s w Hg.
  rewrite (answers_sld kb bf Hkb (S f) (GOp ONot [g1]) s w) by (rewrite cutfree_op1; exact Hg).
  rewrite sld_S. cbn [sld_body].
  destruct (sld kb bf f g1 s w) as [w1|s1 w1 r| |]; reflexivity.
Qed.

Theorem time_law kb bf : cutfree_kb kb = true ->
  forall f g1 s w, cutfree g1 = true ->
  answers kb bf (S f) (GOp OTime [g1]) s w =
  match sld kb bf f g1 s w with
  | SNil w1 => Ok ([], w_print w1 elapsed_token)
  | SCons s1 w1 _ => Ok ([s1], w_print w1 elapsed_token)
  | SPanic => Panic
  | SOut => OutOfFuel
  end.
Proof.
  intros Hkb f g1 s w Hg.
  rewrite (answers_sld kb bf Hkb (S f) (GOp OTime [g1]) s w) by (rewrite cutfree_op1; exact Hg).
  rewrite sld_S. cbn [sld_body].
  destruct (sld kb bf f g1 s w) as [w1|s1 w1 r| |]; reflexivity.
Qed.
