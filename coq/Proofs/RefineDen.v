(* C01 / C04 for cut-free programs: the resumable search of Model/Solve.v refines the
   reference search of Spec/SpecLazy.v.

   `den fs nd w k` is the ABSTRACTION FUNCTION: what remains of the reference search in the
   state of node nd (answers still to come are handed to k, from world w).  One machine step
   (`next`) either finds no answer - then the denotation is empty - or finds answer s and
   leaves a node whose denotation is the rest (den_step).  Hence draining a node yields
   exactly its denotation, and the denotation of a fresh node is the reference search of its
   goal (den_fresh). *)
From Coq Require Import Lia.
From Suiron Require Import Model.Term Model.Subst Model.Show Model.Lists Model.Arith Model.Unify
  Model.Compare Model.Builtins Model.Rename Model.Solve Spec.SpecLazy
  Proofs.RenameProofs Proofs.SolveDead Proofs.RefinePlain.
Open Scope N_scope.

Definition kle (k1 k2 : kont) : Prop := forall s w r, k1 s w = Ok r -> k2 s w = Ok r.
Lemma kle_refl k : kle k k. Proof. intros s w r H; exact H. Qed.

Section Den.
  Variable kb : kbase.
  Variable bf : nat.

  (* ---- the reference search is monotone in its fuel and in its continuation ---- *)
  Definition smono (f : nat) : Prop :=
    (forall f' g s w k1 k2 R, (f <= f')%nat -> kle k1 k2 ->
       lsolve kb bf f g s w k1 = Ok R -> lsolve kb bf f' g s w k2 = Ok R) /\
    (forall f' t s key idx n w k1 k2 R, (f <= f')%nat -> kle k1 k2 ->
       lclauses kb bf f t s key idx n w k1 = Ok R -> lclauses kb bf f' t s key idx n w k2 = Ok R).

  Lemma solve_mono_all : forall f, smono f.
  Proof.
    induction f as [|f [IHs IHc]].
    { split; intros; discriminate. }
    split.
    - intros f' g s w k1 k2 R Hle Hk H. destruct f' as [|f']; [lia|]. assert (f <= f')%nat as Hle' by lia.
      rewrite solve_S in *. unfold solve_body in *. destruct g as [k gs|fn ts|t|]; try discriminate.
      + destruct k; try discriminate.
        * destruct gs as [|g1 [|g2 rest]]; try discriminate.
          -- eapply IHs; eauto.
          -- eapply IHs; [exact Hle'| |exact H]. intros s1 w1 r1 H1. eapply IHs; eauto.
        * destruct gs as [|g1 [|g2 rest]]; try discriminate.
          -- eapply IHs; eauto.
          -- destruct (lsolve kb bf f g1 s w k1) as [[a1 w1]| |] eqn:E1; cbn [bind] in H; try discriminate.
             rewrite (IHs _ _ _ _ _ _ _ Hle' Hk E1). cbn [bind].
             destruct (lsolve kb bf f (GOp OOr (g2 :: rest)) s w1 k1) as [[a2 w2]| |] eqn:E2; cbn [bind] in H; try discriminate.
             rewrite (IHs _ _ _ _ _ _ _ Hle' Hk E2). exact H.
      + destruct (run_bip bf fn ts s) as [r| |]; cbn [bind] in *; try discriminate.
        destruct (br_cut r); [discriminate|]. destruct (br_sol r); [now apply Hk|exact H].
      + destruct (term_key t) as [key| |]; cbn [bind] in *; try discriminate.
        destruct (count_rules kb key w) as [n w0]. eapply IHc; eauto.
    - intros f' t s key idx n w k1 k2 R Hle Hk H. destruct f' as [|f']; [lia|]. assert (f <= f')%nat as Hle' by lia.
      rewrite clauses_S in *. unfold clauses_body in *. destruct (n <=? idx); [exact H|].
      destruct (get_rule kb key idx (next_id w)) as [[r ctr]| |]; cbn [bind] in *; try discriminate.
      destruct (unify bf (r_head r) t s) as [[s'|]| |]; cbn [bind] in *; try discriminate.
      + destruct (is_gnil (r_body r)).
        * destruct (k1 s' (w_set_id w ctr)) as [[a1 w2]| |] eqn:E1; cbn [bind] in H; try discriminate.
          rewrite (Hk _ _ _ E1). cbn [bind].
          destruct (lclauses kb bf f t s key (idx + 1) n w2 k1) as [[a2 w3]| |] eqn:E2; cbn [bind] in H; try discriminate.
          rewrite (IHc _ _ _ _ _ _ _ _ _ _ Hle' Hk E2). exact H.
        * destruct (lsolve kb bf f (r_body r) s' (w_set_id w ctr) k1) as [[a1 w2]| |] eqn:E1; cbn [bind] in H; try discriminate.
          rewrite (IHs _ _ _ _ _ _ _ Hle' Hk E1). cbn [bind].
          destruct (lclauses kb bf f t s key (idx + 1) n w2 k1) as [[a2 w3]| |] eqn:E2; cbn [bind] in H; try discriminate.
          rewrite (IHc _ _ _ _ _ _ _ _ _ _ Hle' Hk E2). exact H.
      + eapply IHc; eauto.
  Qed.

  Lemma solve_mono f f' g s w k1 k2 R : (f <= f')%nat -> kle k1 k2 ->
    lsolve kb bf f g s w k1 = Ok R -> lsolve kb bf f' g s w k2 = Ok R.
  Proof. apply (proj1 (solve_mono_all f)). Qed.
  Lemma clauses_mono f f' t s key idx n w k1 k2 R : (f <= f')%nat -> kle k1 k2 ->
    lclauses kb bf f t s key idx n w k1 = Ok R -> lclauses kb bf f' t s key idx n w k2 = Ok R.
  Proof. apply (proj2 (solve_mono_all f)). Qed.

  (* ---- the abstraction function ---- *)
  (* the continuation of the first goal of a conjunction whose other goals are `optail` *)
  Definition kand (fs : nat) (optail : option (list goal)) (k : kont) : kont :=
    match optail with
    | Some (g :: r) => fun s1 w' => lsolve kb bf fs (GOp OAnd (g :: r)) s1 w' k
    | _ => k
    end.
  (* the remaining alternatives of a disjunction *)
  Definition orrest (fs : nat) (optail : option (list goal)) (ss : subst) (w : world) (k : kont)
    : res (list subst * world) :=
    match optail with
    | Some (g :: r) => lsolve kb bf fs (GOp OOr (g :: r)) ss w k
    | _ => Ok ([], w)
    end.

  Definition keyof (t : term) : str := match term_key t with Ok key => key | _ => [] end.

  Fixpoint den (fs : nat) (nd : node) (w : world) (k : kont) {struct nd} : res (list subst * world) :=
    match nd with
    | NBip fn ts ss _ more => if more then lsolve kb bf fs (GBip fn ts) ss w k else Ok ([], w)
    | NCall t ss _ child idx n =>
        do x <- match child with Some c => den fs c w k | None => Ok ([], w) end;
        let '(a1, w1) := x in
        do y <- lclauses kb bf fs t ss (keyof t) idx n w1 k;
        let '(a2, w2) := y in Ok (a1 ++ a2, w2)
    | NOp OAnd ss _ _ head tail optail =>
        do x <- match tail with Some t => den fs t w k | None => Ok ([], w) end;
        let '(a1, w1) := x in
        do y <- match head with Some h => den fs h w1 (kand fs optail k) | None => Ok ([], w1) end;
        let '(a2, w2) := y in Ok (a1 ++ a2, w2)
    | NOp OOr ss _ _ head tail optail =>
        match tail with
        | Some t => den fs t w k
        | None =>
            match head with
            | None => Ok ([], w)
            | Some h =>
                do x <- den fs h w k;
                let '(a1, w1) := x in
                do y <- orrest fs optail ss w1 k;
                let '(a2, w2) := y in Ok (a1 ++ a2, w2)
            end
        end
    | _ => Panic
    end.

  (* a fresh node denotes the reference search of its goal (from the world in which it is made) *)
  Lemma den_fresh : forall g f fs ss w nd w' k1 k2 R,
    plain g = true -> make_node kb g ss w = Ok (nd, w') -> (f <= fs)%nat -> kle k1 k2 ->
    lsolve kb bf f g ss w k1 = Ok R -> den fs nd w' k2 = Ok R.
  Proof.
    induction g as [k gs Hgs|fn ts|t|] using goal_ind'; intros f fs ss w nd w' k1 k2 R Hp Hm Hle Hk H; try discriminate.
    - destruct f as [|f]; [discriminate|]. rewrite solve_S in H. unfold solve_body in H.
      destruct k; try discriminate; destruct gs as [|g1 rest]; try discriminate; cbn [make_node] in Hm;
        (destruct (make_node kb g1 ss w) as [[hn w1]| |] eqn:E; cbn [bind] in Hm; try discriminate);
        inversion Hm; subst; inversion Hgs as [|? ? Hg1 Hrest]; subst;
        rewrite plain_op_forallb in Hp by auto; simpl in Hp; apply andb_true_iff in Hp as [P1 P2].
      + (* and *)
        cbn [den bind]. destruct rest as [|g2 rest'].
        * cbn [kand]. rewrite (Hg1 f fs ss w hn w' k1 k2 R P1 E ltac:(lia) Hk H). destruct R. reflexivity.
        * cbn [kand].
          rewrite (Hg1 f fs ss w hn w' (fun s1 w1 => lsolve kb bf f (GOp OAnd (g2 :: rest')) s1 w1 k1)
                       (fun s1 w'0 => lsolve kb bf fs (GOp OAnd (g2 :: rest')) s1 w'0 k2) R P1 E ltac:(lia)).
          -- destruct R. reflexivity.
          -- intros s1 w1 r1 H1. eapply solve_mono; [| |exact H1]; [lia|exact Hk].
          -- exact H.
      + (* or *)
        cbn [den bind]. destruct rest as [|g2 rest'].
        * cbn [orrest]. rewrite (Hg1 f fs ss w hn w' k1 k2 R P1 E ltac:(lia) Hk H).
          destruct R as [a1 w1]. cbn [bind]. now rewrite app_nil_r.
        * destruct (lsolve kb bf f g1 ss w k1) as [[a1 w1]| |] eqn:E1; cbn [bind] in H; try discriminate.
          rewrite (Hg1 f fs ss w hn w' k1 k2 (a1, w1) P1 E ltac:(lia) Hk E1). cbn [bind orrest].
          destruct (lsolve kb bf f (GOp OOr (g2 :: rest')) ss w1 k1) as [[a2 w2]| |] eqn:E2; cbn [bind] in H; try discriminate.
          rewrite (solve_mono f fs _ _ _ _ k2 _ ltac:(lia) Hk E2). exact H.
    - simpl in Hm. inversion Hm; subst. cbn [den]. eapply solve_mono; eauto.
    - destruct f as [|f]; [discriminate|]. rewrite solve_S in H. unfold solve_body in H. simpl in Hm.
      destruct (term_key t) as [key| |] eqn:Ek; cbn [bind] in *; try discriminate.
      destruct (count_rules kb key w) as [n w0]. inversion Hm; subst. cbn [den bind]. unfold keyof. rewrite Ek.
      rewrite (clauses_mono f fs _ _ _ _ _ _ _ k2 _ ltac:(lia) Hk H). destruct R as [a w2]. reflexivity.
  Qed.

  (* ---- induction over nodes ---- *)
  Section node_ind'.
    Variable P : node -> Prop.
    Hypothesis HCall : forall t ss nobt child idx n,
      match child with Some c => P c | None => True end -> P (NCall t ss nobt child idx n).
    Hypothesis HOp : forall k ss nobt more head tail optail,
      match head with Some h => P h | None => True end ->
      match tail with Some t => P t | None => True end -> P (NOp k ss nobt more head tail optail).
    Hypothesis HBip : forall fn ts ss nobt more, P (NBip fn ts ss nobt more).
    Fixpoint node_ind' (nd : node) : P nd :=
      match nd with
      | NCall t ss nobt child idx n =>
          HCall t ss nobt child idx n (match child with Some c => node_ind' c | None => I end)
      | NOp k ss nobt more head tail optail =>
          HOp k ss nobt more head tail optail
              (match head with Some h => node_ind' h | None => I end)
              (match tail with Some t => node_ind' t | None => I end)
      | NBip fn ts ss nobt more => HBip fn ts ss nobt more
      end.
  End node_ind'.

  (* an exhausted node denotes the empty rest *)
  Lemma dead_den : forall nd fs w k, pnode nd -> dead nd -> (1 <= fs)%nat -> den fs nd w k = Ok ([], w).
  Proof.
    induction nd as [t ss nobt child idx n IHc|kd ss nobt more head tail optail IHh IHt|fn ts ss nobt more] using node_ind';
      intros fs w k Hp Hd Hfs; simpl in Hp, Hd.
    - destruct Hp as [-> Hpc]. destruct Hd as [Hd|[Hle Hdc]]; [discriminate|].
      cbn [den]. destruct fs as [|f0]; [lia|].
      assert (match child with Some c => den (S f0) c w k | None => Ok ([], w) end = Ok ([], w)) as ->.
      { destruct child as [c|]; [apply IHc; auto|reflexivity]. }
      cbn [bind]. rewrite clauses_S. unfold clauses_body.
      destruct (N.leb_spec n idx) as [_|Hlt]; [reflexivity|lia].
    - destruct Hp as (Hk & -> & Hph & Hpt & Ho). destruct Hd as [Hd|Hd]; [discriminate|].
      destruct Hk as [-> | ->]; cbn [den].
      + destruct Hd as [Hdh Hdt].
        assert (match tail with Some t => den fs t w k | None => Ok ([], w) end = Ok ([], w)) as ->.
        { destruct tail as [t|]; [apply IHt; auto|reflexivity]. }
        cbn [bind].
        assert (match head with Some h => den fs h w (kand fs optail k) | None => Ok ([], w) end = Ok ([], w)) as ->.
        { destruct head as [h|]; [apply IHh; auto|reflexivity]. }
        reflexivity.
      + destruct tail as [t|]; [apply IHt; auto|].
        destruct head as [h|]; [|reflexivity]. destruct Hd as [Hdh Hoe].
        rewrite (IHh fs w k Hph Hdh Hfs). cbn [bind].
        destruct optail as [[|g r]|]; try reflexivity. discriminate.
    - destruct Hp as [-> Hn]. destruct Hd as [Hd| ->]; [discriminate|]. reflexivity.
  Qed.

  (* ---- one step of the machine against the denotation ---- *)
  Hypothesis Hkb : plain_kb kb.

  Definition stepres (fs : nat) (k : kont) (R : list subst * world) (nd' : node) (r : option subst) (w1 : world) : Prop :=
    match r with
    | None => R = ([], w1)
    | Some s1 => exists a1 w2 a2 w3,
        k s1 w1 = Ok (a1, w2) /\ den fs nd' w2 k = Ok (a2, w3) /\ R = (a1 ++ a2, w3)
    end.

  Definition st_next (F : nat) : Prop :=
    forall nd w nd' r c w1 fs k R, pnode nd -> (1 <= fs)%nat ->
      next kb bf F nd w = Ok (nd', r, c, w1) -> den fs nd w k = Ok R -> stepres fs k R nd' r w1.
  Definition st_and (F : nat) : Prop :=
    forall ss more head tail optail acc w nd' r c w1 fs k R,
      match head with Some h => pnode h | None => True end ->
      match tail with Some t => pnode t /\ dead t | None => True end ->
      match optail with Some tl => forallb plain tl = true | None => True end -> (1 <= fs)%nat ->
      and_loop kb bf F ss false more head tail optail acc w = Ok (nd', r, c, w1) ->
      match head with Some h => den fs h w (kand fs optail k) | None => Ok ([], w) end = Ok R ->
      stepres fs k R nd' r w1.
  Definition st_call (F : nat) : Prop :=
    forall t ss child idx n w nd' r c w1 fs k R,
      match child with Some c0 => pnode c0 /\ dead c0 | None => True end -> (1 <= fs)%nat ->
      call_loop kb bf F t ss false child idx n w = Ok (nd', r, c, w1) ->
      lclauses kb bf fs t ss (keyof t) idx n w k = Ok R -> stepres fs k R nd' r w1.

  Lemma den_opt_dead fs o w k : match o with Some t => pnode t /\ dead t | None => True end -> (1 <= fs)%nat ->
    match o with Some t => den fs t w k | None => Ok ([], w) end = Ok ([], w).
  Proof. destruct o as [t|]; [intros [P D] H; now apply dead_den|reflexivity]. Qed.

  Lemma st_all : forall F, st_next F /\ st_and F /\ st_call F.
  Proof.
    induction F as [|F (IHn & IHa & IHc)].
    { split; [|split]; red; intros; match goal with H : _ = Ok (_, _, _, _) |- _ => discriminate H end. }
    split; [|split].
    - (* next *)
      intros nd w nd' r c w1 fs k R Hp Hfs H HD. rewrite next_S in H. unfold next_body in H.
      rewrite (pnode_nobt _ Hp) in H.
      destruct nd as [t ss nobt child idx n|kd ss nobt more head tail optail|fn ts ss nobt more]; simpl in Hp.
      + (* call *)
        destruct Hp as [-> Hc]. cbn [den] in HD. destruct child as [c0|].
        * destruct (den fs c0 w k) as [[ac wc]| |] eqn:Ec; cbn [bind] in HD; try discriminate.
          destruct (lclauses kb bf fs t ss (keyof t) idx n wc k) as [[a2 w2]| |] eqn:Ecl; cbn [bind] in HD; try discriminate.
          inversion HD; subst R. clear HD.
          dbind H as c1 o1 b1 wa E1.
          destruct (pnode_next kb bf Hkb _ _ _ _ _ _ _ Hc E1) as [-> Pc1]. cbn [orb] in H.
          pose proof (IHn _ _ _ _ _ _ fs k _ Hc Hfs E1 Ec) as Hs.
          destruct o1 as [s|].
          -- inversion H; subst. destruct Hs as (a1 & wx & b2 & wb & Hk1 & Hd1 & Heq). inversion Heq; subst.
             exists a1, wx, (b2 ++ a2), w2. split; [exact Hk1|]. split; [|now rewrite app_assoc].
             cbn [den]. rewrite Hd1. cbn [bind]. rewrite Ecl. reflexivity.
          -- inversion Hs; subst.
             exact (IHc t ss None idx n _ _ _ _ _ fs k _ I Hfs H Ecl).
        * cbn [bind] in HD.
          destruct (lclauses kb bf fs t ss (keyof t) idx n w k) as [[a2 w2]| |] eqn:Ecl; cbn [bind] in HD; try discriminate.
          inversion HD; subst R. exact (IHc t ss None idx n _ _ _ _ _ fs k _ I Hfs H Ecl).
      + destruct Hp as (Hk & -> & Hh & Ht & Ho). destruct Hk as [-> | ->]; cbn [den] in HD.
        * (* and *)
          destruct tail as [t0|].
          -- destruct (den fs t0 w k) as [[at1 wt]| |] eqn:Et; cbn [bind] in HD; try discriminate.
             destruct (match head with Some h => den fs h wt (kand fs optail k) | None => Ok ([], wt) end) as [[ah wh]| |] eqn:Eh;
               cbn [bind] in HD; try discriminate.
             inversion HD; subst R. clear HD.
             dbind H as t1 o1 b1 wa E1.
             destruct (pnode_next kb bf Hkb _ _ _ _ _ _ _ Ht E1) as [-> Pt1]. cbn [orb] in H.
             pose proof (IHn _ _ _ _ _ _ fs k _ Ht Hfs E1 Et) as Hs.
             destruct o1 as [s|].
             ++ inversion H; subst. destruct Hs as (a1 & wx & b2 & wb & Hk1 & Hd1 & Heq). inversion Heq; subst.
                exists a1, wx, (b2 ++ ah), wh. split; [exact Hk1|]. split; [|now rewrite app_assoc].
                cbn [den]. rewrite Hd1. cbn [bind]. rewrite Eh. reflexivity.
             ++ inversion Hs; subst.
                assert (dead t1) as Dt by (eapply none_then_dead; eauto).
                exact (IHa ss more head (Some t1) optail false _ _ _ _ _ fs k _ Hh (conj Pt1 Dt) Ho Hfs H Eh).
          -- cbn [bind] in HD.
             destruct (match head with Some h => den fs h w (kand fs optail k) | None => Ok ([], w) end) as [[ah wh]| |] eqn:Eh;
               cbn [bind] in HD; try discriminate.
             inversion HD; subst R.
             exact (IHa ss more head None optail false _ _ _ _ _ fs k _ Hh I Ho Hfs H Eh).
        * (* or *)
          destruct tail as [t0|].
          -- dbind H as t1 o1 b1 wa E1.
             destruct (pnode_next kb bf Hkb _ _ _ _ _ _ _ Ht E1) as [-> Pt1]. cbn [orb] in H.
             pose proof (IHn _ _ _ _ _ _ fs k _ Ht Hfs E1 HD) as Hs. inversion H; subst.
             destruct r as [s|]; [|exact Hs].
             destruct Hs as (a1 & wx & b2 & wb & Hk1 & Hd1 & Heq). exists a1, wx, b2, wb. auto.
          -- destruct head as [h|].
             2:{ inversion H; subst. inversion HD; subst. reflexivity. }
             destruct (den fs h w k) as [[ah wh]| |] eqn:Eh; cbn [bind] in HD; try discriminate.
             destruct (orrest fs optail ss wh k) as [[ao wo]| |] eqn:Eo; cbn [bind] in HD; try discriminate.
             inversion HD; subst R. clear HD.
             dbind H as h1 o1 b1 wa E1.
             destruct (pnode_next kb bf Hkb _ _ _ _ _ _ _ Hh E1) as [-> Ph1]. cbn [orb] in H.
             pose proof (IHn _ _ _ _ _ _ fs k _ Hh Hfs E1 Eh) as Hs.
             destruct o1 as [s|].
             ++ inversion H; subst. destruct Hs as (a1 & wx & b2 & wb & Hk1 & Hd1 & Heq). inversion Heq; subst.
                exists a1, wx, (b2 ++ ao), wo. split; [exact Hk1|]. split; [|now rewrite app_assoc].
                cbn [den]. rewrite Hd1. cbn [bind]. rewrite Eo. reflexivity.
             ++ inversion Hs; subst. cbn [app].
                destruct optail as [[|g rr]|].
                ** inversion H; subst. simpl in Eo. inversion Eo; subst. reflexivity.
                ** cbn [length Nat.eqb] in H. dbind2 H as t1 w2 E2. dbind H as t3 o3 b3 w3 E3.
                   assert (pnode t1) as Pt.
                   { eapply make_node_pnode; [|exact E2]. rewrite plain_op_forallb by auto. exact Ho. }
                   destruct (pnode_next kb bf Hkb _ _ _ _ _ _ _ Pt E3) as [-> Pt3].
                   assert (den fs t1 w2 k = Ok (ao, wo)) as Dt1.
                   { eapply (den_fresh (GOp OOr (g :: rr)) fs fs); [rewrite plain_op_forallb by auto; exact Ho|exact E2|lia|apply kle_refl|exact Eo]. }
                   pose proof (IHn _ _ _ _ _ _ fs k _ Pt Hfs E3 Dt1) as Hs3. inversion H; subst.
                   destruct r as [s3|]; [|exact Hs3].
                   destruct Hs3 as (a1 & wx & b2 & wb & Hk1 & Hd1 & Heq). exists a1, wx, b2, wb. auto.
                ** inversion H; subst. simpl in Eo. inversion Eo; subst. reflexivity.
      + (* built-in *)
        destruct Hp as [-> Hn]. cbn [den] in HD. destruct more; cbn [negb] in H.
        * destruct fs as [|f0]; [lia|]. rewrite solve_S in HD. unfold solve_body in HD.
          dbind1 H as rb Eb. cbn [bind] in HD.
          rewrite (run_bip_no_cut _ _ _ _ _ Hn Eb) in *. inversion H; subst.
          destruct (br_sol rb) as [s|].
          -- destruct R as [a1 w2]. exists a1, w2, [], w2. split; [exact HD|]. split; [reflexivity|now rewrite app_nil_r].
          -- inversion HD; subst. reflexivity.
        * inversion H; subst. inversion HD; subst. reflexivity.
    - (* and_loop *)
      intros ss more head tail optail acc w nd' r c w1 fs k R Hh Ht Ho Hfs H HD.
      rewrite and_loop_S in H. unfold and_body in H.
      destruct head as [h|].
      2:{ inversion H; subst. inversion HD; subst. reflexivity. }
      dbind H as h1 o1 b1 wa E1.
      destruct (pnode_next kb bf Hkb _ _ _ _ _ _ _ Hh E1) as [-> Ph1]. cbn [orb] in H.
      pose proof (IHn _ _ _ _ _ _ fs _ _ Hh Hfs E1 HD) as Hs.
      destruct o1 as [s|].
      2:{ inversion H; subst. inversion Hs; subst. reflexivity. }
      destruct Hs as (b1 & wb & b2 & wc & Hk1 & Hd1 & Heq). subst R.
      assert (forall wq, match tail with Some t => den fs t wq k | None => Ok ([], wq) end = Ok ([], wq)) as Hdt.
      { intro wq. apply den_opt_dead; auto. }
      destruct optail as [[|g rr]|].
      + inversion H; subst. cbn [kand] in *. exists b1, wb, b2, wc. split; [exact Hk1|]. split; [|reflexivity].
        cbn [den]. rewrite Hdt. cbn [bind kand]. rewrite Hd1. reflexivity.
      + cbn [length Nat.eqb] in H. cbn [kand] in Hk1.
        dbind2 H as t1 w2 E2. dbind H as t3 o3 b3 w3 E3.
        assert (pnode t1) as Pt.
        { eapply make_node_pnode; [|exact E2]. rewrite plain_op_forallb by auto. exact Ho. }
        destruct (pnode_next kb bf Hkb _ _ _ _ _ _ _ Pt E3) as [-> Pt3]. cbn [orb] in H.
        assert (den fs t1 w2 k = Ok (b1, wb)) as Dt1.
        { eapply (den_fresh (GOp OAnd (g :: rr)) fs fs); [rewrite plain_op_forallb by auto; exact Ho|exact E2|lia|apply kle_refl|exact Hk1]. }
        pose proof (IHn _ _ _ _ _ _ fs k _ Pt Hfs E3 Dt1) as Hs3.
        destruct o3 as [s3|].
        * inversion H; subst. destruct Hs3 as (a1 & wx & c2 & wd & Hk3 & Hd3 & Heq3). inversion Heq3; subst.
          exists a1, wx, (c2 ++ b2), wc. split; [exact Hk3|]. split; [|now rewrite app_assoc].
          cbn [den]. rewrite Hd3. cbn [bind]. rewrite Hd1. reflexivity.
        * inversion Hs3; subst. cbn [app].
          assert (dead t3) as Dt by (eapply none_then_dead; eauto).
          exact (IHa ss more (Some h1) (Some t3) (Some (g :: rr)) _ _ _ _ _ _ fs k _ Ph1 (conj Pt3 Dt) Ho Hfs H Hd1).
      + inversion H; subst. cbn [kand] in *. exists b1, wb, b2, wc. split; [exact Hk1|]. split; [|reflexivity].
        cbn [den]. rewrite Hdt. cbn [bind kand]. rewrite Hd1. reflexivity.
    - (* call_loop *)
      intros t ss child idx n w nd' r c w1 fs k R Hc Hfs H HD.
      rewrite call_loop_S in H. unfold call_body in H.
      destruct fs as [|f0]; [lia|]. rewrite clauses_S in HD. unfold clauses_body in HD.
      destruct (n <=? idx).
      { inversion H; subst. inversion HD; subst. reflexivity. }
      dbind1 H as key Ek. assert (key = keyof t) as -> by (unfold keyof; now rewrite Ek).
      dbind2 H as r0 ctr Eg. cbn [bind] in HD.
      dbind1 H as u Eu. cbn [bind] in HD.
      assert (forall wq, match child with Some c0 => den (S f0) c0 wq k | None => Ok ([], wq) end = Ok ([], wq)) as Hdc.
      { intro wq. apply den_opt_dead; auto. }
      destruct u as [s'|].
      2:{ eapply (IHc t ss child (idx + 1) n _ _ _ _ _ (S f0) k R Hc Hfs H).
          eapply clauses_mono; [| |exact HD]; [lia|apply kle_refl]. }
      destruct (is_gnil (r_body r0)) eqn:Egn.
      + inversion H; subst.
        destruct (k s' (w_set_id w ctr)) as [[a1 w2]| |] eqn:Ek1; cbn [bind] in HD; try discriminate.
        destruct (lclauses kb bf f0 t ss (keyof t) (idx + 1) n w2 k) as [[a2 w3]| |] eqn:Ecl; cbn [bind] in HD; try discriminate.
        inversion HD; subst R. exists a1, w2, a2, w3. split; [exact Ek1|]. split; [|reflexivity].
        cbn [den]. rewrite Hdc. cbn [bind].
        rewrite (clauses_mono f0 (S f0) _ _ _ _ _ _ k k _ ltac:(lia) (kle_refl k) Ecl). reflexivity.
      + destruct (lsolve kb bf f0 (r_body r0) s' (w_set_id w ctr) k) as [[ab wb]| |] eqn:Eb; cbn [bind] in HD; try discriminate.
        destruct (lclauses kb bf f0 t ss (keyof t) (idx + 1) n wb k) as [[a2 w3]| |] eqn:Ecl; cbn [bind] in HD; try discriminate.
        inversion HD; subst R. clear HD.
        dbind2 H as c0 w2 E2. dbind H as c1 o3 b3 w3' E3.
        assert (plain (r_body r0) = true) as Pb.
        { pose proof (get_rule_plain _ _ _ _ _ _ Hkb Eg) as Hr. unfold plain_rule in Hr. now rewrite Egn in Hr. }
        assert (pnode c0) as Pc by (eapply make_node_pnode; eauto).
        destruct (pnode_next kb bf Hkb _ _ _ _ _ _ _ Pc E3) as [-> Pc1]. cbn [orb] in H.
        assert (den (S f0) c0 w2 k = Ok (ab, wb)) as Dc0.
        { eapply (den_fresh (r_body r0) f0 (S f0)); [exact Pb|exact E2|lia|apply kle_refl|exact Eb]. }
        pose proof (IHn _ _ _ _ _ _ (S f0) k _ Pc Hfs E3 Dc0) as Hs3.
        assert (lclauses kb bf (S f0) t ss (keyof t) (idx + 1) n wb k = Ok (a2, w3)) as Ecl'
          by (eapply clauses_mono; [| |exact Ecl]; [lia|apply kle_refl]).
        destruct o3 as [s3|].
        * inversion H; subst. destruct Hs3 as (a1 & wx & c2 & wd & Hk3 & Hd3 & Heq3). inversion Heq3; subst.
          exists a1, wx, (c2 ++ a2), w3. split; [exact Hk3|]. split; [|now rewrite app_assoc].
          cbn [den]. rewrite Hd3. cbn [bind]. rewrite Ecl'. reflexivity.
        * inversion Hs3; subst. cbn [app].
          assert (dead c1) as Dc by (eapply none_then_dead; eauto).
          exact (IHc t ss (Some c1) (idx + 1) n _ _ _ _ _ (S f0) k _ (conj Pc1 Dc) Hfs H Ecl').
  Qed.

  Theorem den_step F nd w nd' r c w1 fs k R :
    pnode nd -> (1 <= fs)%nat -> next kb bf F nd w = Ok (nd', r, c, w1) -> den fs nd w k = Ok R ->
    stepres fs k R nd' r w1.
  Proof. apply (proj1 (st_all F)). Qed.

  (* ---- draining a node yields its denotation ---- *)
  Fixpoint drainK (m F : nat) (nd : node) (w : world) (k : kont) : res (list subst * world) :=
    match m with
    | O => OutOfFuel
    | S m' =>
        do x <- next kb bf F nd w;
        let '(nd', r, _, w1) := x in
        match r with
        | None => Ok ([], w1)
        | Some s =>
            do y <- k s w1;
            let '(a1, w2) := y in
            do z <- drainK m' F nd' w2 k;
            let '(a2, w3) := z in Ok (a1 ++ a2, w3)
        end
    end.

  Theorem drain_is_den : forall m F nd w k fs R R',
    pnode nd -> (1 <= fs)%nat -> den fs nd w k = Ok R -> drainK m F nd w k = Ok R' -> R' = R.
  Proof.
    induction m as [|m IH]; intros F nd w k fs R R' Hp Hfs HD H; [discriminate|].
    cbn [drainK] in H. dbind H as nd1 o1 b1 w1 E1.
    destruct (pnode_next kb bf Hkb _ _ _ _ _ _ _ Hp E1) as [-> P1].
    pose proof (den_step _ _ _ _ _ _ _ _ _ _ Hp Hfs E1 HD) as Hs.
    destruct o1 as [s|].
    - destruct Hs as (a1 & w2 & a2 & w3 & Hk1 & Hd1 & ->). rewrite Hk1 in H. cbn [bind] in H.
      destruct (drainK m F nd1 w2 k) as [[a2' w3']| |] eqn:Ed; cbn [bind] in H; try discriminate.
      pose proof (IH _ _ _ _ _ _ _ P1 Hfs Hd1 Ed) as Heq. inversion Heq; subst. now inversion H.
    - inversion Hs; subst. now inversion H.
  Qed.

  (* The query level: if the reference search of query q finishes with answers R, and asking the
     query's node until it reports no answer finishes, the answers, their order and multiplicity,
     and the final world (variable-id counter, output) are R's. *)
  Theorem refines_lazy q w fs R nd w1 m F R' :
    answers kb bf fs q w = Ok R ->
    make_base_node kb (GCall q) w = Ok (nd, w1) ->
    drainK m F nd w1 (fun s w' => Ok ([s], w')) = Ok R' -> R' = R.
  Proof.
    intros Ha Hm Hd. unfold answers in Ha.
    assert (make_node kb (GCall q) [] w = Ok (nd, w1)) as Hm' by exact Hm.
    destruct fs as [|f0]; [discriminate|].
    eapply (drain_is_den m F nd w1 _ (S f0)); [eapply make_node_pnode; [|exact Hm']; reflexivity|lia| |exact Hd].
    eapply (den_fresh (GCall q) (S f0) (S f0)); [reflexivity|exact Hm'|lia|apply kle_refl|exact Ha].
  Qed.
End Den.
