(* C11, second half (4/4): the reference search (Spec/SpecCut.v) over a knowledge base and over the
   same knowledge base with the variables of every clause renamed (kb_renamed, per clause
   injective) gives the same answers up to the names of variables, the same variable-id counter,
   stop flag and stop schedule, the same signal and the same outcome class.  What is PRINTED is
   not related: print shows the names of unbound variables.

   Two syntactic conditions on the program (`okkb`) are needed, each with a counterexample when it
   is dropped (Properties/C11names.v):
     - no function term `join(..)`: join turns an unbound variable into text that contains its name;
     - the functor of a call goal contains no variable: the key under which clauses are looked up
       is `show_term functor ++ "/" ++ arity`, which contains the name of a variable.

   The invariant is a Kripke-style relation: the admissible (id, name, name') triples V grow with
   every clause fetch; all ids in V are at most the id counter, so the ids of a fetch are new, and
   an id determines its names (vfun), so that the engine's `term_eqb` (which compares names too)
   behaves alike on both sides. *)
From Coq Require Import Lia.
From Suiron Require Import Model.Term Model.Subst Model.Show Model.Lists Model.Arith Model.Unify
  Model.Compare Model.Builtins Model.Rename Model.Solve Spec.SpecCut
  Proofs.RenameProofs Proofs.RenameNames Proofs.NamesRel Proofs.NamesUnify Proofs.NamesBuiltins.
Open Scope N_scope.

(* ---- goals ---- *)
Section SimG.
  Variable V : vrel.

  Inductive simg : goal -> goal -> Prop :=
  | simg_op k gs gs' : Forall2 simg gs gs' -> simg (GOp k gs) (GOp k gs')
  | simg_bip f ts ts' : orel (Forall2 (sim V)) ts ts' -> simg (GBip f ts) (GBip f ts')
  | simg_call t t' : sim V t t' -> term_key t = term_key t' -> simg (GCall t) (GCall t')
  | simg_nil : simg GNil GNil.

  Section simg_ind2.
    Variable P : goal -> goal -> Prop.
    Hypothesis Hop : forall k gs gs', Forall2 simg gs gs' -> Forall2 P gs gs' -> P (GOp k gs) (GOp k gs').
    Hypothesis Hbip : forall f ts ts', orel (Forall2 (sim V)) ts ts' -> P (GBip f ts) (GBip f ts').
    Hypothesis Hcall : forall t t', sim V t t' -> term_key t = term_key t' -> P (GCall t) (GCall t').
    Hypothesis Hnil : P GNil GNil.
    Fixpoint simg_ind2 (g g' : goal) (H : simg g g') {struct H} : P g g' :=
      match H in simg g g' return P g g' with
      | simg_op k gs gs' HF =>
          Hop k gs gs' HF
            ((fix go (l l' : list goal) (h : Forall2 simg l l') {struct h} : Forall2 P l l' :=
                match h in Forall2 _ l l' return Forall2 P l l' with
                | Forall2_nil _ => Forall2_nil P
                | Forall2_cons x y hxy hl => Forall2_cons x y (simg_ind2 x y hxy) (go _ _ hl)
                end) gs gs' HF)
      | simg_bip f ts ts' Ht => Hbip f ts ts' Ht
      | simg_call t t' Ht Hk => Hcall t t' Ht Hk
      | simg_nil => Hnil
      end.
  End simg_ind2.

  Lemma simg_has_cut g g' : simg g g' -> has_cut g = has_cut g'.
  Proof.
    intro H. induction H as [k gs gs' HF IH|f ts ts' Ht|t t' Ht Hk|] using simg_ind2; try reflexivity.
    cbn [has_cut]. induction IH as [|x y l l' Hxy Hl IHl]; [reflexivity|].
    inversion HF; subst. rewrite Hxy. f_equal. apply IHl. assumption.
  Qed.

  Lemma simg_is_gnil g g' : simg g g' -> is_gnil g = is_gnil g'.
  Proof. destruct 1; reflexivity. Qed.
End SimG.

Lemma simg_mono V V' : vle V V' -> forall g g', simg V g g' -> simg V' g g'.
Proof.
  intros Hle g g' H. induction H as [k gs gs' HF IH|f ts ts' Ht|t t' Ht Hk|] using simg_ind2.
  - constructor. exact IH.
  - constructor. destruct ts, ts'; cbn in *; try contradiction; auto. eapply simts_mono; eauto.
  - constructor; [eapply sim_mono; eauto|exact Hk].
  - constructor.
Qed.

(* ---- the syntactic conditions ---- *)
Fixpoint okt (t : term) : bool :=
  match t with
  | TComplex ts => forallb okt ts
  | TList a n _ _ => okt a && okt n
  | TFun name args => (negb (str_eqb name fname_join) || forallb novars args) && forallb okt args
  | _ => true
  end.

Definition okcall (t : term) : bool :=
  match t with
  | TComplex (f :: _) => novars f
  | _ => true
  end.

Fixpoint okg (g : goal) : bool :=
  match g with
  | GOp _ gs => forallb okg gs
  | GBip _ (Some ts) => forallb okt ts
  | GBip _ None => true
  | GCall t => okt t && okcall t
  | GNil => true
  end.

Definition okr (r : rule) : bool := okt (r_head r) && okg (r_body r).
Definition okkb (kb : kbase) : bool := forallb (fun e => forallb okr (snd e)) kb.

Lemma forallb_map_ext {A} (f : A -> A) (p : A -> bool) l :
  Forall (fun x => p (f x) = p x) l -> forallb p (map f l) = forallb p l.
Proof. induction 1 as [|x l Hx _ IH]; cbn; [reflexivity|]. now rewrite Hx, IH. Qed.

Lemma novars_erase : forall t, novars (erase t) = novars t.
Proof.
  induction t as [| |a0|f0|z0|id0 nm0|ts Hts|a n c tv IHa IHn|nm args Hargs] using term_ind'; try reflexivity.
  - cbn [erase novars]. apply forallb_map_ext, Hts.
  - cbn [erase novars]. now rewrite IHa, IHn.
  - cbn [erase novars]. apply forallb_map_ext, Hargs.
Qed.

Lemma okt_erase : forall t, okt (erase t) = okt t.
Proof.
  induction t as [| |a0|f0|z0|id0 nm0|ts Hts|a n c tv IHa IHn|nm args Hargs] using term_ind'; try reflexivity.
  - cbn [erase okt]. apply forallb_map_ext, Hts.
  - cbn [erase okt]. now rewrite IHa, IHn.
  - cbn [erase okt]. rewrite (forallb_map_ext erase okt _ Hargs). do 2 f_equal.
    apply forallb_map_ext. apply Forall_forall. intros x _. apply novars_erase.
Qed.
Lemma okcall_erase t : okcall (erase t) = okcall t.
Proof.
  destruct t; try reflexivity. destruct ts as [|f r]; [reflexivity|]. cbn. apply novars_erase.
Qed.

Lemma okg_erase : forall g, okg (erase_goal g) = okg g.
Proof.
  induction g as [k gs Hgs|f ts|t|] using goal_ind'; try reflexivity.
  - cbn [erase_goal okg]. apply forallb_map_ext, Hgs.
  - destruct ts as [ts|]; [|reflexivity]. cbn [erase_goal okg]. apply forallb_map_ext.
    apply Forall_forall. intros x _. apply okt_erase.
  - cbn [erase_goal okg]. now rewrite okt_erase, okcall_erase.
Qed.

Lemma okr_erase r : okr (erase_rule r) = okr r.
Proof. unfold okr, erase_rule. cbn [r_head r_body]. now rewrite okt_erase, okg_erase. Qed.

Lemma kb_get_ok kb key rules : okkb kb = true -> kb_get kb key = Some rules -> forallb okr rules = true.
Proof.
  induction kb as [|[k rs] kb IH]; cbn; [discriminate|].
  intros H Hg. apply andb_true_iff in H as [H1 H2].
  destruct (str_eqb k key); [inversion Hg; subst; exact H1|auto].
Qed.

(* ---- a renamed term is related to the term, over any V that has its variables ---- *)
Section Mapn.
  Variable phi : str -> str.
  Variable V : vrel.

  Definition covers (occ : list (N * str)) : Prop := forall id a, In (id, a) occ -> V id a (phi a).

  Lemma covers_app a b : covers (a ++ b) <-> covers a /\ covers b.
  Proof.
    split.
    - intro H. split; intros id x Hin; apply H, in_or_app; auto.
    - intros [Ha Hb] id x Hin. apply in_app_or in Hin as [Hin|Hin]; auto.
  Qed.

  Lemma covers_flat_map {A} (f : A -> list (N * str)) l :
    covers (flat_map f l) -> Forall (fun x => covers (f x)) l.
  Proof.
    induction l as [|x l IH]; cbn [flat_map]; intro H; constructor.
    - apply covers_app in H. apply H.
    - apply IH. apply covers_app in H. apply H.
  Qed.

  Lemma sim_mapn : forall t, okt t = true -> covers (tvars t) -> sim V t (mapn phi t).
  Proof.
    induction t as [| |a0|f0|z0|id0 nm0|ts Hts|a n c tv IHa IHn|nm args Hargs] using term_ind';
      intros Hok Hc; cbn [mapn]; try constructor.
    - apply Hc. left. reflexivity.
    - cbn [okt tvars] in *. apply covers_flat_map in Hc.
      induction Hts as [|x l Hx Hl IH]; cbn [map]; constructor.
      + cbn in Hok. apply andb_true_iff in Hok as [H1 H2]. inversion Hc; subst. auto.
      + cbn in Hok. apply andb_true_iff in Hok as [H1 H2]. inversion Hc; subst. auto.
    - cbn [okt tvars] in *. apply andb_true_iff in Hok as [H1 H2]. apply covers_app in Hc as [C1 C2]. auto.
    - cbn [okt tvars] in *. apply andb_true_iff in Hok as [H1 H2]. apply covers_app in Hc as [C1 C2]. auto.
    - cbn [okt] in Hok. apply andb_true_iff in Hok as [H1 H2]. unfold nojoin.
      apply orb_true_iff in H1 as [H1|H1]; [left; now destruct (str_eqb nm fname_join)|right; exact H1].
    - cbn [okt tvars] in *. apply andb_true_iff in Hok as [_ Hok]. apply covers_flat_map in Hc.
      induction Hargs as [|x l Hx Hl IH]; cbn [map]; constructor.
      + cbn in Hok. apply andb_true_iff in Hok as [H1 H2]. inversion Hc; subst. auto.
      + cbn in Hok. apply andb_true_iff in Hok as [H1 H2]. inversion Hc; subst. auto.
  Qed.

  Lemma simts_mapn : forall ts, forallb okt ts = true -> covers (flat_map tvars ts) ->
    Forall2 (sim V) ts (map (mapn phi) ts).
  Proof.
    induction ts as [|x l IH]; intros Hok Hc; cbn [map]; constructor.
    - cbn in Hok. apply andb_true_iff in Hok as [H1 H2]. cbn [flat_map] in Hc. apply covers_app in Hc as [C1 C2].
      apply sim_mapn; assumption.
    - cbn in Hok. apply andb_true_iff in Hok as [H1 H2]. cbn [flat_map] in Hc. apply covers_app in Hc as [C1 C2].
      auto.
  Qed.

  Lemma mapn_novars : forall t, novars t = true -> mapn phi t = t.
  Proof.
    induction t as [| |a0|f0|z0|id0 nm0|ts Hts|a n c tv IHa IHn|nm args Hargs] using term_ind';
      intro H; try reflexivity; try discriminate.
    - cbn [mapn novars] in *. f_equal. induction Hts as [|x l Hx Hl IH]; [reflexivity|].
      cbn in H. apply andb_true_iff in H as [H1 H2]. cbn [map]. now rewrite Hx, IH.
    - cbn [mapn novars] in *. apply andb_true_iff in H as [H1 H2]. now rewrite IHa, IHn.
    - cbn [mapn novars] in *. f_equal. induction Hargs as [|x l Hx Hl IH]; [reflexivity|].
      cbn in H. apply andb_true_iff in H as [H1 H2]. cbn [map]. now rewrite Hx, IH.
  Qed.

  Lemma term_key_mapn t : okcall t = true -> term_key (mapn phi t) = term_key t.
  Proof.
    destruct t; try reflexivity. destruct ts as [|f r]; [reflexivity|].
    cbn [okcall mapn map term_key]. intro H. rewrite (mapn_novars _ H). now rewrite map_length.
  Qed.

  Lemma simg_mapn : forall g, okg g = true -> covers (gvars g) -> simg V g (mapn_goal phi g).
  Proof.
    induction g as [k gs Hgs|f ts|t|] using goal_ind'; intros Hok Hc.
    - cbn [mapn_goal]. constructor. cbn [okg gvars] in *. apply covers_flat_map in Hc.
      induction Hgs as [|x l Hx Hl IH]; cbn [map]; constructor.
      + cbn in Hok. apply andb_true_iff in Hok as [H1 H2]. inversion Hc; subst. auto.
      + cbn in Hok. apply andb_true_iff in Hok as [H1 H2]. inversion Hc; subst. auto.
    - destruct ts as [ts|]; cbn [mapn_goal]; constructor; [|exact I].
      cbn [orel]. apply simts_mapn; assumption.
    - cbn [mapn_goal okg gvars] in *. apply andb_true_iff in Hok as [H1 H2].
      constructor; [apply sim_mapn; assumption|]. symmetry. apply term_key_mapn, H2.
    - constructor.
  Qed.
End Mapn.

(* ---- a clause fetch extends V ---- *)
Lemma fetch_sim V kb key idx ctr r ctr' r' :
  okkb kb = true -> vfun V -> vbound V ctr ->
  get_rule kb key idx ctr = Ok (r, ctr') -> rule_renamed r r' ->
  exists V1, vle V V1 /\ vfun V1 /\ vbound V1 ctr' /\ ctr <= ctr' /\
             sim V1 (r_head r) (r_head r') /\ simg V1 (r_body r) (r_body r').
Proof.
  intros Hkb Hf Hb Hg (phi & Hinj & ->).
  destruct (get_rule_spec _ _ _ _ _ _ Hg) as (r0 & rules & Hget & Hnth & Her & Hle & Hcons & Hfresh).
  assert (okr r = true) as Hokr.
  { rewrite <- okr_erase, Her, okr_erase.
    pose proof (kb_get_ok _ _ _ Hkb Hget) as Hall. rewrite forallb_forall in Hall.
    apply Hall. eapply nth_error_In, Hnth. }
  unfold okr in Hokr. apply andb_true_iff in Hokr as [Hoh Hob].
  set (V1 := fun id a b => V id a b \/ (In (id, a) (rvars r) /\ b = phi a)).
  exists V1. split; [|split; [|split; [|split; [exact Hle|]]]].
  - intros id a b H. left. exact H.
  - intros id a b a' b' [H1|[H1 E1]] [H2|[H2 E2]].
    + eapply Hf; eauto.
    + specialize (Hb _ _ _ H1). specialize (Hfresh _ _ H2). lia.
    + specialize (Hb _ _ _ H2). specialize (Hfresh _ _ H1). lia.
    + assert (a = a') as -> by (apply (Hcons _ _ _ _ H1 H2); reflexivity). subst. auto.
  - intros id a b [H|[H _]].
    + specialize (Hb _ _ _ H). lia.
    + specialize (Hfresh _ _ H). lia.
  - assert (covers phi V1 (rvars r)) as Hc by (intros id a Hin; right; auto).
    unfold rvars in Hc. apply covers_app in Hc as [C1 C2]. cbn [mapn_rule r_head r_body]. split.
    + apply sim_mapn; assumption.
    + apply simg_mapn; assumption.
Qed.

(* ---- worlds: the output text is not compared ---- *)
Definition wsim (w w' : world) : Prop :=
  next_id w = next_id w' /\ stop_flag w = stop_flag w' /\ stop_after w = stop_after w'.

Lemma wsim_refl w : wsim w w. Proof. repeat split. Qed.
Lemma wsim_print w w' o o' : wsim w w' -> wsim (w_print w o) (w_print w' o').
Proof. intros (H1 & H2 & H3). repeat split; assumption. Qed.
Lemma wsim_set_id w w' n : wsim w w' -> wsim (w_set_id w n) (w_set_id w' n).
Proof. intros (H1 & H2 & H3). repeat split; assumption. Qed.

Lemma count_rules_sim kb kb' key w w' : kb_renamed kb kb' -> wsim w w' ->
  fst (count_rules kb key w) = fst (count_rules kb' key w') /\
  wsim (snd (count_rules kb key w)) (snd (count_rules kb' key w')) /\
  next_id (snd (count_rules kb key w)) = next_id w.
Proof.
  intros Hkb (H1 & H2 & H3). unfold count_rules, query_stopped.
  destruct w as [i fl sa o], w' as [i' fl' sa' o']. cbn [next_id stop_flag stop_after out] in *. subst i' fl' sa'.
  pose proof (kb_get_renamed _ _ key Hkb) as Hg.
  assert (match kb_get kb key with Some l => N.of_nat (length l) | None => 0 end =
          match kb_get kb' key with Some l => N.of_nat (length l) | None => 0 end) as Hlen.
  { destruct (kb_get kb key), (kb_get kb' key); try contradiction; [|reflexivity].
    now rewrite (Forall2_length' _ _ _ Hg). }
  destruct sa as [[|p]|]; cbn.
  - repeat split.
  - destruct fl; cbn; repeat split; assumption.
  - destruct fl; cbn; repeat split; assumption.
Qed.

(* ---- results of the search ---- *)
(* an answer pair: related over some extension of V whose ids are at most n *)
Definition arel (V : vrel) (n : N) (s s' : subst) : Prop :=
  exists V', vle V V' /\ vfun V' /\ vbound V' n /\ sims V' s s'.

Definition cres_rel (V : vrel) (n : N) (x x' : cres) : Prop :=
  match x, x' with
  | (a, w, sg), (a', w', sg') =>
      Forall2 (arel V (next_id w)) a a' /\ wsim w w' /\ sg = sg' /\ n <= next_id w
  end.

Definition post (V : vrel) (n : N) : res cres -> res cres -> Prop := rrel (cres_rel V n).

Definition kvalid (V : vrel) (k k' : ckont) : Prop :=
  forall V' s s' w w' c, vle V V' -> vfun V' -> vbound V' (next_id w) -> sims V' s s' -> wsim w w' ->
    post V' (next_id w) (k s w c) (k' s' w' c).

Lemma arel_weaken V0 V n n' s s' : vle V0 V -> n <= n' -> arel V n s s' -> arel V0 n' s s'.
Proof.
  intros Hle Hn (V' & H1 & H2 & H3 & H4). exists V'. split; [eapply vle_trans; eauto|].
  split; [exact H2|]. split; [eapply vbound_le; eauto|exact H4].
Qed.

Lemma cres_rel_weaken V0 V n0 n x x' : vle V0 V -> n0 <= n -> cres_rel V n x x' -> cres_rel V0 n0 x x'.
Proof.
  intros Hle Hn. destruct x as [[a w] sg], x' as [[a' w'] sg']. cbn. intros (H1 & H2 & H3 & H4).
  split; [|split; [exact H2|split; [exact H3|lia]]].
  eapply Forall2_mono; [|exact H1]. intros s s'. apply arel_weaken; [exact Hle|lia].
Qed.

Lemma post_weaken V0 V n0 n r r' : vle V0 V -> n0 <= n -> post V n r r' -> post V0 n0 r r'.
Proof. intros Hle Hn. apply rrel_mono. intros x x'. apply cres_rel_weaken; assumption. Qed.

Lemma cres_rel_mark V n c x x' : cres_rel V n x x' -> cres_rel V n (mark c x) (mark c x').
Proof.
  destruct x as [[a w] sg], x' as [[a' w'] sg']. destruct c; cbn; [|auto].
  intros (H1 & H2 & H3 & H4). subst. auto.
Qed.

Lemma post_mark V n c r r' : post V n r r' ->
  post V n (do x <- r; Ok (mark c x)) (do x <- r'; Ok (mark c x)).
Proof. intro H. eapply rrel_bind; [exact H|]. intros x x' Hx. apply cres_rel_mark, Hx. Qed.

Lemma cres_rel_app V n a1 a1' w1 (y y' : cres) :
  Forall2 (arel V (next_id w1)) a1 a1' -> n <= next_id w1 -> cres_rel V (next_id w1) y y' ->
  cres_rel V n (let '(a2, w2, s2) := y in (a1 ++ a2, w2, s2)) (let '(a2, w2, s2) := y' in (a1' ++ a2, w2, s2)).
Proof.
  destruct y as [[a2 w2] s2], y' as [[a2' w2'] s2']. cbn. intros H1 Hn (H2 & H3 & H4 & H5).
  split; [|split; [exact H3|split; [exact H4|lia]]].
  apply Forall2_app'; [|exact H2].
  eapply Forall2_mono; [|exact H1]. intros s s'. apply arel_weaken; [apply vle_refl|exact H5].
Qed.

Lemma seq_post V n a a' (b b' : world -> res cres) :
  post V n a a' ->
  (forall w1 w1', wsim w1 w1' -> n <= next_id w1 -> post V (next_id w1) (b w1) (b' w1')) ->
  post V n (seq a b) (seq a' b').
Proof.
  intros Ha Hb. unfold seq. eapply rrel_bind; [exact Ha|].
  intros [[a1 w1] s1] [[a1' w1'] s1'] (H1 & H2 & H3 & H4). subst s1'.
  destruct s1; try (cbn; auto; fail).
  specialize (Hb _ _ H2 H4).
  eapply rrel_bind; [exact Hb|]. intros y y' Hy.
  pose proof (cres_rel_app V n a1 a1' w1 y y' H1 H4 Hy) as H.
  destruct y as [[a2 w2] s2], y' as [[a2' w2'] s2']. exact H.
Qed.

Lemma after_body_post V n x x' (rest rest' : world -> res cres) :
  cres_rel V n x x' ->
  (forall w1 w1', wsim w1 w1' -> n <= next_id w1 -> post V (next_id w1) (rest w1) (rest' w1')) ->
  post V n (after_body x rest) (after_body x' rest').
Proof.
  destruct x as [[a1 w1] s1], x' as [[a1' w1'] s1']. intros (H1 & H2 & H3 & H4) Hb. subst s1'.
  unfold after_body. destruct s1 as [|[|m]|]; try (cbn; auto; fail).
  specialize (Hb _ _ H2 H4).
  eapply rrel_bind; [exact Hb|]. intros y y' Hy.
  pose proof (cres_rel_app V n a1 a1' w1 y y' H1 H4 Hy) as H.
  destruct y as [[a2 w2] s2], y' as [[a2' w2'] s2']. exact H.
Qed.

Lemma kvalid_le V V' k k' : vle V V' -> kvalid V k k' -> kvalid V' k k'.
Proof.
  intros Hle Hk V2 s s' w w' c H1 H2 H3 H4 H5. apply Hk; try assumption. eapply vle_trans; eauto.
Qed.

Lemma kvalid_kwrap V c1 k k' : kvalid V k k' -> kvalid V (kwrap c1 k) (kwrap c1 k').
Proof.
  intros Hk V2 s s' w w' c H1 H2 H3 H4 H5. unfold kwrap. apply post_mark. apply Hk; assumption.
Qed.

Lemma kvalid_kbump V k k' : kvalid V k k' -> kvalid V (kbump k) (kbump k').
Proof.
  intros Hk V2 s s' w w' c H1 H2 H3 H4 H5. unfold kbump.
  eapply rrel_bind; [apply (Hk V2 s s' w w' false); assumption|].
  intros [[a w1] sg] [[a' w1'] sg'] (R1 & R2 & R3 & R4). subst. cbn. auto.
Qed.

Lemma sims_arel V n s s' : vfun V -> vbound V n -> sims V s s' -> arel V n s s'.
Proof. intros H1 H2 H3. exists V. split; [apply vle_refl|auto]. Qed.

Lemma kvalid_halt1 V : kvalid V halt1 halt1.
Proof.
  intros V2 s s' w w' c H1 H2 H3 H4 H5. cbn.
  split; [constructor; [apply sims_arel; assumption|constructor]|]. split; [exact H5|]. split; [reflexivity|lia].
Qed.

Lemma kvalid_collect V : kvalid V (fun s w _ => Ok ([s], w, Go)) (fun s w _ => Ok ([s], w, Go)).
Proof.
  intros V2 s s' w w' c H1 H2 H3 H4 H5. cbn.
  split; [constructor; [apply sims_arel; assumption|constructor]|]. split; [exact H5|]. split; [reflexivity|lia].
Qed.

(* ---- the search ---- *)
Section Search.
  Variable kb kb' : kbase.
  Variable bf : nat.
  Hypothesis Hkb : kb_renamed kb kb'.
  Hypothesis Hok : okkb kb = true.

  Definition cs_ok (cs cs' : goal -> subst -> world -> ckont -> res cres) : Prop :=
    forall V g g' s s' w w' k k', vfun V -> vbound V (next_id w) -> simg V g g' -> sims V s s' ->
      wsim w w' -> kvalid V k k' -> post V (next_id w) (cs g s w k) (cs' g' s' w' k').

  Definition cc_ok (cc cc' : term -> subst -> str -> N -> N -> world -> ckont -> res cres) : Prop :=
    forall V t t' s s' key idx n w w' k k', vfun V -> vbound V (next_id w) -> sim V t t' -> sims V s s' ->
      wsim w w' -> kvalid V k k' -> post V (next_id w) (cc t s key idx n w k) (cc' t' s' key idx n w' k').

  Lemma csolve_body_ok cs cs' cc cc' : cs_ok cs cs' -> cc_ok cc cc' ->
    cs_ok (csolve_body kb bf cs cc) (csolve_body kb' bf cs' cc').
  Proof.
    intros Hcs Hcc V g g' s s' w w' k k' Hf Hb Hg Hs Hw Hk. unfold csolve_body.
    destruct Hg as [op gs gs' HF|fn ts ts' Ht|t t' Ht Hkey|].
    - destruct op.
      + (* and *)
        destruct HF as [|g1 g1' r r' H1 Hr]; [exact I|].
        destruct Hr as [|g2 g2' r r' H2 Hr]; [apply Hcs; assumption|].
        apply Hcs; try assumption.
        intros V2 s1 s1' w1 w1' c1 L F B S W. apply post_mark. apply Hcs; try assumption.
        * eapply simg_mono; [exact L|]. constructor. constructor; assumption.
        * apply kvalid_kwrap. eapply kvalid_le; eauto.
      + (* or *)
        destruct HF as [|g1 g1' r r' H1 Hr]; [exact I|].
        destruct Hr as [|g2 g2' r r' H2 Hr]; [apply Hcs; assumption|].
        apply seq_post; [apply Hcs; assumption|].
        intros w1 w1' W N. apply Hcs; try assumption.
        * eapply vbound_le; eauto.
        * constructor. constructor; assumption.
      + (* time *)
        destruct HF as [|g1 g1' r r' H1 Hr]; [exact I|].
        rewrite <- (simg_has_cut _ _ _ H1). destruct (has_cut g1); [exact I|].
        eapply rrel_bind; [apply (Hcs V); try eassumption; apply kvalid_halt1|].
        intros [[a w1] sg] [[a' w1'] sg'] (R1 & R2 & R3 & R4).
        destruct R1 as [|s1 s1' a a' (V1 & L1 & F1 & B1 & S1) R1].
        * cbn. split; [constructor|]. split; [apply wsim_print, R2|]. split; [reflexivity|exact R4].
        * eapply post_weaken; [exact L1|exact R4|].
          apply (Hk V1 s1 s1' (w_print w1 elapsed_token) (w_print w1' elapsed_token) false); try assumption;
            try (apply wsim_print, R2).
      + (* not *)
        destruct HF as [|g1 g1' r r' H1 Hr]; [exact I|].
        rewrite <- (simg_has_cut _ _ _ H1). destruct (has_cut g1); [exact I|].
        eapply rrel_bind; [apply (Hcs V); try eassumption; apply kvalid_halt1|].
        intros [[a w1] sg] [[a' w1'] sg'] (R1 & R2 & R3 & R4).
        destruct R1 as [|s1 s1' a a' _ R1].
        * eapply post_weaken; [apply vle_refl|exact R4|].
          apply (Hk V s s' w1 w1' false); try assumption; [apply vle_refl|eapply vbound_le; eauto].
        * cbn. split; [constructor|]. split; [exact R2|]. split; [reflexivity|exact R4].
    - (* built-in predicate *)
      eapply rrel_bind; [apply (run_bip_sim V Hf); eassumption|].
      intros r r' [Hsol Hcut]. rewrite <- Hcut.
      destruct (br_sol r) as [s1|], (br_sol r') as [s1'|]; cbn in Hsol; try contradiction.
      + apply post_mark.
        apply (Hk V s1 s1' (w_print w (br_out r)) (w_print w' (br_out r')) (br_cut r)); try assumption;
          try (apply vle_refl); try (apply wsim_print, Hw).
      + cbn. split; [constructor|]. split; [apply wsim_print, Hw|]. split; [reflexivity|lia].
    - (* call *)
      rewrite <- Hkey. destruct (term_key t) as [key| |]; cbn [bind]; try exact I.
      pose proof (count_rules_sim kb kb' key w w' Hkb Hw) as (C1 & C2 & C3).
      destruct (count_rules kb key w) as [n w0], (count_rules kb' key w') as [n' w0'].
      cbn [fst snd] in *. subst n'. rewrite <- C3. apply Hcc; try assumption. now rewrite C3.
    - exact I.
  Qed.

  Lemma cclauses_body_ok cs cs' cc cc' : cs_ok cs cs' -> cc_ok cc cc' ->
    cc_ok (cclauses_body kb bf cs cc) (cclauses_body kb' bf cs' cc').
  Proof.
    intros Hcs Hcc V t t' s s' key idx n w w' k k' Hf Hb Ht Hs Hw Hk. unfold cclauses_body.
    destruct (n <=? idx).
    { cbn. split; [constructor|]. split; [exact Hw|]. split; [reflexivity|lia]. }
    pose proof Hw as (W1 & W2 & W3). rewrite <- W1.
    pose proof (get_rule_renamed kb kb' key idx (next_id w) Hkb) as HG.
    destruct (get_rule kb key idx (next_id w)) as [[r ctr]| |] eqn:E1,
             (get_rule kb' key idx (next_id w)) as [[r' ctr']| |]; try contradiction; try exact I.
    destruct HG as [<- HR]. cbn [bind].
    destruct (fetch_sim V kb key idx _ r ctr r' Hok Hf Hb E1 HR) as (V1 & L1 & F1 & B1 & Le & Hh & Hbd).
    assert (forall w2 w2', wsim w2 w2' -> next_id w <= next_id w2 ->
              post V (next_id w2) (cc t s key (idx + 1) n w2 k) (cc' t' s' key (idx + 1) n w2' k')) as Hrest.
    { intros w2 w2' W N. apply Hcc; try assumption. eapply vbound_le; eauto. }
    eapply rrel_bind;
      [apply (unify_sim V1 F1); [exact Hh|eapply sim_mono; eauto|eapply sims_mono; eauto]|].
    intros u u' Hu. destruct u as [s1|], u' as [s1'|]; cbn in Hu; try contradiction.
    - rewrite <- (simg_is_gnil _ _ _ Hbd). destruct (is_gnil (r_body r)).
      + apply seq_post; [|exact Hrest].
        eapply post_weaken; [exact L1|exact Le|].
        apply (Hk V1 s1 s1' (w_set_id w ctr) (w_set_id w' ctr) false); try assumption;
          try (apply wsim_set_id, Hw).
      + eapply rrel_bind.
        * eapply post_weaken; [exact L1|exact Le|].
          apply (Hcs V1 _ _ s1 s1' (w_set_id w ctr) (w_set_id w' ctr)); try assumption;
            try (apply wsim_set_id, Hw).
          apply kvalid_kbump. eapply kvalid_le; eauto.
        * intros x x' Hx. apply after_body_post; [exact Hx|exact Hrest].
    - apply (Hrest (w_set_id (w_set_id w ctr) (next_id w)) (w_set_id (w_set_id w' ctr) (next_id w))).
      + apply wsim_set_id, wsim_set_id, Hw.
      + cbn. lia.
  Qed.

  Theorem csolve_sim : forall f,
    cs_ok (csolve kb bf f) (csolve kb' bf f) /\ cc_ok (cclauses kb bf f) (cclauses kb' bf f).
  Proof.
    induction f as [|f [IHs IHc]].
    - split; repeat intro; exact I.
    - split.
      + intros V g g' s s' w w' k k'. rewrite !csolve_S. apply csolve_body_ok; assumption.
      + intros V t t' s s' key idx n w w' k k'. rewrite !cclauses_S. apply cclauses_body_ok; assumption.
  Qed.

  (* related queries in related worlds *)
  Definition ans_rel (V : vrel) (n : N) (x x' : list subst * world) : Prop :=
    Forall2 (arel V (next_id (snd x))) (fst x) (fst x') /\ wsim (snd x) (snd x') /\ n <= next_id (snd x).

  Theorem canswers_sim V fuel q q' w w' :
    vfun V -> vbound V (next_id w) -> sim V q q' -> term_key q = term_key q' -> wsim w w' ->
    rrel (ans_rel V (next_id w)) (canswers kb bf fuel q w) (canswers kb' bf fuel q' w').
  Proof.
    intros Hf Hb Hq Hkey Hw. unfold canswers.
    eapply rrel_bind.
    - apply (proj1 (csolve_sim fuel) V); try eassumption.
      + constructor; assumption.
      + apply sims_nil.
      + apply kvalid_collect.
    - intros [[a w1] sg] [[a' w1'] sg'] (R1 & R2 & R3 & R4). cbn.
      split; [exact R1|split; [exact R2|exact R4]].
  Qed.
End Search.

(* ---- the statement for one query text ---- *)
Definition names_ignored (s s' : subst) : Prop := sims vtop s s'.

Definition answers_rel (x x' : list subst * world) : Prop :=
  Forall2 names_ignored (fst x) (fst x') /\ wsim (snd x) (snd x').

Lemma mapn_id : forall t, mapn (fun x => x) t = t.
Proof.
  induction t as [| |a0|f0|z0|id0 nm0|ts Hts|a n c tv IHa IHn|nm args Hargs] using term_ind'; try reflexivity.
  - cbn [mapn]. f_equal. induction Hts as [|x l Hx _ IH]; [reflexivity|]. cbn [map]. now rewrite Hx, IH.
  - cbn [mapn]. now rewrite IHa, IHn.
  - cbn [mapn]. f_equal. induction Hargs as [|x l Hx _ IH]; [reflexivity|]. cbn [map]. now rewrite Hx, IH.
Qed.

(* the query's own variables: ids at most the counter, an id has one name *)
Definition query_ok (q : term) (ctr : N) : Prop :=
  okt q = true /\ consistent (tvars q) /\ (forall id a, In (id, a) (tvars q) -> id <= ctr).

Theorem canswers_renamed kb kb' bf fuel q w :
  kb_renamed kb kb' -> okkb kb = true -> query_ok q (next_id w) ->
  rrel answers_rel (canswers kb bf fuel q w) (canswers kb' bf fuel q w).
Proof.
  intros Hkb Hok (Hq & Hc & Hb).
  set (V0 := fun id a b => In (id, a) (tvars q) /\ b = a).
  assert (vfun V0) as Hf.
  { intros id a b a' b' [H1 E1] [H2 E2].
    assert (a = a') as -> by (apply (Hc _ _ _ _ H1 H2); reflexivity). subst. auto. }
  assert (vbound V0 (next_id w)) as Hbd by (intros id a b [H _]; eapply Hb; eauto).
  assert (sim V0 q q) as Hs.
  { rewrite <- (mapn_id q) at 2. apply sim_mapn; [exact Hq|]. intros id a Hin. split; auto. }
  pose proof (canswers_sim kb kb' bf Hkb Hok V0 fuel q q w w Hf Hbd Hs eq_refl (wsim_refl w)) as H.
  eapply rrel_mono; [|exact H].
  intros [a w1] [a' w1'] (R1 & R2 & R3). split; [|exact R2]. cbn [fst snd] in *.
  eapply Forall2_mono; [|exact R1]. intros s s' (V' & _ & _ & _ & S). eapply sims_mono; [apply vle_top|exact S].
Qed.

(* a query built by make_query, run in the world make_query leaves *)
Theorem canswers_renamed_query kb kb' bf fuel terms q ctr w :
  kb_renamed kb kb' -> okkb kb = true -> forallb okt terms = true ->
  make_query terms = Ok (GCall q, ctr) -> next_id w = ctr ->
  rrel answers_rel (canswers kb bf fuel q w) (canswers kb' bf fuel q w).
Proof.
  intros Hkb Hok Ht Hm Hw. apply canswers_renamed; try assumption.
  destruct (make_query_spec _ _ _ Hm) as (ts' & E & He & Hc & Hfr). inversion E; subst q.
  split; [|split].
  - cbn [okt]. rewrite <- (forallb_map_ext erase okt ts'), He, (forallb_map_ext erase okt terms); [exact Ht| |];
      apply Forall_forall; intros x _; apply okt_erase.
  - exact Hc.
  - intros id a Hin. cbn [tvars] in Hin. specialize (Hfr _ _ Hin). lia.
Qed.

(* ---- reflexivity; related terms are equal once names are erased ---- *)
Lemma sim_refl (V : vrel) t : okt t = true -> (forall id a, In (id, a) (tvars t) -> V id a a) -> sim V t t.
Proof. intros Hok Hc. rewrite <- (mapn_id t) at 2. apply sim_mapn; assumption. Qed.

Lemma sim_top_refl t : okt t = true -> sim vtop t t.
Proof. intro H. apply sim_refl; [exact H|]. intros; exact I. Qed.

Lemma sim_erased V (e : str -> str) : (forall a b, e a = e b) ->
  forall t t', sim V t t' -> mapn e t = mapn e t'.
Proof.
  intros He t t' H. induction H as [| |s|f|z|id a b Hv|ts ts' HF IH|a a' n n' c tv Ha IHa Hn IHn|name args args' Hj HF IH]
    using sim_ind2; try reflexivity.
  - cbn [mapn]. f_equal. apply He.
  - cbn [mapn]. f_equal. clear HF. induction IH as [|x y l l' Hxy _ IHl]; [reflexivity|]. cbn [map]. now rewrite Hxy, IHl.
  - cbn [mapn]. now rewrite IHa, IHn.
  - cbn [mapn]. f_equal. clear HF Hj. induction IH as [|x y l l' Hxy _ IHl]; [reflexivity|]. cbn [map]. now rewrite Hxy, IHl.
Qed.

Lemma sims_erased V (e : str -> str) : (forall a b, e a = e b) ->
  forall s s', sims V s s' -> map (option_map (mapn e)) s = map (option_map (mapn e)) s'.
Proof.
  intros He s s' H. induction H as [|x y s s' Hxy _ IH]; [reflexivity|]. cbn [map]. rewrite IH. f_equal.
  destruct x, y; cbn in *; try contradiction; [|reflexivity]. f_equal. eapply sim_erased; eauto.
Qed.
