(* C11 (the clause-fetch half): renaming the variables of a stored clause by an injective map
   of NAMES changes nothing but the names in what a clause fetch returns - the fresh ids are
   the same, because ids are assigned by first occurrence. *)
From Coq Require Import Lia.
From Suiron Require Import Model.Term Model.Subst Model.Show Model.Lists Model.Arith Model.Unify
  Model.Compare Model.Builtins Model.Rename.
Open Scope N_scope.

Section Names.
  Variable phi : str -> str.
  Hypothesis phi_inj : forall a b, phi a = phi b -> a = b.

  Fixpoint mapn (t : term) : term :=
    match t with
    | TVar id n => TVar id (phi n)
    | TComplex ts => TComplex (map mapn ts)
    | TList a n c tv => TList (mapn a) (mapn n) c tv
    | TFun f args => TFun f (map mapn args)
    | _ => t
    end.

  Fixpoint mapn_goal (g : goal) : goal :=
    match g with
    | GOp k gs => GOp k (map mapn_goal gs)
    | GBip f (Some ts) => GBip f (Some (map mapn ts))
    | GBip f None => GBip f None
    | GCall t => GCall (mapn t)
    | GNil => GNil
    end.

  Definition mapn_rule (r : rule) : rule := mkRule (mapn (r_head r)) (mapn_goal (r_body r)).
  Definition mapn_vm (vm : varmap) : varmap := map (fun kv => (phi (fst kv), snd kv)) vm.
  Definition mapn_st (st : rstate) : rstate := (mapn_vm (fst st), snd st).

  Lemma str_eqb_phi a b : str_eqb (phi a) (phi b) = str_eqb a b.
  Proof.
    destruct (str_eqb a b) eqn:E.
    - apply str_eqb_eq in E. subst. apply str_eqb_refl.
    - destruct (str_eqb (phi a) (phi b)) eqn:E2; [|reflexivity].
      apply str_eqb_eq in E2. apply phi_inj in E2. subst. now rewrite str_eqb_refl in E.
  Qed.

  Lemma vm_get_phi vm n : vm_get (mapn_vm vm) (phi n) = vm_get vm n.
  Proof.
    induction vm as [|[k v] vm IH]; [reflexivity|]. simpl. rewrite str_eqb_phi. now rewrite IH.
  Qed.

  Definition commutes_term (t : term) : Prop :=
    forall st, rename_term (mapn t) (mapn_st st) =
               (mapn (fst (rename_term t st)), mapn_st (snd (rename_term t st))).

  Lemma rename_terms_commutes : forall l, Forall commutes_term l ->
    forall st, rename_terms (map mapn l) (mapn_st st) =
               (map mapn (fst (rename_terms l st)), mapn_st (snd (rename_terms l st))).
  Proof.
    induction 1 as [|x l Hx _ IH]; intro st; [reflexivity|].
    cbn [map rename_terms]. rewrite Hx.
    destruct (rename_term x st) as [x' st1]. cbn [fst snd]. rewrite IH.
    destruct (rename_terms l st1) as [r st2]. reflexivity.
  Qed.

  Lemma inner_eq : forall l st,
    (fix go (l : list term) (st : rstate) : list term * rstate :=
       match l with
       | [] => ([], st)
       | x :: l' =>
           let '(x', st1) := rename_term x st in
           let '(r, st2) := go l' st1 in (x' :: r, st2)
       end) l st = rename_terms l st.
  Proof. induction l as [|x l IH]; intro st; simpl; [reflexivity|]. destruct (rename_term x st). now rewrite IH. Qed.

  Lemma rename_complex ts st :
    rename_term (TComplex ts) st = (TComplex (fst (rename_terms ts st)), snd (rename_terms ts st)).
  Proof. cbn [rename_term]. rewrite inner_eq. destruct (rename_terms ts st); reflexivity. Qed.
  Lemma rename_fun nm ts st :
    rename_term (TFun nm ts) st = (TFun nm (fst (rename_terms ts st)), snd (rename_terms ts st)).
  Proof. cbn [rename_term]. rewrite inner_eq. destruct (rename_terms ts st); reflexivity. Qed.

  Theorem rename_term_commutes : forall t, commutes_term t.
  Proof.
    induction t as [| |a0|f0|z0|id0 nm0|ts Hts|a n c tv IHa IHn|nm args Hargs] using term_ind';
      intro st; try reflexivity.
    - destruct st as [vm ctr]. cbn [mapn rename_term mapn_st fst snd]. rewrite vm_get_phi.
      destruct (vm_get vm nm0); reflexivity.
    - cbn [mapn]. rewrite !rename_complex. rewrite (rename_terms_commutes _ Hts). reflexivity.
    - cbn [mapn rename_term]. rewrite IHa. destruct (rename_term a st) as [a' st1]. cbn [fst snd].
      rewrite IHn. destruct (rename_term n st1) as [n' st2]. reflexivity.
    - cbn [mapn]. rewrite !rename_fun. rewrite (rename_terms_commutes _ Hargs). reflexivity.
  Qed.

  Lemma rename_terms_commutes' l st :
    rename_terms (map mapn l) (mapn_st st) =
    (map mapn (fst (rename_terms l st)), mapn_st (snd (rename_terms l st))).
  Proof. apply rename_terms_commutes. apply Forall_forall. intros t _. apply rename_term_commutes. Qed.

  Definition gres (r : res (goal * rstate)) : res (goal * rstate) :=
    match r with Ok (g, st) => Ok (mapn_goal g, mapn_st st) | Panic => Panic | OutOfFuel => OutOfFuel end.

  Section goal_ind.
    Variable P : goal -> Prop.
    Hypothesis HOp : forall k gs, Forall P gs -> P (GOp k gs).
    Hypothesis HBip : forall f ts, P (GBip f ts).
    Hypothesis HCall : forall t, P (GCall t).
    Hypothesis HNil : P GNil.
    Fixpoint goal_ind2 (g : goal) : P g :=
      match g with
      | GOp k gs => HOp k gs ((fix go (l : list goal) : Forall P l :=
                                 match l with
                                 | [] => Forall_nil P
                                 | x :: l' => Forall_cons x (goal_ind2 x) (go l')
                                 end) gs)
      | GBip f ts => HBip f ts
      | GCall t => HCall t
      | GNil => HNil
      end.
  End goal_ind.

  Fixpoint rename_goals (l : list goal) (st : rstate) : res (list goal * rstate) :=
    match l with
    | [] => Ok ([], st)
    | x :: l' =>
        do a <- rename_goal x st;
        let '(x', st1) := a in
        do b <- rename_goals l' st1;
        let '(r, st2) := b in Ok (x' :: r, st2)
    end.

  Lemma rename_goal_op k gs st :
    rename_goal (GOp k gs) st = do r <- rename_goals gs st; let '(gs', st') := r in Ok (GOp k gs', st').
  Proof.
    cbn [rename_goal].
    assert (forall l s,
      (fix go (l : list goal) (st : rstate) : res (list goal * rstate) :=
         match l with
         | [] => Ok ([], st)
         | x :: l' =>
             do a <- rename_goal x st;
             let '(x', st1) := a in
             do b <- go l' st1;
             let '(r, st2) := b in Ok (x' :: r, st2)
         end) l s = rename_goals l s) as E.
    { induction l as [|x l IH]; intro s; [reflexivity|]. cbn [rename_goals].
      destruct (rename_goal x s) as [[x' s1]| |]; cbn [bind]; try reflexivity; now rewrite IH. }
    now rewrite E.
  Qed.

  Definition gsres (r : res (list goal * rstate)) : res (list goal * rstate) :=
    match r with Ok (l, st) => Ok (map mapn_goal l, mapn_st st) | Panic => Panic | OutOfFuel => OutOfFuel end.

  Lemma rename_goals_commutes : forall l,
    Forall (fun g => forall st, rename_goal (mapn_goal g) (mapn_st st) = gres (rename_goal g st)) l ->
    forall st, rename_goals (map mapn_goal l) (mapn_st st) = gsres (rename_goals l st).
  Proof.
    induction 1 as [|x l Hx _ IH]; intro st; [reflexivity|].
    cbn [map rename_goals]. rewrite Hx.
    destruct (rename_goal x st) as [[x' st1]| |]; cbn [gres bind gsres]; try reflexivity.
    rewrite IH. destruct (rename_goals l st1) as [[r st2]| |]; reflexivity.
  Qed.

  Theorem rename_goal_commutes : forall g st, rename_goal (mapn_goal g) (mapn_st st) = gres (rename_goal g st).
  Proof.
    induction g as [k gs Hgs|f ts|t|] using goal_ind2; intro st.
    - cbn [mapn_goal]. rewrite !rename_goal_op. rewrite (rename_goals_commutes _ Hgs).
      destruct (rename_goals gs st) as [[gs' st']| |]; reflexivity.
    - destruct ts as [ts|]; [|reflexivity]. cbn [mapn_goal rename_goal]. rewrite rename_terms_commutes'.
      destruct (rename_terms ts st) as [ts' st']. reflexivity.
    - destruct t; try reflexivity. cbn [mapn_goal rename_goal].
      change (TComplex (map mapn ts)) with (mapn (TComplex ts)). rewrite rename_term_commutes.
      destruct (rename_term (TComplex ts) st) as [u' st']. reflexivity.
    - reflexivity.
  Qed.

  Definition rres (r : res (rule * rstate)) : res (rule * rstate) :=
    match r with Ok (x, st) => Ok (mapn_rule x, mapn_st st) | Panic => Panic | OutOfFuel => OutOfFuel end.

  Theorem rename_rule_commutes r st : rename_rule (mapn_rule r) (mapn_st st) = rres (rename_rule r st).
  Proof.
    unfold rename_rule. cbn [mapn_rule r_head r_body]. rewrite rename_term_commutes.
    destruct (rename_term (r_head r) st) as [h st1]. cbn [fst snd].
    destruct (r_body r) as [k gs|f ts|c|] eqn:Eb.
    - cbn [mapn_goal]. cbv iota. change (GOp k (map mapn_goal gs)) with (mapn_goal (GOp k gs)).
      rewrite rename_goal_commutes.
      destruct (rename_goal (GOp k gs) st1) as [[g st2]| |]; reflexivity.
    - destruct ts as [ts|].
      + cbn [mapn_goal]. cbv iota. change (GBip f (Some (map mapn ts))) with (mapn_goal (GBip f (Some ts))).
        rewrite rename_goal_commutes.
        destruct (rename_goal (GBip f (Some ts)) st1) as [[g st2]| |]; reflexivity.
      + reflexivity.
    - cbn [mapn_goal]. cbv iota. rewrite rename_term_commutes. destruct (rename_term c st1) as [c' st2]. reflexivity.
    - reflexivity.
  Qed.
End Names.

(* ---- knowledge bases whose clauses differ by a consistent (per clause injective) renaming ---- *)
Definition rule_renamed (r r' : rule) : Prop :=
  exists phi, (forall a b, phi a = phi b -> a = b) /\ r' = mapn_rule phi r.

Definition kb_renamed (kb kb' : kbase) : Prop :=
  Forall2 (fun e e' => fst e = fst e' /\ Forall2 rule_renamed (snd e) (snd e')) kb kb'.

Lemma kb_get_renamed kb kb' key : kb_renamed kb kb' ->
  match kb_get kb key, kb_get kb' key with
  | Some rs, Some rs' => Forall2 rule_renamed rs rs'
  | None, None => True
  | _, _ => False
  end.
Proof.
  induction 1 as [|[k rs] [k' rs'] kb kb' [Hk Hr] _ IH]; [exact I|].
  simpl in *. subst k'. destruct (str_eqb k key); [exact Hr|exact IH].
Qed.

(* Every clause fetch from the renamed knowledge base returns the renamed clause with THE SAME
   fresh ids and the same counter. *)
Theorem get_rule_renamed kb kb' pred i ctr :
  kb_renamed kb kb' ->
  match get_rule kb pred i ctr, get_rule kb' pred i ctr with
  | Ok (r, c), Ok (r', c') => c = c' /\ rule_renamed r r'
  | Panic, Panic => True
  | OutOfFuel, OutOfFuel => True
  | _, _ => False
  end.
Proof.
  intro H. pose proof (kb_get_renamed kb kb' pred H) as Hg. unfold get_rule.
  destruct (kb_get kb pred) as [rs|], (kb_get kb' pred) as [rs'|]; try contradiction; [|exact I].
  revert i. induction Hg as [|r r' rs rs' Hr _ IH]; intro i.
  - destruct (N.to_nat i); exact I.
  - destruct (N.to_nat i) as [|n] eqn:En.
    + simpl. destruct Hr as (phi & Hinj & ->).
      pose proof (rename_rule_commutes phi Hinj r ([], ctr)) as Hc. unfold mapn_st in Hc. cbn [mapn_vm map fst snd] in Hc. unfold rstate, varmap in *.
      rewrite Hc. destruct (rename_rule r ([], ctr)) as [[r0 [vm c0]]| |]; simpl; auto.
      split; [reflexivity|]. exists phi. auto.
    + simpl. specialize (IH (N.of_nat n)). rewrite Nat2N.id in IH. exact IH.
Qed.
