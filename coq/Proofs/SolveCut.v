(* C02 on the machine: a cut never leaves the call whose clause contains it, and every node
   a cut has passed through is committed (flagged), hence - by C05 - yields nothing after the
   answer being derived. *)
From Coq Require Import Lia.
From Suiron Require Import Model.Term Model.Subst Model.Show Model.Lists Model.Arith Model.Unify
  Model.Compare Model.Builtins Model.Rename Model.Solve Proofs.SolveDead.
Open Scope N_scope.

Section Cut.
  Variable kb : kbase.
  Variable bf : nat.

  (* the clause loop never reports a cut to the outside *)
  Lemma call_loop_no_signal : forall fuel t ss nobt child idx n w nd' r c w',
    call_loop kb bf fuel t ss nobt child idx n w = Ok (nd', r, c, w') -> c = false.
  Proof.
    induction fuel as [|f IH]; intros t ss nobt child idx n w nd' r c w' H; [discriminate|].
    rewrite call_loop_S in H. unfold call_body in H.
    destruct nobt; [inversion H; reflexivity|].
    destruct (n <=? idx); [inversion H; reflexivity|].
    dbind1 H as key Ek. dbind2 H as r0 ctr Eg. dbind1 H as u Eu.
    destruct u as [s|]; [|eapply IH; eauto].
    destruct (is_gnil (r_body r0)); [inversion H; reflexivity|].
    dbind2 H as c0 w2 E2. dbind H as n3 o3 b3 w3 E3.
    destruct o3 as [s2|]; [inversion H; reflexivity|eapply IH; eauto].
  Qed.

  (* A call node absorbs the cut: whatever happens below it, its caller sees no signal. *)
  Theorem call_absorbs_cut fuel t ss nobt child idx n w nd' r c w' :
    next kb bf fuel (NCall t ss nobt child idx n) w = Ok (nd', r, c, w') -> c = false.
  Proof.
    destruct fuel as [|f]; [discriminate|]. rewrite next_S. unfold next_body. simpl node_nobt.
    destruct nobt; [intro H; inversion H; reflexivity|].
    destruct child as [c0|]; intro H.
    - dbind H as n1 o1 b1 w1 E1. destruct o1 as [s|]; [inversion H; reflexivity|].
      eapply call_loop_no_signal; eauto.
    - eapply call_loop_no_signal; eauto.
  Qed.

  (* A node that reports a cut is committed: its no_backtracking flag is set. *)
  Definition commits_next (fuel : nat) : Prop :=
    forall nd w nd' r w', next kb bf fuel nd w = Ok (nd', r, true, w') -> node_nobt nd' = true.
  Definition commits_and (fuel : nat) : Prop :=
    forall ss nobt more head tail optail acc w nd' r w',
      and_loop kb bf fuel ss nobt more head tail optail acc w = Ok (nd', r, true, w') ->
      (acc = true -> nobt = true) -> node_nobt nd' = true.

  Lemma commits_all : forall fuel, commits_next fuel /\ commits_and fuel.
  Proof.
    induction fuel as [|f [IHn IHa]].
    { split; red; intros; match goal with H : _ = Ok _ |- _ => discriminate H end. }
    split.
    - intros nd w nd' r w' H. rewrite next_S in H. unfold next_body in H.
      destruct (node_nobt nd) eqn:Enb; [discriminate|].
      destruct nd as [t ss nobt child idx n|k ss nobt more head tail optail|fn ts ss nobt more].
      + exfalso. assert (true = false) as X; [|discriminate X].
        eapply (call_absorbs_cut (S f)). rewrite next_S. unfold next_body. rewrite Enb. exact H.
      + destruct k.
        * destruct tail as [t0|].
          -- dbind H as n1 o1 b1 w1 E1. destruct o1 as [s|].
             ++ inversion H; subst. simpl. apply orb_true_r.
             ++ eapply IHa; [exact H|]. intros ->. apply orb_true_r.
          -- eapply IHa; [exact H|discriminate].
        * destruct tail as [t0|].
          -- dbind H as n1 o1 b1 w1 E1. inversion H; subst. simpl. apply orb_true_r.
          -- destruct head as [h|]; [|discriminate].
             dbind H as n1 o1 b1 w1 E1. destruct o1 as [s|].
             ++ inversion H; subst. simpl. apply orb_true_r.
             ++ destruct optail as [tl|].
                ** destruct (length tl =? 0)%nat; [inversion H; subst; simpl; apply orb_true_r|].
                   destruct (nobt || b1) eqn:Ec; [inversion H; subst; reflexivity|].
                   dbind2 H as t1 w2 E2. dbind H as n3 o3 b3 w3 E3. inversion H; subst. simpl.
                   apply orb_false_iff in Ec as [-> ->]. simpl in *.
                   auto.
                ** inversion H; subst. simpl. apply orb_true_r.
        * destruct (negb more); [discriminate|]. destruct head as [h|]; [|discriminate].
          dbind H as n1 o1 b1 w1 E1. inversion H; subst. simpl. apply orb_true_r.
        * destruct (negb more); [discriminate|]. destruct head as [h|]; [|discriminate].
          dbind H as n1 o1 b1 w1 E1. inversion H; subst. simpl. apply orb_true_r.
      + destruct (negb more); [discriminate|]. dbind1 H as r1 E1. inversion H; subst. simpl.
        match goal with X : br_cut r1 = true |- _ => rewrite X end. apply orb_true_r.
    - intros ss nobt more head tail optail acc w nd' r w' H Hacc.
      rewrite and_loop_S in H. unfold and_body in H.
      destruct head as [h|].
      2:{ injection H as Hn Hr Hc Hw. rewrite <- Hn. simpl. auto. }
      dbind H as n1 o1 b1 w1 E1.
      assert (acc || b1 = true -> nobt || b1 = true) as Hstep.
      { intro X. apply orb_true_iff in X as [X|X]; [rewrite (Hacc X); reflexivity|rewrite X; apply orb_true_r]. }
      destruct o1 as [s|].
      + destruct optail as [tl|].
        2:{ injection H as Hn Hr Hc Hw. rewrite <- Hn. simpl. auto. }
        destruct (length tl =? 0)%nat.
        { injection H as Hn Hr Hc Hw. rewrite <- Hn. simpl. auto. }
        dbind2 H as t1 w2 E2. dbind H as n3 o3 b3 w3 E3.
        assert (acc || b1 || b3 = true -> nobt || b1 || b3 = true) as Hstep2.
        { intro X. apply orb_true_iff in X as [X|X]; [rewrite (Hstep X); reflexivity|rewrite X; apply orb_true_r]. }
        destruct o3 as [s2|].
        * injection H as Hn Hr Hc Hw. rewrite <- Hn. simpl. auto.
        * eapply IHa; [exact H|exact Hstep2].
      + injection H as Hn Hr Hc Hw. rewrite <- Hn. simpl. auto.
  Qed.
End Cut.

Theorem cut_commits kb bf fuel nd w nd' r w' :
  next kb bf fuel nd w = Ok (nd', r, true, w') -> node_nobt nd' = true.
Proof. apply (proj1 (commits_all kb bf fuel)). Qed.

(* ... and a committed node is dead: at most the answer being derived, nothing afterwards *)
Theorem cut_then_nothing_more kb bf fuel nd w nd' r w' :
  next kb bf fuel nd w = Ok (nd', r, true, w') ->
  forall m fuel2 w2 rs nd2 w3,
    ask_again kb bf fuel2 m nd' w2 = Ok (rs, nd2, w3) -> Forall (fun x => x = None) rs /\ w3 = w2.
Proof.
  intro H. apply cut_commits in H. apply dead_nobt in H. revert H. generalize nd'. clear.
  intros nd Hd m. revert nd Hd.
  induction m as [|m IH]; intros nd Hd fuel2 w2 rs nd2 w3 Ha; simpl in Ha.
  - inversion Ha; subst. split; [constructor|reflexivity].
  - destruct (next kb bf fuel2 nd w2) as [[[[n1 r1] c1] w1]| |] eqn:E; simpl in Ha; try discriminate.
    destruct (dead_stays _ _ _ _ _ _ _ _ _ Hd E) as (-> & -> & -> & Hd1).
    destruct (ask_again kb bf fuel2 m n1 w2) as [[[rs' nd'] w']| |] eqn:E2; simpl in Ha; try discriminate.
    inversion Ha; subst. destruct (IH _ Hd1 _ _ _ _ _ E2) as [Hf ->]. split; [constructor; auto|reflexivity].
Qed.

(* the call whose clause body ran the cut: committed as well (no later clause, no further answer) *)
Theorem cut_commits_the_call kb bf f t ss c0 idx n w c1 sol w1 nd' r c w' :
  next kb bf f c0 w = Ok (c1, sol, true, w1) ->
  next kb bf (S f) (NCall t ss false (Some c0) idx n) w = Ok (nd', r, c, w') ->
  node_nobt nd' = true /\ c = false /\ r = sol.
Proof.
  intros Hc H. rewrite next_S in H. unfold next_body in H. simpl in H. rewrite Hc in H. simpl in H.
  destruct sol as [s|].
  - inversion H; subst. auto.
  - destruct f as [|f']; [discriminate|]. rewrite call_loop_S in H. unfold call_body in H. simpl in H.
    inversion H; subst. auto.
Qed.
