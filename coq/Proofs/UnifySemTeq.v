(* The bridge from the syntactic specification (Spec/SpecUnify.v: `teq`, `unifier`) to values: on
   plain terms, terms that are `teq` under a plain substitution set have the same value under
   every valuation that solves it.  Hence the completeness statement of Spec/SpecUnify.v holds
   for every syntactic unifier that has a solution (is free of cycles through compound terms);
   as written there - for ANY unifier - it is false (Properties/C06sem.v). *)
From Coq Require Import Lia.
From Suiron Require Import Model.Term Model.Subst Model.Show Model.Lists Model.Arith Model.Unify
  Spec.SpecUnify Spec.SpecUnifySem Proofs.SubstLemmas Proofs.UnifyComplete Proofs.UnifySemSound
  Proofs.UnifySemFun.
Open Scope N_scope.

(* what can stand in a plain term at any position: a plain term, a list node in chain position
   (possibly a tail node), or the Nil marker *)
Definition pg (t : term) : bool := is_nil t || pl false t || pl true t.

Lemma plain_pg t : plain t = true -> pg t = true.
Proof. unfold plain, pg. intros ->. now rewrite orb_true_r. Qed.
Lemma chain_pg t : pl true t = true -> pg t = true.
Proof. unfold pg. intros ->. now rewrite orb_true_r. Qed.
Lemma plain_not_nil t : plain t = true -> is_nil t = false.
Proof. destruct t; try reflexivity. discriminate. Qed.

Lemma pg_list_inv h nx c : pg (TList h nx c false) = true ->
  (is_nil h = true /\ is_nil nx = true) \/ (is_nil h = false /\ plain h = true /\ pl true nx = true).
Proof.
  unfold pg, plain. cbn [is_nil orb pl]. destruct (is_nil h).
  - rewrite orb_diag. auto.
  - rewrite orb_diag. intro H. apply andb_true_iff in H. auto.
Qed.

Lemma pg_tail_inv h nx c : pg (TList h nx c true) = true -> is_var h = true.
Proof. unfold pg. cbn. auto. Qed.

Section Bridge.
  Variable ss : subst.
  Variable sigma : valuation.
  Hypothesis Hplain : plain_ss ss.
  Hypothesis Hsolves : solves sigma ss.

  Definition P (a b : term) : Prop :=
    pg a = true -> pg b = true -> is_nil a = is_nil b /\ den sigma a = den sigma b.
  Definition P0 (ls rs : list term) : Prop :=
    forallb plain ls = true -> forallb plain rs = true -> map (den sigma) ls = map (den sigma) rs.

  Lemma var_is_pg id n : pg (TVar id n) = true.
  Proof. reflexivity. Qed.

  Theorem teq_den : forall a b, teq ss a b -> P a b.
  Proof.
    apply (teq_mut ss (fun a b _ => P a b) (fun ls rs _ => P0 ls rs)); unfold P, P0.
    - intros b Ga; discriminate Ga.
    - intros a _ Gb; discriminate Gb.
    - auto.
    - auto.
    - auto.
    - intros f1 f2 [->|E] _ _; [auto|]. split; [reflexivity|]. cbn [den]. f_equal. now apply feqb_fkey.
    - auto.
    - intros id n t b Eg _ IH _ Gb.
      destruct (IH (plain_pg _ (Hplain _ _ Eg)) Gb) as [N D].
      rewrite (plain_not_nil _ (Hplain _ _ Eg)) in N. split; [exact N|].
      cbn [den]. now rewrite (Hsolves _ _ Eg).
    - intros id n t a Eg _ IH Ga _.
      destruct (IH Ga (plain_pg _ (Hplain _ _ Eg))) as [N D].
      rewrite (plain_not_nil _ (Hplain _ _ Eg)) in N. split; [exact N|].
      cbn [den]. now rewrite (Hsolves _ _ Eg).
    - intros ls rs _ IH Ga Gb. split; [reflexivity|].
      assert (plain (TComplex ls) = true) as Pa by (unfold pg in Ga; cbn in Ga; unfold plain; destruct ls as [|[] ?]; try discriminate Ga; cbn in *; now rewrite orb_false_r in Ga).
      assert (plain (TComplex rs) = true) as Pb by (unfold pg in Gb; cbn in Gb; unfold plain; destruct rs as [|[] ?]; try discriminate Gb; cbn in *; now rewrite orb_false_r in Gb).
      destruct (plain_complex_inv _ Pa) as (sa & ra & -> & Pra).
      destruct (plain_complex_inv _ Pb) as (sb & rb & -> & Prb).
      cbn [den]. f_equal. apply IH; cbn [forallb]; [rewrite Pra|rewrite Prb]; reflexivity.
    - intros. split; reflexivity.
    - intros h1 n1 c1 h2 n2 c2 _ IHh _ IHn Ga Gb. split; [reflexivity|].
      destruct (pg_list_inv _ _ _ Ga) as [[A1 A2]|(A1 & A2 & A3)], (pg_list_inv _ _ _ Gb) as [[B1 B2]|(B1 & B2 & B3)].
      + cbn [den]. now rewrite A1, B1.
      + destruct h1; try discriminate A1. destruct (IHh eq_refl (plain_pg _ B2)) as [N _].
        rewrite B1 in N. discriminate N.
      + destruct h2; try discriminate B1. destruct (IHh (plain_pg _ A2) eq_refl) as [N _].
        rewrite A1 in N. discriminate N.
      + cbn [den]. rewrite A1, B1.
        destruct (IHh (plain_pg _ A2) (plain_pg _ B2)) as [_ ->].
        destruct (IHn (chain_pg _ A3) (chain_pg _ B3)) as [_ ->]. reflexivity.
    - intros h1 n1 c1 h2 n2 c2 _ IH Ga Gb. split; [reflexivity|].
      pose proof (pg_tail_inv _ _ _ Ga) as V. destruct h1; try discriminate V.
      destruct (IH eq_refl Gb) as [_ D]. cbn [den] in *. exact D.
    - intros h1 n1 c1 h2 n2 c2 _ IH Ga Gb. split; [reflexivity|].
      pose proof (pg_tail_inv _ _ _ Gb) as V. destruct h2; try discriminate V.
      destruct (IH Ga eq_refl) as [_ D]. cbn [den] in *. exact D.
    - intros h1 n1 c1 h2 n2 c2 _ IH Ga Gb. split; [reflexivity|].
      pose proof (pg_tail_inv _ _ _ Ga) as V1. pose proof (pg_tail_inv _ _ _ Gb) as V2.
      destruct h1; try discriminate V1. destruct h2; try discriminate V2.
      destruct (IH eq_refl eq_refl) as [_ D]. cbn [den] in *. exact D.
    - intros _ _. reflexivity.
    - intros l r ls rs _ IHl _ IHs Pl Pr. cbn [forallb] in Pl, Pr.
      apply andb_true_iff in Pl as [Pl1 Pl2]. apply andb_true_iff in Pr as [Pr1 Pr2].
      cbn [map]. f_equal; [|auto]. apply IHl; apply plain_pg; assumption.
  Qed.
End Bridge.

(* C06, completeness in the vocabulary of Spec/SpecUnify.v: unify does not fail when a syntactic
   unifier exists that has a solution *)
Theorem unify_complete_solvable : forall fuel a b ss r,
  plain a = true -> plain b = true -> plain_ss ss ->
  unify fuel a b ss = Ok r ->
  (exists s' sigma, unifier s' ss a b /\ plain_ss s' /\ solves sigma s') ->
  exists ss', r = Some ss'.
Proof.
  intros fuel a b ss r Pa Pb Ps H (s' & sigma & [K T] & Ps' & Hs').
  destruct (teq_den s' sigma Ps' Hs' a b T (plain_pg _ Pa) (plain_pg _ Pb)) as [_ D].
  destruct (unify_general_complete_fun fuel a b ss r sigma Pa Pb Ps H (solves_keeps _ _ _ K Hs') D)
    as (ss' & -> & _). eauto.
Qed.
