(* C21 closed, with a condition on the layout that can be checked by eye: every line break of a
   rule stands immediately after one of the separators of the canonical text -  ,  ;  =  and the
   neck :-  - in place of the single space that follows it.
     - in the text of a closed rule each of these separators is followed by exactly one space and
       then by a character that is not white space (`arun`, an automaton over the text, proved
       from the grammar of the texts);
     - hence a layout that cuts only there (`breaks_at_separators`) is an `exact_layout` of C21:
       the reader's single space at each break restores the text. *)
From Coq Require Import Lia String.
From Suiron Require Import Model.Tokenizer Model.ParseRule Proofs.TokenizerStream Proofs.TokenizerProofs
  Proofs.GoalRoundtrip.
From Suiron Require Import Model.ParseTerm Model.ParseGoal Model.Show Model.ShowGoal Model.Api.
From Suiron Require Import Proofs.ParseTermProofs Proofs.ParseRoundtrip.
From Suiron Require Import Proofs.TermRoundtrip Proofs.TermRoundtripText Proofs.TermRoundtripComplex
  Proofs.TermRoundtripList Proofs.TermRoundtripMain Proofs.GoalLeafText Proofs.GoalLeafParse
  Proofs.RuleRoundtripClosed Proofs.LoadClosed.
From Suiron Require Import Model.Reader Spec.SpecLoad Proofs.ReaderProofs.
Open Scope N_scope.

(* ---- the separators ---- *)
(* c, read after prev, is a separator: , ; = or the - of the neck :- *)
Definition sepc (prev c : N) : bool :=
  (c =? 44) || (c =? 59) || (c =? 61) || ((c =? 45) && (prev =? 58)).

(* the automaton: 0 = in the text, 1 = a separator has just been read (a space must follow),
   2 = separator and space read (a character that is not white space must follow) *)
Definition astep (st : nat * N) (c : N) : option (nat * N) :=
  match fst st with
  | 1%nat => if c =? 32 then Some (2%nat, c) else None
  | 2%nat => if rd_is_ws c then None else Some (if sepc (snd st) c then 1%nat else 0%nat, c)
  | _ => Some (if sepc (snd st) c then 1%nat else 0%nat, c)
  end.

Fixpoint arun (st : nat * N) (s : str) : option (nat * N) :=
  match s with
  | [] => Some st
  | c :: tl => match astep st c with Some st' => arun st' tl | None => None end
  end.

Lemma arun_app a : forall st b,
  arun st (a ++ b) = match arun st a with Some st' => arun st' b | None => None end.
Proof.
  induction a as [|c a IH]; intros st b; [reflexivity|].
  cbn [app arun]. destruct (astep st c); [apply IH|reflexivity].
Qed.

(* a component of the text: read from state 0 or 2 after a character that is not a colon, it ends
   in state 0 *)
Record acr (X : str) : Prop := mkAcr {
  ac_ne : X <> [];
  ac_last : last X 0 <> 58;
  ac_run : forall st p, st = 0%nat \/ st = 2%nat -> p <> 58 ->
           arun (st, p) X = Some (0%nat, last X 0) }.

(* a separator text: read from state 0 it ends in state 0 or 2 *)
Definition asep (S : str) : Prop :=
  exists st' p', (st' = 0%nat \/ st' = 2%nat) /\ p' <> 58 /\
    forall p, p <> 58 -> arun (0%nat, p) S = Some (st', p').

Definition nosepc (c : N) : bool :=
  negb (c =? 44) && negb (c =? 59) && negb (c =? 61) && negb (c =? 58).

Lemma nosepc_facts p c : nosepc c = true -> p <> 58 -> sepc p c = false /\ c <> 58.
Proof.
  unfold nosepc, sepc. intros H Hp.
  apply andb_true_iff in H as [H H4]. apply andb_true_iff in H as [H H3].
  apply andb_true_iff in H as [H1 H2]. apply negb_true_iff in H1, H2, H3, H4.
  rewrite H1, H2, H3. apply N.eqb_neq in Hp. rewrite Hp. rewrite andb_false_r.
  split; [reflexivity|now apply N.eqb_neq].
Qed.

Lemma arun_plain X : Forall (fun c => nosepc c = true) X -> forall p, p <> 58 ->
  arun (0%nat, p) X = Some (0%nat, last X p) /\ last X p <> 58.
Proof.
  induction X as [|c X IH]; intros H p Hp; [split; [reflexivity|exact Hp]|].
  inversion H as [|x l Hc HX]; subst. destruct (nosepc_facts p c Hc Hp) as [Es Hc58].
  cbn [arun astep fst snd]. rewrite Es.
  destruct (IH HX c Hc58) as [IH1 IH2].
  assert (E : last (c :: X) p = last X c).
  { destruct X as [|y X']; [reflexivity|].
    change (last (c :: y :: X') p) with (last (y :: X') p).
    rewrite (last_default (y :: X') p 0), (last_default (y :: X') c 0) by discriminate. reflexivity. }
  rewrite E. split; assumption.
Qed.

Lemma acr_plain X : X <> [] -> rd_is_ws (hd 0 X) = false ->
  Forall (fun c => nosepc c = true) X -> acr X.
Proof.
  intros Hne Hh Hall. destruct X as [|c X]; [now elim Hne|]. cbn [hd] in Hh.
  inversion Hall as [|x l Hc HX]; subst.
  assert (Hl : forall p, last (c :: X) p = last X c).
  { intros p. destruct X as [|y X']; [reflexivity|].
    change (last (c :: y :: X') p) with (last (y :: X') p).
    rewrite (last_default (y :: X') p 0), (last_default (y :: X') c 0) by discriminate. reflexivity. }
  assert (Hc58 : c <> 58) by (apply (nosepc_facts 0 c Hc); discriminate).
  destruct (arun_plain X HX c Hc58) as [R1 R2].
  constructor.
  - discriminate.
  - rewrite Hl. exact R2.
  - intros st p Hst Hp. destruct (nosepc_facts p c Hc Hp) as [Es _].
    rewrite Hl. destruct Hst as [-> | ->]; cbn [arun astep fst snd]; rewrite ?Hh, Es; exact R1.
Qed.

Lemma last_app_ne {A} (a b : list A) d : b <> [] -> last (a ++ b) d = last b d.
Proof. apply last_app_nonempty. Qed.

Lemma acr_app a b : acr a -> acr b -> acr (a ++ b).
Proof.
  intros [A1 A2 A3] [B1 B2 B3]. constructor.
  - destruct a; [now elim A1|discriminate].
  - rewrite last_app_ne by exact B1. exact B2.
  - intros st p Hst Hp. rewrite arun_app, (A3 st p Hst Hp).
    rewrite last_app_ne by exact B1. apply B3; [now left|exact A2].
Qed.

Lemma acr_app_sep a S b : acr a -> asep S -> acr b -> acr (a ++ S ++ b).
Proof.
  intros [A1 A2 A3] (st' & p' & Hst' & Hp' & HS) [B1 B2 B3]. constructor.
  - destruct a; [now elim A1|discriminate].
  - rewrite app_assoc, last_app_ne by exact B1. exact B2.
  - intros st p Hst Hp. rewrite arun_app, (A3 st p Hst Hp). rewrite arun_app, (HS _ A2).
    rewrite app_assoc, last_app_ne by exact B1. now apply B3.
Qed.

Lemma asep_comma : asep sep_comma.
Proof.
  exists 2%nat, 32. split; [now right|]. split; [discriminate|]. intros p Hp.
  cbn [sep_comma arun astep fst snd]. unfold sepc. cbn. reflexivity.
Qed.
Lemma asep_semicolon : asep sep_semicolon.
Proof.
  exists 2%nat, 32. split; [now right|]. split; [discriminate|]. intros p Hp.
  cbn [sep_semicolon arun astep fst snd]. unfold sepc. cbn. reflexivity.
Qed.
Lemma asep_equals : asep [32; c_eq; 32].
Proof.
  exists 2%nat, 32. split; [now right|]. split; [discriminate|]. intros p Hp.
  cbn [arun astep fst snd]. unfold sepc. apply N.eqb_neq in Hp. cbn. reflexivity.
Qed.
Lemma asep_neck : asep neck.
Proof.
  exists 2%nat, 32. split; [now right|]. split; [discriminate|]. intros p Hp.
  cbn [neck arun astep fst snd]. unfold sepc. cbn. reflexivity.
Qed.
Lemma asep_bar : asep sep_bar.
Proof.
  exists 0%nat, 32. split; [now left|]. split; [discriminate|]. intros p Hp.
  cbn [sep_bar arun astep fst snd]. unfold sepc. cbn. reflexivity.
Qed.

(* ---- the texts of terms ---- *)
Lemma tchar_plain_or_comma c : tchar c = true -> nosepc c = true \/ c = c_comma.
Proof.
  intros H. apply tchar_cases in H.
  destruct H as [H|[->|[->|[->|[->|[->|[->| ->]]]]]]]; try (left; reflexivity); [|now right].
  left. apply wchar_range in H. unfold nosepc.
  assert (E1 : (c =? 44) = false) by (apply N.eqb_neq; lia).
  assert (E2 : (c =? 59) = false) by (apply N.eqb_neq; lia).
  assert (E3 : (c =? 61) = false) by (apply N.eqb_neq; lia).
  assert (E4 : (c =? 58) = false) by (apply N.eqb_neq; lia).
  now rewrite E1, E2, E3, E4.
Qed.

Lemma wchars_nosepc w : Forall (fun c => wchar c = true) w -> Forall (fun c => nosepc c = true) w.
Proof.
  intros H. eapply Forall_impl; [|exact H]. intros c Hc.
  destruct (tchar_plain_or_comma c (wchar_tchar c Hc)) as [E| ->]; [exact E|discriminate Hc].
Qed.

Lemma printable_nows c : printable c -> rd_is_ws c = false.
Proof. apply printable_not_rd_ws. Qed.

Lemma acr_word w : word w -> acr w.
Proof.
  intros Hw. pose proof Hw as (Hne & Hall & _). apply acr_plain; [exact Hne| |now apply wchars_nosepc].
  pose proof (word_hd w Hw) as Hh. apply wchar_range in Hh. apply printable_nows. unfold printable. lia.
Qed.

Lemma acr_char c : printable c -> nosepc c = true -> acr [c].
Proof.
  intros Hp Hc. apply acr_plain; [discriminate|now apply printable_nows|]. constructor; [exact Hc|constructor].
Qed.

Lemma acr_join ps : ps <> [] -> (forall p, In p ps -> acr p) -> acr (join_strs sep_comma ps).
Proof.
  induction ps as [|p ps IH]; intros Hne H; [now elim Hne|].
  destruct ps as [|q rest]; [cbn [join_strs]; apply H; now left|].
  rewrite join_strs_cons2. apply acr_app_sep; [apply H; now left|apply asep_comma|].
  apply IH; [discriminate|]. intros x Hx. apply H. now right.
Qed.

(* open ++ body ++ close, the body possibly empty *)
Lemma acr_enclosed o c ps : printable o -> nosepc o = true -> printable c -> nosepc c = true ->
  (forall p, In p ps -> acr p) -> acr (o :: join_strs sep_comma ps ++ [c]).
Proof.
  intros Ho1 Ho2 Hc1 Hc2 H. change (o :: join_strs sep_comma ps ++ [c]) with ([o] ++ join_strs sep_comma ps ++ [c]).
  apply acr_app; [now apply acr_char|]. destruct ps as [|p ps'].
  - cbn [join_strs app]. now apply acr_char.
  - apply acr_app; [apply acr_join; [discriminate|exact H]|now apply acr_char].
Qed.

Theorem gtext_acr s : gtext s -> acr s.
Proof.
  induction 1 as [w Hw|w Hw|f ps Hf Hps IH|ps Hps IH|ps v Hps IH Hv].
  - now apply acr_word.
  - destruct (wide_atom_facts w Hw) as (Hne & Hh & Hall & _).
    apply acr_plain; [exact Hne| |].
    + apply ident_char_range in Hh. apply printable_nows. unfold printable. lia.
    + eapply Forall_impl; [|exact Hall]. intros c Hc.
      destruct (tchar_plain_or_comma c (achar_tchar c Hc)) as [E| ->]; [exact E|discriminate Hc].
  - unfold call_text. apply acr_app; [apply acr_word; now apply simple_atom_word|].
    apply acr_enclosed; try reflexivity; try (unfold printable, c_lpar, c_rpar; lia). exact IH.
  - unfold list_text. apply acr_enclosed; try reflexivity; try (unfold printable, c_lbr, c_rbr; lia). exact IH.
  - unfold list_text_bar.
    change (c_lbr :: (join_strs sep_comma ps ++ sep_bar ++ v) ++ [c_rbr])
      with ([c_lbr] ++ (join_strs sep_comma ps ++ sep_bar ++ v) ++ [c_rbr]).
    assert (Hb : acr [c_lbr]) by (apply acr_char; [unfold printable, c_lbr; lia|reflexivity]).
    assert (He : acr [c_rbr]) by (apply acr_char; [unfold printable, c_rbr; lia|reflexivity]).
    destruct ps as [|p ps'].
    + change ([c_lbr] ++ (join_strs sep_comma [] ++ sep_bar ++ v) ++ [c_rbr])
        with (([c_lbr] ++ sep_bar ++ v) ++ [c_rbr]).
      apply acr_app; [|exact He]. apply acr_app_sep; [exact Hb|apply asep_bar|now apply acr_word].
    + apply acr_app; [exact Hb|]. apply acr_app; [|exact He].
      apply acr_app_sep; [apply acr_join; [discriminate|exact IH]|apply asep_bar|now apply acr_word].
Qed.

(* ---- the texts of leaves, goals, rules ---- *)
Lemma acr_wrap name u : simple_atom name = true -> acr u -> acr (name ++ c_lpar :: u ++ [c_rpar]).
Proof.
  intros Hn Hu. apply acr_app; [apply acr_word; now apply simple_atom_word|].
  change (c_lpar :: u ++ [c_rpar]) with ([c_lpar] ++ u ++ [c_rpar]).
  apply acr_app; [apply acr_char; [unfold printable, c_lpar; lia|reflexivity]|].
  apply acr_app; [exact Hu|apply acr_char; [unfold printable, c_rpar; lia|reflexivity]].
Qed.

Lemma closed_leaf_acr l : closed_leaf l -> acr (leaf_text l).
Proof.
  induction 1 as [f ts Hf Hne Hc|f Hf|name ts Hn Hne Hc|l r Hl Hr| | | |l Hl IH Hu|l Hl IH Hu].
  - destruct (goal_functor_facts f Hf) as (Hs & _).
    unfold leaf_text. cbn [show_goal]. rewrite show_complex_text.
    apply gtext_acr. apply gt_call; [exact Hs|now apply args_gtext].
  - destruct (goal_functor0_facts f Hf) as (Hs & _).
    change (leaf_text (GCall (TComplex [TAtom f]))) with (call_text f []).
    apply gtext_acr. apply gt_call; [exact Hs|intros p []].
  - unfold bip_name in Hn. apply andb_true_iff in Hn as [Hb Hnu]. apply negb_true_iff in Hnu.
    destruct (bip_facts name Hb) as (Hs & _).
    unfold leaf_text. cbn [show_goal show_bip]. fold g_unify. rewrite Hnu, format_built_in_text.
    apply gtext_acr. apply gt_call; [exact Hs|now apply args_gtext].
  - change (leaf_text (GBip g_unify (Some [l; r]))) with (show_term l ++ [32; c_eq; 32] ++ show_term r).
    apply acr_app_sep; [apply gtext_acr; now apply canonical_gtext|apply asep_equals|
                        apply gtext_acr; now apply canonical_gtext].
  - change (leaf_text (GBip g_bang None)) with [33]. apply acr_char; [unfold printable; lia|reflexivity].
  - change (leaf_text (GBip g_fail None)) with [102; 97; 105; 108].
    apply acr_plain; [discriminate|reflexivity|repeat constructor].
  - change (leaf_text (GBip g_nl None)) with [110; 108].
    apply acr_plain; [discriminate|reflexivity|repeat constructor].
  - destruct (closed_leaf_facts l Hl) as (u & [Hs _ _ _]).
    unfold leaf_text in *. cbn [show_goal]. rewrite Hs in *. cbn [bind].
    change (s2l "not(" ++ u ++ [41]) with (g_not ++ c_lpar :: u ++ [c_rpar]).
    now apply acr_wrap.
  - destruct (closed_leaf_facts l Hl) as (u & [Hs _ _ _]).
    unfold leaf_text in *. cbn [show_goal]. rewrite Hs in *. cbn [bind].
    change (s2l "time(" ++ u ++ [41]) with (g_time ++ c_lpar :: u ++ [c_rpar]).
    now apply acr_wrap.
Qed.

Lemma acr_fl_go sep : asep sep -> forall l, l <> [] -> (forall op, In op l -> acr op) ->
  acr (fl_go sep true l).
Proof.
  intros Hsep l Hne H. destruct l as [|x l]; [now elim Hne|].
  rewrite fl_go_cons.
  assert (K : forall l, (forall op, In op l -> acr op) -> forall a, acr a -> acr (a ++ fl_go sep false l)).
  { clear -Hsep. intros l. induction l as [|y l IH]; intros H a Ha.
    - change (fl_go sep false []) with (@nil N). now rewrite app_nil_r.
    - rewrite fl_go_cons. rewrite app_assoc. apply IH; [intros op Hop; apply H; now right|].
      apply acr_app_sep; [exact Ha|exact Hsep|apply H; now left]. }
  apply K; [intros op Hop; apply H; now right|apply H; now left].
Qed.

Lemma acr_operand ga x s : acr s -> acr (operand_text ga x s).
Proof.
  intros H. unfold operand_text. destruct (needs_group ga x); [|exact H].
  apply acr_app; [apply acr_char; [unfold printable; lia|reflexivity]|].
  apply acr_app; [exact H|apply acr_char; [unfold printable; lia|reflexivity]].
Qed.

Lemma closed_goal_acr g : closed_goal g -> acr (text g).
Proof.
  induction 1 as [l Hl|gs Hlen Hgs IH|gs Hlen Hgs IH].
  - rewrite (text_leaf l (closed_leaf_is_leaf l Hl)). now apply closed_leaf_acr.
  - rewrite text_and. apply acr_fl_go; [apply asep_comma| |].
    + destruct gs; [cbn in Hlen; lia|discriminate].
    + intros op Hop. apply in_map_iff in Hop as (x & <- & Hx). apply acr_operand. now apply IH.
  - rewrite text_or. apply acr_fl_go; [apply asep_semicolon| |].
    + destruct gs; [cbn in Hlen; lia|discriminate].
    + intros op Hop. apply in_map_iff in Hop as (x & <- & Hx). apply acr_operand. now apply IH.
Qed.

Lemma closed_head_acr h : closed_head h -> acr (show_term h).
Proof.
  intros [f ts Hf Hne Hc Hlen|f Hf Hlen].
  - rewrite show_complex_text. destruct (goal_functor_facts f Hf) as (Hs & _).
    apply gtext_acr. apply gt_call; [exact Hs|now apply args_gtext].
  - change (show_term (TComplex [TAtom f])) with (call_text f []).
    destruct (goal_functor0_facts f Hf) as (Hs & _).
    apply gtext_acr. apply gt_call; [exact Hs|intros p []].
Qed.

(* the text of a closed rule: the automaton accepts it, it starts with a character that is not
   white space and ends with the period *)
Theorem closed_rule_arun r : closed_rule r ->
  arun (0%nat, ch_x) (rule_text r) = Some (0%nat, ch_period) /\
  rd_is_ws (hd 0 (rule_text r)) = false /\ last (rule_text r) 0 = ch_period.
Proof.
  intros [Hh Hb]. pose proof (closed_head_acr _ Hh) as Ah.
  pose proof (closed_head_text _ Hh) as Lt.
  assert (Ad : acr [ch_period]) by (apply acr_char; [unfold printable, ch_period; lia|reflexivity]).
  assert (A : acr (rule_text r)).
  { unfold rule_text. destruct Hb as [Hb|Hb].
    - rewrite Hb. cbn [goal_eqb]. now apply acr_app.
    - destruct (closed_goal_facts _ Hb) as [_ Hcan].
      rewrite (canonical_not_nil _ _ (Hcan _ (le_n _))).
      apply acr_app_sep; [exact Ah|apply asep_neck|]. apply acr_app; [now apply closed_goal_acr|exact Ad]. }
  assert (Hlast : last (rule_text r) 0 = ch_period).
  { unfold rule_text. destruct (goal_eqb (r_body r) GNil).
    - apply last_last.
    - rewrite !app_assoc. apply last_last. }
  split; [|split; [|exact Hlast]].
  - rewrite <- Hlast. apply (ac_run _ A); [now left|discriminate].
  - unfold rule_text. pose proof (lt_ne _ Lt) as Hne. pose proof (lt_hd _ Lt) as Hhd.
    destruct (show_term (r_head r)) as [|c0 r0]; [now elim Hne|].
    destruct (goal_eqb (r_body r) GNil); cbn [app hd]; now apply printable_nows.
Qed.

(* ---- layouts that break only after a separator ---- *)
Definition ends_with_sep (b : str) : bool :=
  match rev b with
  | c :: p :: _ => sepc p c
  | [c] => sepc ch_x c
  | [] => false
  end.

(* the cut positions of a rule layout (Spec/SpecLoad.v: the lengths of the pieces) *)
Fixpoint cuts_ok (more : list (nat * deco)) (s : str) : bool :=
  match more with
  | [] => true
  | (n, _) :: more' => ends_with_sep (firstn n s) && cuts_ok more' (skipn n s)
  end.

Fixpoint breaks_ok (rls : list rule_layout) (texts : list str) : bool :=
  match rls, texts with
  | rl :: rls', t :: texts' => cuts_ok (snd rl) t && breaks_ok rls' texts'
  | _, _ => true
  end.

(* every piece of every rule but the last ends with , ; = or :- *)
Definition breaks_at_separators (L : layout) (texts : list str) : bool :=
  breaks_ok (lay_rules L) texts.

Lemma sepc_facts p c : sepc p c = true -> rd_is_ws c = false /\ (c =? 32) = false.
Proof.
  unfold sepc. intros H.
  repeat (apply orb_true_iff in H as [H|H]); try (apply N.eqb_eq in H; subst c; split; reflexivity).
  apply andb_true_iff in H as [H _]. apply N.eqb_eq in H. subst c. split; reflexivity.
Qed.

Lemma sepc_any c : sepc ch_x c = true -> forall q, sepc q c = true.
Proof.
  unfold sepc. intros H q. change (ch_x =? 58) with false in H. rewrite andb_false_r, orb_false_r in H.
  rewrite H. reflexivity.
Qed.

Lemma arun_snd a : forall st st', arun st a = Some st' -> snd st' = last a (snd st).
Proof.
  induction a as [|c a IH]; intros st st' H.
  - cbn in H. inversion H. reflexivity.
  - cbn [arun] in H. destruct (astep st c) as [st1|] eqn:E; [|discriminate].
    rewrite (IH _ _ H).
    assert (E1 : snd st1 = c).
    { unfold astep in E. destruct (fst st) as [|[|[|k]]];
        try (destruct (c =? 32)); try (destruct (rd_is_ws c)); inversion E; reflexivity. }
    rewrite E1. destruct a as [|y a']; [reflexivity|].
    change (last (c :: y :: a') (snd st)) with (last (y :: a') (snd st)).
    rewrite (last_default (y :: a') c 0), (last_default (y :: a') (snd st) 0) by discriminate. reflexivity.
Qed.

Lemma ends_with_sep_split a : ends_with_sep a = true ->
  exists a0 c, a = a0 ++ [c] /\ forall q, sepc (last a0 q) c = true.
Proof.
  unfold ends_with_sep. intros H.
  destruct (rev a) as [|c [|p r]] eqn:E; [discriminate| |].
  - exists [], c. split; [|intros q; now apply sepc_any].
    rewrite <- (rev_involutive a), E. reflexivity.
  - exists (rev (p :: r)), c. split.
    + rewrite <- (rev_involutive a), E. reflexivity.
    + intros q. cbn [rev]. now rewrite last_last.
Qed.

Lemma arun_last_sep st a0 c st1 :
  arun st (a0 ++ [c]) = Some st1 -> sepc (last a0 (snd st)) c = true -> st1 = (1%nat, c).
Proof.
  intros H Hs. rewrite arun_app in H. destruct (arun st a0) as [[s0 p0]|] eqn:E; [|discriminate].
  pose proof (arun_snd a0 _ _ E) as Hp. cbn [snd] in Hp. subst p0.
  destruct (sepc_facts _ _ Hs) as [Hw H32].
  cbn [arun] in H. destruct s0 as [|[|[|k]]]; unfold astep in H; cbn [fst snd] in H.
  - rewrite Hs in H. now inversion H.
  - rewrite H32 in H. discriminate.
  - rewrite Hw, Hs in H. now inversion H.
  - rewrite Hs in H. now inversion H.
Qed.

Lemma arun_from1 p s st' : arun (1%nat, p) s = Some st' ->
  (s = [] /\ st' = (1%nat, p)) \/ exists m, s = 32 :: m /\ arun (2%nat, 32) m = Some st'.
Proof.
  destruct s as [|c m]; intros H.
  - left. cbn in H. inversion H. auto.
  - right. cbn [arun astep fst] in H. destruct (c =? 32) eqn:E; [|discriminate].
    apply N.eqb_eq in E. subst c. eauto.
Qed.

Lemma arun_from2 p m st' : arun (2%nat, p) m = Some st' ->
  (m = [] /\ st' = (2%nat, p)) \/ exists x m', m = x :: m' /\ rd_is_ws x = false.
Proof.
  destruct m as [|x m']; intros H.
  - left. cbn in H. inversion H. auto.
  - right. cbn [arun astep fst] in H. destruct (rd_is_ws x) eqn:E; [discriminate|]. eauto.
Qed.

Lemma rd_trim_id m : m <> [] -> rd_is_ws (hd 0 m) = false -> rd_is_ws (last m 0) = false ->
  rd_trim m = m.
Proof.
  intros Hne Hh Hl. unfold rd_trim, rd_trim_end.
  assert (E1 : rd_trim_start m = m).
  { destruct m as [|c r]; [now elim Hne|]. cbn [hd] in Hh. cbn [rd_trim_start]. now rewrite Hh. }
  rewrite E1.
  assert (E2 : rd_trim_start (rev m) = rev m).
  { pose proof (hd_rev m 0) as Hr. rewrite <- Hr in Hl.
    destruct (rev m) as [|c r] eqn:E; [reflexivity|]. cbn [hd] in Hl. cbn [rd_trim_start]. now rewrite Hl. }
  rewrite E2. apply rev_involutive.
Qed.

Lemma str_eqb_same a b : a = b -> str_eqb a b = true.
Proof. intros ->. apply str_eqb_refl. Qed.

Lemma last_skipn_ne (s : str) n d : skipn n s <> [] -> last (skipn n s) d = last s d.
Proof.
  intros H. rewrite <- (firstn_skipn n s) at 2. now rewrite last_app_ne.
Qed.

(* the pieces of a rule cut at separators are "exact" *)
Lemma exact_from more : forall d s st first,
  arun st s = Some (0%nat, ch_period) -> last s 0 = ch_period ->
  (first = true /\ fst st = 0%nat /\ s <> [] /\ rd_is_ws (hd 0 s) = false) \/
  (first = false /\ fst st = 1%nat) ->
  cuts_ok more s = true -> exact_pieces first (lay d more s) = true.
Proof.
  induction more as [|[n d'] more IH]; intros d s st first Hrun Hlast Hst Hcuts.
  - cbn [lay exact_pieces]. rewrite andb_true_r.
    destruct Hst as [(-> & _ & Hne & Hh)|(-> & Hs1)]; cbn [body_exact snd].
    + apply str_eqb_same. apply rd_trim_id; [exact Hne|exact Hh|now rewrite Hlast].
    + destruct st as [s0 p]. cbn [fst] in Hs1. subst s0.
      destruct (arun_from1 _ _ _ Hrun) as [[_ E]|(m & -> & Hm)]; [discriminate|].
      destruct (arun_from2 _ _ _ Hm) as [[_ E]|(x & m' & -> & Hx)]; [discriminate|].
      change (ch_space) with 32. rewrite N.eqb_refl. cbn [andb].
      apply str_eqb_same. apply rd_trim_id; [discriminate|exact Hx|].
      change (last (32 :: x :: m') 0) with (last (x :: m') 0) in Hlast. now rewrite Hlast.
  - cbn [cuts_ok] in Hcuts. apply andb_true_iff in Hcuts as [Hsep Hcuts].
    cbn [lay exact_pieces snd].
    set (a := firstn n s) in *. set (b := skipn n s) in *.
    assert (Hs : s = a ++ b) by (unfold a, b; now rewrite firstn_skipn).
    destruct (ends_with_sep_split a Hsep) as (a0 & c & Ea & Hc).
    rewrite Hs, arun_app in Hrun.
    destruct (arun st a) as [st1|] eqn:Ra; [|discriminate].
    assert (Est1 : st1 = (1%nat, c)).
    { rewrite Ea in Ra. apply (arun_last_sep st a0 c st1 Ra). apply Hc. }
    subst st1.
    destruct (sepc_facts _ _ (Hc 0)) as [Hcw _].
    assert (Hbne : b <> []).
    { intros E. rewrite E in Hrun. cbn in Hrun. discriminate. }
    assert (Hlb : last b 0 = ch_period).
    { unfold b. rewrite last_skipn_ne by exact Hbne. exact Hlast. }
    assert (Hla : last a 0 = c) by (rewrite Ea; apply last_last).
    apply andb_true_iff. split.
    + destruct Hst as [(-> & _ & Hne & Hh)|(-> & Hs1)]; cbn [body_exact].
      * apply str_eqb_same. apply rd_trim_id.
        -- rewrite Ea. destruct a0; discriminate.
        -- assert (Ha : a <> []) by (rewrite Ea; destruct a0; discriminate).
           rewrite Hs in Hh. destruct a; [now elim Ha|exact Hh].
        -- now rewrite Hla.
      * destruct st as [s0 p]. cbn [fst] in Hs1. subst s0.
        destruct (arun_from1 _ _ _ Ra) as [[E _]|(m & Em & Hm)].
        { rewrite Ea in E. destruct a0; discriminate. }
        rewrite Em. change ch_space with 32. rewrite N.eqb_refl. cbn [andb].
        destruct (arun_from2 _ _ _ Hm) as [[_ E]|(x & m' & Em' & Hx)]; [discriminate|].
        apply str_eqb_same. apply rd_trim_id; [rewrite Em'; discriminate|now rewrite Em'|].
        assert (El : last m 0 = last a 0).
        { rewrite Em, Em'. reflexivity. }
        now rewrite El, Hla.
    + apply (IH d' b (1%nat, c) false); [exact Hrun|exact Hlb|right; split; reflexivity|exact Hcuts].
Qed.

Theorem breaks_exact : forall rs rls,
  Forall closed_rule rs -> breaks_ok rls (map rule_text rs) = true ->
  exact_layout rls (map rule_text rs) = true.
Proof.
  induction rs as [|r rs IH]; intros rls Hrs Hb.
  - destruct rls; reflexivity.
  - destruct rls as [|rl rls]; [reflexivity|]. inversion Hrs as [|x l Hr Hrs']; subst.
    cbn [map breaks_ok] in Hb. apply andb_true_iff in Hb as [Hc Hb].
    cbn [map exact_layout]. rewrite (IH rls Hrs' Hb), andb_true_r.
    destruct (closed_rule_arun r Hr) as (Hrun & Hh & Hl).
    unfold pieces. apply (exact_from (snd rl) (fst rl) (rule_text r) (0%nat, ch_x) true Hrun Hl); [|exact Hc].
    left. repeat split; try assumption.
    intros E. rewrite E in Hl. discriminate.
Qed.

(* ---- end to end, with the condition on the line breaks ---- *)
Theorem load_closed_layout : forall rs L kb,
  Forall closed_rule rs ->
  legal L (map rule_text rs) = true ->
  breaks_at_separators L (map rule_text rs) = true ->
  load_kb_from_file api_parse_rule kb (render L (map rule_text rs)) =
  (do kb' <- add_rules kb rs; Ok (kb', true)).
Proof.
  intros rs L kb Hrs Hlegal Hb. apply load_closed_exact; try assumption.
  now apply breaks_exact.
Qed.
