(* C11, second half (1/4): the relation "equal up to the NAMES of variables" and the primitives of
   Model/Term.v and Model/Subst.v.

   The relation is parametrised by a set V of admissible triples (id, name on the left, name on
   the right).  The engine compares variables with the derived `PartialEq` (`term_eqb`), which
   looks at the id AND the name; that comparison is insensitive to a renaming only when an id
   determines its name on either side: `vfun V`.  During a search V grows with every clause fetch
   (Proofs/NamesSearch.v).

   A function term `join(..)` is in the relation only when its arguments contain no variable:
   `join` converts its arguments to text with `show_term`, which prints the name of an unbound
   variable (counterexample in Properties/C11names.v). *)
From Coq Require Import Lia.
From Suiron Require Import Model.Term Model.Subst Model.Show Model.Lists Model.Arith Model.Unify.
Open Scope N_scope.

Definition vrel := N -> str -> str -> Prop.
Definition vfun (V : vrel) : Prop :=
  forall id a b a' b', V id a b -> V id a' b' -> a = a' /\ b = b'.
Definition vle (V V' : vrel) : Prop := forall id a b, V id a b -> V' id a b.
Definition vbound (V : vrel) (n : N) : Prop := forall id a b, V id a b -> id <= n.
(* every pair of names allowed: "equal up to names" *)
Definition vtop : vrel := fun _ _ _ => True.

Lemma vle_refl V : vle V V. Proof. intros id a b H; exact H. Qed.
Lemma vle_trans A B C : vle A B -> vle B C -> vle A C.
Proof. intros H1 H2 id a b H. apply H2, H1, H. Qed.
Lemma vle_top V : vle V vtop. Proof. intros id a b _. exact I. Qed.
Lemma vbound_le V n m : vbound V n -> n <= m -> vbound V m.
Proof. intros H Hl id a b Hv. specialize (H _ _ _ Hv). lia. Qed.

(* ---- relations on options and results ---- *)
Definition orel {A B} (R : A -> B -> Prop) (x : option A) (y : option B) : Prop :=
  match x, y with
  | Some a, Some b => R a b
  | None, None => True
  | _, _ => False
  end.

Definition rrel {A B} (R : A -> B -> Prop) (x : res A) (y : res B) : Prop :=
  match x, y with
  | Ok a, Ok b => R a b
  | Panic, Panic => True
  | OutOfFuel, OutOfFuel => True
  | _, _ => False
  end.

Lemma rrel_bind {A B C D} (R : A -> B -> Prop) (S : C -> D -> Prop) x y f g :
  rrel R x y -> (forall a b, R a b -> rrel S (f a) (g b)) -> rrel S (bind x f) (bind y g).
Proof.
  destruct x as [a| |], y as [b| |]; cbn [rrel bind]; intros H Hf; try contradiction; auto.
Qed.

Lemma rrel_mono {A B} (R S : A -> B -> Prop) x y :
  (forall a b, R a b -> S a b) -> rrel R x y -> rrel S x y.
Proof. destruct x, y; cbn; auto. Qed.

Lemma orel_mono {A B} (R S : A -> B -> Prop) x y :
  (forall a b, R a b -> S a b) -> orel R x y -> orel S x y.
Proof. destruct x, y; cbn; auto. Qed.

Lemma rrel_ok {A B} (R : A -> B -> Prop) a b : R a b -> rrel R (Ok a) (Ok b).
Proof. intro H; exact H. Qed.

Lemma Forall2_mono {A B} (R S : A -> B -> Prop) l l' :
  (forall a b, R a b -> S a b) -> Forall2 R l l' -> Forall2 S l l'.
Proof. intros H; induction 1; constructor; auto. Qed.

Lemma Forall2_length' {A B} (R : A -> B -> Prop) l l' : Forall2 R l l' -> length l = length l'.
Proof. induction 1; simpl; congruence. Qed.

(* ---- the relation on terms ---- *)
Fixpoint novars (t : term) : bool :=
  match t with
  | TVar _ _ => false
  | TComplex ts => forallb novars ts
  | TList a n _ _ => novars a && novars n
  | TFun _ args => forallb novars args
  | _ => true
  end.

(* a function term that may occur: not `join`, or no variable among the arguments *)
Definition nojoin (name : str) (args : list term) : Prop :=
  str_eqb name fname_join = false \/ forallb novars args = true.

Section Sim.
  Variable V : vrel.

  Inductive sim : term -> term -> Prop :=
  | sim_nil : sim TNil TNil
  | sim_anon : sim TAnon TAnon
  | sim_atom s : sim (TAtom s) (TAtom s)
  | sim_float f : sim (TFloat f) (TFloat f)
  | sim_int z : sim (TInt z) (TInt z)
  | sim_var id a b : V id a b -> sim (TVar id a) (TVar id b)
  | sim_complex ts ts' : Forall2 sim ts ts' -> sim (TComplex ts) (TComplex ts')
  | sim_list a a' n n' c tv : sim a a' -> sim n n' -> sim (TList a n c tv) (TList a' n' c tv)
  | sim_fun name args args' : nojoin name args -> Forall2 sim args args' ->
      sim (TFun name args) (TFun name args').

  Section sim_ind2.
    Variable P : term -> term -> Prop.
    Hypothesis Hnil : P TNil TNil.
    Hypothesis Hanon : P TAnon TAnon.
    Hypothesis Hatom : forall s, P (TAtom s) (TAtom s).
    Hypothesis Hfloat : forall f, P (TFloat f) (TFloat f).
    Hypothesis Hint : forall z, P (TInt z) (TInt z).
    Hypothesis Hvar : forall id a b, V id a b -> P (TVar id a) (TVar id b).
    Hypothesis Hcomplex : forall ts ts', Forall2 sim ts ts' -> Forall2 P ts ts' ->
      P (TComplex ts) (TComplex ts').
    Hypothesis Hlist : forall a a' n n' c tv, sim a a' -> P a a' -> sim n n' -> P n n' ->
      P (TList a n c tv) (TList a' n' c tv).
    Hypothesis Hfun : forall name args args', nojoin name args -> Forall2 sim args args' ->
      Forall2 P args args' -> P (TFun name args) (TFun name args').

    Fixpoint sim_ind2 (t t' : term) (H : sim t t') {struct H} : P t t' :=
      match H in sim t t' return P t t' with
      | sim_nil => Hnil
      | sim_anon => Hanon
      | sim_atom s => Hatom s
      | sim_float f => Hfloat f
      | sim_int z => Hint z
      | sim_var id a b Hv => Hvar id a b Hv
      | sim_complex ts ts' HF =>
          Hcomplex ts ts' HF
            ((fix go (l l' : list term) (h : Forall2 sim l l') {struct h} : Forall2 P l l' :=
                match h in Forall2 _ l l' return Forall2 P l l' with
                | Forall2_nil _ => Forall2_nil P
                | Forall2_cons x y hxy hl => Forall2_cons x y (sim_ind2 x y hxy) (go _ _ hl)
                end) ts ts' HF)
      | sim_list a a' n n' c tv Ha Hn =>
          Hlist a a' n n' c tv Ha (sim_ind2 a a' Ha) Hn (sim_ind2 n n' Hn)
      | sim_fun name args args' Hj HF =>
          Hfun name args args' Hj HF
            ((fix go (l l' : list term) (h : Forall2 sim l l') {struct h} : Forall2 P l l' :=
                match h in Forall2 _ l l' return Forall2 P l l' with
                | Forall2_nil _ => Forall2_nil P
                | Forall2_cons x y hxy hl => Forall2_cons x y (sim_ind2 x y hxy) (go _ _ hl)
                end) args args' HF)
      end.
  End sim_ind2.

  Definition sims (s s' : subst) : Prop := Forall2 (orel sim) s s'.
  Definition simts (l l' : list term) : Prop := Forall2 sim l l'.

  (* ---- inversion ---- *)
  Lemma sim_var_l id a t' : sim (TVar id a) t' -> exists b, t' = TVar id b /\ V id a b.
  Proof. intro H. inversion H; subst. eauto. Qed.
  Lemma sim_var_r id b t : sim t (TVar id b) -> exists a, t = TVar id a /\ V id a b.
  Proof. intro H. inversion H; subst. eauto. Qed.
  Lemma sim_atom_l s t' : sim (TAtom s) t' -> t' = TAtom s.
  Proof. intro H. inversion H; subst. reflexivity. Qed.
  Lemma sim_int_l z t' : sim (TInt z) t' -> t' = TInt z.
  Proof. intro H. inversion H; subst. reflexivity. Qed.
  Lemma sim_float_l f t' : sim (TFloat f) t' -> t' = TFloat f.
  Proof. intro H. inversion H; subst. reflexivity. Qed.
  Lemma sim_complex_l ts t' : sim (TComplex ts) t' -> exists ts', t' = TComplex ts' /\ Forall2 sim ts ts'.
  Proof. intro H. inversion H; subst. eauto. Qed.
  Lemma sim_list_l a n c tv t' : sim (TList a n c tv) t' ->
    exists a' n', t' = TList a' n' c tv /\ sim a a' /\ sim n n'.
  Proof. intro H. inversion H; subst. eauto. Qed.
  Lemma sim_fun_l name args t' : sim (TFun name args) t' ->
    exists args', t' = TFun name args' /\ nojoin name args /\ Forall2 sim args args'.
  Proof. intro H. inversion H; subst. eauto. Qed.

  (* ---- the shape tests ---- *)
  Lemma sim_is_nil t t' : sim t t' -> is_nil t = is_nil t'.
  Proof. destruct 1; reflexivity. Qed.
  Lemma sim_is_anon t t' : sim t t' -> is_anon t = is_anon t'.
  Proof. destruct 1; reflexivity. Qed.
  Lemma sim_is_var t t' : sim t t' -> is_var t = is_var t'.
  Proof. destruct 1; reflexivity. Qed.
  Lemma sim_is_list t t' : sim t t' -> is_list t = is_list t'.
  Proof. destruct 1; reflexivity. Qed.
  Lemma sim_is_constant t t' : sim t t' -> is_constant t = is_constant t'.
  Proof. destruct 1; reflexivity. Qed.
  Lemma sim_constant_eq t t' : sim t t' -> is_constant t = true -> t' = t.
  Proof. destruct 1; cbn; intro; try discriminate; reflexivity. Qed.

  Lemma sim_novars_eq : forall t t', sim t t' -> novars t = true -> t' = t.
  Proof.
    intros t t' H. induction H as [| |s|f|z|id a b Hv|ts ts' HF IH|a a' n n' c tv Ha IHa Hn IHn|name args args' Hj HF IH]
      using sim_ind2; cbn [novars]; intro Hn0; try reflexivity; try discriminate.
    - f_equal. induction IH as [|x y l l' Hxy _ IHl]; [reflexivity|].
      cbn in Hn0. apply andb_true_iff in Hn0 as [H1 H2]. inversion HF; subst. rewrite (Hxy H1). f_equal. auto.
    - apply andb_true_iff in Hn0 as [H1 H2]. now rewrite (IHa H1), (IHn H2).
    - clear Hj. f_equal. induction IH as [|x y l l' Hxy _ IHl]; [reflexivity|].
      cbn in Hn0. apply andb_true_iff in Hn0 as [H1 H2]. inversion HF; subst. rewrite (Hxy H1). f_equal. auto.
  Qed.

  Lemma simts_novars_eq l l' : Forall2 sim l l' -> forallb novars l = true -> l' = l.
  Proof.
    induction 1 as [|x y l l' Hxy _ IH]; [reflexivity|]. cbn. intro H. apply andb_true_iff in H as [H1 H2].
    rewrite (sim_novars_eq _ _ Hxy H1). f_equal. auto.
  Qed.

  Lemma sim_empty_list : sim empty_list empty_list.
  Proof. unfold empty_list. constructor; constructor. Qed.

  (* ---- term_eqb: here an id must determine its names ---- *)
  Hypothesis Vfun : vfun V.

  Lemma terms_eqb_go l1 l2 :
    (fix go (l1 l2 : list term) : bool :=
       match l1, l2 with
       | [], [] => true
       | x :: l1', y :: l2' => term_eqb x y && go l1' l2'
       | _, _ => false
       end) l1 l2 = terms_eqb l1 l2.
  Proof. reflexivity. Qed.

  Lemma term_eqb_complex l1 l2 : term_eqb (TComplex l1) (TComplex l2) = terms_eqb l1 l2.
  Proof. cbn [term_eqb]. apply terms_eqb_go. Qed.
  Lemma term_eqb_fun f1 l1 f2 l2 : term_eqb (TFun f1 l1) (TFun f2 l2) = str_eqb f1 f2 && terms_eqb l1 l2.
  Proof. cbn [term_eqb]. now rewrite terms_eqb_go. Qed.

  Lemma terms_eqb_sim : forall l l', Forall2 sim l l' ->
    Forall2 (fun t t' => forall u u', sim u u' -> term_eqb t u = term_eqb t' u') l l' ->
    forall m m', Forall2 sim m m' -> terms_eqb l m = terms_eqb l' m'.
  Proof.
    induction 1 as [|x x' l l' Hx Hl IH]; intros HP m m' Hm.
    - destruct Hm; reflexivity.
    - inversion HP as [|? ? ? ? Px Pl]; subst. destruct Hm as [|y y' m m' Hy Hm]; [reflexivity|].
      cbn [terms_eqb]. rewrite (Px _ _ Hy). rewrite (IH Pl _ _ Hm). reflexivity.
  Qed.

  Lemma term_eqb_sim : forall t t', sim t t' -> forall u u', sim u u' -> term_eqb t u = term_eqb t' u'.
  Proof.
    intros t t' H. induction H as [| |s|f|z|id a b Hv|ts ts' HF IH|a a' n n' c tv Ha IHa Hn IHn|name args args' Hj HF IH]
      using sim_ind2; intros u u' Hu.
    - destruct Hu; reflexivity.
    - destruct Hu; reflexivity.
    - destruct Hu; reflexivity.
    - destruct Hu; reflexivity.
    - destruct Hu; reflexivity.
    - destruct Hu as [| |s|f|z|id2 a2 b2 Hv2|? ? ?|? ? ? ? ? ? ? ?|? ? ? ? ?]; try reflexivity.
      cbn [term_eqb]. destruct (N.eqb_spec id id2) as [->|Hne]; [|reflexivity].
      destruct (Vfun _ _ _ _ _ Hv Hv2) as [-> ->]. now rewrite !str_eqb_refl.
    - destruct Hu as [| |s|f|z|id2 a2 b2 Hv2|us us' HU|? ? ? ? ? ? ? ?|? ? ? ? ?]; try reflexivity.
      rewrite !term_eqb_complex. eapply terms_eqb_sim; eauto.
    - destruct Hu as [| |s|f|z|id2 a2 b2 Hv2|us us' HU|b0 b0' m m' c2 tv2 Hb Hm|? ? ? ? ?]; try reflexivity.
      cbn [term_eqb]. rewrite (IHa _ _ Hb), (IHn _ _ Hm). reflexivity.
    - destruct Hu as [| |s|f|z|id2 a2 b2 Hv2|us us' HU|? ? ? ? ? ? ? ?|name2 us us' Hj2 HU]; try reflexivity.
      rewrite !term_eqb_fun. f_equal. eapply terms_eqb_sim; eauto.
  Qed.

  (* ---- substitution sets ---- *)
  Lemma sims_nil : sims [] []. Proof. constructor. Qed.

  Lemma nth_error_sims : forall s s', sims s s' -> forall i,
    orel (orel sim) (nth_error s i) (nth_error s' i).
  Proof.
    induction 1 as [|x y s s' Hxy Hs IH]; intros [|i]; cbn; auto.
  Qed.

  Lemma ss_get_sim s s' id : sims s s' -> orel sim (ss_get s id) (ss_get s' id).
  Proof.
    intro H. unfold ss_get. pose proof (nth_error_sims _ _ H (N.to_nat id)) as Hn.
    destruct (nth_error s (N.to_nat id)) as [[t|]|], (nth_error s' (N.to_nat id)) as [[t'|]|];
      cbn in *; try contradiction; auto.
  Qed.

  Lemma ss_set_nat_sim : forall i s s' t t', sims s s' -> sim t t' ->
    sims (ss_set_nat s i t) (ss_set_nat s' i t').
  Proof.
    induction i as [|i IH]; intros s s' t t' Hs Ht.
    - destruct Hs; cbn; constructor; auto; constructor.
    - destruct Hs as [|x y s s' Hxy Hs]; cbn [ss_set_nat].
      + constructor; [exact I|]. apply IH; [constructor|exact Ht].
      + constructor; [exact Hxy|]. apply IH; assumption.
  Qed.

  Lemma ss_set_sim s s' id t t' : sims s s' -> sim t t' -> sims (ss_set s id t) (ss_set s' id t').
  Proof. apply ss_set_nat_sim. Qed.

  Lemma is_bound_sim t t' s s' : sim t t' -> sims s s' -> rrel eq (is_bound t s) (is_bound t' s').
  Proof.
    intros Ht Hs. destruct Ht; cbn; auto.
    pose proof (ss_get_sim _ _ id Hs) as Hg. destruct (ss_get s id), (ss_get s' id); cbn in Hg; try contradiction; reflexivity.
  Qed.

  Lemma get_binding_sim t t' s s' : sim t t' -> sims s s' ->
    rrel (orel sim) (get_binding t s) (get_binding t' s').
  Proof. intros Ht Hs. destruct Ht; cbn; auto. apply ss_get_sim, Hs. Qed.

  Lemma get_ground_term_sim : forall fuel t t' s s', sim t t' -> sims s s' ->
    rrel (orel sim) (get_ground_term fuel t s) (get_ground_term fuel t' s').
  Proof.
    induction fuel as [|f IH]; intros t t' s s' Ht Hs.
    - destruct Ht; cbn [get_ground_term]; try (cbn; now constructor).
      pose proof (ss_get_sim _ _ id Hs) as Hg.
      destruct (ss_get s id), (ss_get s' id); cbn in Hg; try contradiction; exact I.
    - destruct Ht; cbn [get_ground_term]; try (cbn; now constructor).
      pose proof (ss_get_sim _ _ id Hs) as Hg.
      destruct (ss_get s id), (ss_get s' id); cbn in Hg; try contradiction; [|exact I].
      apply IH; assumption.
  Qed.

  Lemma get_constant_sim fuel t t' s s' : sim t t' -> sims s s' ->
    rrel (orel sim) (get_constant fuel t s) (get_constant fuel t' s').
  Proof.
    intros Ht Hs. destruct Ht as [| |a|f|z|id a b Hv|? ? ?|? ? ? ? ? ? ? ?|? ? ? ? ?]; cbn [get_constant];
      try exact I; try (cbn; now constructor).
    eapply rrel_bind; [apply get_ground_term_sim; [now constructor|exact Hs]|].
    intros g g' Hg. destruct g as [g|], g' as [g'|]; cbn in Hg; try contradiction; [|exact I].
    cbn. rewrite <- (sim_is_constant _ _ Hg). destruct (is_constant g); cbn; auto.
  Qed.

  Lemma get_list_sim fuel t t' s s' : sim t t' -> sims s s' ->
    rrel (orel sim) (get_list fuel t s) (get_list fuel t' s').
  Proof.
    intros Ht Hs. destruct Ht as [| |a|f|z|id a b Hv|? ? ?|? ? ? ? ? ? ? ?|? ? ? ? ?]; cbn [get_list];
      try exact I; try (cbn; now constructor).
    eapply rrel_bind; [apply get_ground_term_sim; [now constructor|exact Hs]|].
    intros g g' Hg. destruct g as [g|], g' as [g'|]; cbn in Hg; try contradiction; [|exact I].
    cbn. rewrite <- (sim_is_list _ _ Hg). destruct (is_list g); cbn; auto.
  Qed.

  Lemma get_complex_sim fuel t t' s s' : sim t t' -> sims s s' ->
    rrel (orel sim) (get_complex fuel t s) (get_complex fuel t' s').
  Proof.
    intros Ht Hs. destruct Ht as [| |a|f|z|id a b Hv|? ? ?|? ? ? ? ? ? ? ?|? ? ? ? ?]; cbn [get_complex];
      try exact I; try (cbn; now constructor).
    eapply rrel_bind; [apply get_ground_term_sim; [now constructor|exact Hs]|].
    intros g g' Hg. destruct g as [g|], g' as [g'|]; cbn in Hg; try contradiction; [|exact I].
    destruct Hg; cbn; auto. now constructor.
  Qed.

  Lemma is_ground_variable_id_sim : forall fuel id s s', sims s s' ->
    rrel eq (is_ground_variable_id fuel id s) (is_ground_variable_id fuel id s').
  Proof.
    induction fuel as [|f IH]; intros id s s' Hs; cbn [is_ground_variable_id];
      pose proof (ss_get_sim _ _ id Hs) as Hg;
      destruct (ss_get s id) as [t|], (ss_get s' id) as [t'|]; cbn in Hg; try contradiction;
      try reflexivity; destruct Hg; cbn; try reflexivity.
    apply IH, Hs.
  Qed.

  Lemma is_ground_variable_sim fuel t t' s s' : sim t t' -> sims s s' ->
    rrel eq (is_ground_variable fuel t s) (is_ground_variable fuel t' s').
  Proof. intros Ht Hs. destruct Ht; cbn [is_ground_variable]; try exact I. apply is_ground_variable_id_sim, Hs. Qed.
End Sim.

(* ---- growth of V ---- *)
Lemma sim_mono V V' : vle V V' -> forall t t', sim V t t' -> sim V' t t'.
Proof.
  intros Hle t t' H. induction H using sim_ind2; try (constructor; fail); try (constructor; auto; fail).
Qed.

Lemma simts_mono V V' l l' : vle V V' -> Forall2 (sim V) l l' -> Forall2 (sim V') l l'.
Proof. intro H. apply Forall2_mono. apply sim_mono, H. Qed.

Lemma sims_mono V V' s s' : vle V V' -> sims V s s' -> sims V' s s'.
Proof. intro H. apply Forall2_mono. intros a b. apply orel_mono, sim_mono, H. Qed.

Lemma vfun_le_ids V : vfun V -> forall id a b a' b', V id a b -> V id a' b' -> a = a' /\ b = b'.
Proof. intro H; exact H. Qed.

(* ---- symmetry and transitivity (the relation is a partial equivalence: reflexive on terms
   without a `join` over variables, see sim_refl in Proofs/NamesSearch.v) ---- *)
Definition vflip (V : vrel) : vrel := fun id a b => V id b a.
Definition vcomp (V1 V2 : vrel) : vrel := fun id a c => exists b, V1 id a b /\ V2 id b c.

Lemma Forall2_flip {A B} (R : A -> B -> Prop) l l' : Forall2 R l l' -> Forall2 (fun b a => R a b) l' l.
Proof. induction 1; constructor; auto. Qed.

Lemma sim_sym V : forall t t', sim V t t' -> sim (vflip V) t' t.
Proof.
  intros t t' H. induction H as [| |s|f|z|id a b Hv|ts ts' HF IH|a a' n n' c tv Ha IHa Hn IHn|name args args' Hj HF IH]
    using sim_ind2; try (constructor; fail).
  - constructor. exact Hv.
  - constructor. clear HF. induction IH; constructor; auto.
  - constructor; assumption.
  - constructor.
    + destruct Hj as [Hj|Hj]; [left; exact Hj|right]. now rewrite (simts_novars_eq V _ _ HF Hj).
    + clear HF Hj. induction IH; constructor; auto.
Qed.

Lemma sims_sym V s s' : sims V s s' -> sims (vflip V) s' s.
Proof.
  induction 1 as [|x y s s' Hxy _ IH]; constructor; [|exact IH].
  destruct x, y; cbn in *; try contradiction; auto. apply sim_sym, Hxy.
Qed.

Lemma sim_trans V1 V2 : forall t u, sim V1 t u -> forall v, sim V2 u v -> sim (vcomp V1 V2) t v.
Proof.
  intros t u H. induction H as [| |s|f|z|id a b Hv|ts ts' HF IH|a a' n n' c tv Ha IHa Hn IHn|name args args' Hj HF IH]
    using sim_ind2; intros v Hv2; inversion Hv2; subst; try (constructor; fail).
  - constructor. exists b. auto.
  - constructor. clear HF Hv2. revert ts'0 H0. induction IH as [|x y l l' Hxy _ IHl]; intros m Hm; inversion Hm; subst; constructor; auto.
  - constructor; auto.
  - constructor; [exact Hj|]. clear HF Hv2 Hj H1. revert args'0 H3.
    induction IH as [|x y l l' Hxy _ IHl]; intros m Hm; inversion Hm; subst; constructor; auto.
Qed.

Lemma sims_trans V1 V2 : forall s u, sims V1 s u -> forall v, sims V2 u v -> sims (vcomp V1 V2) s v.
Proof.
  induction 1 as [|x y s u Hxy _ IH]; intros v Hv; inversion Hv as [|y' z u' v' Hyz Hv']; subst; constructor; [|apply IH; exact Hv'].
  destruct x, y, z; cbn in *; try contradiction; auto. eapply sim_trans; eauto.
Qed.
