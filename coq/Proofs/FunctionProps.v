(* C13: a built-in function term is evaluated whichever side of `=` it is on. *)
From Coq Require Import Lia.
From Suiron Require Import Model.Term Model.Subst Model.Show Model.Lists Model.Arith Model.Unify
  Proofs.UnifyInv.
Open Scope N_scope.

Definition is_fun (t : term) : bool := match t with TFun _ _ => true | _ => false end.

(* function on the left: one step of unify evaluates it and unifies the value *)
Lemma fn_left f name args ss v t :
  eval_function f name args ss = Ok (Some v) ->
  term_eqb (TFun name args) t = false -> is_anon t = false ->
  unify (S f) (TFun name args) t ss = unify f v t ss.
Proof.
  intros Hv Hne Hanon. simpl. unfold unify_body. rewrite Hne, Hanon, Hv. reflexivity.
Qed.

(* function on the right of a constant, complex term, list or variable: the same value is
   unified with the same term *)
Lemma fn_right f name args ss v t :
  eval_function f name args ss = Ok (Some v) ->
  is_fun t = false -> is_anon t = false -> is_nil t = false ->
  (forall n, t <> TVar 0 n) ->
  unify (S (S f)) t (TFun name args) ss = unify f v t ss.
Proof.
  intros Hv Hf Hanon Hnil Hid.
  assert (term_eqb t (TFun name args) = false) as Hne by (destruct t; try reflexivity; discriminate).
  assert (term_eqb (TFun name args) t = false) as Hne' by (destruct t; try reflexivity; discriminate).
  change (unify (S (S f)) t (TFun name args) ss)
    with (unify_body (unify (S f)) (S f) t (TFun name args) ss).
  unfold unify_body at 1. rewrite Hne. cbn [is_anon].
  destruct t; try discriminate; try (apply fn_left; assumption).
  destruct (N.eqb_spec id 0) as [->|_]; [exfalso; eapply Hid; reflexivity|].
  apply fn_left; assumption.
Qed.

(* an unknown function name never unifies, on either side *)
Lemma fn_unknown_left f name args ss t :
  eval_function f name args ss = Ok None ->
  term_eqb (TFun name args) t = false -> is_anon t = false ->
  unify (S f) (TFun name args) t ss = Ok None.
Proof.
  intros Hv Hne Hanon. simpl. unfold unify_body. rewrite Hne, Hanon, Hv. reflexivity.
Qed.

(* constants: order does not matter *)
Lemma unify_constants_sym f a b ss :
  is_constant a = true -> is_constant b = true ->
  unify (S f) a b ss = unify (S f) b a ss.
Proof.
  intros Ha Hb. simpl. unfold unify_body.
  destruct a, b; try discriminate; cbn [term_eqb is_anon]; try reflexivity.
  - rewrite (str_eqb_sym s s0). destruct (str_eqb s0 s); reflexivity.
  - assert (feqb f1 f0 = feqb f0 f1) as ->.
    { unfold feqb, fcmp. rewrite (Flocq.IEEE754.Binary.Bcompare_swap 53 1024 f0 f1).
      destruct (Flocq.IEEE754.Binary.Bcompare 53 1024 f0 f1) as [[| |]|]; reflexivity. }
    destruct (feqb f0 f1); reflexivity.
  - rewrite (Z.eqb_sym z z0). destruct (Z.eqb z0 z); reflexivity.
Qed.

(* a constant against a variable: the variable's arm does the work either way *)
Lemma unify_constant_var f c id n ss :
  is_constant c = true ->
  unify (S f) c (TVar id n) ss = unify f (TVar id n) c ss.
Proof. intro Hc. simpl. unfold unify_body. destruct c; try discriminate; reflexivity. Qed.
