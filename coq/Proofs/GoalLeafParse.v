(* C19, closing the gap between terms and goals, part 2: the real leaf parser parse_subgoal
   inverts Display on the leaf goals
     f(t1, ..., tn)            n >= 1, f an atom [a-z][A-Za-z0-9_]* that make_goal does not read as
                               something else (fail, nl, not, time, the built-in predicates)
     f()                       f as above, other than fail, nl, not, time (a built-in predicate
                               name is an ordinary functor here: make_goal_no_args)
     name(t1, ..., tn)         n >= 1, name a built-in predicate other than unify
     l = r                     unify
     !  fail  nl
     not(leaf)  time(leaf)     leaf as above but not `l = r`
   with canonical terms as arguments.  Each such leaf satisfies `leaf_ok (parse_subgoal F)` of
   Proofs/GoalRoundtrip.v for every F from the length of its text + 2 on. *)
From Coq Require Import Lia String.
From Suiron Require Import Model.Tokenizer Proofs.TokenizerStream Proofs.TokenizerProofs Proofs.GoalRoundtrip.
From Suiron Require Import Model.ParseTerm Model.ParseGoal Model.Show Model.ShowGoal.
From Suiron Require Import Proofs.ParseTermProofs Proofs.ParseRoundtrip.
From Suiron Require Import Proofs.TermRoundtrip Proofs.TermRoundtripText Proofs.TermRoundtripComplex
  Proofs.TermRoundtripList Proofs.TermRoundtripMain Proofs.GoalLeafText.
Open Scope N_scope.

(* ---- names ---- *)
Definition goal_reserved (f : str) : bool :=
  str_eqb f g_fail || str_eqb f g_nl || str_eqb f g_time || str_eqb f g_not ||
  existsb (str_eqb f) bip_with_args.
Definition goal_functor (f : str) : bool := simple_atom f && negb (goal_reserved f).

(* without arguments: f() is make_goal_no_args f, which only fail, nl and ! turn into something
   else; time() and not() are errors *)
Definition goal_reserved0 (f : str) : bool :=
  str_eqb f g_fail || str_eqb f g_nl || str_eqb f g_time || str_eqb f g_not.
Definition goal_functor0 (f : str) : bool := simple_atom f && negb (goal_reserved0 f).

Definition g_unify : str := s2l "unify".
Definition bip_name (name : str) : bool :=
  existsb (str_eqb name) bip_with_args && negb (str_eqb name g_unify).

Lemma simple_atom_functor_ok f : simple_atom f = true -> functor_ok f = true.
Proof.
  intros Hs. destruct (simple_atom_no_parens f Hs) as [H1 H2].
  pose proof (simple_atom_word f Hs) as Hw. pose proof (word_hd f Hw) as Hh.
  unfold functor_ok. destruct f as [|c r]; [discriminate|].
  cbn [hd] in Hh. rewrite H1, H2. rewrite (wchar_not_white c Hh).
  cbn [simple_atom] in Hs. apply andb_true_iff in Hs as [Hc _]. apply in_range_spec in Hc.
  assert (E : (c =? c_dollar) = false) by char_neq. rewrite E. reflexivity.
Qed.

Lemma simple_atom_not_bang f : simple_atom f = true -> str_eqb f g_bang = false.
Proof.
  intros H. destruct (str_eqb f g_bang) eqn:E; [|reflexivity].
  apply str_eqb_eq in E. subst f. discriminate H.
Qed.

Lemma make_goal_call f ts : goal_functor f = true ->
  make_goal f ts = GCall (TComplex (TAtom f :: ts)).
Proof.
  unfold goal_functor, goal_reserved. intros H. apply andb_true_iff in H as [Hs Hr].
  apply negb_true_iff in Hr.
  apply orb_false_iff in Hr as [Hr H5]. apply orb_false_iff in Hr as [Hr H4].
  apply orb_false_iff in Hr as [Hr H3]. apply orb_false_iff in Hr as [H1 H2].
  unfold make_goal. now rewrite H1, H2, (simple_atom_not_bang f Hs), H5.
Qed.

Lemma goal_functor_facts f : goal_functor f = true ->
  simple_atom f = true /\ str_eqb f g_time = false /\ str_eqb f g_not = false.
Proof.
  unfold goal_functor, goal_reserved. intros H. apply andb_true_iff in H as [Hs Hr].
  apply negb_true_iff in Hr.
  apply orb_false_iff in Hr as [Hr H5]. apply orb_false_iff in Hr as [Hr H4].
  apply orb_false_iff in Hr as [Hr H3]. auto.
Qed.

Lemma goal_functor0_facts f : goal_functor0 f = true ->
  simple_atom f = true /\ str_eqb f g_time = false /\ str_eqb f g_not = false /\
  make_goal_no_args f = GCall (TComplex [TAtom f]).
Proof.
  unfold goal_functor0, goal_reserved0. intros H. apply andb_true_iff in H as [Hs Hr].
  apply negb_true_iff in Hr.
  apply orb_false_iff in Hr as [Hr H4]. apply orb_false_iff in Hr as [Hr H3].
  apply orb_false_iff in Hr as [H1 H2]. repeat split; try assumption.
  unfold make_goal_no_args. now rewrite H1, H2, (simple_atom_not_bang f Hs).
Qed.

Lemma goal_functor_functor0 f : goal_functor f = true -> goal_functor0 f = true.
Proof.
  unfold goal_functor, goal_functor0, goal_reserved, goal_reserved0. intros H.
  apply andb_true_iff in H as [Hs Hr]. rewrite Hs. cbn [andb].
  apply negb_true_iff in Hr. apply orb_false_iff in Hr as [Hr _]. now rewrite Hr.
Qed.

Lemma bip_in name : existsb (str_eqb name) bip_with_args = true -> In name bip_with_args.
Proof.
  intros H. apply existsb_exists in H as (x & Hx & E). apply str_eqb_eq in E. now subst.
Qed.

Lemma bip_facts name : existsb (str_eqb name) bip_with_args = true ->
  simple_atom name = true /\ str_eqb name g_time = false /\ str_eqb name g_not = false /\
  forall ts, make_goal name ts = GBip name (Some ts).
Proof.
  intros H. apply bip_in in H. unfold bip_with_args in H. cbn [map In] in H.
  repeat (destruct H as [<-|H]; [repeat split; vm_compute; reflexivity|]). contradiction.
Qed.

(* ---- Display of built-in predicates ---- *)
Fixpoint fb_go (comma : bool) (l : list term) : str :=
  match l with
  | [] => []
  | t :: l' => (if comma then sep_comma else []) ++ show_term t ++ fb_go true l'
  end.

Lemma format_built_in_go name ts : format_built_in name ts = name ++ [40] ++ fb_go false ts ++ [41].
Proof. reflexivity. Qed.

Lemma fb_go_true l : l <> [] -> fb_go true l = sep_comma ++ join_strs sep_comma (map show_term l).
Proof.
  induction l as [|x l IH]; intros Hne; [now elim Hne|].
  cbn [fb_go map]. destruct l as [|y l'].
  - cbn [fb_go map join_strs]. now rewrite app_nil_r.
  - rewrite IH by discriminate. cbn [map]. rewrite join_strs_cons2. reflexivity.
Qed.

Lemma fb_go_false l : fb_go false l = join_strs sep_comma (map show_term l).
Proof.
  destruct l as [|x l]; [reflexivity|]. cbn [fb_go map app].
  destruct l as [|y l'].
  - cbn [fb_go map join_strs]. now rewrite app_nil_r.
  - rewrite fb_go_true by discriminate. cbn [map]. rewrite join_strs_cons2. reflexivity.
Qed.

Lemma format_built_in_text name ts : format_built_in name ts = call_text name (map show_term ts).
Proof. rewrite format_built_in_go, fb_go_false. reflexivity. Qed.

(* ---- what the goal level needs to know about a leaf text ---- *)
Definition nocolon (s : str) : Prop := Forall (fun c => (c =? ch_colon) = false) s.

Record ltext (u : str) : Prop := mkLtext {
  lt_ne : u <> [];
  lt_hd : printable (hd 0 u);
  lt_last : printable (last u 0);
  lt_single : (2 <= length u)%nat \/ inert (hd 0 u) = true;
  lt_abs : l_abs u;
  lt_bal : count_c c_lpar u = count_c c_rpar u;
  lt_nocolon : nocolon u;
  lt_sqbal : sqbal u;
  lt_plain : Forall (fun c => fileplain c = true) u }.

Lemma ltext_neutral u : ltext u -> neutral u.
Proof.
  intros H. apply neutral_of_scan; [apply (lt_ne u H)| |apply (lt_single u H)|apply (lt_abs u H)].
  apply tk_trim_printable; [apply (lt_ne u H)|apply (lt_hd u H)|apply (lt_last u H)].
Qed.

Lemma ltext_trim u : ltext u -> trim u = u.
Proof. intros H. apply trim_printable; [apply (lt_ne u H)|apply (lt_hd u H)|apply (lt_last u H)]. Qed.

Lemma tchar_nocolon c : tchar c = true -> (c =? ch_colon) = false.
Proof.
  intros H. apply tchar_cases in H.
  destruct H as [H|[->|[->|[->|[->|[->|[->| ->]]]]]]]; try reflexivity.
  apply wchar_range in H. apply N.eqb_neq. unfold ch_colon. lia.
Qed.

Lemma gtext_ltext s : gtext s -> ltext s.
Proof.
  intros Hg. pose proof (gtext_good s Hg) as H.
  destruct (good_printable_ends s H) as [Hh Hl].
  constructor.
  - apply (g_ne s H).
  - exact Hh.
  - exact Hl.
  - destruct Hg as [w Hw|w Hw|f ps Hf Hps|ps Hps|ps v Hps Hv].
    + right. apply wchar_inert. now apply word_hd.
    + right. destruct (wide_atom_facts w Hw) as (_ & Hh2 & _). now apply wchar_inert, ident_wchar.
    + left. unfold call_text. rewrite app_length. cbn [length]. rewrite app_length. cbn [length]. lia.
    + left. unfold list_text. cbn [length]. rewrite app_length. cbn [length]. lia.
    + left. unfold list_text_bar. cbn [length]. rewrite app_length. cbn [length]. lia.
  - now apply gtext_l_abs.
  - apply (g_bal s H).
  - eapply Forall_impl; [|apply (g_chars s H)]. intros c Hc. now apply tchar_nocolon.
  - now apply gtext_sqbal.
  - apply tchars_fileplain. apply (g_chars s H).
Qed.

Lemma gtext_nosp s : gtext s -> Forall (fun c => nosp c = true) s.
Proof. intros Hg. apply tchars_nosp. apply (g_chars s (gtext_good s Hg)). Qed.

(* ---- parse_subgoal on f(p1, ..., pn) ---- *)
Lemma parse_subgoal_trim_eq fuel a b : trim a = trim b -> parse_subgoal fuel a = parse_subgoal fuel b.
Proof.
  intros E. destruct fuel as [|f]; [reflexivity|]. cbn [parse_subgoal].
  unfold parse_subgoal_body. now rewrite E.
Qed.

Lemma not_special_last w : last w 0 = c_rpar ->
  str_eqb w g_bang || str_eqb w g_fail || str_eqb w g_nl = false.
Proof.
  intros Hl.
  assert (K : forall g, last g 0 <> c_rpar -> str_eqb w g = false).
  { intros g Hg. destruct (str_eqb w g) eqn:E; [|reflexivity]. apply str_eqb_eq in E. subst w.
    now elim Hg. }
  rewrite !K by (vm_compute; discriminate). reflexivity.
Qed.

(* the common part: the text is split at its outer parentheses *)
Lemma parse_subgoal_split rt ra rs f body :
  simple_atom f = true -> parens_balanced body = true ->
  Forall (fun c => nosp c = true) body ->
  parse_subgoal_body rt ra rs (f ++ c_lpar :: body ++ [c_rpar]) =
  (if str_eqb f g_time || str_eqb f g_not then parse_operator_goal rs f body
   else match trim body with
        | [] => pok (make_goal_no_args f)
        | _ => dop args <- ra body; pok (make_goal f args)
        end).
Proof.
  intros Hf Hbal Hnosp.
  pose proof (simple_atom_functor_ok f Hf) as Hok.
  destruct (simple_atom_no_parens f Hf) as [Hc1 Hc2].
  unfold parse_subgoal_body. rewrite (call_text_trimmed f body Hok).
  set (w := f ++ c_lpar :: body ++ [c_rpar]).
  rewrite (match_nonempty w) by apply call_text_nonempty.
  rewrite (not_special_last w (last_call_text f body)).
  assert (Hci : check_infix w = Ok (INone, O)).
  { unfold check_infix. apply ci_loop_none.
    - unfold w. rewrite app_length. cbn [length]. rewrite app_length. cbn [length]. lia.
    - unfold w. apply Forall_app. split.
      + apply tchars_nosp. pose proof (simple_atom_word f Hf) as (_ & Hall & _).
        eapply Forall_impl; [|exact Hall]. intros c Hc. now apply wchar_tchar.
      + constructor; [reflexivity|]. apply Forall_app. split; [exact Hnosp|repeat constructor]. }
  rewrite Hci. cbn [bind infix_eqb negb].
  unfold w. rewrite indices_of_parentheses_call by assumption.
  unfold split_complex_term. rewrite slice_prefix. cbn [bind]. rewrite slice_middle. cbn [bind].
  reflexivity.
Qed.

Theorem parse_subgoal_call_text : forall fuel f ps ts,
  simple_atom f = true -> str_eqb f g_time = false -> str_eqb f g_not = false ->
  ps <> [] -> (forall p, In p ps -> gtext p) ->
  Forall2 (fun p t => parse_term (S fuel) p = Ok (POk t)) ps ts ->
  parse_subgoal (S (S fuel)) (call_text f ps) = Ok (POk (make_goal f ts)).
Proof.
  intros fuel f ps ts Hf Ht Hn Hne Hps Hp.
  assert (Hg : Forall good ps).
  { apply Forall_forall. intros p Hin. apply gtext_good. now apply Hps. }
  cbn [parse_subgoal]. unfold call_text. rewrite parse_subgoal_split.
  - rewrite Ht, Hn. cbn [orb]. rewrite (join_trimmed ps Hg).
    destruct (join_ends ps Hne Hg) as (Hbne & _ & _).
    rewrite (match_nonempty (join_strs sep_comma ps)) by exact Hbne.
    rewrite (parse_arguments_pieces fuel ps ts Hne Hg Hp). reflexivity.
  - exact Hf.
  - unfold parens_balanced. apply N.eqb_eq. apply (i_bal _ (inner_join ps Hg)).
  - apply tchars_nosp. apply (i_chars _ (inner_join ps Hg)).
Qed.

(* f() *)
Theorem parse_subgoal_call_empty : forall fuel f,
  simple_atom f = true -> str_eqb f g_time = false -> str_eqb f g_not = false ->
  parse_subgoal (S fuel) (call_text f []) = Ok (POk (make_goal_no_args f)).
Proof.
  intros fuel f Hf Ht Hn. cbn [parse_subgoal]. unfold call_text. cbn [join_strs].
  rewrite parse_subgoal_split; [|exact Hf|reflexivity|constructor].
  rewrite Ht, Hn. reflexivity.
Qed.

(* the arguments: canonical terms at the fuel of the leaf *)
Lemma canonical_args_parse fuel ts body_len :
  (forall t, In t ts -> canonical t) ->
  (forall t, In t ts -> (length (show_term t) <= body_len)%nat) -> (body_len + 2 <= fuel)%nat ->
  Forall2 (fun p t => parse_term fuel p = Ok (POk t)) (map show_term ts) ts.
Proof.
  intros Hc Hl Hf. induction ts as [|t ts IH]; cbn [map]; constructor.
  - apply parse_term_show_canonical; [apply Hc; now left|].
    unfold parse_fuel. specialize (Hl t (or_introl eq_refl)). lia.
  - apply IH; intros x Hx; [apply Hc|apply Hl]; now right.
Qed.

Lemma call_text_length f ps : length (call_text f ps) = (length f + 2 + length (join_strs sep_comma ps))%nat.
Proof. unfold call_text. rewrite app_length. cbn [length]. rewrite app_length. cbn [length]. lia. Qed.

Lemma args_gtext ts : (forall t, In t ts -> canonical t) -> forall p, In p (map show_term ts) -> gtext p.
Proof. intros H. apply gtext_map. intros t Ht. apply canonical_gtext. now apply H. Qed.

Theorem parse_subgoal_call_canonical : forall F f ts,
  simple_atom f = true -> str_eqb f g_time = false -> str_eqb f g_not = false ->
  ts <> [] -> (forall t, In t ts -> canonical t) ->
  (length (call_text f (map show_term ts)) + 2 <= F)%nat ->
  parse_subgoal F (call_text f (map show_term ts)) = Ok (POk (make_goal f ts)).
Proof.
  intros F f ts Hf Ht Hn Hne Hc HF. rewrite call_text_length in HF.
  destruct F as [|[|fuel]]; [lia|lia|].
  apply parse_subgoal_call_text; try assumption.
  - destruct ts; [now elim Hne|discriminate].
  - now apply args_gtext.
  - apply (canonical_args_parse (S fuel) ts (length (join_strs sep_comma (map show_term ts)))); [exact Hc| |lia].
    intros t Hin. apply join_length_ge. now apply in_map.
Qed.

(* ---- l = r ---- *)
Lemma unify_text_length l r : length (unify_text l r) = (length l + 3 + length r)%nat.
Proof. unfold unify_text. rewrite !app_length. cbn [length]. lia. Qed.

Lemma ltext_unify l r : gtext l -> gtext r -> ltext (unify_text l r).
Proof.
  intros Hl Hr. pose proof (gtext_ltext l Hl) as Ll. pose proof (gtext_ltext r Hr) as Lr.
  pose proof (lt_ne l Ll) as Hlne. pose proof (lt_ne r Lr) as Hrne.
  constructor.
  - unfold unify_text. destruct l; [now elim Hlne|discriminate].
  - unfold unify_text. destruct l; [now elim Hlne|]. apply (lt_hd _ Ll).
  - unfold unify_text. rewrite app_assoc. rewrite last_app_nonempty by exact Hrne. apply (lt_last _ Lr).
  - left. rewrite unify_text_length. lia.
  - unfold unify_text. apply l_abs_app; [apply (lt_abs _ Ll)|].
    apply l_abs_app; [apply l_abs_inerts; repeat constructor|apply (lt_abs _ Lr)].
  - unfold unify_text. rewrite !count_c_app. rewrite (lt_bal _ Ll), (lt_bal _ Lr). reflexivity.
  - unfold unify_text, nocolon. apply Forall_app. split; [apply (lt_nocolon _ Ll)|].
    apply Forall_app. split; [repeat constructor|apply (lt_nocolon _ Lr)].
  - unfold unify_text. apply sqbal_app; [apply (lt_sqbal _ Ll)|].
    apply sqbal_app; [reflexivity|apply (lt_sqbal _ Lr)].
  - unfold unify_text. apply Forall_app. split; [apply (lt_plain _ Ll)|].
    apply Forall_app. split; [repeat constructor|apply (lt_plain _ Lr)].
Qed.

Theorem parse_subgoal_unify_text : forall fuel l r tl tr,
  gtext l -> gtext r ->
  parse_term fuel l = Ok (POk tl) -> parse_term fuel r = Ok (POk tr) ->
  parse_subgoal (S fuel) (unify_text l r) = Ok (POk (GBip g_unify (Some [tl; tr]))).
Proof.
  intros fuel l r tl tr Hl Hr Pl Pr.
  pose proof (ltext_unify l r Hl Hr) as Lu.
  pose proof (lt_ne r (gtext_ltext r Hr)) as Hrne.
  cbn [parse_subgoal]. unfold parse_subgoal_body. rewrite (ltext_trim _ Lu).
  set (w := unify_text l r).
  rewrite (match_nonempty w) by apply (lt_ne _ Lu).
  assert (Hsp : str_eqb w g_bang || str_eqb w g_fail || str_eqb w g_nl = false).
  { assert (K : forall g, (length g < 5)%nat -> str_eqb w g = false).
    { intros g Hg. destruct (str_eqb w g) eqn:E; [|reflexivity]. apply str_eqb_length in E.
      unfold w in E. rewrite unify_text_length in E.
      pose proof (lt_ne l (gtext_ltext l Hl)) as Hlne.
      destruct l; [now elim Hlne|]. destruct r; [now elim Hrne|]. cbn [length] in E. lia. }
    rewrite !K by (cbn; lia). reflexivity. }
  rewrite Hsp.
  unfold w. rewrite (check_infix_unify l r (gtext_nosp l Hl) (gtext_pclosed l Hl) Hrne).
  cbn [bind infix_eqb negb]. unfold get_left_and_right.
  assert (E1 : slice (unify_text l r) 0 (length l + 1) = Ok (l ++ [32])).
  { unfold unify_text. replace (l ++ [32; c_eq; 32] ++ r) with ((l ++ [32]) ++ [c_eq; 32] ++ r)
      by (now rewrite <- app_assoc).
    replace (length l + 1)%nat with (length (l ++ [32])) by (rewrite app_length; reflexivity).
    apply slice_prefix. }
  assert (E2 : slice (unify_text l r) (length l + 1 + 2) (length (unify_text l r)) = Ok r).
  { apply (slice_app_eq _ (l ++ [32; c_eq; 32]) r []).
    - unfold unify_text. now rewrite app_nil_r, <- app_assoc.
    - rewrite app_length. cbn [length]. lia.
    - rewrite unify_text_length, app_length. cbn [length]. lia. }
  rewrite E1. cbn [bind]. rewrite E2. cbn [bind].
  rewrite (parse_term_trim_eq fuel (l ++ [32]) l) by (apply trim_app_white; reflexivity).
  rewrite Pl. cbn [pbind]. rewrite Pr. cbn [pbind pok fst snd infix_goal_name]. reflexivity.
Qed.

(* ---- not(u), time(u) ---- *)
Lemma ltext_wrap name u :
  simple_atom name = true -> ltext u -> ltext (name ++ c_lpar :: u ++ [c_rpar]).
Proof.
  intros Hn Lu. pose proof (simple_atom_word name Hn) as Hw. pose proof Hw as (Hne & Hall & _).
  destruct (simple_atom_no_parens name Hn) as [Hc1 Hc2].
  constructor.
  - apply call_text_nonempty.
  - destruct name as [|c r]; [now elim Hne|]. cbn [app hd].
    pose proof (word_hd _ Hw) as Hc. cbn [hd] in Hc. apply wchar_range in Hc. unfold printable. lia.
  - rewrite last_call_text. unfold printable, c_rpar. lia.
  - left. rewrite app_length. cbn [length]. rewrite app_length. cbn [length]. lia.
  - apply (l_abs_call name u); [now apply wchars_inert|exact Hne|now apply simple_atom_last_lnh|].
    apply l_abs_in, (lt_abs _ Lu).
  - rewrite !count_c_app. cbn [count_c]. rewrite !count_c_app. cbn [count_c].
    rewrite Hc1, Hc2, (lt_bal _ Lu).
    change (c_lpar =? c_lpar) with true. change (c_rpar =? c_lpar) with false.
    change (c_lpar =? c_rpar) with false. change (c_rpar =? c_rpar) with true. lia.
  - unfold nocolon. apply Forall_app. split.
    + eapply Forall_impl; [|exact Hall]. intros c Hc. apply tchar_nocolon. now apply wchar_tchar.
    + constructor; [reflexivity|]. apply Forall_app. split; [apply (lt_nocolon _ Lu)|repeat constructor].
  - apply sqbal_app; [now apply word_sqbal|].
    change (c_lpar :: u ++ [c_rpar]) with ([c_lpar] ++ u ++ [c_rpar]).
    apply sqbal_app; [reflexivity|]. apply sqbal_app; [apply (lt_sqbal _ Lu)|reflexivity].
  - apply Forall_app. split.
    + apply tchars_fileplain. eapply Forall_impl; [|exact Hall]. intros c Hc. now apply wchar_tchar.
    + constructor; [reflexivity|]. apply Forall_app. split; [apply (lt_plain _ Lu)|repeat constructor].
Qed.

Lemma nosp_wrap name u : simple_atom name = true -> Forall (fun c => nosp c = true) u ->
  Forall (fun c => nosp c = true) (name ++ c_lpar :: u ++ [c_rpar]).
Proof.
  intros Hn Hu. pose proof (simple_atom_word name Hn) as (_ & Hall & _).
  apply Forall_app. split.
  - apply tchars_nosp. eapply Forall_impl; [|exact Hall]. intros c Hc. now apply wchar_tchar.
  - constructor; [reflexivity|]. apply Forall_app. split; [exact Hu|repeat constructor].
Qed.

Theorem parse_subgoal_wrap : forall F name k u l,
  (name = g_not /\ k = ONot) \/ (name = g_time /\ k = OTime) ->
  ltext u -> Forall (fun c => nosp c = true) u ->
  parse_subgoal F u = Ok (POk l) ->
  parse_subgoal (S F) (name ++ c_lpar :: u ++ [c_rpar]) = Ok (POk (GOp k [l])).
Proof.
  intros F name k u l Hk Lu Hu Pu.
  assert (Hn : simple_atom name = true) by (destruct Hk as [[-> _]|[-> _]]; reflexivity).
  cbn [parse_subgoal]. rewrite parse_subgoal_split; [|exact Hn| |exact Hu].
  2:{ unfold parens_balanced. apply N.eqb_eq. apply (lt_bal _ Lu). }
  unfold parse_operator_goal. rewrite Pu. cbn [pbind].
  destruct Hk as [[-> ->]|[-> ->]]; reflexivity.
Qed.

(* ---- the leaves ---- *)
Definition is_unify (l : goal) : bool :=
  match l with
  | GBip n (Some _) => str_eqb n g_unify
  | _ => false
  end.

Inductive closed_leaf : goal -> Prop :=
| cl_call f ts : goal_functor f = true -> ts <> [] -> (forall t, In t ts -> canonical t) ->
    closed_leaf (GCall (TComplex (TAtom f :: ts)))
| cl_call0 f : goal_functor0 f = true -> closed_leaf (GCall (TComplex [TAtom f]))
| cl_bip name ts : bip_name name = true -> ts <> [] -> (forall t, In t ts -> canonical t) ->
    closed_leaf (GBip name (Some ts))
| cl_unify l r : canonical l -> canonical r -> closed_leaf (GBip g_unify (Some [l; r]))
| cl_cut : closed_leaf (GBip g_bang None)
| cl_fail : closed_leaf (GBip g_fail None)
| cl_nl : closed_leaf (GBip g_nl None)
| cl_not l : closed_leaf l -> is_unify l = false -> closed_leaf (GOp ONot [l])
| cl_time l : closed_leaf l -> is_unify l = false -> closed_leaf (GOp OTime [l]).

(* the constant leaves *)
Lemma ltext_const u : u <> [] -> Forall (fun c => wchar c = true \/ c = 33) u -> ltext u.
Proof.
  intros Hne Hall.
  assert (Hin : Forall (fun c => inert c = true) u).
  { eapply Forall_impl; [|exact Hall]. intros c [Hc| ->]; [now apply wchar_inert|reflexivity]. }
  assert (Hpr : forall c, wchar c = true \/ c = 33 -> printable c).
  { intros c [Hc| ->]; [apply wchar_range in Hc|]; unfold printable; lia. }
  constructor.
  - exact Hne.
  - destruct u; [now elim Hne|]. inversion Hall; subst. now apply Hpr.
  - apply Hpr. now apply (Forall_last (fun c => wchar c = true \/ c = 33)).
  - right. destruct u; [now elim Hne|]. now inversion Hin.
  - now apply l_abs_inerts.
  - assert (K : forall x, wchar x = false -> x <> 33 -> count_c x u = 0).
    { intros x Hx Hx'. clear -Hall Hx Hx'. induction Hall as [|c u Hc _ IH]; [reflexivity|].
      cbn [count_c]. rewrite IH. destruct (c =? x) eqn:E; [|reflexivity].
      apply N.eqb_eq in E. subst c. destruct Hc as [Hc|Hc]; congruence. }
    rewrite !K by (reflexivity || discriminate). reflexivity.
  - eapply Forall_impl; [|exact Hall]. intros c [Hc| ->]; [|reflexivity].
    apply tchar_nocolon. now apply wchar_tchar.
  - assert (K : forall x, wchar x = false -> x <> 33 -> count_c x u = 0).
    { intros x Hx Hx'. clear -Hall Hx Hx'. induction Hall as [|c u Hc _ IH]; [reflexivity|].
      cbn [count_c]. rewrite IH. destruct (c =? x) eqn:E; [|reflexivity].
      apply N.eqb_eq in E. subst c. destruct Hc as [Hc|Hc]; congruence. }
    unfold sqbal. rewrite !K by (reflexivity || discriminate). reflexivity.
  - eapply Forall_impl; [|exact Hall]. intros c [Hc| ->]; [|reflexivity].
    apply tchar_fileplain. now apply wchar_tchar.
Qed.

Lemma nosp_const u : Forall (fun c => wchar c = true \/ c = 33) u -> Forall (fun c => nosp c = true) u.
Proof.
  intros H. eapply Forall_impl; [|exact H]. intros c [Hc| ->]; [|reflexivity].
  apply tchar_nosp. now apply wchar_tchar.
Qed.

(* everything about a leaf *)
Record leaf_facts (l : goal) (t : str) : Prop := mkLeafFacts {
  lf_show : show_goal l = Ok t;
  lf_text : ltext t;
  lf_nosp : is_unify l = false -> Forall (fun c => nosp c = true) t;
  lf_parse : forall F, (length t + 2 <= F)%nat -> parse_subgoal F t = Ok (POk l) }.

Lemma call_text_ltext f ts : simple_atom f = true -> (forall t, In t ts -> canonical t) ->
  ltext (call_text f (map show_term ts)) /\
  Forall (fun c => nosp c = true) (call_text f (map show_term ts)).
Proof.
  intros Hf Hc.
  assert (Hg : gtext (call_text f (map show_term ts))) by (apply gt_call; [exact Hf|now apply args_gtext]).
  split; [now apply gtext_ltext|now apply gtext_nosp].
Qed.

Theorem closed_leaf_facts l : closed_leaf l -> exists t, leaf_facts l t.
Proof.
  induction 1 as [f ts Hf Hne Hc|f Hf|name ts Hn Hne Hc|l r Hl Hr| | | |l Hl IH Hu|l Hl IH Hu].
  - (* a call *)
    destruct (goal_functor_facts f Hf) as (Hs & Ht & Hnn).
    destruct (call_text_ltext f ts Hs Hc) as [Lt Ns].
    exists (call_text f (map show_term ts)). constructor.
    + cbn [show_goal]. now rewrite show_complex_text.
    + exact Lt.
    + intros _. exact Ns.
    + intros F HF. rewrite parse_subgoal_call_canonical by assumption. now rewrite make_goal_call.
  - (* a call without arguments: f() *)
    destruct (goal_functor0_facts f Hf) as (Hs & Ht & Hnn & Hmk).
    destruct (call_text_ltext f [] Hs ltac:(intros t [])) as [Lt Ns]. cbn [map] in Lt, Ns.
    exists (call_text f []). constructor.
    + reflexivity.
    + exact Lt.
    + intros _. exact Ns.
    + intros F HF. destruct F as [|fuel]; [lia|].
      rewrite parse_subgoal_call_empty by assumption. now rewrite Hmk.
  - (* a built-in predicate in functional notation *)
    unfold bip_name in Hn. apply andb_true_iff in Hn as [Hb Hnu]. apply negb_true_iff in Hnu.
    destruct (bip_facts name Hb) as (Hs & Ht & Hnn & Hmk).
    destruct (call_text_ltext name ts Hs Hc) as [Lt Ns].
    exists (call_text name (map show_term ts)). constructor.
    + cbn [show_goal show_bip]. fold g_unify. rewrite Hnu. now rewrite format_built_in_text.
    + exact Lt.
    + intros _. exact Ns.
    + intros F HF. rewrite parse_subgoal_call_canonical by assumption. now rewrite Hmk.
  - (* l = r *)
    pose proof (canonical_gtext l Hl) as Gl. pose proof (canonical_gtext r Hr) as Gr.
    exists (unify_text (show_term l) (show_term r)). constructor.
    + reflexivity.
    + now apply ltext_unify.
    + intros E. discriminate E.
    + intros F HF. rewrite unify_text_length in HF. destruct F as [|fuel]; [lia|].
      apply parse_subgoal_unify_text; try assumption;
        apply parse_term_show_canonical; try assumption; unfold parse_fuel; lia.
  - exists g_bang. constructor; [reflexivity| | |].
    + apply ltext_const; [discriminate|]. change g_bang with [33]. constructor; [now right|constructor].
    + intros _. change g_bang with [33]. repeat constructor.
    + intros F HF. destruct F as [|fuel]; [cbn in HF; lia|]. reflexivity.
  - exists g_fail. constructor; [reflexivity| | |].
    + apply ltext_const; [discriminate|]. change g_fail with [102; 97; 105; 108].
      repeat (constructor; [now left|]). constructor.
    + intros _. change g_fail with [102; 97; 105; 108]. repeat constructor.
    + intros F HF. destruct F as [|fuel]; [cbn in HF; lia|]. reflexivity.
  - exists g_nl. constructor; [reflexivity| | |].
    + apply ltext_const; [discriminate|]. change g_nl with [110; 108].
      repeat (constructor; [now left|]). constructor.
    + intros _. change g_nl with [110; 108]. repeat constructor.
    + intros F HF. destruct F as [|fuel]; [cbn in HF; lia|]. reflexivity.
  - (* not(l) *)
    destruct IH as (u & [Hs Lu Nu Pu]). specialize (Nu Hu).
    exists (g_not ++ c_lpar :: u ++ [c_rpar]). constructor.
    + cbn [show_goal]. rewrite Hs. reflexivity.
    + now apply ltext_wrap.
    + intros _. now apply nosp_wrap.
    + intros F HF. rewrite app_length in HF. cbn [length] in HF. rewrite app_length in HF.
      cbn [length] in HF. destruct F as [|fuel]; [lia|].
      apply (parse_subgoal_wrap fuel g_not ONot u l); [now left|exact Lu|exact Nu|].
      apply Pu. lia.
  - (* time(l) *)
    destruct IH as (u & [Hs Lu Nu Pu]). specialize (Nu Hu).
    exists (g_time ++ c_lpar :: u ++ [c_rpar]). constructor.
    + cbn [show_goal]. rewrite Hs. reflexivity.
    + now apply ltext_wrap.
    + intros _. now apply nosp_wrap.
    + intros F HF. rewrite app_length in HF. cbn [length] in HF. rewrite app_length in HF.
      cbn [length] in HF. destruct F as [|fuel]; [lia|].
      apply (parse_subgoal_wrap fuel g_time OTime u l); [now right|exact Lu|exact Nu|].
      apply Pu. lia.
Qed.

Lemma closed_leaf_is_leaf l : closed_leaf l -> is_leaf_goal l = true.
Proof. destruct 1; reflexivity. Qed.

(* the hypothesis of Proofs/GoalRoundtrip.v, for the real leaf parser *)
Theorem closed_leaf_ok : forall l F, closed_leaf l ->
  (length (leaf_text l) + 2 <= F)%nat -> leaf_ok (parse_subgoal F) l.
Proof.
  intros l F Hl HF. destruct (closed_leaf_facts l Hl) as (t & [Hs Lt _ Pt]).
  split; [now apply closed_leaf_is_leaf|]. exists t. split; [exact Hs|].
  split; [now apply ltext_neutral|]. apply Pt. unfold leaf_text in HF. now rewrite Hs in HF.
Qed.
