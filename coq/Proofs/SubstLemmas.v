From Coq Require Import Lia.
From Suiron Require Import Model.Term Model.Subst.
Open Scope N_scope.

Lemma nth_error_ss_set_nat_same : forall i ss t, nth_error (ss_set_nat ss i t) i = Some (Some t).
Proof. induction i as [|i IH]; intros [|x r] t; simpl; auto. Qed.

Lemma nth_error_ss_set_nat_other : forall i j ss t, i <> j ->
  (match nth_error (ss_set_nat ss i t) j with Some (Some u) => Some u | _ => None end) =
  (match nth_error ss j with Some (Some u) => Some u | _ => None end).
Proof.
  induction i as [|i IH]; intros [|j] [|x r] t Hne; simpl; try congruence; auto.
  - destruct j; reflexivity.
  - rewrite IH by congruence. destruct j; reflexivity.
Qed.

Lemma ss_get_set_same ss id t : ss_get (ss_set ss id t) id = Some t.
Proof. unfold ss_get, ss_set. now rewrite nth_error_ss_set_nat_same. Qed.

Lemma ss_get_set_other ss id j t : j <> id -> ss_get (ss_set ss id t) j = ss_get ss j.
Proof.
  intro Hne. unfold ss_get, ss_set. apply nth_error_ss_set_nat_other.
  intro H. apply Hne. symmetry. now apply N2Nat.inj.
Qed.

Lemma ss_get_nil id : ss_get [] id = None.
Proof. unfold ss_get. destruct (N.to_nat id); reflexivity. Qed.
