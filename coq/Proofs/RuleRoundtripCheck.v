(* Executable tests for the classes of Proofs/GoalLeafParse.v and Proofs/RuleRoundtripClosed.v:
   closed_leafb / closed_goalb / closed_ruleb = true imply closed_leaf / closed_goal /
   closed_rule, hence the round trip with the real parsers. *)
From Coq Require Import Lia String.
From Suiron Require Import Model.Tokenizer Model.ParseRule Proofs.TokenizerStream Proofs.TokenizerProofs
  Proofs.GoalRoundtrip.
From Suiron Require Import Model.ParseTerm Model.ParseGoal Model.Show Model.ShowGoal.
From Suiron Require Import Proofs.TermRoundtrip Proofs.TermRoundtripComplex Proofs.TermRoundtripMain
  Proofs.TermRoundtripCheck Proofs.GoalLeafParse Proofs.RuleRoundtripClosed.
Open Scope N_scope.

Definition nonemptyb {A} (l : list A) : bool := match l with [] => false | _ => true end.

Fixpoint closed_leafb (l : goal) : bool :=
  match l with
  | GCall (TComplex [TAtom f]) => goal_functor0 f
  | GCall (TComplex (TAtom f :: ts)) => goal_functor f && nonemptyb ts && forallb canonicalb ts
  | GBip name (Some ts) =>
      if str_eqb name g_unify then
        match ts with
        | [a; b] => canonicalb a && canonicalb b
        | _ => false
        end
      else bip_name name && nonemptyb ts && forallb canonicalb ts
  | GBip name None => str_eqb name g_bang || str_eqb name g_fail || str_eqb name g_nl
  | GOp ONot [x] => closed_leafb x && negb (is_unify x)
  | GOp OTime [x] => closed_leafb x && negb (is_unify x)
  | _ => false
  end.

Fixpoint closed_goalb (g : goal) : bool :=
  match g with
  | GOp OAnd gs => (2 <=? length gs)%nat && forallb closed_goalb gs
  | GOp OOr gs => (2 <=? length gs)%nat && forallb closed_goalb gs
  | l => closed_leafb l
  end.

Definition closed_headb (h : term) : bool :=
  match h with
  | TComplex [TAtom f] => goal_functor0 f && (length (show_term h) <=? 1000)%nat
  | TComplex (TAtom f :: ts) =>
      goal_functor f && nonemptyb ts && forallb canonicalb ts && (length (show_term h) <=? 1000)%nat
  | _ => false
  end.

Definition closed_ruleb (r : rule) : bool :=
  closed_headb (r_head r) && (is_gnil (r_body r) || closed_goalb (r_body r)).

Lemma nonemptyb_ne {A} (l : list A) : nonemptyb l = true -> l <> [].
Proof. destruct l; [discriminate|discriminate]. Qed.

Lemma forallb_canonical ts : forallb canonicalb ts = true -> forall t, In t ts -> canonical t.
Proof. intros H t Ht. rewrite forallb_forall in H. apply canonicalb_sound. now apply H. Qed.

Theorem closed_leafb_sound : forall l, closed_leafb l = true -> closed_leaf l.
Proof.
  induction l as [k gs IH|name ots|t|] using goal_ind'; intros H; cbn [closed_leafb] in H;
    try discriminate.
  - destruct k; try discriminate.
    + destruct gs as [|x [|y gs']]; try discriminate. inversion IH as [|? ? IHx _]; subst.
      apply andb_true_iff in H as [Hx Hu]. apply negb_true_iff in Hu.
      apply cl_time; [now apply IHx|exact Hu].
    + destruct gs as [|x [|y gs']]; try discriminate. inversion IH as [|? ? IHx _]; subst.
      apply andb_true_iff in H as [Hx Hu]. apply negb_true_iff in Hu.
      apply cl_not; [now apply IHx|exact Hu].
  - destruct ots as [ts|].
    + destruct (str_eqb name g_unify) eqn:Eu.
      * apply str_eqb_eq in Eu. subst name.
        destruct ts as [|a [|b [|c ts']]]; try discriminate.
        apply andb_true_iff in H as [Ha Hb].
        apply cl_unify; now apply canonicalb_sound.
      * apply andb_true_iff in H as [H Hts]. apply andb_true_iff in H as [Hn Hne].
        apply cl_bip; [exact Hn|now apply nonemptyb_ne|now apply forallb_canonical].
    + apply orb_true_iff in H as [H|H]; [apply orb_true_iff in H as [H|H]|];
        apply str_eqb_eq in H; subst name; constructor.
  - destruct t as [| | | | | |ts| |]; try discriminate.
    destruct ts as [|[| |f| | | | | |] ts']; try discriminate.
    destruct ts' as [|t1 ts2]; [now apply cl_call0|].
    apply andb_true_iff in H as [H Hts]. apply andb_true_iff in H as [Hf Hne].
    apply cl_call; [exact Hf|now apply nonemptyb_ne|now apply forallb_canonical].
Qed.

Theorem closed_goalb_sound : forall g, closed_goalb g = true -> closed_goal g.
Proof.
  induction g as [k gs IH|name ots|t|] using goal_ind'; intros H.
  - destruct k.
    + cbn [closed_goalb] in H. apply andb_true_iff in H as [Hlen Hgs]. apply Nat.leb_le in Hlen.
      apply cg_and; [exact Hlen|]. intros g Hg. rewrite Forall_forall in IH. apply (IH g Hg).
      rewrite forallb_forall in Hgs. now apply Hgs.
    + cbn [closed_goalb] in H. apply andb_true_iff in H as [Hlen Hgs]. apply Nat.leb_le in Hlen.
      apply cg_or; [exact Hlen|]. intros g Hg. rewrite Forall_forall in IH. apply (IH g Hg).
      rewrite forallb_forall in Hgs. now apply Hgs.
    + apply cg_leaf. now apply closed_leafb_sound.
    + apply cg_leaf. now apply closed_leafb_sound.
  - apply cg_leaf. now apply closed_leafb_sound.
  - apply cg_leaf. now apply closed_leafb_sound.
  - discriminate H.
Qed.

Theorem closed_ruleb_sound : forall r, closed_ruleb r = true -> closed_rule r.
Proof.
  intros [h b] H. unfold closed_ruleb in H. cbn [r_head r_body] in H.
  apply andb_true_iff in H as [Hh Hb]. split; cbn [r_head r_body].
  - unfold closed_headb in Hh. destruct h as [| | | | | |ts| |]; try discriminate.
    destruct ts as [|[| |f| | | | | |] ts']; try discriminate.
    destruct ts' as [|t1 ts2].
    { apply andb_true_iff in Hh as [Hf Hlen]. apply Nat.leb_le in Hlen. now apply ch_intro0. }
    apply andb_true_iff in Hh as [Hh Hlen]. apply andb_true_iff in Hh as [Hh Hts].
    apply andb_true_iff in Hh as [Hf Hne]. apply Nat.leb_le in Hlen.
    apply ch_intro; [exact Hf|now apply nonemptyb_ne|now apply forallb_canonical|exact Hlen].
  - apply orb_true_iff in Hb as [Hb|Hb].
    + left. destruct b; try discriminate. reflexivity.
    + right. now apply closed_goalb_sound.
Qed.

Corollary closed_ruleb_roundtrip : forall r,
  closed_ruleb r = true ->
  let s := rule_text r in
  show_rule r = Ok s /\
  parse_rule (parse_subgoal (length s + 2)) (parse_complex (length s + 2)) (2 * length s + 3) s =
  Ok (POk r).
Proof.
  intros r H s. apply roundtrip_rule_closed; [now apply closed_ruleb_sound| |]; apply le_n.
Qed.
