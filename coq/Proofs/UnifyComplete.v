(* C06: unification is COMPLETE and returns a MOST GENERAL unifier (Spec/SpecUnifySem.v,
   `general_complete`): whenever `unify` returns, every valuation that solves the input substitution
   set and gives both terms the same value also solves the result - in particular the result is
   not a failure.  For ALL terms and substitution sets: `$_` (denotes anything), NaN (denotes
   nothing), lists with tail variables, any functor; function terms denote nothing here (C13).

   The invariant is the classical one - "sigma solves the current set and equalises the pairs still
   to be unified": every failing branch of `unify_body` contradicts the existence of sigma, every
   binding `id := t` is justified because sigma id is the common value. *)
From Coq Require Import Lia.
From Flocq Require Import IEEE754.Binary IEEE754.Bits.
From Suiron Require Import Model.Term Model.Subst Model.Show Model.Lists Model.Arith Model.Unify
  Spec.SpecUnifySem Proofs.SubstLemmas.
Open Scope N_scope.

(* ---- floats: IEEE == is equality of values, except on NaN ---- *)
Lemma compopp_eq c : CompOpp c = Eq -> c = Eq.
Proof. destruct c; auto; discriminate. Qed.

Lemma feqb_fkey a b : feqb a b = true -> fkey a = fkey b.
Proof.
  unfold feqb, fcmp, Bcompare.
  destruct a as [sa|sa|sa pa Ha|sa ma ea Ha], b as [sb|sb|sb pb Hb|sb mb eb Hb]; cbn; try discriminate;
    try reflexivity; try (destruct sa; discriminate); try (destruct sb; discriminate).
  - destruct sa, sb; try discriminate; reflexivity.
  - destruct sa, sb; try discriminate;
      (destruct (Z.compare ea eb) eqn:Ez; try discriminate); apply Z.compare_eq in Ez; subst;
      (destruct (Pos.compare_cont Eq ma mb) eqn:Ep; cbn; try discriminate);
      apply Pos.compare_eq in Ep; now subst.
Qed.

Lemma fkey_feqb a b : fkey a = fkey b -> f64_is_nan a = false -> feqb a b = true.
Proof.
  unfold feqb, fcmp, Bcompare, f64_is_nan.
  destruct a as [sa|sa|sa pa Ha|sa ma ea Ha], b as [sb|sb|sb pb Hb|sb mb eb Hb]; cbn; try discriminate;
    try reflexivity.
  - intros H _. inversion H; subst. destruct sb; reflexivity.
  - intros H _. inversion H; subst. rewrite Z.compare_refl.
    change (Pos.compare_cont Eq mb mb) with (Pos.compare mb mb). rewrite Pos.compare_refl.
    destruct sb; reflexivity.
Qed.

(* ---- completeness and generality ---- *)
Definition gc (rec : term -> term -> subst -> res (option subst)) : Prop :=
  forall a b ss r sigma tr, rec a b ss = Ok r ->
    solvesr sigma ss -> dens sigma a tr -> dens sigma b tr ->
    exists ss', r = Some ss' /\ solvesr sigma ss'.

Lemma solvesr_nil sigma : solvesr sigma [].
Proof. intros id t H. now rewrite ss_get_nil in H. Qed.

Lemma solvesr_set sigma ss id t : solvesr sigma ss -> dens sigma t (sigma id) ->
  solvesr sigma (ss_set ss id t).
Proof.
  intros Hs Ht j u Hj. destruct (N.eq_dec j id) as [->|Hne].
  - rewrite ss_get_set_same in Hj. now inversion Hj; subst.
  - rewrite ss_get_set_other in Hj by assumption. eauto.
Qed.

Lemma Forall2_len {A B} (R : A -> B -> Prop) l l' : Forall2 R l l' -> length l = length l'.
Proof. induction 1; simpl; congruence. Qed.

Section Body.
  Variable rec : term -> term -> subst -> res (option subst).
  Hypothesis Hrec : gc rec.
  Variable sigma : valuation.

  Lemma unify_args_gc : forall ls trs, Forall2 (dens sigma) ls trs ->
    forall rs, Forall2 (dens sigma) rs trs ->
    forall s s2 r, solvesr sigma s -> solvesr sigma s2 -> unify_args rec ls rs s s2 = Ok r ->
    exists ss', r = Some ss' /\ solvesr sigma ss'.
  Proof.
    induction 1 as [|l tr ls trs Hl Hls IH]; intros rs Hrs s s2 r Hs H2 H.
    - cbn in H. inversion H; subst. eauto.
    - inversion Hrs as [|r0 tr0 rs0 trs0 Hr Hrs0]; subst. cbn [unify_args] in H.
      destruct (is_anon l || is_anon r0).
      + exact (IH _ Hrs0 _ _ _ Hs H2 H).
      + destruct (rec l r0 s) as [u| |] eqn:E; cbn [bind] in H; try discriminate.
        destruct (Hrec _ _ _ _ _ _ E Hs Hl Hr) as (s1 & -> & Hs1).
        exact (IH _ Hrs0 _ _ _ Hs1 Hs1 H).
  Qed.

  Lemma unify_lists_gc : forall this tr, densl sigma this tr ->
    forall other, densl sigma other tr ->
    forall s r, solvesr sigma s -> unify_lists rec this other s = Ok r ->
    exists ss', r = Some ss' /\ solvesr sigma ss'.
  Proof.
    induction 1 as [nx c|h nx c a b Hh Hda Hdb IH|h nx c tr Hd]; intros other Ho s r Hs H.
    - (* this = [] *)
      inversion Ho as [onx oc|? ? ? ? ? ? ? ?|oh onx oc otr Hoh]; subst; cbn in H.
      + inversion H; subst. eauto.
      + eapply Hrec; [exact H|exact Hs|exact Hoh|]. constructor. constructor.
    - (* this = [h | nx] *)
      inversion Ho as [|oh onx oc oa ob Hoh Hoa Hob|oh onx oc otr Hoh]; subst.
      + cbn [unify_lists is_nil orb andb] in H. rewrite Hh in H. cbn [andb] in H.
        destruct (rec h oh s) as [u| |] eqn:E; cbn [bind] in H; try discriminate.
        destruct (Hrec _ _ _ _ _ _ E Hs Hda Hoa) as (s1 & -> & Hs1).
        eapply IH; eauto.
      + cbn in H. eapply Hrec; [exact H|exact Hs|exact Hoh|]. constructor. now constructor.
    - (* this = a tail node *)
      inversion Ho as [onx oc|oh onx oc oa ob Hoh Hoa Hob|oh onx oc otr Hoh]; subst.
      + cbn in H. eapply Hrec; [exact H|exact Hs|exact Hd|]. constructor. constructor.
      + cbn in H. eapply Hrec; [exact H|exact Hs|exact Hd|]. constructor. now constructor.
      + cbn [unify_lists is_nil orb andb] in H.
        destruct (is_anon oh); [inversion H; subst; eauto|].
        destruct (is_anon h); [inversion H; subst; eauto|].
        eapply Hrec; eauto.
  Qed.

  Ltac nolist := try (match goal with Hx : densl _ (TList _ _ _ false) _ |- _ => now inversion Hx end).

  Lemma unify_body_gc f : forall a b ss r tr, unify_body rec f a b ss = Ok r ->
    solvesr sigma ss -> dens sigma a tr -> dens sigma b tr ->
    exists ss', r = Some ss' /\ solvesr sigma ss'.
  Proof.
    intros a b ss r tr H Hs Ha Hb. unfold unify_body in H.
    destruct (term_eqb a b); [inversion H; subst; eauto|].
    destruct (is_anon b) eqn:Eanon; [inversion H; subst; eauto|].
    assert (forall o, rec b a ss = Ok o -> exists ss', o = Some ss' /\ solvesr sigma ss') as Hswap.
    { intros o E. eapply Hrec; eauto. }
    pose proof Ha as Ha0.
    inversion Ha as [tr0|s|z|fl Hnan|id n|ts trs Hts|h nx c tr0 Hl]; subst.
    - inversion H; subst; eauto.
    - inversion Hb; subst; try discriminate; try (apply Hswap; exact H); nolist.
      rewrite str_eqb_refl in H. inversion H; subst; eauto.
    - inversion Hb; subst; try discriminate; try (apply Hswap; exact H); nolist.
      rewrite Z.eqb_refl in H. inversion H; subst; eauto.
    - inversion Hb as [| | |fl2 Hnan2 E2| | |]; subst; try discriminate; try (apply Hswap; exact H); nolist.
      rewrite (fkey_feqb fl fl2) in H by auto. inversion H; subst; eauto.
    - destruct (id =? 0); [discriminate|].
      assert (match ss_get ss id with
              | Some u => rec u b ss
              | None => do al <- chain_reaches f id b ss;
                        Ok (Some (if al then ss else ss_set ss id b))
              end = Ok r) as H'
        by (destruct b; try exact H; inversion Hb).
      clear H. destruct (ss_get ss id) as [u|] eqn:Eg.
      + eapply Hrec; [exact H'|exact Hs| |exact Hb]. apply Hs, Eg.
      + destruct (chain_reaches f id b ss) as [al| |]; cbn [bind] in H'; try discriminate.
        inversion H'; subst. destruct al; [eauto|].
        eexists; split; [reflexivity|]. apply solvesr_set; assumption.
    - inversion Hb as [| | | |id n E|ots trs2 Hots E|]; subst; try discriminate; try (apply Hswap; exact H); nolist.
      rewrite (Forall2_len _ _ _ Hts), <- (Forall2_len _ _ _ Hots), Nat.eqb_refl in H. cbn [negb] in H.
      eapply unify_args_gc; [exact Hts|exact Hots|exact Hs|apply solvesr_nil|exact H].
    - inversion Hb as [tr1|s E|z E|fl Hnan E|id n E|ots trs2 Hots E|oh onx oc tr1 Hol]; subst;
        try discriminate; try (apply Hswap; exact H); try (inversion Hl; fail).
      exact (unify_lists_gc _ _ Hl _ Hol _ _ Hs H).
  Qed.
End Body.

Theorem unify_gc : forall fuel, gc (unify fuel).
Proof.
  induction fuel as [|f IH]; intros a b ss r sigma tr H; [discriminate|].
  cbn [unify] in H. eapply unify_body_gc; eauto.
Qed.

Theorem unify_general_complete : general_complete unify.
Proof. intros fuel a b ss r sigma tr. apply unify_gc. Qed.
