(* C06/C07 on plain terms, with the value FUNCTION `den`: on plain terms the relation `dens` is
   the graph of `den`; hence most-general / complete / sound in functional form, and symmetry (C07):
   if one order succeeds with a solvable result, the other order does not fail, and both results
   have exactly the same solutions. *)
From Coq Require Import Lia.
From Suiron Require Import Model.Term Model.Subst Model.Show Model.Lists Model.Arith Model.Unify
  Spec.SpecUnify Spec.SpecUnifySem Proofs.SubstLemmas Proofs.UnifyComplete Proofs.UnifySemSound.
Open Scope N_scope.

Section Graph.
  Variable sigma : valuation.

  Lemma pl_dens : forall t,
    (pl false t = true -> dens sigma t (den sigma t)) /\
    (pl true t = true -> densl sigma t (den sigma t)).
  Proof.
    induction t as [| |a0|f0|z0|id0 nm0|ts Hts|h nx c tv IHh IHn|nm args Hargs] using term_ind';
      (split; intro P; try discriminate P); try (cbn [den]; constructor; fail).
    - cbn [pl negb andb] in P. cbn [den]. constructor. now destruct (f64_is_nan f0).
    - cbn [den]. constructor. destruct ts as [|f rest]; [discriminate P|]. destruct f; try discriminate P.
      cbn [pl negb andb] in P. inversion Hts as [|? ? Hf Hrest]; subst.
      cbn [map]. constructor; [constructor|].
      clear Hf Hts. induction Hrest as [|x l Hx Hl IH]; [constructor|].
      cbn [forallb] in P. apply andb_true_iff in P as [P1 P2]. cbn [map]. constructor; [apply Hx, P1|auto].
    - destruct ts as [|f rest]; [discriminate P|]. destruct f; discriminate P.
    - cbn [pl] in P. destruct tv; [discriminate P|]. cbn [den]. constructor.
      destruct (is_nil h) eqn:Eh.
      + destruct h; try discriminate Eh. constructor.
      + apply andb_true_iff in P as [P1 P2]. constructor; [exact Eh|apply IHh, P1|apply IHn, P2].
    - cbn [pl] in P. destruct tv.
      + cbn [andb] in P. destruct h; try discriminate P. cbn [den]. constructor. constructor.
      + cbn [den]. destruct (is_nil h) eqn:Eh.
        * destruct h; try discriminate Eh. constructor.
        * apply andb_true_iff in P as [P1 P2]. constructor; [exact Eh|apply IHh, P1|apply IHn, P2].
  Qed.

  Lemma plain_dens t : plain t = true -> dens sigma t (den sigma t).
  Proof. apply pl_dens. Qed.

  Lemma pl_dens_fun : forall t,
    (pl false t = true -> forall tr, dens sigma t tr -> tr = den sigma t) /\
    (pl true t = true -> forall tr, densl sigma t tr -> tr = den sigma t).
  Proof.
    induction t as [| |a0|f0|z0|id0 nm0|ts Hts|h nx c tv IHh IHn|nm args Hargs] using term_ind';
      (split; intros P tr D; try discriminate P); try (inversion D; subst; reflexivity; fail).
    - inversion D as [| | | | |ts' trs HF|]; subst. cbn [den]. f_equal.
      destruct ts as [|f rest]; [discriminate P|]. destruct f; try discriminate P.
      cbn [pl negb andb] in P. inversion Hts as [|? ? Hf Hrest]; subst.
      inversion HF as [|? tr0 ? trs0 Hd0 HF0]; subst. cbn [map]. f_equal; [now inversion Hd0|].
      clear Hf Hts HF D Hd0. revert trs0 HF0. induction Hrest as [|x l Hx Hl IH]; intros trs0 HF0.
      + now inversion HF0.
      + inversion HF0 as [|? tr1 ? trs1 Hd1 HF1]; subst.
        cbn [forallb] in P. apply andb_true_iff in P as [P1 P2]. cbn [map]. f_equal; [apply (proj1 Hx); assumption|auto].
    - cbn [pl] in P. destruct tv; [discriminate P|]. inversion D as [| | | | | |? ? ? ? Dl]; subst.
      cbn [den]. inversion Dl as [|? ? ? a b Eh Da Db|]; subst; [reflexivity|].
      rewrite Eh in *. apply andb_true_iff in P as [P1 P2].
      now rewrite (proj1 IHh P1 _ Da), (proj2 IHn P2 _ Db).
    - cbn [pl] in P. cbn [den]. destruct tv.
      + cbn [andb] in P. inversion D as [| |? ? ? ? Dh]; subst.
        destruct h; try discriminate P. now inversion Dh.
      + inversion D as [|? ? ? a b Eh Da Db|]; subst; [reflexivity|].
        rewrite Eh in *. apply andb_true_iff in P as [P1 P2].
        now rewrite (proj1 IHh P1 _ Da), (proj2 IHn P2 _ Db).
  Qed.

  Lemma plain_dens_fun t tr : plain t = true -> dens sigma t tr -> tr = den sigma t.
  Proof. intro P. apply (proj1 (pl_dens_fun t) P). Qed.

  Lemma solves_solvesr ss : plain_ss ss -> solves sigma ss -> solvesr sigma ss.
  Proof. intros P H id t Hg. rewrite (H _ _ Hg). apply plain_dens. eauto. Qed.

  Lemma solvesr_solves ss : plain_ss ss -> solvesr sigma ss -> solves sigma ss.
  Proof. intros P H id t Hg. apply plain_dens_fun; eauto. Qed.
End Graph.

(* ---- most general and complete, in functional form ---- *)
Theorem unify_general_complete_fun : forall fuel a b ss r sigma,
  plain a = true -> plain b = true -> plain_ss ss ->
  unify fuel a b ss = Ok r ->
  solves sigma ss -> den sigma a = den sigma b ->
  exists ss', r = Some ss' /\ solves sigma ss'.
Proof.
  intros fuel a b ss r sigma Pa Pb Ps H Hs Hd.
  destruct (unify_gc fuel a b ss r sigma (den sigma a) H (solves_solvesr _ _ Ps Hs)
              (plain_dens _ _ Pa) ltac:(rewrite Hd; apply plain_dens, Pb)) as (ss' & -> & Hs').
  exists ss'. split; [reflexivity|].
  destruct (unify_ssound fuel a b ss ss' Pa Pb Ps H) as (P' & _ & _).
  apply solvesr_solves; assumption.
Qed.

(* ---- C07: symmetry ---- *)
Theorem unify_symmetric : forall fuel fuel' a b ss s1 r2 sigma0,
  plain a = true -> plain b = true -> plain_ss ss ->
  unify fuel a b ss = Ok (Some s1) -> solves sigma0 s1 ->
  unify fuel' b a ss = Ok r2 ->
  exists s2, r2 = Some s2 /\ forall sigma, solves sigma s1 <-> solves sigma s2.
Proof.
  intros fuel fuel' a b ss s1 r2 sigma0 Pa Pb Ps H1 Hs0 H2.
  destruct (unify_sound_sem fuel a b ss s1 Pa Pb Ps H1) as (P1 & K1 & S1).
  destruct (S1 sigma0 Hs0) as [Hss0 Hd0].
  destruct (unify_general_complete_fun fuel' b a ss r2 sigma0 Pb Pa Ps H2 Hss0 (eq_sym Hd0)) as (s2 & -> & _).
  exists s2. split; [reflexivity|].
  destruct (unify_sound_sem fuel' b a ss s2 Pb Pa Ps H2) as (P2 & K2 & S2).
  intro sigma. split; intro Hsg.
  - destruct (S1 sigma Hsg) as [Hss Hd].
    destruct (unify_general_complete_fun fuel' b a ss _ sigma Pb Pa Ps H2 Hss (eq_sym Hd)) as (s & E & Hs).
    now inversion E; subst.
  - destruct (S2 sigma Hsg) as [Hss Hd].
    destruct (unify_general_complete_fun fuel a b ss _ sigma Pa Pb Ps H1 Hss (eq_sym Hd)) as (s & E & Hs).
    now inversion E; subst.
Qed.
