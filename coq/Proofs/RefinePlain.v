(* Cut-free ("plain") goals and programs: the nodes of a search over them never carry a cut
   flag and never report a cut. *)
From Coq Require Import Lia.
From Suiron Require Import Model.Term Model.Subst Model.Show Model.Lists Model.Arith Model.Unify
  Model.Compare Model.Builtins Model.Rename Model.Solve Proofs.RenameProofs.
Open Scope N_scope.

Fixpoint plain (g : goal) : bool :=
  match g with
  | GCall _ => true
  | GBip f _ => negb (str_eqb f n_cut)
  | GOp OAnd gs | GOp OOr gs =>
      (fix all (l : list goal) : bool := match l with [] => true | x :: l' => plain x && all l' end) gs
  | _ => false
  end.

Lemma plain_op_forallb k gs : (k = OAnd \/ k = OOr) -> plain (GOp k gs) = forallb plain gs.
Proof. intros [->| ->]; simpl; induction gs as [|x l IH]; simpl; auto; now rewrite IH. Qed.

Definition plain_rule (r : rule) : bool := is_gnil (r_body r) || plain (r_body r).
Definition plain_kb (kb : kbase) : Prop :=
  forall key rs, kb_get kb key = Some rs -> forallb plain_rule rs = true.

(* renaming does not touch what `plain` looks at *)
Lemma plain_erase : forall g, plain (erase_goal g) = plain g.
Proof.
  induction g as [k gs Hgs|f ts|t|] using goal_ind'; try reflexivity.
  - destruct k; try reflexivity; cbn [erase_goal];
      rewrite !plain_op_forallb by auto; induction Hgs as [|x l Hx _ IH]; simpl; auto; now rewrite Hx, IH.
  - destruct ts; reflexivity.
Qed.

Lemma gnil_erase g : is_gnil (erase_goal g) = is_gnil g.
Proof. destruct g as [k gs|f ts|t|]; try reflexivity. destruct ts; reflexivity. Qed.

Lemma get_rule_plain kb key idx ctr r ctr' :
  plain_kb kb -> get_rule kb key idx ctr = Ok (r, ctr') -> plain_rule r = true.
Proof.
  intros Hk H. destruct (get_rule_spec _ _ _ _ _ _ H) as (r0 & rules & Hg & Hn & He & _).
  pose proof (Hk _ _ Hg) as Hall. rewrite forallb_forall in Hall.
  specialize (Hall r0 (nth_error_In _ _ Hn)).
  unfold plain_rule in *. unfold erase_rule in He. inversion He as [[H1 H2]].
  rewrite <- (gnil_erase (r_body r)), <- (plain_erase (r_body r)), H2, gnil_erase, plain_erase. exact Hall.
Qed.

(* ---- nodes of a plain search ---- *)
Fixpoint pnode (nd : node) : Prop :=
  match nd with
  | NBip fn _ _ nobt _ => nobt = false /\ str_eqb fn n_cut = false
  | NCall _ _ nobt child _ _ => nobt = false /\ match child with Some c => pnode c | None => True end
  | NOp k _ nobt _ head tail optail =>
      (k = OAnd \/ k = OOr) /\ nobt = false /\
      match head with Some h => pnode h | None => True end /\
      match tail with Some t => pnode t | None => True end /\
      match optail with Some tl => forallb plain tl = true | None => True end
  end.

Lemma pnode_nobt nd : pnode nd -> node_nobt nd = false.
Proof. destruct nd; simpl; intuition. Qed.

Lemma make_node_pnode kb : forall g ss w nd w', plain g = true -> make_node kb g ss w = Ok (nd, w') -> pnode nd.
Proof.
  induction g as [k gs Hgs|f ts|t|] using goal_ind'; intros ss w nd w' Hp H; try discriminate.
  - destruct k; try discriminate; destruct gs as [|h tl]; try discriminate; cbn [make_node] in H;
      (destruct (make_node kb h ss w) as [[hn w1]| |] eqn:E; cbn [bind] in H; try discriminate);
      inversion H; subst; inversion Hgs as [|? ? Hh Htl]; subst;
      rewrite plain_op_forallb in Hp by auto; simpl in Hp; apply andb_true_iff in Hp as [P1 P2];
      simpl; repeat split; auto; eapply Hh; eauto.
  - simpl in H. inversion H; subst. simpl in Hp. simpl. split; [reflexivity|]. now apply negb_true_iff in Hp.
  - simpl in H. destruct (term_key t) as [key| |]; cbn [bind] in H; try discriminate.
    destruct (count_rules kb key w) as [n w1]. inversion H; subst. simpl. auto.
Qed.

Lemma run_bip_no_cut bf fn ts ss r : str_eqb fn n_cut = false -> run_bip bf fn ts ss = Ok r -> br_cut r = false.
Proof.
  intros Hn H. unfold run_bip in H. rewrite Hn in H.
  repeat match type of H with
         | (if ?c then _ else _) = _ => destruct c
         end;
    try discriminate;
    try (unfold pure_bip in H;
         match type of H with bind ?e _ = _ => destruct e; cbn [bind] in H; try discriminate end;
         inversion H; reflexivity);
    try (match type of H with bind ?e _ = _ => destruct e; cbn [bind] in H; try discriminate end;
         inversion H; reflexivity);
    try (inversion H; reflexivity).
  destruct ts as [[|l [|r0 rest]]|]; try discriminate; try (inversion H; reflexivity);
    unfold pure_bip in H;
    match type of H with bind ?e _ = _ => destruct e; cbn [bind] in H; try discriminate end;
    inversion H; reflexivity.
Qed.

Tactic Notation "dbind" hyp(H) "as" ident(n) ident(o) ident(b) ident(w) ident(E) :=
  match type of H with
  | bind ?e _ = Ok _ => destruct e as [[[[n o] b] w]| |] eqn:E; cbn [bind] in H; try discriminate
  end.
Tactic Notation "dbind2" hyp(H) "as" ident(x) ident(y) ident(E) :=
  match type of H with
  | bind ?e _ = Ok _ => destruct e as [[x y]| |] eqn:E; cbn [bind] in H; try discriminate
  end.
Tactic Notation "dbind1" hyp(H) "as" ident(x) ident(E) :=
  match type of H with
  | bind ?e _ = Ok _ => destruct e as [x| |] eqn:E; cbn [bind] in H; try discriminate
  end.

Section Plain.
  Variable kb : kbase.
  Variable bf : nat.
  Hypothesis Hkb : plain_kb kb.

  Definition pn_next (fuel : nat) : Prop :=
    forall nd w nd' r c w', pnode nd -> next kb bf fuel nd w = Ok (nd', r, c, w') -> c = false /\ pnode nd'.
  Definition pn_and (fuel : nat) : Prop :=
    forall ss more head tail optail acc w nd' r c w',
      match head with Some h => pnode h | None => True end ->
      match tail with Some t => pnode t | None => True end ->
      match optail with Some tl => forallb plain tl = true | None => True end ->
      and_loop kb bf fuel ss false more head tail optail acc w = Ok (nd', r, c, w') -> c = acc /\ pnode nd'.
  Definition pn_call (fuel : nat) : Prop :=
    forall t ss child idx n w nd' r c w',
      match child with Some c0 => pnode c0 | None => True end ->
      call_loop kb bf fuel t ss false child idx n w = Ok (nd', r, c, w') -> c = false /\ pnode nd'.

  Lemma pn_all : forall fuel, pn_next fuel /\ pn_and fuel /\ pn_call fuel.
  Proof.
    induction fuel as [|f (IHn & IHa & IHc)].
    { split; [|split]; red; intros; match goal with H : _ = Ok _ |- _ => discriminate H end. }
    split; [|split].
    - intros nd w nd' r c w' Hp H. rewrite next_S in H. unfold next_body in H.
      rewrite (pnode_nobt _ Hp) in H.
      destruct nd as [t ss nobt child idx n|k ss nobt more head tail optail|fn ts ss nobt more]; simpl in Hp.
      + destruct Hp as [-> Hc]. destruct child as [c0|].
        * dbind H as n1 o1 b1 w1 E1. destruct (IHn _ _ _ _ _ _ Hc E1) as [-> P1]. cbn [orb] in H.
          destruct o1 as [s|].
          -- inversion H; subst. simpl. auto.
          -- exact (IHc _ _ None _ _ _ _ _ _ _ I H).
        * exact (IHc _ _ None _ _ _ _ _ _ _ I H).
      + destruct Hp as (Hk & -> & Hh & Ht & Ho). destruct Hk as [-> | ->].
        * destruct tail as [t0|].
          -- dbind H as n1 o1 b1 w1 E1. destruct (IHn _ _ _ _ _ _ Ht E1) as [-> P1]. cbn [orb] in H.
             destruct o1 as [s|].
             ++ inversion H; subst. simpl. repeat split; auto.
             ++ exact (IHa _ _ head (Some n1) optail _ _ _ _ _ _ Hh P1 Ho H).
          -- exact (IHa _ _ head None optail _ _ _ _ _ _ Hh I Ho H).
        * destruct tail as [t0|].
          -- dbind H as n1 o1 b1 w1 E1. destruct (IHn _ _ _ _ _ _ Ht E1) as [-> P1]. cbn [orb] in H.
             inversion H; subst. simpl. repeat split; auto.
          -- destruct head as [h|]; [|inversion H; subst; simpl; repeat split; auto].
             dbind H as n1 o1 b1 w1 E1. destruct (IHn _ _ _ _ _ _ Hh E1) as [-> P1]. cbn [orb] in H.
             destruct o1 as [s|]; [inversion H; subst; simpl; repeat split; auto|].
             destruct optail as [tl|]; [|inversion H; subst; simpl; repeat split; auto].
             destruct (length tl =? 0)%nat; [inversion H; subst; simpl; repeat split; auto|].
             dbind2 H as t1 w2 E2. dbind H as n3 o3 b3 w3 E3.
             assert (pnode t1) as Pt.
             { eapply make_node_pnode; [|exact E2]. rewrite plain_op_forallb by auto. exact Ho. }
             destruct (IHn _ _ _ _ _ _ Pt E3) as [-> P3]. inversion H; subst. simpl. repeat split; auto.
      + destruct Hp as [-> Hn]. destruct more; cbn [negb] in H.
        * dbind1 H as r1 E1. rewrite (run_bip_no_cut _ _ _ _ _ Hn E1) in H. inversion H; subst. simpl. auto.
        * inversion H; subst. simpl. auto.
    - intros ss more head tail optail acc w nd' r c w' Hh Ht Ho H. rewrite and_loop_S in H. unfold and_body in H.
      destruct head as [h|]; [|inversion H; subst; simpl; repeat split; auto].
      dbind H as n1 o1 b1 w1 E1. destruct (IHn _ _ _ _ _ _ Hh E1) as [-> P1]. cbn [orb] in H.
      rewrite orb_false_r in H.
      destruct o1 as [s|]; [|inversion H; subst; simpl; repeat split; auto].
      destruct optail as [tl|]; [|inversion H; subst; simpl; repeat split; auto].
      destruct (length tl =? 0)%nat; [inversion H; subst; simpl; repeat split; auto|].
      dbind2 H as t1 w2 E2. dbind H as n3 o3 b3 w3 E3.
      assert (pnode t1) as Pt.
      { eapply make_node_pnode; [|exact E2]. rewrite plain_op_forallb by auto. exact Ho. }
      destruct (IHn _ _ _ _ _ _ Pt E3) as [-> P3]. rewrite orb_false_r in H. cbn [orb] in H.
      destruct o3 as [s2|]; [inversion H; subst; simpl; repeat split; auto|].
      exact (IHa _ _ (Some n1) (Some n3) (Some tl) _ _ _ _ _ _ P1 P3 Ho H).
    - intros t ss child idx n w nd' r c w' Hc H. rewrite call_loop_S in H. unfold call_body in H.
      destruct (n <=? idx); [inversion H; subst; simpl; auto|].
      dbind1 H as key Ek. dbind2 H as r0 ctr Eg. dbind1 H as u Eu.
      destruct u as [s|]; [|exact (IHc _ _ child _ _ _ _ _ _ _ Hc H)].
      destruct (is_gnil (r_body r0)) eqn:Egn; [inversion H; subst; simpl; auto|].
      dbind2 H as c0 w2 E2. dbind H as n3 o3 b3 w3 E3.
      assert (pnode c0) as Pc.
      { eapply make_node_pnode; [|exact E2]. pose proof (get_rule_plain _ _ _ _ _ _ Hkb Eg) as Hr.
        unfold plain_rule in Hr. rewrite Egn in Hr. exact Hr. }
      destruct (IHn _ _ _ _ _ _ Pc E3) as [-> P3]. cbn [orb] in H.
      destruct o3 as [s2|]; [inversion H; subst; simpl; auto|].
      exact (IHc _ _ (Some n3) _ _ _ _ _ _ _ P3 H).
  Qed.

  Theorem pnode_next fuel nd w nd' r c w' :
    pnode nd -> next kb bf fuel nd w = Ok (nd', r, c, w') -> c = false /\ pnode nd'.
  Proof. apply (proj1 (pn_all fuel)). Qed.
End Plain.
