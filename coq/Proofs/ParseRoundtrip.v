(* Printing an integer and parsing the text gives the integer back (a first piece of C19 at
   term level; it is also what makes C20's repair observable: negative literals). *)
From Coq Require Import Lia String DecimalPos Decimal.
From Suiron Require Import Model.ParseTerm Model.Show Proofs.ParseTermProofs.
Open Scope N_scope.

(* ---- decimal digits ---- *)
Lemma digits_val_acc d : forall acc,
  digits_val (uint_digits d) (Zpos acc) = Some (Zpos (Pos.of_uint_acc d acc)).
Proof.
  induction d as [|d IH|d IH|d IH|d IH|d IH|d IH|d IH|d IH|d IH|d IH]; intros acc;
    cbn [uint_digits digits_val Pos.of_uint_acc]; [reflexivity|..];
    match goal with
    | |- context [is_digit ?c] => change (is_digit c) with true; cbv iota
    end;
    rewrite <- IH; f_equal; lia.
Qed.

Lemma digits_val_uint d : digits_val (uint_digits d) 0 = Some (Z.of_N (Pos.of_uint d)).
Proof.
  induction d as [|d IH|d IH|d IH|d IH|d IH|d IH|d IH|d IH|d IH|d IH];
    cbn [uint_digits digits_val Pos.of_uint]; [reflexivity|..];
    match goal with
    | |- context [is_digit ?c] => change (is_digit c) with true; cbv iota
    end.
  - exact IH.
  - apply (digits_val_acc d 1).
  - apply (digits_val_acc d 2).
  - apply (digits_val_acc d 3).
  - apply (digits_val_acc d 4).
  - apply (digits_val_acc d 5).
  - apply (digits_val_acc d 6).
  - apply (digits_val_acc d 7).
  - apply (digits_val_acc d 8).
  - apply (digits_val_acc d 9).
Qed.

Definition all_digits (s : str) : Prop := Forall (fun c => is_digit c = true) s.

Lemma uint_digits_all d : all_digits (uint_digits d).
Proof.
  induction d; cbn [uint_digits]; constructor; try assumption; reflexivity.
Qed.

Lemma to_uint_digits_nonempty p : uint_digits (Pos.to_uint p) <> [].
Proof.
  pose proof (Unsigned.of_to p) as H.
  destruct (Pos.to_uint p); cbn [uint_digits]; discriminate.
Qed.

Lemma digits_val_pos p : digits_val (uint_digits (Pos.to_uint p)) 0 = Some (Zpos p).
Proof. rewrite digits_val_uint, Unsigned.of_to. reflexivity. Qed.

(* ---- characters of a number text ---- *)
Lemma is_digit_range c : is_digit c = true -> 48 <= c <= 57.
Proof.
  unfold is_digit, in_range. intros H. apply andb_true_iff in H as [H1 H2].
  apply N.leb_le in H1, H2. lia.
Qed.

Lemma printable_not_white c : 33 <= c <= 126 -> is_white c = false.
Proof.
  intros H. unfold is_white, in_range.
  assert (E1 : (c <=? 13) = false) by (apply N.leb_gt; lia).
  assert (E2 : (c =? 32) = false) by (apply N.eqb_neq; lia).
  assert (E3 : (c =? 133) = false) by (apply N.eqb_neq; lia).
  assert (E4 : (c =? 160) = false) by (apply N.eqb_neq; lia).
  assert (E5 : (c =? 5760) = false) by (apply N.eqb_neq; lia).
  assert (E6 : (8192 <=? c) = false) by (apply N.leb_gt; lia).
  assert (E7 : (8232 <=? c) = false) by (apply N.leb_gt; lia).
  assert (E8 : (c =? 8239) = false) by (apply N.eqb_neq; lia).
  assert (E9 : (c =? 8287) = false) by (apply N.eqb_neq; lia).
  assert (E10 : (c =? 12288) = false) by (apply N.eqb_neq; lia).
  change 0x85 with 133. change 0xA0 with 160. change 0x1680 with 5760. change 0x2000 with 8192.
  change 0x2028 with 8232. change 0x202F with 8239. change 0x205F with 8287. change 0x3000 with 12288.
  rewrite E1, E2, E3, E4, E5, E6, E7, E8, E9, E10. now rewrite !andb_false_r.
Qed.

(* a character of a number text: digit or minus sign *)
Definition numch (c : N) : Prop := is_digit c = true \/ c = c_minus.

Lemma numch_range c : numch c -> 45 <= c <= 57.
Proof. intros [H| ->]; [apply is_digit_range in H; lia|unfold c_minus; lia]. Qed.

Lemma cai_loop_numch s : forall i prev,
  Forall numch s -> prev <> 32 -> cai_loop s i prev None = (INone, O).
Proof.
  induction s as [|c1 tl IH]; intros i prev Hs Hp; [reflexivity|].
  inversion Hs as [|x l Hc Htl]; subst. apply numch_range in Hc.
  cbn [cai_loop].
  assert (E1 : (c1 =? c_dquote) = false) by (apply N.eqb_neq; unfold c_dquote; lia).
  assert (E2 : (c1 =? c_lpar) = false) by (apply N.eqb_neq; unfold c_lpar; lia).
  assert (E3 : negb (prev =? 32) = true) by (apply negb_true_iff, N.eqb_neq; exact Hp).
  rewrite E1, E2, E3. apply IH; [exact Htl|lia].
Qed.

Lemma classify_loop_digits s : forall i hd hnd hp,
  all_digits s -> classify_loop s i hd hnd hp = (hd || negb (match s with [] => true | _ => false end), hnd, hp).
Proof.
  induction s as [|c r IH]; intros i hd hnd hp Hs; cbn [classify_loop].
  - now rewrite orb_false_r.
  - inversion Hs as [|x l Hc Hr]; subst. rewrite Hc. rewrite IH by exact Hr.
    cbn [orb negb]. now rewrite orb_true_r.
Qed.

(* ---- the text of an integer ---- *)
Definition i64_range (z : Z) : Prop := (- 2 ^ 63 <= z < 2 ^ 63)%Z.

Lemma show_Z_shape z :
  exists ds, ds <> [] /\ all_digits ds /\
             show_Z z = (if (z <? 0)%Z then c_minus :: ds else ds) /\
             digits_val ds 0 = Some (Z.abs z).
Proof.
  destruct z as [|p|p]; cbn [show_Z Z.ltb Z.compare Z.abs].
  - exists [48]. repeat split; [discriminate|constructor; [reflexivity|constructor]].
  - exists (uint_digits (Pos.to_uint p)). repeat split.
    + apply to_uint_digits_nonempty.
    + apply uint_digits_all.
    + apply digits_val_pos.
  - exists (uint_digits (Pos.to_uint p)). repeat split.
    + apply to_uint_digits_nonempty.
    + apply uint_digits_all.
    + apply digits_val_pos.
Qed.

Lemma all_digits_numch ds : all_digits ds -> Forall numch ds.
Proof. intros H. eapply Forall_impl; [|exact H]. intros c Hc. now left. Qed.

Lemma parse_i64_show_Z z : i64_range z -> parse_i64 (show_Z z) = Some z.
Proof.
  intros Hr. destruct (show_Z_shape z) as (ds & Hne & Hd & Hs & Hv). rewrite Hs.
  unfold parse_i64.
  destruct (z <? 0)%Z eqn:Ez.
  - cbn [strip_sign]. change (c_minus =? c_minus) with true. cbv iota.
    destruct ds as [|d0 dr]; [now elim Hne|]. rewrite Hv.
    apply Z.ltb_lt in Ez. replace (- Z.abs z)%Z with z by lia.
    unfold i64_range in Hr.
    assert (E : ((- 2 ^ 63 <=? z) && (z <? 2 ^ 63))%Z = true).
    { apply andb_true_iff. split; [apply Z.leb_le|apply Z.ltb_lt]; lia. }
    now rewrite E.
  - destruct ds as [|d0 dr] eqn:Eds; [now elim Hne|]. rewrite <- Eds in *.
    assert (Hd0 : is_digit d0 = true) by (rewrite Eds in Hd; now inversion Hd).
    apply is_digit_range in Hd0.
    assert (Hss : strip_sign ds = (false, ds)).
    { rewrite Eds. cbn [strip_sign].
      assert (E1 : (d0 =? c_minus) = false) by (apply N.eqb_neq; unfold c_minus; lia).
      assert (E2 : (d0 =? c_plus) = false) by (apply N.eqb_neq; unfold c_plus; lia).
      now rewrite E1, E2. }
    rewrite Hss. rewrite Eds at 1. rewrite Hv.
    apply Z.ltb_ge in Ez. replace (Z.abs z) with z by lia.
    unfold i64_range in Hr.
    assert (E : ((- 2 ^ 63 <=? z) && (z <? 2 ^ 63))%Z = true).
    { apply andb_true_iff. split; [apply Z.leb_le|apply Z.ltb_lt]; lia. }
    now rewrite E.
Qed.

Lemma show_Z_numch z : Forall numch (show_Z z) /\ show_Z z <> [] /\
  is_digit (last (show_Z z) 0) = true /\ numch (hd 0 (show_Z z)).
Proof.
  destruct (show_Z_shape z) as (ds & Hne & Hd & Hs & _). rewrite Hs.
  assert (Hl : is_digit (last ds 0) = true).
  { clear -Hne Hd. induction ds as [|c r IH]; [now elim Hne|].
    inversion Hd; subst. destruct r as [|c' r']; [assumption|].
    cbn [last] in IH |- *. apply IH; [discriminate|assumption]. }
  destruct (z <? 0)%Z.
  - repeat split.
    + constructor; [now right|now apply all_digits_numch].
    + discriminate.
    + destruct ds; [now elim Hne|]. exact Hl.
    + now right.
  - repeat split.
    + now apply all_digits_numch.
    + exact Hne.
    + exact Hl.
    + destruct ds; [now elim Hne|]. inversion Hd; subst. now left.
Qed.

Lemma classify_show_Z z : classify_term (show_Z z) = (true, false, false).
Proof.
  destruct (show_Z_shape z) as (ds & Hne & Hd & Hs & _). rewrite Hs.
  unfold classify_term. destruct (z <? 0)%Z.
  - cbn [classify_loop]. change (is_digit c_minus) with false. change (c_minus =? c_period) with false.
    change ((0 =? 0)%nat && ((c_minus =? c_plus) || (c_minus =? c_minus))) with true. cbv iota.
    rewrite classify_loop_digits by exact Hd. destruct ds; [now elim Hne|reflexivity].
  - rewrite classify_loop_digits by exact Hd. destruct ds; [now elim Hne|reflexivity].
Qed.

Lemma show_Z_trimmed z : trim (show_Z z) = show_Z z.
Proof.
  destruct (show_Z_numch z) as (Hall & Hne & Hlast & Hhd).
  apply trimmed_trim. right. split.
  - apply printable_not_white. apply numch_range in Hhd. lia.
  - apply printable_not_white. apply is_digit_range in Hlast. lia.
Qed.

(* parse_term (show z) = z, for every 64-bit integer, negative ones included *)
Theorem parse_term_show_int : forall fuel z,
  i64_range z -> parse_term (S fuel) (show_Z z) = Ok (POk (TInt z)).
Proof.
  intros fuel z Hr. cbn [parse_term]. unfold parse_term_body. rewrite show_Z_trimmed.
  destruct (show_Z_numch z) as (Hall & Hne & Hlast & Hhd).
  unfold check_arithmetic_infix. rewrite cai_loop_numch by (assumption || discriminate).
  cbn [infix_fn_name].
  apply numch_range in Hhd. apply is_digit_range in Hlast.
  assert (Hs' : match show_Z z with
                | [c0; _] => if c0 =? c_bslash then tl (show_Z z) else show_Z z
                | _ => show_Z z
                end = show_Z z).
  { destruct (show_Z z) as [|c0 [|c1 [|c2 r]]]; try reflexivity.
    cbn [hd] in Hhd. assert (E : (c0 =? c_bslash) = false) by (apply N.eqb_neq; unfold c_bslash; lia).
    now rewrite E. }
  rewrite Hs'. unfold make_term. rewrite show_Z_trimmed, classify_show_Z.
  destruct (show_Z z) as [|first r] eqn:Es; [now elim Hne|].
  cbn [hd] in Hhd. rewrite <- Es in Hlast |- *.
  assert (E1 : (first =? c_dollar) = false) by (apply N.eqb_neq; unfold c_dollar; lia).
  assert (E2 : (first =? c_dquote) = false) by (apply N.eqb_neq; unfold c_dquote; lia).
  assert (E3 : (first =? c_lbr) = false) by (apply N.eqb_neq; unfold c_lbr; lia).
  assert (E4 : (last (show_Z z) 0 =? c_rpar) = false) by (apply N.eqb_neq; unfold c_rpar; lia).
  rewrite E1, E2, E3, E4. cbn [andb negb]. rewrite andb_false_r.
  rewrite parse_i64_show_Z by exact Hr.
  destruct (2 <=? length (show_Z z))%nat; reflexivity.
Qed.

(* and therefore the same in the argument and in the list context (C20 applies) *)
Lemma pa_scan_numch s : forall nq, Forall numch s -> pa_scan s false nq 0%Z 0%Z = Some (false, nq, 0%Z, 0%Z).
Proof.
  induction s as [|c r IH]; intros nq Hs; [reflexivity|].
  inversion Hs as [|x l Hc Hr]; subst. apply numch_range in Hc. cbn [pa_scan].
  assert (E1 : (c =? c_lbr) = false) by (apply N.eqb_neq; unfold c_lbr; lia).
  assert (E2 : (c =? c_rbr) = false) by (apply N.eqb_neq; unfold c_rbr; lia).
  assert (E3 : (c =? c_lpar) = false) by (apply N.eqb_neq; unfold c_lpar; lia).
  assert (E4 : (c =? c_rpar) = false) by (apply N.eqb_neq; unfold c_rpar; lia).
  assert (E5 : (c =? c_comma) = false) by (apply N.eqb_neq; unfold c_comma; lia).
  assert (E6 : (c =? c_bslash) = false) by (apply N.eqb_neq; unfold c_bslash; lia).
  assert (E7 : (c =? c_dquote) = false) by (apply N.eqb_neq; unfold c_dquote; lia).
  rewrite E1, E2, E3, E4, E5, E6, E7. change ((0 =? 0)%Z && (0 =? 0)%Z) with true. cbv iota.
  now apply IH.
Qed.

Theorem parse_arguments_show_int : forall fuel z,
  i64_range z -> parse_arguments (S fuel) (show_Z z) = Ok (POk [TInt z]).
Proof.
  intros fuel z Hr.
  destruct (show_Z_numch z) as (Hall & Hne & Hlast & Hhd).
  rewrite context_independent_args.
  - rewrite parse_term_show_int by exact Hr. reflexivity.
  - unfold args_plain. rewrite show_Z_trimmed. rewrite pa_scan_numch by exact Hall.
    apply is_digit_range in Hlast.
    assert (E : (last (show_Z z) 0 =? c_comma) = false) by (apply N.eqb_neq; unfold c_comma; lia).
    rewrite E. reflexivity.
  - unfold no_arith_infix. rewrite show_Z_trimmed. unfold check_arithmetic_infix.
    rewrite cai_loop_numch by (assumption || discriminate). reflexivity.
Qed.
