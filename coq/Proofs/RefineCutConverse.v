(* The CONVERSE of the refinement theorem of Proofs/RefineCut.v: when the engine drains a query
   (ask_all finishes), the reference search of Spec/SpecCut.v finishes too, for some fuel - with
   the same answers by refines_cut - unless the reference REFUSES the program (Panic: by design
   for a cut directly inside not(..)/time(..), which the engine accepts); and it refuses ONLY
   such programs: if no clause body has a cut directly inside not/time (kbok, Proofs/NotCutInv.v)
   the reference search finishes (refines_cut_converse, refines_cut_converse_ok).

   No values need to be tracked here: what a defined denotation IS follows from the forward step
   lemma (cden_step).  What is constructed is the FUEL: `def r` = "r is not OutOfFuel"; results
   are monotone in the fuel and in the continuation for the information order `rle`
   (OutOfFuel below everything), so fuels are merged by taking the maximum.  The induction is on
   the engine's computation (next / and_loop / call_loop), the continuation being a monotone
   FAMILY of continuations indexed by the fuel (the reference search builds continuations that
   contain searches). *)
From Coq Require Import Lia.
From Suiron Require Import Model.Term Model.Subst Model.Show Model.Lists Model.Arith Model.Unify
  Model.Compare Model.Builtins Model.Rename Model.Solve Spec.SpecCut
  Proofs.RenameProofs Proofs.SolveDead Proofs.SolveCut Proofs.RefinePlain Proofs.RefineCut Proofs.NotCutInv.
Open Scope N_scope.

(* ---- the information order on results ---- *)
Definition rle {A} (r1 r2 : res A) : Prop := r1 = OutOfFuel \/ r1 = r2.
Definition kle (k1 k2 : ckont) : Prop := forall s w c, rle (k1 s w c) (k2 s w c).

(* `def r`: r is defined - a value, or (only when p = true: "refusals count") a Panic.  Everything
   below is proved for both readings at once; with p = false the invariant "no cut directly inside
   not/time" (Proofs/NotCutInv.v) is what excludes the refusals. *)
Section Dfd.
Variable p : bool.
Definition def {A} (r : res A) : Prop :=
  match r with Ok _ => True | Panic => p = true | OutOfFuel => False end.
Definition inv (b : bool) : Prop := p = false -> b = true.
Lemma inv_true : inv true. Proof. intro; reflexivity. Qed.
Lemma inv_and a b : inv (a && b) -> inv a /\ inv b.
Proof. intro H. split; intro Hp; specialize (H Hp); apply andb_true_iff in H; tauto. Qed.
Lemma inv_false b : inv b -> b = false -> p = true.
Proof.
  intros H E. destruct (Bool.bool_dec p false) as [Hp|Hp]; [rewrite (H Hp) in E; discriminate|].
  now apply Bool.not_false_is_true.
Qed.

Lemma rle_refl {A} (r : res A) : rle r r. Proof. now right. Qed.
Lemma rle_bot {A} (r : res A) : rle OutOfFuel r. Proof. now left. Qed.
Lemma rle_def {A} (r1 r2 : res A) : rle r1 r2 -> def r1 -> r2 = r1.
Proof. intros [H|H] D; [subst; destruct D|now symmetry]. Qed.
Lemma rle_def2 {A} (r1 r2 : res A) : rle r1 r2 -> def r1 -> def r2.
Proof. intros H D. now rewrite (rle_def _ _ H D). Qed.
Lemma rle_trans {A} (a b c : res A) : rle a b -> rle b c -> rle a c.
Proof. intros [H|H] [H'|H']; subst; auto using rle_bot, rle_refl. Qed.
Lemma kle_refl k : kle k k. Proof. intros s w c. apply rle_refl. Qed.
Lemma def_ok {A} (a : A) : def (Ok a). Proof. exact I. Qed.
Lemma def_panic {A} : p = true -> def (@Panic A). Proof. intro H; exact H. Qed.

Lemma rle_bind {A B} (a a' : res A) (f f' : A -> res B) :
  rle a a' -> (forall x, rle (f x) (f' x)) -> rle (bind a f) (bind a' f').
Proof.
  intros [E|E] Hf; subst; [apply rle_bot|]. destruct a' as [x| |]; cbn [bind]; auto using rle_refl.
Qed.

Lemma rle_seq a a' (b b' : world -> res cres) :
  rle a a' -> (forall w, rle (b w) (b' w)) -> rle (seq a b) (seq a' b').
Proof.
  intros Ha Hb. unfold seq. apply rle_bind; [exact Ha|]. intros [[a1 w1] [| |]]; try apply rle_refl.
  apply rle_bind; [apply Hb|]. intro y. apply rle_refl.
Qed.

Lemma rle_after_body x (r r' : world -> res cres) :
  (forall w, rle (r w) (r' w)) -> rle (after_body x r) (after_body x r').
Proof.
  intro H. destruct x as [[a w] [|[|m]|]]; cbn [after_body]; try apply rle_refl.
  apply rle_bind; [apply H|]. intro y. apply rle_refl.
Qed.

Lemma kle_kbump k1 k2 : kle k1 k2 -> kle (kbump k1) (kbump k2).
Proof. intros H s w c. unfold kbump. apply rle_bind; [apply H|]. intro z. apply rle_refl. Qed.
Lemma kle_kwrap c1 k1 k2 : kle k1 k2 -> kle (kwrap c1 k1) (kwrap c1 k2).
Proof. intros H s w c. unfold kwrap. apply rle_bind; [apply H|]. intro z. apply rle_refl. Qed.

(* ---- definedness through the combinators ---- *)
Lemma def_bind_inv {A B} (a : res A) (f : A -> res B) : def (bind a f) -> def a.
Proof. destruct a; cbn; auto. Qed.
Lemma def_bind {A B} (a : res A) (f : A -> res B) :
  def a -> (forall x, a = Ok x -> def (f x)) -> def (bind a f).
Proof. destruct a as [x| |]; cbn [bind]; intros D H; [now apply H|exact D|destruct D]. Qed.

Lemma def_seq a (b : world -> res cres) :
  def a -> (forall a1 w1, a = Ok (a1, w1, Go) -> def (b w1)) -> def (seq a b).
Proof.
  intros Da Hb. unfold seq. apply def_bind; [exact Da|]. intros [[a1 w1] [| |]] E; try apply def_ok.
  apply def_bind; [eapply Hb; eauto|]. intros [[a2 w2] s2] _. apply def_ok.
Qed.
Lemma def_seq_inv1 a (b : world -> res cres) : def (seq a b) -> def a.
Proof. apply def_bind_inv. Qed.
Lemma def_seq_inv2 a (b : world -> res cres) a1 w1 : def (seq a b) -> a = Ok (a1, w1, Go) -> def (b w1).
Proof. intros D ->. unfold seq in D. cbn [bind] in D. eapply def_bind_inv, D. Qed.

Lemma def_after_body x (r : world -> res cres) :
  (forall a1 w1, x = (a1, w1, Go) -> def (r w1)) -> def (after_body x r).
Proof.
  destruct x as [[a w] [|[|m]|]]; cbn [after_body]; intro H; try apply def_ok.
  apply def_bind; [eapply H; eauto|]. intros [[a2 w2] s2] _. apply def_ok.
Qed.
Lemma def_after_body_inv a1 w1 (r : world -> res cres) : def (after_body (a1, w1, Go) r) -> def (r w1).
Proof. cbn [after_body]. apply def_bind_inv. Qed.

Section Conv.
  Variable kb : kbase.
  Variable bf : nat.
  Hypothesis Hkb : p = false -> kbok kb.

  (* ---- the reference search is monotone for the information order ---- *)
  Lemma csolve_rle_all : forall f,
    (forall f' g s w k1 k2, (f <= f')%nat -> kle k1 k2 ->
       rle (csolve kb bf f g s w k1) (csolve kb bf f' g s w k2)) /\
    (forall f' t s key idx n w k1 k2, (f <= f')%nat -> kle k1 k2 ->
       rle (cclauses kb bf f t s key idx n w k1) (cclauses kb bf f' t s key idx n w k2)).
  Proof.
    induction f as [|f [IHs IHc]].
    { split; intros; apply rle_bot. }
    split.
    - intros f' g s w k1 k2 Hle Hk. destruct f' as [|f']; [lia|]. assert (f <= f')%nat as Hle' by lia.
      rewrite !csolve_S. unfold csolve_body. destruct g as [k gs|fn ts|t|]; try apply rle_refl.
      + destruct k.
        * destruct gs as [|g1 [|g2 rest]]; [apply rle_refl|apply IHs; assumption|].
          apply IHs; [exact Hle'|]. intros s1 w1 c1. apply rle_bind; [|intro; apply rle_refl].
          apply IHs; [exact Hle'|apply kle_kwrap, Hk].
        * destruct gs as [|g1 [|g2 rest]]; [apply rle_refl|apply IHs; assumption|].
          apply rle_seq; [apply IHs; assumption|]. intro w1. apply IHs; assumption.
        * destruct gs as [|g1 rest]; [apply rle_refl|]. destruct (has_cut g1); [apply rle_refl|].
          apply rle_bind; [apply IHs; [exact Hle'|apply kle_refl]|].
          intros [[a w1] sg]. destruct a; [apply rle_refl|apply Hk].
        * destruct gs as [|g1 rest]; [apply rle_refl|]. destruct (has_cut g1); [apply rle_refl|].
          apply rle_bind; [apply IHs; [exact Hle'|apply kle_refl]|].
          intros [[a w1] sg]. destruct a; [apply Hk|apply rle_refl].
      + apply rle_bind; [apply rle_refl|]. intro r. destruct (br_sol r); [|apply rle_refl].
        apply rle_bind; [apply Hk|]. intro; apply rle_refl.
      + apply rle_bind; [apply rle_refl|]. intro key. destruct (count_rules kb key w) as [n w0].
        apply IHc; assumption.
    - intros f' t s key idx n w k1 k2 Hle Hk. destruct f' as [|f']; [lia|]. assert (f <= f')%nat as Hle' by lia.
      rewrite !cclauses_S. unfold cclauses_body. destruct (n <=? idx); [apply rle_refl|].
      apply rle_bind; [apply rle_refl|]. intros [r ctr].
      apply rle_bind; [apply rle_refl|]. intros [s'|]; [|apply IHc; assumption].
      destruct (is_gnil (r_body r)).
      + apply rle_seq; [apply Hk|]. intro w2. apply IHc; assumption.
      + apply rle_bind; [apply IHs; [exact Hle'|apply kle_kbump, Hk]|].
        intro x. apply rle_after_body. intro w2. apply IHc; assumption.
  Qed.

  Lemma csolve_rle f f' g s w k1 k2 : (f <= f')%nat -> kle k1 k2 ->
    rle (csolve kb bf f g s w k1) (csolve kb bf f' g s w k2).
  Proof. apply (proj1 (csolve_rle_all f)). Qed.
  Lemma cclauses_rle f f' t s key idx n w k1 k2 : (f <= f')%nat -> kle k1 k2 ->
    rle (cclauses kb bf f t s key idx n w k1) (cclauses kb bf f' t s key idx n w k2).
  Proof. apply (proj2 (csolve_rle_all f)). Qed.

  Lemma kle_ckand fs fs' optail k1 k2 : (fs <= fs')%nat -> kle k1 k2 ->
    kle (ckand kb bf fs optail k1) (ckand kb bf fs' optail k2).
  Proof.
    intros Hle Hk. unfold ckand. destruct optail as [[|g r]|]; try exact Hk.
    intros s w c. apply rle_bind; [|intro; apply rle_refl].
    apply csolve_rle; [exact Hle|apply kle_kwrap, Hk].
  Qed.

  (* ---- the abstraction function is monotone ---- *)
  Lemma cden_rle : forall nd fs fs' w k1 k2, (fs <= fs')%nat -> kle k1 k2 ->
    rle (cden kb bf fs nd w k1) (cden kb bf fs' nd w k2).
  Proof.
    induction nd as [t ss nobt child idx n IHc|kd ss nobt more head tail optail IHh IHt|fn ts ss nobt more] using node_ind2;
      intros fs fs' w k1 k2 Hle Hk; (destruct nobt; [apply rle_refl|]).
    - rewrite !cden_call. apply rle_bind.
      + destruct child as [c|]; [apply IHc; [exact Hle|apply kle_kbump, Hk]|apply rle_refl].
      + intro x. apply rle_after_body. intro w2. apply cclauses_rle; assumption.
    - destruct kd.
      + rewrite !cden_and. apply rle_seq.
        * destruct tail as [t|]; [apply IHt; [exact Hle|apply kle_kwrap, Hk]|apply rle_refl].
        * intro w1. destruct head as [h|]; [|apply rle_refl].
          apply IHh; [exact Hle|apply kle_ckand; assumption].
      + rewrite !cden_or. destruct tail as [t|]; [apply IHt; assumption|].
        destruct head as [h|]; [|apply rle_refl].
        apply rle_seq; [apply IHh; assumption|]. intro w1. unfold correst.
        destruct optail as [[|g r]|]; try apply rle_refl. apply csolve_rle; assumption.
      + cbn [cden node_nobt]. destruct more; [|apply rle_refl]. destruct head as [h|]; [|apply rle_refl].
        destruct (ncutb h); [|apply rle_refl].
        apply rle_bind; [apply IHh; [exact Hle|apply kle_refl]|].
        intros [[a w1] sg]. destruct a; [apply rle_refl|apply Hk].
      + cbn [cden node_nobt]. destruct more; [|apply rle_refl]. destruct head as [h|]; [|apply rle_refl].
        destruct (ncutb h); [|apply rle_refl].
        apply rle_bind; [apply IHh; [exact Hle|apply kle_refl]|].
        intros [[a w1] sg]. destruct a; [apply Hk|apply rle_refl].
    - cbn [cden node_nobt]. destruct more; [|apply rle_refl]. apply csolve_rle; assumption.
  Qed.

  Lemma cden_lift nd fs fs' w k1 k2 : (fs <= fs')%nat -> kle k1 k2 -> def (cden kb bf fs nd w k1) ->
    cden kb bf fs' nd w k2 = cden kb bf fs nd w k1.
  Proof. intros Hle Hk D. apply rle_def; [apply cden_rle; assumption|exact D]. Qed.

  (* ---- "for all large enough fuels" ---- *)
  Definition ev (P : nat -> Prop) : Prop := exists f0, forall fs, (f0 <= fs)%nat -> P fs.

  Lemma ev_const (P : Prop) : P -> ev (fun _ => P).
  Proof. intro H. exists 0%nat. auto. Qed.
  Lemma ev_ge n : ev (fun fs => (n <= fs)%nat).
  Proof. exists n. auto. Qed.
  Lemma ev_and P Q : ev P -> ev Q -> ev (fun fs => P fs /\ Q fs).
  Proof.
    intros [a Ha] [b Hb]. exists (Nat.max a b). intros fs H. split; [apply Ha|apply Hb]; lia.
  Qed.
  Lemma ev_mono (P Q : nat -> Prop) : (forall fs, P fs -> Q fs) -> ev P -> ev Q.
  Proof. intros H [a Ha]. exists a. auto. Qed.
  Lemma ev_ex (P : nat -> Prop) : ev P -> exists fs, P fs.
  Proof. intros [a Ha]. exists a. auto. Qed.

  Definition kmono (kf : nat -> ckont) : Prop := forall a b, (a <= b)%nat -> kle (kf a) (kf b).
  Lemma kmono_const k : kmono (fun _ => k). Proof. intros a b _. apply kle_refl. Qed.
  Lemma kmono_kbump kf : kmono kf -> kmono (fun fs => kbump (kf fs)).
  Proof. intros H a b L. apply kle_kbump, H, L. Qed.
  Lemma kmono_kwrap c kf : kmono kf -> kmono (fun fs => kwrap c (kf fs)).
  Proof. intros H a b L. apply kle_kwrap, H, L. Qed.
  Lemma kmono_ckand optail kf : kmono kf -> kmono (fun fs => ckand kb bf fs optail (kf fs)).
  Proof. intros H a b L. apply kle_ckand; [exact L|apply H, L]. Qed.

  Lemma ev_k kf s w c : kmono kf -> forall f, def (kf f s w c) -> ev (fun fs => kf fs s w c = kf f s w c).
  Proof. intros M f D. exists f. intros fs L. apply rle_def; [apply M, L|exact D]. Qed.
  Lemma ev_cden kf nd w : kmono kf -> forall f, def (cden kb bf f nd w (kf f)) ->
    ev (fun fs => cden kb bf fs nd w (kf fs) = cden kb bf f nd w (kf f)).
  Proof. intros M f D. exists f. intros fs L. apply cden_lift; [exact L|apply M, L|exact D]. Qed.
  Lemma ev_csolve kf g s w : kmono kf -> forall f f0, def (csolve kb bf f g s w (kf f0)) ->
    ev (fun fs => csolve kb bf fs g s w (kf fs) = csolve kb bf f g s w (kf f0)).
  Proof.
    intros M f f0 D. exists (Nat.max f f0). intros fs L.
    apply rle_def; [apply csolve_rle; [lia|apply M; lia]|exact D].
  Qed.
  Lemma ev_cclauses kf t s key idx n w : kmono kf -> forall f, def (cclauses kb bf f t s key idx n w (kf f)) ->
    ev (fun fs => cclauses kb bf fs t s key idx n w (kf fs) = cclauses kb bf f t s key idx n w (kf f)).
  Proof.
    intros M f D. exists f. intros fs L. apply rle_def; [apply cclauses_rle; [exact L|apply M, L]|exact D].
  Qed.

  (* ---- small facts about the combinators ---- *)
  Lemma seq_empty_eq w (b : world -> res cres) : seq (empty w) b = b w.
  Proof. unfold seq, empty. cbn [bind]. destruct (b w) as [[[a w2] g]| |]; reflexivity. Qed.

  Lemma ncutb_fresh : forall g ss w nd w', make_node kb g ss w = Ok (nd, w') -> has_cut g = false -> ncutb nd = true.
  Proof. intros. eapply make_node_ncut; eauto. Qed.

  (* ---- a fresh node, read backwards: if its denotation is defined, so is the reference search
     of its goal (which may be a refusal where the denotation is not: has_cut looks at more than
     the engine does) ---- *)
  Lemma cden_fresh_inv : forall g fs ss w nd w' k, inv (gok g) ->
    make_node kb g ss w = Ok (nd, w') -> def (cden kb bf fs nd w' k) ->
    exists f, def (csolve kb bf f g ss w k).
  Proof.
    induction g as [kd gs Hgs|fn ts|t|] using goal_ind'; intros fs ss w nd w' k Hgk Hm D; try discriminate.
    - destruct kd; destruct gs as [|g1 rest]; try discriminate; cbn [make_node] in Hm;
        (destruct (make_node kb g1 ss w) as [[hn w1]| |] eqn:E; cbn [bind] in Hm; try discriminate);
        inversion Hm; subst; inversion Hgs as [|? ? Hg1 Hrest]; subst;
        cbn [gok forallb] in Hgk; destruct (inv_and _ _ Hgk) as [Hgk1 Hgk2].
      + (* and *)
        rewrite cden_and, seq_empty_eq in D.
        destruct (Hg1 _ _ _ _ _ _ Hgk1 E D) as [f1 D1].
        destruct rest as [|g2 rest'].
        * exists (S f1). rewrite csolve_S. exact D1.
        * exists (S (Nat.max f1 fs)). rewrite csolve_S. unfold csolve_body.
          eapply rle_def2; [|exact D1]. apply csolve_rle; [lia|].
          apply (kle_ckand fs (Nat.max f1 fs) (Some (g2 :: rest')) k k); [lia|apply kle_refl].
      + (* or *)
        rewrite cden_or in D.
        destruct (Hg1 _ _ _ _ _ _ Hgk1 E (def_seq_inv1 _ _ D)) as [f1 D1].
        destruct rest as [|g2 rest'].
        * exists (S f1). rewrite csolve_S. exact D1.
        * exists (S (Nat.max f1 fs)). rewrite csolve_S. unfold csolve_body.
          assert (csolve kb bf (Nat.max f1 fs) g1 ss w k = csolve kb bf f1 g1 ss w k) as E1
            by (apply rle_def; [apply csolve_rle; [lia|apply kle_refl]|exact D1]).
          rewrite E1. apply def_seq; [exact D1|]. intros a1 wa Ea.
          assert (cden kb bf (Nat.max f1 fs) hn w' k = Ok (a1, wa, Go)) as Ec
            by (eapply (cden_fresh kb bf g1 f1); [exact E|lia|apply ckle_refl|exact Ea]).
          assert (cden kb bf (Nat.max f1 fs) hn w' k = cden kb bf fs hn w' k) as Ec2
            by (apply cden_lift; [lia|apply kle_refl|exact (def_seq_inv1 _ _ D)]).
          rewrite Ec in Ec2. symmetry in Ec2.
          pose proof (def_seq_inv2 _ _ _ _ D Ec2) as D2. cbn [correst] in D2.
          eapply rle_def2; [|exact D2]. apply csolve_rle; [lia|apply kle_refl].
      + (* time *)
        destruct (has_cut g1) eqn:Ecut.
        { exists 1%nat. rewrite csolve_S. unfold csolve_body. rewrite Ecut. apply def_panic.
          apply (inv_false _ Hgk1). reflexivity. }
        cbn [cden node_nobt] in D. rewrite (make_node_ncut kb g1 _ _ _ _ Ecut E) in D.
        destruct (Hg1 _ _ _ _ _ _ Hgk2 E (def_bind_inv _ _ D)) as [f1 D1].
        exists (S (Nat.max f1 fs)). rewrite csolve_S. unfold csolve_body. rewrite Ecut.
        assert (csolve kb bf (Nat.max f1 fs) g1 ss w halt1 = csolve kb bf f1 g1 ss w halt1) as E1
          by (apply rle_def; [apply csolve_rle; [lia|apply kle_refl]|exact D1]).
        rewrite E1. apply def_bind; [exact D1|]. intros x Ex.
        assert (cden kb bf (Nat.max f1 fs) hn w' halt1 = Ok x) as Ec
          by (eapply (cden_fresh kb bf g1 f1); [exact E|lia|apply ckle_refl|exact Ex]).
        assert (cden kb bf (Nat.max f1 fs) hn w' halt1 = cden kb bf fs hn w' halt1) as Ec2
          by (apply cden_lift; [lia|apply kle_refl|exact (def_bind_inv _ _ D)]).
        rewrite Ec in Ec2. rewrite <- Ec2 in D. cbn [bind] in D. exact D.
      + (* not *)
        destruct (has_cut g1) eqn:Ecut.
        { exists 1%nat. rewrite csolve_S. unfold csolve_body. rewrite Ecut. apply def_panic.
          apply (inv_false _ Hgk1). reflexivity. }
        cbn [cden node_nobt] in D. rewrite (make_node_ncut kb g1 _ _ _ _ Ecut E) in D.
        destruct (Hg1 _ _ _ _ _ _ Hgk2 E (def_bind_inv _ _ D)) as [f1 D1].
        exists (S (Nat.max f1 fs)). rewrite csolve_S. unfold csolve_body. rewrite Ecut.
        assert (csolve kb bf (Nat.max f1 fs) g1 ss w halt1 = csolve kb bf f1 g1 ss w halt1) as E1
          by (apply rle_def; [apply csolve_rle; [lia|apply kle_refl]|exact D1]).
        rewrite E1. apply def_bind; [exact D1|]. intros x Ex.
        assert (cden kb bf (Nat.max f1 fs) hn w' halt1 = Ok x) as Ec
          by (eapply (cden_fresh kb bf g1 f1); [exact E|lia|apply ckle_refl|exact Ex]).
        assert (cden kb bf (Nat.max f1 fs) hn w' halt1 = cden kb bf fs hn w' halt1) as Ec2
          by (apply cden_lift; [lia|apply kle_refl|exact (def_bind_inv _ _ D)]).
        rewrite Ec in Ec2. rewrite <- Ec2 in D. cbn [bind] in D. exact D.
    - cbn in Hm. inversion Hm; subst. cbn [cden node_nobt] in D. exists fs. exact D.
    - cbn [make_node] in Hm. destruct (term_key t) as [key| |] eqn:Ek; cbn [bind] in Hm; try discriminate.
      destruct (count_rules kb key w) as [n w0] eqn:Ec. inversion Hm; subst.
      rewrite cden_call in D. unfold empty in D. cbn [bind] in D. apply def_after_body_inv in D.
      exists (S fs). rewrite csolve_S. unfold csolve_body. rewrite Ek. cbn [bind]. rewrite Ec.
      unfold keyof in D. rewrite Ek in D. exact D.
  Qed.

  (* ---- what the forward step lemma says about a defined denotation ---- *)
  Lemma fwd_none F nd w nd' c w1 fs k a wx g : (1 <= fs)%nat ->
    next kb bf F nd w = Ok (nd', None, c, w1) -> cden kb bf fs nd w k = Ok (a, wx, g) ->
    a = [] /\ wx = w1 /\ g = (if c then Cut 0 else Go).
  Proof.
    intros L H D. pose proof (cden_step kb bf F _ _ _ _ _ _ fs k _ L H D) as S. cbn in S.
    inversion S; auto.
  Qed.

  Lemma fwd_some F nd w nd' s c w1 fs k a wx : (1 <= fs)%nat ->
    next kb bf F nd w = Ok (nd', Some s, c, w1) -> cden kb bf fs nd w k = Ok (a, wx, Go) ->
    c = false /\ exists a1 w2 a2, k s w1 false = Ok (a1, w2, Go) /\ cden kb bf fs nd' w2 k = Ok (a2, wx, Go).
  Proof.
    intros L H D. pose proof (cden_step kb bf F _ _ _ _ _ _ fs k _ L H D) as S. cbn [cstepres] in S.
    destruct S as (a1 & w2 & g1 & Hk & S). destruct c.
    - inversion S as [[E1 E2 E3]]. destruct g1; discriminate E3.
    - destruct g1.
      + destruct S as (a2 & w3 & g2 & Hd & Heq). inversion Heq; subst. split; [reflexivity|]. eauto.
      + inversion S.
      + inversion S.
  Qed.

  (* ---- the statements ---- *)
  Definition rest_ok (kf : nat -> ckont) (nd' : node) (r : option subst) (c : bool) (w1 : world) : Prop :=
    match r with
    | None => True
    | Some s => ev (fun fs => def (kf fs s w1 c) /\
        forall a1 w2, kf fs s w1 c = Ok (a1, w2, Go) -> c = false -> def (cden kb bf fs nd' w2 (kf fs)))
    end.

  Definition dhead (fs : nat) (head : option node) (optail : option (list goal)) (w : world) (k : ckont) : res cres :=
    match head with Some h => cden kb bf fs h w (ckand kb bf fs optail k) | None => empty w end.

  Definition cv_next (F : nat) : Prop :=
    forall nd w nd' r c w1 kf, kmono kf -> inv (nok nd) ->
      next kb bf F nd w = Ok (nd', r, c, w1) -> rest_ok kf nd' r c w1 ->
      ev (fun fs => def (cden kb bf fs nd w (kf fs))).
  Definition cv_and (F : nat) : Prop :=
    forall ss more head tail optail w nd' r c w1 kf, kmono kf ->
      inv (match head with Some h => nok h | None => true end) ->
      inv (match tail with Some t => nok t | None => true end) ->
      inv (match optail with Some tl => forallb gok tl | None => true end) ->
      match tail with Some t => dead t | None => True end ->
      and_loop kb bf F ss false more head tail optail false w = Ok (nd', r, c, w1) -> rest_ok kf nd' r c w1 ->
      ev (fun fs => def (dhead fs head optail w (kf fs))).
  Definition cv_call (F : nat) : Prop :=
    forall t ss child idx n w nd' r c w1 kf, kmono kf ->
      inv (match child with Some c0 => nok c0 | None => true end) ->
      match child with Some c0 => dead c0 | None => True end ->
      call_loop kb bf F t ss false child idx n w = Ok (nd', r, c, w1) -> rest_ok kf nd' r c w1 ->
      ev (fun fs => def (cclauses kb bf fs t ss (keyof t) idx n w (kf fs))).

  Ltac ev_all fs := exists 0%nat; intros fs _.

  (* the invariant "no cut directly inside not/time" (only needed when refusals do not count) *)
  Lemma inv_op_inv k ss b m head tail optail : inv (nok (NOp k ss b m head tail optail)) ->
    inv (match k with ONot | OTime => match head with Some h => ncutb h | None => true end | _ => true end) /\
    inv (match head with Some h => nok h | None => true end) /\
    inv (match tail with Some t => nok t | None => true end) /\
    inv (match optail with Some tl => forallb gok tl | None => true end).
  Proof.
    intro H. repeat split; intro Hp; destruct (nok_op_inv _ _ _ _ _ _ _ (H Hp)) as (A & B & C & D); assumption.
  Qed.
  Lemma inv_next F nd w nd' r c w1 : inv (nok nd) -> next kb bf F nd w = Ok (nd', r, c, w1) -> inv (nok nd').
  Proof. intros H E Hp. eapply nok_next; [apply Hkb, Hp|apply H, Hp|exact E]. Qed.
  Lemma inv_make g ss w nd w' : inv (gok g) -> make_node kb g ss w = Ok (nd, w') -> inv (nok nd).
  Proof. intros H E Hp. eapply make_node_nok; [apply H, Hp|exact E]. Qed.
  Lemma inv_body key idx ctr r ctr' : get_rule kb key idx ctr = Ok (r, ctr') -> inv (gok (r_body r)).
  Proof. intros E Hp. eapply get_rule_gok; [apply Hkb, Hp|exact E]. Qed.

  Section Step.
    Variable F : nat.
    Hypothesis IHn : cv_next F.
    Hypothesis IHa : cv_and F.
    Hypothesis IHc : cv_call F.

    Lemma step_next : cv_next (S F).
    Proof.
      intros nd w nd' r c w1 kf M Hn H R. rewrite next_S in H. unfold next_body in H.
      destruct (node_nobt nd) eqn:Enb.
      { ev_all fs. rewrite cden_nobt by exact Enb. apply def_ok. }
      destruct nd as [t ss nobt child idx n|kd ss nobt more head tail optail|fn ts ss nobt more];
        simpl in Enb; subst nobt.
      - (* call *)
        cbn [nok] in Hn. destruct child as [c0|].
        2:{ generalize (IHc t ss None idx n _ _ _ _ _ kf M inv_true I H R). apply ev_mono. intros fs D.
            rewrite cden_call. unfold empty. cbn [bind]. apply def_after_body. intros a1 wq E. now inversion E; subst. }
        dbind H as c1 o1 b1 wa E1.
        destruct o1 as [s|].
        + (* the child has an answer *)
          inversion H; subst; clear H. cbn [rest_ok] in R.
          assert (ev (fun fs => def (cden kb bf fs c0 w (kbump (kf fs))))) as EA.
          { apply (IHn c0 w c1 (Some s) b1 w1 (fun fs => kbump (kf fs)) (kmono_kbump _ M) Hn E1).
            cbn [rest_ok]. revert R. apply ev_mono. intros fs [Dk Rk]. split.
            - unfold kbump. apply def_bind; [exact Dk|]. intros [[a wq] sg] _. apply def_ok.
            - intros a1 w2 Hk ->. unfold kbump in Hk.
              destruct (kf fs s w1 false) as [[[a wq] sg]| |] eqn:Ek; cbn [bind] in Hk; try discriminate.
              inversion Hk; subst. destruct sg; try discriminate.
              pose proof (Rk _ _ eq_refl eq_refl) as D. cbn [orb] in D. rewrite cden_call in D.
              exact (def_bind_inv _ _ D). }
          generalize (ev_and _ _ (ev_ge 1) (ev_and _ _ EA R)). apply ev_mono. intros fs (L & DA & Dk & Rk).
          rewrite cden_call. apply def_bind; [exact DA|]. intros [[a wq] g] Ex.
          apply def_after_body. intros a1 wq' E. inversion E; subst. clear E.
          destruct (fwd_some _ _ _ _ _ _ _ _ _ _ _ L E1 Ex) as (-> & a2 & w2 & a3 & Hk & Hd).
          unfold kbump in Hk.
          destruct (kf fs s w1 false) as [[[ak wk] sg]| |] eqn:Ek; cbn [bind] in Hk; try discriminate.
          inversion Hk; subst. destruct sg; try discriminate.
          pose proof (Rk _ _ eq_refl eq_refl) as D. cbn [orb] in D. rewrite cden_call, Hd in D. cbn [bind] in D.
          exact (def_after_body_inv _ _ _ D).
        + (* the child is exhausted *)
          assert (ev (fun fs => def (cden kb bf fs c0 w (kbump (kf fs))))) as EA
            by (apply (IHn c0 w c1 None b1 wa (fun fs => kbump (kf fs)) (kmono_kbump _ M) Hn E1); exact I).
          destruct b1; cbn [orb] in H.
          * generalize (ev_and _ _ (ev_ge 1) EA). apply ev_mono. intros fs (L & DA).
            rewrite cden_call. apply def_bind; [exact DA|]. intros [[a wq] g] Ex.
            destruct (fwd_none _ _ _ _ _ _ _ _ _ _ _ L E1 Ex) as (-> & -> & ->). apply def_ok.
          * pose proof (IHc t ss None idx n _ _ _ _ _ kf M inv_true I H R) as EB.
            generalize (ev_and _ _ (ev_ge 1) (ev_and _ _ EA EB)). apply ev_mono. intros fs (L & DA & DB).
            rewrite cden_call. apply def_bind; [exact DA|]. intros [[a wq] g] Ex.
            destruct (fwd_none _ _ _ _ _ _ _ _ _ _ _ L E1 Ex) as (-> & -> & ->).
            apply def_after_body. intros a1 wq' E. inversion E; subst. exact DB.
      - destruct (inv_op_inv _ _ _ _ _ _ _ Hn) as (Hk0 & Hh & Htl & Ho). destruct kd.
        + (* and *)
          destruct tail as [t|].
          2:{ generalize (IHa ss more head None optail w _ _ _ _ kf M Hh inv_true Ho I H R). apply ev_mono. intros fs D.
              rewrite cden_and, seq_empty_eq. exact D. }
          dbind H as t1 o1 b1 wa E1. destruct o1 as [s|].
          * inversion H; subst; clear H. cbn [rest_ok] in R.
            assert (ev (fun fs => def (cden kb bf fs t w (kwrap false (kf fs))))) as EA.
            { apply (IHn t w t1 (Some s) c w1 (fun fs => kwrap false (kf fs)) (kmono_kwrap _ _ M) Htl E1).
              cbn [rest_ok]. revert R. apply ev_mono. intros fs [Dk Rk]. split.
              - unfold kwrap. cbn [orb]. apply def_bind; [exact Dk|]. intros; apply def_ok.
              - intros a1 w2 Hk ->. unfold kwrap in Hk. cbn [orb] in Hk.
                destruct (kf fs s w1 false) as [[[a wq] sg]| |] eqn:Ek; cbn [bind mark] in Hk; try discriminate.
                inversion Hk; subst. pose proof (Rk _ _ eq_refl eq_refl) as D. cbn [orb] in D.
                rewrite cden_and in D. exact (def_seq_inv1 _ _ D). }
            generalize (ev_and _ _ (ev_ge 1) (ev_and _ _ EA R)). apply ev_mono. intros fs (L & DA & Dk & Rk).
            rewrite cden_and. apply def_seq; [exact DA|]. intros a1 wx Ea.
            destruct (fwd_some _ _ _ _ _ _ _ _ _ _ _ L E1 Ea) as (-> & a2 & w2 & a3 & Hk & Hd).
            unfold kwrap in Hk. cbn [orb] in Hk.
            destruct (kf fs s w1 false) as [[[a wq] sg]| |] eqn:Ek; cbn [bind mark] in Hk; try discriminate.
            inversion Hk; subst. pose proof (Rk _ _ eq_refl eq_refl) as D. cbn [orb] in D.
            rewrite cden_and in D. exact (def_seq_inv2 _ _ _ _ D Hd).
          * assert (ev (fun fs => def (cden kb bf fs t w (kwrap false (kf fs))))) as EA
              by (apply (IHn t w t1 None b1 wa (fun fs => kwrap false (kf fs)) (kmono_kwrap _ _ M) Htl E1); exact I).
            destruct b1; cbn [orb] in H.
            -- generalize (ev_and _ _ (ev_ge 1) EA). apply ev_mono. intros fs (L & DA).
               rewrite cden_and. apply def_seq; [exact DA|]. intros a1 wx Ea.
               destruct (fwd_none _ _ _ _ _ _ _ _ _ _ _ L E1 Ea) as (_ & _ & Hg). discriminate Hg.
            -- assert (dead t1) as Dt by (eapply none_then_dead; eauto).
               pose proof (IHa ss more head (Some t1) optail wa _ _ _ _ kf M Hh (inv_next _ _ _ _ _ _ _ Htl E1) Ho Dt H R) as EB.
               generalize (ev_and _ _ (ev_ge 1) (ev_and _ _ EA EB)). apply ev_mono. intros fs (L & DA & DB).
               rewrite cden_and. apply def_seq; [exact DA|]. intros a1 wx Ea.
               destruct (fwd_none _ _ _ _ _ _ _ _ _ _ _ L E1 Ea) as (_ & -> & _). exact DB.
        + (* or *)
          destruct tail as [t|].
          { dbind H as t1 o1 b1 wa E1. inversion H; subst; clear H.
            assert (rest_ok kf t1 r c w1) as R1.
            { destruct r as [s|]; [|exact I]. cbn [rest_ok] in *. revert R. apply ev_mono. intros fs [Dk Rk].
              split; [exact Dk|]. intros a1 w2 Hk ->. pose proof (Rk _ _ Hk eq_refl) as D. cbn [orb] in D.
              rewrite cden_or in D. exact D. }
            generalize (IHn t w t1 r c w1 kf M Htl E1 R1). apply ev_mono. intros fs D. rewrite cden_or. exact D. }
          destruct head as [h|].
          2:{ ev_all fs. rewrite cden_or. apply def_ok. }
          dbind H as h1 o1 b1 wa E1. destruct o1 as [s|].
          * inversion H; subst; clear H. cbn [rest_ok] in R.
            assert (ev (fun fs => def (cden kb bf fs h w (kf fs)))) as EA.
            { apply (IHn h w h1 (Some s) c w1 kf M Hh E1). cbn [rest_ok]. revert R. apply ev_mono.
              intros fs [Dk Rk]. split; [exact Dk|]. intros a1 w2 Hk ->.
              pose proof (Rk _ _ Hk eq_refl) as D. cbn [orb] in D. rewrite cden_or in D.
              exact (def_seq_inv1 _ _ D). }
            generalize (ev_and _ _ (ev_ge 1) (ev_and _ _ EA R)). apply ev_mono. intros fs (L & DA & Dk & Rk).
            rewrite cden_or. apply def_seq; [exact DA|]. intros a1 wx Ea.
            destruct (fwd_some _ _ _ _ _ _ _ _ _ _ _ L E1 Ea) as (-> & a2 & w2 & a3 & Hk & Hd).
            pose proof (Rk _ _ Hk eq_refl) as D. cbn [orb] in D. rewrite cden_or in D.
            exact (def_seq_inv2 _ _ _ _ D Hd).
          * assert (ev (fun fs => def (cden kb bf fs h w (kf fs)))) as EA
              by (apply (IHn h w h1 None b1 wa kf M Hh E1); exact I).
            destruct b1.
            -- generalize (ev_and _ _ (ev_ge 1) EA). apply ev_mono. intros fs (L & DA).
               rewrite cden_or. apply def_seq; [exact DA|]. intros a1 wx Ea.
               destruct (fwd_none _ _ _ _ _ _ _ _ _ _ _ L E1 Ea) as (_ & _ & Hg). discriminate Hg.
            -- destruct optail as [[|g rr]|].
               ++ generalize (ev_and _ _ (ev_ge 1) EA). apply ev_mono. intros fs (L & DA).
                  rewrite cden_or. apply def_seq; [exact DA|]. intros a1 wx Ea. apply def_ok.
               ++ cbn [length Nat.eqb orb] in H. dbind2 H as t1 w2 E2. dbind H as t3 o3 b3 w3 E3.
                  inversion H; subst; clear H.
                  assert (rest_ok kf t3 r c w1) as R3.
                  { destruct r as [s|]; [|exact I]. cbn [rest_ok orb] in *. revert R. apply ev_mono. intros fs [Dk Rk].
                    split; [exact Dk|]. intros a1 wq Hk ->. pose proof (Rk _ _ Hk eq_refl) as D. cbn [orb] in D.
                    rewrite cden_or in D. exact D. }
                  destruct (IHn t1 w2 t3 r c w1 kf M (inv_make (GOp OOr (g :: rr)) _ _ _ _ Ho E2) E3 R3) as [f0 HT].
                  pose proof (HT f0 (le_n _)) as D0.
                  destruct (cden_fresh_inv (GOp OOr (g :: rr)) _ _ _ _ _ _ Ho E2 D0) as [f D1].
                  pose proof (ev_csolve kf _ _ _ M f f0 D1) as EC.
                  generalize (ev_and _ _ (ev_ge 1) (ev_and _ _ EA EC)). apply ev_mono. intros fs (L & DA & EC').
                  rewrite cden_or. apply def_seq; [exact DA|]. intros a1 wx Ea.
                  destruct (fwd_none _ _ _ _ _ _ _ _ _ _ _ L E1 Ea) as (_ & -> & _).
                  cbn [correst]. rewrite EC'. exact D1.
               ++ generalize (ev_and _ _ (ev_ge 1) EA). apply ev_mono. intros fs (L & DA).
                  rewrite cden_or. apply def_seq; [exact DA|]. intros a1 wx Ea. apply def_ok.
        + (* time *)
          destruct more; cbn [negb] in H.
          2:{ ev_all fs. apply def_ok. }
          destruct head as [h|]; [|discriminate].
          dbind H as h1 o1 b1 wa E1. inversion H; subst; clear H.
          destruct (ncutb h) eqn:En.
          2:{ ev_all fs. cbn [cden node_nobt]. rewrite En. apply def_panic. exact (inv_false _ Hk0 eq_refl). }
          destruct (ncut_next kb bf _ _ _ _ _ _ _ En E1) as [-> _].
          assert (ev (fun fs => def (cden kb bf fs h w halt1))) as EA.
          { apply (IHn h w h1 r false wa (fun _ => halt1) (kmono_const _) Hh E1).
            destruct r as [s|]; [|exact I]. cbn [rest_ok]. ev_all fs. split; [apply def_ok|].
            intros a1 w2 Hhalt. discriminate Hhalt. }
          destruct r as [s|].
          * cbn [rest_ok orb] in R.
            generalize (ev_and _ _ (ev_ge 1) (ev_and _ _ EA R)). apply ev_mono. intros fs (L & DA & Dk & _).
            cbn [cden node_nobt]. rewrite En. apply def_bind; [exact DA|]. intros [[a wx] g] Ex.
            pose proof (cden_step kb bf _ _ _ _ _ _ _ fs halt1 _ L E1 Ex) as S. cbn [cstepres] in S.
            destruct S as (a1 & w2 & g1 & Hk & S). unfold halt1 in Hk. inversion Hk; subst.
            inversion S; subst. exact Dk.
          * generalize (ev_and _ _ (ev_ge 1) EA). apply ev_mono. intros fs (L & DA).
            cbn [cden node_nobt]. rewrite En. apply def_bind; [exact DA|]. intros [[a wx] g] Ex.
            destruct (fwd_none _ _ _ _ _ _ _ _ _ _ _ L E1 Ex) as (-> & -> & _). apply def_ok.
        + (* not *)
          destruct more; cbn [negb] in H.
          2:{ ev_all fs. apply def_ok. }
          destruct head as [h|]; [|discriminate].
          dbind H as h1 o1 b1 wa E1. inversion H; subst; clear H.
          destruct (ncutb h) eqn:En.
          2:{ ev_all fs. cbn [cden node_nobt]. rewrite En. apply def_panic. exact (inv_false _ Hk0 eq_refl). }
          destruct (ncut_next kb bf _ _ _ _ _ _ _ En E1) as [-> _].
          assert (ev (fun fs => def (cden kb bf fs h w halt1))) as EA.
          { apply (IHn h w h1 o1 false w1 (fun _ => halt1) (kmono_const _) Hh E1).
            destruct o1 as [s|]; [|exact I]. cbn [rest_ok]. ev_all fs. split; [apply def_ok|].
            intros a1 w2 Hhalt. discriminate Hhalt. }
          destruct o1 as [s|].
          * generalize (ev_and _ _ (ev_ge 1) EA). apply ev_mono. intros fs (L & DA).
            cbn [cden node_nobt]. rewrite En. apply def_bind; [exact DA|]. intros [[a wx] g] Ex.
            pose proof (cden_step kb bf _ _ _ _ _ _ _ fs halt1 _ L E1 Ex) as S. cbn [cstepres] in S.
            destruct S as (a1 & w2 & g1 & Hk & S). unfold halt1 in Hk. inversion Hk; subst.
            inversion S; subst. apply def_ok.
          * cbn [rest_ok orb] in R.
            generalize (ev_and _ _ (ev_ge 1) (ev_and _ _ EA R)). apply ev_mono. intros fs (L & DA & Dk & _).
            cbn [cden node_nobt]. rewrite En. apply def_bind; [exact DA|]. intros [[a wx] g] Ex.
            destruct (fwd_none _ _ _ _ _ _ _ _ _ _ _ L E1 Ex) as (-> & -> & _). exact Dk.
      - (* built-in *)
        destruct more; cbn [negb] in H.
        2:{ ev_all fs. apply def_ok. }
        dbind1 H as rb Eb. inversion H; subst; clear H.
        destruct (br_sol rb) as [s|] eqn:Es.
        + cbn [rest_ok] in R. generalize (ev_and _ _ (ev_ge 1) R). apply ev_mono. intros fs (L & Dk & _).
          cbn [cden node_nobt]. destruct fs as [|f]; [lia|]. rewrite csolve_S. unfold csolve_body.
          rewrite Eb. cbn [bind]. rewrite Es. apply def_bind; [exact Dk|]. intros; apply def_ok.
        + generalize (ev_ge 1). apply ev_mono. intros fs L.
          cbn [cden node_nobt]. destruct fs as [|f]; [lia|]. rewrite csolve_S. unfold csolve_body.
          rewrite Eb. cbn [bind]. rewrite Es. apply def_ok.
    Qed.

    Lemma ev_pred (P : nat -> Prop) : ev P -> ev (fun fs => exists f, fs = S f /\ P f).
    Proof.
      intros [f0 H]. exists (S f0). intros fs L. destruct fs as [|f]; [lia|]. exists f. split; [reflexivity|].
      apply H. lia.
    Qed.

    Lemma cc_up kf t ss key idx n w f : kmono kf ->
      def (cclauses kb bf f t ss key idx n w (kf f)) -> def (cclauses kb bf f t ss key idx n w (kf (S f))).
    Proof. intros M D. eapply rle_def2; [|exact D]. apply cclauses_rle; [lia|apply M; lia]. Qed.

    Lemma step_call : cv_call (S F).
    Proof.
      intros t ss child idx n w nd' r c w1 kf M Hcn Hc H R. rewrite call_loop_S in H. unfold call_body in H.
      destruct (n <=? idx) eqn:Eni.
      { generalize (ev_ge 1). apply ev_mono. intros fs L. destruct fs as [|f]; [lia|].
        rewrite cclauses_S. unfold cclauses_body. rewrite Eni. apply def_ok. }
      dbind1 H as key Ek. assert (key = keyof t) as -> by (unfold keyof; now rewrite Ek).
      dbind2 H as r0 ctr Eg. dbind1 H as u Eu.
      assert (forall f k, cclauses kb bf (S f) t ss (keyof t) idx n w k =
                match u with
                | None => cclauses kb bf f t ss (keyof t) (idx + 1) n (w_set_id (w_set_id w ctr) (next_id w)) k
                | Some s' =>
                    if is_gnil (r_body r0)
                    then seq (k s' (w_set_id w ctr) false) (fun w2 => cclauses kb bf f t ss (keyof t) (idx + 1) n w2 k)
                    else do x <- csolve kb bf f (r_body r0) s' (w_set_id w ctr) (kbump k);
                         after_body x (fun w2 => cclauses kb bf f t ss (keyof t) (idx + 1) n w2 k)
                end) as Hunf.
      { intros f k. rewrite cclauses_S. unfold cclauses_body. rewrite Eni, Eg. cbn [bind]. rewrite Eu. reflexivity. }
      destruct u as [s'|].
      2:{ generalize (ev_pred _ (IHc t ss child (idx + 1) n _ _ _ _ _ kf M Hcn Hc H R)). apply ev_mono.
          intros fs (f & -> & D). rewrite Hunf. apply cc_up; assumption. }
      destruct (is_gnil (r_body r0)) eqn:Egn.
      - (* a fact *)
        inversion H; subst; clear H. cbn [rest_ok] in R.
        generalize (ev_pred _ (ev_and _ _ (ev_ge 1) R)). apply ev_mono. intros fs (f & -> & L & Dk & Rk).
        rewrite Hunf.
        assert (kf (S f) s' (w_set_id w ctr) false = kf f s' (w_set_id w ctr) false) as Ek1
          by (apply rle_def; [apply M; lia|exact Dk]).
        rewrite Ek1. apply def_seq; [exact Dk|]. intros a1 w2 Ea.
        pose proof (Rk _ _ Ea eq_refl) as D. rewrite cden_call in D.
        rewrite (cden_opt_dead kb bf f child w2 (kbump (kf f)) Hc L) in D. unfold empty in D. cbn [bind] in D.
        apply def_after_body_inv in D. apply cc_up; assumption.
      - (* a rule with a body *)
        dbind2 H as c0 w2 E2. dbind H as c1 o3 b3 w3 E3.
        assert (rest_ok (fun fs => kbump (kf fs)) c1 o3 b3 w3 ->
                exists V, def V /\ ev (fun fs => csolve kb bf fs (r_body r0) s' (w_set_id w ctr) (kbump (kf fs)) = V)) as Hbody.
        { intro R3.
          destruct (IHn c0 w2 c1 o3 b3 w3 (fun fs => kbump (kf fs)) (kmono_kbump _ M)
                        (inv_make _ _ _ _ _ (inv_body _ _ _ _ _ Eg) E2) E3 R3) as [f0 HT].
          pose proof (HT f0 (le_n _)) as D0.
          destruct (cden_fresh_inv _ _ _ _ _ _ _ (inv_body _ _ _ _ _ Eg) E2 D0) as [f D1].
          eexists. split; [exact D1|]. exact (ev_csolve (fun fs => kbump (kf fs)) _ _ _ (kmono_kbump _ M) f f0 D1). }
        assert (forall f V, csolve kb bf f (r_body r0) s' (w_set_id w ctr) (kbump (kf f)) = V -> def V ->
                  csolve kb bf f (r_body r0) s' (w_set_id w ctr) (kbump (kf (S f))) = V) as Hup.
        { intros f V E D. subst V. apply rle_def; [apply csolve_rle; [lia|apply kle_kbump, M; lia]|exact D]. }
        destruct o3 as [s3|].
        + inversion H; subst; clear H. cbn [rest_ok] in R.
          destruct Hbody as (V & DV & EC).
          { cbn [rest_ok]. revert R. apply ev_mono. intros fs [Dk Rk]. split.
            - unfold kbump. apply def_bind; [exact Dk|]. intros [[a wq] sg] _. apply def_ok.
            - intros a1 w4 Hk ->. unfold kbump in Hk.
              destruct (kf fs s3 w1 false) as [[[a wq] sg]| |] eqn:Ekk; cbn [bind] in Hk; try discriminate.
              inversion Hk; subst. destruct sg; try discriminate.
              pose proof (Rk _ _ eq_refl eq_refl) as D. cbn [orb] in D. rewrite cden_call in D.
              exact (def_bind_inv _ _ D). }
          generalize (ev_pred _ (ev_and _ _ (ev_ge 1) (ev_and _ _ EC R))). apply ev_mono.
          intros fs (f & -> & L & EC' & Dk & Rk). rewrite Hunf, (Hup f V EC' DV).
          apply def_bind; [exact DV|]. intros [[a wq] g'] Ex. apply def_after_body. intros a1 wq' E. inversion E; subst. clear E.
          assert (cden kb bf f c0 w2 (kbump (kf f)) = Ok (a1, wq', Go)) as Ec
            by (eapply (cden_fresh kb bf (r_body r0) f f); [exact E2|lia|apply ckle_refl|exact Ex]).
          destruct (fwd_some _ _ _ _ _ _ _ _ _ _ _ L E3 Ec) as (-> & a2 & w4 & a3 & Hk & Hd).
          unfold kbump in Hk.
          destruct (kf f s3 w1 false) as [[[ak wk] sg]| |] eqn:Ekk; cbn [bind] in Hk; try discriminate.
          inversion Hk; subst. destruct sg; try discriminate.
          pose proof (Rk _ _ eq_refl eq_refl) as D. cbn [orb] in D. rewrite cden_call, Hd in D. cbn [bind] in D.
          apply def_after_body_inv in D. apply cc_up; assumption.
        + destruct (Hbody I) as (V & DV & EC).
          destruct b3; cbn [orb] in H.
          * generalize (ev_pred _ (ev_and _ _ (ev_ge 1) EC)). apply ev_mono.
            intros fs (f & -> & L & EC'). rewrite Hunf, (Hup f V EC' DV).
            apply def_bind; [exact DV|]. intros [[a wq] g'] Ex. apply def_after_body. intros a1 wq' E. inversion E; subst. clear E.
            assert (cden kb bf f c0 w2 (kbump (kf f)) = Ok (a1, wq', Go)) as Ec
              by (eapply (cden_fresh kb bf (r_body r0) f f); [exact E2|lia|apply ckle_refl|exact Ex]).
            destruct (fwd_none _ _ _ _ _ _ _ _ _ _ _ L E3 Ec) as (_ & _ & Hg). discriminate Hg.
          * assert (dead c1) as Dc by (eapply none_then_dead; eauto).
            pose proof (IHc t ss (Some c1) (idx + 1) n w3 _ _ _ _ kf M (inv_next _ _ _ _ _ _ _ (inv_make _ _ _ _ _ (inv_body _ _ _ _ _ Eg) E2) E3) Dc H R) as EB.
            generalize (ev_pred _ (ev_and _ _ (ev_ge 1) (ev_and _ _ EC EB))). apply ev_mono.
            intros fs (f & -> & L & EC' & DB). rewrite Hunf, (Hup f V EC' DV).
            apply def_bind; [exact DV|]. intros [[a wq] g'] Ex. apply def_after_body. intros a1 wq' E. inversion E; subst. clear E.
            assert (cden kb bf f c0 w2 (kbump (kf f)) = Ok (a1, wq', Go)) as Ec
              by (eapply (cden_fresh kb bf (r_body r0) f f); [exact E2|lia|apply ckle_refl|exact Ex]).
            destruct (fwd_none _ _ _ _ _ _ _ _ _ _ _ L E3 Ec) as (_ & -> & _).
            apply cc_up; assumption.
    Qed.

    Lemma step_and : cv_and (S F).
    Proof.
      intros ss more head tail optail w nd' r c w1 kf M Hh Htl Ho Ht H R. rewrite and_loop_S in H. unfold and_body in H.
      destruct head as [h|].
      2:{ ev_all fs. apply def_ok. }
      dbind H as h1 o1 b1 wa E1. cbn [orb] in H. unfold dhead.
      destruct o1 as [s|].
      2:{ apply (IHn h w h1 None b1 wa (fun fs => ckand kb bf fs optail (kf fs)) (kmono_ckand _ _ M) Hh E1). exact I. }
      assert (forall optail', (match optail' with Some (_ :: _) => False | _ => True end) ->
                rest_ok kf (NOp OAnd ss b1 more (Some (if b1 then set_nobt h1 else h1)) tail optail') (Some s) b1 wa ->
                ev (fun fs => def (cden kb bf fs h w (ckand kb bf fs optail' (kf fs))))) as Hlast.
      { intros optail' Ho' R'. cbn [rest_ok] in R'.
        assert (forall fs, ckand kb bf fs optail' (kf fs) = kf fs) as Eck
          by (intro fs; destruct optail' as [[|? ?]|]; try reflexivity; contradiction).
        assert (rest_ok kf h1 (Some s) b1 wa) as R1.
        { cbn [rest_ok]. generalize (ev_and _ _ (ev_ge 1) R'). apply ev_mono. intros fs (L & Dk & Rk).
          split; [exact Dk|]. intros a1 w2 Hk ->. pose proof (Rk _ _ Hk eq_refl) as D.
          rewrite cden_and in D. rewrite (cden_opt_dead kb bf fs tail w2 (kwrap false (kf fs)) Ht L) in D.
          rewrite seq_empty_eq, Eck in D. exact D. }
        generalize (IHn h w h1 (Some s) b1 wa kf M Hh E1 R1). apply ev_mono. intros fs D. now rewrite Eck. }
      destruct optail as [[|g rr]|].
      - inversion H; subst; clear H. apply Hlast; [exact I|exact R].
      - cbn [length Nat.eqb] in H. dbind2 H as t1 w2 E2. dbind H as t3 o3 b3 w3 E3.
        (* the conjunction of the remaining goals, from the head's answer *)
        assert (rest_ok (fun fs => kwrap b1 (kf fs)) t3 o3 b3 w3 ->
                exists V, def V /\ ev (fun fs => csolve kb bf fs (GOp OAnd (g :: rr)) s wa (kwrap b1 (kf fs)) = V)) as Htail.
        { intro R3.
          destruct (IHn t1 w2 t3 o3 b3 w3 (fun fs => kwrap b1 (kf fs)) (kmono_kwrap _ _ M)
                        (inv_make (GOp OAnd (g :: rr)) _ _ _ _ Ho E2) E3 R3) as [f0 HT].
          pose proof (HT f0 (le_n _)) as D0. destruct (cden_fresh_inv (GOp OAnd (g :: rr)) _ _ _ _ _ _ Ho E2 D0) as [f D1].
          eexists. split; [exact D1|]. exact (ev_csolve (fun fs => kwrap b1 (kf fs)) _ _ _ (kmono_kwrap _ _ M) f f0 D1). }
        apply (IHn h w h1 (Some s) b1 wa (fun fs => ckand kb bf fs (Some (g :: rr)) (kf fs)) (kmono_ckand _ _ M) Hh E1).
        cbn [rest_ok ckand].
        destruct o3 as [s3|].
        + (* the tail has an answer *)
          inversion H; subst; clear H. cbn [rest_ok] in R.
          destruct Htail as (V & DV & EC).
          { cbn [rest_ok]. revert R. apply ev_mono. intros fs [Dk Rk]. split.
            - unfold kwrap. apply def_bind; [exact Dk|]. intros; apply def_ok.
            - intros a1 w4 Hk ->. unfold kwrap in Hk. rewrite orb_false_r in *.
              destruct (kf fs s3 w1 b1) as [[[a wq] sg]| |] eqn:Ekk; cbn [bind] in Hk; try discriminate.
              destruct b1; cbn [mark] in Hk; inversion Hk; subst; [destruct sg; discriminate|].
              pose proof (Rk _ _ eq_refl eq_refl) as D. rewrite cden_and in D. exact (def_seq_inv1 _ _ D). }
          generalize (ev_and _ _ (ev_ge 1) (ev_and _ _ EC R)). apply ev_mono. intros fs (L & EC' & Dk & Rk).
          split; [rewrite EC'; apply def_bind; [exact DV|]; intros; apply def_ok|].
          intros a1 wq Hk ->.
          destruct (csolve kb bf fs (GOp OAnd (g :: rr)) s wa (kwrap false (kf fs))) as [[[ay wy] gy]| |] eqn:Ecs;
            cbn [bind mark] in Hk; try discriminate. inversion Hk; subst. clear Hk.
          assert (cden kb bf fs t1 w2 (kwrap false (kf fs)) = Ok (a1, wq, Go)) as Ec
            by (eapply (cden_fresh kb bf (GOp OAnd (g :: rr)) fs fs); [exact E2|lia|apply ckle_refl|exact Ecs]).
          destruct (fwd_some _ _ _ _ _ _ _ _ _ _ _ L E3 Ec) as (-> & a2 & w4 & a3 & Hk & Hd).
          unfold kwrap in Hk. cbn [orb] in Hk.
          destruct (kf fs s3 w1 false) as [[[ak wk] sg]| |] eqn:Ekk; cbn [bind mark] in Hk; try discriminate.
          inversion Hk; subst. cbn [orb] in Rk. pose proof (Rk _ _ Ekk eq_refl) as D.
          rewrite cden_and in D. exact (def_seq_inv2 _ _ _ _ D Hd).
        + (* the tail has none *)
          destruct (Htail I) as (V & DV & EC).
          destruct b1.
          * generalize EC. apply ev_mono. intros fs EC'.
            split; [rewrite EC'; apply def_bind; [exact DV|]; intros; apply def_ok|]. intros a1 wq _ Hf. discriminate Hf.
          * destruct b3; cbn [orb] in H.
            -- generalize (ev_and _ _ (ev_ge 1) EC). apply ev_mono. intros fs (L & EC').
               split; [rewrite EC'; apply def_bind; [exact DV|]; intros; apply def_ok|]. intros a1 wq Hk _.
               destruct (csolve kb bf fs (GOp OAnd (g :: rr)) s wa (kwrap false (kf fs))) as [[[ay wy] gy]| |] eqn:Ecs;
                 cbn [bind mark] in Hk; try discriminate. inversion Hk; subst. clear Hk.
               assert (cden kb bf fs t1 w2 (kwrap false (kf fs)) = Ok (a1, wq, Go)) as Ec
                 by (eapply (cden_fresh kb bf (GOp OAnd (g :: rr)) fs fs); [exact E2|lia|apply ckle_refl|exact Ecs]).
               destruct (fwd_none _ _ _ _ _ _ _ _ _ _ _ L E3 Ec) as (_ & _ & Hg). discriminate Hg.
            -- assert (dead t3) as Dt by (eapply none_then_dead; eauto).
               pose proof (IHa ss more (Some h1) (Some t3) (Some (g :: rr)) w3 _ _ _ _ kf M (inv_next _ _ _ _ _ _ _ Hh E1) (inv_next _ _ _ _ _ _ _ (inv_make (GOp OAnd (g :: rr)) _ _ _ _ Ho E2) E3) Ho Dt H R) as EB.
               generalize (ev_and _ _ (ev_ge 1) (ev_and _ _ EC EB)). apply ev_mono. intros fs (L & EC' & DB).
               split; [rewrite EC'; apply def_bind; [exact DV|]; intros; apply def_ok|]. intros a1 wq Hk _.
               destruct (csolve kb bf fs (GOp OAnd (g :: rr)) s wa (kwrap false (kf fs))) as [[[ay wy] gy]| |] eqn:Ecs;
                 cbn [bind mark] in Hk; try discriminate. inversion Hk; subst. clear Hk.
               assert (cden kb bf fs t1 w2 (kwrap false (kf fs)) = Ok (a1, wq, Go)) as Ec
                 by (eapply (cden_fresh kb bf (GOp OAnd (g :: rr)) fs fs); [exact E2|lia|apply ckle_refl|exact Ecs]).
               destruct (fwd_none _ _ _ _ _ _ _ _ _ _ _ L E3 Ec) as (_ & -> & _). exact DB.
      - inversion H; subst; clear H. apply Hlast; [exact I|exact R].
    Qed.
  End Step.

  Theorem cv_all : forall F, cv_next F /\ cv_and F /\ cv_call F.
  Proof.
    induction F as [|F (IHn & IHa & IHc)].
    - split; [|split]; red; intros; match goal with H : _ = Ok (_, _, _, _) |- _ => discriminate H end.
    - split; [|split]; [apply step_next|apply step_and|apply step_call]; assumption.
  Qed.

  (* ---- draining a node ---- *)
  Lemma ask_all_defined : forall m F nd w R', inv (nok nd) ->
    ask_all kb bf m F nd w = Ok R' -> ev (fun fs => def (cden kb bf fs nd w collect)).
  Proof.
    induction m as [|m IH]; intros F nd w R' Hn H; [discriminate|].
    cbn [ask_all] in H. dbind H as nd1 o1 b1 w1 E1.
    apply (proj1 (cv_all F) nd w nd1 o1 b1 w1 (fun _ => collect) (kmono_const _) Hn E1).
    destruct o1 as [s|]; [|exact I]. cbn [rest_ok].
    destruct (ask_all kb bf m F nd1 w1) as [[a2 w3]| |] eqn:Ed; cbn [bind] in H; try discriminate.
    generalize (IH _ _ _ _ (inv_next _ _ _ _ _ _ _ Hn E1) Ed). apply ev_mono. intros fs D. split; [apply def_ok|].
    intros a1 w2 Hk _. unfold collect in Hk. inversion Hk; subst. exact D.
  Qed.

  Theorem query_defined q w nd w1 m F R' :
    make_base_node kb (GCall q) w = Ok (nd, w1) -> ask_all kb bf m F nd w1 = Ok R' ->
    exists fs, def (csolve kb bf fs (GCall q) [] w collect).
  Proof.
    intros Hm Hd.
    assert (make_node kb (GCall q) [] w = Ok (nd, w1)) as Hm' by exact Hm.
    assert (inv (nok nd)) as Hn by (apply (inv_make (GCall q) _ _ _ _ inv_true Hm')).
    destruct (ev_ex _ (ask_all_defined _ _ _ _ _ Hn Hd)) as [fs0 D0].
    exact (cden_fresh_inv (GCall q) _ _ _ _ _ _ inv_true Hm' D0).
  Qed.
End Conv.
End Dfd.

(* The converse of refines_cut: when the engine drains the query's node, the reference search of
   the query finishes for some fuel - then with the engine's answers and final world - or it
   REFUSES the program. *)
Theorem refines_cut_converse kb bf q w nd w1 m F R' :
  make_base_node kb (GCall q) w = Ok (nd, w1) -> ask_all kb bf m F nd w1 = Ok R' ->
  (exists fs, canswers kb bf fs q w = Ok R') \/ (exists fs, canswers kb bf fs q w = Panic).
Proof.
  intros Hm Hd.
  destruct (query_defined true kb bf ltac:(discriminate) q w nd w1 m F R' Hm Hd) as [fs D].
  destruct (csolve kb bf fs (GCall q) [] w collect) as [[[a wE] g]| |] eqn:Ec.
  - left. exists fs.
    assert (canswers kb bf fs q w = Ok (a, wE)) as Hc by (unfold canswers; unfold collect in Ec; now rewrite Ec).
    now rewrite (refines_cut kb bf q w fs (a, wE) nd w1 m F R' Hc Hm Hd).
  - right. exists fs. unfold canswers. unfold collect in Ec. now rewrite Ec.
  - destruct D.
Qed.

(* ... and it refuses only programs with a cut directly inside not(..) / time(..): when no clause
   body contains one (`kbok`, decidable), the reference search finishes. *)
Theorem refines_cut_converse_ok kb bf q w nd w1 m F R' :
  kbok kb ->
  make_base_node kb (GCall q) w = Ok (nd, w1) -> ask_all kb bf m F nd w1 = Ok R' ->
  exists fs, canswers kb bf fs q w = Ok R'.
Proof.
  intros Hk Hm Hd.
  destruct (query_defined false kb bf (fun _ => Hk) q w nd w1 m F R' Hm Hd) as [fs D].
  destruct (csolve kb bf fs (GCall q) [] w collect) as [[[a wE] g]| |] eqn:Ec.
  - exists fs.
    assert (canswers kb bf fs q w = Ok (a, wE)) as Hc by (unfold canswers; unfold collect in Ec; now rewrite Ec).
    now rewrite (refines_cut kb bf q w fs (a, wE) nd w1 m F R' Hc Hm Hd).
  - discriminate D.
  - destruct D.
Qed.
