(* C18, goal and rule level: `tokenize`, `generate_goal` and `parse_rule` return a value or
   an error for every string - never Panic, never OutOfFuel once the fuel exceeds an
   explicit bound in the length of the string.

   The panics that remain in the Rust code of the grouping passes and of
   `token_tree_to_goal` ("Group should have 1 child", "Leaf token must be Subgoal",
   `get_token_str` on a branch ...) are shown UNREACHABLE from `generate_goal`: the token
   list that `tokenize` produces has the shape `TOK`, `group_tokens` turns such a list into
   a `raw` tree, the And/Or passes turn a raw tree into a `ready` tree, and
   `token_tree_to_goal` is total on ready trees. *)
From Coq Require Import Lia.
From Suiron Require Import Model.Tokenizer Model.ParseRule Proofs.TokenizerStream.
Open Scope N_scope.

(* ---------------------------------------------------------------------------------- *)
(* outcomes *)

Definition good {A} (r : res (presult A)) : Prop :=
  match r with Ok _ => True | _ => False end.

Lemma good_inv {A} (r : res (presult A)) :
  good r -> (exists v, r = Ok (POk v)) \/ r = Ok PErr.
Proof. destruct r as [[v|]| |]; simpl; intros H; try contradiction; eauto. Qed.

(* ---------------------------------------------------------------------------------- *)
(* induction on tokens *)

Section token_ind'.
  Variable P : token -> Prop.
  Hypothesis HLeaf : forall ty s, P (Leaf ty s).
  Hypothesis HBranch : forall ty cs, Forall P cs -> P (Branch ty cs).
  Fixpoint token_ind' (t : token) : P t :=
    match t with
    | Leaf ty s => HLeaf ty s
    | Branch ty cs =>
        HBranch ty cs ((fix go (l : list token) : Forall P l :=
                          match l with
                          | [] => Forall_nil P
                          | x :: l' => Forall_cons x (token_ind' x) (go l')
                          end) cs)
    end.
End token_ind'.

(* ---------------------------------------------------------------------------------- *)
(* trim and the type of the token made from a slice *)

Lemma trim_start_all_ws w : forallb tk_is_whitespace w = true -> tk_trim_start w = [].
Proof.
  induction w as [|c w IH]; simpl; [reflexivity|].
  intros H. apply andb_true_iff in H as [H1 H2]. rewrite H1. now apply IH.
Qed.

Lemma trim_all_ws w : forallb tk_is_whitespace w = true -> tk_trim w = [].
Proof. intros H. unfold tk_trim. now rewrite (trim_start_all_ws w H). Qed.

Lemma trim_start_keeps c w :
  In c w -> tk_is_whitespace c = false -> In c (tk_trim_start w).
Proof.
  induction w as [|x w IH]; simpl; [tauto|].
  intros [->|Hin] Hc.
  - rewrite Hc. now left.
  - destruct (tk_is_whitespace x); [now apply IH | now right].
Qed.

Lemma trim_keeps c w : In c w -> tk_is_whitespace c = false -> In c (tk_trim w).
Proof.
  intros Hin Hc. unfold tk_trim. apply -> in_rev.
  apply trim_start_keeps; [|exact Hc]. apply -> in_rev. now apply trim_start_keeps.
Qed.

Definition slice_ty (w : str) : token_type := get_type (make_leaf_token w).

Definition symb (c : N) : bool :=
  (c =? ch_comma) || (c =? ch_semicolon) || (c =? ch_lparen) || (c =? ch_rparen).
Definition hardb (c : N) : bool := negb (tk_is_whitespace c) && negb (symb c).

Lemma slice_ty_cases w :
  (slice_ty w = TTSubgoal) \/
  (exists c, tk_trim w = [c] /\ symb c = true /\
             slice_ty w = (if c =? ch_comma then TTComma else if c =? ch_semicolon then TTSemicolon
                           else if c =? ch_lparen then TTLParen else TTRParen)).
Proof.
  unfold slice_ty, make_leaf_token.
  destruct (str_eqb (tk_trim w) [ch_comma]) eqn:E1.
  { right. apply str_eqb_eq in E1. exists ch_comma. rewrite E1. now repeat split. }
  destruct (str_eqb (tk_trim w) [ch_semicolon]) eqn:E2.
  { right. apply str_eqb_eq in E2. exists ch_semicolon. rewrite E2. now repeat split. }
  destruct (str_eqb (tk_trim w) [ch_lparen]) eqn:E3.
  { right. apply str_eqb_eq in E3. exists ch_lparen. rewrite E3. now repeat split. }
  destruct (str_eqb (tk_trim w) [ch_rparen]) eqn:E4.
  { right. apply str_eqb_eq in E4. exists ch_rparen. rewrite E4. now repeat split. }
  now left.
Qed.

Lemma slice_fresh w : forallb tk_is_whitespace w = true -> slice_ty w = TTSubgoal.
Proof.
  intros H. destruct (slice_ty_cases w) as [E|(c & Et & _)]; [exact E|].
  rewrite (trim_all_ws w H) in Et. discriminate.
Qed.

Lemma slice_dirty w : existsb hardb w = true -> slice_ty w = TTSubgoal.
Proof.
  intros H. apply existsb_exists in H as (c & Hin & Hh).
  apply andb_true_iff in Hh as [Hw Hs]. apply negb_true_iff in Hw, Hs.
  destruct (slice_ty_cases w) as [E|(c' & Et & Hs' & _)]; [exact E|].
  pose proof (trim_keeps c w Hin Hw) as Hk. rewrite Et in Hk.
  destruct Hk as [->|[]]. congruence.
Qed.

Lemma slice_post w :
  existsb (N.eqb ch_rparen) w = true -> slice_ty w = TTSubgoal \/ slice_ty w = TTRParen.
Proof.
  intros H. apply existsb_exists in H as (c & Hin & Hc). apply N.eqb_eq in Hc. subst c.
  destruct (slice_ty_cases w) as [E|(c' & Et & Hs' & E)]; [now left|].
  assert (Hk : In ch_rparen (tk_trim w)) by (apply trim_keeps; [exact Hin | reflexivity]).
  rewrite Et in Hk. destruct Hk as [->|[]]. right. exact E.
Qed.

Definition leaf_ty (ty : token_type) : bool :=
  match ty with
  | TTSubgoal | TTComma | TTSemicolon | TTLParen | TTRParen => true
  | _ => false
  end.

Definition is_leaf (t : token) : bool :=
  match t with Leaf ty _ => leaf_ty ty | Branch _ _ => false end.

Lemma make_leaf_token_is_leaf s : is_leaf (make_leaf_token s) = true.
Proof.
  unfold make_leaf_token.
  repeat match goal with |- context [if ?b then _ else _] => destruct b end; reflexivity.
Qed.

Lemma make_leaf_token_symbols :
  get_type (make_leaf_token [ch_lparen]) = TTLParen /\
  get_type (make_leaf_token [ch_rparen]) = TTRParen /\
  get_type (make_leaf_token [ch_comma]) = TTComma /\
  get_type (make_leaf_token [ch_semicolon]) = TTSemicolon.
Proof. vm_compute. repeat split. Qed.

(* ---------------------------------------------------------------------------------- *)
(* the stream loop terminates: one step consumes at least one character *)

Lemma sstep_shrinks c rest' w p stk toks cf' :
  sstep c rest' w p stk toks = POk cf' ->
  (length (s_rest cf') <= length rest')%nat /\
  (length (s_toks cf') <= length toks + 2)%nat.
Proof.
  unfold sstep. intros H.
  repeat match type of H with
         | context [if ?b then _ else _] => destruct b
         | context [let '(_, _) := pop ?s in _] => destruct (pop s)
         | context [match quote_loop ?a ?b ?c ?d with _ => _ end] =>
             destruct (quote_loop a b c d) as [[?k|] ?ch]
         end;
    try discriminate; inversion H; subst; cbn [s_rest s_toks];
    repeat rewrite app_length; cbn [length]; try rewrite skipn_length; try lia;
    destruct rest'; cbn [length]; try rewrite skipn_length; lia.
Qed.

Lemma sloop_total : forall fuel cf,
  (length (s_rest cf) < fuel)%nat -> exists r, sloop fuel cf = Ok r.
Proof.
  induction fuel as [|fuel IH]; intros cf Hf; [lia|]. simpl.
  unfold sstep_cfg. destruct (s_rest cf) as [|c rest'] eqn:Er.
  - eauto.
  - destruct (sstep c rest' (s_w cf) (s_prev cf) (s_stk cf) (s_toks cf)) as [cf'|] eqn:Es.
    + apply sstep_shrinks in Es as [Es _]. apply IH. simpl in Hf. lia.
    + eauto.
Qed.

Lemma sloop_toks_bound : forall fuel cf cf',
  sloop fuel cf = Ok (POk cf') ->
  (length (s_toks cf') <= length (s_toks cf) + 2 * length (s_rest cf))%nat.
Proof.
  induction fuel as [|fuel IH]; intros cf cf' H; [discriminate|]. simpl in H.
  unfold sstep_cfg in H. destruct (s_rest cf) as [|c rest'] eqn:Er.
  - inversion H; subst. lia.
  - destruct (sstep c rest' (s_w cf) (s_prev cf) (s_stk cf) (s_toks cf)) as [cf1|] eqn:Es;
      [|discriminate].
    apply sstep_shrinks in Es as [E1 E2]. apply IH in H. simpl. lia.
Qed.

(* ---------------------------------------------------------------------------------- *)
(* characters *)

Lemma ws_range c : tk_is_whitespace c = true ->
  (9 <= c <= 13) \/ c = 32 \/ c = 133 \/ c = 160 \/ c = 5760 \/ (8192 <= c <= 8202) \/
  c = 8232 \/ c = 8233 \/ c = 8239 \/ c = 8287 \/ c = 12288.
Proof.
  unfold tk_is_whitespace. intros H.
  repeat (apply orb_true_iff in H as [H|H]);
    repeat match goal with
           | H : (_ && _) = true |- _ => apply andb_true_iff in H as [? ?]
           | H : (_ <=? _) = true |- _ => apply N.leb_le in H
           | H : (_ =? _) = true |- _ => apply N.eqb_eq in H
           end; lia.
Qed.

Lemma lnh_range c : letter_number_hyphen c = true ->
  (45 <= c <= 122) \/ c = 173 \/ (192 <= c < 704) \/ (896 <= c < 1296).
Proof.
  unfold letter_number_hyphen, ch_underscore, ch_hyphen. intros H.
  repeat match type of H with
         | (if ?b then _ else _) = true => destruct b eqn:?
         end; try discriminate;
    repeat match goal with
           | H : (_ && _) = true |- _ => apply andb_true_iff in H as [? ?]
           | H : (_ || _) = true |- _ => apply orb_true_iff in H as [H|H]
           | H : (_ <=? _) = true |- _ => apply N.leb_le in H
           | H : (_ <? _) = true |- _ => apply N.ltb_lt in H
           | H : (_ =? _) = true |- _ => apply N.eqb_eq in H
           end; lia.
Qed.

Lemma ws_not_lnh c : tk_is_whitespace c = true ->
  letter_number_hyphen c = false /\ (c =? ch_backslash) = false /\ symb c = false.
Proof.
  intros H. apply ws_range in H. repeat split.
  - destruct (letter_number_hyphen c) eqn:E; [|reflexivity]. apply lnh_range in E. lia.
  - apply N.eqb_neq. unfold ch_backslash. lia.
  - unfold symb, ch_comma, ch_semicolon, ch_lparen, ch_rparen.
    repeat (apply orb_false_iff; split); apply N.eqb_neq; lia.
Qed.

Lemma no_esc_true c m p : no_esc c m p = true -> c = m /\ (p =? ch_backslash) = false.
Proof.
  unfold no_esc. destruct (p =? ch_backslash); [discriminate|].
  destruct (c =? m) eqn:E; [|discriminate]. apply N.eqb_eq in E. auto.
Qed.

Lemma no_esc_false c m p : no_esc c m p = false -> (p =? ch_backslash) = false -> c <> m.
Proof.
  unfold no_esc. intros H Hp. rewrite Hp in H.
  destruct (c =? m) eqn:E; [discriminate|]. now apply N.eqb_neq.
Qed.

(* ---------------------------------------------------------------------------------- *)
(* shape of the token list under construction *)

Definition is_lp (t : token) : bool := tt_eqb (get_type t) TTLParen.
Definition startok (t : token) : bool :=
  tt_eqb (get_type t) TTSubgoal || tt_eqb (get_type t) TTLParen.

Fixpoint chain (l : list token) : Prop :=
  match l with
  | t1 :: ((t2 :: _) as r) => (is_lp t1 = true -> startok t2 = true) /\ chain r
  | _ => True
  end.

Definition lastty (l : list token) : token_type :=
  match rev l with [] => TTEmpty | t :: _ => get_type t end.

Definition first_ok (l : list token) : Prop :=
  match l with [] => True | t :: _ => startok t = true end.

Lemma lastty_snoc l x : lastty (l ++ [x]) = get_type x.
Proof. unfold lastty. now rewrite rev_app_distr. Qed.

Lemma lastty_cons t l : l <> [] -> lastty (t :: l) = lastty l.
Proof.
  intros Hne. unfold lastty. simpl.
  destruct (rev l) as [|y r] eqn:E.
  - exfalso. apply Hne. apply (f_equal (@rev token)) in E. now rewrite rev_involutive in E.
  - reflexivity.
Qed.

Lemma chain_snoc l x :
  chain l -> (lastty l = TTLParen -> startok x = true) -> chain (l ++ [x]).
Proof.
  induction l as [|t1 l IH]; intros Hc Hl; [exact I|].
  destruct l as [|t2 l].
  - simpl. split; [|exact I]. intros H. apply Hl. unfold lastty; simpl.
    unfold is_lp in H. destruct (get_type t1); try discriminate; reflexivity.
  - destruct Hc as [H1 H2]. change ((t1 :: t2 :: l) ++ [x]) with (t1 :: (t2 :: l) ++ [x]).
    simpl. split; [exact H1|]. apply IH; [exact H2|].
    intros H. apply Hl. rewrite lastty_cons by discriminate. exact H.
Qed.

Lemma first_ok_snoc l x : first_ok l -> (l = [] -> startok x = true) -> first_ok (l ++ [x]).
Proof. destruct l; simpl; auto. Qed.

Lemma chain_tail t l : chain (t :: l) -> chain l.
Proof. destruct l; simpl; tauto. Qed.

(* ---------------------------------------------------------------------------------- *)
(* the state of the current slice: fresh (only white space since the last reset, and the
   scanner is in its ground state), dirty (holds a character that cannot be trimmed away
   nor be a lone symbol), post (holds a right parenthesis) *)

Definition freshb (w : str) (stk : parse_stack) (prev : N) : bool :=
  forallb tk_is_whitespace w && negb (tt_eqb (peek stk) TTComplex) &&
  negb (tt_eqb (peek stk) TTLinkedList) && negb (prev =? ch_backslash) &&
  negb (letter_number_hyphen prev).
Definition dirtyb (w : str) : bool := existsb hardb w.
Definition postb (w : str) : bool := existsb (N.eqb ch_rparen) w.

Lemma dirtyb_app w x : dirtyb w = true -> dirtyb (w ++ x) = true.
Proof. unfold dirtyb. rewrite existsb_app. intros ->. reflexivity. Qed.
Lemma dirtyb_app_r w x : dirtyb x = true -> dirtyb (w ++ x) = true.
Proof. unfold dirtyb. rewrite existsb_app. intros ->. apply orb_true_r. Qed.
Lemma postb_app w x : postb w = true -> postb (w ++ x) = true.
Proof. unfold postb. rewrite existsb_app. intros ->. reflexivity. Qed.
Lemma postb_app_r w x : postb x = true -> postb (w ++ x) = true.
Proof. unfold postb. rewrite existsb_app. intros ->. apply orb_true_r. Qed.

Definition stk_step (stk stk' : parse_stack) : Prop :=
  stk' = stk \/ stk' = TTComplex :: stk \/ stk' = TTLinkedList :: stk \/
  stk = TTComplex :: stk' \/ stk = TTLinkedList :: stk'.

Lemma stk_step_group stk stk' : stk_step stk stk' -> In TTGroup stk -> In TTGroup stk'.
Proof.
  intros [E|[E|[E|[E|E]]]] H; subst; simpl in *; auto.
  - destruct H as [H|H]; [discriminate|exact H].
  - destruct H as [H|H]; [discriminate|exact H].
Qed.

(* what one iteration does, as one of four events *)
Inductive event (c : N) (w : str) (prev : N) (stk : parse_stack) (toks : list token)
  : scfg -> Prop :=
| EvGrow rest'' x ch stk' :
    x <> [] -> stk_step stk stk' ->
    (freshb w stk prev = true -> freshb (w ++ x) stk' ch = true \/ dirtyb x = true) ->
    event c w prev stk toks (mkS rest'' (w ++ x) ch stk' toks)
| EvOpen rest'' :
    event c w prev stk toks
          (mkS rest'' [] ch_lparen (TTGroup :: stk) (toks ++ [make_leaf_token [ch_lparen]]))
| EvClose rest'' stk' :
    stk = TTGroup :: stk' ->
    event c w prev stk toks
          (mkS rest'' (w ++ [ch_rparen]) ch_rparen stk'
               (toks ++ [make_leaf_token w] ++ [make_leaf_token [ch_rparen]]))
| EvSep rest'' sep :
    (sep = ch_comma \/ sep = ch_semicolon) ->
    tt_eqb (peek stk) TTComplex = false -> tt_eqb (peek stk) TTLinkedList = false ->
    event c w prev stk toks
          (mkS rest'' [] sep stk (toks ++ [make_leaf_token w] ++ [make_leaf_token [sep]])).

Lemma freshb_inv w stk prev : freshb w stk prev = true ->
  forallb tk_is_whitespace w = true /\ tt_eqb (peek stk) TTComplex = false /\
  tt_eqb (peek stk) TTLinkedList = false /\ (prev =? ch_backslash) = false /\
  letter_number_hyphen prev = false.
Proof.
  unfold freshb. intros H.
  repeat (apply andb_true_iff in H as [H ?]).
  repeat match goal with H : negb _ = true |- _ => apply negb_true_iff in H end.
  auto.
Qed.

Lemma freshb_intro w stk prev :
  forallb tk_is_whitespace w = true -> tt_eqb (peek stk) TTComplex = false ->
  tt_eqb (peek stk) TTLinkedList = false -> (prev =? ch_backslash) = false ->
  letter_number_hyphen prev = false -> freshb w stk prev = true.
Proof. unfold freshb. intros -> -> -> -> ->. reflexivity. Qed.

Lemma dirty_single c : hardb c = true -> dirtyb [c] = true.
Proof. unfold dirtyb; simpl. intros ->. reflexivity. Qed.

Lemma sstep_event c rest' w prev stk toks cf' :
  sstep c rest' w prev stk toks = POk cf' -> event c w prev stk toks cf'.
Proof.
  unfold sstep. intros H.
  destruct (no_esc c ch_quote prev) eqn:Eq.
  { (* quote: the slice grows by the quote (a hard character) and what is skipped *)
    apply no_esc_true in Eq as [-> Hb].
    destruct (quote_loop rest' 0 ch_hash ch_quote) as [[k|] ch'];
      inversion H; subst; clear H.
    - apply EvGrow; [discriminate | now left |].
      intros _. right. reflexivity.
    - apply EvGrow; [discriminate | now left |]. intros _. right. reflexivity. }
  destruct (no_esc c ch_lparen prev) eqn:El.
  { apply no_esc_true in El as [-> Hb].
    destruct (letter_number_hyphen prev) eqn:Eh; inversion H; subst; clear H.
    - apply EvGrow; [discriminate | right; now left |].
      intros Hf. apply freshb_inv in Hf as (_ & _ & _ & _ & Hf). congruence.
    - apply EvOpen. }
  destruct (no_esc c ch_rparen prev) eqn:Er.
  { apply no_esc_true in Er as [-> Hb].
    destruct (tt_eqb (peek stk) TTEmpty) eqn:Ee; [discriminate|].
    destruct stk as [|top stk']; [discriminate|]. cbn [pop] in H.
    destruct (tt_eqb top TTGroup) eqn:Eg.
    - inversion H; subst; clear H.
      destruct top; try discriminate. now apply EvClose.
    - destruct (negb (tt_eqb top TTComplex)) eqn:Ec; [discriminate|].
      inversion H; subst; clear H. apply negb_false_iff in Ec.
      destruct top; try discriminate.
      apply EvGrow; [discriminate | right; right; right; now left |].
      intros Hf. apply freshb_inv in Hf as (_ & Hf & _). discriminate. }
  destruct (no_esc c ch_lbracket prev) eqn:Elb.
  { apply no_esc_true in Elb as [-> Hb]. inversion H; subst; clear H.
    apply EvGrow; [discriminate | right; right; now left |]. intros _. right. reflexivity. }
  destruct (no_esc c ch_rbracket prev) eqn:Erb.
  { apply no_esc_true in Erb as [-> Hb].
    destruct (tt_eqb (peek stk) TTEmpty) eqn:Ee; [discriminate|].
    destruct stk as [|top stk']; [discriminate|]. cbn [pop] in H.
    destruct (negb (tt_eqb top TTLinkedList)) eqn:Ec; [discriminate|].
    inversion H; subst; clear H. apply negb_false_iff in Ec.
    destruct top; try discriminate.
    apply EvGrow; [discriminate | right; right; right; now right |].
    intros Hf. apply freshb_inv in Hf as (_ & _ & Hf & _). discriminate. }
  destruct (negb (tt_eqb (peek stk) TTComplex) && negb (tt_eqb (peek stk) TTLinkedList)) eqn:Et.
  2:{ inversion H; subst; clear H.
      apply EvGrow; [discriminate | now left |].
      intros Hf. apply freshb_inv in Hf as (_ & H1 & H2 & _). rewrite H1, H2 in Et. discriminate. }
  apply andb_true_iff in Et as [Et1 Et2]. apply negb_true_iff in Et1, Et2.
  destruct (invalid_between_terms c) eqn:Ei; [discriminate|].
  destruct (no_esc c ch_comma prev) eqn:Ec.
  { apply no_esc_true in Ec as [-> Hb]. inversion H; subst; clear H. apply EvSep; auto. }
  destruct (no_esc c ch_semicolon prev) eqn:Es.
  { apply no_esc_true in Es as [-> Hb]. inversion H; subst; clear H. apply EvSep; auto. }
  inversion H; subst; clear H.
  apply EvGrow; [discriminate | now left |].
  intros Hf. apply freshb_inv in Hf as (Hw & H1 & H2 & Hb & Hl).
  destruct (tk_is_whitespace c) eqn:Ews.
  - left. destruct (ws_not_lnh c Ews) as (A & B & _).
    apply freshb_intro; auto. rewrite forallb_app, Hw. simpl. now rewrite Ews.
  - right. apply dirty_single. unfold hardb. rewrite Ews. simpl.
    apply negb_true_iff. unfold symb.
    pose proof (no_esc_false _ _ _ Ec Hb). pose proof (no_esc_false _ _ _ Es Hb).
    pose proof (no_esc_false _ _ _ El Hb). pose proof (no_esc_false _ _ _ Er Hb).
    repeat (apply orb_false_iff; split); now apply N.eqb_neq.
Qed.

(* ---------------------------------------------------------------------------------- *)
(* the loop invariant of tokenize *)

Definition fd (w : str) (stk : parse_stack) (prev : N) : bool := freshb w stk prev || dirtyb w.
Definition pend (toks : list token) : bool :=
  match rev toks with [] => true | t :: _ => is_lp t end.

Lemma pend_snoc l x : pend (l ++ [x]) = is_lp x.
Proof. unfold pend. now rewrite rev_app_distr. Qed.

Lemma lastty_pend l : lastty l = TTLParen -> pend l = true.
Proof.
  unfold lastty, pend, is_lp. destruct (rev l) as [|t r]; [discriminate|]. intros ->. reflexivity.
Qed.

Lemma pend_lastty l : pend l = true -> l = [] \/ lastty l = TTLParen.
Proof.
  unfold lastty, pend, is_lp. destruct (rev l) as [|t r] eqn:E.
  - intros _. left. apply (f_equal (@rev token)) in E. now rewrite rev_involutive in E.
  - intros H. right. destruct (get_type t); try discriminate; reflexivity.
Qed.

Record Inv (cf : scfg) : Prop := mkInv {
  inv_leaf : forallb is_leaf (s_toks cf) = true;
  inv_chain : chain (s_toks cf);
  inv_first : first_ok (s_toks cf);
  inv_group : lastty (s_toks cf) = TTLParen -> In TTGroup (s_stk cf);
  inv_st3 : fd (s_w cf) (s_stk cf) (s_prev cf) || postb (s_w cf) = true;
  inv_pend : pend (s_toks cf) = true -> fd (s_w cf) (s_stk cf) (s_prev cf) = true;
  inv_ne : s_toks cf <> [] \/ s_w cf <> [] \/ s_rest cf <> []
}.

Lemma fd_slice w stk prev : fd w stk prev = true -> slice_ty w = TTSubgoal.
Proof.
  unfold fd. intros H. apply orb_true_iff in H as [H|H].
  - apply freshb_inv in H as (H & _). now apply slice_fresh.
  - now apply slice_dirty.
Qed.

Lemma st3_slice w stk prev :
  fd w stk prev || postb w = true -> slice_ty w = TTSubgoal \/ slice_ty w = TTRParen.
Proof.
  intros H. apply orb_true_iff in H as [H|H].
  - left. eapply fd_slice; eauto.
  - now apply slice_post.
Qed.

Lemma startok_of_ty t : get_type t = TTSubgoal \/ get_type t = TTLParen -> startok t = true.
Proof. unfold startok. intros [->| ->]; reflexivity. Qed.

Lemma fresh_reset stk c :
  tt_eqb (peek stk) TTComplex = false -> tt_eqb (peek stk) TTLinkedList = false ->
  (c = ch_lparen \/ c = ch_comma \/ c = ch_semicolon) -> fd [] stk c = true.
Proof.
  intros H1 H2 Hc. unfold fd. apply orb_true_iff. left.
  apply freshb_intro; auto; destruct Hc as [->|[->| ->]]; reflexivity.
Qed.

Lemma forallb_snoc {A} (f : A -> bool) l x :
  forallb f (l ++ [x]) = forallb f l && f x.
Proof. rewrite forallb_app. simpl. now rewrite andb_true_r. Qed.

Lemma inv_step c rest' w prev stk toks cf' :
  Inv (mkS (c :: rest') w prev stk toks) -> event c w prev stk toks cf' -> Inv cf'.
Proof.
  intros [Il Ic If Ig I3 Ip _] Ev. cbn [s_toks s_w s_stk s_prev s_rest] in *.
  destruct Ev as [rest'' x ch stk' Hx Hstk Hfresh | rest'' | rest'' stk' Hstk | rest'' sep Hsep Hp1 Hp2].
  - (* grow *)
    assert (Hfd : fd w stk prev = true -> fd (w ++ x) stk' ch = true).
    { unfold fd. intros H. apply orb_true_iff in H as [H|H].
      - destruct (Hfresh H) as [H'|H']; rewrite ?H'; [reflexivity|].
        rewrite (dirtyb_app_r w x H'). apply orb_true_r.
      - rewrite (dirtyb_app w x H). apply orb_true_r. }
    constructor; cbn [s_toks s_w s_stk s_prev s_rest]; auto.
    + intros H. eapply stk_step_group; eauto.
    + apply orb_true_iff in I3 as [H|H].
      * rewrite (Hfd H). reflexivity.
      * rewrite (postb_app w x H). apply orb_true_r.
    + right. left. destruct w; [destruct x; [congruence|discriminate]|discriminate].
  - (* a left parenthesis opens a group *)
    pose proof make_leaf_token_symbols as (Elp & _).
    constructor; cbn [s_toks s_w s_stk s_prev s_rest].
    + rewrite forallb_snoc, Il. apply make_leaf_token_is_leaf.
    + apply chain_snoc; [exact Ic|]. intros _. apply startok_of_ty. now right.
    + apply first_ok_snoc; [exact If|]. intros _. apply startok_of_ty. now right.
    + intros _. now left.
    + rewrite fresh_reset by (auto; reflexivity). reflexivity.
    + intros _. apply fresh_reset; auto; reflexivity.
    + left. now destruct toks.
  - (* a right parenthesis closes a group *)
    pose proof make_leaf_token_symbols as (_ & Erp & _).
    pose proof (st3_slice _ _ _ I3) as Hty.
    assert (Hstart : pend toks = true -> startok (make_leaf_token w) = true).
    { intros H. apply startok_of_ty. left. eapply fd_slice. eauto. }
    rewrite app_assoc.
    constructor; cbn [s_toks s_w s_stk s_prev s_rest].
    + rewrite !forallb_snoc, Il, !make_leaf_token_is_leaf. reflexivity.
    + apply chain_snoc; [apply chain_snoc; [exact Ic|]|].
      * intros H. apply Hstart. now apply lastty_pend.
      * rewrite lastty_snoc. intros H. unfold slice_ty in Hty. destruct Hty; congruence.
    + apply first_ok_snoc; [apply first_ok_snoc; [exact If|]|].
      * intros ->. now apply Hstart.
      * intros H. now destruct toks.
    + rewrite lastty_snoc, Erp. discriminate.
    + rewrite (postb_app_r w [ch_rparen]) by reflexivity. apply orb_true_r.
    + rewrite pend_snoc. unfold is_lp. rewrite Erp. discriminate.
    + left. now destruct (toks ++ [make_leaf_token w]).
  - (* comma / semicolon *)
    assert (Esep : get_type (make_leaf_token [sep]) = TTComma \/
                   get_type (make_leaf_token [sep]) = TTSemicolon).
    { pose proof make_leaf_token_symbols as (_ & _ & E1 & E2). destruct Hsep as [->| ->]; auto. }
    pose proof (st3_slice _ _ _ I3) as Hty.
    assert (Hstart : pend toks = true -> startok (make_leaf_token w) = true).
    { intros H. apply startok_of_ty. left. eapply fd_slice. eauto. }
    rewrite app_assoc.
    constructor; cbn [s_toks s_w s_stk s_prev s_rest].
    + rewrite !forallb_snoc, Il, !make_leaf_token_is_leaf. reflexivity.
    + apply chain_snoc; [apply chain_snoc; [exact Ic|]|].
      * intros H. apply Hstart. now apply lastty_pend.
      * rewrite lastty_snoc. intros H. unfold slice_ty in Hty. destruct Hty; congruence.
    + apply first_ok_snoc; [apply first_ok_snoc; [exact If|]|].
      * intros ->. now apply Hstart.
      * intros H. now destruct toks.
    + rewrite lastty_snoc. destruct Esep as [-> | ->]; discriminate.
    + rewrite fresh_reset by (auto; destruct Hsep; auto). reflexivity.
    + rewrite pend_snoc. unfold is_lp. destruct Esep as [-> | ->]; discriminate.
    + left. now destruct (toks ++ [make_leaf_token w]).
Qed.

Lemma sloop_inv : forall fuel cf cf',
  Inv cf -> sloop fuel cf = Ok (POk cf') -> Inv cf' /\ s_rest cf' = [].
Proof.
  induction fuel as [|fuel IH]; intros cf cf' HI H; [discriminate|]. simpl in H.
  unfold sstep_cfg in H. destruct cf as [rest w prev stk toks]. cbn [s_rest s_w s_prev s_stk s_toks] in H.
  destruct rest as [|c rest'].
  - inversion H; subst. auto.
  - destruct (sstep c rest' w prev stk toks) as [cf1|] eqn:Es; [|discriminate].
    apply IH in H; [exact H|]. eapply inv_step; [exact HI|]. exact (sstep_event _ _ _ _ _ _ _ Es).
Qed.

(* the shape of the token list that tokenize returns *)
Record TOKS (T : list token) : Prop := mkTOKS {
  toks_leaf : forallb is_leaf T = true;
  toks_chain : chain T;
  toks_first : first_ok T;
  toks_ne : T <> [];
  toks_last : lastty T <> TTLParen
}.

Theorem stokenize_TOKS fuel s T : stokenize fuel s = Ok (POk T) -> TOKS T.
Proof.
  unfold stokenize. destruct (tk_trim s) as [|c0 chrs] eqn:Et; [discriminate|].
  destruct (sloop fuel (mkS (c0 :: chrs) [] ch_hash [] [])) as [[cf|]| |] eqn:El;
    cbn [bind]; try discriminate.
  assert (HI0 : Inv (mkS (c0 :: chrs) [] ch_hash [] [])).
  { constructor; cbn [s_toks s_w s_stk s_prev s_rest]; try exact I; try reflexivity.
    - discriminate.
    - right; right; discriminate. }
  destruct (sloop_inv _ _ _ HI0 El) as ([Il Ic If Ig I3 Ip Ine] & Hrest).
  destruct (s_stk cf) as [|x stk] eqn:Es; [|discriminate].
  assert (Hlast : lastty (s_toks cf) <> TTLParen).
  { intros H. apply Ig in H. destruct H. }
  destruct (s_w cf) as [|x w] eqn:Ew; intros H; inversion H; subst; clear H.
  - constructor; auto. destruct Ine as [H|[H|H]]; congruence.
  - pose proof (st3_slice _ _ _ I3) as Hty.
    constructor.
    + rewrite forallb_snoc, Il. apply make_leaf_token_is_leaf.
    + apply chain_snoc; [exact Ic|]. intros H. contradiction.
    + apply first_ok_snoc; [exact If|]. intros E. apply startok_of_ty. left.
      eapply fd_slice. apply Ip. rewrite E. reflexivity.
    + now destruct (s_toks cf).
    + rewrite lastty_snoc. unfold slice_ty in Hty. destruct Hty as [-> | ->]; discriminate.
Qed.

(* ---------------------------------------------------------------------------------- *)
(* group_tokens on such a list: a "raw" tree - every group has a first child that is a
   Subgoal leaf or a group, and only Subgoal / Comma / Semicolon leaves and groups below *)

Definition mid_leaf_ty (ty : token_type) : bool :=
  match ty with TTSubgoal | TTComma | TTSemicolon => true | _ => false end.
Definition solidb (c : token) : bool :=
  tt_eqb (get_type c) TTSubgoal || tt_eqb (get_type c) TTGroup.

Fixpoint rawb (t : token) : bool :=
  match t with
  | Branch TTGroup cs =>
      (match cs with c :: _ => solidb c | [] => false end) &&
      forallb (fun c => match c with Leaf ty _ => mid_leaf_ty ty | Branch _ _ => rawb c end) cs
  | _ => false
  end.

Definition childok (c : token) : bool :=
  match c with Leaf ty _ => mid_leaf_ty ty | Branch _ _ => rawb c end.

Lemma rawb_unfold cs :
  rawb (Branch TTGroup cs) =
  (match cs with c :: _ => solidb c | [] => false end) && forallb childok cs.
Proof. reflexivity. Qed.

Lemma rawb_group t : rawb t = true -> get_type t = TTGroup.
Proof. destruct t as [ty s|ty cs]; simpl; [discriminate|]. destruct ty; try discriminate. reflexivity. Qed.

Record TOK' (l : list token) : Prop := mkTOK' {
  tok_leaf : forallb is_leaf l = true;
  tok_chain : chain l;
  tok_last : lastty l <> TTLParen
}.

Lemma lastty_skipn k : forall l, skipn k l <> [] -> lastty (skipn k l) = lastty l.
Proof.
  induction k as [|k IH]; intros l H; [reflexivity|].
  destruct l as [|t l]; [reflexivity|]. simpl in *.
  rewrite IH by exact H. symmetry. apply lastty_cons. intros ->. now rewrite skipn_nil in H.
Qed.

Lemma chain_skipn k : forall l, chain l -> chain (skipn k l).
Proof.
  induction k as [|k IH]; intros l H; [exact H|].
  destruct l as [|t l]; [exact I|]. simpl. apply IH. eapply chain_tail; eauto.
Qed.

Lemma forallb_skipn {A} (f : A -> bool) k : forall l, forallb f l = true -> forallb f (skipn k l) = true.
Proof.
  induction k as [|k IH]; intros l H; [exact H|].
  destruct l as [|t l]; [reflexivity|]. simpl in *. apply andb_true_iff in H as [_ H]. now apply IH.
Qed.

Lemma TOK'_skipn k l : TOK' l -> TOK' (skipn k l).
Proof.
  intros [H1 H2 H3]. constructor.
  - now apply forallb_skipn.
  - now apply chain_skipn.
  - destruct (skipn k l) as [|t r] eqn:E; [discriminate|].
    rewrite <- E. rewrite lastty_skipn by (rewrite E; discriminate). exact H3.
Qed.

Definition accgood (rest acc : list token) : Prop :=
  forallb childok acc = true /\
  match acc with
  | [] => exists t r, rest = t :: r /\ startok t = true
  | c :: _ => solidb c = true
  end.

Lemma accgood_snoc rest rest2 acc x :
  accgood rest acc -> childok x = true -> (acc = [] -> solidb x = true) ->
  accgood rest2 (acc ++ [x]).
Proof.
  intros [H1 H2] Hx Hs. split.
  - now rewrite forallb_snoc, H1, Hx.
  - destruct acc as [|c acc]; simpl; auto.
Qed.

Lemma skipn_skipn_ex {A} a k (l : list A) : exists k', skipn a (skipn k l) = skipn k' l.
Proof. exists (k + a)%nat. apply skipn_skipn'. Qed.

Lemma gts_raw : forall fuel rest acc,
  (length rest < fuel)%nat -> TOK' rest -> accgood rest acc ->
  exists g rem, gts fuel rest acc = Ok (g, rem) /\ rawb g = true /\ exists k, rem = skipn k rest.
Proof.
  induction fuel as [|fuel IH]; intros rest acc Hf HT Hacc; [lia|].
  destruct rest as [|tok rest'].
  - (* end of the tokens *)
    simpl. exists (Branch TTGroup acc), []. split; [reflexivity|]. split; [|now exists 0%nat].
    destruct Hacc as [H1 H2]. rewrite rawb_unfold, H1.
    destruct acc as [|c acc]; [destruct H2 as (t & r & E & _); discriminate|].
    now rewrite H2.
  - cbn [gts]. pose proof HT as [Hl Hc Hla].
    cbn [forallb] in Hl. apply andb_true_iff in Hl as [Hl1 Hl2].
    assert (HT' : TOK' rest') by (apply (TOK'_skipn 1 (tok :: rest')); exact HT).
    destruct (tt_eqb (get_type tok) TTLParen) eqn:Elp.
    + (* a left parenthesis: the nested group starts with a Subgoal or another parenthesis *)
      assert (Hnext : exists t r, rest' = t :: r /\ startok t = true).
      { destruct rest' as [|t r].
        - exfalso. apply Hla. unfold lastty; simpl. destruct (get_type tok); try discriminate; reflexivity.
        - exists t, r. split; [reflexivity|]. destruct Hc as [Hc _]. apply Hc. exact Elp. }
      destruct (IH rest' [] ltac:(simpl in Hf; lia) HT' (conj eq_refl Hnext))
        as (g & rem & Hg & Hraw & k & Hk).
      rewrite Hg; cbn [bind].
      destruct (skipn_skipn_ex 2 k rest') as (k' & Ek'). rewrite Hk, Ek'.
      destruct (IH (skipn k' rest') (acc ++ [g])) as (g2 & rem2 & Hg2 & Hraw2 & k2 & Hk2).
      * rewrite skipn_length. simpl in Hf. lia.
      * now apply TOK'_skipn.
      * apply (accgood_snoc (tok :: rest') _ acc g Hacc).
        -- destruct g as [ty s|ty cs]; [discriminate|exact Hraw].
        -- intros _. unfold solidb. rewrite (rawb_group _ Hraw). reflexivity.
      * exists g2, rem2. split; [exact Hg2|]. split; [exact Hraw2|].
        exists (S (k' + k2)). rewrite Hk2. simpl. now rewrite skipn_skipn', Nat.add_comm.
    + destruct (tt_eqb (get_type tok) TTRParen) eqn:Erp.
      * (* the group ends here *)
        exists (Branch TTGroup acc), (tok :: rest'). split; [reflexivity|]. split; [|now exists 0%nat].
        destruct Hacc as [H1 H2]. rewrite rawb_unfold, H1.
        destruct acc as [|c acc].
        -- destruct H2 as (t & r & E & Hs). inversion E; subst.
           unfold startok in Hs. rewrite Elp, orb_false_r in Hs.
           destruct (get_type t); discriminate.
        -- now rewrite H2.
      * (* Subgoal, Comma, Semicolon *)
        assert (Hty : childok tok = true).
        { destruct tok as [ty s|ty cs]; [|discriminate]. simpl in *. destruct ty; try discriminate; reflexivity. }
        destruct (IH rest' (acc ++ [tok])) as (g2 & rem2 & Hg2 & Hraw2 & k2 & Hk2).
        -- simpl in Hf. lia.
        -- exact HT'.
        -- apply (accgood_snoc (tok :: rest') _ acc tok Hacc Hty).
           intros ->. destruct Hacc as [_ (t & r & E & Hs)]. inversion E; subst.
           unfold startok in Hs. rewrite Elp, orb_false_r in Hs. unfold solidb. now rewrite Hs.
        -- exists g2, rem2. split; [exact Hg2|]. split; [exact Hraw2|].
           exists (S k2). exact Hk2.
Qed.

Theorem sgroup_tokens_raw fuel T :
  TOKS T -> (length T < fuel)%nat -> exists g, sgroup_tokens fuel T = Ok g /\ rawb g = true.
Proof.
  intros [H1 H2 H3 H4 H5] Hf. unfold sgroup_tokens.
  destruct (gts_raw fuel T [] Hf) as (g & rem & Hg & Hraw & _).
  - now constructor.
  - split; [reflexivity|]. destruct T as [|t r]; [congruence|]. now exists t, r.
  - rewrite Hg. now exists g.
Qed.

(* ---------------------------------------------------------------------------------- *)
(* the nested loops of group_and_tokens and token_tree_to_goal as functions of their own *)

Section Loops.
  Variable gat : token -> res token.           (* group_and_tokens, for the children *)
  Variable token_type : token_type.
  Fixpoint and_loop (children new_children and_list : list token) : res token :=
    match children with
    | [] =>
        let size := length and_list in
        do new_children <-
           (if (size =? 1)%nat then
              match nth_error and_list 0 with
              | Some t => Ok (new_children ++ [t])
              | None => Panic
              end
            else if (1 <? size)%nat then
              do t <- make_branch_token TTAnd and_list; Ok (new_children ++ [t])
            else Ok new_children);
        make_branch_token token_type new_children
    | child :: rest =>
        let child_type := get_type child in
        if tt_eqb child_type TTSubgoal then and_loop rest new_children (and_list ++ [child])
        else if tt_eqb child_type TTComma then and_loop rest new_children and_list
        else if tt_eqb child_type TTSemicolon then
          let size := length and_list in
          do t <- (if (size =? 1)%nat then
                     match nth_error and_list 0 with Some t => Ok t | None => Panic end
                   else make_branch_token TTAnd and_list);
          and_loop rest (new_children ++ [t] ++ [child]) []
        else if tt_eqb child_type TTGroup then
          do t <- gat child;
          do t <- group_or_tokens t;
          and_loop rest new_children (and_list ++ [t])
        else and_loop rest new_children and_list
    end.
End Loops.

Lemma group_and_tokens_branch ty cs :
  group_and_tokens (Branch ty cs) = and_loop group_and_tokens ty cs [] [].
Proof. reflexivity. Qed.

Section OpLoop.
  Variable parse_subgoal : str -> res (presult goal).
  Variable tttg : token -> res (presult goal).
  Variable and_too : bool.
  Fixpoint ops_loop (children : list token) (operands : list goal) : res (presult (list goal)) :=
    match children with
    | [] => Ok (POk operands)
    | child :: rest =>
        let child_type := get_type child in
        if tt_eqb child_type TTSubgoal then
          do s <- get_token_str child;
          do r <- parse_subgoal s;
          match r with
          | POk g => ops_loop rest (operands ++ [g])
          | PErr => Ok PErr
          end
        else if tt_eqb child_type TTGroup || (and_too && tt_eqb child_type TTAnd) then
          do r <- tttg child;
          match r with
          | POk g => ops_loop rest (operands ++ [g])
          | PErr => Ok PErr
          end
        else ops_loop rest operands
    end.
End OpLoop.

Lemma tttg_branch ps ty cs :
  token_tree_to_goal ps (Branch ty cs) =
  if tt_eqb ty TTAnd then
    do r <- ops_loop ps (token_tree_to_goal ps) false cs [];
    match r with POk operands => Ok (POk (GOp OAnd operands)) | PErr => Ok PErr end
  else if tt_eqb ty TTOr then
    do r <- ops_loop ps (token_tree_to_goal ps) true cs [];
    match r with POk operands => Ok (POk (GOp OOr operands)) | PErr => Ok PErr end
  else if tt_eqb ty TTGroup then
    match cs with [child] => token_tree_to_goal ps child | _ => Panic end
  else Ok PErr.
Proof. reflexivity. Qed.

(* ---------------------------------------------------------------------------------- *)
(* "ready" trees: what token_tree_to_goal converts without panicking *)

Fixpoint readyb (t : token) : bool :=
  match t with
  | Leaf ty _ => tt_eqb ty TTSubgoal
  | Branch ty cs =>
      match ty with
      | TTAnd => forallb (fun c => match get_type c with
                                   | TTSubgoal => is_leaf c
                                   | TTGroup => readyb c
                                   | _ => true
                                   end) cs
      | TTOr => forallb (fun c => match get_type c with
                                  | TTSubgoal => is_leaf c
                                  | TTGroup | TTAnd => readyb c
                                  | _ => true
                                  end) cs
      | TTGroup => match cs with [c] => readyb c | _ => false end
      | _ => true
      end
  end.

Lemma forallb_ext' {A} (f g : A -> bool) l :
  (forall x, f x = g x) -> forallb f l = forallb g l.
Proof. intros H. induction l as [|x l IH]; simpl; [reflexivity|]. now rewrite H, IH. Qed.

Section Total.
  Variable ps : str -> res (presult goal).
  Hypothesis ps_total : forall s, good (ps s).

  Lemma ops_loop_good (and_too : bool) cs : forall acc,
    Forall (fun c => readyb c = true -> good (token_tree_to_goal ps c)) cs ->
    forallb (fun c => match get_type c with
                      | TTSubgoal => is_leaf c
                      | TTGroup => readyb c
                      | TTAnd => if and_too then readyb c else true
                      | _ => true
                      end) cs = true ->
    good (ops_loop ps (token_tree_to_goal ps) and_too cs acc).
  Proof.
    induction cs as [|c cs IH]; intros acc HF Hb; [exact I|].
    inversion HF as [|? ? Hc HF']; subst. cbn [forallb] in Hb. apply andb_true_iff in Hb as [Hb1 Hb2].
    cbn [ops_loop].
    destruct (tt_eqb (get_type c) TTSubgoal) eqn:E1.
    { destruct c as [ty s|ty cs0]; simpl in E1.
      - cbn [get_token_str bind]. specialize (ps_total s).
        destruct (ps s) as [[g|]| |]; try contradiction; cbn [bind]; [now apply IH | exact I].
      - destruct ty; discriminate. }
    destruct (tt_eqb (get_type c) TTGroup || (and_too && tt_eqb (get_type c) TTAnd)) eqn:E2.
    { assert (Hr : readyb c = true).
      { destruct (get_type c) eqn:Ety; simpl in E2; rewrite ?andb_false_r in E2; try discriminate; try exact Hb1.
        destruct and_too; [exact Hb1|discriminate]. }
      specialize (Hc Hr).
      destruct (token_tree_to_goal ps c) as [[g|]| |]; try contradiction; cbn [bind];
        [now apply IH | exact I]. }
    now apply IH.
  Qed.

  Theorem tttg_total : forall t, readyb t = true -> good (token_tree_to_goal ps t).
  Proof.
    induction t as [ty s|ty cs IH] using token_ind'; intros Hr.
    - simpl in *. rewrite Hr. apply ps_total.
    - rewrite tttg_branch.
      destruct ty; cbn [tt_eqb]; try exact I.
      + (* Group *)
        cbn [readyb] in Hr. destruct cs as [|c [|c2 cs]]; try discriminate.
        inversion IH; subst. auto.
      + (* And *)
        pose proof (ops_loop_good false cs [] IH) as H.
        cbn [readyb] in Hr.
        assert (Hb : forallb (fun c => match get_type c with
                                       | TTSubgoal => is_leaf c | TTGroup => readyb c
                                       | TTAnd => if false then readyb c else true | _ => true end) cs = true).
        { etransitivity; [|exact Hr]. apply forallb_ext'. intros c. destruct (get_type c); reflexivity. }
        specialize (H Hb).
        destruct (ops_loop ps (token_tree_to_goal ps) false cs []) as [[l|]| |]; try contradiction; exact I.
      + (* Or *)
        pose proof (ops_loop_good true cs [] IH) as H.
        cbn [readyb] in Hr.
        assert (Hb : forallb (fun c => match get_type c with
                                       | TTSubgoal => is_leaf c | TTGroup => readyb c
                                       | TTAnd => if true then readyb c else true | _ => true end) cs = true).
        { etransitivity; [|exact Hr]. apply forallb_ext'. intros c. destruct (get_type c); reflexivity. }
        specialize (H Hb).
        destruct (ops_loop ps (token_tree_to_goal ps) true cs []) as [[l|]| |]; try contradiction; exact I.
  Qed.
End Total.

(* ---------------------------------------------------------------------------------- *)
(* the Or pass and the And pass *)

Definition orsel (c : token) : bool :=
  tt_eqb (get_type c) TTSubgoal || tt_eqb (get_type c) TTAnd || tt_eqb (get_type c) TTGroup.

Definition valid_branch (ty : token_type) : bool :=
  tt_eqb ty TTAnd || tt_eqb ty TTOr || tt_eqb ty TTGroup.

Lemma make_branch_token_ok ty cs : valid_branch ty = true -> make_branch_token ty cs = Ok (Branch ty cs).
Proof. unfold make_branch_token, valid_branch. destruct ty; try discriminate; reflexivity. Qed.

Lemma group_or_tokens_branch ty cs :
  valid_branch ty = true ->
  group_or_tokens (Branch ty cs) =
  Ok (Branch ty (match filter orsel cs with
                 | [] => []
                 | [x] => [x]
                 | l => [Branch TTOr l]
                 end)).
Proof.
  intros Hv. unfold group_or_tokens.
  assert (Hl : forall cs acc,
    (fix loop (children or_list : list token) {struct children} : list token :=
       match children with
       | [] => or_list
       | child :: rest =>
           if tt_eqb (get_type child) TTSubgoal || tt_eqb (get_type child) TTAnd ||
              tt_eqb (get_type child) TTGroup
           then loop rest (or_list ++ [child]) else loop rest or_list
       end) cs acc = acc ++ filter orsel cs).
  { clear. induction cs as [|c cs IH]; intros acc; simpl; [now rewrite app_nil_r|].
    unfold orsel at 1. destruct (tt_eqb (get_type c) TTSubgoal || tt_eqb (get_type c) TTAnd ||
                                 tt_eqb (get_type c) TTGroup).
    - rewrite IH, <- app_assoc. reflexivity.
    - apply IH. }
  rewrite Hl. simpl app.
  destruct (filter orsel cs) as [|x [|y l]]; simpl; now rewrite make_branch_token_ok.
Qed.

(* children of a group after the And pass *)
Definition midb (c : token) : bool :=
  match c with
  | Leaf ty _ => tt_eqb ty TTSubgoal || tt_eqb ty TTSemicolon
  | Branch ty _ => (tt_eqb ty TTAnd || tt_eqb ty TTGroup) && readyb c
  end.

(* operands collected in and_list *)
Definition andopb (c : token) : bool :=
  match c with
  | Leaf ty _ => tt_eqb ty TTSubgoal
  | Branch ty _ => tt_eqb ty TTGroup && readyb c
  end.

Lemma midb_orsel_ready c : midb c = true -> orsel c = true -> readyb c = true.
Proof.
  destruct c as [ty s|ty cs]; unfold midb, orsel; cbn [get_type].
  - destruct ty; try discriminate; reflexivity.
  - intros H _. now apply andb_true_iff in H as [_ H].
Qed.

Lemma or_operand c : midb c = true -> orsel c = true ->
  match get_type c with
  | TTSubgoal => is_leaf c
  | TTGroup | TTAnd => readyb c
  | _ => true
  end = true.
Proof.
  intros Hm Ho. pose proof (midb_orsel_ready c Hm Ho) as Hr.
  destruct c as [ty s|ty cs]; cbn [get_type] in *.
  - destruct ty; try discriminate; reflexivity.
  - unfold midb in Hm. destruct ty; try discriminate; auto.
Qed.

Lemma or_pass cs :
  forallb midb cs = true -> existsb orsel cs = true ->
  exists x, group_or_tokens (Branch TTGroup cs) = Ok (Branch TTGroup [x]) /\ readyb x = true.
Proof.
  intros Hm He. rewrite group_or_tokens_branch by reflexivity.
  assert (Hf : forallb midb (filter orsel cs) = true /\ forallb orsel (filter orsel cs) = true /\
               filter orsel cs <> []).
  { clear -Hm He. induction cs as [|c cs IH]; simpl in *; [discriminate|].
    apply andb_true_iff in Hm as [Hm1 Hm2].
    destruct (orsel c) eqn:Eo; simpl in *.
    - rewrite Hm1, Eo. simpl.
      assert (forallb midb (filter orsel cs) = true /\ forallb orsel (filter orsel cs) = true).
      { clear -Hm2. induction cs as [|d cs IH]; simpl in *; [auto|].
        apply andb_true_iff in Hm2 as [H1 H2]. destruct (orsel d) eqn:E; simpl; auto.
        rewrite H1, E. simpl. now apply IH. }
      destruct H as [-> ->]. repeat split; discriminate.
    - now apply IH. }
  destruct Hf as (H1 & H2 & H3).
  destruct (filter orsel cs) as [|x [|y l]]; [congruence| |].
  - exists x. split; [reflexivity|]. simpl in H1, H2.
    apply midb_orsel_ready; [now destruct (midb x) | now destruct (orsel x)].
  - exists (Branch TTOr (x :: y :: l)). split; [reflexivity|].
    cbn [readyb]. remember (x :: y :: l) as L. clear HeqL H3.
    induction L as [|d L IH]; [reflexivity|]. simpl in *.
    apply andb_true_iff in H1 as [A1 A2]. apply andb_true_iff in H2 as [B1 B2].
    rewrite (or_operand d A1 B1). simpl. now apply IH.
Qed.

Lemma andop_midb c : andopb c = true -> midb c = true /\ orsel c = true.
Proof.
  destruct c as [ty s|ty cs]; unfold andopb, midb, orsel; cbn [get_type].
  - destruct ty; try discriminate; auto.
  - intros H. apply andb_true_iff in H as [H1 H2]. destruct ty; try discriminate.
    rewrite H2. auto.
Qed.

Lemma and_token_ready al :
  forallb andopb al = true ->
  midb (Branch TTAnd al) = true /\ orsel (Branch TTAnd al) = true.
Proof.
  intros H. split; [|reflexivity]. unfold midb. cbn [tt_eqb orb andb readyb].
  induction al as [|c al IH]; [reflexivity|]. simpl in *.
  apply andb_true_iff in H as [H1 H2]. rewrite IH by exact H2. rewrite andb_true_r.
  destruct c as [ty s|ty cs]; unfold andopb in H1; cbn [get_type].
  - destruct ty; try discriminate; reflexivity.
  - apply andb_true_iff in H1 as [A B]. destruct ty; try discriminate. exact B.
Qed.

Definition and_post (r : res token) : Prop :=
  exists cs', r = Ok (Branch TTGroup cs') /\ forallb midb cs' = true /\ existsb orsel cs' = true.

Lemma existsb_snoc {A} (f : A -> bool) l x : existsb f (l ++ [x]) = existsb f l || f x.
Proof. rewrite existsb_app. simpl. now rewrite orb_false_r. Qed.

Lemma and_loop_ok gat : forall cs nc al,
  Forall (fun c => rawb c = true -> and_post (gat c)) cs ->
  forallb childok cs = true ->
  forallb midb nc = true -> forallb andopb al = true ->
  (existsb orsel nc = true \/ al <> [] \/ exists c r, cs = c :: r /\ solidb c = true) ->
  and_post (and_loop gat TTGroup cs nc al).
Proof.
  induction cs as [|c cs IH]; intros nc al HF Hco Hnc Hal Hsolid.
  - (* end of the children: flush and_list *)
    cbn [and_loop].
    destruct al as [|a [|b al]].
    + exists nc. split; [reflexivity|]. split; [exact Hnc|].
      destruct Hsolid as [H|[H|(c & r & E & _)]]; [exact H|congruence|discriminate].
    + simpl in Hal. apply andb_true_iff in Hal as [Ha _].
      destruct (andop_midb a Ha) as [M O].
      exists (nc ++ [a]). split; [reflexivity|].
      rewrite forallb_snoc, Hnc, M, existsb_snoc, O. split; [reflexivity|apply orb_true_r].
    + destruct (and_token_ready (a :: b :: al) Hal) as [M O].
      exists (nc ++ [Branch TTAnd (a :: b :: al)]). split; [reflexivity|].
      rewrite forallb_snoc, Hnc, M, existsb_snoc, O. split; [reflexivity|apply orb_true_r].
  - inversion HF as [|? ? Hc HF']; subst.
    cbn [forallb] in Hco. apply andb_true_iff in Hco as [Hc1 Hc2].
    cbn [and_loop].
    destruct c as [ty s|ty cs0].
    + (* a leaf: Subgoal, Comma or Semicolon *)
      cbn [get_type]. simpl in Hc1.
      destruct ty; try discriminate; cbn [tt_eqb].
      * (* Subgoal *)
        apply IH; auto.
        -- rewrite forallb_snoc, Hal. reflexivity.
        -- right. left. now destruct al.
      * (* Comma *)
        apply IH; auto.
        destruct Hsolid as [H|[H|(c & r & E & Hs)]]; auto. inversion E; subst. discriminate.
      * (* Semicolon: flush *)
        assert (Hflush : exists t,
          (if (length al =? 1)%nat
           then match nth_error al 0 with Some t => Ok t | None => Panic end
           else make_branch_token TTAnd al) = Ok t /\ midb t = true /\ orsel t = true).
        { destruct al as [|a [|b al]].
          - exists (Branch TTAnd []). repeat split; reflexivity.
          - simpl in Hal. apply andb_true_iff in Hal as [Ha _].
            destruct (andop_midb a Ha) as [M O]. exists a. now repeat split.
          - destruct (and_token_ready (a :: b :: al) Hal) as [M O].
            exists (Branch TTAnd (a :: b :: al)). now repeat split. }
        destruct Hflush as (t & -> & M & O). cbn [bind].
        apply IH; auto.
        -- rewrite app_assoc, !forallb_snoc, Hnc, M. reflexivity.
        -- left. rewrite app_assoc, !existsb_snoc, O. rewrite orb_true_r. reflexivity.
    + (* a nested group *)
      cbn [childok] in Hc1. pose proof (rawb_group _ Hc1) as Ety. cbn [get_type] in Ety. subst ty.
      cbn [get_type tt_eqb].
      destruct (Hc Hc1) as (cs1 & -> & M1 & O1). cbn [bind].
      destruct (or_pass cs1 M1 O1) as (x & -> & Rx). cbn [bind].
      apply IH; auto.
      * rewrite forallb_snoc, Hal. cbn [andopb tt_eqb readyb andb]. exact Rx.
      * right. left. now destruct al.
Qed.

Theorem and_pass : forall g, rawb g = true -> and_post (group_and_tokens g).
Proof.
  induction g as [ty s|ty cs IH] using token_ind'; intros Hr; [discriminate|].
  pose proof (rawb_group _ Hr) as E. cbn [get_type] in E. subst ty.
  rewrite rawb_unfold in Hr. apply andb_true_iff in Hr as [Hs Hc].
  rewrite group_and_tokens_branch. apply and_loop_ok; auto.
  right. right. destruct cs as [|c r]; [discriminate|]. now exists c, r.
Qed.

(* ---------------------------------------------------------------------------------- *)
(* totality *)

Lemma trim_start_length w : (length (tk_trim_start w) <= length w)%nat.
Proof. induction w as [|c w IH]; simpl; [lia|]. destruct (tk_is_whitespace c); simpl; lia. Qed.

Lemma trim_length w : (length (tk_trim w) <= length w)%nat.
Proof.
  unfold tk_trim. rewrite rev_length.
  etransitivity; [apply trim_start_length|]. rewrite rev_length. apply trim_start_length.
Qed.

(* sufficient fuel for a string *)
Definition goal_fuel (s : str) : nat := 2 * length s + 3.

Lemma stokenize_total fuel s :
  (length s < fuel)%nat -> good (stokenize fuel s).
Proof.
  intros Hf. unfold stokenize. pose proof (trim_length s) as Hl.
  destruct (tk_trim s) as [|c0 chrs] eqn:Et; [exact I|].
  destruct (sloop_total fuel (mkS (c0 :: chrs) [] ch_hash [] [])) as (r & ->).
  { cbn [s_rest]. lia. }
  cbn [bind]. destruct r as [cf|]; [|exact I].
  destruct (s_stk cf); [|exact I]. destruct (s_w cf); exact I.
Qed.

Lemma stokenize_length fuel s T :
  stokenize fuel s = Ok (POk T) -> (length T <= 2 * length s + 1)%nat.
Proof.
  unfold stokenize. pose proof (trim_length s) as Hl.
  destruct (tk_trim s) as [|c0 chrs] eqn:Et; [discriminate|].
  destruct (sloop fuel (mkS (c0 :: chrs) [] ch_hash [] [])) as [[cf|]| |] eqn:El;
    cbn [bind]; try discriminate.
  apply sloop_toks_bound in El. cbn [s_toks s_rest length] in El.
  destruct (s_stk cf); [|discriminate].
  destruct (s_w cf); intros H; inversion H; subst; clear H;
    rewrite ?app_length; cbn [length] in *; lia.
Qed.

Theorem tokenize_total s fuel :
  (length s < fuel)%nat -> good (tokenize fuel s).
Proof. intros Hf. rewrite tokenize_stream. now apply stokenize_total. Qed.

Section GoalTotal.
  Variable ps : str -> res (presult goal).
  Hypothesis ps_total : forall s, good (ps s).

  Theorem generate_goal_total s fuel :
    (goal_fuel s <= fuel)%nat -> good (generate_goal ps fuel s).
  Proof.
    unfold goal_fuel. intros Hf. unfold generate_goal. rewrite tokenize_stream.
    pose proof (stokenize_total fuel s ltac:(lia)) as Hg.
    destruct (stokenize fuel s) as [[T|]| |] eqn:Et; try contradiction; cbn [bind]; [|exact I].
    pose proof (stokenize_TOKS _ _ _ Et) as HT.
    pose proof (stokenize_length _ _ _ Et) as HL.
    rewrite group_tokens_stream.
    destruct (sgroup_tokens_raw fuel T HT ltac:(lia)) as (g & -> & Hraw). cbn [bind].
    destruct (and_pass g Hraw) as (cs' & -> & M & O). cbn [bind].
    destruct (or_pass cs' M O) as (x & -> & Rx). cbn [bind].
    apply tttg_total; [exact ps_total|]. exact Rx.
  Qed.

  Variable pc : str -> res (presult term).
  Hypothesis pc_total : forall s, good (pc s).

  Lemma ion_loop_ok : forall chrs i b,
    (b = true -> (0 < i)%nat) ->
    match ion_loop chrs i b with
    | Ok (Some k) => (i <= k + 1)%nat /\ (k + 2 <= i + length chrs)%nat
    | Ok None => True
    | _ => False
    end.
  Proof.
    induction chrs as [|c chrs IH]; intros i b Hb; simpl; [exact I|].
    destruct ((c =? ch_hyphen) && b) eqn:E.
    - apply andb_true_iff in E as [_ ->]. specialize (Hb eq_refl).
      destruct i; [lia|]. lia.
    - specialize (IH (S i) (c =? ch_colon) ltac:(lia)).
      destruct (ion_loop chrs (S i) (c =? ch_colon)) as [[k|]| |]; auto. lia.
  Qed.

  Lemma index_of_neck_ok chrs :
    match index_of_neck chrs with
    | Ok (Some k) => (k + 2 <= length chrs)%nat
    | Ok None => True
    | _ => False
    end.
  Proof.
    unfold index_of_neck. pose proof (ion_loop_ok chrs 0 false ltac:(discriminate)) as H.
    destruct (ion_loop chrs 0 false) as [[k|]| |]; auto. simpl in H. lia.
  Qed.

  Theorem parse_rule_total s fuel :
    (goal_fuel s <= fuel)%nat -> good (parse_rule ps pc fuel s).
  Proof.
    intros Hf. unfold parse_rule. pose proof (trim_length s) as Hl.
    set (chrs := tk_trim s) in *.
    destruct (length chrs =? 0)%nat eqn:E0; [exact I|]. apply Nat.eqb_neq in E0.
    destruct (nth_error chrs (length chrs - 1)) as [ch|] eqn:En.
    2:{ apply nth_error_None in En. lia. }
    assert (Hcl : exists chrs2,
      (if ch =? ch_period
       then do c <- slice chrs 0 (length chrs - 1); Ok (c, (length chrs - 1)%nat)
       else Ok (chrs, length chrs)) = Ok (chrs2, length chrs2) /\ (length chrs2 <= length s)%nat).
    { destruct (ch =? ch_period).
      - rewrite slice_ok by lia. cbn [bind]. eexists. split.
        + f_equal. f_equal. rewrite firstn_length, skipn_length. simpl. lia.
        + rewrite firstn_length. simpl. lia.
      - exists chrs. split; [reflexivity|lia]. }
    destruct Hcl as (chrs2 & -> & Hl2). cbn [bind]. clear En.
    pose proof (index_of_neck_ok chrs2) as Hn.
    destruct (index_of_neck chrs2) as [[index|]| |]; try contradiction; cbn [bind].
    - rewrite !slice_ok by lia. cbn [bind].
      set (body := firstn (length chrs2 - (index + 2)) (skipn (index + 2) chrs2)).
      pose proof (index_of_neck_ok body) as Hn2.
      destruct (index_of_neck body) as [[k|]| |]; try contradiction; cbn [bind]; [exact I|].
      pose proof (ps_total (firstn (index - 0) (skipn 0 chrs2))) as Hps.
      destruct (ps (firstn (index - 0) (skipn 0 chrs2))) as [[g|]| |]; try contradiction;
        cbn [bind]; [|exact I].
      destruct g; try exact I.
      assert (Hb : (goal_fuel body <= fuel)%nat).
      { unfold goal_fuel in *. subst body. rewrite firstn_length, skipn_length. lia. }
      pose proof (generate_goal_total body fuel Hb) as Hg.
      destruct (generate_goal ps fuel body) as [[b|]| |]; try contradiction; exact I.
    - pose proof (pc_total chrs2) as Hpc.
      destruct (pc chrs2) as [[f|]| |]; try contradiction; exact I.
  Qed.
End GoalTotal.

(* ---------------------------------------------------------------------------------- *)
(* the same statements without `good` *)

Definition returns {A} (r : res (presult A)) : Prop :=
  (exists v, r = Ok (POk v)) \/ r = Ok PErr.

Lemma returns_good {A} (r : res (presult A)) : returns r <-> good r.
Proof.
  split; [intros [(v & ->)| ->]; exact I | apply good_inv].
Qed.

Theorem tokenize_returns s fuel : (length s < fuel)%nat -> returns (tokenize fuel s).
Proof. intros H. apply returns_good. now apply tokenize_total. Qed.

Theorem generate_goal_returns (ps : str -> res (presult goal)) :
  (forall s, returns (ps s)) ->
  forall s fuel, (2 * length s + 3 <= fuel)%nat -> returns (generate_goal ps fuel s).
Proof.
  intros Hps s fuel Hf. apply returns_good. apply generate_goal_total; [|exact Hf].
  intros x. apply returns_good. apply Hps.
Qed.

Theorem parse_rule_returns (ps : str -> res (presult goal)) (pc : str -> res (presult term)) :
  (forall s, returns (ps s)) -> (forall s, returns (pc s)) ->
  forall s fuel, (2 * length s + 3 <= fuel)%nat -> returns (parse_rule ps pc fuel s).
Proof.
  intros Hps Hpc s fuel Hf. apply returns_good. apply parse_rule_total; [| |exact Hf].
  - intros x. apply returns_good. apply Hps.
  - intros x. apply returns_good. apply Hpc.
Qed.
