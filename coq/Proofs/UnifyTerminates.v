(* C08, total correctness: on substitution sets that have a solution in finite trees
   (Spec/SpecUnifySem.v) and whose variable-to-variable chains end (chains_end, which every
   sequence of unifications keeps: Properties/C08.v), following bindings, resolving a term
   (replace_variables) and unifying two unifiable terms TERMINATE - the model's fuel is only a
   device, there is a fuel from which on the result no longer changes.

   What is NOT true (compiled witnesses at the end):
     - a solvable set can have a cycle of VARIABLES ($X -> $Y -> $X is solved by every constant
       valuation): chains_end is a separate hypothesis;
     - `plain` does not look at the `next` of a tail node; a hand-built node there can close a
       cycle that no valuation sees: resolving needs lists as the parser builds them (`tok`);
     - unification does NOT terminate on every solvable input: without occurs check
       f($X, $Y, $X) = f(g($X), g($Y), $Y) binds $X -> g($X), $Y -> g($Y) and then loops on $X = $Y.
       It terminates whenever the two terms are unifiable over finite trees (then with success,
       by C06), not whenever they are not. *)
From Coq Require Import Lia.
From Suiron Require Import Model.Term Model.Subst Model.Show Model.Lists Model.Arith Model.Unify
  Model.Builtins Spec.SpecCompare Spec.SpecUnify Spec.SpecUnifySem
  Proofs.SubstLemmas Proofs.UnifyInv Proofs.UnifyProps Proofs.UnifyComplete Proofs.UnifySemSound
  Proofs.UnifySemFun.
Open Scope N_scope.

(* ---- "for every large enough fuel" ---- *)
Definition ev (P : nat -> Prop) : Prop := exists f0, forall f, (f0 <= f)%nat -> P f.

Lemma ev_const (P : Prop) : P -> ev (fun _ => P).
Proof. intro H. exists 0%nat. auto. Qed.
Lemma ev_ge n : ev (fun f => (n <= f)%nat).
Proof. exists n. auto. Qed.
Lemma ev_and P Q : ev P -> ev Q -> ev (fun f => P f /\ Q f).
Proof. intros [a Ha] [b Hb]. exists (Nat.max a b). intros f H. split; [apply Ha|apply Hb]; lia. Qed.
Lemma ev_mono (P Q : nat -> Prop) : (forall f, P f -> Q f) -> ev P -> ev Q.
Proof. intros H [a Ha]. exists a. auto. Qed.
Lemma ev_S (P : nat -> Prop) : ev P -> ev (fun f => match f with O => False | S f' => P f' end).
Proof. intros [a Ha]. exists (S a). intros [|f] L; [lia|]. apply Ha. lia. Qed.
Lemma ev_ex (P : nat -> Prop) : ev P -> exists f, P f.
Proof. intros [a Ha]. exists a. auto. Qed.

(* ---- the size of a value; the number of binding steps from a term ---- *)
Fixpoint tsize (t : tree) : nat :=
  match t with
  | TrNode ts => S (fold_right (fun x a => tsize x + a)%nat 0%nat ts)
  | TrCons h t => S (tsize h + tsize t)
  | _ => 1%nat
  end.

Lemma tsize_pos t : (1 <= tsize t)%nat.
Proof. destruct t; cbn; lia. Qed.

Inductive crank (ss : subst) : term -> nat -> Prop :=
| crank_nonvar t : is_var t = false -> crank ss t 0
| crank_unbound id n : ss_get ss id = None -> crank ss (TVar id n) 0
| crank_step id n u k : ss_get ss id = Some u -> crank ss u k -> crank ss (TVar id n) (S k).

Lemma chains_crank ss : chains_end ss -> forall t, exists k, crank ss t k.
Proof.
  intros H t. destruct (H t) as [r Hr]. induction Hr as [t Hv|id n Hg|id n u r Hg _ [k IH]].
  - exists 0%nat. now constructor.
  - exists 0%nat. now constructor.
  - exists (S k). econstructor; eauto.
Qed.

(* ---- (T1) following bindings ---- *)
Lemma get_ground_term_ev ss t k : crank ss t k ->
  exists r, chain ss t r /\ forall f, (k <= f)%nat -> get_ground_term f t ss = Ok r.
Proof.
  induction 1 as [t Hv|id n Hg|id n u k Hg Hc (r & Hr & IH)].
  - exists (Some t). split; [now constructor|]. intros f _. destruct t; try discriminate; destruct f; reflexivity.
  - exists None. split; [now constructor|]. intros f _. destruct f; cbn; now rewrite Hg.
  - exists r. split; [econstructor; eauto|]. intros f L. destruct f as [|f]; [lia|].
    cbn [get_ground_term]. rewrite Hg. apply IH. lia.
Qed.

Theorem get_ground_term_terminates ss : chains_end ss ->
  forall t, exists r, chain ss t r /\ ev (fun f => get_ground_term f t ss = Ok r).
Proof.
  intros H t. destruct (chains_crank ss H t) as [k Hk].
  destruct (get_ground_term_ev ss t k Hk) as (r & Hr & Hf). exists r. split; [exact Hr|]. exists k. exact Hf.
Qed.

Theorem get_constant_terminates ss : chains_end ss ->
  forall t, exists r, ev (fun f => get_constant f t ss = Ok r).
Proof.
  intros H t. destruct (get_ground_term_terminates ss H t) as (r & _ & E).
  destruct t; try (eexists; exists 0%nat; intros; reflexivity).
  destruct E as [f0 Hf]. eexists. exists f0. intros f L. cbn [get_constant]. rewrite (Hf f L). reflexivity.
Qed.

Theorem get_list_terminates ss : chains_end ss ->
  forall t, exists r, ev (fun f => get_list f t ss = Ok r).
Proof.
  intros H t. destruct (get_ground_term_terminates ss H t) as (r & _ & E).
  destruct t; try (eexists; exists 0%nat; intros; reflexivity).
  destruct E as [f0 Hf]. eexists. exists f0. intros f L. cbn [get_list]. rewrite (Hf f L). reflexivity.
Qed.

Theorem get_complex_terminates ss : chains_end ss ->
  forall t, exists r, ev (fun f => get_complex f t ss = Ok r).
Proof.
  intros H t. destruct (get_ground_term_terminates ss H t) as (r & _ & E).
  destruct t; try (eexists; exists 0%nat; intros; reflexivity).
  destruct E as [f0 Hf]. eexists. exists f0. intros f L. cbn [get_complex]. rewrite (Hf f L). reflexivity.
Qed.

(* is_ground_variable: terminates on chains that end, and says whether the chain ends at a term *)
Lemma is_ground_variable_ev ss t k : crank ss t k -> forall id n, t = TVar id n ->
  exists r, chain ss t r /\
    forall f, (k <= f)%nat -> is_ground_variable_id f id ss = Ok (match r with Some _ => true | None => false end).
Proof.
  induction 1 as [t Hv|id0 n0 Hg|id0 n0 u k Hg Hc IH]; intros id n E.
  - subst t. discriminate Hv.
  - injection E as <- <-. exists None. split; [now constructor|]. intros f _. destruct f; cbn; now rewrite Hg.
  - injection E as <- <-. destruct (is_var u) eqn:Ev.
    + destruct u as [| | | | | id2 n2 | | |]; try discriminate Ev.
      destruct (IH id2 n2 eq_refl) as (r & Hr & Hf). exists r. split; [econstructor; eauto|].
      intros f L. destruct f as [|f]; [lia|]. cbn [is_ground_variable_id]. rewrite Hg. apply Hf. lia.
    + exists (Some u). split; [econstructor; [exact Hg|now constructor]|].
      intros f _. destruct u; try discriminate Ev; destruct f; cbn; now rewrite Hg.
Qed.

Theorem is_ground_variable_terminates ss : chains_end ss -> forall id n,
  exists r, chain ss (TVar id n) r /\
    ev (fun f => is_ground_variable f (TVar id n) ss = Ok (match r with Some _ => true | None => false end)).
Proof.
  intros H id n. destruct (chains_crank ss H (TVar id n)) as [k Hk].
  destruct (is_ground_variable_ev ss _ k Hk id n eq_refl) as (r & Hr & Hf).
  exists r. split; [exact Hr|]. exists k. exact Hf.
Qed.

Lemma chain_reaches_ev ss id : forall o k, crank ss o k ->
  exists r, forall f, (k <= f)%nat -> chain_reaches f id o ss = Ok r.
Proof.
  intros o k H. induction H as [t Hv|oid n Hg|oid n u k Hg Hc (r & IH)].
  - exists false. intros f _. destruct t; try discriminate; destruct f; reflexivity.
  - destruct (oid =? id) eqn:E.
    + exists true. intros f _. destruct f; cbn; now rewrite E.
    + exists false. intros f _. destruct f; cbn; now rewrite E, Hg.
  - destruct (oid =? id) eqn:E.
    + exists true. intros f _. destruct f; cbn; now rewrite E.
    + exists r. intros f L. destruct f as [|f]; [lia|]. cbn [chain_reaches]. rewrite E, Hg. apply IH. lia.
Qed.

(* ---- (T2) resolving a term ---- *)
(* lists as the parser and make_linked_list build them: the `next` of a tail node is the empty list *)
Definition is_term (t : term) : bool := match t with TList TNil TNil _ false => true | _ => false end.
Fixpoint tok (t : term) : bool :=
  match t with
  | TComplex ts => forallb tok ts
  | TList h nx _ tv => tok h && (if tv then is_term nx else tok nx)
  | _ => true
  end.
Definition tok_ss (ss : subst) : Prop := forall id t, ss_get ss id = Some t -> tok t = true.

Fixpoint rvl (f : nat) (ts : list term) (ss : subst) : res (list term) :=
  match ts with
  | [] => Ok []
  | x :: l' => do x' <- replace_variables f x ss; do r <- rvl f l' ss; Ok (x' :: r)
  end.

Lemma rv_complex f ts ss : replace_variables (S f) (TComplex ts) ss = do l <- rvl f ts ss; Ok (TComplex l).
Proof.
  cbn [replace_variables]. f_equal. induction ts as [|x l IH]; [reflexivity|]. cbn [rvl]. now rewrite IH.
Qed.

Lemma tsize_in x ts : In x ts -> (tsize x < tsize (TrNode ts))%nat.
Proof.
  cbn [tsize]. induction ts as [|y l IH]; intros []; subst; cbn [fold_right]; [lia|]. specialize (IH H). lia.
Qed.

Section Resolve.
  Variable sigma : valuation.
  Variable ss : subst.
  Hypothesis Hplain : plain_ss ss.
  Hypothesis Htok : tok_ss ss.
  Hypothesis Hsol : solves sigma ss.
  Hypothesis Hch : chains_end ss.

  Definition RV (t : term) : Prop :=
    exists t', ev (fun f => replace_variables f t ss = Ok t') /\ den sigma t' = den sigma t /\
               is_nil t' = is_nil t.

  Lemma plain_nonnil t : plain t = true -> is_nil t = false.
  Proof. destruct t; try reflexivity. discriminate. Qed.

  Lemma RV_const t : match t with TNil | TAnon | TAtom _ | TFloat _ | TInt _ => True | _ => False end -> RV t.
  Proof.
    intro H. exists t. split; [|split; reflexivity]. exists 1%nat. intros [|f] L; [lia|].
    destruct t; try contradiction; reflexivity.
  Qed.

  Lemma rvl_ev : forall ts, Forall RV ts ->
    exists l, ev (fun f => rvl f ts ss = Ok l) /\ map (den sigma) l = map (den sigma) ts.
  Proof.
    induction 1 as [|x l (x' & Ex & Dx & _) _ (l' & El & Dl)].
    - exists []. split; [exists 0%nat; reflexivity|reflexivity].
    - exists (x' :: l'). split; [|cbn [map]; now rewrite Dx, Dl].
      generalize (ev_and _ _ Ex El). apply ev_mono. intros f [E1 E2]. cbn [rvl]. now rewrite E1, E2.
  Qed.

  Definition okt (t : term) : Prop := plain t = true \/ pl true t = true.

  Section Level.
    Variable N : nat.
    Hypothesis IHN : forall t, okt t -> tok t = true -> (tsize (den sigma t) < N)%nat -> RV t.

    Lemma rv_list_node h nx c : pl true (TList h nx c false) = true -> tok (TList h nx c false) = true ->
      (tsize (den sigma (TList h nx c false)) <= N)%nat -> RV (TList h nx c false).
    Proof.
      intros P T L. cbn [pl] in P. cbn [tok] in T. apply andb_true_iff in T as [T1 T2]. cbn [den] in L.
      destruct (is_nil h) eqn:Eh.
      - destruct h; try discriminate Eh. destruct nx; try discriminate P.
        exists (TList TNil TNil c false). split; [|split; reflexivity].
        exists 2%nat. intros [|[|f]] Lf; try lia. reflexivity.
      - apply andb_true_iff in P as [P1 P2]. cbn [tsize] in L.
        destruct (IHN h (or_introl P1) T1 ltac:(lia)) as (h' & Eh' & Dh & Nh).
        destruct (IHN nx (or_intror P2) T2 ltac:(lia)) as (n' & En & Dn & _).
        exists (TList h' n' c false). split; [|split; [|reflexivity]].
        + generalize (ev_S _ (ev_and _ _ Eh' En)). apply ev_mono. intros [|f] H; [contradiction|].
          destruct H as [E1 E2]. cbn [replace_variables]. now rewrite E1, E2.
        + cbn [den]. now rewrite Dh, Dn, Nh, Eh.
    Qed.

    Lemma rv_nonvar t : plain t = true -> tok t = true -> is_var t = false ->
      (tsize (den sigma t) <= N)%nat -> RV t.
    Proof.
      intros P T V L. destruct t as [| |s|x|z|id n|ts|h nx c tv|fn args]; try discriminate P; try discriminate V;
        try (apply RV_const; exact I).
      - (* complex *)
        destruct (plain_complex_inv _ P) as (sa & rest & -> & Pr). cbn [tok forallb andb] in T.
        assert (Forall RV (TAtom sa :: rest)) as HF.
        { constructor; [apply RV_const; exact I|]. apply Forall_forall. intros x Hx.
          rewrite forallb_forall in Pr, T. apply IHN; [left; apply Pr, Hx|apply T, Hx|].
          cbn [den] in L. pose proof (tsize_in (den sigma x) (map (den sigma) (TAtom sa :: rest))
                                        (in_map (den sigma) (TAtom sa :: rest) x (or_intror Hx))) as Hlt. lia. }
        destruct (rvl_ev _ HF) as (l & El & Dl). exists (TComplex l). split; [|split; [|reflexivity]].
        + generalize (ev_S _ El). apply ev_mono. intros [|f] H; [contradiction|]. rewrite rv_complex, H. reflexivity.
        + cbn [den]. now rewrite Dl.
      - (* list *)
        unfold plain in P. destruct tv; [discriminate P|]. apply rv_list_node; assumption.
    Qed.

    Lemma rv_var : forall k t, crank ss t k -> is_var t = true ->
      (tsize (den sigma t) <= N)%nat -> RV t.
    Proof.
      intros k t H. induction H as [t Hv|id n Hg|id n u k Hg Hc IH]; intros V L; [congruence| |].
      - exists (TVar id n). split; [|split; reflexivity]. exists 1%nat. intros [|f] Lf; [lia|]. cbn. now rewrite Hg.
      - pose proof (Hplain _ _ Hg) as Pu. pose proof (Htok _ _ Hg) as Tu.
        assert (den sigma u = den sigma (TVar id n)) as Du by (cbn [den]; symmetry; apply Hsol, Hg).
        assert (RV u) as (u' & Eu & Du' & Nu).
        { destruct (is_var u) eqn:Vu; [apply IH; [reflexivity|now rewrite Du]|].
          apply rv_nonvar; try assumption. now rewrite Du. }
        exists u'. split; [|split; [now rewrite Du', Du|now rewrite Nu, (plain_nonnil _ Pu)]].
        generalize (ev_S _ Eu). apply ev_mono. intros [|f] H; [contradiction|]. cbn [replace_variables]. now rewrite Hg.
    Qed.

    Lemma rv_level t : okt t -> tok t = true -> (tsize (den sigma t) <= N)%nat -> RV t.
    Proof.
      intros O T L. destruct (is_var t) eqn:V.
      { destruct (chains_crank ss Hch t) as [k Hk]. eapply rv_var; eauto. }
      destruct O as [P|P]; [apply rv_nonvar; assumption|].
      destruct (pl_chain_list _ P) as (h & nx & c & tv & ->). destruct tv; [|apply rv_list_node; assumption].
      (* a tail node *)
      cbn [pl andb] in P. cbn [tok] in T. apply andb_true_iff in T as [_ T2]. destruct h; try discriminate P.
      destruct nx as [| | | | | | |[] [] c0 []|]; try discriminate T2.
      destruct (chains_crank ss Hch (TVar id name)) as [k Hk].
      destruct (rv_var k _ Hk eq_refl L) as (h' & Eh & Dh & _).
      exists (TList h' (TList TNil TNil c0 false) c true). split; [|split; [cbn [den] in *; exact Dh|reflexivity]].
      generalize (ev_and _ _ (ev_ge 3) (ev_S _ Eh)). apply ev_mono. intros [|[|[|f]]] [Lf H]; try lia.
      cbn [replace_variables] in *. rewrite H. reflexivity.
    Qed.
  End Level.

  Theorem replace_variables_terminates : forall t, okt t -> tok t = true -> RV t.
  Proof.
    assert (forall N t, okt t -> tok t = true -> (tsize (den sigma t) < N)%nat -> RV t) as H.
    { induction N as [|N IH]; intros t O T L; [lia|]. apply (rv_level N IH); [assumption..|lia]. }
    intros t O T. apply (H (S (tsize (den sigma t)))); [assumption..|lia].
  Qed.
End Resolve.

(* ---- (T3) unification of unifiable terms ---- *)
Lemma crank_var_bound ss id n u k : crank ss (TVar id n) k -> ss_get ss id = Some u ->
  exists k', k = S k' /\ crank ss u k'.
Proof.
  intros H Hg. inversion H; subst; try discriminate; try congruence.
  exists k0. split; [reflexivity|]. congruence.
Qed.
Lemma crank_nonvar_0 ss t k : is_var t = false -> crank ss t k -> k = 0%nat.
Proof. intros V H. inversion H; subst; try reflexivity; discriminate. Qed.

Section Unif.
  Variable sigma : valuation.

  Definition term_ok (t : term) : Prop := plain t = true /\ wf_term t = true.
  Definition chain_ok (t : term) : Prop := pl true t = true /\ wf_term t = true.
  Definition Inv (ss : subst) : Prop := plain_ss ss /\ wf_ss ss /\ chains_end ss /\ solves sigma ss.

  Definition UT (a b : term) (ss : subst) : Prop :=
    exists r, r <> OutOfFuel /\ ev (fun f => unify f a b ss = r).

  Lemma inv_after f a b ss u : Inv ss -> term_ok a -> term_ok b -> den sigma a = den sigma b ->
    unify f a b ss = Ok u -> exists s1, u = Some s1 /\ Inv s1.
  Proof.
    intros (P & W & C & S) [Pa Wa] [Pb Wb] D H.
    destruct (unify_general_complete_fun f a b ss u sigma Pa Pb P H S D) as (s1 & -> & S1).
    exists s1. split; [reflexivity|].
    destruct (unify_ssound f a b ss s1 Pa Pb P H) as (P1 & _ & _).
    destruct (unify_extends f a b ss s1 Wa Wb W H) as (_ & W1).
    pose proof (unify_chains_end f a b ss s1 Wa Wb W H C) as C1.
    repeat split; assumption.
  Qed.

  Definition sw (a b : term) : nat := if negb (is_var a) && is_var b then 1%nat else 0%nat.

  Lemma term_ok_list_inv c0 h nx c : pl c0 (TList h nx c false) = true -> wf_term (TList h nx c false) = true ->
    (is_nil h = true /\ is_nil nx = true) \/ (is_nil h = false /\ term_ok h /\ chain_ok nx).
  Proof.
    cbn [pl wf_term]. intros P W. apply andb_true_iff in W as [W1 W2].
    destruct (is_nil h); [left; auto|]. apply andb_true_iff in P as [P1 P2]. right. repeat split; assumption.
  Qed.

  Lemma term_ok_complex_inv ts : term_ok (TComplex ts) ->
    exists s rest, ts = TAtom s :: rest /\ Forall term_ok rest.
  Proof.
    intros [P W]. destruct (plain_complex_inv _ P) as (s & rest & -> & Pr).
    destruct (wf_complex_inv _ _ W) as [_ Wr]. exists s, rest. split; [reflexivity|].
    apply Forall_forall. intros x Hx. rewrite forallb_forall in Pr, Wr. split; auto.
  Qed.

  Section Level.
    Variable n : nat.
    Hypothesis IHn : forall a b ss, term_ok a -> term_ok b -> Inv ss -> den sigma a = den sigma b ->
      (tsize (den sigma a) < n)%nat -> UT a b ss.

    Lemma ut_args : forall ls rs s s2, Forall term_ok ls -> Forall term_ok rs ->
      map (den sigma) ls = map (den sigma) rs -> (forall x, In x ls -> (tsize (den sigma x) < n)%nat) ->
      Inv s -> exists r, r <> OutOfFuel /\ ev (fun f => unify_args (unify f) ls rs s s2 = r).
    Proof.
      induction ls as [|l ls IH]; intros rs s s2 Hl Hr Hm Hs Hi.
      - exists (Ok (Some s2)). split; [discriminate|]. exists 0%nat. intros f _. destruct rs; reflexivity.
      - destruct rs as [|r0 rs]; [discriminate Hm|]. cbn [map] in Hm. injection Hm as Hd Hm.
        inversion Hl as [|? ? Hl1 Hl2]; subst. inversion Hr as [|? ? Hr1 Hr2]; subst.
        destruct (IHn l r0 s Hl1 Hr1 Hi Hd (Hs l (or_introl eq_refl))) as (r1 & N1 & E1).
        assert (is_anon l || is_anon r0 = false) as Ea
          by (rewrite (plain_not_anon _ (proj1 Hl1)), (plain_not_anon _ (proj1 Hr1)); reflexivity).
        destruct r1 as [u| |]; [|exists Panic; split; [discriminate|]|contradiction].
        + destruct (ev_ex _ E1) as [f1 Hf1]. destruct (inv_after _ _ _ _ _ Hi Hl1 Hr1 Hd Hf1) as (s1 & -> & Hi1).
          destruct (IH rs s1 s1 Hl2 Hr2 Hm (fun x Hx => Hs x (or_intror Hx)) Hi1) as (r2 & N2 & E2).
          exists r2. split; [exact N2|]. generalize (ev_and _ _ E1 E2). apply ev_mono. intros f [A B].
          cbn [unify_args]. rewrite Ea, A. cbn [bind]. exact B.
        + revert E1. apply ev_mono. intros f A. cbn [unify_args]. rewrite Ea, A. reflexivity.
    Qed.

    Lemma ut_lists : forall this other s, chain_ok this -> chain_ok other ->
      den sigma this = den sigma other -> (tsize (den sigma this) <= n)%nat ->
      ((exists h nx c, this = TList h nx c true) \/ (exists h nx c, other = TList h nx c true) ->
       (tsize (den sigma this) < n)%nat) ->
      Inv s -> exists r, r <> OutOfFuel /\ ev (fun f => unify_lists (unify f) this other s = r).
    Proof.
      induction this as [| |a0|f0|z0|id0 nm0|ts0 Hts|th tnx c ttv _ IH|nm1 args1 Hargs] using term_ind';
        intros other s [Pt Wt] [Po Wo] Hd Hle Htv Hi;
        try (apply pl_chain_list in Pt as (? & ? & ? & ? & E); discriminate E).
      destruct (pl_chain_list _ Po) as (oh & onx & oc & otv & ->).
      destruct ttv, otv.
      - (* both tail nodes *)
        cbn [pl andb] in Pt, Po. destruct th; try discriminate Pt. destruct oh; try discriminate Po.
        cbn [den] in Hd, Hle, Htv.
        destruct (IHn (TVar id name) (TVar id0 name0) s (conj eq_refl eq_refl) (conj eq_refl eq_refl) Hi Hd)
          as (r & Nr & Er); [apply Htv; left; eauto|].
        exists r. split; [exact Nr|]. revert Er. apply ev_mono. intros f E. cbn. exact E.
      - cbn [pl andb] in Pt. destruct th; try discriminate Pt. cbn [den] in Hd, Hle, Htv.
        destruct (IHn (TVar id name) (TList oh onx oc false) s (conj eq_refl eq_refl) (conj Po Wo) Hi Hd)
          as (r & Nr & Er); [apply Htv; left; eauto|].
        exists r. split; [exact Nr|]. revert Er. apply ev_mono. intros f E. cbn. exact E.
      - cbn [pl andb] in Po. destruct oh; try discriminate Po.
        assert (den sigma (TVar id name) = den sigma (TList th tnx c false)) as Hd' by (cbn [den] in *; congruence).
        destruct (IHn (TVar id name) (TList th tnx c false) s (conj eq_refl eq_refl) (conj Pt Wt) Hi Hd')
          as (r & Nr & Er); [rewrite Hd'; apply Htv; right; eauto|].
        exists r. split; [exact Nr|]. revert Er. apply ev_mono. intros f E. cbn. exact E.
      - destruct (term_ok_list_inv _ _ _ _ Pt Wt) as [[A1 A2]|(A1 & A2 & A3)],
                 (term_ok_list_inv _ _ _ _ Po Wo) as [[B1 B2]|(B1 & B2 & B3)].
        + exists (Ok (Some s)). split; [discriminate|]. exists 0%nat. intros f _.
          cbn [unify_lists is_nil orb andb]. now rewrite A1, B1.
        + cbn [den] in Hd. rewrite A1, B1 in Hd. discriminate Hd.
        + cbn [den] in Hd. rewrite A1, B1 in Hd. discriminate Hd.
        + cbn [den] in Hd, Hle. rewrite A1 in Hd, Hle. rewrite B1 in Hd. injection Hd as Hd1 Hd2. cbn [tsize] in Hle.
          destruct (IHn th oh s A2 B2 Hi Hd1 ltac:(lia)) as (r1 & N1 & E1).
          destruct r1 as [u| |]; [|exists Panic; split; [discriminate|]|contradiction].
          * destruct (ev_ex _ E1) as [f1 Hf1]. destruct (inv_after _ _ _ _ _ Hi A2 B2 Hd1 Hf1) as (s1 & -> & Hi1).
            destruct (IH onx s1 A3 B3 Hd2 ltac:(lia) ltac:(intros _; lia) Hi1) as (r2 & N2 & E2).
            exists r2. split; [exact N2|]. generalize (ev_and _ _ E1 E2). apply ev_mono. intros f [A B].
            cbn [unify_lists is_nil orb andb]. rewrite A1. cbn [andb]. rewrite A. cbn [bind]. exact B.
          * revert E1. apply ev_mono. intros f A. cbn [unify_lists is_nil orb andb]. rewrite A1. cbn [andb].
            rewrite A. reflexivity.
    Qed.

    Lemma ut_body : forall k a b ss ra rb, crank ss a ra -> crank ss b rb -> k = (2 * (ra + rb) + sw a b)%nat ->
      term_ok a -> term_ok b -> Inv ss -> den sigma a = den sigma b ->
      (tsize (den sigma a) <= n)%nat -> UT a b ss.
    Proof.
      induction k as [k IHk] using lt_wf_ind. intros a b ss ra rb Ca Cb Hk Ha Hb Hi Hd Hle.
      assert (forall r, r <> OutOfFuel -> ev (fun f => unify_body (unify f) f a b ss = r) -> UT a b ss) as Hwrap.
      { intros r Nr E. exists r. split; [exact Nr|]. generalize (ev_S _ E). apply ev_mono.
        intros [|f] H; [contradiction|exact H]. }
      destruct (term_eqb a b) eqn:Eeq.
      { apply (Hwrap (Ok (Some ss))); [discriminate|]. exists 0%nat. intros f _. unfold unify_body. now rewrite Eeq. }
      pose proof (plain_not_anon _ (proj1 Hb)) as Eanon.
      (* the swap a <-> b, when b is a variable and a is not *)
      assert (is_var a = false -> is_var b = true -> UT b a ss) as Hswap.
      { intros Va Vb. apply (IHk (2 * (rb + ra) + sw b a)%nat) with (ra := rb) (rb := ra); try assumption; try reflexivity.
        - subst k. unfold sw. rewrite Va, Vb. cbn. lia.
        - now symmetry.
        - now rewrite <- Hd. }
      assert (forall r, (forall f, unify_body (unify f) f a b ss = r) -> r <> OutOfFuel -> UT a b ss) as Hnow.
      { intros r H Nr. apply (Hwrap r Nr). exists 0%nat. intros f _. apply H. }
      assert (is_var a = false -> is_var b = true ->
              (forall f, unify_body (unify f) f a b ss = unify f b a ss) -> UT a b ss) as Hsw2.
      { intros Va Vb H. destruct (Hswap Va Vb) as (r & Nr & E). apply (Hwrap r Nr).
        revert E. apply ev_mono. intros f E. now rewrite H. }
      destruct a as [| |s1|f1|i1|id name|sts|th tnx c tv|fname fargs]; try (destruct Ha as [Pa _]; discriminate Pa).
      - (* atom *)
        destruct b; try (destruct Hb as [Pb _]; discriminate Pb);
          try (eapply Hnow; [intro fu; unfold unify_body; rewrite Eeq; cbn; reflexivity|discriminate]).
        + apply Hsw2; try reflexivity; intro fu; unfold unify_body; rewrite Eeq; reflexivity.
      - (* float *)
        destruct b; try (destruct Hb as [Pb _]; discriminate Pb);
          try (eapply Hnow; [intro fu; unfold unify_body; rewrite Eeq; cbn; reflexivity|discriminate]).
        + apply Hsw2; try reflexivity; intro fu; unfold unify_body; rewrite Eeq; reflexivity.
      - (* integer *)
        destruct b; try (destruct Hb as [Pb _]; discriminate Pb);
          try (eapply Hnow; [intro fu; unfold unify_body; rewrite Eeq; cbn; reflexivity|discriminate]).
        + apply Hsw2; try reflexivity; intro fu; unfold unify_body; rewrite Eeq; reflexivity.
      - (* variable *)
        destruct (id =? 0) eqn:E0.
        { eapply Hnow; [intro fu; unfold unify_body; rewrite Eeq, Eanon, E0; reflexivity|discriminate]. }
        assert (forall f, unify_body (unify f) f (TVar id name) b ss =
                  match ss_get ss id with
                  | Some u => unify f u b ss
                  | None => do al <- chain_reaches f id b ss; Ok (Some (if al then ss else ss_set ss id b))
                  end) as Hunf.
        { intro fu. unfold unify_body. rewrite Eeq, Eanon, E0. destruct b; try reflexivity.
          destruct Hb as [Pb _]; discriminate Pb. }
        destruct (ss_get ss id) as [u|] eqn:Eg.
        + destruct (crank_var_bound _ _ _ _ _ Ca Eg) as (ka & -> & Cu).
          destruct Hi as (P & W & C & S).
          assert (UT u b ss) as (r & Nr & E).
          { apply (IHk (2 * (ka + rb) + sw u b)%nat) with (ra := ka) (rb := rb); try assumption; try reflexivity.
            - subst k. unfold sw. cbn [is_var negb andb]. destruct (negb (is_var u) && is_var b); lia.
            - split; [apply (P _ _ Eg)|apply (W _ _ Eg)].
            - repeat split; assumption.
            - rewrite <- Hd. cbn [den]. symmetry. apply S, Eg.
            - assert (den sigma u = den sigma (TVar id name)) as -> by (cbn [den]; symmetry; apply S, Eg). exact Hle. }
          apply (Hwrap r Nr). revert E. apply ev_mono. intros f E. now rewrite Hunf.
        + destruct (chain_reaches_ev ss id b rb Cb) as (al & Hal).
          apply (Hwrap (Ok (Some (if al then ss else ss_set ss id b)))); [discriminate|].
          exists rb. intros f L. rewrite Hunf, (Hal f L). reflexivity.
      - (* complex *)
        destruct b as [| |s|f0|z|id0 n0|ots|oh onx oc otv|]; try (destruct Hb as [Pb _]; discriminate Pb);
          try (eapply Hnow; [intro fu; unfold unify_body; rewrite Eeq; cbn; reflexivity|discriminate]).
        + apply Hsw2; try reflexivity; intro fu; unfold unify_body; rewrite Eeq; reflexivity.
        + destruct (term_ok_complex_inv _ Ha) as (sa & srest & -> & Hsr).
          destruct (term_ok_complex_inv _ Hb) as (sb & orest & -> & Hor).
          cbn [den map] in Hd, Hle. injection Hd as Hd1 Hd2.
          assert (length srest = length orest) as Hlen
            by (rewrite <- (map_length (den sigma) srest), Hd2, map_length; reflexivity).
          destruct (ut_args srest orest ss ss Hsr Hor Hd2) as (r & Nr & E); [|exact Hi|].
          { intros x Hx. pose proof (tsize_in (den sigma x) (TrAtom sa :: map (den sigma) srest)
                                       (or_intror (in_map (den sigma) srest x Hx))) as Hlt. lia. }
          apply (Hwrap r Nr). generalize (ev_and _ _ (ev_ge 1) E). apply ev_mono. intros f [L1 H].
          unfold unify_body. rewrite Eeq. cbn [is_anon length]. rewrite Hlen, Nat.eqb_refl. cbn [negb].
          cbn [unify_args is_anon orb]. destruct f as [|f']; [lia|].
          assert (unify (S f') (TAtom sa) (TAtom sb) ss = Ok (Some ss)) as ->.
          { subst sb. cbn [unify]. unfold unify_body. cbn [term_eqb]. now rewrite str_eqb_refl. }
          cbn [bind]. exact H.
      - (* list *)
        destruct Ha as [Pa Wa]. unfold plain in Pa. destruct tv; [discriminate Pa|].
        destruct b as [| |s|f0|z|id0 n0|ots|oh onx oc otv|]; try (destruct Hb as [Pb _]; discriminate Pb);
          try (eapply Hnow; [intro fu; unfold unify_body; rewrite Eeq; cbn; reflexivity|discriminate]).
        + apply Hsw2; try reflexivity; intro fu; unfold unify_body; rewrite Eeq; reflexivity.
        + destruct Hb as [Pb Wb]. unfold plain in Pb. destruct otv; [discriminate Pb|].
          destruct (ut_lists (TList th tnx c false) (TList oh onx oc false) ss (conj Pa Wa) (conj Pb Wb) Hd Hle)
            as (r & Nr & E); [|exact Hi|].
          { intros [(? & ? & ? & Hx)|(? & ? & ? & Hx)]; discriminate Hx. }
          apply (Hwrap r Nr). revert E. apply ev_mono. intros f E. unfold unify_body. rewrite Eeq. cbn [is_anon]. exact E.
    Qed.
  End Level.

  (* unifiable terms: unify terminates (and then, by C06, succeeds; Panic only for a variable id 0) *)
  Theorem unify_terminates : forall a b ss, term_ok a -> term_ok b -> Inv ss ->
    den sigma a = den sigma b -> UT a b ss.
  Proof.
    assert (forall n a b ss, term_ok a -> term_ok b -> Inv ss -> den sigma a = den sigma b ->
              (tsize (den sigma a) < n)%nat -> UT a b ss) as H.
    { induction n as [|n IH]; intros a b ss Ha Hb Hi Hd L; [lia|].
      destruct Hi as (P & W & C & S).
      destruct (chains_crank ss C a) as [ra Ca]. destruct (chains_crank ss C b) as [rb Cb].
      eapply (ut_body n IH _ a b ss ra rb Ca Cb eq_refl Ha Hb); [repeat split; assumption|exact Hd|lia]. }
    intros a b ss Ha Hb Hi Hd. apply (H (S (tsize (den sigma a)))); [assumption..|lia].
  Qed.
End Unif.

(* C06 + termination: on unifiable input unify DECIDES: from some fuel on the result is fixed, and
   it is a success whose substitution set is again solvable by the same valuation, plain,
   well-formed and without variable cycles (Panic is the model's answer for a variable with id 0,
   where the implementation panics too). *)
Theorem unify_total sigma a b ss : term_ok a -> term_ok b -> Inv sigma ss -> den sigma a = den sigma b ->
  exists f0 r, (forall f, (f0 <= f)%nat -> unify f a b ss = r) /\
               (r = Panic \/ exists ss', r = Ok (Some ss') /\ Inv sigma ss').
Proof.
  intros Ha Hb Hi Hd. destruct (unify_terminates sigma a b ss Ha Hb Hi Hd) as (r & Nr & [f0 Hf]).
  exists f0, r. split; [exact Hf|]. destruct r as [u| |]; [right|now left|contradiction].
  destruct (inv_after sigma f0 a b ss u Hi Ha Hb Hd (Hf f0 (le_n _))) as (s1 & -> & Hi1). eauto.
Qed.

(* ---- every binding that unify makes is an operand or a part of an operand: any property of
   terms that is inherited by the parts unify looks at, and holds of constants, is kept ---- *)
Section Closed.
  Variable Q : term -> Prop.
  Hypothesis Q_complex : forall ts, Q (TComplex ts) -> Forall Q ts.
  Hypothesis Q_list : forall h nx c tv, Q (TList h nx c tv) -> Q h /\ (tv = false -> Q nx).
  Hypothesis Q_const : forall v, is_constant v = true -> Q v.

  Definition Qss (ss : subst) : Prop := forall id t, ss_get ss id = Some t -> Q t.

  Lemma Qss_set ss id t : Qss ss -> Q t -> Qss (ss_set ss id t).
  Proof.
    intros Hs Ht j u Hj. destruct (N.eq_dec j id) as [->|Hne].
    - rewrite ss_get_set_same in Hj. now inversion Hj; subst.
    - rewrite ss_get_set_other in Hj by assumption. eauto.
  Qed.
  Lemma Qss_nil : Qss [].
  Proof. intros id t H. now rewrite ss_get_nil in H. Qed.

  Definition closed (rec : term -> term -> subst -> res (option subst)) : Prop :=
    forall a b ss ss', Q a -> Q b -> Qss ss -> rec a b ss = Ok (Some ss') -> Qss ss'.

  Section Body.
    Variable rec : term -> term -> subst -> res (option subst).
    Hypothesis Hrec : closed rec.

    Lemma unify_args_closed : forall ls rs s s2 out, Forall Q ls -> Forall Q rs -> Qss s -> Qss s2 ->
      unify_args rec ls rs s s2 = Ok (Some out) -> Qss out.
    Proof.
      induction ls as [|l ls IH]; intros rs s s2 out Hl Hr Hs H2 H.
      - cbn in H. inversion H; subst. exact H2.
      - destruct rs as [|r rs]; [cbn in H; inversion H; subst; exact H2|].
        inversion Hl as [|? ? Ql Qls]; subst. inversion Hr as [|? ? Qr Qrs]; subst. cbn [unify_args] in H.
        destruct (is_anon l || is_anon r); [exact (IH _ _ _ _ Qls Qrs Hs H2 H)|].
        destruct (rec l r s) as [[s1|]| |] eqn:E; cbn [bind] in H; try discriminate.
        pose proof (Hrec _ _ _ _ Ql Qr Hs E) as Hs1. exact (IH _ _ _ _ Qls Qrs Hs1 Hs1 H).
    Qed.

    Lemma unify_lists_closed : forall this other s out, Q this -> Q other -> Qss s ->
      unify_lists rec this other s = Ok (Some out) -> Qss out.
    Proof.
      induction this as [| |a0|f0|z0|id0 nm0|ts0 Hts|th tnx c ttv _ IH|nm1 args1 Hargs] using term_ind';
        intros other s out Qt Qo Hs H; cbn [unify_lists is_nil orb] in H; try discriminate;
        try (destruct (is_nil other); discriminate).
      destruct other as [| | | | | | |oh onx oc otv|]; cbn [is_nil] in H; try discriminate.
      destruct (Q_list _ _ _ _ Qt) as [Qth Qtn]. destruct (Q_list _ _ _ _ Qo) as [Qoh Qon].
      destruct ttv, otv; cbn [andb] in H.
      - destruct (is_anon oh); [inversion H; subst; exact Hs|].
        destruct (is_anon th); [inversion H; subst; exact Hs|]. exact (Hrec _ _ _ _ Qth Qoh Hs H).
      - exact (Hrec _ _ _ _ Qth Qo Hs H).
      - exact (Hrec _ _ _ _ Qoh Qt Hs H).
      - destruct (is_nil th && is_nil oh); [inversion H; subst; exact Hs|].
        destruct (rec th oh s) as [[s1|]| |] eqn:E; cbn [bind] in H; try discriminate.
        pose proof (Hrec _ _ _ _ Qth Qoh Hs E) as Hs1. exact (IH _ _ _ (Qtn eq_refl) (Qon eq_refl) Hs1 H).
    Qed.

    Lemma unify_body_closed f : closed (unify_body rec f).
    Proof.
      intros a b ss ss' Qa Qb Hs H. unfold unify_body in H.
      destruct (term_eqb a b); [inversion H; subst; exact Hs|].
      destruct (is_anon b); [inversion H; subst; exact Hs|].
      assert (forall o, rec b a ss = Ok (Some o) -> Qss o) as Hswap by (intros o E; exact (Hrec _ _ _ _ Qb Qa Hs E)).
      destruct a as [| |s1|f1|i1|id name|sts|th tnx c tv|fname fargs]; try discriminate.
      - inversion H; subst; exact Hs.
      - destruct b; try discriminate; try (apply Hswap; exact H).
        destruct (str_eqb s1 s); inversion H; subst; exact Hs.
      - destruct b; try discriminate; try (apply Hswap; exact H).
        destruct (feqb f1 f0); inversion H; subst; exact Hs.
      - destruct b; try discriminate; try (apply Hswap; exact H).
        destruct (Z.eqb i1 z); inversion H; subst; exact Hs.
      - destruct (id =? 0); [discriminate|].
        destruct (match b with TFun _ _ => true | _ => false end) eqn:Ef.
        { destruct b; try discriminate. apply Hswap; exact H. }
        assert (match ss_get ss id with
                | Some u => rec u b ss
                | None => do al <- chain_reaches f id b ss; Ok (Some (if al then ss else ss_set ss id b))
                end = Ok (Some ss')) as H' by (destruct b; try discriminate; exact H).
        clear H. destruct (ss_get ss id) as [u|] eqn:Eg.
        + exact (Hrec _ _ _ _ (Hs _ _ Eg) Qb Hs H').
        + destruct (chain_reaches f id b ss) as [[|]| |]; cbn [bind] in H'; try discriminate;
            inversion H'; subst; [exact Hs|apply Qss_set; assumption].
      - destruct b as [| | | | | |ots| |]; try discriminate; try (apply Hswap; exact H).
        destruct (negb (Nat.eqb (length sts) (length ots))); [discriminate|].
        eapply unify_args_closed; [apply Q_complex, Qa|apply Q_complex, Qb|exact Hs|apply Qss_nil|exact H].
      - destruct b; try discriminate; try (apply Hswap; exact H).
        exact (unify_lists_closed _ _ _ _ Qa Qb Hs H).
      - destruct (eval_function f fname fargs ss) as [[v|]| |] eqn:Ev; cbn [bind] in H; try discriminate.
        exact (Hrec _ _ _ _ (Q_const _ (eval_function_constant _ _ _ _ _ Ev)) Qb Hs H).
    Qed.
  End Body.

  Theorem unify_closed : forall fuel, closed (unify fuel).
  Proof.
    induction fuel as [|f IH]; intros a b ss ss' Qa Qb Hs H; [discriminate|].
    cbn [unify] in H. exact (unify_body_closed (unify f) IH f a b ss ss' Qa Qb Hs H).
  Qed.
End Closed.

(* in particular `tok` (lists as the parser builds them) *)
Theorem unify_keeps_tok fuel a b ss ss' : tok a = true -> tok b = true -> tok_ss ss ->
  unify fuel a b ss = Ok (Some ss') -> tok_ss ss'.
Proof.
  intros Ta Tb Ts H.
  refine (unify_closed (fun t => tok t = true) _ _ _ fuel a b ss ss' Ta Tb Ts H).
  - intros ts T. cbn [tok] in T. apply Forall_forall. now rewrite forallb_forall in T.
  - intros h nx c tv T. cbn [tok] in T. apply andb_true_iff in T as [T1 T2]. split; [exact T1|]. now intros ->.
  - intros v Hv. destruct v; try discriminate; reflexivity.
Qed.

(* ---- witnesses: what does NOT terminate ---- *)
Definition wX := TVar 1 [36; 88]%N.
Definition wY := TVar 2 [36; 89]%N.

(* 1. a cycle of variables is solvable (by any constant valuation) but following it never ends *)
Example variable_cycle :
  let ss := [None; Some wY; Some wX] in
  solves (fun _ => TrNil) ss /\ plain_ss ss /\ forall f, get_ground_term f wX ss = OutOfFuel.
Proof.
  cbn zeta. split; [|split].
  - intros id t H. unfold ss_get in H. destruct (N.to_nat id) as [|[|[|n]]]; cbn in H; try discriminate;
      try (inversion H; subst; reflexivity). destruct n; discriminate.
  - intros id t H. unfold ss_get in H. destruct (N.to_nat id) as [|[|[|n]]]; cbn in H; try discriminate;
      try (inversion H; subst; reflexivity). destruct n; discriminate.
  - assert (forall f, get_ground_term f wX [None; Some wY; Some wX] = OutOfFuel /\
                      get_ground_term f wY [None; Some wY; Some wX] = OutOfFuel) as H.
    { induction f as [|f [IH1 IH2]]; [split; reflexivity|]. split; cbn [get_ground_term wX wY]; cbn; assumption. }
    intro f. apply H.
Qed.

(* 2. a hand-built `next` of a tail node can close a cycle no valuation sees: plain, solvable,
   no variable cycle - and resolving $X never ends *)
Definition wT := TVar 2 [36; 84]%N.
Definition wjunk := TList (TAtom [97]%N) (TList wT wX 1 true) 2 false.
Example junk_next :
  let ss := [None; Some wjunk; None] in
  plain wjunk = true /\ tok wjunk = false /\
  solves (fun id => if id =? 1 then TrCons (TrAtom [97]%N) TrNil else TrNil) ss /\
  forall f, replace_variables f wX ss = OutOfFuel.
Proof.
  cbn zeta. split; [reflexivity|]. split; [reflexivity|]. split.
  - intros id t H. unfold ss_get in H. destruct (N.to_nat id) as [|[|[|n]]] eqn:E; cbn in H; try discriminate.
    + inversion H; subst. apply (f_equal N.of_nat) in E. rewrite N2Nat.id in E. subst id. reflexivity.
    + destruct n; discriminate.
  - assert (forall f, replace_variables f wX [None; Some wjunk; None] = OutOfFuel /\
                      replace_variables f wjunk [None; Some wjunk; None] = OutOfFuel /\
                      replace_variables f (TList wT wX 1 true) [None; Some wjunk; None] = OutOfFuel) as H.
    { set (tn := TList wT wX 1 true). set (s0 := [None; Some wjunk; None]).
      assert (wjunk = TList (TAtom [97]%N) tn 2 false) as Ej by reflexivity.
      induction f as [|f (IH1 & IH2 & IH3)]; [repeat split; reflexivity|]. repeat split.
      - cbn [replace_variables wX]. change (ss_get s0 1) with (Some wjunk). exact IH2.
      - rewrite Ej in *. cbn [replace_variables]. destruct f as [|f']; [reflexivity|].
        rewrite IH3. reflexivity.
      - unfold tn in *. cbn [replace_variables]. destruct f as [|f']; [reflexivity|].
        assert (replace_variables (S f') wT s0 = Ok wT) as -> by reflexivity.
        cbn [bind]. rewrite IH1. reflexivity. }
    intro f. apply H.
Qed.

(* 3. no occurs check: f($X, $Y, $X) = f(g($X), g($Y), $Y) - plain terms, the empty (solvable) set -
   binds $X -> g($X) and $Y -> g($Y) and then unifies $X with $Y for ever.  The two terms are not
   unifiable over finite trees; unify does not find that out. *)
Definition wgf := TAtom [103]%N.
Definition wg (t : term) := TComplex [wgf; t].
Definition wf3 (a b c : term) := TComplex [TAtom [102]%N; a; b; c].
Definition wss : subst := [None; Some (wg wX); Some (wg wY)].

Lemma occurs_loop : forall f,
  unify f wX wY wss = OutOfFuel /\ unify f (wg wX) wY wss = OutOfFuel /\
  unify f wY (wg wX) wss = OutOfFuel /\ unify f (wg wY) (wg wX) wss = OutOfFuel /\
  unify f wY wX wss = OutOfFuel /\ unify f (wg wY) wX wss = OutOfFuel /\
  unify f wX (wg wY) wss = OutOfFuel /\ unify f (wg wX) (wg wY) wss = OutOfFuel.
Proof.
  induction f as [|f (A & B & C & D & E & F & G & H)]; [repeat split; reflexivity|].
  assert (forall a b, (a = wY /\ b = wX) \/ (a = wX /\ b = wY) ->
            unify f a b wss = OutOfFuel ->
            unify (S f) (wg a) (wg b) wss = OutOfFuel) as Hargs.
  { intros a b Hab Hrec.
    assert (unify (S f) (wg a) (wg b) wss =
            do u <- unify f wgf wgf wss;
            match u with
            | Some s1 => do u2 <- unify f a b s1; match u2 with Some s2 => Ok (Some s2) | None => Ok None end
            | None => Ok None
            end) as -> by (destruct Hab as [[-> ->]|[-> ->]]; reflexivity).
    destruct f as [|f']; [reflexivity|].
    assert (unify (S f') wgf wgf wss = Ok (Some wss)) as -> by reflexivity.
    cbn [bind]. rewrite Hrec. reflexivity. }
  repeat split.
  - exact B.
  - exact C.
  - exact D.
  - apply Hargs; [now left|exact E].
  - exact F.
  - exact G.
  - exact H.
  - apply Hargs; [now right|exact A].
Qed.

Example occurs_check_diverges :
  plain (wf3 wX wY wX) = true /\ plain (wf3 (wg wX) (wg wY) wY) = true /\
  forall f, unify f (wf3 wX wY wX) (wf3 (wg wX) (wg wY) wY) [] = OutOfFuel.
Proof.
  split; [reflexivity|]. split; [reflexivity|]. intros [|f]; [reflexivity|].
  assert (unify (S f) (wf3 wX wY wX) (wf3 (wg wX) (wg wY) wY) [] =
          do u0 <- unify f (TAtom [102]%N) (TAtom [102]%N) [];
          match u0 with
          | Some s0 =>
              do u1 <- unify f wX (wg wX) s0;
              match u1 with
              | Some s1 =>
                  do u2 <- unify f wY (wg wY) s1;
                  match u2 with
                  | Some s2 => do u3 <- unify f wX wY s2; match u3 with Some s3 => Ok (Some s3) | None => Ok None end
                  | None => Ok None
                  end
              | None => Ok None
              end
          | None => Ok None
          end) as -> by reflexivity.
  destruct f as [|f]; [reflexivity|].
  assert (unify (S f) (TAtom [102]%N) (TAtom [102]%N) [] = Ok (Some [])) as -> by reflexivity. cbn [bind].
  assert (unify (S f) wX (wg wX) [] = Ok (Some [None; Some (wg wX)])) as -> by (destruct f; reflexivity). cbn [bind].
  assert (unify (S f) wY (wg wY) [None; Some (wg wX)] = Ok (Some wss)) as -> by (destruct f; reflexivity). cbn [bind].
  rewrite (proj1 (occurs_loop (S f))). reflexivity.
Qed.
