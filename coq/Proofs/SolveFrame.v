(* C22: the only process-global state is `world`; a query built with the query constructor
   overwrites the variable-id counter and the stop flag, and the search only ever APPENDS to
   the output.  Hence everything a query does is independent of the world it is started in
   (as long as no deterministic stop schedule of the verification hook is pending). *)
From Coq Require Import Lia.
From Suiron Require Import Model.Term Model.Subst Model.Show Model.Lists Model.Arith Model.Unify
  Model.Compare Model.Builtins Model.Rename Model.Solve Proofs.SolveDead.
Open Scope N_scope.

(* the same world with more text already printed in front *)
Definition wpre (pre : str) (w : world) : world :=
  mkWorld (next_id w) (stop_flag w) (stop_after w) (pre ++ out w).

Definition rpre (pre : str) (r : res step_result) : res step_result :=
  match r with
  | Ok (nd, s, c, w) => Ok (nd, s, c, wpre pre w)
  | Panic => Panic
  | OutOfFuel => OutOfFuel
  end.

Lemma wpre_print pre w s : w_print (wpre pre w) s = wpre pre (w_print w s).
Proof. unfold w_print, wpre. simpl. now rewrite app_assoc. Qed.
Lemma wpre_set_id pre w i : w_set_id (wpre pre w) i = wpre pre (w_set_id w i).
Proof. reflexivity. Qed.
Lemma wpre_next_id pre w : next_id (wpre pre w) = next_id w.
Proof. reflexivity. Qed.

Lemma wpre_query_stopped pre w :
  query_stopped (wpre pre w) = (fst (query_stopped w), wpre pre (snd (query_stopped w))).
Proof. destruct w as [i fl af o]. unfold query_stopped, wpre. simpl. destruct af as [[|p]|]; reflexivity. Qed.

Lemma wpre_count_rules kb key pre w :
  count_rules kb key (wpre pre w) = (fst (count_rules kb key w), wpre pre (snd (count_rules kb key w))).
Proof.
  unfold count_rules. rewrite wpre_query_stopped. destruct (query_stopped w) as [b w']. simpl.
  destruct b; reflexivity.
Qed.

Definition npre (pre : str) (r : res (node * world)) : res (node * world) :=
  match r with Ok (nd, w) => Ok (nd, wpre pre w) | Panic => Panic | OutOfFuel => OutOfFuel end.

Lemma wpre_make_node kb pre : forall g ss w, make_node kb g ss (wpre pre w) = npre pre (make_node kb g ss w).
Proof.
  fix IH 1. intros g ss w. destruct g as [k gs|f ts|t|]; try reflexivity.
  - destruct k; destruct gs as [|h tl]; try reflexivity; cbn [make_node]; rewrite IH;
      destruct (make_node kb h ss w) as [[hn w']| |]; reflexivity.
  - cbn [make_node]. destruct (term_key t) as [key| |]; try reflexivity. cbn [bind].
    rewrite wpre_count_rules. destruct (count_rules kb key w) as [n w']. reflexivity.
Qed.

Lemma wpre_make_base_node kb pre g w : make_base_node kb g (wpre pre w) = npre pre (make_base_node kb g w).
Proof.
  destruct g as [k gs|f ts|t|]; try reflexivity. unfold make_base_node.
  destruct (term_key t) as [key| |]; try reflexivity. cbn [bind].
  rewrite wpre_count_rules. destruct (count_rules kb key w) as [n w']. reflexivity.
Qed.

Section Frame.
  Variable kb : kbase.
  Variable bf : nat.
  Variable pre : str.

  Definition frame_next (fuel : nat) : Prop :=
    forall nd w, next kb bf fuel nd (wpre pre w) = rpre pre (next kb bf fuel nd w).
  Definition frame_and (fuel : nat) : Prop :=
    forall ss nobt more head tail optail acc w,
      and_loop kb bf fuel ss nobt more head tail optail acc (wpre pre w) =
      rpre pre (and_loop kb bf fuel ss nobt more head tail optail acc w).
  Definition frame_call (fuel : nat) : Prop :=
    forall t ss nobt child idx n w,
      call_loop kb bf fuel t ss nobt child idx n (wpre pre w) =
      rpre pre (call_loop kb bf fuel t ss nobt child idx n w).

  (* rewriting with the induction hypothesis and taking the result apart *)
  Ltac step IH e :=
    rewrite IH; destruct e as [[[[?n ?o] ?b] ?w]| |]; cbn [rpre bind]; try reflexivity.

  Lemma frame_all : forall fuel, frame_next fuel /\ frame_and fuel /\ frame_call fuel.
  Proof.
    induction fuel as [|f [IHn [IHa IHc]]].
    { split; [|split]; red; intros; reflexivity. }
    split; [|split].
    - intros nd w. rewrite !next_S. unfold next_body.
      destruct (node_nobt nd); [reflexivity|].
      destruct nd as [t ss nobt child idx n|k ss nobt more head tail optail|fn ts ss nobt more].
      + destruct child as [c0|]; [|apply IHc].
        step IHn (next kb bf f c0 w). destruct o; [reflexivity|apply IHc].
      + destruct k.
        * destruct tail as [t0|]; [|apply IHa].
          step IHn (next kb bf f t0 w). destruct o; [reflexivity|apply IHa].
        * destruct tail as [t0|].
          -- step IHn (next kb bf f t0 w).
          -- destruct head as [h|]; [|reflexivity].
             step IHn (next kb bf f h w). destruct o; [reflexivity|].
             destruct optail as [tl|]; [|reflexivity].
             destruct (length tl =? 0)%nat; [reflexivity|].
             destruct (nobt || b); [reflexivity|].
             rewrite wpre_make_node. destruct (make_node kb (GOp OOr tl) ss w0) as [[t1 w2]| |]; cbn [npre bind]; try reflexivity.
             step IHn (next kb bf f t1 w2).
        * destruct (negb more); [reflexivity|]. destruct head as [h|]; [|reflexivity].
          step IHn (next kb bf f h w). now rewrite wpre_print.
        * destruct (negb more); [reflexivity|]. destruct head as [h|]; [|reflexivity].
          step IHn (next kb bf f h w).
      + destruct (negb more); [reflexivity|].
        destruct (run_bip bf fn ts ss) as [r| |]; cbn [bind rpre]; try reflexivity.
        now rewrite wpre_print.
    - intros ss nobt more head tail optail acc w. rewrite !and_loop_S. unfold and_body.
      destruct head as [h|]; [|reflexivity].
      step IHn (next kb bf f h w). destruct o; [|reflexivity].
      destruct optail as [tl|]; [|reflexivity].
      destruct (length tl =? 0)%nat; [reflexivity|].
      rewrite wpre_make_node. destruct (make_node kb (GOp OAnd tl) s w0) as [[t1 w2]| |]; cbn [npre bind]; try reflexivity.
      step IHn (next kb bf f t1 w2). destruct o; [reflexivity|apply IHa].
    - intros t ss nobt child idx n w. rewrite !call_loop_S. unfold call_body.
      destruct nobt; [reflexivity|]. destruct (n <=? idx); [reflexivity|].
      rewrite wpre_next_id.
      destruct (term_key t) as [key| |]; cbn [bind rpre]; try reflexivity.
      destruct (get_rule kb key idx (next_id w)) as [[r0 ctr]| |]; cbn [bind rpre]; try reflexivity.
      destruct (unify bf (r_head r0) t ss) as [[s|]| |]; cbn [bind rpre]; try reflexivity.
      + destruct (is_gnil (r_body r0)); [reflexivity|].
        rewrite wpre_set_id, wpre_make_node.
        destruct (make_node kb (r_body r0) s (w_set_id w ctr)) as [[c0 w2]| |]; cbn [npre bind]; try reflexivity.
        step IHn (next kb bf f c0 w2). destruct o; [reflexivity|apply IHc].
      + rewrite !wpre_set_id. apply IHc.
  Qed.
End Frame.

Theorem next_frame kb bf pre fuel nd w : next kb bf fuel nd (wpre pre w) = rpre pre (next kb bf fuel nd w).
Proof. apply (proj1 (frame_all kb bf pre fuel)). Qed.

(* ---- the query constructor forgets the past ---- *)
Theorem make_query_forgets terms w :
  api_make_query terms w =
  match api_make_query terms world0 with
  | Ok (g, w0) => Ok (g, mkWorld (next_id w0) false (stop_after w) (out w))
  | Panic => Panic
  | OutOfFuel => OutOfFuel
  end.
Proof.
  unfold api_make_query. destruct (make_query terms) as [[g ctr]| |]; reflexivity.
Qed.

(* ---- operations on a query, and their independence of the starting world ---- *)
Inductive qop := QAsk | QSolve | QSolveAll.
Inductive qobs := OAns (s : option subst) | OStr (s : str) | OStrs (l : list str).

Definition run_op (kb : kbase) (fuel : nat) (op : qop) (nd : node) (w : world)
  : res (qobs * node * world) :=
  match op with
  | QAsk => do x <- next kb fuel fuel nd w; let '(nd', r, _, w') := x in Ok (OAns r, nd', w')
  | QSolve => do x <- solve fuel kb nd w; let '(nd', s, w') := x in Ok (OStr s, nd', w')
  | QSolveAll => do x <- solve_all fuel kb nd w; let '(nd', l, w') := x in Ok (OStrs l, nd', w')
  end.

Fixpoint run_ops (kb : kbase) (fuel : nat) (ops : list qop) (nd : node) (w : world)
  : res (list qobs * node * world) :=
  match ops with
  | [] => Ok ([], nd, w)
  | op :: rest =>
      do x <- run_op kb fuel op nd w;
      let '(o, nd', w') := x in
      do y <- run_ops kb fuel rest nd' w';
      let '(os, nd'', w'') := y in Ok (o :: os, nd'', w'')
  end.

(* building a query and operating on it, from a given world: observations and everything printed *)
Definition run_query (kb : kbase) (fuel : nat) (terms : list term) (ops : list qop) (w : world)
  : res (list qobs * str) :=
  do a <- api_make_query terms w;
  let '(g, w1) := a in
  do b <- make_base_node kb g w1;
  let '(nd, w2) := b in
  do c <- run_ops kb fuel ops nd w2;
  let '(os, _, w3) := c in Ok (os, out w3).

Lemma wpre_set_flag pre w b : w_set_flag (wpre pre w) b = wpre pre (w_set_flag w b).
Proof. reflexivity. Qed.

Definition spre (pre : str) {A} (r : res (A * world)) : res (A * world) :=
  match r with Ok (a, w) => Ok (a, wpre pre w) | Panic => Panic | OutOfFuel => OutOfFuel end.

Lemma solve_frame kb pre fuel nd w : solve fuel kb nd (wpre pre w) = spre pre (solve fuel kb nd w).
Proof.
  unfold solve. rewrite wpre_set_flag, next_frame.
  destruct (next kb fuel fuel nd (w_set_flag w false)) as [[[[n1 o1] b1] w1]| |]; cbn [rpre bind spre]; try reflexivity.
  rewrite wpre_query_stopped. destruct (query_stopped w1) as [st w2]. cbn [fst snd].
  destruct st; [reflexivity|]. destruct o1 as [s|]; [|reflexivity].
  destruct (node_goal_term n1) as [q|]; [|reflexivity].
  destruct (replace_variables fuel q s) as [r| |]; cbn [bind]; try reflexivity.
  destruct (format_solution (GCall q) r) as [txt| |]; reflexivity.
Qed.

Lemma solve_all_loop_frame kb pre fuel : forall n nd q acc w,
  solve_all_loop n fuel kb nd q acc (wpre pre w) = spre pre (solve_all_loop n fuel kb nd q acc w).
Proof.
  induction n as [|f IH]; intros nd q acc w; [reflexivity|].
  cbn [solve_all_loop]. rewrite next_frame.
  destruct (next kb fuel fuel nd w) as [[[[n1 o1] b1] w1]| |]; cbn [rpre bind spre]; try reflexivity.
  rewrite wpre_query_stopped. destruct (query_stopped w1) as [st w2]. cbn [fst snd].
  destruct st; [reflexivity|]. destruct o1 as [s|]; [|reflexivity].
  destruct (replace_variables fuel q s) as [r| |]; cbn [bind]; try reflexivity.
  destruct (format_solution (GCall q) r) as [txt| |]; cbn [bind]; try reflexivity. apply IH.
Qed.

Lemma solve_all_frame kb pre fuel nd w : solve_all fuel kb nd (wpre pre w) = spre pre (solve_all fuel kb nd w).
Proof.
  unfold solve_all. destruct (node_goal_term nd) as [q|]; [|reflexivity].
  rewrite wpre_set_flag, solve_all_loop_frame.
  destruct (solve_all_loop fuel fuel kb nd q [] (w_set_flag w false)) as [[[n1 acc] w1]| |]; cbn [spre bind]; try reflexivity.
  rewrite wpre_query_stopped. destruct (query_stopped w1) as [st w2]. reflexivity.
Qed.

Lemma run_op_frame kb pre fuel op nd w :
  run_op kb fuel op nd (wpre pre w) = spre pre (run_op kb fuel op nd w).
Proof.
  destruct op; unfold run_op.
  - rewrite next_frame. destruct (next kb fuel fuel nd w) as [[[[n1 o1] b1] w1]| |]; reflexivity.
  - rewrite solve_frame. destruct (solve fuel kb nd w) as [[[n1 s1] w1]| |]; reflexivity.
  - rewrite solve_all_frame. destruct (solve_all fuel kb nd w) as [[[n1 s1] w1]| |]; reflexivity.
Qed.

Lemma run_ops_frame kb pre fuel : forall ops nd w,
  run_ops kb fuel ops nd (wpre pre w) = spre pre (run_ops kb fuel ops nd w).
Proof.
  induction ops as [|op rest IH]; intros nd w; [reflexivity|].
  cbn [run_ops]. rewrite run_op_frame.
  destruct (run_op kb fuel op nd w) as [[[o n1] w1]| |]; cbn [spre bind]; try reflexivity.
  rewrite IH. destruct (run_ops kb fuel rest n1 w1) as [[[os n2] w2]| |]; reflexivity.
Qed.

(* Whatever ran before (any value of the variable-id counter, any stop flag - e.g. left set by
   a query that timed out -, any output), a query built with the query constructor yields
   the observations it yields in a fresh process, and prints the same text (after what had
   been printed before). *)
Theorem query_independent_of_history kb fuel terms ops w :
  stop_after w = None ->
  run_query kb fuel terms ops w =
  match run_query kb fuel terms ops world0 with
  | Ok (os, o) => Ok (os, out w ++ o)
  | Panic => Panic
  | OutOfFuel => OutOfFuel
  end.
Proof.
  intro Hs. unfold run_query. rewrite (make_query_forgets terms w).
  destruct (api_make_query terms world0) as [[g w0]| |] eqn:E; cbn [bind]; try reflexivity.
  assert (stop_flag w0 = false /\ stop_after w0 = None /\ out w0 = []) as (Hf & Ha & Ho).
  { unfold api_make_query in E. destruct (make_query terms) as [[g' ctr]| |]; try discriminate.
    inversion E; subst. auto. }
  assert (mkWorld (next_id w0) false (stop_after w) (out w) = wpre (out w) w0) as ->.
  { unfold wpre. rewrite Hf, Ha, Ho, Hs, app_nil_r. reflexivity. }
  rewrite wpre_make_base_node.
  destruct (make_base_node kb g w0) as [[nd w2]| |]; cbn [npre bind]; try reflexivity.
  rewrite run_ops_frame.
  destruct (run_ops kb fuel ops nd w2) as [[[os n3] w3]| |]; reflexivity.
Qed.
