(* An index-free ("stream") presentation of the main loop of `tokenize` and of
   `group_tokens_to`, and the refinement lemmas that connect them with the index-based
   model (Model/Tokenizer.v).  All later proofs reason about the stream versions.

   The configuration of the stream tokenizer is (rest, w, previous, stk, tokens) with
   rest = chrs[i..]  and  w = chrs[start_index..i]. *)
From Coq Require Import Lia.
From Suiron Require Import Model.Tokenizer.
Open Scope N_scope.

Record scfg := mkS {
  s_rest : str; s_w : str; s_prev : N; s_stk : parse_stack; s_toks : list token }.

Definition sstep (c : N) (rest' w : str) (previous : N) (stk : parse_stack) (tokens : list token)
  : presult scfg :=
  let top := peek stk in
  if no_esc c ch_quote previous then
    match quote_loop rest' 0 ch_hash c with
    | (Some k, ch') => POk (mkS (skipn (S k) rest') (w ++ c :: firstn (S k) rest') ch' stk tokens)
    | (None, ch') => POk (mkS rest' (w ++ [c]) ch' stk tokens)
    end
  else if no_esc c ch_lparen previous then
    if letter_number_hyphen previous then POk (mkS rest' (w ++ [c]) c (TTComplex :: stk) tokens)
    else POk (mkS rest' [] c (TTGroup :: stk) (tokens ++ [make_leaf_token [ch_lparen]]))
  else if no_esc c ch_rparen previous then
    if tt_eqb top TTEmpty then PErr
    else
      let '(top, stk) := pop stk in
      if tt_eqb top TTGroup then
        POk (mkS rest' (w ++ [c]) c stk
                 (tokens ++ [make_leaf_token w] ++ [make_leaf_token [ch_rparen]]))
      else if negb (tt_eqb top TTComplex) then PErr
      else POk (mkS rest' (w ++ [c]) c stk tokens)
  else if no_esc c ch_lbracket previous then
    POk (mkS rest' (w ++ [c]) c (TTLinkedList :: stk) tokens)
  else if no_esc c ch_rbracket previous then
    if tt_eqb top TTEmpty then PErr
    else
      let '(top, stk) := pop stk in
      if negb (tt_eqb top TTLinkedList) then PErr
      else POk (mkS rest' (w ++ [c]) c stk tokens)
  else
    if negb (tt_eqb top TTComplex) && negb (tt_eqb top TTLinkedList) then
      if invalid_between_terms c then PErr
      else if no_esc c ch_comma previous then
        POk (mkS rest' [] c stk (tokens ++ [make_leaf_token w] ++ [make_leaf_token [ch_comma]]))
      else if no_esc c ch_semicolon previous then
        POk (mkS rest' [] c stk (tokens ++ [make_leaf_token w] ++ [make_leaf_token [ch_semicolon]]))
      else POk (mkS rest' (w ++ [c]) c stk tokens)
    else POk (mkS rest' (w ++ [c]) c stk tokens).

Definition sstep_cfg (cf : scfg) : option (presult scfg) :=
  match s_rest cf with
  | [] => None
  | c :: rest' => Some (sstep c rest' (s_w cf) (s_prev cf) (s_stk cf) (s_toks cf))
  end.

Fixpoint sloop (fuel : nat) (cf : scfg) : res (presult scfg) :=
  match fuel with
  | O => OutOfFuel
  | S fuel' =>
      match sstep_cfg cf with
      | None => Ok (POk cf)
      | Some PErr => Ok PErr
      | Some (POk cf') => sloop fuel' cf'
      end
  end.

Definition stokenize (fuel : nat) (to_parse : str) : res (presult (list token)) :=
  let s := tk_trim to_parse in
  match s with
  | [] => Ok PErr
  | _ =>
      do r <- sloop fuel (mkS s [] ch_hash [] []);
      match r with
      | PErr => Ok PErr
      | POk cf =>
          match s_stk cf with
          | _ :: _ => Ok PErr
          | [] =>
              match s_w cf with
              | [] => Ok (POk (s_toks cf))
              | w => Ok (POk (s_toks cf ++ [make_leaf_token w]))
              end
          end
      end
  end.

(* ---------------------------------------------------------------------------------- *)
(* list arithmetic *)

Lemma nth_error_skipn_hd {A} (l : list A) i c :
  nth_error l i = Some c -> skipn i l = c :: skipn (S i) l.
Proof.
  revert i; induction l as [|x l IH]; intros [|i] H; simpl in *; try discriminate.
  - now inversion H.
  - now apply IH.
Qed.

Lemma skipn_skipn' {A} (a b : nat) (l : list A) : skipn a (skipn b l) = skipn (b + a) l.
Proof.
  revert l; induction b as [|b IH]; intros l; simpl; [reflexivity|].
  destruct l as [|x l]; [now rewrite skipn_nil|]. apply IH.
Qed.

Lemma firstn_add {A} (d n : nat) (m : list A) :
  firstn (d + n) m = firstn d m ++ firstn n (skipn d m).
Proof.
  revert m; induction d as [|d IH]; intros m; simpl; [reflexivity|].
  destruct m as [|x m]; simpl; [now rewrite firstn_nil|]. now rewrite IH.
Qed.

Lemma slice_extend {A} (l : list A) start i n :
  (start <= i)%nat ->
  firstn (i + n - start) (skipn start l) =
  firstn (i - start) (skipn start l) ++ firstn n (skipn i l).
Proof.
  intros Hle.
  replace (i + n - start)%nat with ((i - start) + n)%nat by lia.
  rewrite firstn_add, skipn_skipn'. do 3 f_equal. lia.
Qed.

Lemma slice_ok chrs a b :
  (a <= b)%nat -> (b <= length chrs)%nat ->
  slice chrs a b = Ok (firstn (b - a) (skipn a chrs)).
Proof.
  intros H1 H2. unfold slice.
  apply Nat.leb_le in H1, H2. now rewrite H1, H2.
Qed.

(* quote_loop: the counter only shifts the answer *)
Lemma quote_loop_shift rest j p c :
  quote_loop rest j p c =
  (match fst (quote_loop rest 0 p c) with Some k => Some (j + k)%nat | None => None end,
   snd (quote_loop rest 0 p c)).
Proof.
  revert j p c. induction rest as [|x rest IH]; intros j p c; simpl.
  - reflexivity.
  - destruct (no_esc x ch_quote p); simpl.
    + now rewrite Nat.add_0_r.
    + rewrite (IH (S j)), (IH 1%nat).
      destruct (fst (quote_loop rest 0 x x)); simpl; [f_equal; f_equal; lia | reflexivity].
Qed.

Lemma quote_loop_bound rest p c k ch' :
  quote_loop rest 0 p c = (Some k, ch') -> (k < length rest)%nat.
Proof.
  revert p c k ch'. induction rest as [|x rest IH]; intros p c k ch' H; simpl in *.
  - discriminate.
  - destruct (no_esc x ch_quote p).
    + inversion H; subst. lia.
    + rewrite quote_loop_shift in H.
      destruct (quote_loop rest 0 x x) as [[k'|] c'] eqn:E; simpl in H; inversion H; subst.
      apply IH in E. lia.
Qed.

(* ---------------------------------------------------------------------------------- *)
(* refinement: index-based state vs stream configuration *)

Definition refines (chrs : str) (st : tk_state) (cf : scfg) : Prop :=
  (tk_start st <= tk_i st)%nat /\ (tk_i st <= length chrs)%nat /\
  s_rest cf = skipn (tk_i st) chrs /\
  s_w cf = firstn (tk_i st - tk_start st) (skipn (tk_start st) chrs) /\
  s_prev cf = tk_previous st /\ s_stk cf = tk_stk st /\ s_toks cf = tk_tokens st.

Lemma w_snoc (chrs : str) start i c :
  (start <= i)%nat -> nth_error chrs i = Some c ->
  firstn (i + 1 - start) (skipn start chrs) = firstn (i - start) (skipn start chrs) ++ [c].
Proof.
  intros Hle Hn. rewrite slice_extend by exact Hle.
  rewrite (nth_error_skipn_hd _ _ _ Hn). reflexivity.
Qed.

Lemma w_reset (chrs : str) i : firstn (i - i) (skipn i chrs) = [].
Proof. now rewrite Nat.sub_diag. Qed.

Local Opaque skipn firstn.
Lemma step_refines chrs st cf :
  refines chrs st cf -> (tk_i st < length chrs)%nat ->
  exists c rest', s_rest cf = c :: rest' /\
  match sstep c rest' (s_w cf) (s_prev cf) (s_stk cf) (s_toks cf) with
  | POk cf' => exists st', tk_step chrs st = Ok (POk st') /\ refines chrs st' cf' /\
                           (tk_i st < tk_i st')%nat
  | PErr => tk_step chrs st = Ok PErr
  end.
Proof.
  intros (Hsi & Hil & Hrest & Hw & Hp & Hs & Ht) Hlt.
  destruct st as [i start previous stk tokens]; simpl in *.
  destruct (nth_error chrs i) as [c|] eqn:Hn.
  2:{ apply nth_error_None in Hn. lia. }
  exists c, (skipn (S i) chrs). split.
  { rewrite Hrest. now apply nth_error_skipn_hd. }
  assert (Hsl : slice chrs start i = Ok (s_w cf)).
  { rewrite slice_ok by lia. now rewrite Hw. }
  assert (Hsnoc : firstn (i + 1 - start) (skipn start chrs) = s_w cf ++ [c]).
  { rewrite Hw. now apply w_snoc. }
  assert (Hlen1 : (i + 1 <= length chrs)%nat) by lia.
  unfold sstep, tk_step; simpl. rewrite Hn, Hp, Hs, Ht.
  replace (i + 1)%nat with (S i) in * by lia.
  (* a tactic for the ordinary "continue" exits *)
  Local Ltac fin Hsnoc :=
    eexists; split; [reflexivity|]; split;
    [ unfold refines; cbn [tk_i tk_start tk_previous tk_stk tk_tokens s_rest s_w s_prev s_stk s_toks];
      repeat split; try lia; try reflexivity;
      try (rewrite Nat.add_1_r; reflexivity);
      try (symmetry; exact Hsnoc);
      try (rewrite Nat.add_1_r; symmetry; exact Hsnoc);
      try (rewrite Nat.sub_diag; reflexivity)
    | simpl; lia ].
  destruct (no_esc c ch_quote previous).
  { (* quote *)
    rewrite (quote_loop_shift (skipn (S i) chrs) (S i)).
    destruct (quote_loop (skipn (S i) chrs) 0 ch_hash c) as [[k|] ch'] eqn:Eq; simpl.
    - pose proof (quote_loop_bound _ _ _ _ _ Eq) as Hk. rewrite skipn_length in Hk.
      eexists; split; [reflexivity|]; split; [|simpl; lia].
      unfold refines; cbn [tk_i tk_start tk_previous tk_stk tk_tokens s_rest s_w s_prev s_stk s_toks].
      repeat split; try lia.
      + rewrite skipn_skipn'. f_equal. lia.
      + replace (S (i + k + 1) - start)%nat with (i + (S (S k)) - start)%nat by lia.
        rewrite slice_extend by lia. rewrite <- Hw.
        rewrite (nth_error_skipn_hd _ _ _ Hn). reflexivity.
    - fin Hsnoc. }
  destruct (no_esc c ch_lparen previous).
  { destruct (letter_number_hyphen previous); fin Hsnoc. }
  destruct (no_esc c ch_rparen previous).
  { destruct (tt_eqb (peek stk) TTEmpty); [reflexivity|].
    destruct (pop stk) as [top stk'].
    destruct (tt_eqb top TTGroup).
    - rewrite Hsl; simpl. fin Hsnoc.
    - destruct (negb (tt_eqb top TTComplex)); [reflexivity|]. fin Hsnoc. }
  destruct (no_esc c ch_lbracket previous).
  { fin Hsnoc. }
  destruct (no_esc c ch_rbracket previous).
  { destruct (tt_eqb (peek stk) TTEmpty); [reflexivity|].
    destruct (pop stk) as [top stk'].
    destruct (negb (tt_eqb top TTLinkedList)); [reflexivity|]. fin Hsnoc. }
  destruct (negb (tt_eqb (peek stk) TTComplex) && negb (tt_eqb (peek stk) TTLinkedList)).
  2:{ fin Hsnoc. }
  destruct (invalid_between_terms c); [reflexivity|].
  destruct (no_esc c ch_comma previous).
  { rewrite Hsl; simpl. fin Hsnoc. }
  destruct (no_esc c ch_semicolon previous).
  { rewrite Hsl; simpl. fin Hsnoc. }
  fin Hsnoc.
Qed.

Local Transparent skipn firstn.
Lemma loop_refines fuel chrs : forall st cf,
  refines chrs st cf ->
  match sloop fuel cf with
  | Ok (POk cf') => exists st', tk_loop fuel chrs st = Ok (POk st') /\ refines chrs st' cf' /\
                                tk_i st' = length chrs
  | Ok PErr => tk_loop fuel chrs st = Ok PErr
  | Panic => False
  | OutOfFuel => tk_loop fuel chrs st = OutOfFuel
  end.
Proof.
  induction fuel as [|fuel IH]; intros st cf HR; simpl; [reflexivity|].
  destruct (tk_i st <? length chrs)%nat eqn:Hlt.
  - apply Nat.ltb_lt in Hlt.
    destruct (step_refines _ _ _ HR Hlt) as (c & rest' & Hrest & Hstep).
    unfold sstep_cfg. rewrite Hrest.
    destruct (sstep c rest' (s_w cf) (s_prev cf) (s_stk cf) (s_toks cf)) as [cf'|].
    + destruct Hstep as (st' & Hs & HR' & _). rewrite Hs; simpl. now apply IH.
    + rewrite Hstep; simpl. reflexivity.
  - apply Nat.ltb_ge in Hlt.
    destruct HR as (Hsi & Hil & Hrest & Hrem).
    unfold sstep_cfg. rewrite Hrest.
    assert (Hi : tk_i st = length chrs) by lia.
    rewrite Hi, skipn_all.
    exists st. split; [reflexivity|]. split; [|exact Hi].
    unfold refines. repeat split; try lia; try tauto.
Qed.

Theorem tokenize_stream fuel s : tokenize fuel s = stokenize fuel s.
Proof.
  unfold tokenize, stokenize.
  destruct (tk_trim s) as [|c0 chrs0] eqn:Et; [reflexivity|].
  change (length (c0 :: chrs0) =? 0)%nat with false. cbv iota.
  set (chrs := c0 :: chrs0).
  assert (HR : refines chrs (mkTk 0 0 ch_hash [] []) (mkS chrs [] ch_hash [] [])).
  { unfold refines; simpl. repeat split; lia. }
  pose proof (loop_refines fuel chrs _ _ HR) as H.
  destruct (sloop fuel (mkS chrs [] ch_hash [] [])) as [[cf'|]| |]; cbn [bind].
  - destruct H as (st' & Hl & (Hsi & Hil & Hrest & Hw & Hp & Hs & Ht) & Hi).
    rewrite Hl; cbn [bind]. rewrite <- Hs, <- Ht.
    destruct (s_stk cf') as [|x stk]; [|reflexivity].
    change (0 <? length (@nil token_type))%nat with false. cbv iota.
    rewrite Hi in *.
    assert (Hlt : (length chrs <? tk_start st')%nat = false) by (apply Nat.ltb_ge; lia).
    rewrite Hlt.
    rewrite slice_ok by lia. rewrite <- Hw.
    destruct (s_w cf') as [|x w] eqn:Ew.
    + assert (Hz : (length chrs - tk_start st' = 0)%nat).
      { destruct (length chrs - tk_start st')%nat eqn:E; [reflexivity|].
        exfalso. symmetry in Hw.
        assert (Hlen : length (firstn (S n) (skipn (tk_start st') chrs)) = 0%nat) by now rewrite Hw.
        rewrite firstn_length, skipn_length in Hlen. lia. }
      rewrite Hz. reflexivity.
    + assert (Hnz : (0 <? length chrs - tk_start st')%nat = true).
      { apply Nat.ltb_lt. destruct (length chrs - tk_start st')%nat eqn:E; [|lia].
        simpl in Hw. discriminate. }
      rewrite Hnz. reflexivity.
  - rewrite H. reflexivity.
  - contradiction.
  - rewrite H. reflexivity.
Qed.

(* ---------------------------------------------------------------------------------- *)
(* group_tokens_to as a function of the remaining tokens.  Returns the group and the
   remaining tokens FROM the index at which the group ended (so the first of them is its
   right parenthesis); the caller drops that one and one more (`index = end + 1; index += 1`). *)
Fixpoint gts (fuel : nat) (rest : list token) (acc : list token) : res (token * list token) :=
  match fuel with
  | O => OutOfFuel
  | S fuel' =>
      match rest with
      | [] => Ok (Branch TTGroup acc, [])
      | tok :: rest' =>
          if tt_eqb (get_type tok) TTLParen then
            do te <- gts fuel' rest' [];
            let '(t, rem) := te in
            gts fuel' (skipn 2 rem) (acc ++ [t])
          else if tt_eqb (get_type tok) TTRParen then Ok (Branch TTGroup acc, rest)
          else gts fuel' rest' (acc ++ [tok])
      end
  end.

Local Opaque skipn.
Lemma gt_loop_stream fuel tokens : forall index acc,
  match gts fuel (skipn index tokens) acc with
  | Ok (t, rem) => exists e, gt_loop fuel tokens index acc = Ok (t, e) /\ (index <= e)%nat /\
                             rem = skipn e tokens
  | Panic => False
  | OutOfFuel => gt_loop fuel tokens index acc = OutOfFuel
  end.
Proof.
  induction fuel as [|fuel IH]; intros index acc; simpl; [reflexivity|].
  destruct (index <? length tokens)%nat eqn:Hlt.
  - apply Nat.ltb_lt in Hlt.
    destruct (nth_error tokens index) as [tok|] eqn:Hn.
    2:{ apply nth_error_None in Hn. lia. }
    rewrite (nth_error_skipn_hd _ _ _ Hn).
    destruct (tt_eqb (get_type tok) TTLParen).
    + specialize (IH (index + 1)%nat) as IH1. specialize (IH1 []).
      replace (index + 1)%nat with (S index) in * by lia.
      destruct (gts fuel (skipn (S index) tokens) []) as [[t rem]| |]; cbn [bind].
      * destruct IH1 as (e & He & Hle & Hrem). rewrite He; cbn [bind].
        specialize (IH (e + 1 + 1)%nat (acc ++ [t])).
        subst rem. rewrite skipn_skipn'.
        replace (e + 2)%nat with (e + 1 + 1)%nat by lia.
        destruct (gts fuel (skipn (e + 1 + 1) tokens) (acc ++ [t])) as [[t' rem']| |].
        -- destruct IH as (e' & He' & Hle' & Hrem'). exists e'. repeat split; try assumption. lia.
        -- contradiction.
        -- assumption.
      * contradiction.
      * rewrite IH1. reflexivity.
    + destruct (tt_eqb (get_type tok) TTRParen).
      * exists index. repeat split; try lia. symmetry. now apply nth_error_skipn_hd.
      * specialize (IH (index + 1)%nat (acc ++ [tok])).
        replace (index + 1)%nat with (S index) in * by lia.
        destruct (gts fuel (skipn (S index) tokens) (acc ++ [tok])) as [[t' rem']| |].
        -- destruct IH as (e' & He' & Hle' & Hrem'). exists e'. repeat split; try assumption. lia.
        -- contradiction.
        -- assumption.
  - apply Nat.ltb_ge in Hlt. rewrite (skipn_all2 tokens Hlt).
    exists index. repeat split; try lia. symmetry. now apply skipn_all2.
Qed.

Local Transparent skipn.
Definition sgroup_tokens (fuel : nat) (tokens : list token) : res token :=
  do te <- gts fuel tokens []; Ok (fst te).

Theorem group_tokens_stream fuel tokens : group_tokens fuel tokens 0 = sgroup_tokens fuel tokens.
Proof.
  unfold group_tokens, group_tokens_to, sgroup_tokens.
  pose proof (gt_loop_stream fuel tokens 0 []) as H. change (skipn 0 tokens) with tokens in H.
  destruct (gts fuel tokens []) as [[t rem]| |]; cbn [bind].
  - destruct H as (e & He & _). rewrite He. reflexivity.
  - contradiction.
  - rewrite H. reflexivity.
Qed.
