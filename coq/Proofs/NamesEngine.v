(* C11, second half, for the ENGINE MODEL itself (Model/Solve.v): one request `next` on related
   solution nodes gives related nodes, related answers, the same cut signal and related worlds;
   hence any number of requests on a query gives the same answers up to the names of variables -
   also for queries with infinitely many answers, where the reference search of Spec/SpecCut.v
   (Proofs/NamesSearch.v) says nothing.  Same hypotheses as there: kb_renamed, okkb. *)
From Coq Require Import Lia.
From Suiron Require Import Model.Term Model.Subst Model.Show Model.Lists Model.Arith Model.Unify
  Model.Compare Model.Builtins Model.Rename Model.Solve Spec.SpecCut
  Proofs.RenameProofs Proofs.RenameNames Proofs.NamesRel Proofs.NamesUnify Proofs.NamesBuiltins
  Proofs.NamesSearch Proofs.SolveFrame.
Open Scope N_scope.

Inductive optrel {A B} (R : A -> B -> Prop) : option A -> option B -> Prop :=
| optrel_none : optrel R None None
| optrel_some a b : R a b -> optrel R (Some a) (Some b).

Inductive simn (V : vrel) : node -> node -> Prop :=
| simn_call t t' ss ss' nobt child child' idx n :
    sim V t t' -> term_key t = term_key t' -> sims V ss ss' -> optrel (simn V) child child' ->
    simn V (NCall t ss nobt child idx n) (NCall t' ss' nobt child' idx n)
| simn_op k ss ss' nobt more head head' tail tail' optail optail' :
    sims V ss ss' -> optrel (simn V) head head' -> optrel (simn V) tail tail' ->
    orel (Forall2 (simg V)) optail optail' ->
    simn V (NOp k ss nobt more head tail optail) (NOp k ss' nobt more head' tail' optail')
| simn_bip f ts ts' ss ss' nobt more :
    orel (Forall2 (sim V)) ts ts' -> sims V ss ss' ->
    simn V (NBip f ts ss nobt more) (NBip f ts' ss' nobt more).

Lemma osimgs_mono V V' o o' : vle V V' -> orel (Forall2 (simg V)) o o' -> orel (Forall2 (simg V')) o o'.
Proof.
  intros L. apply orel_mono. intros a b. apply Forall2_mono. apply simg_mono, L.
Qed.
Lemma osimts_mono V V' o o' : vle V V' -> orel (Forall2 (sim V)) o o' -> orel (Forall2 (sim V')) o o'.
Proof.
  intros L. apply orel_mono. intros a b. apply Forall2_mono. apply sim_mono, L.
Qed.
Lemma osims_mono V V' o o' : vle V V' -> orel (sims V) o o' -> orel (sims V') o o'.
Proof. intros L. apply orel_mono. intros a b. apply sims_mono, L. Qed.

Lemma simn_mono V V' : vle V V' -> forall nd nd', simn V nd nd' -> simn V' nd nd'.
Proof.
  intro L. fix IH 3. intros nd nd' H. destruct H as [t t' ss ss' nobt child child' idx n Ht Hk Hs Hc
    |k ss ss' nobt more head head' tail tail' optail optail' Hs Hh Htl Ho|f ts ts' ss ss' nobt more Ht Hs].
  - constructor; [eapply sim_mono; eauto|exact Hk|eapply sims_mono; eauto|].
    destruct Hc as [|a b Hab]; constructor. apply IH, Hab.
  - constructor; [eapply sims_mono; eauto| | |eapply osimgs_mono; eauto].
    + destruct Hh as [|a b Hab]; constructor. apply IH, Hab.
    + destruct Htl as [|a b Hab]; constructor. apply IH, Hab.
  - constructor; [eapply osimts_mono; eauto|eapply sims_mono; eauto].
Qed.

Lemma osimn_mono V V' o o' : vle V V' -> optrel (simn V) o o' -> optrel (simn V') o o'.
Proof. intros L H. destruct H; constructor. eapply simn_mono; eauto. Qed.

Lemma simn_nobt V nd nd' : simn V nd nd' -> node_nobt nd = node_nobt nd'.
Proof. destruct 1; reflexivity. Qed.
Lemma simn_set_nobt V nd nd' : simn V nd nd' -> simn V (set_nobt nd) (set_nobt nd').
Proof. destruct 1; cbn; constructor; assumption. Qed.
Lemma osimn_set_nobt V o o' : optrel (simn V) o o' -> optrel (simn V) (set_nobt_opt o) (set_nobt_opt o').
Proof. destruct 1; cbn; constructor. apply simn_set_nobt; assumption. Qed.
Lemma simn_if_nobt V (c : bool) nd nd' : simn V nd nd' ->
  simn V (if c then set_nobt nd else nd) (if c then set_nobt nd' else nd').
Proof. destruct c; [apply simn_set_nobt|auto]. Qed.
Lemma osimn_if_nobt V (c : bool) o o' : optrel (simn V) o o' ->
  optrel (simn V) (if c then set_nobt_opt o else o) (if c then set_nobt_opt o' else o').
Proof. destruct c; [apply osimn_set_nobt|auto]. Qed.

(* ---- results of one request ---- *)
Definition step_rel (V : vrel) (n : N) (x x' : step_result) : Prop :=
  match x, x' with
  | (nd, sol, c, w), (nd', sol', c', w') =>
      exists V', vle V V' /\ vfun V' /\ vbound V' (next_id w) /\ simn V' nd nd' /\
                 orel (sims V') sol sol' /\ c = c' /\ wsim w w' /\ n <= next_id w
  end.

Lemma step_ret V n nd nd' sol sol' c w w' :
  vfun V -> vbound V (next_id w) -> simn V nd nd' -> orel (sims V) sol sol' -> wsim w w' ->
  n <= next_id w -> rrel (step_rel V n) (Ok (nd, sol, c, w)) (Ok (nd', sol', c, w')).
Proof.
  intros H1 H2 H3 H4 H5 H6. cbn. exists V. split; [apply vle_refl|]. split; [exact H1|]. split; [exact H2|].
  split; [exact H3|]. split; [exact H4|]. split; [reflexivity|]. split; [exact H5|exact H6].
Qed.

Lemma step_weaken V0 V n0 n r r' : vle V0 V -> n0 <= n ->
  rrel (step_rel V n) r r' -> rrel (step_rel V0 n0) r r'.
Proof.
  intros L Hn. apply rrel_mono. intros [[[nd sol] c] w] [[[nd' sol'] c'] w'] (V' & H1 & H2 & H3 & H4 & H5 & H6 & H7 & H8).
  exists V'. split; [eapply vle_trans; eauto|]. repeat (split; [assumption|]). lia.
Qed.

Lemma step_bind V n r r' (f f' : step_result -> res step_result) :
  rrel (step_rel V n) r r' ->
  (forall V1 nd nd' sol sol' c w w', vle V V1 -> vfun V1 -> vbound V1 (next_id w) -> simn V1 nd nd' ->
     orel (sims V1) sol sol' -> wsim w w' -> n <= next_id w ->
     rrel (step_rel V1 (next_id w)) (f (nd, sol, c, w)) (f' (nd', sol', c, w'))) ->
  rrel (step_rel V n) (bind r f) (bind r' f').
Proof.
  intros Hr Hf. eapply rrel_bind; [exact Hr|].
  intros [[[nd sol] c] w] [[[nd' sol'] c'] w'] (V1 & H1 & H2 & H3 & H4 & H5 & H6 & H7 & H8). subst c'.
  eapply step_weaken; [exact H1|exact H8|]. apply Hf; assumption.
Qed.

Section Engine.
  Variable kb kb' : kbase.
  Variable bf : nat.
  Hypothesis Hkb : kb_renamed kb kb'.
  Hypothesis Hok : okkb kb = true.

  Definition mk_rel (V : vrel) (w : world) (x x' : node * world) : Prop :=
    simn V (fst x) (fst x') /\ wsim (snd x) (snd x') /\ next_id (snd x) = next_id w.

  Lemma make_node_sim V : forall g g', simg V g g' -> forall ss ss' w w', sims V ss ss' -> wsim w w' ->
    rrel (mk_rel V w) (make_node kb g ss w) (make_node kb' g' ss' w').
  Proof.
    intros g g' H. induction H as [k gs gs' HF IH|f ts ts' Ht|t t' Ht Hk|] using simg_ind2;
      intros ss ss' w w' Hs Hw.
    - cbn [make_node].
      assert (forall tlo tlo', orel (Forall2 (simg V)) tlo tlo' ->
        match gs, gs' with
        | h :: _, h' :: _ =>
            rrel (mk_rel V w)
              (do r <- make_node kb h ss w; let '(hn, w'0) := r in Ok (NOp k ss false true (Some hn) None tlo, w'0))
              (do r <- make_node kb' h' ss' w'; let '(hn, w'0) := r in Ok (NOp k ss' false true (Some hn) None tlo', w'0))
        | [], [] => True
        | _, _ => False
        end) as Hstep.
      { intros tlo tlo' Ho. destruct IH as [|h h' tl tl' Hh _]; [exact I|].
        eapply rrel_bind; [apply Hh; assumption|].
        intros [hn w1] [hn' w1'] (R1 & R2 & R3). cbn [fst snd] in *. cbn.
        split; [|split; assumption]. constructor; try assumption; constructor. exact R1. }
      destruct k.
      + destruct HF as [|h h' tl tl' Hh Htl]; [exact I|]. apply (Hstep (Some tl) (Some tl')). exact Htl.
      + destruct HF as [|h h' tl tl' Hh Htl]; [exact I|]. apply (Hstep (Some tl) (Some tl')). exact Htl.
      + destruct HF as [|h h' tl tl' Hh Htl]; [exact I|]. apply (Hstep None None). exact I.
      + destruct HF as [|h h' tl tl' Hh Htl]; [exact I|]. apply (Hstep None None). exact I.
    - cbn. split; [|split; [exact Hw|reflexivity]]. constructor; assumption.
    - cbn [make_node]. rewrite <- Hk. destruct (term_key t) as [key| |] eqn:Ek; cbn [bind]; try exact I.
      pose proof (count_rules_sim kb kb' key w w' Hkb Hw) as (C1 & C2 & C3).
      destruct (count_rules kb key w) as [n w0], (count_rules kb' key w') as [n' w0'].
      cbn [fst snd] in *. subst n'. cbn. split; [|split; assumption].
      constructor; try assumption; [congruence|constructor].
    - exact I.
  Qed.

  Definition nx_ok (nx nx' : node -> world -> res step_result) : Prop :=
    forall V nd nd' w w', vfun V -> vbound V (next_id w) -> simn V nd nd' -> wsim w w' ->
      rrel (step_rel V (next_id w)) (nx nd w) (nx' nd' w').

  Definition al_ok (al al' : subst -> bool -> bool -> option node -> option node ->
                              option (list goal) -> bool -> world -> res step_result) : Prop :=
    forall V ss ss' nobt more head head' tail tail' optail optail' acc w w',
      vfun V -> vbound V (next_id w) -> sims V ss ss' -> optrel (simn V) head head' ->
      optrel (simn V) tail tail' -> orel (Forall2 (simg V)) optail optail' -> wsim w w' ->
      rrel (step_rel V (next_id w)) (al ss nobt more head tail optail acc w)
                                    (al' ss' nobt more head' tail' optail' acc w').

  Definition cl_ok (cl cl' : term -> subst -> bool -> option node -> N -> N -> world -> res step_result) : Prop :=
    forall V t t' ss ss' nobt child child' idx n w w',
      vfun V -> vbound V (next_id w) -> sim V t t' -> term_key t = term_key t' -> sims V ss ss' ->
      optrel (simn V) child child' -> wsim w w' ->
      rrel (step_rel V (next_id w)) (cl t ss nobt child idx n w) (cl' t' ss' nobt child' idx n w').

  (* everything known over V holds over a larger V1 *)
  Ltac lift V V1 L :=
    repeat match goal with
    | H : sims V _ _ |- _ => apply (sims_mono V V1 _ _ L) in H
    | H : sim V _ _ |- _ => apply (sim_mono V V1 L) in H
    | H : simn V _ _ |- _ => apply (simn_mono V V1 L) in H
    | H : optrel (simn V) _ _ |- _ => apply (osimn_mono V V1 _ _ L) in H
    | H : orel (Forall2 (simg V)) _ _ |- _ => apply (osimgs_mono V V1 _ _ L) in H
    | H : orel (Forall2 (sim V)) _ _ |- _ => apply (osimts_mono V V1 _ _ L) in H
    | H : orel (sims V) _ _ |- _ => apply (osims_mono V V1 _ _ L) in H
    | H : simg V _ _ |- _ => apply (simg_mono V V1 L) in H
    | H : Forall2 (simg V) _ _ |- _ => apply (Forall2_mono _ _ _ _ (simg_mono V V1 L)) in H
    end.

  Ltac solve_simn :=
    repeat first [ assumption | exact I | lia | (progress cbn [next_id w_print w_set_id]; lia) | apply simn_if_nobt | apply osimn_if_nobt
                 | apply wsim_print | apply wsim_set_id | constructor ].
  Ltac ret := apply step_ret; solve_simn.

  Lemma next_body_ok nx nx' al al' cl cl' : nx_ok nx nx' -> al_ok al al' -> cl_ok cl cl' ->
    nx_ok (next_body kb bf nx al cl) (next_body kb' bf nx' al' cl').
  Proof.
    intros Hnx Hal Hcl V nd nd' w w' Hf Hb Hn Hw. unfold next_body.
    rewrite <- (simn_nobt _ _ _ Hn). destruct (node_nobt nd); [ret|].
    destruct Hn as [t t' ss ss' nobt child child' idx n Ht Hk Hs Hc
      |k ss ss' nobt more head head' tail tail' optail optail' Hs Hh Htl Ho|f ts ts' ss ss' nobt more Ht Hs].
    - (* call *)
      destruct Hc as [|c0 c0' Hc0]; [apply Hcl; try assumption; constructor|].
      eapply step_bind; [apply Hnx; assumption|].
      intros V1 c1 c1' sol sol' c w1 w1' L F1 B1 N1 S1 W1 Le. cbv beta iota. lift V V1 L.
      destruct sol as [s|], sol' as [s'|]; cbn in S1; try contradiction.
      + ret.
      + apply Hcl; try assumption. constructor.
    - destruct k.
      + (* and *)
        destruct Htl as [|t t' Ht].
        * apply Hal; try assumption. constructor.
        * eapply step_bind; [apply Hnx; assumption|].
          intros V1 t1 t1' sol sol' c w1 w1' L F1 B1 N1 S1 W1 Le. cbv beta iota. lift V V1 L.
          destruct sol as [s|], sol' as [s'|]; cbn in S1; try contradiction.
          -- ret.
          -- apply Hal; try assumption; [apply osimn_if_nobt; assumption|constructor; assumption].
      + (* or *)
        destruct Htl as [|t t' Ht].
        * destruct Hh as [|h h' Hh]; [ret|].
          eapply step_bind; [apply Hnx; assumption|].
          intros V1 h1 h1' sol sol' c w1 w1' L F1 B1 N1 S1 W1 Le. cbv beta iota. lift V V1 L.
          pose proof (simn_if_nobt V1 c _ _ N1) as N1'.
          destruct sol as [s|], sol' as [s'|]; cbn in S1; try contradiction.
          -- ret.
          -- destruct optail as [tl|], optail' as [tl'|]; cbn in Ho; try contradiction; [|ret].
             rewrite <- (Forall2_length' _ _ _ Ho). destruct (length tl =? 0)%nat; [ret|].
             destruct (nobt || c); [ret|].
             eapply rrel_bind; [apply (make_node_sim V1 (GOp OOr tl) (GOp OOr tl')); [constructor|..]; eassumption|].
             intros [t w2] [t' w2'] (M1 & M2 & M3). cbn [fst snd] in *.
             eapply step_weaken; [apply vle_refl| |].
             2:{ eapply step_bind; [apply Hnx; try eassumption; rewrite M3; assumption|].
                 intros V2 t2 t2' sol2 sol2' c2 w3 w3' L2 F2 B2 N2 S2 W2 Le2. cbv beta iota. lift V1 V2 L2.
                 ret. }
             lia.
        * eapply step_bind; [apply Hnx; assumption|].
          intros V1 t1 t1' sol sol' c w1 w1' L F1 B1 N1 S1 W1 Le. cbv beta iota. lift V V1 L.
          ret.
      + (* time *)
        destruct more; cbn [negb]; [|ret].
        destruct Hh as [|h h' Hh]; [exact I|].
        eapply step_bind; [apply Hnx; assumption|].
        intros V1 h1 h1' sol sol' c w1 w1' L F1 B1 N1 S1 W1 Le. cbv beta iota. lift V V1 L.
        ret.
      + (* not *)
        destruct more; cbn [negb]; [|ret].
        destruct Hh as [|h h' Hh]; [exact I|].
        eapply step_bind; [apply Hnx; assumption|].
        intros V1 h1 h1' sol sol' c w1 w1' L F1 B1 N1 S1 W1 Le. cbv beta iota. lift V V1 L.
        destruct sol, sol'; cbn in S1; try contradiction; ret.
    - (* built-in predicate *)
      destruct more; cbn [negb]; [|ret].
      eapply rrel_bind; [apply (run_bip_sim V Hf); eassumption|].
      intros r r' [Hsol Hcut]. rewrite <- Hcut. ret.
  Qed.

  Lemma and_body_ok nx nx' al al' : nx_ok nx nx' -> al_ok al al' ->
    al_ok (and_body kb nx al) (and_body kb' nx' al').
  Proof.
    intros Hnx Hal V ss ss' nobt more head head' tail tail' optail optail' acc w w' Hf Hb Hs Hh Htl Ho Hw.
    unfold and_body. destruct Hh as [|h h' Hh]; [ret|].
    eapply step_bind; [apply Hnx; assumption|].
    intros V1 h1 h1' sol sol' c w1 w1' L F1 B1 N1 S1 W1 Le. cbv beta iota. lift V V1 L.
    pose proof (simn_if_nobt V1 c _ _ N1) as N1'.
    destruct sol as [s|], sol' as [s'|]; cbn in S1; try contradiction; [|ret].
    destruct optail as [tl|], optail' as [tl'|]; cbn in Ho; try contradiction; [|ret].
    rewrite <- (Forall2_length' _ _ _ Ho). destruct (length tl =? 0)%nat; [ret|].
    eapply rrel_bind; [apply (make_node_sim V1 (GOp OAnd tl) (GOp OAnd tl')); [constructor|..]; eassumption|].
    intros [t w2] [t' w2'] (M1 & M2 & M3). cbn [fst snd] in *.
    eapply step_weaken; [apply vle_refl| |].
    2:{ eapply step_bind; [apply Hnx; try eassumption; rewrite M3; assumption|].
        intros V2 t2 t2' sol2 sol2' c2 w3 w3' L2 F2 B2 N2 S2 W2 Le2. cbv beta iota. lift V1 V2 L2.
        pose proof (simn_if_nobt V2 c2 _ _ N1') as N2'.
        destruct sol2 as [s2|], sol2' as [s2'|]; cbn in S2; try contradiction.
        - ret.
        - apply Hal; try assumption; constructor; assumption. }
    lia.
  Qed.

  Lemma call_body_ok nx nx' cl cl' : nx_ok nx nx' -> cl_ok cl cl' ->
    cl_ok (call_body kb bf nx cl) (call_body kb' bf nx' cl').
  Proof.
    intros Hnx Hcl V t t' ss ss' nobt child child' idx n w w' Hf Hb Ht Hk Hs Hc Hw. unfold call_body.
    destruct nobt; [ret|]. destruct (n <=? idx); [ret|].
    rewrite <- Hk. destruct (term_key t) as [key| |] eqn:Ek; cbn [bind]; try exact I.
    assert (term_key t = term_key t') as Hk2 by congruence.
    pose proof Hw as (W1 & W2 & W3). rewrite <- W1.
    pose proof (get_rule_renamed kb kb' key idx (next_id w) Hkb) as HG.
    destruct (get_rule kb key idx (next_id w)) as [[r ctr]| |] eqn:E1,
             (get_rule kb' key idx (next_id w)) as [[r' ctr']| |]; try contradiction; try exact I.
    destruct HG as [<- HR]. cbn [bind].
    destruct (fetch_sim V kb key idx _ r ctr r' Hok Hf Hb E1 HR) as (V1 & L1 & F1 & B1 & Le & Hh & Hbd).
    eapply rrel_bind;
      [apply (unify_sim V1 F1); [exact Hh|eapply sim_mono; eauto|eapply sims_mono; eauto]|].
    intros u u' Hu. destruct u as [s1|], u' as [s1'|]; cbn in Hu; try contradiction.
    - eapply step_weaken; [exact L1|exact Le|]. lift V V1 L1.
      rewrite <- (simg_is_gnil _ _ _ Hbd). destruct (is_gnil (r_body r)).
      + apply step_ret; try assumption; [constructor; assumption|apply wsim_set_id, Hw|cbn; lia].
      + eapply rrel_bind;
          [apply (make_node_sim V1 _ _ Hbd s1 s1' (w_set_id w ctr) (w_set_id w' ctr) Hu); apply wsim_set_id, Hw|].
        intros [c0 w2] [c0' w2'] (M1 & M2 & M3). cbn [fst snd] in *. cbn [next_id w_set_id] in M3.
        eapply step_weaken; [apply vle_refl| |].
        2:{ eapply step_bind; [apply Hnx; try eassumption; rewrite M3; assumption|].
            intros V2 c1 c1' sol sol' c w3 w3' L2 F2 B2 N2 S2 W2' Le2. cbv beta iota. lift V1 V2 L2.
            destruct sol as [s2|], sol' as [s2'|]; cbn in S2; try contradiction.
            - ret.
            - apply Hcl; try assumption. constructor; assumption. }
        cbn. lia.
    - apply (Hcl V t t' ss ss' false child child' (idx + 1) n
               (w_set_id (w_set_id w ctr) (next_id w)) (w_set_id (w_set_id w' ctr) (next_id w)));
        try assumption. apply wsim_set_id, wsim_set_id, Hw.
  Qed.

  Theorem next_sim : forall f,
    nx_ok (next kb bf f) (next kb' bf f) /\ al_ok (and_loop kb bf f) (and_loop kb' bf f) /\
    cl_ok (call_loop kb bf f) (call_loop kb' bf f).
  Proof.
    induction f as [|f (IHn & IHa & IHc)].
    - split; [|split]; repeat intro; exact I.
    - split; [|split].
      + intros V nd nd' w w'. rewrite !next_S. apply next_body_ok; assumption.
      + intros V ss ss' nobt more head head' tail tail' optail optail' acc w w'. rewrite !and_loop_S.
        apply and_body_ok; assumption.
      + intros V t t' ss ss' nobt child child' idx n w w'. rewrite !call_loop_S.
        apply call_body_ok; assumption.
  Qed.
End Engine.

(* ---- any number of requests on a query ---- *)
Definition obs_rel (o o' : qobs) : Prop :=
  match o, o' with
  | OAns s, OAns s' => orel names_ignored s s'
  | _, _ => False
  end.

Section Requests.
  Variable kb kb' : kbase.
  Hypothesis Hkb : kb_renamed kb kb'.
  Hypothesis Hok : okkb kb = true.

  Definition ops_rel (x x' : list qobs * node * world) : Prop :=
    Forall2 obs_rel (fst (fst x)) (fst (fst x')) /\ wsim (snd x) (snd x').

  Lemma run_asks_sim fuel : forall n V nd nd' w w',
    vfun V -> vbound V (next_id w) -> simn V nd nd' -> wsim w w' ->
    rrel ops_rel (run_ops kb fuel (repeat QAsk n) nd w) (run_ops kb' fuel (repeat QAsk n) nd' w').
  Proof.
    induction n as [|n IH]; intros V nd nd' w w' Hf Hb Hn Hw; cbn [repeat run_ops].
    - cbn. split; [constructor|exact Hw].
    - unfold run_op.
      pose proof (proj1 (next_sim kb kb' fuel Hkb Hok fuel) V nd nd' w w' Hf Hb Hn Hw) as H.
      destruct (next kb fuel fuel nd w) as [[[[nd1 sol] c] w1]| |],
               (next kb' fuel fuel nd' w') as [[[[nd1' sol'] c'] w1']| |]; cbn in H; try contradiction; try exact I.
      destruct H as (V1 & L1 & F1 & B1 & N1 & S1 & C1 & W1 & Le). cbn [bind].
      specialize (IH V1 nd1 nd1' w1 w1' F1 B1 N1 W1).
      destruct (run_ops kb fuel (repeat QAsk n) nd1 w1) as [[[os nd2] w2]| |],
               (run_ops kb' fuel (repeat QAsk n) nd1' w1') as [[[os' nd2'] w2']| |]; cbn in IH; try contradiction; try exact I.
      destruct IH as [R1 R2]. cbn [fst snd] in *. cbn. split; [|exact R2].
      constructor; [|exact R1]. cbn.
      destruct sol, sol'; cbn in S1; try contradiction; cbn; auto.
      eapply sims_mono; [apply vle_top|exact S1].
  Qed.

  (* the whole path of the API: make_query, the query's node, n requests *)
  Theorem run_query_asks fuel terms n w : forallb okt terms = true ->
    rrel (fun x x' => Forall2 obs_rel (fst x) (fst x'))
         (run_query kb fuel terms (repeat QAsk n) w) (run_query kb' fuel terms (repeat QAsk n) w).
  Proof.
    intro Ht. unfold run_query, api_make_query.
    destruct (make_query terms) as [[g ctr]| |] eqn:Hm; cbn [bind]; try exact I.
    destruct (make_query_spec _ _ _ Hm) as (ts' & -> & He & Hc & Hfr).
    set (q := TComplex ts') in *.
    set (w1 := mkWorld ctr false (stop_after w) (out w)).
    set (V0 := fun id a b => In (id, a) (tvars q) /\ b = a).
    assert (vfun V0) as Hf.
    { intros id a b a' b' [H1 E1] [H2 E2].
      assert (a = a') as -> by (apply (Hc _ _ _ _ H1 H2); reflexivity). subst. auto. }
    assert (vbound V0 (next_id w1)) as Hb.
    { intros id a b [H _]. cbn. specialize (Hfr _ _ H). lia. }
    assert (okt q = true) as Hq.
    { cbn [q okt]. rewrite <- (forallb_map_ext erase okt ts'), He, (forallb_map_ext erase okt terms); [exact Ht| |];
        apply Forall_forall; intros x _; apply okt_erase. }
    assert (sim V0 q q) as Hs by (apply sim_refl; [exact Hq|intros id a Hin; split; auto]).
    unfold make_base_node.
    destruct (term_key q) as [key| |] eqn:Ek; cbn [bind]; try exact I.
    pose proof (count_rules_sim kb kb' key w1 w1 Hkb (wsim_refl w1)) as (C1 & C2 & C3).
    destruct (count_rules kb key w1) as [n0 w2], (count_rules kb' key w1) as [n0' w2'].
    cbn [fst snd] in *. subst n0'. cbn [bind].
    assert (simn V0 (NCall q [] false None 0 n0) (NCall q [] false None 0 n0)) as Hn.
    { constructor; [exact Hs|reflexivity|apply sims_nil|constructor]. }
    rewrite <- C3 in Hb.
    pose proof (run_asks_sim fuel n V0 _ _ w2 w2' Hf Hb Hn C2) as H.
    destruct (run_ops kb fuel (repeat QAsk n) (NCall q [] false None 0 n0) w2) as [[[os nd2] w3]| |],
             (run_ops kb' fuel (repeat QAsk n) (NCall q [] false None 0 n0) w2') as [[[os' nd2'] w3']| |];
      cbn in H; try contradiction; try exact I.
    cbn. apply H.
  Qed.
End Requests.
