From Coq Require Import Lia.
From Suiron Require Import Model.Term Model.Subst Model.Compare Spec.SpecCompare.
From Flocq Require Import IEEE754.BinarySingleNaN IEEE754.Binary.
Open Scope Z_scope.

Definition op_of (op : Compare.cmpop) : SpecCompare.cmpop :=
  match op with CEq => SEq | CLt => SLt | CLe => SLe | CGt => SGt | CGe => SGe end.

(* ---- chains ---- *)
Lemma chain_fun ss t r1 r2 : chain ss t r1 -> chain ss t r2 -> r1 = r2.
Proof.
  intros H1; revert r2; induction H1 as [t Hv|id n Hg|id n t r Hg H IH]; intros r2 H2.
  - inversion H2; subst; try reflexivity; discriminate.
  - inversion H2; subst; try reflexivity; try discriminate. congruence.
  - inversion H2; subst; try discriminate; try congruence.
    match goal with H : ss_get ss id = Some ?x |- _ => rewrite Hg in H; inversion H; subst end.
    now apply IH.
Qed.

Lemma ggt_chain fuel : forall t ss r, get_ground_term fuel t ss = Ok r -> chain ss t r.
Proof.
  induction fuel as [|fuel IH]; intros t ss r H.
  - destruct t; simpl in H; try (inversion H; subst; now constructor).
    destruct (ss_get ss id) eqn:E; [discriminate|]. inversion H; subst. now constructor.
  - destruct t; simpl in H; try (inversion H; subst; now constructor).
    destruct (ss_get ss id) eqn:E.
    + eapply chain_step; eauto.
    + inversion H; subst. now constructor.
Qed.

Lemma chain_ggt ss t r : chain ss t r -> exists fuel0, forall fuel, (fuel0 <= fuel)%nat ->
  get_ground_term fuel t ss = Ok r.
Proof.
  induction 1 as [t Hv|id n Hg|id n t r Hg H [f0 IH]].
  - exists O. intros fuel _. destruct t; try discriminate; destruct fuel; reflexivity.
  - exists O. intros fuel _. destruct fuel; simpl; now rewrite Hg.
  - exists (S f0). intros fuel Hf. destruct fuel as [|fuel]; [lia|].
    simpl. rewrite Hg. apply IH. lia.
Qed.

(* ---- strings ---- *)
Lemma str_cmp_eq a b : str_cmp a b = Eq <-> a = b.
Proof.
  revert b; induction a as [|x a IH]; intros [|y b]; simpl; split; intro H;
    try reflexivity; try discriminate.
  - destruct (N.compare_spec x y); try discriminate. subst. f_equal. now apply IH.
  - inversion H; subst. rewrite N.compare_refl. now apply IH.
Qed.

Lemma str_cmp_lt a b : str_cmp a b = Lt <-> lex_lt a b.
Proof.
  revert b; induction a as [|x a IH]; intros [|y b]; simpl; split; intro H;
    try discriminate; try (now constructor); try (now inversion H).
  - destruct (N.compare_spec x y).
    + subst. apply lex_tail. now apply IH.
    + now apply lex_head.
    + discriminate.
  - inversion H; subst.
    + apply N.compare_lt_iff in H1. now rewrite H1.
    + rewrite N.compare_refl. now apply IH.
Qed.

Lemma str_cmp_antisym a b : str_cmp b a = CompOpp (str_cmp a b).
Proof.
  revert b; induction a as [|x a IH]; intros [|y b]; simpl; try reflexivity.
  rewrite (N.compare_antisym x y). destruct (N.compare x y); simpl; auto.
Qed.

Lemma str_cmp_gt a b : str_cmp a b = Gt <-> lex_lt b a.
Proof.
  rewrite <- str_cmp_lt, (str_cmp_antisym a b). destruct (str_cmp a b); simpl; split; congruence.
Qed.

Lemma cmp_holds_str op a b : cmp_holds op (str_cmp a b) = true <-> holds_str (op_of op) a b.
Proof.
  pose proof (str_cmp_eq a b) as He. pose proof (str_cmp_lt a b) as Hl.
  pose proof (str_cmp_gt a b) as Hg.
  destruct op; simpl; destruct (str_cmp a b) eqn:E; simpl; split; intro H;
    try discriminate; try reflexivity; intuition (try discriminate; try congruence).
Qed.

Lemma cmp_holds_Z op a b : cmp_holds op (Z.compare a b) = true <-> holds_Z (op_of op) a b.
Proof.
  destruct op; simpl; destruct (Z.compare_spec a b) as [Hc|Hc|Hc]; simpl; split; intro H;
    try discriminate; try reflexivity; try lia.
Qed.

Lemma fcmp_holds_f64 op a b : fcmp_holds op a b = true <-> holds_f64 (op_of op) a b.
Proof.
  destruct op; simpl; unfold feqb, fltb, fleb, fgtb, fgeb, fcmp;
    destruct (Bcompare 53 1024 a b) as [[| |]|]; split; intro H;
    try discriminate; try reflexivity; intuition (try discriminate; try congruence).
Qed.

Lemma compare_constants_ordered op l r :
  compare_constants op l r = true <-> (is_constant l = true /\ is_constant r = true /\ ordered (op_of op) l r).
Proof.
  split.
  - intro H. destruct l, r; simpl in H; try discriminate; repeat split; try reflexivity.
    + constructor. now apply cmp_holds_str.
    + constructor. now apply fcmp_holds_f64.
    + constructor. now apply fcmp_holds_f64.
    + constructor. now apply fcmp_holds_f64.
    + constructor. now apply cmp_holds_Z.
  - intros (_ & _ & H). inversion H; subst; simpl.
    + now apply cmp_holds_str.
    + now apply cmp_holds_Z.
    + now apply fcmp_holds_f64.
    + now apply fcmp_holds_f64.
    + now apply fcmp_holds_f64.
Qed.

Lemma ordered_constants op l r : ordered op l r -> is_constant l = true /\ is_constant r = true.
Proof. inversion 1; subst; split; reflexivity. Qed.

(* get_constant = chain ending in a constant *)
Lemma get_constant_chain fuel t ss c :
  get_constant fuel t ss = Ok (Some c) -> chain ss t (Some c) /\ is_constant c = true.
Proof.
  destruct t; simpl; intro H; try discriminate;
    try (inversion H; subst; split; [now constructor|reflexivity]).
  destruct (get_ground_term fuel (TVar id name) ss) as [[g|]| |] eqn:E; simpl in H; try discriminate.
  destruct (is_constant g) eqn:Ec; inversion H; subst. split; [|assumption].
  now apply ggt_chain in E.
Qed.

Lemma get_constant_none fuel t ss :
  get_constant fuel t ss = Ok None -> forall c, chain ss t (Some c) -> is_constant c = false.
Proof.
  destruct t; simpl; intros H c Hc; try discriminate;
    try (inversion Hc; subst; try discriminate; reflexivity).
  destruct (get_ground_term fuel (TVar id name) ss) as [[g|]| |] eqn:E; simpl in H; try discriminate.
  - apply ggt_chain in E. pose proof (chain_fun _ _ _ _ E Hc) as Heq. inversion Heq; subst.
    destruct (is_constant c); [discriminate|reflexivity].
  - apply ggt_chain in E. pose proof (chain_fun _ _ _ _ E Hc). discriminate.
Qed.

(* ---- C14, functional statement ---- *)
Lemma bip_compare_spec fuel op a b ss r :
  bip_compare fuel op (Some [a; b]) ss = Ok r ->
  (r = Some ss /\ compare_holds (op_of op) a b ss) \/
  (r = None /\ ~ compare_holds (op_of op) a b ss).
Proof.
  unfold bip_compare, get_two_constants. intro H.
  destruct (get_constant fuel a ss) as [[ca|]| |] eqn:Ea; simpl in H; try discriminate.
  - destruct (get_constant fuel b ss) as [[cb|]| |] eqn:Eb; simpl in H; try discriminate.
    + apply get_constant_chain in Ea as [Ha Hca]. apply get_constant_chain in Eb as [Hb Hcb].
      destruct (compare_constants op ca cb) eqn:Ec; inversion H; subst.
      * left. split; [reflexivity|]. exists ca, cb. repeat split; try assumption.
        now apply compare_constants_ordered in Ec.
      * right. split; [reflexivity|]. intros (cl & cr & Hl & Hr & Ho).
        pose proof (chain_fun _ _ _ _ Ha Hl) as E1; inversion E1; subst.
        pose proof (chain_fun _ _ _ _ Hb Hr) as E2; inversion E2; subst.
        assert (compare_constants op cl cr = true) as Hc
            by (apply compare_constants_ordered; auto).
        congruence.
    + inversion H; subst. right. split; [reflexivity|]. intros (cl & cr & Hl & Hr & Ho).
      apply ordered_constants in Ho as [_ Hc].
      pose proof (get_constant_none _ _ _ Eb _ Hr). congruence.
  - inversion H; subst. right. split; [reflexivity|]. intros (cl & cr & Hl & Hr & Ho).
    apply ordered_constants in Ho as [Hc _].
    pose proof (get_constant_none _ _ _ Ea _ Hl). congruence.
Qed.

Lemma ggt_no_panic ss : forall f t, get_ground_term f t ss <> Panic.
Proof.
  induction f as [|f IHf]; intros t0; destruct t0; simpl; try discriminate;
    destruct (ss_get ss id); try discriminate. apply IHf.
Qed.

Lemma get_constant_no_panic fuel ss t : get_constant fuel t ss <> Panic.
Proof.
  destruct t; simpl; try discriminate.
  destruct (get_ground_term fuel (TVar id name) ss) eqn:E; simpl; try discriminate.
  now apply ggt_no_panic in E.
Qed.

(* With two operands the predicate never panics, and it finishes whenever following the
   bindings of both operands ends. *)
Lemma bip_compare_no_panic fuel op a b ss : bip_compare fuel op (Some [a; b]) ss <> Panic.
Proof.
  unfold bip_compare, get_two_constants.
  destruct (get_constant fuel a ss) as [[ca|]| |] eqn:Ea; simpl; try discriminate.
  - destruct (get_constant fuel b ss) as [[cb|]| |] eqn:Eb; simpl; try discriminate.
    now apply get_constant_no_panic in Eb.
  - now apply get_constant_no_panic in Ea.
Qed.

Lemma get_constant_terminates ss t r : chain ss t r -> exists fuel0, forall fuel,
  (fuel0 <= fuel)%nat -> exists c, get_constant fuel t ss = Ok c.
Proof.
  intro H. destruct (chain_ggt _ _ _ H) as [f0 Hf]. exists f0. intros fuel Hle.
  destruct t; simpl; eauto. rewrite (Hf fuel Hle). simpl. eauto.
Qed.

Lemma bip_compare_terminates op a b ss ra rb :
  chain ss a ra -> chain ss b rb ->
  exists fuel r, bip_compare fuel op (Some [a; b]) ss = Ok r.
Proof.
  intros Ha Hb. destruct (get_constant_terminates _ _ _ Ha) as [fa Hfa].
  destruct (get_constant_terminates _ _ _ Hb) as [fb Hfb].
  exists (Nat.max fa fb). unfold bip_compare, get_two_constants.
  destruct (Hfa (Nat.max fa fb)) as [ca Eca]; [lia|].
  destruct (Hfb (Nat.max fa fb)) as [cb Ecb]; [lia|].
  rewrite Eca. simpl. destruct ca as [ca|]; [|eexists; reflexivity]. rewrite Ecb. simpl.
  destruct cb; eexists; reflexivity.
Qed.
