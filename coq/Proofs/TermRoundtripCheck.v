(* An executable test for the class `canonical` of Proofs/TermRoundtripMain.v: if
   canonicalb t = true then t is canonical, hence printing and parsing gives t back. *)
From Coq Require Import Lia String.
From Suiron Require Import Model.ParseTerm Model.Show Spec.SpecLists Proofs.ListProofs.
From Suiron Require Import Proofs.ParseTermProofs Proofs.ParseRoundtrip.
From Suiron Require Import Proofs.TermRoundtrip Proofs.TermRoundtripText Proofs.TermRoundtripComplex
  Proofs.TermRoundtripList Proofs.TermRoundtripMain.
Open Scope N_scope.

Definition tail_nodeb (n : term) : bool :=
  match n with
  | TList (TVar id name) nx c true => (id =? 0) && simple_var name && is_empty_list nx && (c =? 1)
  | TList TAnon nx c true => is_empty_list nx && (c =? 1)
  | _ => false
  end.

Fixpoint canonicalb (t : term) : bool :=
  match t with
  | TAtom s => wide_atom s
  | TInt z => ((- 2 ^ 63 <=? z) && (z <? 2 ^ 63))%Z
  | TVar id name => (id =? 0) && simple_var name
  | TAnon => true
  | TComplex (TAtom f :: ts) =>
      functor_name f && forallb canonicalb ts && (length (show_term t) <=? 1000)%nat
  | TList x nx c tv =>
      if is_nil x then is_nil nx && (c =? 0) && negb tv
      else
        negb tv && canonicalb x && (c =? node_count nx + 1) &&
        (tail_nodeb nx || (is_list nx && canonicalb nx))
  | _ => false
  end.

(* the tails of canonical lists *)
Definition can_tail (v : term) : Prop :=
  v = TAnon \/ exists name, v = TVar 0 name /\ simple_var name = true.

Lemma tail_nodeb_spec n : tail_nodeb n = true ->
  exists v, can_tail v /\ elems n = Some ([], Some v).
Proof.
  destruct n as [| | | | | | |x nx c tv|]; try discriminate. cbn [tail_nodeb].
  destruct x as [| | | | |id name| | |]; try discriminate; (destruct tv; [|discriminate]); intros H.
  - apply andb_true_iff in H as [He Hc]. exists TAnon. split; [now left|].
    cbn [elems is_nil]. now rewrite He, Hc.
  - apply andb_true_iff in H as [H Hc]. apply andb_true_iff in H as [H He].
    apply andb_true_iff in H as [Hid Hn]. apply N.eqb_eq in Hid. subst id.
    exists (TVar 0 name). split; [right; eauto|]. cbn [elems is_nil]. now rewrite He, Hc.
Qed.

Lemma can_list_with_tail l ts v :
  elems l = Some (ts, Some v) -> ts <> [] -> (forall t, In t ts -> canonical t) -> can_tail v ->
  canonical l.
Proof.
  intros He Hne Hts [->|(name & -> & Hn)].
  - now apply (can_list_anon l ts).
  - now apply (can_list_tail l ts name).
Qed.

(* a canonical list node has a view *)
Lemma canonical_list_view l : canonical l -> is_list l = true ->
  exists ts tl, elems l = Some (ts, tl) /\ (forall t, In t ts -> canonical t) /\
    (tl = None \/ exists v, tl = Some v /\ ts <> [] /\ can_tail v).
Proof.
  intros H Hl.
  inversion H as [s Hs|z Hz|name Hn| |f ts Hf Hts Hlen|l0 ts He Hts|l0 ts name He Hne Hts Hn
                  |l0 ts He Hne Hts];
    subst; try discriminate.
  - exists ts, None. auto.
  - exists ts, (Some (TVar 0 name)). split; [exact He|]. split; [exact Hts|]. right.
    exists (TVar 0 name). split; [reflexivity|]. split; [exact Hne|]. right. eauto.
  - exists ts, (Some TAnon). split; [exact He|]. split; [exact Hts|]. right.
    exists TAnon. split; [reflexivity|]. split; [exact Hne|]. now left.
Qed.

Theorem canonicalb_sound : forall t, canonicalb t = true -> canonical t.
Proof.
  induction t as [| |s|f|z|id name|ts IH|x nx c tv IHx IHnx|name args _] using term_ind';
    intros H; cbn [canonicalb] in H; try discriminate.
  - apply can_anon.
  - now apply can_atom.
  - apply can_int. apply andb_true_iff in H as [H1 H2]. apply Z.leb_le in H1. apply Z.ltb_lt in H2.
    split; assumption.
  - apply andb_true_iff in H as [Hid Hn]. apply N.eqb_eq in Hid. subst id. now apply can_var.
  - destruct ts as [|[| |f| | | | | |] ts']; try discriminate.
    apply andb_true_iff in H as [H Hlen]. apply andb_true_iff in H as [Hf Hts].
    apply Nat.leb_le in Hlen. inversion IH as [|y l _ IHts]; subst.
    apply can_complex; [exact Hf| |exact Hlen].
    intros t Ht. rewrite forallb_forall in Hts. rewrite Forall_forall in IHts.
    apply (IHts t Ht). now apply Hts.
  - destruct (is_nil x) eqn:Ex.
    + apply (can_list _ []); [|intros t []]. cbn [elems]. now rewrite Ex, H.
    + apply andb_true_iff in H as [H Hnx]. apply andb_true_iff in H as [H Hc].
      apply andb_true_iff in H as [Htv Hx]. apply negb_true_iff in Htv. subst tv.
      specialize (IHx Hx).
      apply orb_true_iff in Hnx as [Hnx|Hnx].
      * destruct (tail_nodeb_spec nx Hnx) as (v & Hv & He).
        apply (can_list_with_tail _ [x] v); [|discriminate| |exact Hv].
        -- cbn [elems]. now rewrite Ex, He, Hc.
        -- intros t [<-|[]]. exact IHx.
      * apply andb_true_iff in Hnx as [Hl Hcn]. specialize (IHnx Hcn).
        destruct (canonical_list_view nx IHnx Hl) as (ts & tl & He & Hts & Htl).
        assert (Hts' : forall t, In t (x :: ts) -> canonical t).
        { intros t [<-|Ht]; [exact IHx|now apply Hts]. }
        assert (He' : elems (TList x nx c false) = Some (x :: ts, tl)).
        { cbn [elems]. now rewrite Ex, He, Hc. }
        destruct Htl as [->|(v & -> & Hne & Hv)].
        -- now apply (can_list _ (x :: ts)).
        -- apply (can_list_with_tail _ (x :: ts) v); [exact He'|discriminate|exact Hts'|exact Hv].
Qed.

Corollary canonicalb_roundtrip : forall t fuel,
  canonicalb t = true -> (parse_fuel (show_term t) <= fuel)%nat ->
  parse_term fuel (show_term t) = Ok (POk t).
Proof. intros t fuel H. apply parse_term_show_canonical. now apply canonicalb_sound. Qed.

(* the test accepts what the constructors build *)
Example canonicalb_example :
  canonicalb (TComplex [TAtom [102];
                TComplex [TAtom [103]; TAtom [97]; TVar 0 (s2l "$X")];
                make_linked_list true [TInt 1; TInt (-2); TVar 0 (s2l "$T")];
                make_linked_list false [TAtom [97]; make_list_of_terms []; TAtom [98]];
                make_list_of_terms [];
                make_linked_list true [TAtom [97]; TAnon];
                TAnon]) = true.
Proof. vm_compute. reflexivity. Qed.

(* and rejects the terms that are not read back *)
Example canonicalb_rejects :
  map canonicalb
    [TVar 0 (s2l "$_"); TVar 1 (s2l "$X"); TNil; TComplex [];
     TComplex [TAtom (s2l "add"); TInt 1; TInt 2];
     make_linked_list true [TVar 0 (s2l "$T")];
     TList (TAtom [97]) empty_list 5 false] =
  [false; false; false; false; false; false; false].
Proof. vm_compute. reflexivity. Qed.
