(* C19 at term level: print-then-parse gives the term back, for the canonical terms:
     atoms           [A-Za-z0-9_] at both ends, [A-Za-z0-9_ ] between, not all digits
                     (`wide_atom`; the atoms [a-z][A-Za-z0-9_]* are among them)
     integers        64-bit
     variables       $[A-Za-z][A-Za-z0-9_]* with id 0, and the anonymous variable $_
     complex terms   f(t1, ..., tn), n >= 0, f an atom [a-z][A-Za-z0-9_]* other than join, add, subtract,
                     multiply, divide; the ti canonical; the text at most 1000 characters
     lists           [t1, ..., tn], n >= 0, and [t1, ..., tn | $V], n >= 1, well formed in the
                     sense of Spec/SpecLists.v (`elems`), the ti canonical
   Floats are not covered.  What is outside is outside for a reason: see the examples at the
   end of this file and of Proofs/TermRoundtrip.v, Proofs/TermRoundtripComplex.v. *)
From Coq Require Import Lia String.
From Suiron Require Import Model.ParseTerm Model.Show Spec.SpecLists Proofs.ListProofs.
From Suiron Require Import Proofs.ParseTermProofs Proofs.ParseRoundtrip.
From Suiron Require Import Proofs.TermRoundtrip Proofs.TermRoundtripText Proofs.TermRoundtripComplex
  Proofs.TermRoundtripList.
Open Scope N_scope.

Inductive canonical : term -> Prop :=
| can_atom s : wide_atom s = true -> canonical (TAtom s)
| can_int z : i64_range z -> canonical (TInt z)
| can_var name : simple_var name = true -> canonical (TVar 0 name)
| can_anon : canonical TAnon
| can_complex f ts :
    functor_name f = true -> (forall t, In t ts -> canonical t) ->
    (length (show_term (TComplex (TAtom f :: ts))) <= 1000)%nat ->
    canonical (TComplex (TAtom f :: ts))
| can_list l ts :
    elems l = Some (ts, None) -> (forall t, In t ts -> canonical t) -> canonical l
| can_list_tail l ts name :
    elems l = Some (ts, Some (TVar 0 name)) -> ts <> [] -> (forall t, In t ts -> canonical t) ->
    simple_var name = true -> canonical l
| can_list_anon l ts :
    elems l = Some (ts, Some TAnon) -> ts <> [] -> (forall t, In t ts -> canonical t) -> canonical l.

(* ---- the list view determines the nodes ---- *)
Lemma elems_nodes : forall l xs tl, elems l = Some (xs, tl) ->
  l = list_nodes xs (match tl with None => empty_list | Some v => tail_node v end).
Proof.
  induction l as [| |a0|f0|z0|id0 nm0|ts0 _|x nx c tv _ IH|nm1 args1 _] using term_ind';
    intros xs tl H; cbn [elems] in H; try discriminate.
  destruct (is_nil x) eqn:Ex.
  - destruct (is_nil nx && (c =? 0) && negb tv) eqn:E; [|discriminate].
    inversion H; subst.
    apply andb_true_iff in E as [E Etv]. apply andb_true_iff in E as [En Ec].
    apply N.eqb_eq in Ec. apply negb_true_iff in Etv. subst.
    destruct x; try discriminate. destruct nx; try discriminate. reflexivity.
  - destruct tv.
    + destruct (is_empty_list nx && (c =? 1)) eqn:E; [|discriminate]. inversion H; subst.
      apply andb_true_iff in E as [En Ec]. apply N.eqb_eq in Ec. apply is_empty_list_eq in En.
      subst. reflexivity.
    + destruct (elems nx) as [[ys tl']|] eqn:En; [|discriminate].
      destruct (N.eqb_spec c (node_count nx + 1)) as [->|]; [|discriminate].
      inversion H; subst. cbn [list_nodes fold_right].
      rewrite <- (IH ys tl eq_refl) at 1 2. reflexivity.
Qed.

Lemma elems_non_nil : forall l xs tl, elems l = Some (xs, tl) -> non_nil_terms xs.
Proof.
  induction l as [| |a0|f0|z0|id0 nm0|ts0 _|x nx c tv _ IH|nm1 args1 _] using term_ind';
    intros xs tl H; cbn [elems] in H; try discriminate.
  destruct (is_nil x) eqn:Ex.
  - destruct (is_nil nx && (c =? 0) && negb tv); [|discriminate]. inversion H; subst. constructor.
  - destruct tv.
    + destruct (is_empty_list nx && (c =? 1)); [|discriminate]. inversion H; subst. constructor.
    + destruct (elems nx) as [[ys tl']|] eqn:En; [|discriminate].
      destruct (c =? node_count nx + 1); [|discriminate]. inversion H; subst.
      constructor; [exact Ex|]. eapply IH. reflexivity.
Qed.

(* ---- lengths ---- *)
Lemma join_length_ge sep ps p : In p ps -> (length p <= length (join_strs sep ps))%nat.
Proof.
  induction ps as [|q ps IH]; intros Hin; [contradiction|].
  destruct ps as [|q2 ps'].
  - destruct Hin as [->|[]]. cbn [join_strs]. lia.
  - rewrite join_strs_cons2, !app_length. destruct Hin as [->|Hin]; [lia|].
    specialize (IH Hin). eapply Nat.le_trans; [exact IH|]. apply Nat.le_trans with (length sep + length (join_strs sep (q2 :: ps')))%nat; [apply Nat.le_add_l|apply Nat.le_add_l].
Qed.

Lemma Forall_of_In {A} (P : A -> Prop) l : (forall x, In x l -> P x) -> Forall P l.
Proof. intros H. apply Forall_forall. exact H. Qed.

(* ---- the theorem ---- *)
Definition roundtrips (t : term) : Prop :=
  forall fuel, (parse_fuel (show_term t) <= fuel)%nat -> parse_term fuel (show_term t) = Ok (POk t).

Lemma canonical_facts t : canonical t ->
  good (show_term t) /\ is_nil t = false /\ roundtrips t.
Proof.
  intros H.
  induction H as [s Hs|z Hz|name Hn| |f ts Hf Hts IH Hlen|l ts He Hts IH|l ts name He Hne Hts IH Hn
                  |l ts He Hne Hts IH].
  - (* atom *)
    split; [now apply good_wide_atom|]. split; [reflexivity|].
    intros fuel Hfuel. unfold parse_fuel in Hfuel. destruct fuel as [|fuel]; [lia|].
    now apply parse_term_show_wide_atom.
  - (* integer *)
    split; [apply good_word, show_Z_word|]. split; [reflexivity|].
    intros fuel Hfuel. unfold parse_fuel in Hfuel. destruct fuel as [|fuel]; [lia|].
    now apply parse_term_show_int.
  - (* variable *)
    split.
    { cbn [show_term]. change (0 =? 0) with true. cbv iota. apply good_word. now apply simple_var_word. }
    split; [reflexivity|].
    intros fuel Hfuel. unfold parse_fuel in Hfuel. destruct fuel as [|fuel]; [lia|].
    now apply parse_term_show_var.
  - (* anonymous variable *)
    split.
    { apply good_word. split; [discriminate|]. split; [repeat constructor|discriminate]. }
    split; [reflexivity|].
    intros fuel Hfuel. unfold parse_fuel in Hfuel. destruct fuel as [|fuel]; [cbn in Hfuel; lia|].
    apply parse_term_show_anon.
  - (* complex term *)
    assert (Hg : Forall (fun t => good (show_term t)) ts).
    { apply Forall_of_In. intros t Ht. apply (IH t Ht). }
    pose proof Hf as Hf'. unfold functor_name in Hf'. apply andb_true_iff in Hf' as [Hs _].
    pose proof (simple_atom_word f Hs) as Hfw.
    split.
    { rewrite show_complex_text. apply good_call; [exact Hfw|now apply Forall_map_good]. }
    split; [reflexivity|].
    intros fuel Hfuel. unfold parse_fuel in Hfuel.
    assert (Hw : (length (show_term (TComplex (TAtom f :: ts))) =
                  length f + 2 + length (join_strs sep_comma (map show_term ts)))%nat).
    { rewrite show_complex_text. unfold call_text. rewrite app_length. cbn [length].
      rewrite app_length. cbn [length]. lia. }
    assert (Hfl : (1 <= length f)%nat).
    { destruct Hfw as [Hne _]. destruct f; [now elim Hne|cbn [length]; lia]. }
    destruct fuel as [|[|fuel]]; [lia|lia|].
    apply parse_term_show_complex; [exact Hf|exact Hg| |exact Hlen].
    apply Forall_of_In. intros t Ht. apply (IH t Ht). unfold parse_fuel.
    pose proof (join_length_ge sep_comma (map show_term ts) (show_term t) (in_map show_term ts t Ht)).
    lia.
  - (* list *)
    pose proof (elems_nodes l ts None He) as El. cbv iota in El.
    pose proof (elems_non_nil l ts None He) as Hnn.
    rewrite <- make_list_of_terms_nodes in El. subst l.
    assert (Hg : Forall (fun t => good (show_term t)) ts).
    { apply Forall_of_In. intros t Ht. apply (IH t Ht). }
    split.
    { rewrite show_list_plain by exact Hnn. apply good_list. now apply Forall_map_good. }
    split; [destruct ts; reflexivity|].
    intros fuel Hfuel. unfold parse_fuel in Hfuel.
    assert (Hw : (length (show_term (make_list_of_terms ts)) =
                  2 + length (join_strs sep_comma (map show_term ts)))%nat).
    { rewrite show_list_plain by exact Hnn. unfold list_text. cbn [length].
      rewrite app_length. cbn [length]. lia. }
    destruct fuel as [|fuel]; [lia|].
    apply parse_term_show_list; [exact Hnn|exact Hg|].
    apply Forall_of_In. intros t Ht. apply (IH t Ht). unfold parse_fuel.
    pose proof (join_length_ge sep_comma (map show_term ts) (show_term t) (in_map show_term ts t Ht)).
    lia.
  - (* list with a tail variable *)
    pose proof (elems_nodes l ts _ He) as El. cbv iota in El.
    pose proof (elems_non_nil l ts _ He) as Hnn. subst l.
    assert (Hg : Forall (fun t => good (show_term t)) ts).
    { apply Forall_of_In. intros t Ht. apply (IH t Ht). }
    assert (Hshow : show_term (list_nodes ts (tail_node (TVar 0 name))) =
                    list_text_bar (map show_term ts) name).
    { rewrite show_list_tail by (assumption || reflexivity).
      cbn [show_term]. change (0 =? 0) with true. reflexivity. }
    split.
    { rewrite Hshow. apply good_list_bar; [now apply Forall_map_good|].
      apply good_word. now apply simple_var_word. }
    split; [destruct ts; [now elim Hne|reflexivity]|].
    intros fuel Hfuel. unfold parse_fuel in Hfuel.
    assert (Hw : (2 + length (join_strs sep_comma (map show_term ts)) <=
                  length (show_term (list_nodes ts (tail_node (TVar 0 name)))))%nat).
    { rewrite Hshow. unfold list_text_bar. cbn [length].
      rewrite !app_length. cbn [length]. lia. }
    destruct fuel as [|fuel]; [lia|].
    apply parse_term_show_list_tail; [exact Hne|exact Hnn|exact Hg| |exact Hn].
    apply Forall_of_In. intros t Ht. apply (IH t Ht). unfold parse_fuel.
    pose proof (join_length_ge sep_comma (map show_term ts) (show_term t) (in_map show_term ts t Ht)).
    lia.
  - (* list with the anonymous variable as its tail *)
    pose proof (elems_nodes l ts _ He) as El. cbv iota in El.
    pose proof (elems_non_nil l ts _ He) as Hnn. subst l.
    assert (Hg : Forall (fun t => good (show_term t)) ts).
    { apply Forall_of_In. intros t Ht. apply (IH t Ht). }
    assert (Hshow : show_term (list_nodes ts (tail_node TAnon)) =
                    list_text_bar (map show_term ts) anon_text).
    { rewrite show_list_tail by (assumption || reflexivity). reflexivity. }
    split.
    { rewrite Hshow. apply good_list_bar; [now apply Forall_map_good|].
      apply good_word, anon_word. }
    split; [destruct ts; [now elim Hne|reflexivity]|].
    intros fuel Hfuel. unfold parse_fuel in Hfuel.
    assert (Hw : (2 + length (join_strs sep_comma (map show_term ts)) <=
                  length (show_term (list_nodes ts (tail_node TAnon))))%nat).
    { rewrite Hshow. unfold list_text_bar. cbn [length].
      rewrite !app_length. cbn [length]. lia. }
    destruct fuel as [|fuel]; [lia|].
    apply parse_term_show_list_anon; [exact Hne|exact Hnn|exact Hg|].
    apply Forall_of_In. intros t Ht. apply (IH t Ht). unfold parse_fuel.
    pose proof (join_length_ge sep_comma (map show_term ts) (show_term t) (in_map show_term ts t Ht)).
    lia.
Qed.

(* print-then-parse gives the term back, with any fuel from parse_fuel on *)
Theorem parse_term_show_canonical : forall t fuel,
  canonical t -> (parse_fuel (show_term t) <= fuel)%nat ->
  parse_term fuel (show_term t) = Ok (POk t).
Proof. intros t fuel H. now apply (canonical_facts t H). Qed.

(* ---- the lists of the constructors are canonical ---- *)
Lemma non_nil_canonical ts : (forall t, In t ts -> canonical t) -> non_nil ts.
Proof.
  intros H. apply Forall_forall. intros t Ht. apply (canonical_facts t (H t Ht)).
Qed.

Theorem canonical_make_list_of_terms ts :
  (forall t, In t ts -> canonical t) -> canonical (make_list_of_terms ts).
Proof.
  intros H. apply (can_list _ ts); [|exact H].
  apply make_list_of_terms_spec. now apply non_nil_canonical.
Qed.

(* make_linked_list(false, [t1 ... tn]), the last term not itself a list (a trailing list is
   spliced in by this constructor) *)
Theorem canonical_make_linked_list ts last :
  (forall t, In t (ts ++ [last]) -> canonical t) -> is_list last = false ->
  canonical (make_linked_list false (ts ++ [last])).
Proof.
  intros H Hl.
  assert (Hnn : non_nil (ts ++ [last])) by (now apply non_nil_canonical).
  apply Forall_app in Hnn as [Hn1 Hn2]. inversion Hn2 as [|x l Hlast _]; subst.
  apply (can_list _ (ts ++ [last])); [|exact H].
  destruct ts as [|t0 ts'] eqn:Ets.
  - cbn [app]. apply (mll_single false last Hlast).
  - rewrite <- Ets in *. apply (mll_plain false ts last); try assumption. rewrite Ets. discriminate.
Qed.

(* make_linked_list(true, [t1 ... tn, $V]), n >= 1 *)
Theorem canonical_make_linked_list_tail ts v :
  ts <> [] -> (forall t, In t ts -> canonical t) -> simple_var v = true ->
  canonical (make_linked_list true (ts ++ [TVar 0 v])).
Proof.
  intros Hne H Hv.
  apply (can_list_tail _ ts v); [|exact Hne|exact H|exact Hv].
  apply (mll_plain true ts (TVar 0 v)); try reflexivity; [exact Hne|now apply non_nil_canonical].
Qed.

(* make_linked_list(true, [t1 ... tn, $_]), n >= 1 *)
Theorem canonical_make_linked_list_anon ts :
  ts <> [] -> (forall t, In t ts -> canonical t) ->
  canonical (make_linked_list true (ts ++ [TAnon])).
Proof.
  intros Hne H.
  apply (can_list_anon _ ts); [|exact Hne|exact H].
  apply (mll_plain true ts TAnon); try reflexivity; [exact Hne|now apply non_nil_canonical].
Qed.

(* ---- what is outside ---- *)
(* `[a | $_]`: the anonymous variable as a tail was rejected by the parser until the repair 5e5ae04
   (found by this proof work); it now reads back, and is in `canonical` (can_list_anon). *)
Example list_anon_tail_reads_back :
  parse_term 10 (show_term (make_linked_list true [TAtom [97]; TAnon])) =
  Ok (POk (make_linked_list true [TAtom [97]; TAnon])).
Proof. vm_compute. reflexivity. Qed.

(* a list that consists of a tail variable only is printed as `[$T]` *)
Example list_only_tail_not_read_back :
  parse_term 10 (show_term (make_linked_list true [TVar 0 (s2l "$T")])) =
  Ok (POk (make_linked_list false [TVar 0 (s2l "$T")])).
Proof. vm_compute. reflexivity. Qed.

(* a concrete canonical term: f(g(a, $X), [1, -2 | $T], [], $_) *)
Example canonical_example :
  let t := TComplex [TAtom [102];
             TComplex [TAtom [103]; TAtom [97]; TVar 0 (s2l "$X")];
             make_linked_list true [TInt 1; TInt (-2); TVar 0 (s2l "$T")];
             make_list_of_terms [];
             TAnon] in
  parse_term (parse_fuel (show_term t)) (show_term t) = Ok (POk t).
Proof. vm_compute. reflexivity. Qed.
